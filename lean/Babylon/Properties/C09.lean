/-
  Property C09 — Epoch: nothing becomes reclaimable while a reader that may see it is in a region.
  Property theorems only; the model is Babylon/Epoch/Model.lean over the view memory model
  Babylon/Core/MemView.lean, helper lemmas and invariants are in Babylon/Epoch/Lemmas*.lean.
-/
import Babylon.Epoch.Model

namespace Babylon.Properties.C09
open Babylon.Epoch Babylon.Gen.Epoch Babylon.Core Babylon.Core.MemView

/-! ### Generated obligations: the source is the one the model was written against -/

theorem gen_skel_lock : skel_lock = Skel.lock := by decide
theorem gen_skel_unlock : skel_unlock = Skel.unlock := by decide
theorem gen_skel_lock_tls : skel_lock_tls = Skel.lock_tls := by decide
theorem gen_skel_unlock_tls : skel_unlock_tls = Skel.unlock_tls := by decide
theorem gen_skel_create_accessor : skel_create_accessor = Skel.create_accessor := by decide
theorem gen_skel_accessor_plumbing :
    skel_accessor_number = Skel.accessor_number ∧ skel_unregister_accessor = Skel.unregister_accessor ∧
    skel_accessor_lock = Skel.accessor_lock ∧ skel_accessor_unlock = Skel.accessor_unlock ∧
    skel_accessor_release = Skel.accessor_release := by decide
theorem gen_skel_low_water_mark : skel_low_water_mark = Skel.low_water_mark := by decide
theorem gen_skel_ensure_slow : skel_ensure_slow = Skel.ensure_slow ∧ ensureCasStrong = true := by decide
/-- the preprocessor of this build selects the x86 branch of `tick`: one `seq_cst` RMW -/
theorem gen_skel_tick : skel_tick = Skel.tick_x86 ∧ tickSelectedIsX86 = true ∧ tickFenceOrd = none := by decide
/-- structure of lock / unlock / tick / low_water_mark the model hard-wires -/
theorem gen_structure :
    lockDepthStep = 1 ∧ lockPublishDepth = 1 ∧ lockStoresLoadedVersion = true ∧ lockIndexesSlotsByIndex = true ∧
    unlockClearDepth = 1 ∧ unlockDepthStep = 1 ∧ unlockStoresMax = true ∧
    tickReturnPlus = 1 ∧ tickIncrement = 1 ∧
    scanBoundIsMinCountSize = true ∧ scanCountFromAccessorNumber = true ∧ scanFallsBackToThreadIds = true ∧
    scanStartsFromMax = true ∧ scanTakesMinimum = true ∧ scanSnapshotBeforeCount = true ∧
    slotInitIsMax = true ∧ slotInitLockTimes = 0 ∧ versionOffset = 0 ∧ maxVersion = 2 ^ 64 - 1 := by decide

end Babylon.Properties.C09
