/-
  Property C09 — property theorems only (helper lemmas live next to the model).
  Stub: nothing claimed yet.
-/
namespace Babylon.Properties.C09
end Babylon.Properties.C09
