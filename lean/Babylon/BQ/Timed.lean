/-
  The timed exclusive pop (`try_pop_n_exclusively_until`): the remaining timeout handed to futex_wait
  never exceeds the timeout of the call, and it shrinks by the time read from the clock.
-/
import Babylon.BQ.Progress

namespace Babylon.BQ
open Babylon.Core Babylon.Gen.BQ

/-- remaining timeout of a thread inside (or about to enter) the timed wait -/
def Pc.timedTmo : Pc → Option Nat
  | .xIdx _ _ tmo => some tmo
  | .wait (.timed _ _ _ _ tmo) _ => some tmo
  | _ => none

@[simp] theorem tt_runK (k : K) : (runK k).timedTmo = none := by
  cases k with
  | ret r => rfl
  | block w k g => simp only [runK, startWaitSeg]; split <;> rfl
  | tryNext x g => simp only [runK]; split <;> rfl
  | comp g => rfl
  | back cc => rfl
@[simp] theorem tt_tryDecide (x : TryCtx) (g : Seg) (n : Nat) : (tryDecide x g n).timedTmo = none := by
  unfold tryDecide; split
  · exact tt_runK _
  · rfl
@[simp] theorem tt_afterStores (b : BCtx) : (afterStores b).timedTmo = none := by
  unfold afterStores; split
  · rfl
  · exact tt_runK _
@[simp] theorem tt_nextWake (b : BCtx) (j : Nat) : (nextWake b j).timedTmo = none := by
  unfold nextWake; split
  · rfl
  · exact tt_runK _
@[simp] theorem tt_afterWait (c : Cfg) (x : WCtx) : (afterWait c x).timedTmo = none := by
  cases x with
  | single sd i w k => rfl
  | batch g j w k kk => simp only [afterWait]; split <;> rfl
  | timed w i n a b => rfl
@[simp] theorem tt_startWaitSeg (g : Seg) (w k : Bool) (kk : K) : (startWaitSeg g w k kk).timedTmo = none := by
  unfold startWaitSeg; split <;> rfl
theorem tt_blockHead (x : WCtx) (cur : Nat) : (blockHead x cur).timedTmo = (Pc.wait x .load0).timedTmo := by
  unfold blockHead; split <;> cases x <;> rfl

/-- the remaining timeout of a thread never grows along its own steps -/
theorem step_timedTmo (c : Cfg) (s s' : State) (u : Nat) (inp : Inp) (l : Act)
    (h : stepThread c s u inp = some (s', l)) (tmo' : Nat) (ht : (s'.pc u).timedTmo = some tmo') :
    ∃ tmo, (s.pc u).timedTmo = some tmo ∧ tmo' ≤ tmo := by
  cases hp : s.pc u
  case idle => simp [stepThread, hp] at h
  case retd r => simp [stepThread, hp] at h
  case xIdx wk num tmo =>
    simp only [stepThread, hp, Option.some.injEq, Prod.mk.injEq] at h
    rw [← h.1, setPc_self] at ht
    exact ⟨tmo, rfl, by simp only [Pc.timedTmo, Option.some.injEq] at ht; omega⟩
  case wait x w =>
    cases x with
    | timed wk i num a b =>
      refine ⟨b, rfl, ?_⟩
      cases w <;> simp only [stepThread, hp] at h
      case load0 | reload | spin | woken | fwait | cas | asleep | clk0 =>
        (repeat' split at h) <;> first
          | (cases h; done)
          | (simp only [Option.some.injEq, Prod.mk.injEq] at h
             rw [← h.1, setPc_self] at ht
             first
               | (rw [tt_afterWait] at ht; cases ht)
               | (rw [tt_blockHead] at ht; simp only [Pc.timedTmo, Option.some.injEq] at ht; omega)
               | (simp only [Pc.timedTmo, Option.some.injEq] at ht; omega))
      case clk1 cur =>
        simp only [Option.some.injEq, Prod.mk.injEq] at h
        obtain ⟨h, -⟩ := h
        split at h
        · rw [← h, setPc_self, tt_afterWait] at ht; cases ht
        · rw [← h, setPc_self, tt_blockHead] at ht
          simp only [Pc.timedTmo, Option.some.injEq] at ht; omega
    | single sd i wt wk =>
      exfalso
      cases w <;> simp only [stepThread, hp] at h <;>
        ((repeat' split at h) <;> first
          | (cases h; done)
          | (simp only [Option.some.injEq, Prod.mk.injEq] at h
             rw [← h.1, setPc_self] at ht
             first
               | (rw [tt_afterWait] at ht; cases ht)
               | (rw [tt_blockHead] at ht; cases ht)
               | cases ht))
    | batch g j wt wk k =>
      exfalso
      cases w <;> simp only [stepThread, hp] at h <;>
        ((repeat' split at h) <;> first
          | (cases h; done)
          | (simp only [Option.some.injEq, Prod.mk.injEq] at h
             rw [← h.1, setPc_self] at ht
             first
               | (rw [tt_afterWait] at ht; cases ht)
               | (rw [tt_blockHead] at ht; cases ht)
               | cases ht))
  all_goals
    exfalso
    simp only [stepThread, hp] at h
    (repeat' split at h) <;> first
      | (cases h; done)
      | (simp only [Option.some.injEq, Prod.mk.injEq] at h
         rw [← h.1] at ht
         first
           | (rw [setPc_self] at ht; revert ht; (repeat' split) <;> first | (simp; done) | simp [Pc.timedTmo])
           | (simp only [State.setPc, upd_self] at ht; revert ht; (repeat' split) <;> first | (simp; done) | simp [Pc.timedTmo]))

/-- the call a thread executes bounds the timeout it still waits for -/
def TInv (y : Sys) : Prop :=
  ∀ t tmo, (y.s.pc t).timedTmo = some tmo → ∃ wk n T, y.cur t = some (.timedPopN wk n T) ∧ tmo ≤ T

theorem tt_entry (k : Call) (tmo : Nat) (h : k.entry.timedTmo = some tmo) : ∃ wk n, k = .timedPopN wk n tmo := by
  cases k <;> simp only [Call.entry] at h <;> (try split at h) <;> try (cases h; done)
  rename_i wk n T
  simp only [Pc.timedTmo, Option.some.injEq] at h; subst h; exact ⟨wk, n, rfl⟩

theorem tinv_step {c : Cfg} {y y' : Sys} (hS : SInv c y.s) (hT : TInv y) (h : Step c y y') : TInv y' := by
  cases h with
  | act u inp s' l hs =>
    intro t tmo' ht
    by_cases htu : t = u
    · subst htu
      obtain ⟨tmo, h1, h2⟩ := step_timedTmo c y.s s' t inp l hs tmo' ht
      obtain ⟨wk, n, T, h3, h4⟩ := hT t tmo h1
      exact ⟨wk, n, T, h3, by omega⟩
    · have hw := step_wsum c y.s s' u inp l hs (hS.s0 u)
      rcases hw.others t htu with h1 | ⟨x, cur, h1, h2, _⟩
      · rw [show ({ y with s := s' } : Sys).s.pc t = s'.pc t from rfl, h1] at ht; exact hT t tmo' ht
      · rw [show ({ y with s := s' } : Sys).s.pc t = s'.pc t from rfl, h2] at ht
        exact hT t tmo' (by rw [h1]; cases x <;> exact ht)
  | call u k hidle _ _ =>
    intro t tmo' ht
    by_cases htu : t = u
    · subst htu
      simp only [setPc_self] at ht
      obtain ⟨wk, n, rfl⟩ := tt_entry k tmo' ht
      exact ⟨wk, n, tmo', by simp [upd], Nat.le_refl _⟩
    · simp only [setPc_other _ _ _ t htu] at ht
      obtain ⟨wk, n, T, h3, h4⟩ := hT t tmo' ht
      exact ⟨wk, n, T, by simp [upd, htu, h3], h4⟩
  | ret u res hret =>
    intro t tmo' ht
    by_cases htu : t = u
    · subst htu; simp only [setPc_self] at ht; cases ht
    · simp only [setPc_other _ _ _ t htu] at ht
      obtain ⟨wk, n, T, h3, h4⟩ := hT t tmo' ht
      exact ⟨wk, n, T, by simp [upd, htu, h3], h4⟩
  | spuriousWake u x cur hp =>
    intro t tmo' ht
    by_cases htu : t = u
    · subst htu; simp only [setPc_self] at ht
      exact hT t tmo' (by rw [hp]; cases x <;> exact ht)
    · simp only [setPc_other _ _ _ t htu] at ht; exact hT t tmo' ht

theorem tinv_reach {c : Cfg} {y : Sys} (h : ReachF c y) : TInv y := by
  have : SInv c y.s ∧ TInv y := by
    refine Reachable.invariant (fun y => SInv c y.s ∧ TInv y) ?_ ?_ y h
    · intro s hs; rw [hs]; exact ⟨sinv_init c, fun t tmo ht => by cases ht⟩
    · intro a b hi hs; exact ⟨sinv_sys_step hi.1 hs.1, tinv_step hi.1 hi.2 hs.1⟩
  exact this.2

/-- a clock reading at or past the deadline ends the timed wait (the model's `clk1` step, which is the
`wait_duration <= 0` test of block_until_reach_expected_version_slow) -/
theorem timed_expiry (c : Cfg) (s : State) (u : Nat) (inp : Inp) (wk : Bool) (i num tb tmo cur : Nat)
    (hp : s.pc u = .wait (.timed wk i num tb tmo) (.clk1 cur)) (hexp : tmo ≤ inp.now - tb) :
    ∃ s' l, stepThread c s u inp = some (s', l) ∧
      s'.pc u = .nIdx .pop { conc := false, wake := wk, acc := 0, g2 := none, back := none } num := by
  have e : stepThread c s u inp = some (({ s with now := inp.now } : State).setPc u (afterWait c (.timed wk i num tb tmo)),
      .ev ["clock", natStr inp.now]) := by
    simp only [stepThread, hp, hexp, if_true]
  exact ⟨_, _, e, by simp [State.setPc, upd, afterWait]⟩

end Babylon.BQ
