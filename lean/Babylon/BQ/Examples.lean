/- Concrete reachable states (capacity 2, one producer) used as non-vacuity witnesses by the property files. -/
import Babylon.BQ.Props
namespace Babylon.BQ
open Babylon.Core Babylon.Gen.BQ

def exCfg : Cfg := { bits := 1 }
def exCall : Call := .push true false true
def ex1 : Sys := { s := Sys.init.s.setPc 1 exCall.entry, cur := upd Sys.init.cur 1 (some exCall), start := upd Sys.init.start 1 Sys.init.s.idx }
def ex2 : Sys := { ex1 with s := (ex1.s.setIdx .push 1).setPc 1 (.wait (.single .push 0 false true) .load0) }
def ex3 : Sys := { ex2 with s := ex2.s.setPc 1 (.sCbB .push 0 true 0) }
def ex4 : Sys := { ex3 with s := ex3.s.setPc 1 (.sCbE .push 0 true 0) }

theorem faithful_one (c : Cfg) (s : State) (p : Pc) (hpc : s.pc = upd (fun _ => Pc.idle) 1 p) (hv : ∀ sl, s.ver sl = 0)
    (hp : ∀ sl E, p.cmp c = some (sl, E) → E < 65536) : ∀ t, Faithful c s t := by
  apply faithful_of_small c s (fun sl => by rw [hv]; omega)
  intro t sl E h
  rw [hpc] at h
  by_cases ht : t = 1
  · subst ht; simp only [upd, if_true] at h; exact hp sl E h
  · simp only [upd, ht, if_false] at h; cases h

theorem ex1_reach : ReachF exCfg ex1 := by
  refine Reachable.tail (Reachable.base rfl) ⟨Step.call Sys.init 1 exCall rfl (by decide) ?_, ?_⟩
  · intro sd u _ k' h; cases h
  · exact faithful_one exCfg _ .idle (by funext u; simp [Sys.init, State.init, upd]) (fun _ => rfl) (fun _ _ h => by cases h)

theorem ex2_reach : ReachF exCfg ex2 := by
  refine Reachable.tail ex1_reach ⟨Step.act ex1 1 {} _ (.rmw "add" "pushidx" 0 .rlx 0 1) rfl, ?_⟩
  exact faithful_one exCfg _ exCall.entry rfl (fun _ => rfl) (fun _ _ h => by cases h)

theorem ex3_reach : ReachF exCfg ex3 := by
  refine Reachable.tail ex2_reach ⟨Step.act ex2 1 {} _ (.ld "slot" 8 .acq 0) rfl, ?_⟩
  refine faithful_one exCfg _ (.wait (.single .push 0 false true) .load0) ?_ (fun _ => rfl) ?_
  · funext u; simp [ex2, ex1, State.setPc, State.setIdx, upd, Sys.init, State.init]; split <;> simp_all
  · intro sl E h; simp [Pc.cmp, WCtx.E, expVer, exCfg, Cfg.cap] at h; omega

theorem ex4_reach : ReachF exCfg ex4 := by
  refine Reachable.tail ex3_reach ⟨Step.act ex3 1 {} _ (.ev ["cbb", "0", "1"]) rfl, ?_⟩
  refine faithful_one exCfg _ (.sCbB .push 0 true 0) ?_ (fun _ => rfl) (fun _ _ h => by cases h)
  funext u; simp [ex3, ex2, ex1, State.setPc, State.setIdx, upd, Sys.init, State.init]; split <;> simp_all

end Babylon.BQ

namespace Babylon.BQ
open Babylon.Core Babylon.Gen.BQ
/-! a consumer that goes to sleep on the empty queue (capacity 2): pop<true,true,true> -/
def exPop : Call := .pop true true true
def xw : WCtx := .single .pop 0 true true
def sl1 : Sys := { s := Sys.init.s.setPc 1 exPop.entry, cur := upd Sys.init.cur 1 (some exPop), start := upd Sys.init.start 1 Sys.init.s.idx }
def sl2 : Sys := { sl1 with s := (sl1.s.setIdx .pop 1).setPc 1 (.wait xw .load0) }
def sl3 : Sys := { sl2 with s := sl2.s.setPc 1 (.wait xw (.cas 0)) }
def sl4 : Sys := { sl3 with s := ({ sl3.s with wbit := upd sl3.s.wbit 0 true } : State).setPc 1 (.wait xw (.fwait 65536)) }
def sl5 : Sys := { sl4 with s := sl4.s.setPc 1 (.wait xw (.asleep 65536)) }

theorem xw_cmp (w : WS) (sl E : Nat) (h : (Pc.wait xw w).cmp exCfg = some (sl, E)) : E < 65536 := by
  cases w <;> simp [Pc.cmp, xw, WCtx.E, expVer, exCfg, Cfg.cap] at h <;> omega

theorem sl1_reach : ReachF exCfg sl1 := by
  refine Reachable.tail (Reachable.base rfl) ⟨Step.call Sys.init 1 exPop rfl (by decide) ?_, ?_⟩
  · intro sd u _ k' h; cases h
  · exact faithful_one exCfg _ .idle (by funext u; simp [Sys.init, State.init, upd]) (fun _ => rfl) (fun _ _ h => by cases h)
theorem sl2_reach : ReachF exCfg sl2 := by
  refine Reachable.tail sl1_reach ⟨Step.act sl1 1 {} _ (.rmw "add" "popidx" 0 .rlx 0 1) rfl, ?_⟩
  exact faithful_one exCfg _ exPop.entry rfl (fun _ => rfl) (fun _ _ h => by cases h)
theorem sl_pc (p : Pc) : upd (upd (fun _ => Pc.idle) 1 exPop.entry) 1 p = upd (fun _ => Pc.idle) 1 p := by
  funext u; simp only [upd]; split <;> rfl
theorem sl3_reach : ReachF exCfg sl3 := by
  refine Reachable.tail sl2_reach ⟨Step.act sl2 1 {} _ (.ld "slot" 8 .acq 0) rfl, ?_⟩
  exact faithful_one exCfg _ (.wait xw .load0) (sl_pc _) (fun _ => rfl) (xw_cmp _)
theorem sl4_reach : ReachF exCfg sl4 := by
  refine Reachable.tail sl3_reach ⟨Step.act sl3 1 {} _ (.cas "slot" 8 false .acq .acq 0 65536 true 0) rfl, ?_⟩
  refine faithful_one exCfg _ (.wait xw (.cas 0)) ?_ (fun _ => rfl) (xw_cmp _)
  funext u; simp only [sl3, sl2, sl1, State.setPc, State.setIdx, upd, Sys.init, State.init]; split <;> rfl
theorem sl5_reach : ReachF exCfg sl5 := by
  refine Reachable.tail sl4_reach ⟨Step.act sl4 1 {} _ (.fwait "slot" 8 65536 true) rfl, ?_⟩
  refine faithful_one exCfg _ (.wait xw (.fwait 65536)) ?_ (fun _ => rfl) (xw_cmp _)
  funext u; simp only [sl4, sl3, sl2, sl1, State.setPc, State.setIdx, upd, Sys.init, State.init]; split <;> rfl
end Babylon.BQ
