/-
  `Inv` is an invariant of the whole transition system (`Step`), under `Ver16Faithful`.
-/
import Babylon.BQ.InvStep
import Babylon.Core.Reach

namespace Babylon.BQ
open Babylon.Core Babylon.Gen.BQ

/-- `Step` restricted to executions where the stepping thread's truncated comparison is faithful -/
def StepF (c : Cfg) (y y' : Sys) : Prop := Step c y y' ∧ ∀ t, Faithful c y.s t

theorem inv_act {c : Cfg} {y : Sys} {t : Nat} {s' : State} {inp : Inp} {l : Act} (hI : Inv c y)
    (h : stepThread c y.s t inp = some (s', l)) (hf : Faithful c y.s t) : Inv c { y with s := s' } := by
  have hsum := step_summary c y.s s' t inp l h (hI.pre t) hf
  cases hsum with
  | quiet hcore hoth hh hd com => exact inv_quiet hI hcore hoth hh hd com
  | acquire sd n hidx hidx' hver hval hpv hqv hoth hneed hh hd com =>
    exact inv_acquire hI sd n hidx hidx' hver hval hpv hqv hoth hneed hh hd com
  | release sd i hver hpi hqi hval hpv hqv hoth hheld hlbE hdone hh hd com =>
    exact inv_release hI sd i hver hpi hqi hval hpv hqv hoth hheld hlbE hdone hh hd com
  | callback g hg hcore hoth hheld hlbE hcb hh hd0 hd hpush hpop com =>
    exact inv_callback hI g hg hcore hoth hheld hlbE hh hd0 hd hpush hpop com

/-- attributes of a pc that holds nothing and remembers nothing -/
structure Blank (c : Cfg) (p : Pc) : Prop where
  held : ∀ sd i, ¬ p.held sd i
  cbDone : ∀ sd i, ¬ p.cbDone sd i
  lb : ∀ sl, p.lb c sl = 0
  expects : ∀ sd, p.expects sd = none

theorem blank_idle (c : Cfg) : Blank c .idle := ⟨fun _ _ h => h, fun _ _ h => h, fun _ => rfl, fun _ => rfl⟩
theorem blank_retd (c : Cfg) (r : Nat) : Blank c (.retd r) := ⟨fun _ _ h => h, fun _ _ h => h, fun _ => rfl, fun _ => rfl⟩

theorem blank_entry (c : Cfg) (k : Call) : Blank c k.entry := by
  cases k <;> simp only [Call.entry] <;> (try split) <;>
    exact ⟨fun _ _ h => h, fun _ _ h => h, fun _ => rfl, fun _ => rfl⟩

theorem entry_needs (k : Call) (sd : Side) : k.entry.needs sd ≤ k.level sd := by
  cases k with
  | push conc wait wake => cases conc <;> cases sd <;> simp [Call.entry, Call.level, Call.exclusive, Call.touches, Pc.needs, sideIf]
  | pop conc wait wake => cases conc <;> cases sd <;> simp [Call.entry, Call.level, Call.exclusive, Call.touches, Pc.needs, sideIf]
  | pushN conc wait wake n => cases conc <;> cases sd <;> simp [Call.entry, Call.level, Call.exclusive, Call.touches, Pc.needs, sideIf]
  | popN conc wait wake n => cases conc <;> cases sd <;> simp [Call.entry, Call.level, Call.exclusive, Call.touches, Pc.needs, sideIf]
  | tryPush conc wake => cases conc <;> cases sd <;> simp [Call.entry, Call.level, Call.exclusive, Call.touches, Pc.needs, sideIf, lvlConc]
  | tryPop conc wake => cases conc <;> cases sd <;> simp [Call.entry, Call.level, Call.exclusive, Call.touches, Pc.needs, sideIf, lvlConc]
  | tryPushN conc wake n =>
    cases conc <;> cases sd <;> simp [Call.entry, Call.level, Call.exclusive, Call.touches, Pc.needs, sideIf, lvlConc, TryCtx.backNeeds]
  | tryPopN conc wake n =>
    cases conc <;> cases sd <;> simp [Call.entry, Call.level, Call.exclusive, Call.touches, Pc.needs, sideIf, lvlConc, TryCtx.backNeeds]
  | cpushN n => cases sd <;> simp [Call.entry, Call.level, Call.exclusive, Call.touches, Pc.needs]
  | cpopN n => cases sd <;> simp [Call.entry, Call.level, Call.exclusive, Call.touches, Pc.needs]
  | timedPopN wake n tmo => cases sd <;> simp [Call.entry, Call.level, Call.exclusive, Call.touches, Pc.needs, sideIf]
  | size => cases sd <;> simp [Call.entry, Call.level, Call.exclusive, Call.touches, Pc.needs]

theorem entry_wf (c : Cfg) (k : Call) (hp : k.paired c = true) : k.entry.wf c := by
  have hc := cap_pos c
  simp only [Call.paired, Bool.and_eq_true, decide_eq_true_eq] at hp
  have hn := hp.2
  cases k <;> simp only [Call.entry, Call.num] at hn ⊢ <;> (try split) <;>
    simp [Pc.wf, TryCtx.wf] <;> omega

theorem exclusive_touches (k : Call) (sd : Side) (h : k.exclusive sd = true) : k.touches sd = true := by
  cases k <;> cases sd <;> simp_all [Call.exclusive, Call.touches]

theorem level_zero_of_not_touches (k : Call) (sd : Side) (h : k.touches sd = false) : k.level sd = 0 := by
  simp only [Call.level, h]
  cases he : k.exclusive sd
  · simp
  · have := exclusive_touches k sd he; rw [h] at this; cases this

/-- a step that only replaces a blank pc of thread `t` by another blank pc, with new ghost `cur` / `start` for `t` -/
theorem inv_local {c : Cfg} {y : Sys} (hI : Inv c y) (t : Nat) (p' : Pc) (cur' : Option Call) (st' : Side → Nat)
    (hb : Blank c (y.s.pc t)) (hb' : Blank c p') (hwf : p'.wf c)
    (hneeds : ∀ sd, p'.needs sd ≤ optLevel cur' sd)
    (hex1 : ∀ u sd, u ≠ t → optLevel cur' sd = 2 → optLevel (y.cur u) sd = 0)
    (hex2 : ∀ u sd, u ≠ t → optLevel (y.cur u) sd = 2 → optLevel cur' sd = 0)
    (hst : ∀ sd, p' ≠ .idle → st' sd ≤ y.s.idx sd) :
    Inv c { s := y.s.setPc t p', cur := upd y.cur t cur', start := upd y.start t st' } := by
  have hpc : ∀ u, u ≠ t → (y.s.setPc t p').pc u = y.s.pc u := fun u hu => by simp [State.setPc, upd, hu]
  have hpct : (y.s.setPc t p').pc t = p' := by simp [State.setPc, upd]
  have hheld : ∀ u sd i, ((y.s.setPc t p').pc u).held sd i ↔ (y.s.pc u).held sd i := by
    intro u sd i; by_cases hu : u = t
    · subst hu; rw [hpct]; exact ⟨fun h => absurd h (hb'.held sd i), fun h => absurd h (hb.held sd i)⟩
    · rw [hpc u hu]
  have hdone : ∀ u sd i, ((y.s.setPc t p').pc u).cbDone sd i ↔ (y.s.pc u).cbDone sd i := by
    intro u sd i; by_cases hu : u = t
    · subst hu; rw [hpct]; exact ⟨fun h => absurd h (hb'.cbDone sd i), fun h => absurd h (hb.cbDone sd i)⟩
    · rw [hpc u hu]
  refine ⟨?_, ?_, ?_, ?_, ?_, ?_, ?_, ?_, ?_, ?_, ?_, ?_, ?_, ?_, ?_, ?_, ?_⟩ <;> dsimp only
  · intro u; by_cases hu : u = t
    · subst hu; rw [hpct]; exact hwf
    · rw [hpc u hu]; exact hI.wf u
  · intro a b sd i h1 h2; exact hI.uniq a b sd i ((hheld a sd i).1 h1) ((hheld b sd i).1 h2)
  · intro a sd i h1; exact hI.heldLt a sd i ((hheld a sd i).1 h1)
  · intro sd i h1 h2; exact hI.doneGt sd i h1 (fun a ha => h2 a ((hheld a sd i).2 ha))
  · exact hI.futLe
  · intro u sl; by_cases hu : u = t
    · subst hu; rw [hpct, hb'.lb]; exact Nat.zero_le _
    · rw [hpc u hu]; exact hI.lbLe u sl
  · intro u sd; by_cases hu : u = t
    · subst hu; rw [hpct, upd_self]; exact hneeds sd
    · rw [hpc u hu, upd_other _ _ _ _ hu]; exact hI.needsLe u sd
  · intro a b sd hab h1
    by_cases ha : a = t
    · subst ha; rw [upd_self] at h1; rw [upd_other _ _ _ _ (Ne.symm hab)]; exact hex1 b sd (Ne.symm hab) h1
    · rw [upd_other _ _ _ _ ha] at h1
      by_cases hbt : b = t
      · subst hbt; rw [upd_self]; exact hex2 a sd ha h1
      · rw [upd_other _ _ _ _ hbt]; exact hI.excl a b sd hab h1
  · intro u sd i h1; by_cases hu : u = t
    · subst hu; rw [hpct, hb'.expects] at h1; cases h1
    · rw [hpc u hu] at h1; exact hI.expOk u sd i h1
  · exact hI.valRd
  · intro a i h1; exact hI.valWr a i ((hdone a _ i).1 h1)
  · exact hI.popPush
  · intro sd i h1 h2
    exact hI.ghostDef sd i h1 (fun a ha => (hdone a sd i).1 (h2 a ((hheld a sd i).2 ha)))
  · exact hI.ghostLt
  · intro a sd i h1 h2
    exact hI.ghostNone a sd i ((hheld a sd i).1 h1) (fun h3 => h2 ((hdone a sd i).2 h3))
  · intro u sd hne; by_cases hu : u = t
    · subst hu; rw [upd_self]; rw [hpct] at hne; exact hst sd hne
    · rw [upd_other _ _ _ _ hu]; rw [hpc u hu] at hne; exact hI.startLe u sd hne
  · intro a sd i h1
    have h1' := (hheld a sd i).1 h1
    by_cases ha : a = t
    · subst ha; exact absurd h1' (hb.held sd i)
    · rw [upd_other _ _ _ _ ha]; exact hI.heldGe a sd i h1'

theorem init_idx (sd : Side) : Sys.init.s.idx sd = 0 := by cases sd <;> rfl
theorem init_ghost (sd : Side) (i : Nat) : Sys.init.s.ghostV sd i = none := by cases sd <;> rfl

theorem inv_init (c : Cfg) : Inv c Sys.init := by
  refine ⟨?_, ?_, ?_, ?_, ?_, ?_, ?_, ?_, ?_, ?_, ?_, ?_, ?_, ?_, ?_, ?_, ?_⟩
  · intro t; trivial
  · intro t u sd i h; cases h
  · intro t sd i h; cases h
  · intro sd i h; rw [init_idx] at h; omega
  · intro sd i _; exact Nat.zero_le _
  · intro t sl; exact Nat.zero_le _
  · intro t sd; exact Nat.zero_le _
  · intro t u sd _ h; simp [Sys.init, optLevel] at h
  · intro t sd i h; cases h
  · intro i h
    have : expVer c .pop i = 0 := h.symm
    unfold expVer at this; simp at this
  · intro t i h; cases h
  · intro i v h; cases h
  · intro sd i h; rw [init_idx] at h; omega
  · intro sd i h; exact absurd (init_ghost sd i) h
  · intro t sd i h; cases h
  · intro t sd h; exact absurd rfl h
  · intro t sd i h; cases h

theorem inv_step {c : Cfg} {y y' : Sys} (hI : Inv c y) (h : StepF c y y') : Inv c y' := by
  obtain ⟨hstep, hf⟩ := h
  cases hstep with
  | act t inp s' l hs => exact inv_act hI hs (hf t)
  | call t k hidle hpair hmay =>
    refine inv_local hI t k.entry (some k) y.s.idx (by rw [hidle]; exact blank_idle c) (blank_entry c k) (entry_wf c k hpair)
      (fun sd => entry_needs k sd) ?_ ?_ (fun sd _ => Nat.le_refl _)
    · intro u sd hu h1
      cases hcu : y.cur u with
      | none => rfl
      | some k' =>
        simp only [optLevel] at h1 ⊢
        have hex : k.exclusive sd = true := by
          simp only [Call.level] at h1; split at h1
          · assumption
          · split at h1 <;> omega
        exact level_zero_of_not_touches k' sd ((hmay sd u hu k' hcu).1 hex)
    · intro u sd hu h1
      cases hcu : y.cur u with
      | none => rw [hcu] at h1; simp [optLevel] at h1
      | some k' =>
        rw [hcu] at h1; simp only [optLevel] at h1 ⊢
        have hex : k'.exclusive sd = true := by
          simp only [Call.level] at h1; split at h1
          · assumption
          · split at h1 <;> omega
        exact level_zero_of_not_touches k sd ((hmay sd u hu k' hcu).2 hex)
  | ret t res hret =>
    have := inv_local hI t .idle none (y.start t) (by rw [hret]; exact blank_retd c res) (blank_idle c) trivial
      (fun sd => Nat.zero_le _) (fun u sd _ h1 => by simp [optLevel] at h1) (fun u sd _ _ => rfl) (fun sd h => absurd rfl h)
    have e : upd y.start t (y.start t) = y.start := by funext u; simp only [upd]; split <;> simp_all
    rw [e] at this; exact this
  | spuriousWake t x cur hp =>
    refine inv_quiet (t := t) hI ⟨rfl, rfl, rfl, rfl, rfl, rfl⟩ (others_upd c _ _ t (.wait x .woken) rfl) ?_ ?_ ⟨?_, ?_, ?_, ?_, ?_⟩
    · intro sd i; simp only [State.setPc, upd_self, hp]; rfl
    · intro sd i; simp only [State.setPc, upd_self, hp]; rfl
    · intro sd; simp only [State.setPc, upd_self, hp]; cases x <;> exact Nat.le_refl _
    · simp only [State.setPc, upd_self]; have := hI.wf t; rw [hp] at this; exact this
    · intro sl; simp only [State.setPc, upd_self]; have := hI.lbLe t sl; rw [hp] at this
      cases x <;> exact this
    · intro sd i h1; simp only [State.setPc, upd_self] at h1; exact hI.expOk t sd i (by rw [hp]; exact h1)
    · simp only [State.setPc, upd_self, hp]; simp

/-- states reachable by faithful executions -/
def ReachF (c : Cfg) : Sys → Prop := Reachable (· = Sys.init) (StepF c)

theorem inv_reach {c : Cfg} {y : Sys} (h : ReachF c y) : Inv c y :=
  Reachable.invariant (Inv c) (fun s hs => by rw [hs]; exact inv_init c) (fun _ _ hi hs => inv_step hi hs) y h

end Babylon.BQ
