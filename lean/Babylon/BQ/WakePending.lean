/-
  `S2`: a (non-timed) sleeper whose awaited version is present while the waiter bit of its slot is still
  set is owed a wake-up — by a thread committed to wake_all on that slot, or by the waking batch releaser
  that stored that version and has not finished `wakeup_waiters` for the slot.  Together with `SInv.s1`
  (waiter bit consumed ⇒ wake_all committed) this is "no lost wake-up" under the pairing rules, and with
  `no_cyclic_wait` it yields `no_stuck`: some thread that is inside an operation can always run, unless the
  queue waits for an operation the client has not issued.
-/
import Babylon.BQ.Wake2

namespace Babylon.BQ
open Babylon.Core Babylon.Gen.BQ

def S2 (c : Cfg) (y : Sys) : Prop :=
  ∀ t x cur, y.s.pc t = .wait x (.asleep cur) → x.isTimed = false →
    y.s.ver (x.slot c) = x.E c → y.s.wbit (x.slot c) = true →
    ∃ u, (y.s.pc u).strong c (x.slot c) ∨ (y.s.pc u).cond c (x.slot c) (x.E c)

/-- side of the ticket a non-timed wait context waits for -/
def WCtx.side : WCtx → Side
  | .single sd _ _ _ => sd
  | .batch g _ _ _ _ => g.sd
  | .timed .. => .pop

theorem wctx_mf (x : WCtx) (ht : x.isTimed = false) (hf : x.futex = true) : x.mf x.side := by
  cases x with
  | single sd i wt wk => exact ⟨hf, rfl⟩
  | batch g j wt wk k => exact Or.inl ⟨hf, rfl⟩
  | timed wk i n a b => cases ht

theorem wctx_E_side (c : Cfg) (x : WCtx) (hw : x.wf c) (ht : x.isTimed = false) :
    ∃ i, x.E c = expVer c x.side i := by
  cases x with
  | single sd i wt wk => exact ⟨i, rfl⟩
  | batch g j wt wk k => exact ⟨g.idx, rfl⟩
  | timed wk i n a b => cases ht

/-- the release that produces version `E` of a slot is done by the side opposite to the one that waits for `E` -/
theorem release_side (c : Cfg) (sd sd' : Side) (i i' : Nat) (h : expVer c sd i = expVer c sd' i' + 1) : sd' = sd.other := by
  unfold expVer at h
  cases sd <;> cases sd' <;> simp [Side.other] at h ⊢ <;> omega

theorem strong_not_wait (c : Cfg) (x : WCtx) (w : WS) (sl : Nat) : ¬ (Pc.wait x w).strong c sl := by
  rintro (⟨_, _, _, e, _⟩ | ⟨_, _, e, _⟩) <;> cases e
theorem cond_not_wait (c : Cfg) (x : WCtx) (w : WS) (sl v : Nat) : ¬ (Pc.wait x w).cond c sl v :=
  not_cond_of_ne c _ (by simp) (by simp) (by simp) (by simp) (by simp) sl v

theorem s2_act {c : Cfg} {y : Sys} {u : Nat} {s' : State} {inp : Inp} {l : Act}
    (hI : Inv c y) (hS : SInv c y.s) (hFi : FInv c y.s) (hFl : FlagInv c y) (h2 : S2 c y)
    (hs : stepThread c y.s u inp = some (s', l)) : S2 c { y with s := s' } := by
  have hw := step_wsum c y.s s' u inp l hs (hS.s0 u)
  have w2 := step_w2 c y.s s' u inp l hs (hI.wf u)
  intro t x cur hp' hnt hver' hbit'
  -- `t` was already asleep, and is not the stepping thread
  have htu : t ≠ u := by
    intro e; subst e
    obtain ⟨hpu, hword, hv, hb⟩ := asleep_origin c y.s s' t inp l hs x cur hp'
    have hne := hFi.f1 t x cur (by rw [hpu]; rfl)
    have : y.s.ver (x.slot c) = x.E c := by
      have : s'.ver (x.slot c) = x.E c := hver'
      rw [hv] at this; exact this
    apply hne
    rw [← hword, v16_word, this]
  have hp : y.s.pc t = .wait x (.asleep cur) := by
    rcases hw.others t htu with e | ⟨x', cur', _, e2, _⟩
    · have : s'.pc t = .wait x (.asleep cur) := hp'
      rw [e] at this; exact this
    · have : s'.pc t = .wait x (.asleep cur) := hp'
      rw [e2] at this; cases this
  have hasl : (s'.pc t).asleepOn c (x.slot c) := ⟨x, cur, hp', rfl⟩
  -- an obligation held by a thread other than `u` survives the step
  have keep : ∀ w, w ≠ u → ((y.s.pc w).strong c (x.slot c) ∨ (y.s.pc w).cond c (x.slot c) (x.E c)) →
      ∃ w', (s'.pc w').strong c (x.slot c) ∨ (s'.pc w').cond c (x.slot c) (x.E c) := by
    intro w hwu ho
    rcases hw.others w hwu with e | ⟨x', cur', e1, _, _⟩
    · exact ⟨w, by rw [e]; exact ho⟩
    · rw [e1] at ho
      rcases ho with ho | ho
      · exact absurd ho (strong_not_wait c _ _ _)
      · exact absurd ho (cond_not_wait c _ _ _ _)
  have hver'' : s'.ver (x.slot c) = x.E c := hver'
  have hbit'' : s'.wbit (x.slot c) = true := hbit'
  by_cases hP : y.s.ver (x.slot c) = x.E c ∧ y.s.wbit (x.slot c) = true
  · obtain ⟨w, ho⟩ := h2 t x cur hp hnt hP.1 hP.2
    by_cases hwu : w = u
    · subst hwu
      rcases ho with ho | ho
      · exact absurd hasl (hw.wakes _ ho t)
      · rcases w2.condKeep _ _ ho with k | k | k | k
        · exact ⟨w, Or.inr k⟩
        · exact ⟨w, Or.inl k⟩
        · rw [hP.2] at k; cases k
        · exact absurd (by rw [hP.1]) k
    · exact keep w hwu ho
  · rcases w2.slot (x.slot c) with ⟨e1, e2⟩ | ⟨e1, e2⟩ | ⟨e1, e2⟩ | ⟨sd, i, hheld, hsl, hlb, hv, hrest⟩
    · exact absurd ⟨by rw [← e1]; exact hver'', by rw [← e2]; exact hbit''⟩ hP
    · -- the waiter bit was just set: it had been consumed before, so a wake_all is committed
      have hv0 : y.s.ver (x.slot c) = x.E c := by rw [← e1]; exact hver''
      have hb0 : ¬ y.s.wbit (x.slot c) = true := fun hb => hP ⟨hv0, hb⟩
      rcases hS.s1 t (x.slot c) ⟨x, cur, hp, rfl⟩ with hb | ⟨w, ho⟩
      · exact absurd hb hb0
      · by_cases hwu : w = u
        · subst hwu; exact absurd hasl (hw.wakes _ ho t)
        · exact keep w hwu (Or.inl ho)
    · rw [e2] at hbit''; cases hbit''
    · rcases hrest with hb | ⟨hb, hc | hnw⟩
      · rw [hb] at hbit''; cases hbit''
      · exact ⟨u, Or.inr (by rw [hver''] at hc; exact hc)⟩
      · -- a non-waking release produced the awaited version: excluded by the pairing rules
        exfalso
        have hfx := hFi.f0 t x (by rw [hp]; rfl)
        have hmf : (y.s.pc t).mf x.side := by rw [hp]; exact wctx_mf x hnt hfx
        have h1 := (hFl t x.side).1 hmf
        have h2' := (hFl u sd).2 hnw
        obtain ⟨i0, hE⟩ := wctx_E_side c x (by have := hI.wf t; rw [hp] at this; exact this) hnt
        have : sd = x.side.other := release_side c x.side sd i0 i (by rw [← hE, ← hver'', hv])
        rw [this] at h2'; rw [h1] at h2'; cases h2'

theorem s2_setPc {c : Cfg} {y : Sys} (h2 : S2 c y) (u : Nat) (p' : Pc) (cur' : Nat → Option Call) (st' : Nat → Side → Nat)
    (hold : ∀ sl v, ¬ (y.s.pc u).strong c sl ∧ ¬ (y.s.pc u).cond c sl v)
    (hnew : ∀ x cur, p' ≠ .wait x (.asleep cur)) :
    S2 c { s := y.s.setPc u p', cur := cur', start := st' } := by
  intro t x cur hp hnt hv hb
  have htu : t ≠ u := by
    intro e; subst e
    have : (y.s.setPc t p').pc t = .wait x (.asleep cur) := hp
    rw [setPc_self] at this; exact hnew x cur this
  have hp0 : y.s.pc t = .wait x (.asleep cur) := by
    have : (y.s.setPc u p').pc t = .wait x (.asleep cur) := hp
    rw [setPc_other _ _ _ t htu] at this; exact this
  obtain ⟨w, ho⟩ := h2 t x cur hp0 hnt hv hb
  have hwu : w ≠ u := by
    intro e; subst e
    rcases ho with ho | ho
    · exact (hold _ (x.E c)).1 ho
    · exact (hold _ _).2 ho
  exact ⟨w, by
    show ((y.s.setPc u p').pc w).strong c _ ∨ ((y.s.setPc u p').pc w).cond c _ _
    rw [setPc_other _ _ _ w hwu]; exact ho⟩

theorem s2_step {c : Cfg} {y y' : Sys} (hI : Inv c y) (hS : SInv c y.s) (hFi : FInv c y.s) (hFl : FlagInv c y) (h2 : S2 c y)
    (h : Step c y y') : S2 c y' := by
  cases h with
  | act u inp s' l hs => exact s2_act hI hS hFi hFl h2 hs
  | call u k hidle _ _ =>
    refine s2_setPc h2 u _ _ _ ?_ ?_
    · intro sl v; rw [hidle]
      exact ⟨not_strong_of_ne c _ (by simp) (by simp) sl, not_cond_of_ne c _ (by simp) (by simp) (by simp) (by simp) (by simp) sl v⟩
    · intro x cur e
      have := wv_entry k; rw [e] at this; cases this
  | ret u res hret =>
    refine s2_setPc h2 u _ _ _ ?_ ?_
    · intro sl v; rw [hret]
      exact ⟨not_strong_of_ne c _ (by simp) (by simp) sl, not_cond_of_ne c _ (by simp) (by simp) (by simp) (by simp) (by simp) sl v⟩
    · intro x cur e; cases e
  | spuriousWake u x0 cur0 hp =>
    refine s2_setPc h2 u _ _ _ ?_ ?_
    · intro sl v; rw [hp]; exact ⟨strong_not_wait c _ _ _, cond_not_wait c _ _ _ _⟩
    · intro x cur e; cases e

theorem s2_reach {c : Cfg} {y : Sys} (h : ReachF c y) : S2 c y := by
  induction h with
  | base h => subst h; intro t x cur hp; cases hp
  | tail hr hs ih => exact s2_step (inv_reach hr) (sinv_reach hr) (finv_reach hr) (flaginv_reach hr) ih hs.1

/-! ### no stuck state -/
/-- thread `u` can run and will get somewhere: it is inside an operation and not in a blocking wait, or it
is in a blocking wait whose awaited version is present and it is not asleep in the kernel -/
def Runnable (c : Cfg) (y : Sys) (u : Nat) : Prop :=
  y.s.pc u ≠ .idle ∧
  ((y.s.pc u).waitingOn c = none ∨
   (∃ sl E, (y.s.pc u).waitingOn c = some (sl, E) ∧ y.s.ver sl = E ∧ ∀ x cur, y.s.pc u ≠ .wait x (.asleep cur)))

theorem strong_active (c : Cfg) (p : Pc) (sl : Nat) (h : p.strong c sl) : p ≠ .idle ∧ p.waitingOn c = none := by
  rcases h with ⟨_, _, _, rfl, _⟩ | ⟨_, _, rfl, _⟩ <;> exact ⟨by simp, rfl⟩
theorem cond_active (c : Cfg) (p : Pc) (sl v : Nat) (h : p.cond c sl v) : p ≠ .idle ∧ p.waitingOn c = none := by
  obtain ⟨b, _, _, k, _, _, (⟨j, rfl, _⟩ | rfl | ⟨j, rfl, _⟩ | ⟨j, cur, rfl, _⟩ | ⟨cur, rfl, _⟩ | ⟨j, rfl, _⟩)⟩ := h <;>
    exact ⟨by simp, rfl⟩

/-- **no stuck state**: if some thread is inside an operation then some thread is `Runnable`, or a slot is
ready for a ticket that no call has requested yet -/
theorem no_stuck {c : Cfg} {y : Sys} (hy : ReachF c y) (t : Nat) (ht : y.s.pc t ≠ .idle) :
    (∃ u, Runnable c y u) ∨ (∃ sd i, y.s.idx sd ≤ i ∧ y.s.ver (slotOf c i) = expVer c sd i) := by
  have hI := inv_reach hy
  cases hwt : (y.s.pc t).waitingOn c with
  | none => exact Or.inl ⟨t, ht, Or.inl hwt⟩
  | some p =>
    obtain ⟨sl, E⟩ := p
    rcases no_cyclic_wait hI E t sl hwt with ⟨u, h1, h2⟩ | ⟨u, sl', E', h1, h2⟩ | h3
    · exact Or.inl ⟨u, h1, Or.inl h2⟩
    · -- a waiter whose version is present: runnable itself, or asleep and owed a wake-up by an active thread
      by_cases hsl : ∃ x cur, y.s.pc u = .wait x (.asleep cur)
      · obtain ⟨x, cur, hp⟩ := hsl
        have hnt : x.isTimed = false := by
          cases x with
          | timed wk i n a b => rw [hp] at h1; cases h1
          | single sd i wt wk => rfl
          | batch g j wt wk k => rfl
        have hse : x.slot c = sl' ∧ x.E c = E' := by
          rw [hp] at h1
          cases x with
          | timed wk i n a b => cases h1
          | single sd i wt wk => simp only [Pc.waitingOn, Option.some.injEq, Prod.mk.injEq] at h1; exact h1
          | batch g j wt wk k => simp only [Pc.waitingOn, Option.some.injEq, Prod.mk.injEq] at h1; exact h1
        have hower : ∃ w, (y.s.pc w).strong c sl' ∨ (y.s.pc w).cond c sl' E' := by
          cases hb : y.s.wbit sl' with
          | true =>
            have := s2_reach hy u x cur hp hnt (by rw [hse.1, hse.2]; exact h2) (by rw [hse.1]; exact hb)
            rw [hse.1, hse.2] at this; exact this
          | false =>
            rcases (sinv_reach hy).s1 u sl' ⟨x, cur, hp, hse.1⟩ with hb' | ⟨w, hw⟩
            · rw [hb] at hb'; cases hb'
            · exact ⟨w, Or.inl hw⟩
        obtain ⟨w, hw | hw⟩ := hower
        · exact Or.inl ⟨w, (strong_active c _ _ hw).1, Or.inl (strong_active c _ _ hw).2⟩
        · exact Or.inl ⟨w, (cond_active c _ _ _ hw).1, Or.inl (cond_active c _ _ _ hw).2⟩
      · have hne : y.s.pc u ≠ .idle := by intro e; rw [e] at h1; cases h1
        exact Or.inl ⟨u, hne, Or.inr ⟨sl', E', h1, h2, fun x cur e => hsl ⟨x, cur, e⟩⟩⟩
    · exact Or.inr h3

end Babylon.BQ
