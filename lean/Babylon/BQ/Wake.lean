/-
  Futex-level wake-up protocol of the slot word (C02): sleepers, the waiter bit and pending wake-ups.

  `SInv`:  (S0) a thread that is about to sleep / sleeps on a slot does so with the waiter bit in the
           value it hands to the kernel;
           (S1) while a thread sleeps on a slot, the waiter bit of that slot is still set, or some
           thread is committed to calling wake_all on that slot (it is at `sWake` / `wWake`).
  Nothing here depends on the ticket invariant or on the pairing rules: it is the part of the
  protocol that makes "the waiter bit has been consumed" imply "a wake-up is on its way".
-/
import Babylon.BQ.Props

namespace Babylon.BQ
open Babylon.Core Babylon.Gen.BQ

/-- thread with pc `p` is blocked in futex_wait on slot `sl` -/
def Pc.asleepOn (c : Cfg) (p : Pc) (sl : Nat) : Prop := ∃ x cur, p = .wait x (.asleep cur) ∧ x.slot c = sl
/-- thread with pc `p` is committed to `wake_all` on slot `sl` -/
def Pc.strong (c : Cfg) (p : Pc) (sl : Nat) : Prop :=
  (∃ sd i r, p = .sWake sd i r ∧ slotOf c i = sl) ∨ (∃ b j, p = .wWake b j ∧ b.g.slot c j = sl)
/-- value handed to futex_wait -/
def Pc.waitVal : Pc → Option Nat
  | .wait _ (.fwait cur) | .wait _ (.asleep cur) => some cur
  | _ => none

structure SInv (c : Cfg) (s : State) : Prop where
  s0 : ∀ t cur, (s.pc t).waitVal = some cur → waiterThreshold < cur
  s1 : ∀ t sl, (s.pc t).asleepOn c sl → s.wbit sl = true ∨ ∃ u, (s.pc u).strong c sl

theorem word_gt_iff (s : State) (sl : Nat) : waiterThreshold < s.word sl ↔ s.wbit sl = true := by
  have h1 : s.ver sl % 65536 < 65536 := Nat.mod_lt _ (by omega)
  unfold State.word v16
  have e1 : waiterThreshold = 65535 := rfl
  have e2 : waiterInc = 65536 := rfl
  rw [e1, e2]
  cases h : s.wbit sl
  · simp only [Bool.false_eq_true, if_false, iff_false]; omega
  · simp only [if_true, iff_true]; omega

/-- what a step does to the waiter bits, the sleepers and the pending wake-ups -/
structure WSum (c : Cfg) (s : State) (u : Nat) (s' : State) : Prop where
  /-- other threads are untouched, except sleepers on a slot being woken by `u` -/
  others : ∀ v, v ≠ u → s'.pc v = s.pc v ∨
      (∃ x cur, s.pc v = .wait x (.asleep cur) ∧ s'.pc v = .wait x .woken ∧ (s.pc u).strong c (x.slot c))
  /-- a pending wake-up is discharged only by waking every sleeper of the slot -/
  wakes : ∀ sl, (s.pc u).strong c sl → ∀ v, ¬ (s'.pc v).asleepOn c sl
  /-- a waiter bit disappears only into a pending wake-up -/
  bits : ∀ sl, s.wbit sl = true → s'.wbit sl = true ∨ (s'.pc u).strong c sl
  /-- a thread falls asleep only on a word that carries the waiter bit -/
  sleeps : ∀ sl, (s'.pc u).asleepOn c sl → (s.pc u).asleepOn c sl ∨ s'.wbit sl = true
  vals : ∀ cur, (s'.pc u).waitVal = some cur → (s.pc u).waitVal = some cur ∨ waiterThreshold < cur

theorem sinv_step (c : Cfg) (s s' : State) (u : Nat) (hI : SInv c s) (hw : WSum c s u s') : SInv c s' := by
  constructor
  · intro t cur h
    by_cases ht : t = u
    · subst ht
      rcases hw.vals cur h with h1 | h1
      · exact hI.s0 t cur h1
      · exact h1
    · rcases hw.others t ht with h1 | ⟨x, cur', _, h2, _⟩
      · rw [h1] at h; exact hI.s0 t cur h
      · rw [h2] at h; cases h
  · intro t sl h
    -- was `t` already asleep on `sl`?
    have hold : (s.pc t).asleepOn c sl ∨ s'.wbit sl = true := by
      by_cases ht : t = u
      · subst ht; exact hw.sleeps sl h
      · rcases hw.others t ht with h1 | ⟨x, cur', _, h2, _⟩
        · rw [h1] at h; exact Or.inl h
        · rw [h2] at h; obtain ⟨x', cur'', e, _⟩ := h; cases e
    rcases hold with hold | hold
    · rcases hI.s1 t sl hold with hb | ⟨v, hv⟩
      · rcases hw.bits sl hb with h1 | h1
        · exact Or.inl h1
        · exact Or.inr ⟨u, h1⟩
      · by_cases hvu : v = u
        · subst hvu; exact absurd h (hw.wakes sl hv t)
        · rcases hw.others v hvu with h1 | ⟨x, cur', h2, _, _⟩
          · exact Or.inr ⟨v, by rw [h1]; exact hv⟩
          · rw [h2] at hv; rcases hv with ⟨_, _, _, e, _⟩ | ⟨_, _, e, _⟩ <;> cases e
    · exact Or.inl hold

/-! ### every step satisfies `WSum` -/
/-- a pc that is neither about to sleep nor asleep -/
def Pc.calm (p : Pc) : Prop := p.waitVal = none

theorem asleep_not_calm (c : Cfg) (p : Pc) (sl : Nat) (h : p.asleepOn c sl) : ¬ p.calm := by
  obtain ⟨x, cur, rfl, _⟩ := h; simp [Pc.calm, Pc.waitVal]

theorem calm_runK (k : K) : (runK k).calm := by
  cases k with
  | ret r => rfl
  | block w k g => simp only [runK, startWaitSeg]; split <;> rfl
  | tryNext x g => simp only [runK]; split <;> rfl
  | comp g => rfl
  | back cc => rfl
theorem calm_tryDecide (x : TryCtx) (g : Seg) (n : Nat) : (tryDecide x g n).calm := by
  unfold tryDecide; split
  · exact calm_runK _
  · rfl
theorem calm_afterStores (b : BCtx) : (afterStores b).calm := by
  unfold afterStores; split
  · rfl
  · exact calm_runK _
theorem calm_nextWake (b : BCtx) (j : Nat) : (nextWake b j).calm := by
  unfold nextWake; split
  · rfl
  · exact calm_runK _
theorem calm_afterWait (c : Cfg) (x : WCtx) : (afterWait c x).calm := by
  cases x with
  | single sd i w k => rfl
  | batch g j w k kk => simp only [afterWait]; split <;> rfl
  | timed w i n a b => rfl
theorem calm_startWaitSeg (g : Seg) (w k : Bool) (kk : K) : (startWaitSeg g w k kk).calm := by
  unfold startWaitSeg; split <;> rfl

theorem not_strong_runK (c : Cfg) (k : K) (sl : Nat) : ¬ (runK k).strong c sl := by
  cases k with
  | ret r => rintro (⟨_, _, _, e, _⟩ | ⟨_, _, e, _⟩) <;> cases e
  | block w k g =>
    simp only [runK, startWaitSeg]; split <;> rintro (⟨_, _, _, e, _⟩ | ⟨_, _, e, _⟩) <;> cases e
  | tryNext x g => simp only [runK]; split <;> rintro (⟨_, _, _, e, _⟩ | ⟨_, _, e, _⟩) <;> cases e
  | comp g => rintro (⟨_, _, _, e, _⟩ | ⟨_, _, e, _⟩) <;> cases e
  | back cc => rintro (⟨_, _, _, e, _⟩ | ⟨_, _, e, _⟩) <;> cases e

/-- a step that leaves the waiter bits alone, touches only `u`'s pc, starts from a pc with no pending
wake-up and ends in a calm pc -/
theorem wsum_plain (c : Cfg) (s s' : State) (u : Nat) (hb : s'.wbit = s.wbit)
    (hp : ∀ v, v ≠ u → s'.pc v = s.pc v) (hns : ∀ sl, ¬ (s.pc u).strong c sl) (hc : (s'.pc u).calm) : WSum c s u s' := by
  refine ⟨fun v hv => Or.inl (hp v hv), fun sl h => absurd h (hns sl), fun sl h => Or.inl (by rw [hb]; exact h), ?_, ?_⟩
  · intro sl h; exact absurd hc (asleep_not_calm c _ sl h)
  · intro cur h; rw [hc] at h; cases h

theorem setPc_other (s : State) (u : Nat) (p : Pc) (v : Nat) (hv : v ≠ u) : (s.setPc u p).pc v = s.pc v := by
  simp [State.setPc, upd, hv]
theorem setPc_self (s : State) (u : Nat) (p : Pc) : (s.setPc u p).pc u = p := by simp [State.setPc, upd]

end Babylon.BQ
