/-
  What one step of a thread does, in terms of the abstract attributes of `Attr.lean`:
  a *quiet* step (no dispenser / version / payload change), an *acquire* (tickets taken), a
  *release* (one slot version advanced) or a *callback* end (payload + ghost values).
  `step_summary` is the single case analysis over the program counters of the model.
-/
import Babylon.BQ.LemmasArith

namespace Babylon.BQ
open Babylon.Core Babylon.Gen.BQ

/-- slot and untruncated expected version of the truncated comparison a thread is about to make -/
def Pc.cmp (c : Cfg) : Pc → Option (Nat × Nat)
  | .wait x .load0 | .wait x (.cas _) | .wait x .reload | .wait x .spin => some (x.slot c, x.E c)
  | .tVer sd _ _ i => some (slotOf c i, expVer c sd i)
  | .nVer _ g j => some (g.slot c j, g.E c)
  | .cVer cc => some (cc.g.slot c cc.j, cc.g.E c)
  | .wLd b j => some (b.g.slot c j, b.g.E c + versionBump)
  | _ => none

/-- `Ver16Faithful` for the next action of thread `t`: comparing the 16-bit truncations gives the
same answer as comparing the untruncated versions. -/
def Faithful (c : Cfg) (s : State) (t : Nat) : Prop :=
  ∀ sl E, (s.pc t).cmp c = some (sl, E) → (v16 (s.ver sl) = v16 E ↔ s.ver sl = E)

structure AttrEq (c : Cfg) (p' p : Pc) : Prop where
  held : p'.held = p.held
  lb : p'.lb c = p.lb c
  cbDone : p'.cbDone = p.cbDone
  inCb : p'.inCb c = p.inCb c
  needs : p'.needs = p.needs
  expects : p'.expects = p.expects
  wf : p'.wf c ↔ p.wf c
  idle : p' = .idle ↔ p = .idle

theorem AttrEq.rfl' (c : Cfg) (p : Pc) : AttrEq c p p := ⟨rfl, rfl, rfl, rfl, rfl, rfl, Iff.rfl, Iff.rfl⟩

def Others (c : Cfg) (s s' : State) (t : Nat) : Prop := ∀ u, u ≠ t → AttrEq c (s'.pc u) (s.pc u)

structure Pre (c : Cfg) (s : State) (p : Pc) : Prop where
  wf : p.wf c
  lb : ∀ sl, p.lb c sl ≤ s.ver sl
  exp : ∀ sd i, p.expects sd = some i → s.idx sd = i

/-- facts every kind of step establishes about the thread's new pc (`s'` only for the dispensers) -/
structure Common (c : Cfg) (s s' : State) (p p' : Pc) : Prop where
  needs : ∀ sd, p'.needs sd ≤ p.needs sd
  wf : p'.wf c
  lb : ∀ sl, p'.lb c sl ≤ s.ver sl
  exp : ∀ sd i, p'.expects sd = some i → s'.idx sd = i
  idle : p ≠ .idle ∧ p' ≠ .idle

structure Core (s s' : State) : Prop where
  pushIdx : s'.pushIdx = s.pushIdx
  popIdx : s'.popIdx = s.popIdx
  ver : s'.ver = s.ver
  val : s'.val = s.val
  pushedV : s'.pushedV = s.pushedV
  poppedV : s'.poppedV = s.poppedV

theorem Core.idx {s s' : State} (h : Core s s') (sd : Side) : s'.idx sd = s.idx sd := by
  cases sd <;> simp [State.idx, h.pushIdx, h.popIdx]

inductive Summary (c : Cfg) (s : State) (t : Nat) (s' : State) : Prop
  | quiet (hcore : Core s s') (hoth : Others c s s' t)
      (hh : ∀ sd i, (s'.pc t).held sd i ↔ (s.pc t).held sd i)
      (hd : ∀ sd i, (s'.pc t).cbDone sd i ↔ (s.pc t).cbDone sd i)
      (com : Common c s s' (s.pc t) (s'.pc t))
  | acquire (sd : Side) (n : Nat)
      (hidx : s'.idx sd = s.idx sd + n) (hidx' : s'.idx sd.other = s.idx sd.other)
      (hver : s'.ver = s.ver) (hval : s'.val = s.val) (hpv : s'.pushedV = s.pushedV) (hqv : s'.poppedV = s.poppedV)
      (hoth : Others c s s' t)
      (hneed : 1 ≤ (s.pc t).needs sd)
      (hh : ∀ sd' i, (s'.pc t).held sd' i ↔ ((s.pc t).held sd' i ∨ (sd' = sd ∧ s.idx sd ≤ i ∧ i < s.idx sd + n)))
      (hd : ∀ sd i, (s'.pc t).cbDone sd i ↔ (s.pc t).cbDone sd i)
      (com : Common c s s' (s.pc t) (s'.pc t))
  | release (sd : Side) (i : Nat)
      (hver : s'.ver = upd s.ver (slotOf c i) (expVer c sd i + 1))
      (hpi : s'.pushIdx = s.pushIdx) (hqi : s'.popIdx = s.popIdx)
      (hval : s'.val = s.val) (hpv : s'.pushedV = s.pushedV) (hqv : s'.poppedV = s.poppedV)
      (hoth : Others c s s' t)
      (hheld : (s.pc t).held sd i) (hlbE : expVer c sd i ≤ (s.pc t).lb c (slotOf c i)) (hdone : (s.pc t).cbDone sd i)
      (hh : ∀ sd' i', (s'.pc t).held sd' i' ↔ ((s.pc t).held sd' i' ∧ ¬ (sd' = sd ∧ i' = i)))
      (hd : ∀ sd' i', (s'.pc t).cbDone sd' i' ↔ ((s.pc t).cbDone sd' i' ∧ ¬ (sd' = sd ∧ i' = i)))
      (com : Common c s s' (s.pc t) (s'.pc t))
  | callback (g : Seg) (hg : g.wf c) (hcore : s'.pushIdx = s.pushIdx ∧ s'.popIdx = s.popIdx ∧ s'.ver = s.ver)
      (hoth : Others c s s' t)
      (hheld : ∀ sd i, segTk g 0 sd i → (s.pc t).held sd i)
      (hlbE : ∀ k, k < g.n → g.E c ≤ (s.pc t).lb c (g.slot c k))
      (hcb : ∀ sl, (s.pc t).inCb c sl ↔ (g.slot c 0 ≤ sl ∧ sl < g.slot c g.n))
      (hh : ∀ sd i, (s'.pc t).held sd i ↔ (s.pc t).held sd i)
      (hd0 : ∀ sd i, ¬ (s.pc t).cbDone sd i)
      (hd : ∀ sd i, (s'.pc t).cbDone sd i ↔ segTk g 0 sd i)
      (hpush : g.sd = .push → s'.poppedV = s.poppedV ∧
          (∀ k, k < g.n → s'.pushedV (g.idx + k) = some (s'.val (g.slot c k))) ∧
          (∀ i, ¬ segTk g 0 .push i → s'.pushedV i = s.pushedV i) ∧
          (∀ sl, ¬ (g.slot c 0 ≤ sl ∧ sl < g.slot c g.n) → s'.val sl = s.val sl))
      (hpop : g.sd = .pop → s'.pushedV = s.pushedV ∧ s'.val = s.val ∧
          (∀ k, k < g.n → s'.poppedV (g.idx + k) = some (s.val (g.slot c k))) ∧
          (∀ i, ¬ segTk g 0 .pop i → s'.poppedV i = s.poppedV i))
      (com : Common c s s' (s.pc t) (s'.pc t))

end Babylon.BQ
