/-
  `step_summary`, part 1: ticket dispensers of the blocking variants, the single-element critical
  section / release, try_deal.
-/
import Babylon.BQ.StepBase

namespace Babylon.BQ
open Babylon.Core Babylon.Gen.BQ

/-- pc after the ticket(s) of a blocking push/pop(_n) were taken -/
def blockEntry (c : Cfg) (sd : Side) (n : Nat) (single wait wake : Bool) (i : Nat) : Pc :=
  if single then .wait (.single sd i wait wake) .load0
  else startWaitSeg (splitSegs c sd i n).1 wait wake
        (match (splitSegs c sd i n).2 with | some g => .block wait wake g | none => .ret 0)

theorem blockEntry_attrs (c : Cfg) (sd : Side) (n : Nat) (single wait wake : Bool) (i : Nat)
    (hw : 1 ≤ n ∧ n ≤ c.cap ∧ (single = true → n = 1)) :
    let p := blockEntry c sd n single wait wake i
    (∀ sd' j, p.held sd' j ↔ (sd' = sd ∧ i ≤ j ∧ j < i + n)) ∧ p.cbDone = (fun _ _ => False) ∧
    p.needs = (fun _ => 0) ∧ p.wf c ∧ p.lb c = (fun _ => 0) ∧ p.expects = (fun _ => none) ∧ p ≠ .idle := by
  obtain ⟨h1, hn, hs⟩ := hw
  simp only [blockEntry]
  cases single with
  | true =>
    have : n = 1 := hs rfl
    subst this
    simp only [if_true]
    refine ⟨?_, rfl, rfl, trivial, rfl, rfl, by simp⟩
    intro sd' j; simp only [Pc.held, WCtx.held]
    constructor
    · rintro ⟨rfl, rfl⟩; exact ⟨rfl, by omega, by omega⟩
    · rintro ⟨rfl, h2, h3⟩; exact ⟨rfl, by omega⟩
  | false =>
    have hsp := splitSegs_spec c sd i n h1 hn
    simp only at hsp
    obtain ⟨hg1, hn1, hsd, hidx, hg2, hl, hsum⟩ := hsp
    have hne : (splitSegs c sd i n).1.n ≠ 0 := by omega
    simp only [Bool.false_eq_true, if_false, startWaitSeg, hne]
    have hheld := split_held c sd i n h1 hn
    cases h2 : (splitSegs c sd i n).2 with
    | none =>
      simp only [h2, optSegTk, or_false] at hheld
      refine ⟨?_, rfl, rfl, ?_, ?_, rfl, by simp⟩
      · intro sd' j; simp only [Pc.held, WCtx.held, K.held, or_false]; exact hheld sd' j
      · simp only [Pc.wf, WCtx.wf, K.wf, K.isBlock, and_true]; exact ⟨hg1, hn1⟩
      · funext sl; simp [Pc.lb, K.lb, segLb_self]
    | some g2 =>
      simp only [h2, optSegTk] at hheld
      simp only [h2, optSegWf, linked] at hg2 hl
      refine ⟨?_, rfl, rfl, ?_, ?_, rfl, by simp⟩
      · intro sd' j; simp only [Pc.held, WCtx.held, K.held]; exact hheld sd' j
      · simp only [Pc.wf, WCtx.wf, K.wf, K.isBlock, and_true]
        exact ⟨hg1, hn1, hg2.1, hg2.2, by rw [hl.1, hsd], by rw [hl.2, hidx]⟩
      · funext sl; simp [Pc.lb, K.lb, segLb_self]

theorem sum_idxRmw (c : Cfg) (s s' : State) (t : Nat) (inp : Inp) (l : Act) (sd : Side) (n : Nat) (single wait wake : Bool)
    (hp : s.pc t = .idxRmw sd n single wait wake)
    (h : stepThread c s t inp = some (s', l)) (pre : Pre c s (s.pc t)) : Summary c s t s' := by
  have hs' : s' = (s.setIdx sd (s.idx sd + n)).setPc t (blockEntry c sd n single wait wake (s.idx sd)) := by
    simp only [stepThread, hp, Option.some.injEq, Prod.mk.injEq] at h
    rw [← h.1]; simp only [blockEntry]; cases single <;> first | rfl | simp
  rw [hp] at pre
  have ha := blockEntry_attrs c sd n single wait wake (s.idx sd) pre.wf
  simp only at ha
  obtain ⟨hh, hd, hn, hw, hlb, hex, hid⟩ := ha
  have hpc : s'.pc t = blockEntry c sd n single wait wake (s.idx sd) := by rw [hs']; simp [State.setPc, upd]
  refine .acquire sd n ?_ ?_ ?_ ?_ ?_ ?_ ?_ ?_ ?_ ?_ ⟨?_, ?_, ?_, ?_, ?_⟩
  · rw [hs']; show (s.setIdx sd _).idx sd = _; exact idx_setIdx _ _ _
  · rw [hs']; show (s.setIdx sd _).idx sd.other = _; exact idx_setIdx_other _ _ _
  · rw [hs']; cases sd <;> rfl
  · rw [hs']; cases sd <;> rfl
  · rw [hs']; cases sd <;> rfl
  · rw [hs']; cases sd <;> rfl
  · apply others_upd c _ _ t (blockEntry c sd n single wait wake (s.idx sd)); rw [hs']; cases sd <;> rfl
  · rw [hp]; simp [Pc.needs, sideIf]
  · intro sd' i; rw [hpc, hh, hp]; simp [Pc.held]
  · intro sd' i; rw [hpc, hd, hp]; simp [Pc.cbDone]
  · intro sd'; rw [hpc, hn]; exact Nat.zero_le _
  · rw [hpc]; exact hw
  · intro sl; rw [hpc, hlb]; exact Nat.zero_le _
  · intro sd' i; rw [hpc, hex]; simp
  · rw [hpc, hp]; exact ⟨by simp, hid⟩

theorem sum_idxSt (c : Cfg) (s s' : State) (t : Nat) (inp : Inp) (l : Act) (sd : Side) (n : Nat) (single wait wake : Bool) (i0 : Nat)
    (hp : s.pc t = .idxSt sd n single wait wake i0)
    (h : stepThread c s t inp = some (s', l)) (pre : Pre c s (s.pc t)) : Summary c s t s' := by
  rw [hp] at pre
  have hi0 : s.idx sd = i0 := pre.exp sd i0 (by simp [Pc.expects])
  subst hi0
  have hs' : s' = (s.setIdx sd (s.idx sd + n)).setPc t (blockEntry c sd n single wait wake (s.idx sd)) := by
    simp only [stepThread, hp, Option.some.injEq, Prod.mk.injEq] at h
    rw [← h.1]; simp only [blockEntry]; cases single <;> first | rfl | simp
  have ha := blockEntry_attrs c sd n single wait wake (s.idx sd) pre.wf
  simp only at ha
  obtain ⟨hh, hd, hn, hw, hlb, hex, hid⟩ := ha
  have hpc : s'.pc t = blockEntry c sd n single wait wake (s.idx sd) := by rw [hs']; simp [State.setPc, upd]
  refine .acquire sd n ?_ ?_ ?_ ?_ ?_ ?_ ?_ ?_ ?_ ?_ ⟨?_, ?_, ?_, ?_, ?_⟩
  · rw [hs']; show (s.setIdx sd _).idx sd = _; exact idx_setIdx _ _ _
  · rw [hs']; show (s.setIdx sd _).idx sd.other = _; exact idx_setIdx_other _ _ _
  · rw [hs']; cases sd <;> rfl
  · rw [hs']; cases sd <;> rfl
  · rw [hs']; cases sd <;> rfl
  · rw [hs']; cases sd <;> rfl
  · apply others_upd c _ _ t (blockEntry c sd n single wait wake (s.idx sd)); rw [hs']; cases sd <;> rfl
  · rw [hp]; simp [Pc.needs, sideIf]
  · intro sd' i; rw [hpc, hh, hp]; simp [Pc.held]
  · intro sd' i; rw [hpc, hd, hp]; simp [Pc.cbDone]
  · intro sd'; rw [hpc, hn]; exact Nat.zero_le _
  · rw [hpc]; exact hw
  · intro sl; rw [hpc, hlb]; exact Nat.zero_le _
  · intro sd' i; rw [hpc, hex]; simp
  · rw [hpc, hp]; exact ⟨by simp, hid⟩

end Babylon.BQ
