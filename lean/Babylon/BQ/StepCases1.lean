/-
  `step_summary`, part 1: ticket dispensers of the blocking variants, the single-element critical
  section / release, try_deal.
-/
import Babylon.BQ.StepBase

namespace Babylon.BQ
open Babylon.Core Babylon.Gen.BQ

/-- pc after the ticket(s) of a blocking push/pop(_n) were taken -/
def blockEntry (c : Cfg) (sd : Side) (n : Nat) (single wait wake : Bool) (i : Nat) : Pc :=
  if single then .wait (.single sd i wait wake) .load0
  else startWaitSeg (splitSegs c sd i n).1 wait wake
        (match (splitSegs c sd i n).2 with | some g => .block wait wake g | none => .ret 0)

theorem blockEntry_attrs (c : Cfg) (sd : Side) (n : Nat) (single wait wake : Bool) (i : Nat)
    (hw : 1 ≤ n ∧ n ≤ c.cap ∧ (single = true → n = 1)) :
    let p := blockEntry c sd n single wait wake i
    (∀ sd' j, p.held sd' j ↔ (sd' = sd ∧ i ≤ j ∧ j < i + n)) ∧ p.cbDone = (fun _ _ => False) ∧
    p.needs = (fun _ => 0) ∧ p.wf c ∧ p.lb c = (fun _ => 0) ∧ p.expects = (fun _ => none) ∧ p ≠ .idle := by
  obtain ⟨h1, hn, hs⟩ := hw
  simp only [blockEntry]
  cases single with
  | true =>
    have : n = 1 := hs rfl
    subst this
    simp only [if_true]
    refine ⟨?_, rfl, rfl, trivial, rfl, rfl, by simp⟩
    intro sd' j; simp only [Pc.held, WCtx.held]
    constructor
    · rintro ⟨rfl, rfl⟩; exact ⟨rfl, by omega, by omega⟩
    · rintro ⟨rfl, h2, h3⟩; exact ⟨rfl, by omega⟩
  | false =>
    have hsp := splitSegs_spec c sd i n h1 hn
    simp only at hsp
    obtain ⟨hg1, hn1, hsd, hidx, hg2, hl, hsum⟩ := hsp
    have hne : (splitSegs c sd i n).1.n ≠ 0 := by omega
    simp only [Bool.false_eq_true, if_false, startWaitSeg, hne]
    have hheld := split_held c sd i n h1 hn
    cases h2 : (splitSegs c sd i n).2 with
    | none =>
      simp only [h2, optSegTk, or_false] at hheld
      refine ⟨?_, rfl, rfl, ?_, ?_, rfl, by simp⟩
      · intro sd' j; simp only [Pc.held, WCtx.held, K.held, or_false]; exact hheld sd' j
      · simp only [Pc.wf, WCtx.wf, K.wf, K.isBlock, and_true]; exact ⟨hg1, hn1⟩
      · funext sl; simp [Pc.lb, K.lb, segLb_self]
    | some g2 =>
      simp only [h2, optSegTk] at hheld
      simp only [h2, optSegWf, linked] at hg2 hl
      refine ⟨?_, rfl, rfl, ?_, ?_, rfl, by simp⟩
      · intro sd' j; simp only [Pc.held, WCtx.held, K.held]; exact hheld sd' j
      · simp only [Pc.wf, WCtx.wf, K.wf, K.isBlock, and_true]
        exact ⟨hg1, hn1, hg2.1, hg2.2, by rw [hl.1, hsd], by rw [hl.2, hidx]⟩
      · funext sl; simp [Pc.lb, K.lb, segLb_self]

theorem sum_idxRmw (c : Cfg) (s s' : State) (t : Nat) (inp : Inp) (l : Act) (sd : Side) (n : Nat) (single wait wake : Bool)
    (hp : s.pc t = .idxRmw sd n single wait wake)
    (h : stepThread c s t inp = some (s', l)) (pre : Pre c s (s.pc t)) : Summary c s t s' := by
  have hs' : s' = (s.setIdx sd (s.idx sd + n)).setPc t (blockEntry c sd n single wait wake (s.idx sd)) := by
    simp only [stepThread, hp, Option.some.injEq, Prod.mk.injEq] at h
    rw [← h.1]; simp only [blockEntry]; cases single <;> first | rfl | simp
  rw [hp] at pre
  obtain ⟨hh, hd, hn, hw, hlb, hex, hid⟩ := blockEntry_attrs c sd n single wait wake (s.idx sd) pre.wf
  refine Summary.ofAcquire sd n _ hs' ?_ ?_ ?_ ?_ hw ?_ ?_ ?_
  · rw [hp]; simp [Pc.needs, sideIf]
  · intro sd' i; rw [hh, hp]; simp [Pc.held]
  · intro sd' i; rw [hd, hp]; simp [Pc.cbDone]
  · intro sd'; rw [hn]; exact Nat.zero_le _
  · intro sl; rw [hlb]; exact Nat.zero_le _
  · intro sd' i; rw [hex]; simp
  · rw [hp]; exact ⟨by simp, hid⟩

theorem sum_idxSt (c : Cfg) (s s' : State) (t : Nat) (inp : Inp) (l : Act) (sd : Side) (n : Nat) (single wait wake : Bool) (i0 : Nat)
    (hp : s.pc t = .idxSt sd n single wait wake i0)
    (h : stepThread c s t inp = some (s', l)) (pre : Pre c s (s.pc t)) : Summary c s t s' := by
  rw [hp] at pre
  have hi0 : s.idx sd = i0 := pre.exp sd i0 (by simp [Pc.expects])
  subst hi0
  have hs' : s' = (s.setIdx sd (s.idx sd + n)).setPc t (blockEntry c sd n single wait wake (s.idx sd)) := by
    simp only [stepThread, hp, Option.some.injEq, Prod.mk.injEq] at h
    rw [← h.1]; simp only [blockEntry]; cases single <;> first | rfl | simp
  obtain ⟨hh, hd, hn, hw, hlb, hex, hid⟩ := blockEntry_attrs c sd n single wait wake (s.idx sd) pre.wf
  refine Summary.ofAcquire sd n _ hs' ?_ ?_ ?_ ?_ hw ?_ ?_ ?_
  · rw [hp]; simp [Pc.needs, sideIf]
  · intro sd' i; rw [hh, hp]; simp [Pc.held]
  · intro sd' i; rw [hd, hp]; simp [Pc.cbDone]
  · intro sd'; rw [hn]; exact Nat.zero_le _
  · intro sl; rw [hlb]; exact Nat.zero_le _
  · intro sd' i; rw [hex]; simp
  · rw [hp]; exact ⟨by simp, hid⟩

theorem sum_idxLd (c : Cfg) (s s' : State) (t : Nat) (inp : Inp) (l : Act) (sd : Side) (n : Nat) (single wait wake : Bool)
    (hp : s.pc t = .idxLd sd n single wait wake)
    (h : stepThread c s t inp = some (s', l)) (pre : Pre c s (s.pc t)) : Summary c s t s' := by
  simp only [stepThread, hp, Option.some.injEq, Prod.mk.injEq] at h
  obtain ⟨rfl, -⟩ := h
  rw [hp] at pre
  refine Summary.ofQuiet (.idxSt sd n single wait wake (s.idx sd)) s.pc ⟨rfl, rfl, rfl, rfl, rfl, rfl⟩ rfl
    (fun u => AttrEq.rfl' c _) ?_ ?_ ?_ ?_ ?_ ?_ ?_
  · intro sd' i; rw [hp]; rfl
  · intro sd' i; rw [hp]; rfl
  · intro sd'; rw [hp]; exact Nat.le_refl _
  · exact pre.wf
  · intro sl; exact Nat.zero_le _
  · intro sd' i h1; simp only [Pc.expects] at h1; split at h1
    · rename_i e; cases h1; rw [e]
    · cases h1
  · rw [hp]; simp

theorem sum_cIdx (c : Cfg) (s s' : State) (t : Nat) (inp : Inp) (l : Act) (sd : Side) (n : Nat)
    (hp : s.pc t = .cIdx sd n)
    (h : stepThread c s t inp = some (s', l)) (pre : Pre c s (s.pc t)) : Summary c s t s' := by
  have hs' : s' = (s.setIdx sd (s.idx sd + n)).setPc t
      (.cVer { g := (splitSegs c sd (s.idx sd) n).1, j := 0, rest := (splitSegs c sd (s.idx sd) n).2 }) := by
    simp only [stepThread, hp, Option.some.injEq, Prod.mk.injEq] at h
    rw [← h.1]
  rw [hp] at pre
  have hw : 1 ≤ n ∧ n ≤ c.cap := pre.wf
  obtain ⟨hg1, hn1, hsd, hidx, hg2, hl, hsum⟩ := splitSegs_spec c sd (s.idx sd) n hw.1 hw.2
  refine Summary.ofAcquire sd n _ hs' ?_ ?_ ?_ ?_ ?_ ?_ ?_ ?_
  · rw [hp]; simp [Pc.needs]
  · intro sd' i; rw [hp]; simp only [Pc.held, CompCtx.held, false_or]; exact split_held c sd _ n hw.1 hw.2 sd' i
  · intro sd' i; rw [hp]; simp [Pc.cbDone]
  · intro sd'; rw [hp]; simp only [Pc.needs, CompCtx.needs, sideIf]; split <;> omega
  · simp only [Pc.wf, CompCtx.wf]; exact ⟨hg1, hg2, hn1, by rw [hsd, hidx]; exact hl⟩
  · intro sl; simp [Pc.lb, CompCtx.lb, segLb_self]
  · intro sd' i; simp [Pc.expects]
  · rw [hp]; simp

theorem sum_sCbB (c : Cfg) (s s' : State) (t : Nat) (inp : Inp) (l : Act) (sd : Side) (i : Nat) (wake : Bool) (res : Nat)
    (hp : s.pc t = .sCbB sd i wake res)
    (h : stepThread c s t inp = some (s', l)) (pre : Pre c s (s.pc t)) : Summary c s t s' := by
  simp only [stepThread, hp, Option.some.injEq, Prod.mk.injEq] at h
  obtain ⟨rfl, -⟩ := h
  rw [hp] at pre
  refine Summary.ofQuiet (.sCbE sd i wake res) s.pc ⟨rfl, rfl, rfl, rfl, rfl, rfl⟩ rfl
    (fun u => AttrEq.rfl' c _) ?_ ?_ ?_ ?_ ?_ ?_ ?_
  · intro sd' i; rw [hp]; rfl
  · intro sd' i; rw [hp]; rfl
  · intro sd'; rw [hp]; exact Nat.le_refl _
  · trivial
  · exact pre.lb
  · intro sd' i h1; cases h1
  · rw [hp]; simp

theorem one_seg (c : Cfg) (sd : Side) (i : Nat) :
    let g : Seg := { sd := sd, idx := i, n := 1 }
    g.wf c ∧ (∀ sd' i', segTk g 0 sd' i' ↔ (sd' = sd ∧ i' = i)) ∧ g.E c = expVer c sd i ∧ g.slot c 0 = slotOf c i ∧
    g.slot c 1 = slotOf c i + 1 := by
  have := slotOf_lt c i
  refine ⟨by simp [Seg.wf]; omega, ?_, rfl, rfl, rfl⟩
  intro sd' i'; simp only [segTk]; constructor
  · rintro ⟨h1, h2, h3⟩; exact ⟨h1, by omega⟩
  · rintro ⟨h1, h2⟩; exact ⟨h1, by omega, by omega⟩

theorem sum_sCbE (c : Cfg) (s s' : State) (t : Nat) (inp : Inp) (l : Act) (sd : Side) (i : Nat) (wake : Bool) (res : Nat)
    (hp : s.pc t = .sCbE sd i wake res)
    (h : stepThread c s t inp = some (s', l)) (pre : Pre c s (s.pc t)) : Summary c s t s' := by
  rw [hp] at pre
  obtain ⟨hgw, hgt, hgE, hg0, hg1⟩ := one_seg c sd i
  have key : ∀ (s1 : State), s' = s1.setPc t (.sSet sd i wake res) → s1.pc = s.pc →
      s1.pushIdx = s.pushIdx → s1.popIdx = s.popIdx → s1.ver = s.ver →
      (sd = .push → s1.poppedV = s.poppedV ∧ s1.pushedV i = some (s1.val (slotOf c i)) ∧
          (∀ i', i' ≠ i → s1.pushedV i' = s.pushedV i') ∧ (∀ sl, sl ≠ slotOf c i → s1.val sl = s.val sl)) →
      (sd = .pop → s1.pushedV = s.pushedV ∧ s1.val = s.val ∧ s1.poppedV i = some (s.val (slotOf c i)) ∧
          (∀ i', i' ≠ i → s1.poppedV i' = s.poppedV i')) → Summary c s t s' := by
    intro s1 hs' hpcs h1 h2 h3 hpush hpop
    have hpc : s'.pc t = .sSet sd i wake res := by rw [hs']; simp [State.setPc, upd]
    refine .callback { sd := sd, idx := i, n := 1 } hgw ⟨by rw [hs']; exact h1, by rw [hs']; exact h2, by rw [hs']; exact h3⟩
      ?_ ?_ ?_ ?_ ?_ ?_ ?_ ?_ ?_ ⟨?_, ?_, ?_, ?_, ?_⟩
    · apply others_upd c _ _ t (.sSet sd i wake res); rw [hs']; simp only [State.setPc, hpcs]
    · intro sd' i' hh; rw [hp]; exact (hgt sd' i').1 hh
    · intro k hk; have hk' : k < 1 := hk; have : k = 0 := by omega
      subst this; rw [hp, hg0, hgE]; simp [Pc.lb, oneLb]
    · intro sl; rw [hp, hg0, hg1]; simp only [Pc.inCb]; omega
    · intro sd' i'; rw [hpc, hp]; rfl
    · intro sd' i'; rw [hp]; simp [Pc.cbDone]
    · intro sd' i'; rw [hpc, hgt]; rfl
    · intro hsd; have := hpush hsd
      rw [hs']; refine ⟨this.1, ?_, ?_, ?_⟩
      · intro k hk; have hk' : k < 1 := hk; have : k = 0 := by omega
        subst this; exact this.2.1
      · intro i' hi'; apply this.2.2.1; intro e; apply hi'; rw [hgt]; exact ⟨hsd.symm ▸ rfl, e⟩
      · intro sl hsl; apply this.2.2.2; intro e; apply hsl; rw [hg0, hg1]; omega
    · intro hsd; have := hpop hsd
      rw [hs']; refine ⟨this.1, this.2.1, ?_, ?_⟩
      · intro k hk; have hk' : k < 1 := hk; have : k = 0 := by omega
        subst this; exact this.2.2.1
      · intro i' hi'; apply this.2.2.2; intro e; apply hi'; rw [hgt]; exact ⟨hsd.symm ▸ rfl, e⟩
    · intro sd'; rw [hpc, hp]; simp [Pc.needs]
    · rw [hpc]; trivial
    · intro sl; rw [hpc]; exact pre.lb sl
    · intro sd' i'; rw [hpc]; simp [Pc.expects]
    · rw [hpc, hp]; simp
  cases sd with
  | push =>
    simp only [stepThread, hp] at h
    split at h
    · rename_i v hv
      simp only [Option.some.injEq, Prod.mk.injEq] at h
      refine key _ h.1.symm rfl rfl rfl rfl ?_ (by intro e; cases e)
      intro _; refine ⟨rfl, by simp [upd], ?_, ?_⟩
      · intro i' hi'; simp [upd, hi']
      · intro sl hsl; simp [upd, hsl]
    · cases h
  | pop =>
    simp only [stepThread, hp, Option.some.injEq, Prod.mk.injEq] at h
    refine key _ h.1.symm rfl rfl rfl rfl (by intro e; cases e) ?_
    intro _; refine ⟨rfl, rfl, by simp [upd], ?_⟩
    intro i' hi'; simp [upd, hi']

theorem sum_sSet (c : Cfg) (s s' : State) (t : Nat) (inp : Inp) (l : Act) (sd : Side) (i : Nat) (wake : Bool) (res : Nat)
    (hp : s.pc t = .sSet sd i wake res)
    (h : stepThread c s t inp = some (s', l)) (pre : Pre c s (s.pc t)) : Summary c s t s' := by
  rw [hp] at pre
  have key : ∀ (s1 : State) (p' : Pc), s' = s1.setPc t p' → s1.pc = s.pc → s1.ver = upd s.ver (slotOf c i) (expVer c sd i + 1) →
      s1.pushIdx = s.pushIdx → s1.popIdx = s.popIdx → s1.val = s.val → s1.pushedV = s.pushedV → s1.poppedV = s.poppedV →
      (p' = .retd res ∨ p' = .sWake sd i res) → Summary c s t s' := by
    intro s1 p' hs' hpcs hv h1 h2 h3 h4 h5 hp'
    refine Summary.ofRelease sd i p' s.pc (by rw [hs']; exact hv) (by rw [hs']; exact h1) (by rw [hs']; exact h2)
      (by rw [hs']; exact h3) (by rw [hs']; exact h4) (by rw [hs']; exact h5) (by rw [hs']; simp only [State.setPc, hpcs])
      (fun u => AttrEq.rfl' c _) ?_ ?_ ?_ ?_ ?_ ?_ ?_ ?_ ?_ ?_
    · rw [hp]; exact ⟨rfl, rfl⟩
    · rw [hp]; simp [Pc.lb, oneLb]
    · rw [hp]; exact ⟨rfl, rfl⟩
    · intro sd' i'; rw [hp]; rcases hp' with rfl | rfl <;> simp [Pc.held]
    · intro sd' i'; rw [hp]; rcases hp' with rfl | rfl <;> simp [Pc.cbDone]
    · intro sd'; rw [hp]; rcases hp' with rfl | rfl <;> simp [Pc.needs]
    · rcases hp' with rfl | rfl <;> trivial
    · intro sl; rcases hp' with rfl | rfl <;> exact Nat.zero_le _
    · intro sd' i' h1; rcases hp' with rfl | rfl <;> cases h1
    · rw [hp]; rcases hp' with rfl | rfl <;> simp
  simp only [stepThread, hp, versionBump] at h
  cases wake with
  | true =>
    simp only [if_true, Option.some.injEq, Prod.mk.injEq] at h
    refine key _ _ h.1.symm rfl rfl rfl rfl rfl rfl rfl ?_
    split <;> simp
  | false =>
    simp only [Bool.false_eq_true, if_false, Option.some.injEq, Prod.mk.injEq] at h
    exact key _ _ h.1.symm rfl rfl rfl rfl rfl rfl rfl (Or.inl rfl)

theorem sum_sWake (c : Cfg) (s s' : State) (t : Nat) (inp : Inp) (l : Act) (sd : Side) (i : Nat) (res : Nat)
    (hp : s.pc t = .sWake sd i res)
    (h : stepThread c s t inp = some (s', l)) (pre : Pre c s (s.pc t)) : Summary c s t s' := by
  simp only [stepThread, hp, Option.some.injEq, Prod.mk.injEq] at h
  obtain ⟨rfl, -⟩ := h
  refine Summary.ofQuiet (.retd res) (wakeAll c s.pc (slotOf c i)) ⟨rfl, rfl, rfl, rfl, rfl, rfl⟩ rfl
    (fun u => wakeAll_attrEq c _ _ u) ?_ ?_ ?_ ?_ ?_ ?_ ?_
  · intro sd' i'; rw [hp]; rfl
  · intro sd' i'; rw [hp]; rfl
  · intro sd'; rw [hp]; exact Nat.le_refl _
  · trivial
  · intro sl; exact Nat.zero_le _
  · intro sd' i' h1; cases h1
  · rw [hp]; simp

/-- quiet step to a pc whose attributes are all empty -/
theorem quiet_plain (c : Cfg) (s s' : State) (t : Nat) (p' : Pc) (hs' : s' = s.setPc t p') (hne : s.pc t ≠ .idle) (hne' : p' ≠ .idle)
    (hh : ∀ sd i, p'.held sd i ↔ (s.pc t).held sd i) (hd : ∀ sd i, p'.cbDone sd i ↔ (s.pc t).cbDone sd i)
    (hn : ∀ sd, p'.needs sd ≤ (s.pc t).needs sd) (hwf : p'.wf c) (hlb : ∀ sl, p'.lb c sl ≤ s.ver sl)
    (hexp : ∀ sd i, p'.expects sd = some i → s.idx sd = i) : Summary c s t s' := by
  subst hs'
  exact Summary.ofQuiet p' s.pc ⟨rfl, rfl, rfl, rfl, rfl, rfl⟩ rfl (fun u => AttrEq.rfl' c _) hh hd hn hwf hlb hexp ⟨hne, hne'⟩

theorem sum_tIdx (c : Cfg) (s s' : State) (t : Nat) (inp : Inp) (l : Act) (sd : Side) (conc wake : Bool)
    (hp : s.pc t = .tIdx sd conc wake)
    (h : stepThread c s t inp = some (s', l)) (pre : Pre c s (s.pc t)) : Summary c s t s' := by
  simp only [stepThread, hp, Option.some.injEq, Prod.mk.injEq] at h
  refine quiet_plain c s s' t _ h.1.symm (by rw [hp]; simp) (by simp) ?_ ?_ ?_ trivial ?_ ?_
  · intro sd' i; rw [hp]; rfl
  · intro sd' i; rw [hp]; rfl
  · intro sd'; rw [hp]; exact Nat.le_refl _
  · intro sl; exact Nat.zero_le _
  · intro sd' i h1; simp only [Pc.expects] at h1; split at h1
    · rename_i e; cases h1; rw [e.2]
    · cases h1

theorem sum_tVer (c : Cfg) (s s' : State) (t : Nat) (inp : Inp) (l : Act) (sd : Side) (conc wake : Bool) (i : Nat)
    (hp : s.pc t = .tVer sd conc wake i)
    (h : stepThread c s t inp = some (s', l)) (pre : Pre c s (s.pc t)) (hf : Faithful c s t) : Summary c s t s' := by
  simp only [stepThread, hp, Option.some.injEq, Prod.mk.injEq] at h
  rw [hp] at pre
  have hfa := hf (slotOf c i) (expVer c sd i) (by rw [hp]; rfl)
  rw [v16_word] at h
  refine quiet_plain c s s' t _ h.1.symm (by rw [hp]; simp) (by split <;> simp) ?_ ?_ ?_ ?_ ?_ ?_
  · intro sd' i'; rw [hp]; split <;> rfl
  · intro sd' i'; rw [hp]; split <;> rfl
  · intro sd'; rw [hp]; split <;> exact Nat.le_refl _
  · split <;> trivial
  · intro sl; split
    · rename_i e; have := hfa.1 e
      simp only [Pc.lb, oneLb]; split
      · rename_i e2; rw [e2, this]; exact Nat.le_refl _
      · exact Nat.zero_le _
    · exact Nat.zero_le _
  · intro sd' i' h1
    have : (Pc.tVer sd conc wake i).expects sd' = some i' := by split at h1 <;> exact h1
    exact pre.exp sd' i' this

theorem sum_tReIdx (c : Cfg) (s s' : State) (t : Nat) (inp : Inp) (l : Act) (sd : Side) (conc wake : Bool) (i : Nat)
    (hp : s.pc t = .tReIdx sd conc wake i)
    (h : stepThread c s t inp = some (s', l)) (pre : Pre c s (s.pc t)) : Summary c s t s' := by
  simp only [stepThread, hp, Option.some.injEq, Prod.mk.injEq] at h
  refine quiet_plain c s s' t _ h.1.symm (by rw [hp]; simp) (by split <;> simp) ?_ ?_ ?_ ?_ ?_ ?_
  · intro sd' i'; rw [hp]; split <;> rfl
  · intro sd' i'; rw [hp]; split <;> rfl
  · intro sd'; rw [hp]; split
    · exact Nat.zero_le _
    · exact Nat.le_refl _
  · split <;> trivial
  · intro sl; split <;> exact Nat.zero_le _
  · intro sd' i' h1; split at h1
    · cases h1
    · simp only [Pc.expects] at h1; split at h1
      · rename_i e; cases h1; rw [e.2]
      · cases h1

theorem sum_tCas (c : Cfg) (s s' : State) (t : Nat) (inp : Inp) (l : Act) (sd : Side) (conc wake : Bool) (i : Nat)
    (hp : s.pc t = .tCas sd conc wake i)
    (h : stepThread c s t inp = some (s', l)) (pre : Pre c s (s.pc t)) : Summary c s t s' := by
  rw [hp] at pre
  have acq : s.idx sd = i → s' = (s.setIdx sd (i + 1)).setPc t (.sCbB sd i wake 1) → Summary c s t s' := by
    intro hi hs'; subst hi
    refine Summary.ofAcquire sd 1 _ hs' ?_ ?_ ?_ ?_ trivial ?_ ?_ ?_
    · rw [hp]; simp only [Pc.needs, sideIf, if_true, lvlConc]; split <;> omega
    · intro sd' i'; rw [hp]; simp only [Pc.held, false_or]; constructor
      · rintro ⟨rfl, rfl⟩; exact ⟨rfl, by omega, by omega⟩
      · rintro ⟨rfl, h2, h3⟩; exact ⟨rfl, by omega⟩
    · intro sd' i'; rw [hp]; rfl
    · intro sd'; rw [hp]; exact Nat.zero_le _
    · exact pre.lb
    · intro sd' i' h1; cases h1
    · rw [hp]; simp
  simp only [stepThread, hp] at h
  cases conc with
  | true =>
    simp only [if_true] at h
    split at h
    · rename_i hc
      simp only [Option.some.injEq, Prod.mk.injEq] at h
      exact acq hc.1 h.1.symm
    · simp only [Option.some.injEq, Prod.mk.injEq] at h
      refine quiet_plain c s s' t _ h.1.symm (by rw [hp]; simp) (by simp) ?_ ?_ ?_ trivial ?_ ?_
      · intro sd' i'; rw [hp]; rfl
      · intro sd' i'; rw [hp]; rfl
      · intro sd'; rw [hp]; exact Nat.le_refl _
      · intro sl; exact Nat.zero_le _
      · intro sd' i' h1; simp [Pc.expects] at h1
  | false =>
    simp only [Bool.false_eq_true, if_false, Option.some.injEq, Prod.mk.injEq] at h
    exact acq (pre.exp sd i (by simp [Pc.expects])) h.1.symm

theorem sum_misc (c : Cfg) (s s' : State) (t : Nat) (inp : Inp) (l : Act)
    (hp : (∃ w n tm, s.pc t = .xIdx w n tm) ∨ s.pc t = .zPop ∨ (∃ p, s.pc t = .zPush p))
    (h : stepThread c s t inp = some (s', l)) (pre : Pre c s (s.pc t)) : Summary c s t s' := by
  rcases hp with ⟨w, n, tm, hp⟩ | hp | ⟨p, hp⟩
  · simp only [stepThread, hp, Option.some.injEq, Prod.mk.injEq] at h
    rw [hp] at pre
    refine quiet_plain c s s' t _ h.1.symm (by rw [hp]; simp) (by simp) ?_ ?_ ?_ ?_ ?_ ?_
    · intro sd' i; rw [hp]; rfl
    · intro sd' i; rw [hp]; rfl
    · intro sd'; rw [hp]; exact Nat.le_refl _
    · exact pre.wf
    · intro sl; exact Nat.zero_le _
    · intro sd' i h1; cases h1
  · simp only [stepThread, hp, Option.some.injEq, Prod.mk.injEq] at h
    refine quiet_plain c s s' t _ h.1.symm (by rw [hp]; simp) (by simp) ?_ ?_ ?_ trivial ?_ ?_
    · intro sd' i; rw [hp]; rfl
    · intro sd' i; rw [hp]; rfl
    · intro sd'; rw [hp]; exact Nat.le_refl _
    · intro sl; exact Nat.zero_le _
    · intro sd' i h1; cases h1
  · simp only [stepThread, hp, Option.some.injEq, Prod.mk.injEq] at h
    refine quiet_plain c s s' t _ h.1.symm (by rw [hp]; simp) (by simp) ?_ ?_ ?_ trivial ?_ ?_
    · intro sd' i; rw [hp]; rfl
    · intro sd' i; rw [hp]; rfl
    · intro sd'; rw [hp]; exact Nat.le_refl _
    · intro sl; exact Nat.zero_le _
    · intro sd' i h1; cases h1

end Babylon.BQ
