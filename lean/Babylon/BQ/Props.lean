/-
  Consequences of the invariant: exclusive access, value transfer, exactly-once, conservation,
  ticket order (FIFO), faithfulness of the truncated version under a traffic bound.
-/
import Babylon.BQ.InvAll

namespace Babylon.BQ
open Babylon.Core Babylon.Gen.BQ

/-- a thread inside a callback on a slot is in the critical section of a ticket of that slot -/
theorem inCb_crit (c : Cfg) (p : Pc) (hw : p.wf c) (sl : Nat) (h : p.inCb c sl) :
    ∃ sd i, p.held sd i ∧ slotOf c i = sl ∧ expVer c sd i ≤ p.lb c sl := by
  cases p <;> simp only [Pc.inCb] at h <;> try (cases h; done)
  · rename_i sd i wake res
    subst h; exact ⟨sd, i, ⟨rfl, rfl⟩, rfl, by simp [Pc.lb, oneLb]⟩
  · rename_i b
    have hw' : (b.g.wf c ∧ _) ∧ 0 < b.g.n := hw
    simp only [Seg.slot] at h
    have hk : sl - slotOf c b.g.idx < b.g.n := by omega
    have hs := seg_slot c b.g hw'.1.1 _ hk
    have hE := seg_E c b.g hw'.1.1 _ hk
    have e : b.g.slot c (sl - slotOf c b.g.idx) = sl := by simp only [Seg.slot]; omega
    refine ⟨b.g.sd, b.g.idx + (sl - slotOf c b.g.idx), Or.inl ⟨rfl, by omega, by omega⟩, by rw [← hs, e], ?_⟩
    rw [hE, ← e]; simp only [Pc.lb, BCtx.lb]
    rw [segLb_in c b.g 0 b.g.n _ (Nat.zero_le _) hk]; exact Nat.le_max_left _ _

theorem exclusive_of_inv {c : Cfg} {y : Sys} (hI : Inv c y) (t u sl : Nat)
    (ht : (y.s.pc t).inCb c sl) (hu : (y.s.pc u).inCb c sl) : t = u := by
  obtain ⟨sd, i, h1, h2, h3⟩ := inCb_crit c _ (hI.wf t) sl ht
  obtain ⟨sd', i', h1', h2', h3'⟩ := inCb_crit c _ (hI.wf u) sl hu
  have e1 := hI.crit t sd i h1 (by rw [h2]; exact h3)
  have e2 := hI.crit u sd' i' h1' (by rw [h2']; exact h3')
  rw [h2] at e1; rw [h2'] at e2
  obtain ⟨rfl, rfl⟩ := deal_inj c sd sd' i i' (by rw [h2, h2']) (by rw [← e1, ← e2])
  exact hI.uniq t u sd i h1 h1'

/-! ### values as lists in ticket order -/
def poppedUpTo (s : State) (n : Nat) : List Nat := (List.range n).filterMap s.poppedV
def pushedUpTo (s : State) (n : Nat) : List Nat := (List.range n).filterMap s.pushedV

theorem filterMap_sublist {α β : Type} (f g : α → Option β) (l : List α) (h : ∀ a b, f a = some b → g a = some b) :
    List.Sublist (l.filterMap f) (l.filterMap g) := by
  induction l with
  | nil => exact List.Sublist.slnil
  | cons a l ih =>
    cases hf : f a with
    | none =>
      rw [List.filterMap_cons_none hf]
      cases hg : g a with
      | none => rw [List.filterMap_cons_none hg]; exact ih
      | some b => rw [List.filterMap_cons_some hg]; exact List.Sublist.cons _ ih
    | some b =>
      rw [List.filterMap_cons_some hf, List.filterMap_cons_some (h a b hf)]
      exact List.Sublist.cons_cons _ ih

theorem popped_sublist_pushed {c : Cfg} {y : Sys} (hI : Inv c y) (n : Nat) :
    List.Sublist (poppedUpTo y.s n) (pushedUpTo y.s n) :=
  filterMap_sublist _ _ _ (fun i v h => hI.popPush i v h)

/-- quiescent state: nobody is inside an operation -/
def Quiescent (y : Sys) : Prop := ∀ t, y.s.pc t = .idle

theorem ghost_total_of_quiescent {c : Cfg} {y : Sys} (hI : Inv c y) (hq : Quiescent y) (sd : Side) (i : Nat)
    (h : i < y.s.idx sd) : y.s.ghostV sd i ≠ none :=
  hI.ghostDef sd i h (fun t ht => by rw [hq t] at ht; cases ht)

theorem conserve_of_quiescent {c : Cfg} {y : Sys} (hI : Inv c y) (hq : Quiescent y) (hbal : y.s.pushIdx = y.s.popIdx) :
    poppedUpTo y.s y.s.popIdx = pushedUpTo y.s y.s.pushIdx ∧ (poppedUpTo y.s y.s.popIdx).length = y.s.popIdx := by
  have hall : ∀ i, i < y.s.popIdx → ∃ v, y.s.poppedV i = some v ∧ y.s.pushedV i = some v := by
    intro i hi
    have := ghost_total_of_quiescent hI hq .pop i hi
    simp only [State.ghostV] at this
    cases hv : y.s.poppedV i with
    | none => exact absurd hv this
    | some v => exact ⟨v, rfl, hI.popPush i v hv⟩
  rw [hbal]
  have key : ∀ n, n ≤ y.s.popIdx → poppedUpTo y.s n = pushedUpTo y.s n ∧ (poppedUpTo y.s n).length = n := by
    intro n hn
    induction n with
    | zero => exact ⟨rfl, rfl⟩
    | succ n ih =>
      obtain ⟨v, h1, h2⟩ := hall n (by omega)
      obtain ⟨e1, e2⟩ := ih (by omega)
      simp only [poppedUpTo, pushedUpTo, List.range_succ, List.filterMap_append, List.filterMap_cons, h1, h2,
        List.filterMap_nil] at e1 e2 ⊢
      rw [← e1]; simp [e2]
  exact key _ (Nat.le_refl _)

/-! ### ticket order -/
theorem step_idx_mono {c : Cfg} {y y' : Sys} (hI : Inv c y) (h : StepF c y y') (sd : Side) : y.s.idx sd ≤ y'.s.idx sd := by
  obtain ⟨hstep, hf⟩ := h
  cases hstep with
  | act t inp s' l hs =>
    have hsum := step_summary c y.s s' t inp l hs (hI.pre t) (hf t)
    cases hsum with
    | quiet hcore _ _ _ _ => rw [hcore.idx]; exact Nat.le_refl _
    | acquire sd0 n hidx hidx' _ _ _ _ _ _ _ _ _ =>
      rcases side_cases sd0 sd with rfl | rfl
      · show _ ≤ s'.idx sd; rw [hidx]; omega
      · show _ ≤ s'.idx _; rw [hidx']; exact Nat.le_refl _
    | release _ _ _ hpi hqi _ _ _ _ _ _ _ _ _ _ => cases sd <;> simp [State.idx, hpi, hqi]
    | callback _ _ hcore _ _ _ _ _ _ _ _ _ _ => cases sd <;> simp [State.idx, hcore.1, hcore.2.1]
  | call t k _ _ _ => cases sd <;> exact Nat.le_refl _
  | ret t res _ => cases sd <;> exact Nat.le_refl _
  | spuriousWake t x cur _ => cases sd <;> exact Nat.le_refl _

/-- thread `t`'s current call (if any) began when the dispenser of `sd` had reached `p0` -/
def StartedAfter (y : Sys) (t : Nat) (sd : Side) (p0 : Nat) : Prop := y.s.pc t = .idle ∨ p0 ≤ y.start t sd

theorem step_startedAfter {c : Cfg} {y y' : Sys} (hI : Inv c y) (h : StepF c y y') (t : Nat) (sd : Side) (p0 : Nat)
    (hp : p0 ≤ y.s.idx sd) (hs : StartedAfter y t sd p0) : StartedAfter y' t sd p0 := by
  obtain ⟨hstep, hf⟩ := h
  cases hstep with
  | act u inp s' l hst =>
    by_cases hu : u = t
    · subst hu
      rcases hs with hs | hs
      · simp [stepThread, hs] at hst
      · exact Or.inr hs
    · have hsum := step_summary c y.s s' u inp l hst (hI.pre u) (hf u)
      have hoth : Others c y.s s' u := by
        cases hsum with
        | quiet _ h _ _ _ => exact h
        | acquire _ _ _ _ _ _ _ _ h _ _ _ _ => exact h
        | release _ _ _ _ _ _ _ _ h _ _ _ _ _ _ => exact h
        | callback _ _ _ h _ _ _ _ _ _ _ _ _ => exact h
      rcases hs with hs | hs
      · exact Or.inl ((hoth t (Ne.symm hu)).idle.2 hs)
      · exact Or.inr hs
  | call u k _ _ _ =>
    by_cases hu : u = t
    · subst hu; right; show p0 ≤ upd y.start u y.s.idx u sd; rw [upd_self]; exact hp
    · rcases hs with hs | hs
      · left; show (y.s.setPc u k.entry).pc t = _; simp only [State.setPc, upd_other _ _ _ _ (Ne.symm hu), hs]
      · right; show p0 ≤ upd y.start u y.s.idx t sd; rw [upd_other _ _ _ _ (Ne.symm hu)]; exact hs
  | ret u res _ =>
    by_cases hu : u = t
    · subst hu; left; show (y.s.setPc u .idle).pc u = _; simp [State.setPc, upd]
    · rcases hs with hs | hs
      · left; show (y.s.setPc u .idle).pc t = _; simp only [State.setPc, upd_other _ _ _ _ (Ne.symm hu), hs]
      · exact Or.inr hs
  | spuriousWake u x cur hpu =>
    by_cases hu : u = t
    · subst hu
      rcases hs with hs | hs
      · rw [hs] at hpu; cases hpu
      · exact Or.inr hs
    · rcases hs with hs | hs
      · left; show (y.s.setPc u _).pc t = _; simp only [State.setPc, upd_other _ _ _ _ (Ne.symm hu), hs]
      · exact Or.inr hs

/-- FIFO on tickets: every ticket issued before thread `t` began a call is smaller than every ticket that call takes. -/
theorem fifo_tickets {c : Cfg} {y y' : Sys} (hy : ReachF c y) (t : Nat) (sd : Side) (a b : Nat)
    (ha : a < y.s.idx sd) (hidle : y.s.pc t = .idle)
    (hlater : Reachable (· = y) (StepF c) y') (hb : (y'.s.pc t).held sd b) : a < b := by
  revert hb
  have key : ReachF c y' ∧ y.s.idx sd ≤ y'.s.idx sd ∧ StartedAfter y' t sd (y.s.idx sd) := by
    induction hlater with
    | base h => subst h; exact ⟨hy, Nat.le_refl _, Or.inl hidle⟩
    | tail _ hst ih =>
      obtain ⟨r, m, s⟩ := ih
      have hI := inv_reach r
      exact ⟨Reachable.tail r hst, Nat.le_trans m (step_idx_mono hI hst sd), step_startedAfter hI hst t sd _ m s⟩
  intro hb
  obtain ⟨r, _, s⟩ := key
  have hI := inv_reach r
  rcases s with s | s
  · rw [s] at hb; cases hb
  · have := hI.heldGe t sd b hb; omega

/-! ### faithfulness of the 16-bit truncation -/
theorem faithful_of_small (c : Cfg) (s : State) (hv : ∀ sl, s.ver sl < 65536)
    (hE : ∀ t sl E, (s.pc t).cmp c = some (sl, E) → E < 65536) : ∀ t, Faithful c s t := by
  intro t sl E h
  have h1 := hv sl
  have h2 := hE t sl E h
  unfold v16
  rw [Nat.mod_eq_of_lt h1, Nat.mod_eq_of_lt h2]

/-- **window form**: if the untruncated slot version and the untruncated expected version of every pending
comparison are less than 2^16 versions (= 2^15 rounds of the ring) apart, the 16-bit comparison is exact —
also when the truncated version wraps between them -/
theorem faithful_of_window (c : Cfg) (s : State)
    (hwin : ∀ t sl E, (s.pc t).cmp c = some (sl, E) → s.ver sl < E + 65536 ∧ E < s.ver sl + 65536) : ∀ t, Faithful c s t := by
  intro t sl E h
  obtain ⟨h1, h2⟩ := hwin t sl E h
  unfold v16
  constructor
  · intro e; omega
  · intro e; rw [e]

/-- for a comparison a ticket holder makes on its own ticket the slot can only be behind (`Inv.heldLt`), so the
window is one-sided: the slot must be less than 2^15 rounds behind the waiting ticket -/
theorem faithful_holder {c : Cfg} {y : Sys} (hI : Inv c y) (t : Nat) (sd : Side) (i : Nat)
    (hh : (y.s.pc t).held sd i) (hwin : expVer c sd i < y.s.ver (slotOf c i) + 65536) :
    (v16 (y.s.ver (slotOf c i)) = v16 (expVer c sd i) ↔ y.s.ver (slotOf c i) = expVer c sd i) := by
  have := (hI.heldLt t sd i hh).2
  unfold v16
  constructor
  · intro e; omega
  · intro e; rw [e]

end Babylon.BQ
