/-
  Every step of the model satisfies the wake-up summary `WSum`, hence `SInv` is an invariant.
-/
import Babylon.BQ.Wake
namespace Babylon.BQ
open Babylon.Core Babylon.Gen.BQ

theorem wbit_setIdx (s : State) (sd : Side) (v : Nat) : (s.setIdx sd v).wbit = s.wbit := by cases sd <;> rfl
theorem pc_setIdx (s : State) (sd : Side) (v : Nat) : (s.setIdx sd v).pc = s.pc := by cases sd <;> rfl

theorem not_strong_of_ne (c : Cfg) (p : Pc) (h1 : ∀ sd i r, p ≠ .sWake sd i r) (h2 : ∀ b j, p ≠ .wWake b j) (sl : Nat) :
    ¬ p.strong c sl := by
  rintro (⟨sd, i, r, e, _⟩ | ⟨b, j, e, _⟩)
  · exact h1 sd i r e
  · exact h2 b j e

@[simp] theorem wv_runK (k : K) : (runK k).waitVal = none := calm_runK k
@[simp] theorem wv_tryDecide (x : TryCtx) (g : Seg) (n : Nat) : (tryDecide x g n).waitVal = none := calm_tryDecide x g n
@[simp] theorem wv_afterStores (b : BCtx) : (afterStores b).waitVal = none := calm_afterStores b
@[simp] theorem wv_nextWake (b : BCtx) (j : Nat) : (nextWake b j).waitVal = none := calm_nextWake b j
@[simp] theorem wv_afterWait (c : Cfg) (x : WCtx) : (afterWait c x).waitVal = none := calm_afterWait c x
@[simp] theorem wv_startWaitSeg (g : Seg) (w k : Bool) (kk : K) : (startWaitSeg g w k kk).waitVal = none := calm_startWaitSeg g w k kk

/-- a step `s ↦ s1.setPc u p'` where `s1` has the waiter bits and pcs of `s` -/
theorem wsum_state (c : Cfg) (s s1 : State) (u : Nat) (p' : Pc) (hb : s1.wbit = s.wbit) (hpc : s1.pc = s.pc)
    (hns : ∀ sl, ¬ (s.pc u).strong c sl) (hc : p'.waitVal = none) : WSum c s u (s1.setPc u p') := by
  refine wsum_plain c s _ u hb ?_ hns ?_
  · intro v hv; rw [setPc_other _ _ _ v hv, hpc]
  · rw [setPc_self]; exact hc

theorem wake_others (c : Cfg) (s : State) (u sl : Nat) (p' : Pc) (hst : (s.pc u).strong c sl) (v : Nat) (hv : v ≠ u) :
    (upd (wakeAll c s.pc sl) u p') v = s.pc v ∨
    (∃ x cur, s.pc v = .wait x (.asleep cur) ∧ (upd (wakeAll c s.pc sl) u p') v = .wait x .woken ∧ (s.pc u).strong c (x.slot c)) := by
  rw [upd_other _ _ _ _ hv]
  unfold wakeAll
  split
  · rename_i x cur hx
    split
    · rename_i e
      right; refine ⟨x, cur, hx, rfl, ?_⟩
      have : x.slot c = sl := by simpa using e
      rw [this]; exact hst
    · left; exact hx.symm
  · left; rfl

theorem wake_none_asleep (c : Cfg) (s : State) (u sl : Nat) (p' : Pc) (hc : p'.waitVal = none) (v : Nat) :
    ¬ ((upd (wakeAll c s.pc sl) u p') v).asleepOn c sl := by
  by_cases hv : v = u
  · subst hv; rw [upd_self]; exact fun h => absurd hc (asleep_not_calm c _ sl h)
  · rw [upd_other _ _ _ _ hv]
    unfold wakeAll
    split
    · rename_i x cur hx
      split
      · rintro ⟨_, _, e, _⟩; cases e
      · rename_i e
        rintro ⟨x', cur', e', hs⟩; cases e'
        apply e; simp [hs]
    · rename_i hne
      rintro ⟨x', cur', e', _⟩; exact hne x' cur' e'

/-- the two wake_all steps -/
theorem wsum_wake (c : Cfg) (s : State) (u sl : Nat) (p' : Pc) (hst : (s.pc u).strong c sl)
    (honly : ∀ sl', (s.pc u).strong c sl' → sl' = sl) (hc : p'.waitVal = none) :
    WSum c s u { s with pc := upd (wakeAll c s.pc sl) u p' } := by
  refine ⟨fun v hv => wake_others c s u sl p' hst v hv, ?_, fun sl' h => Or.inl h, ?_, ?_⟩
  · intro sl' h v; rw [honly sl' h]; exact wake_none_asleep c s u sl p' hc v
  · intro sl' h; simp only [upd_self] at h; exact absurd hc (asleep_not_calm c _ sl' h)
  · intro cur h; simp only [upd_self] at h; rw [hc] at h; cases h

theorem step_wsum (c : Cfg) (s s' : State) (u : Nat) (inp : Inp) (l : Act)
    (h : stepThread c s u inp = some (s', l))
    (hs0 : ∀ cur, (s.pc u).waitVal = some cur → waiterThreshold < cur) : WSum c s u s' := by
  cases hp : s.pc u
  case idle => simp [stepThread, hp] at h
  case retd r => simp [stepThread, hp] at h
  case sWake sd i r =>
    simp only [stepThread, hp, Option.some.injEq, Prod.mk.injEq] at h
    rw [← h.1]
    refine wsum_wake c s u (slotOf c i) _ (by rw [hp]; exact Or.inl ⟨sd, i, r, rfl, rfl⟩) ?_ rfl
    intro sl' hst; rw [hp] at hst
    rcases hst with ⟨_, _, _, e, e2⟩ | ⟨_, _, e, _⟩
    · cases e; exact e2.symm
    · cases e
  case wWake b j =>
    simp only [stepThread, hp, Option.some.injEq, Prod.mk.injEq] at h
    rw [← h.1]
    refine wsum_wake c s u (b.g.slot c j) _ (by rw [hp]; exact Or.inr ⟨b, j, rfl, rfl⟩) ?_ (wv_nextWake b j)
    intro sl' hst; rw [hp] at hst
    rcases hst with ⟨_, _, _, e, _⟩ | ⟨_, _, e, e2⟩
    · cases e
    · cases e; exact e2.symm
  case sSet sd i wake res =>
    have hns : ∀ sl, ¬ (s.pc u).strong c sl := by rw [hp]; exact not_strong_of_ne _ _ (by simp) (by simp)
    simp only [stepThread, hp] at h
    split at h
    · simp only [Option.some.injEq, Prod.mk.injEq] at h
      rw [← h.1]
      refine ⟨fun v hv => Or.inl (setPc_other _ _ _ v hv), fun sl hst => absurd hst (hns sl), ?_, ?_, ?_⟩
      · intro sl hb
        by_cases hsl : sl = slotOf c i
        · right; rw [setPc_self]
          have : ¬ s.word (slotOf c i) ≤ waiterThreshold := by
            have := (word_gt_iff s (slotOf c i)).2 (hsl ▸ hb); omega
          rw [if_neg this]; exact Or.inl ⟨sd, i, res, rfl, hsl.symm⟩
        · left; show upd s.wbit (slotOf c i) false sl = true; rw [upd_other _ _ _ _ hsl]; exact hb
      · intro sl hsl; rw [setPc_self] at hsl
        obtain ⟨x, cur, e, _⟩ := hsl; split at e <;> cases e
      · intro cur hc; rw [setPc_self] at hc; split at hc <;> cases hc
    · simp only [Option.some.injEq, Prod.mk.injEq] at h
      rw [← h.1]; exact wsum_state c s _ u _ rfl rfl hns rfl
  case wCas b j cur =>
    have hns : ∀ sl, ¬ (s.pc u).strong c sl := by rw [hp]; exact not_strong_of_ne _ _ (by simp) (by simp)
    simp only [stepThread, hp] at h
    split at h
    · simp only [Option.some.injEq, Prod.mk.injEq] at h
      rw [← h.1]
      refine ⟨fun v hv => Or.inl (setPc_other _ _ _ v hv), fun sl hst => absurd hst (hns sl), ?_, ?_, ?_⟩
      · intro sl hb
        by_cases hsl : sl = b.g.slot c j
        · right; rw [setPc_self]; exact Or.inr ⟨b, j, rfl, hsl.symm⟩
        · left; show upd s.wbit (b.g.slot c j) false sl = true; rw [upd_other _ _ _ _ hsl]; exact hb
      · intro sl hsl; rw [setPc_self] at hsl; obtain ⟨x, cur, e, _⟩ := hsl; cases e
      · intro cur hc; rw [setPc_self] at hc; cases hc
    · simp only [Option.some.injEq, Prod.mk.injEq] at h
      rw [← h.1]; exact wsum_state c s _ u _ rfl rfl hns (wv_nextWake b j)
  case wait x w =>
    have hns : ∀ sl, ¬ (s.pc u).strong c sl := by rw [hp]; exact not_strong_of_ne _ _ (by simp) (by simp)
    -- successor `wait x' w'` with waiter bits only growing
    have towait : ∀ (s1 : State) (x' : WCtx) (w' : WS), s1.pc = s.pc → (∀ sl, s.wbit sl = true → s1.wbit sl = true) →
        (∀ sl cur, w' = .asleep cur → x'.slot c = sl → (s.pc u).asleepOn c sl ∨ s1.wbit sl = true) →
        (∀ cur, (Pc.wait x' w').waitVal = some cur → (s.pc u).waitVal = some cur ∨ waiterThreshold < cur) →
        s' = s1.setPc u (.wait x' w') → WSum c s u s' := by
      intro s1 x' w' hpc hb hsl hv hs'
      rw [hs']
      refine ⟨fun v hv => Or.inl (by rw [setPc_other _ _ _ v hv, hpc]), fun sl hst => absurd hst (hns sl),
        fun sl h1 => Or.inl (hb sl h1), ?_, ?_⟩
      · intro sl h1; rw [setPc_self] at h1
        obtain ⟨x2, cur2, e, e2⟩ := h1; cases e; exact hsl sl cur2 rfl e2
      · intro cur h1; rw [setPc_self] at h1; exact hv cur h1
    have tohead : ∀ (s1 : State) (x' : WCtx) (cur : Nat), s1.pc = s.pc → s1.wbit = s.wbit →
        s' = s1.setPc u (blockHead x' cur) → WSum c s u s' := by
      intro s1 x' cur hpc hb hs'
      unfold blockHead at hs'
      split at hs'
      · exact towait s1 x' _ hpc (fun sl h1 => by rw [hb]; exact h1) (fun _ _ e => by cases e) (fun _ e => by cases e) hs'
      · rename_i hgt
        exact towait s1 x' _ hpc (fun sl h1 => by rw [hb]; exact h1) (fun _ _ e => by cases e)
          (fun cur' e => by simp only [Pc.waitVal, Option.some.injEq] at e; right; omega) hs'
    have tocalm : ∀ (s1 : State) (p' : Pc), s1.pc = s.pc → s1.wbit = s.wbit → p'.waitVal = none →
        s' = s1.setPc u p' → WSum c s u s' := by
      intro s1 p' hpc hb hc hs'; rw [hs']; exact wsum_state c s s1 u p' hb hpc hns hc
    cases w with
    | load0 =>
      simp only [stepThread, hp, Option.some.injEq, Prod.mk.injEq] at h
      obtain ⟨h, -⟩ := h
      split at h
      · exact tocalm s _ rfl rfl (wv_afterWait c x) h.symm
      · split at h
        · split at h
          · exact towait s x _ rfl (fun _ h1 => h1) (fun _ _ e => by cases e) (fun _ e => by cases e) h.symm
          · exact tohead s x _ rfl rfl h.symm
        · exact towait s x _ rfl (fun _ h1 => h1) (fun _ _ e => by cases e) (fun _ e => by cases e) h.symm
    | clk0 cur =>
      cases x with
      | timed wake i num a b =>
        simp only [stepThread, hp, Option.some.injEq, Prod.mk.injEq] at h
        exact tohead { s with now := inp.now } _ _ rfl rfl h.1.symm
      | single sd i wait wake => simp [stepThread, hp] at h
      | batch g j wait wake k => simp [stepThread, hp] at h
    | cas cur =>
      simp only [stepThread, hp] at h
      split at h
      · simp only [Option.some.injEq, Prod.mk.injEq] at h
        refine towait { s with wbit := upd s.wbit (x.slot c) true } x _ rfl ?_ (fun _ _ e => by cases e) ?_ h.1.symm
        · intro sl h1; show upd s.wbit (x.slot c) true sl = true
          simp only [upd]; split
          · rfl
          · exact h1
        · intro cur' e; simp only [Pc.waitVal, Option.some.injEq] at e; right
          have : waiterInc = 65536 := rfl
          have : waiterThreshold = 65535 := rfl
          omega
      · simp only [Option.some.injEq, Prod.mk.injEq] at h
        obtain ⟨h, -⟩ := h
        split at h
        · exact tocalm s _ rfl rfl (wv_afterWait c x) h.symm
        · exact tohead s x _ rfl rfl h.symm
    | fwait cur =>
      have hcur := hs0 cur (by rw [hp]; rfl)
      simp only [stepThread, hp] at h
      split at h
      · rename_i hw
        simp only [Option.some.injEq, Prod.mk.injEq] at h
        refine towait s x _ rfl (fun _ h1 => h1) ?_ (fun cur' e => by left; rw [hp]; exact e) h.1.symm
        intro sl cur' e1 e2; cases e1; right
        rw [← e2]; exact (word_gt_iff s _).1 (by rw [hw]; exact hcur)
      · simp only [Option.some.injEq, Prod.mk.injEq] at h
        exact towait s x _ rfl (fun _ h1 => h1) (fun _ _ e => by cases e) (fun _ e => by cases e) h.1.symm
    | asleep cur =>
      simp only [stepThread, hp] at h
      split at h
      · simp only [Option.some.injEq, Prod.mk.injEq] at h
        exact tocalm s _ rfl rfl (wv_afterWait c x) h.1.symm
      · cases h
    | woken =>
      simp only [stepThread, hp, Option.some.injEq, Prod.mk.injEq] at h
      exact towait s x _ rfl (fun _ h1 => h1) (fun _ _ e => by cases e) (fun _ e => by cases e) h.1.symm
    | reload =>
      simp only [stepThread, hp, Option.some.injEq, Prod.mk.injEq] at h
      obtain ⟨h, -⟩ := h
      split at h
      · exact tocalm s _ rfl rfl (wv_afterWait c x) h.symm
      · split at h
        · exact towait s x _ rfl (fun _ h1 => h1) (fun _ _ e => by cases e) (fun _ e => by cases e) h.symm
        · exact tohead s x _ rfl rfl h.symm
    | clk1 cur =>
      cases x with
      | timed wake i num a b =>
        simp only [stepThread, hp, Option.some.injEq, Prod.mk.injEq] at h
        obtain ⟨h, -⟩ := h
        split at h
        · exact tocalm { s with now := inp.now } _ rfl rfl (wv_afterWait c _) h.symm
        · exact tohead { s with now := inp.now } _ _ rfl rfl h.symm
      | single sd i wait wake => simp [stepThread, hp] at h
      | batch g j wait wake k => simp [stepThread, hp] at h
    | spin =>
      simp only [stepThread, hp, Option.some.injEq, Prod.mk.injEq] at h
      obtain ⟨h, -⟩ := h
      split at h
      · exact tocalm s _ rfl rfl (wv_afterWait c x) h.symm
      · exact towait s x _ rfl (fun _ h1 => h1) (fun _ _ e => by cases e) (fun _ e => by cases e) h.symm
  all_goals
    have hns : ∀ sl, ¬ (s.pc u).strong c sl := by rw [hp]; exact not_strong_of_ne _ _ (by simp) (by simp)
    simp only [stepThread, hp] at h
    (repeat' split at h) <;> first
      | (cases h; done)
      | (simp only [Option.some.injEq, Prod.mk.injEq] at h
         rw [← h.1]
         exact wsum_state c s _ u _ (by first | rfl | exact wbit_setIdx _ _ _) (by first | rfl | exact pc_setIdx _ _ _) hns
           (by (repeat' split) <;> first | rfl | simp))

end Babylon.BQ

namespace Babylon.BQ
open Babylon.Core Babylon.Gen.BQ

theorem sinv_init (c : Cfg) : SInv c Sys.init.s :=
  ⟨fun t cur h => (by cases h), fun t sl h => (by obtain ⟨_, _, e, _⟩ := h; cases e)⟩

theorem wv_entry (k : Call) : k.entry.waitVal = none := by
  cases k <;> simp only [Call.entry] <;> (try split) <;> rfl

/-- replacing a calm pc without pending wake-up by another calm pc keeps `SInv` -/
theorem sinv_setPc (c : Cfg) (s : State) (t : Nat) (p' : Pc) (hI : SInv c s)
    (hns : ∀ sl, ¬ (s.pc t).strong c sl) (hc : p'.waitVal = none) : SInv c (s.setPc t p') :=
  sinv_step c s _ t hI (wsum_state c s s t p' rfl rfl hns hc)

theorem sinv_sys_step {c : Cfg} {y y' : Sys} (hI : SInv c y.s) (h : Step c y y') : SInv c y'.s := by
  cases h with
  | act t inp s' l hs => exact sinv_step c y.s s' t hI (step_wsum c y.s s' t inp l hs (hI.s0 t))
  | call t k hidle _ _ =>
    exact sinv_setPc c y.s t _ hI (by rw [hidle]; exact not_strong_of_ne _ _ (by simp) (by simp)) (wv_entry k)
  | ret t res hret =>
    exact sinv_setPc c y.s t _ hI (by rw [hret]; exact not_strong_of_ne _ _ (by simp) (by simp)) rfl
  | spuriousWake t x cur hp =>
    exact sinv_setPc c y.s t _ hI (by rw [hp]; exact not_strong_of_ne _ _ (by simp) (by simp)) rfl

theorem sinv_reach {c : Cfg} {y : Sys} (h : ReachF c y) : SInv c y.s :=
  Reachable.invariant (fun y => SInv c y.s) (fun s hs => by rw [hs]; exact sinv_init c)
    (fun _ _ hi hs => sinv_sys_step hi hs.1) y h

end Babylon.BQ
