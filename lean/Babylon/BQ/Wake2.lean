/-
  Wake-up obligations of the batch waker (C02): after its relaxed 16-bit version stores a batch releaser
  with USE_FUTEX_WAKE re-loads every slot word and, if the waiter bit is set and the version is still its
  own, clears the bit with a CAS and calls wake_all.  `Pc.cond c p sl v` says: thread with pc `p` has stored
  version `v` into slot `sl` and has not finished that check for `sl` yet.
-/
import Babylon.BQ.FlagInv

namespace Babylon.BQ
open Babylon.Core Babylon.Gen.BQ

/-- wait context of a pc that is on the futex slow path -/
def Pc.futexy : Pc → Option WCtx
  | .wait x (.clk0 _) | .wait x (.cas _) | .wait x (.fwait _) | .wait x (.asleep _) | .wait x .woken | .wait x .reload
  | .wait x (.clk1 _) => some x
  | _ => none
/-- the word value the slow path last observed -/
def Pc.curOf : Pc → Option (WCtx × Nat)
  | .wait x (.clk0 cur) | .wait x (.cas cur) | .wait x (.fwait cur) | .wait x (.asleep cur) | .wait x (.clk1 cur) => some (x, cur)
  | _ => none

structure FInv (c : Cfg) (s : State) : Prop where
  f0 : ∀ t x, (s.pc t).futexy = some x → x.futex = true
  f1 : ∀ t x cur, (s.pc t).curOf = some (x, cur) → v16 cur ≠ v16 (x.E c)

@[simp] theorem fx_runK (k : K) : (runK k).futexy = none := by
  cases k with
  | ret r => rfl
  | block w k g => simp only [runK, startWaitSeg]; split <;> rfl
  | tryNext x g => simp only [runK]; split <;> rfl
  | comp g => rfl
  | back cc => rfl
@[simp] theorem fx_tryDecide (x : TryCtx) (g : Seg) (n : Nat) : (tryDecide x g n).futexy = none := by
  unfold tryDecide; split
  · exact fx_runK _
  · rfl
@[simp] theorem fx_afterStores (b : BCtx) : (afterStores b).futexy = none := by
  unfold afterStores; split
  · rfl
  · exact fx_runK _
@[simp] theorem fx_nextWake (b : BCtx) (j : Nat) : (nextWake b j).futexy = none := by
  unfold nextWake; split
  · rfl
  · exact fx_runK _
@[simp] theorem fx_afterWait (c : Cfg) (x : WCtx) : (afterWait c x).futexy = none := by
  cases x with
  | single sd i w k => rfl
  | batch g j w k kk => simp only [afterWait]; split <;> rfl
  | timed w i n a b => rfl
@[simp] theorem fx_startWaitSeg (g : Seg) (w k : Bool) (kk : K) : (startWaitSeg g w k kk).futexy = none := by
  unfold startWaitSeg; split <;> rfl

theorem curOf_futexy (p : Pc) (x : WCtx) (cur : Nat) (h : p.curOf = some (x, cur)) : p.futexy = some x := by
  cases p <;> simp only [Pc.curOf] at h <;> try (cases h; done)
  rename_i x' w
  cases w <;> simp only [Option.some.injEq, Prod.mk.injEq] at h <;> first | (cases h; done) | (obtain ⟨rfl, -⟩ := h; rfl)

theorem futexy_none_curOf (p : Pc) (h : p.futexy = none) : p.curOf = none := by
  cases hc : p.curOf with
  | none => rfl
  | some xc => obtain ⟨x, cur⟩ := xc; rw [curOf_futexy p x cur hc] at h; cases h

/-- own-step preservation of the slow-path facts -/
theorem step_finv (c : Cfg) (s s' : State) (u : Nat) (inp : Inp) (l : Act)
    (h : stepThread c s u inp = some (s', l))
    (h0 : ∀ x, (s.pc u).futexy = some x → x.futex = true)
    (h1 : ∀ x cur, (s.pc u).curOf = some (x, cur) → v16 cur ≠ v16 (x.E c)) :
    (∀ x, (s'.pc u).futexy = some x → x.futex = true) ∧
    (∀ x cur, (s'.pc u).curOf = some (x, cur) → v16 cur ≠ v16 (x.E c)) := by
  have none_case : (s'.pc u).futexy = none →
      (∀ x, (s'.pc u).futexy = some x → x.futex = true) ∧
      (∀ x cur, (s'.pc u).curOf = some (x, cur) → v16 cur ≠ v16 (x.E c)) := by
    intro hn
    exact ⟨fun x hx => (by rw [hn] at hx; cases hx), fun x cur hx => (by rw [futexy_none_curOf _ hn] at hx; cases hx)⟩
  cases hp : s.pc u
  case idle => simp [stepThread, hp] at h
  case retd r => simp [stepThread, hp] at h
  case wait x w =>
    have hE : ∀ a b wk i num a' b', (WCtx.timed wk i num a b).E c = (WCtx.timed wk i num a' b').E c := fun _ _ _ _ _ _ _ => rfl
    -- successor `wait x' w'`
    have mk : ∀ (s1 : State) (x' : WCtx) (w' : WS), s' = s1.setPc u (.wait x' w') →
        ((Pc.wait x' w').futexy = some x' → x'.futex = true) →
        (∀ cur, (Pc.wait x' w').curOf = some (x', cur) → v16 cur ≠ v16 (x'.E c)) →
        (∀ x, (s'.pc u).futexy = some x → x.futex = true) ∧
        (∀ x cur, (s'.pc u).curOf = some (x, cur) → v16 cur ≠ v16 (x.E c)) := by
      intro s1 x' w' e a1 a2
      rw [e, setPc_self]
      refine ⟨fun x2 hx => ?_, fun x2 cur hx => ?_⟩
      · have : x2 = x' := by cases w' <;> simp [Pc.futexy] at hx <;> exact hx.symm
        subst this; exact a1 hx
      · have : x2 = x' := by cases w' <;> simp [Pc.curOf] at hx <;> exact hx.1.symm
        subst this; exact a2 cur hx
    have calm : ∀ (s1 : State) (p' : Pc), s' = s1.setPc u p' → p'.futexy = none →
        (∀ x, (s'.pc u).futexy = some x → x.futex = true) ∧
        (∀ x cur, (s'.pc u).curOf = some (x, cur) → v16 cur ≠ v16 (x.E c)) := by
      intro s1 p' e hn; apply none_case; rw [e, setPc_self]; exact hn
    have head : ∀ (s1 : State) (x' : WCtx) (cur : Nat), s' = s1.setPc u (blockHead x' cur) → x'.futex = true →
        v16 cur ≠ v16 (x'.E c) →
        (∀ x, (s'.pc u).futexy = some x → x.futex = true) ∧
        (∀ x cur, (s'.pc u).curOf = some (x, cur) → v16 cur ≠ v16 (x.E c)) := by
      intro s1 x' cur e hfx hne
      unfold blockHead at e; split at e
      · exact mk s1 x' _ e (fun _ => hfx) (fun cur' hc => by simp only [Pc.curOf, Option.some.injEq, Prod.mk.injEq] at hc; rw [← hc.2]; exact hne)
      · exact mk s1 x' _ e (fun _ => hfx) (fun cur' hc => by simp only [Pc.curOf, Option.some.injEq, Prod.mk.injEq] at hc; rw [← hc.2]; exact hne)
    have hfx : ∀ w0, w = w0 → (Pc.wait x w0).futexy = some x → x.futex = true := by
      intro w0 e hh; subst e; exact h0 x (by rw [hp]; exact hh)
    have hcur : ∀ w0 cur, w = w0 → (Pc.wait x w0).curOf = some (x, cur) → v16 cur ≠ v16 (x.E c) := by
      intro w0 cur e hh; subst e; exact h1 x cur (by rw [hp]; exact hh)
    cases w with
    | load0 =>
      simp only [stepThread, hp, Option.some.injEq, Prod.mk.injEq] at h
      obtain ⟨h, -⟩ := h
      split at h
      · exact calm s _ h.symm (fx_afterWait c x)
      · rename_i hne
        split at h
        · rename_i hf
          split at h
          · exact mk s x _ h.symm (fun _ => hf) (fun cur hc => by simp only [Pc.curOf, Option.some.injEq, Prod.mk.injEq] at hc; rw [← hc.2]; exact hne)
          · exact head s x _ h.symm hf hne
        · exact mk s x _ h.symm (fun hh => by cases hh) (fun cur hc => by cases hc)
    | clk0 cur =>
      have f := hfx _ rfl rfl
      have g := hcur _ cur rfl rfl
      cases x with
      | timed wk i num a b =>
        simp only [stepThread, hp, Option.some.injEq, Prod.mk.injEq] at h
        exact head { s with now := inp.now } (.timed wk i num inp.now b) cur h.1.symm rfl g
      | single sd i wt wk => simp [stepThread, hp] at h
      | batch g0 j wt wk k => simp [stepThread, hp] at h
    | cas cur =>
      have f := hfx _ rfl rfl
      have g := hcur _ cur rfl rfl
      simp only [stepThread, hp] at h
      split at h
      · simp only [Option.some.injEq, Prod.mk.injEq] at h
        refine mk { s with wbit := upd s.wbit (x.slot c) true } x _ h.1.symm (fun _ => f) ?_
        intro cur' hc; simp only [Pc.curOf, Option.some.injEq, Prod.mk.injEq] at hc
        rw [← hc.2]
        have : waiterInc = 65536 := rfl
        rw [this]; unfold v16 at g ⊢; omega
      · simp only [Option.some.injEq, Prod.mk.injEq] at h
        obtain ⟨h, -⟩ := h
        split at h
        · exact calm s _ h.symm (fx_afterWait c x)
        · rename_i hne; exact head s x _ h.symm f hne
    | fwait cur =>
      have f := hfx _ rfl rfl
      have g := hcur _ cur rfl rfl
      simp only [stepThread, hp] at h
      split at h <;> simp only [Option.some.injEq, Prod.mk.injEq] at h
      · exact mk s x _ h.1.symm (fun _ => f) (fun cur' hc => by simp only [Pc.curOf, Option.some.injEq, Prod.mk.injEq] at hc; rw [← hc.2]; exact g)
      · exact mk s x _ h.1.symm (fun _ => f) (fun cur' hc => by cases hc)
    | asleep cur =>
      simp only [stepThread, hp] at h
      split at h
      · simp only [Option.some.injEq, Prod.mk.injEq] at h
        exact calm s _ h.1.symm (fx_afterWait c x)
      · cases h
    | woken =>
      have f := hfx _ rfl rfl
      simp only [stepThread, hp, Option.some.injEq, Prod.mk.injEq] at h
      exact mk s x _ h.1.symm (fun _ => f) (fun cur' hc => by cases hc)
    | reload =>
      have f := hfx _ rfl rfl
      simp only [stepThread, hp, Option.some.injEq, Prod.mk.injEq] at h
      obtain ⟨h, -⟩ := h
      split at h
      · exact calm s _ h.symm (fx_afterWait c x)
      · rename_i hne
        split at h
        · exact mk s x _ h.symm (fun _ => f) (fun cur hc => by simp only [Pc.curOf, Option.some.injEq, Prod.mk.injEq] at hc; rw [← hc.2]; exact hne)
        · exact head s x _ h.symm f hne
    | clk1 cur =>
      have g := hcur _ cur rfl rfl
      cases x with
      | timed wk i num a b =>
        simp only [stepThread, hp, Option.some.injEq, Prod.mk.injEq] at h
        obtain ⟨h, -⟩ := h
        split at h
        · exact calm { s with now := inp.now } _ h.symm (fx_afterWait c _)
        · exact head { s with now := inp.now } (.timed wk i num a (b - (inp.now - a))) cur h.symm rfl g
      | single sd i wt wk => simp [stepThread, hp] at h
      | batch g0 j wt wk k => simp [stepThread, hp] at h
    | spin =>
      simp only [stepThread, hp, Option.some.injEq, Prod.mk.injEq] at h
      obtain ⟨h, -⟩ := h
      split at h
      · exact calm s _ h.symm (fx_afterWait c x)
      · exact mk s x _ h.symm (fun hh => by cases hh) (fun cur hc => by cases hc)
  all_goals
    apply none_case
    simp only [stepThread, hp] at h
    (repeat' split at h) <;> first
      | (cases h; done)
      | (simp only [Option.some.injEq, Prod.mk.injEq] at h
         rw [← h.1]
         first
           | (rw [setPc_self]; (repeat' split) <;> first | rfl | simp)
           | (simp only [upd_self]; (repeat' split) <;> first | rfl | simp))

end Babylon.BQ

namespace Babylon.BQ
open Babylon.Core Babylon.Gen.BQ

theorem finv_init (c : Cfg) : FInv c Sys.init.s := ⟨fun t x h => (by cases h), fun t x cur h => (by cases h)⟩

theorem fx_entry (k : Call) : k.entry.futexy = none := by
  cases k <;> simp only [Call.entry] <;> (try split) <;> rfl

theorem finv_sys_step {c : Cfg} {y y' : Sys} (hS : SInv c y.s) (hF : FInv c y.s) (h : Step c y y') : FInv c y'.s := by
  have setpc : ∀ (t : Nat) (p' : Pc), p'.futexy = none → FInv c (y.s.setPc t p') := by
    intro t p' hn
    constructor
    · intro v x hx; by_cases hv : v = t
      · subst hv; rw [setPc_self, hn] at hx; cases hx
      · rw [setPc_other _ _ _ v hv] at hx; exact hF.f0 v x hx
    · intro v x cur hx; by_cases hv : v = t
      · subst hv; rw [setPc_self, futexy_none_curOf _ hn] at hx; cases hx
      · rw [setPc_other _ _ _ v hv] at hx; exact hF.f1 v x cur hx
  cases h with
  | act u inp s' l hs =>
    obtain ⟨g0, g1⟩ := step_finv c y.s s' u inp l hs (hF.f0 u) (hF.f1 u)
    have hw := step_wsum c y.s s' u inp l hs (hS.s0 u)
    constructor
    · intro v x hx; by_cases hv : v = u
      · subst hv; exact g0 x hx
      · rcases hw.others v hv with e | ⟨x', cur, e1, e2, _⟩
        · rw [show ({ y with s := s' } : Sys).s.pc v = s'.pc v from rfl, e] at hx; exact hF.f0 v x hx
        · rw [show ({ y with s := s' } : Sys).s.pc v = s'.pc v from rfl, e2] at hx
          exact hF.f0 v x (by rw [e1]; exact hx)
    · intro v x cur hx; by_cases hv : v = u
      · subst hv; exact g1 x cur hx
      · rcases hw.others v hv with e | ⟨x', cur', e1, e2, _⟩
        · rw [show ({ y with s := s' } : Sys).s.pc v = s'.pc v from rfl, e] at hx; exact hF.f1 v x cur hx
        · rw [show ({ y with s := s' } : Sys).s.pc v = s'.pc v from rfl, e2] at hx; cases hx
  | call u k _ _ _ => exact setpc u _ (fx_entry k)
  | ret u res _ => exact setpc u _ rfl
  | spuriousWake u x cur hp =>
    constructor
    · intro v x' hx; by_cases hv : v = u
      · subst hv; rw [setPc_self] at hx; exact hF.f0 v x' (by rw [hp]; exact hx)
      · rw [setPc_other _ _ _ v hv] at hx; exact hF.f0 v x' hx
    · intro v x' cur' hx; by_cases hv : v = u
      · subst hv; rw [setPc_self] at hx; cases hx
      · rw [setPc_other _ _ _ v hv] at hx; exact hF.f1 v x' cur' hx

theorem finv_reach {c : Cfg} {y : Sys} (h : ReachF c y) : FInv c y.s := by
  induction h with
  | base h => subst h; exact finv_init c
  | tail hr hs ih => exact finv_sys_step (sinv_reach hr) ih hs.1

/-! ### conditional wake-up obligations -/
/-- thread with pc `p` is a waking batch releaser that stored version `v` into slot `sl` and has not yet
finished `wakeup_waiters` for it -/
def Pc.cond (c : Cfg) (p : Pc) (sl v : Nat) : Prop :=
  ∃ b : BCtx, b.wake = true ∧ b.g.E c + versionBump = v ∧ ∃ k, sl = b.g.slot c k ∧ k < b.g.n ∧
    ((∃ j, p = .bSt b j ∧ k < j) ∨ p = .fSc b ∨ (∃ j, p = .wLd b j ∧ j ≤ k) ∨
     (∃ j cur, p = .wCas b j cur ∧ j < k) ∨
     (∃ cur, p = .wCas b k cur ∧ cur = v16 v + waiterInc) ∨
     (∃ j, p = .wWake b j ∧ j < k))

/-- effect of a step on one slot word -/
def SlotEff (c : Cfg) (s : State) (u : Nat) (s' : State) (sl : Nat) : Prop :=
  (s'.ver sl = s.ver sl ∧ s'.wbit sl = s.wbit sl) ∨
  (s'.ver sl = s.ver sl ∧ s'.wbit sl = true) ∨
  (s'.ver sl = s.ver sl ∧ s'.wbit sl = false) ∨
  (∃ sd i, (s.pc u).held sd i ∧ slotOf c i = sl ∧ expVer c sd i ≤ (s.pc u).lb c sl ∧ s'.ver sl = expVer c sd i + 1 ∧
     (s'.wbit sl = false ∨ (s'.wbit sl = s.wbit sl ∧ ((s'.pc u).cond c sl (s'.ver sl) ∨ (s.pc u).nw sd))))

structure W2 (c : Cfg) (s : State) (u : Nat) (s' : State) : Prop where
  slot : ∀ sl, SlotEff c s u s' sl
  condKeep : ∀ sl v, (s.pc u).cond c sl v →
    (s'.pc u).cond c sl v ∨ (s'.pc u).strong c sl ∨ s.wbit sl = false ∨ v16 (s.ver sl) ≠ v16 v

theorem not_cond_of_ne (c : Cfg) (p : Pc) (h1 : ∀ b j, p ≠ .bSt b j) (h2 : ∀ b, p ≠ .fSc b) (h3 : ∀ b j, p ≠ .wLd b j)
    (h4 : ∀ b j cur, p ≠ .wCas b j cur) (h5 : ∀ b j, p ≠ .wWake b j) (sl v : Nat) : ¬ p.cond c sl v := by
  rintro ⟨b, _, _, k, _, _, (⟨j, e, _⟩ | e | ⟨j, e, _⟩ | ⟨j, cur, e, _⟩ | ⟨cur, e, _⟩ | ⟨j, e, _⟩)⟩
  · exact h1 b j e
  · exact h2 b e
  · exact h3 b j e
  · exact h4 b j cur e
  · exact h4 b k cur e
  · exact h5 b j e

/-- a step that changes neither versions nor waiter bits, from a pc without conditional obligation -/
theorem w2_frame (c : Cfg) (s s' : State) (u : Nat) (hv : s'.ver = s.ver) (hb : s'.wbit = s.wbit)
    (hnc : ∀ sl v, ¬ (s.pc u).cond c sl v) : W2 c s u s' :=
  ⟨fun sl => Or.inl ⟨by rw [hv], by rw [hb]⟩, fun sl v h => absurd h (hnc sl v)⟩

theorem ver_setIdx (s : State) (sd : Side) (v : Nat) : (s.setIdx sd v).ver = s.ver := by cases sd <;> rfl

theorem w2_rest (c : Cfg) (s s' : State) (u : Nat) (inp : Inp) (l : Act)
    (h : stepThread c s u inp = some (s', l))
    (hn1 : ∀ sd i wk r, s.pc u ≠ .sSet sd i wk r) (hn2 : ∀ b j, s.pc u ≠ .bSt b j) (hn3 : ∀ b, s.pc u ≠ .fSc b)
    (hn4 : ∀ b j, s.pc u ≠ .wLd b j) (hn5 : ∀ b j cur, s.pc u ≠ .wCas b j cur) (hn6 : ∀ b j, s.pc u ≠ .wWake b j)
    (hn7 : ∀ x cur, s.pc u ≠ .wait x (.cas cur)) : W2 c s u s' := by
  have hnc := not_cond_of_ne c (s.pc u) hn2 hn3 hn4 hn5 hn6
  cases hp : s.pc u
  case sSet sd i wk r => exact absurd hp (hn1 sd i wk r)
  case bSt b j => exact absurd hp (hn2 b j)
  case fSc b => exact absurd hp (hn3 b)
  case wLd b j => exact absurd hp (hn4 b j)
  case wCas b j cur => exact absurd hp (hn5 b j cur)
  case wWake b j => exact absurd hp (hn6 b j)
  case idle => simp [stepThread, hp] at h
  case retd r => simp [stepThread, hp] at h
  case wait x w =>
    cases w
    case cas cur => exact absurd hp (hn7 x cur)
    all_goals
      simp only [stepThread, hp] at h
      (repeat' split at h) <;> first
        | (cases h; done)
        | (simp only [Option.some.injEq, Prod.mk.injEq] at h
           exact w2_frame c s s' u (by rw [← h.1]; first | done | rfl) (by rw [← h.1]; first | done | rfl) hnc)
  all_goals
    simp only [stepThread, hp] at h
    (repeat' split at h) <;> first
      | (cases h; done)
      | (simp only [Option.some.injEq, Prod.mk.injEq] at h
         exact w2_frame c s s' u (by rw [← h.1]; first | done | rfl | exact ver_setIdx _ _ _) (by rw [← h.1]; first | done | rfl | exact wbit_setIdx _ _ _) hnc)
theorem word_bit (s : State) (sl : Nat) (h : waiterThreshold < s.word sl) : s.word sl = v16 (s.ver sl) + waiterInc := by
  have := (word_gt_iff s sl).1 h
  unfold State.word; rw [this]; rfl
theorem word_nobit (s : State) (sl : Nat) (h : s.word sl ≤ waiterThreshold) : s.wbit sl = false := by
  cases hb : s.wbit sl with
  | false => rfl
  | true => have := (word_gt_iff s sl).2 hb; omega
theorem v16_add_inc (x : Nat) : v16 (x + waiterInc) = v16 x := by
  have : waiterInc = 65536 := rfl
  rw [this]; unfold v16; omega
theorem v16_idem (x : Nat) : v16 (v16 x) = v16 x := by unfold v16; omega

theorem w2_special (c : Cfg) (s s' : State) (u : Nat) (inp : Inp) (l : Act)
    (h : stepThread c s u inp = some (s', l)) (hwf : (s.pc u).wf c) :
    ((∃ sd i wk r, s.pc u = .sSet sd i wk r) ∨ (∃ b j, s.pc u = .bSt b j) ∨ (∃ b, s.pc u = .fSc b) ∨
     (∃ b j, s.pc u = .wLd b j) ∨ (∃ b j cur, s.pc u = .wCas b j cur) ∨ (∃ b j, s.pc u = .wWake b j) ∨
     (∃ x cur, s.pc u = .wait x (.cas cur))) → W2 c s u s' := by
  rintro (⟨sd, i, wk, r, hp⟩ | ⟨b, j, hp⟩ | ⟨b, hp⟩ | ⟨b, j, hp⟩ | ⟨b, j, cur, hp⟩ | ⟨b, j, hp⟩ | ⟨x, cur, hp⟩)
  · -- single release
    have hnc : ∀ sl v, ¬ (s.pc u).cond c sl v := by rw [hp]; exact not_cond_of_ne c _ (by simp) (by simp) (by simp) (by simp) (by simp)
    refine ⟨?_, fun sl v hc => absurd hc (hnc sl v)⟩
    intro sl
    simp only [stepThread, hp, versionBump] at h
    by_cases hsl : sl = slotOf c i
    · right; right; right
      refine ⟨sd, i, by rw [hp]; exact ⟨rfl, rfl⟩, hsl.symm, by rw [hp, hsl]; simp [Pc.lb, oneLb], ?_⟩
      cases wk with
      | true =>
        simp only [if_true, Option.some.injEq, Prod.mk.injEq] at h
        rw [← h.1]; subst hsl
        exact ⟨by simp [State.setPc, upd], Or.inl (by simp [State.setPc, upd])⟩
      | false =>
        simp only [Bool.false_eq_true, if_false, Option.some.injEq, Prod.mk.injEq] at h
        rw [← h.1]; subst hsl
        exact ⟨by simp [State.setPc, upd], Or.inr ⟨rfl, Or.inr (by rw [hp]; exact ⟨rfl, rfl⟩)⟩⟩
    · left
      cases wk with
      | true =>
        simp only [if_true, Option.some.injEq, Prod.mk.injEq] at h
        rw [← h.1]; exact ⟨by simp [State.setPc, upd, hsl], by simp [State.setPc, upd, hsl]⟩
      | false =>
        simp only [Bool.false_eq_true, if_false, Option.some.injEq, Prod.mk.injEq] at h
        rw [← h.1]; exact ⟨by simp [State.setPc, upd, hsl], rfl⟩
  · -- batch store
    rw [hp] at hwf
    have hw : (b.g.wf c ∧ b.k.wf c b.g.sd (b.g.idx + b.g.n)) ∧ j < b.g.n := hwf
    simp only [stepThread, hp, Option.some.injEq, Prod.mk.injEq, versionBump] at h
    obtain ⟨h, -⟩ := h
    have hpc' : s'.pc u = (if j + 1 < b.g.n then Pc.bSt b (j + 1) else afterStores b) := by rw [← h]; simp [State.setPc, upd]
    have hver' : s'.ver = upd s.ver (b.g.slot c j) (b.g.E c + 1) := by rw [← h]; rfl
    have hwb' : s'.wbit = s.wbit := by rw [← h]; rfl
    constructor
    · intro sl
      by_cases hsl : sl = b.g.slot c j
      · right; right; right
        refine ⟨b.g.sd, b.g.idx + j, by rw [hp]; exact Or.inl ⟨rfl, Nat.le_refl _, by omega⟩,
          by rw [hsl]; exact (seg_slot c b.g hw.1.1 j hw.2).symm, ?_, ?_, ?_⟩
        · rw [hp, seg_E c b.g hw.1.1 j hw.2, hsl]; simp only [Pc.lb, BCtx.lb]
          rw [segLb_in c b.g j b.g.n j (Nat.le_refl _) hw.2]; exact Nat.le_max_left _ _
        · rw [hver', hsl, seg_E c b.g hw.1.1 j hw.2]; simp [upd]
        · right; refine ⟨by rw [hwb'], ?_⟩
          cases hwk : b.wake with
          | false => right; rw [hp]; exact Or.inl ⟨hwk, rfl⟩
          | true =>
            left; rw [hpc', hver', hsl]
            refine ⟨b, hwk, by simp [upd, versionBump], j, rfl, hw.2, ?_⟩
            split
            · exact Or.inl ⟨j + 1, rfl, by omega⟩
            · simp only [afterStores, hwk, if_true]; exact Or.inr (Or.inl trivial)
      · left; exact ⟨by rw [hver']; simp [upd, hsl], by rw [hwb']⟩
    · intro sl v hc
      rw [hp] at hc
      obtain ⟨b', hwk, hv, k, hk1, hk2, hcase⟩ := hc
      have hb : b' = b ∧ k < j := by
        rcases hcase with ⟨j', e, hj⟩ | e | ⟨j', e, _⟩ | ⟨j', cur, e, _⟩ | ⟨cur, e, _⟩ | ⟨j', e, _⟩ <;> cases e
        exact ⟨rfl, hj⟩
      obtain ⟨rfl, hkj⟩ := hb
      left; rw [hpc']
      refine ⟨b', hwk, hv, k, hk1, hk2, ?_⟩
      split
      · exact Or.inl ⟨j + 1, rfl, by omega⟩
      · simp only [afterStores, hwk, if_true]; exact Or.inr (Or.inl trivial)
  · -- fence
    rw [hp] at hwf
    have hw : b.wf c ∧ 0 < b.g.n := hwf
    have hne : b.g.n ≠ 0 := by omega
    simp only [stepThread, hp, hne, if_false, Option.some.injEq, Prod.mk.injEq] at h
    refine ⟨fun sl => Or.inl ⟨by rw [← h.1]; rfl, by rw [← h.1]; rfl⟩, ?_⟩
    intro sl v hc
    rw [hp] at hc
    obtain ⟨b', hwk, hv, k, hk1, hk2, hcase⟩ := hc
    have hb : b' = b := by
      rcases hcase with ⟨j', e, _⟩ | e | ⟨j', e, _⟩ | ⟨j', cur, e, _⟩ | ⟨cur, e, _⟩ | ⟨j', e, _⟩ <;> cases e
      rfl
    subst hb
    left; rw [← h.1, setPc_self]
    exact ⟨b', hwk, hv, k, hk1, hk2, Or.inr (Or.inr (Or.inl ⟨0, rfl, Nat.zero_le _⟩))⟩
  · -- re-load
    rw [hp] at hwf
    have hw : b.wf c ∧ j < b.g.n := hwf
    simp only [stepThread, hp, Option.some.injEq, Prod.mk.injEq] at h
    obtain ⟨h, -⟩ := h
    refine ⟨fun sl => Or.inl ⟨by rw [← h]; rfl, by rw [← h]; rfl⟩, ?_⟩
    intro sl v hc
    rw [hp] at hc
    obtain ⟨b', hwk, hv, k, hk1, hk2, hcase⟩ := hc
    have hb : b' = b ∧ j ≤ k := by
      rcases hcase with ⟨j', e, _⟩ | e | ⟨j', e, hj⟩ | ⟨j', cur, e, _⟩ | ⟨cur, e, _⟩ | ⟨j', e, _⟩ <;> cases e
      exact ⟨rfl, hj⟩
    obtain ⟨rfl, hjk⟩ := hb
    -- later slots keep their obligation whatever happens at slot j
    have later : j < k → (nextWake b' j).cond c sl v := by
      intro hlt
      have : j + 1 < b'.g.n := by omega
      simp only [nextWake, this, if_true]
      exact ⟨b', hwk, hv, k, hk1, hk2, Or.inr (Or.inr (Or.inl ⟨j + 1, rfl, by omega⟩))⟩
    rw [← h, setPc_self]
    by_cases hjk' : j < k
    · left
      split
      · exact later hjk'
      · split
        · exact later hjk'
        · exact ⟨b', hwk, hv, k, hk1, hk2, Or.inr (Or.inr (Or.inr (Or.inl ⟨j, _, rfl, hjk'⟩)))⟩
    · have hk : k = j := by omega
      subst hk
      split
      · rename_i hle; right; right; left; rw [hk1]; exact word_nobit s _ hle
      · rename_i hgt
        split
        · rename_i hne; right; right; right
          rw [hk1, ← v16_word, ← hv]; exact hne
        · rename_i heq
          left
          refine ⟨b', hwk, hv, k, hk1, hk2, Or.inr (Or.inr (Or.inr (Or.inr (Or.inl ⟨_, rfl, ?_⟩))))⟩
          have hgt' : waiterThreshold < s.word (b'.g.slot c k) := by omega
          rw [word_bit s _ hgt', ← v16_word, ← hv]
          have : v16 (s.word (b'.g.slot c k)) = v16 (b'.g.E c + versionBump) := by
            apply Classical.byContradiction; intro hcon; exact heq hcon
          rw [this]
  · -- CAS-clear
    rw [hp] at hwf
    have hw : b.wf c ∧ j < b.g.n := hwf
    simp only [stepThread, hp] at h
    have later : ∀ sl v k, (Pc.wCas b j cur).cond c sl v → sl = b.g.slot c k → j < k → k < b.g.n →
        (nextWake b j).cond c sl v ∧ (Pc.wWake b j).cond c sl v := by
      intro sl v k hc hk1 hjk hk2
      obtain ⟨b', hwk, hv, k', hk1', hk2', hcase⟩ := hc
      have hb : b' = b := by
        rcases hcase with ⟨j', e, _⟩ | e | ⟨j', e, _⟩ | ⟨j', cur', e, _⟩ | ⟨cur', e, _⟩ | ⟨j', e, _⟩ <;> cases e <;> rfl
      subst hb
      have : j + 1 < b'.g.n := by omega
      refine ⟨?_, ?_⟩
      · simp only [nextWake, this, if_true]
        exact ⟨b', hwk, hv, k, hk1, hk2, Or.inr (Or.inr (Or.inl ⟨j + 1, rfl, by omega⟩))⟩
      · exact ⟨b', hwk, hv, k, hk1, hk2, Or.inr (Or.inr (Or.inr (Or.inr (Or.inr ⟨j, rfl, hjk⟩))))⟩
    -- which slot index does a conditional obligation of this pc talk about
    have which : ∀ sl v, (Pc.wCas b j cur).cond c sl v →
        (∃ k, sl = b.g.slot c k ∧ j < k ∧ k < b.g.n) ∨ (sl = b.g.slot c j ∧ cur = v16 v + waiterInc) := by
      intro sl v hc
      obtain ⟨b', hwk, hv, k', hk1', hk2', hcase⟩ := hc
      rcases hcase with ⟨j', e, _⟩ | e | ⟨j', e, _⟩ | ⟨j', cur', e, hj⟩ | ⟨cur', e, hcur⟩ | ⟨j', e, _⟩ <;> cases e
      · exact Or.inl ⟨k', hk1', hj, hk2'⟩
      · exact Or.inr ⟨hk1', hcur⟩
    split at h
    · rename_i heq
      simp only [Option.some.injEq, Prod.mk.injEq] at h
      have hpc' : s'.pc u = .wWake b j := by rw [← h.1]; exact setPc_self _ _ _
      constructor
      · intro sl
        by_cases hsl : sl = b.g.slot c j
        · right; right; left; rw [← h.1]; subst hsl; exact ⟨rfl, by simp [State.setPc, upd]⟩
        · left; rw [← h.1]; exact ⟨rfl, by simp [State.setPc, upd, hsl]⟩
      · intro sl v hc
        rw [hp] at hc
        rcases which sl v hc with ⟨k, hk1, hjk, hk2⟩ | ⟨hk1, _⟩
        · left; rw [hpc']; exact (later sl v k hc hk1 hjk hk2).2
        · right; left; rw [hpc']; exact Or.inr ⟨b, j, rfl, hk1.symm⟩
    · rename_i hne
      simp only [Option.some.injEq, Prod.mk.injEq] at h
      have hpc' : s'.pc u = nextWake b j := by rw [← h.1]; exact setPc_self _ _ _
      refine ⟨fun sl => Or.inl ⟨by rw [← h.1]; rfl, by rw [← h.1]; rfl⟩, ?_⟩
      intro sl v hc
      rw [hp] at hc
      rcases which sl v hc with ⟨k, hk1, hjk, hk2⟩ | ⟨hk1, hcur⟩
      · left; rw [hpc']; exact (later sl v k hc hk1 hjk hk2).1
      · -- the word is not `cur` any more: waiter bit gone, or another version
        by_cases hb : s.wbit sl = true
        · right; right; right
          intro hv16
          apply hne
          rw [← hk1, hcur]
          unfold State.word; rw [hb, hv16]; rfl
        · right; right; left
          cases hb' : s.wbit sl with
          | false => rfl
          | true => exact absurd hb' hb
  · -- wake_all of the batch waker
    rw [hp] at hwf
    have hw : b.wf c ∧ j < b.g.n := hwf
    simp only [stepThread, hp, Option.some.injEq, Prod.mk.injEq] at h
    refine ⟨fun sl => Or.inl ⟨by rw [← h.1], by rw [← h.1]⟩, ?_⟩
    intro sl v hc
    rw [hp] at hc
    obtain ⟨b', hwk, hv, k, hk1, hk2, hcase⟩ := hc
    have hb : b' = b ∧ j < k := by
      rcases hcase with ⟨j', e, _⟩ | e | ⟨j', e, _⟩ | ⟨j', cur', e, _⟩ | ⟨cur', e, _⟩ | ⟨j', e, hj⟩ <;> cases e
      exact ⟨rfl, hj⟩
    obtain ⟨rfl, hjk⟩ := hb
    left; rw [← h.1]; simp only [upd_self]
    have : j + 1 < b'.g.n := by omega
    simp only [nextWake, this, if_true]
    exact ⟨b', hwk, hv, k, hk1, hk2, Or.inr (Or.inr (Or.inl ⟨j + 1, rfl, by omega⟩))⟩
  · -- waiter registers
    have hnc : ∀ sl v, ¬ (s.pc u).cond c sl v := by rw [hp]; exact not_cond_of_ne c _ (by simp) (by simp) (by simp) (by simp) (by simp)
    refine ⟨?_, fun sl v hc => absurd hc (hnc sl v)⟩
    intro sl
    simp only [stepThread, hp] at h
    split at h
    · simp only [Option.some.injEq, Prod.mk.injEq] at h
      by_cases hsl : sl = x.slot c
      · right; left; rw [← h.1]; subst hsl; exact ⟨rfl, by simp [State.setPc, upd]⟩
      · left; rw [← h.1]; exact ⟨rfl, by simp [State.setPc, upd, hsl]⟩
    · simp only [Option.some.injEq, Prod.mk.injEq] at h
      left; rw [← h.1]; exact ⟨rfl, rfl⟩


theorem step_w2 (c : Cfg) (s s' : State) (u : Nat) (inp : Inp) (l : Act)
    (h : stepThread c s u inp = some (s', l)) (hwf : (s.pc u).wf c) : W2 c s u s' := by
  by_cases hsp : (∃ sd i wk r, s.pc u = .sSet sd i wk r) ∨ (∃ b j, s.pc u = .bSt b j) ∨ (∃ b, s.pc u = .fSc b) ∨
     (∃ b j, s.pc u = .wLd b j) ∨ (∃ b j cur, s.pc u = .wCas b j cur) ∨ (∃ b j, s.pc u = .wWake b j) ∨
     (∃ x cur, s.pc u = .wait x (.cas cur))
  · exact w2_special c s s' u inp l h hwf hsp
  · refine w2_rest c s s' u inp l h ?_ ?_ ?_ ?_ ?_ ?_ ?_
    · intro sd i wk r e; exact hsp (Or.inl ⟨sd, i, wk, r, e⟩)
    · intro b j e; exact hsp (Or.inr (Or.inl ⟨b, j, e⟩))
    · intro b e; exact hsp (Or.inr (Or.inr (Or.inl ⟨b, e⟩)))
    · intro b j e; exact hsp (Or.inr (Or.inr (Or.inr (Or.inl ⟨b, j, e⟩))))
    · intro b j cur e; exact hsp (Or.inr (Or.inr (Or.inr (Or.inr (Or.inl ⟨b, j, cur, e⟩)))))
    · intro b j e; exact hsp (Or.inr (Or.inr (Or.inr (Or.inr (Or.inr (Or.inl ⟨b, j, e⟩))))))
    · intro x cur e; exact hsp (Or.inr (Or.inr (Or.inr (Or.inr (Or.inr (Or.inr ⟨x, cur, e⟩))))))

/-- a thread is asleep after its own step only if it just called futex_wait on an unchanged word -/
theorem asleep_origin (c : Cfg) (s s' : State) (u : Nat) (inp : Inp) (l : Act)
    (h : stepThread c s u inp = some (s', l)) (x : WCtx) (cur : Nat) (ha : s'.pc u = .wait x (.asleep cur)) :
    s.pc u = .wait x (.fwait cur) ∧ s.word (x.slot c) = cur ∧ s'.ver = s.ver ∧ s'.wbit = s.wbit := by
  have hv : (s'.pc u).waitVal = some cur := by rw [ha]; rfl
  cases hp : s.pc u
  case idle => simp [stepThread, hp] at h
  case retd r => simp [stepThread, hp] at h
  case wait x0 w =>
    have notAsleep : ∀ (s1 : State) (p' : Pc), s' = s1.setPc u p' → (∀ x1 c1, p' ≠ .wait x1 (.asleep c1)) → False := by
      intro s1 p' e hne; rw [e, setPc_self] at ha; exact hne x cur ha
    have nh : ∀ x1 c1 x2 c2, blockHead x2 c2 ≠ .wait x1 (.asleep c1) := by
      intro x1 c1 x2 c2; unfold blockHead; split <;> simp
    have na : ∀ x1 c1 x2, afterWait c x2 ≠ .wait x1 (.asleep c1) := by
      intro x1 c1 x2 e
      have := wv_afterWait c x2; rw [e] at this; cases this
    cases w <;> simp only [stepThread, hp] at h
    case fwait cur0 =>
      split at h
      · rename_i hw
        simp only [Option.some.injEq, Prod.mk.injEq] at h
        rw [← h.1, setPc_self] at ha
        simp only [Pc.wait.injEq, WS.asleep.injEq] at ha
        obtain ⟨rfl, rfl⟩ := ha
        exact ⟨rfl, hw, by rw [← h.1]; rfl, by rw [← h.1]; rfl⟩
      · simp only [Option.some.injEq, Prod.mk.injEq] at h
        exact (notAsleep s _ h.1.symm (by simp)).elim
    all_goals
      exfalso
      (repeat' split at h) <;> first
        | (cases h; done)
        | (simp only [Option.some.injEq, Prod.mk.injEq] at h
           first
             | exact notAsleep _ _ h.1.symm (fun x1 c1 => na x1 c1 _)
             | exact notAsleep _ _ h.1.symm (fun x1 c1 => nh x1 c1 _ _)
             | exact notAsleep _ _ h.1.symm (fun x1 c1 e => by cases e))
  all_goals
    exfalso
    have hcalm : (s'.pc u).waitVal = none := by
      simp only [stepThread, hp] at h
      (repeat' split at h) <;> first
        | (cases h; done)
        | (simp only [Option.some.injEq, Prod.mk.injEq] at h
           rw [← h.1]
           first
             | (rw [setPc_self]; (repeat' split) <;> first | rfl | simp)
             | (simp only [upd_self]; (repeat' split) <;> first | rfl | simp))
    rw [hcalm] at hv; cases hv

end Babylon.BQ
