/-
  The pairing invariant: flags carried by program counters agree with the configuration's
  `pushWakes` / `popWakes` (documented pairing rules of USE_FUTEX_WAIT / USE_FUTEX_WAKE).
-/
import Babylon.BQ.Flags

namespace Babylon.BQ
open Babylon.Core Babylon.Gen.BQ

def FlagInv (c : Cfg) (y : Sys) : Prop :=
  ∀ t sd, ((y.s.pc t).mf sd → c.wakes sd.other = true) ∧ ((y.s.pc t).nw sd → c.wakes sd = false)

theorem entry_mf (k : Call) (sd : Side) (h : k.entry.mf sd) : k.futexWaits sd = true := by
  cases k with
  | push conc wt wk => cases conc <;> (obtain ⟨h1, rfl⟩ := h; subst h1; rfl)
  | pop conc wt wk => cases conc <;> (obtain ⟨h1, rfl⟩ := h; subst h1; rfl)
  | pushN conc wt wk n => cases conc <;> (obtain ⟨h1, rfl⟩ := h; subst h1; rfl)
  | popN conc wt wk n => cases conc <;> (obtain ⟨h1, rfl⟩ := h; subst h1; rfl)
  | timedPopN wk n tmo => have : sd = .pop := h; subst this; rfl
  | tryPush conc wk => cases h
  | tryPop conc wk => cases h
  | tryPushN conc wk n => cases h
  | tryPopN conc wk n => cases h
  | cpushN n => cases h
  | cpopN n => cases h
  | size => cases h

theorem entry_nw (k : Call) (sd : Side) (h : k.entry.nw sd) : k.touches sd = true ∧ k.wakesOn sd = false := by
  cases k with
  | push conc wt wk => cases conc <;> (obtain ⟨h1, rfl⟩ := h; subst h1; exact ⟨rfl, rfl⟩)
  | pop conc wt wk => cases conc <;> (obtain ⟨h1, rfl⟩ := h; subst h1; exact ⟨rfl, rfl⟩)
  | pushN conc wt wk n => cases conc <;> (obtain ⟨h1, rfl⟩ := h; subst h1; exact ⟨rfl, rfl⟩)
  | popN conc wt wk n => cases conc <;> (obtain ⟨h1, rfl⟩ := h; subst h1; exact ⟨rfl, rfl⟩)
  | timedPopN wk n tmo => obtain ⟨h1, rfl⟩ := h; subst h1; exact ⟨rfl, rfl⟩
  | tryPush conc wk => obtain ⟨h1, rfl⟩ := h; subst h1; exact ⟨rfl, rfl⟩
  | tryPop conc wk => obtain ⟨h1, rfl⟩ := h; subst h1; exact ⟨rfl, rfl⟩
  | tryPushN conc wk n =>
    rcases h with ⟨h1, rfl⟩ | h
    · simp only at h1; subst h1; exact ⟨rfl, rfl⟩
    · simp [TryCtx.backNw] at h
  | tryPopN conc wk n =>
    rcases h with ⟨h1, rfl⟩ | h
    · simp only at h1; subst h1; exact ⟨rfl, rfl⟩
    · simp [TryCtx.backNw] at h
  | cpushN n => cases sd <;> exact ⟨rfl, rfl⟩
  | cpopN n => cases sd <;> exact ⟨rfl, rfl⟩
  | size => cases h

theorem paired_flags (c : Cfg) (k : Call) (hp : k.paired c = true) (sd : Side) :
    (k.futexWaits sd = true → c.wakes sd.other = true) ∧ (k.touches sd = true → k.wakesOn sd = false → c.wakes sd = false) := by
  simp only [Call.paired, List.all_cons, List.all_nil, Bool.and_true, Bool.and_eq_true, Bool.or_eq_true,
    Bool.not_eq_true', decide_eq_true_eq] at hp
  obtain ⟨⟨⟨a1, a2⟩, ⟨b1, b2⟩⟩, _⟩ := hp
  cases sd
  · refine ⟨fun h => ?_, fun h1 h2 => ?_⟩
    · rcases a1 with a1 | a1
      · rw [h] at a1; cases a1
      · exact a1
    · rcases a2 with a2 | a2
      · cases hc : c.wakes .push with
        | false => rfl
        | true => rw [h1, hc] at a2; simp at a2
      · rw [h2] at a2; cases a2
  · refine ⟨fun h => ?_, fun h1 h2 => ?_⟩
    · rcases b1 with b1 | b1
      · rw [h] at b1; cases b1
      · exact b1
    · rcases b2 with b2 | b2
      · cases hc : c.wakes .pop with
        | false => rfl
        | true => rw [h1, hc] at b2; simp at b2
      · rw [h2] at b2; cases b2

theorem flaginv_step {c : Cfg} {y y' : Sys} (hI : Inv c y) (hS : SInv c y.s) (hF : FlagInv c y) (h : Step c y y') :
    FlagInv c y' := by
  cases h with
  | act u inp s' l hs =>
    intro t sd
    by_cases htu : t = u
    · subst htu
      obtain ⟨f1, f2⟩ := step_flags c y.s s' t inp l hs (hI.wf t) sd
      exact ⟨fun h => (hF t sd).1 (f1 h), fun h => (hF t sd).2 (f2 h)⟩
    · have hw := step_wsum c y.s s' u inp l hs (hS.s0 u)
      rcases hw.others t htu with h1 | ⟨x, cur, h1, h2, _⟩
      · show ((s'.pc t).mf sd → _) ∧ ((s'.pc t).nw sd → _); rw [h1]; exact hF t sd
      · show ((s'.pc t).mf sd → _) ∧ ((s'.pc t).nw sd → _); rw [h2]
        have := hF t sd; rw [h1] at this; exact this
  | call u k hidle hpair _ =>
    intro t sd
    by_cases htu : t = u
    · subst htu
      simp only [setPc_self]
      obtain ⟨p1, p2⟩ := paired_flags c k hpair sd
      exact ⟨fun h => p1 (entry_mf k sd h), fun h => p2 (entry_nw k sd h).1 (entry_nw k sd h).2⟩
    · simp only [setPc_other _ _ _ t htu]; exact hF t sd
  | ret u res hret =>
    intro t sd
    by_cases htu : t = u
    · subst htu; simp only [setPc_self]; exact ⟨fun h => (by cases h), fun h => (by cases h)⟩
    · simp only [setPc_other _ _ _ t htu]; exact hF t sd
  | spuriousWake u x cur hp =>
    intro t sd
    by_cases htu : t = u
    · subst htu; simp only [setPc_self]
      have := hF t sd; rw [hp] at this; exact this
    · simp only [setPc_other _ _ _ t htu]; exact hF t sd

theorem flaginv_reach {c : Cfg} {y : Sys} (h : ReachF c y) : FlagInv c y := by
  induction h with
  | base h => subst h; intro t sd; exact ⟨fun h => (by cases h), fun h => (by cases h)⟩
  | tail hr hs ih => exact flaginv_step (inv_reach hr) (sinv_reach hr) ih hs.1

end Babylon.BQ
