/-
  `step_summary`, part 3: try_push_n / try_pop_n, the compensating polling loop, the batch critical
  section and release, and the final assembly.
-/
import Babylon.BQ.StepCases2

namespace Babylon.BQ
open Babylon.Core Babylon.Gen.BQ

/-- quiet step into the continuation `k` from a pc that carries (at least) `k`'s attributes -/
theorem quiet_runK (c : Cfg) (s s' : State) (t : Nat) (k : K) (sd : Side) (e : Nat) (f : Nat → Pc)
    (pre : Pre c s (s.pc t)) (hne : s.pc t ≠ .idle)
    (hheld : (s.pc t).held = k.held) (hcb : (s.pc t).cbDone = fun _ _ => False)
    (hneeds : ∀ sd, k.needs sd ≤ (s.pc t).needs sd)
    (hlb : ∀ sl, k.lb c sl ≤ (s.pc t).lb c sl)
    (hexp : ∀ sd i, k.expects sd = some i → (s.pc t).expects sd = some i) (hk : k.wf c sd e)
    (hcore : Core s s') (hpcs : s'.pc = upd f t (runK k)) (hf : ∀ u, AttrEq c (f u) (s.pc u)) : Summary c s t s' := by
  refine Summary.ofQuiet (runK k) f hcore hpcs hf ?_ ?_ ?_ (runK_wf c sd e k hk) ?_ ?_ ⟨hne, runK_ne_idle k⟩
  · intro sd' i; rw [runK_held c sd e k hk, hheld]
  · intro sd' i; rw [runK_cbDone, hcb]
  · intro sd'; rw [runK_needs c sd e k hk]; exact hneeds sd'
  · intro sl; rw [runK_lb c sd e k hk]; exact Nat.le_trans (hlb sl) (pre.lb sl)
  · intro sd' i h; rw [runK_expects c sd e k hk] at h; exact pre.exp sd' i (hexp sd' i h)

theorem sum_nIdx (c : Cfg) (s s' : State) (t : Nat) (inp : Inp) (l : Act) (sd : Side) (x : TryCtx) (num : Nat)
    (hp : s.pc t = .nIdx sd x num)
    (h : stepThread c s t inp = some (s', l)) (pre : Pre c s (s.pc t)) : Summary c s t s' := by
  rw [hp] at pre
  have hw : x.wf c sd ∧ 1 ≤ num ∧ num ≤ c.cap ∧ x.g2 = none := pre.wf
  obtain ⟨hg1, hn1, hsd, hidx, hg2, hl, hsum⟩ := splitSegs_spec c sd (s.idx sd) num hw.2.1 hw.2.2.1
  have hne : (splitSegs c sd (s.idx sd) num).1.n ≠ 0 := by omega
  simp only [stepThread, hp, hne, if_false, Option.some.injEq, Prod.mk.injEq] at h
  refine quiet_plain c s s' t _ h.1.symm (by rw [hp]; simp) (by simp) ?_ ?_ ?_ ?_ ?_ ?_
  · intro sd' i; rw [hp]; rfl
  · intro sd' i; rw [hp]; rfl
  · intro sd'; rw [hp]; simp only [Pc.needs, hsd]; exact Nat.le_refl _
  · simp only [Pc.wf]; refine ⟨by rw [hsd]; exact hw.1, hg1, hg2, by rw [hsd, hidx]; exact hl, hn1⟩
  · intro sl; have := pre.lb sl
    have e : TryCtx.lb c { x with g2 := (splitSegs c sd (s.idx sd) num).2 } = TryCtx.lb c x := rfl
    simp only [Pc.lb, segLb_self, e] at this ⊢; omega
  · intro sd' i h1; simp only [Pc.expects] at h1; split at h1
    · rename_i e; cases h1; rw [e.2, hsd, hidx]
    · cases h1

theorem sum_nVer (c : Cfg) (s s' : State) (t : Nat) (inp : Inp) (l : Act) (x : TryCtx) (g : Seg) (j : Nat)
    (hp : s.pc t = .nVer x g j)
    (h : stepThread c s t inp = some (s', l)) (pre : Pre c s (s.pc t)) (hf : Faithful c s t) : Summary c s t s' := by
  rw [hp] at pre
  have hw : x.wf c g.sd ∧ g.wf c ∧ optSegWf c x.g2 ∧ linked g.sd (g.idx + g.n) x.g2 ∧ j < g.n := pre.wf
  have hfa := hf (g.slot c j) (g.E c) (by rw [hp]; rfl)
  simp only [stepThread, hp, Option.some.injEq, Prod.mk.injEq, v16_word] at h
  obtain ⟨h, -⟩ := h
  have hlb0 : ∀ sl, max (segLb c g 0 j sl) (x.lb c sl) ≤ s.ver sl := pre.lb
  have hexp0 : ∀ sd i, (Pc.nVer x g j).expects sd = some i → s.idx sd = i := pre.exp
  -- successor `tryDecide x g n` with `n ≤ g.n` whose observed prefix is justified
  have dec : ∀ n, n ≤ g.n → (∀ sl, segLb c g 0 n sl ≤ s.ver sl) → s' = s.setPc t (tryDecide x g n) → Summary c s t s' := by
    intro n hn hseg hs'
    refine quiet_plain c s s' t _ hs' (by rw [hp]; simp) (tryDecide_ne_idle _ _ _) ?_ ?_ ?_ ?_ ?_ ?_
    · intro sd' i; rw [hp, tryDecide_held c x g n hw.1]; rfl
    · intro sd' i; rw [hp, tryDecide_cbDone]; rfl
    · intro sd'; rw [hp]; exact tryDecide_needs c x g n hw.1 sd'
    · exact tryDecide_wf c x g n hw.1 hw.2.1 hw.2.2.1 hw.2.2.2.1 hn
    · intro sl; have h1 := tryDecide_lb c x g n hw.1 sl; have h2 := hlb0 sl; have h3 := hseg sl; omega
    · intro sd' i h1
      obtain ⟨e1, e2, e3⟩ := tryDecide_expects c x g n hw.1 sd' i h1
      apply hexp0; simp only [Pc.expects, e1, e2, e3, and_self, if_true]
  split at h
  · rename_i e
    have hv := hfa.1 e
    have hsucc : ∀ sl, segLb c g 0 (j + 1) sl ≤ s.ver sl := by
      intro sl
      have hs := segLb_succ c g j sl
      have := hlb0 sl
      by_cases e2 : sl = g.slot c j
      · rw [e2, hv]; exact segLb_le _ _ _ _ _
      · rw [if_neg e2] at hs; omega
    split at h
    · refine quiet_plain c s s' t _ h.symm (by rw [hp]; simp) (by simp) ?_ ?_ ?_ ?_ ?_ ?_
      · intro sd' i; rw [hp]; rfl
      · intro sd' i; rw [hp]; rfl
      · intro sd'; rw [hp]; exact Nat.le_refl _
      · simp only [Pc.wf]; exact ⟨hw.1, hw.2.1, hw.2.2.1, hw.2.2.2.1, by assumption⟩
      · intro sl; have := hlb0 sl; have := hsucc sl; simp only [Pc.lb]; omega
      · intro sd' i h1; exact hexp0 sd' i h1
    · have : g.n = j + 1 := by omega
      exact dec g.n (Nat.le_refl _) (by rw [this]; exact hsucc) h.symm
  · exact dec j (by omega) (fun sl => by have := hlb0 sl; omega) h.symm

theorem sum_nCas (c : Cfg) (s s' : State) (t : Nat) (inp : Inp) (l : Act) (x : TryCtx) (g : Seg) (n : Nat)
    (hp : s.pc t = .nCas x g n)
    (h : stepThread c s t inp = some (s', l)) (pre : Pre c s (s.pc t)) : Summary c s t s' := by
  rw [hp] at pre
  have hw : x.wf c g.sd ∧ g.wf c ∧ optSegWf c x.g2 ∧ linked g.sd (g.idx + g.n) x.g2 ∧ 0 < n ∧ n ≤ g.n := pre.wf
  have hlb0 : ∀ sl, max (segLb c g 0 n sl) (x.lb c sl) ≤ s.ver sl := pre.lb
  have acq : s.idx g.sd = g.idx →
      s' = (s.setIdx g.sd (g.idx + n)).setPc t (.fAcq { g := { g with n := n }, wake := x.wake, k := tryK x g n }) →
      Summary c s t s' := by
    intro hi hs'
    have hs'' : s' = (s.setIdx g.sd (s.idx g.sd + n)).setPc t
        (.fAcq { g := { g with n := n }, wake := x.wake, k := tryK x g n }) := by rw [hi]; exact hs'
    refine Summary.ofAcquire g.sd n _ hs'' ?_ ?_ ?_ ?_ ?_ ?_ ?_ ?_
    · rw [hp]; simp only [Pc.needs, sideIf, if_true, lvlConc]; split <;> omega
    · intro sd' i; rw [hp]; simp only [Pc.held, BCtx.held, tryK_held, segTk, hi]
      constructor
      · rintro (⟨h1, h2, h3⟩ | h1)
        · right; exact ⟨h1, by omega, h3⟩
        · left; exact h1
      · rintro (h1 | ⟨h1, h2, h3⟩)
        · right; exact h1
        · left; exact ⟨h1, by omega, h3⟩
    · intro sd' i; rw [hp]; rfl
    · intro sd'; rw [hp]; exact tryK_needs_le x g n hw.2.2.2.1 sd'
    · simp only [Pc.wf, BCtx.wf]
      refine ⟨⟨?_, tryK_wf c x g n hw.1 hw.2.2.1 hw.2.2.2.1 hw.2.2.2.2.2⟩, hw.2.2.2.2.1⟩
      have := hw.2.1; simp only [Seg.wf] at this ⊢; omega
    · intro sl; have := hlb0 sl
      simp only [Pc.lb, BCtx.lb, tryK_lb, segLb_n]; exact this
    · intro sd' i h1
      obtain ⟨e1, e2, e3⟩ := tryK_expects x g n hw.2.2.2.1 hw.2.2.2.2.2 sd' i h1
      rw [e2, e3, hi]; exact idx_setIdx _ _ _
    · rw [hp]; simp
  simp only [stepThread, hp] at h
  cases hc : x.conc with
  | true =>
    simp only [hc, if_true] at h
    split at h
    · rename_i e
      simp only [Option.some.injEq, Prod.mk.injEq] at h
      exact acq e h.1.symm
    · simp only [Option.some.injEq, Prod.mk.injEq] at h
      refine quiet_runK c s s' t (finishTry x x.acc) g.sd 0 s.pc (by rw [hp]; exact pre) (by rw [hp]; simp) ?_ ?_ ?_ ?_ ?_
        (finishTry_wf c x _ _ _ hw.1) (by rw [← h.1]; exact ⟨rfl, rfl, rfl, rfl, rfl, rfl⟩) (by rw [← h.1]; rfl)
        (fun u => AttrEq.rfl' c _)
      · rw [hp, finishTry_held]; rfl
      · rw [hp]; rfl
      · intro sd'; rw [hp, finishTry_needs]; simp only [Pc.needs]; omega
      · intro sl; rw [hp, finishTry_lb]; simp only [Pc.lb]; omega
      · intro sd' i h1; rw [finishTry_expects] at h1; cases h1
  | false =>
    simp only [hc, Bool.false_eq_true, if_false, Option.some.injEq, Prod.mk.injEq] at h
    exact acq (pre.exp g.sd g.idx (by simp [Pc.expects, hc])) h.1.symm

theorem sum_cVer (c : Cfg) (s s' : State) (t : Nat) (inp : Inp) (l : Act) (cc : CompCtx)
    (hp : s.pc t = .cVer cc)
    (h : stepThread c s t inp = some (s', l)) (pre : Pre c s (s.pc t)) (hf : Faithful c s t) : Summary c s t s' := by
  rw [hp] at pre
  have hw : cc.g.wf c ∧ optSegWf c cc.rest ∧ cc.j < cc.g.n ∧ linked cc.g.sd (cc.g.idx + cc.g.n) cc.rest := pre.wf
  have hfa := hf (cc.g.slot c cc.j) (cc.g.E c) (by rw [hp]; rfl)
  have hlb0 : ∀ sl, segLb c cc.g 0 cc.j sl ≤ s.ver sl := pre.lb
  simp only [stepThread, hp, Option.some.injEq, Prod.mk.injEq, v16_word] at h
  obtain ⟨h, -⟩ := h
  split at h
  · rename_i e
    have hv := hfa.1 e
    have hsucc : ∀ sl, segLb c cc.g 0 (cc.j + 1) sl ≤ s.ver sl := by
      intro sl
      have hs := segLb_succ c cc.g cc.j sl
      have := hlb0 sl
      by_cases e2 : sl = cc.g.slot c cc.j
      · rw [e2, hv]; exact segLb_le _ _ _ _ _
      · rw [if_neg e2] at hs; omega
    split at h
    · refine quiet_plain c s s' t _ h.symm (by rw [hp]; simp) (by simp) ?_ ?_ ?_ ?_ ?_ ?_
      · intro sd' i; rw [hp]; rfl
      · intro sd' i; rw [hp]; rfl
      · intro sd'; rw [hp]; exact Nat.le_refl _
      · simp only [Pc.wf, CompCtx.wf]; exact ⟨hw.1, hw.2.1, by assumption, hw.2.2.2⟩
      · exact hsucc
      · intro sd' i h1; cases h1
    · have hn : cc.g.n = cc.j + 1 := by omega
      refine quiet_plain c s s' t _ h.symm (by rw [hp]; simp) (by simp) ?_ ?_ ?_ ?_ ?_ ?_
      · intro sd' i; rw [hp]; simp only [Pc.held, BCtx.held, CompCtx.held]
        cases hr : cc.rest <;> simp [K.held, optSegTk]
      · intro sd' i; rw [hp]; rfl
      · intro sd'; rw [hp]; simp only [Pc.needs, CompCtx.needs]
        cases hr : cc.rest with
        | none => exact Nat.zero_le _
        | some g2 => simp only [hr, linked] at hw; simp only [K.needs, hw.2.2.2.1]; exact Nat.le_refl _
      · simp only [Pc.wf, BCtx.wf]
        refine ⟨⟨hw.1, ?_⟩, by omega⟩
        cases hr : cc.rest with
        | none => trivial
        | some g2 => simp only [hr, linked, optSegWf] at hw; simp only [K.wf]; exact ⟨hw.2.1.1, hw.2.1.2, hw.2.2.2.1, hw.2.2.2.2⟩
      · intro sl; have := hsucc sl; simp only [Pc.lb, BCtx.lb, hn]
        cases hr : cc.rest <;> simp only [K.lb] <;> omega
      · intro sd' i h1; simp only [Pc.expects] at h1
        cases hr : cc.rest <;> simp [hr, K.expects] at h1
  · refine quiet_plain c s s' t _ h.symm (by rw [hp]; simp) (by simp) ?_ ?_ ?_ ?_ ?_ ?_
    · intro sd' i; rw [hp]; rfl
    · intro sd' i; rw [hp]; rfl
    · intro sd'; rw [hp]; exact Nat.le_refl _
    · exact pre.wf
    · exact pre.lb
    · intro sd' i h1; cases h1

theorem other_other (sd : Side) : sd.other.other = sd := by cases sd <;> rfl
theorem other_ne (sd : Side) : sd.other ≠ sd := by cases sd <;> simp [Side.other]

theorem sum_cNeed (c : Cfg) (s s' : State) (t : Nat) (inp : Inp) (l : Act) (cc : CompCtx)
    (hp : s.pc t = .cNeed cc)
    (h : stepThread c s t inp = some (s', l)) (pre : Pre c s (s.pc t)) : Summary c s t s' := by
  rw [hp] at pre
  have hw : cc.wf c := pre.wf
  have key : ∀ p', (p' = .nIdx cc.g.sd.other { conc := true, wake := false, acc := 0, g2 := none, back := some cc } 1 ∨
      p' = .cVer cc) → s' = s.setPc t p' → Summary c s t s' := by
    intro p' hp' hs'
    rcases hp' with rfl | rfl
    · refine quiet_plain c s s' t _ hs' (by rw [hp]; simp) (by simp) ?_ ?_ ?_ ?_ ?_ ?_
      · intro sd' i; rw [hp]; rfl
      · intro sd' i; rw [hp]; rfl
      · intro sd'; rw [hp]; simp only [Pc.needs, TryCtx.backNeeds, CompCtx.needs, lvlConc, if_true]; omega
      · simp only [Pc.wf, TryCtx.wf, other_other]
        exact ⟨⟨hw, trivial, trivial⟩, by omega, cap_pos c, trivial⟩
      · exact pre.lb
      · intro sd' i h1; simp [Pc.expects] at h1
    · refine quiet_plain c s s' t _ hs' (by rw [hp]; simp) (by simp) ?_ ?_ ?_ ?_ ?_ ?_
      · intro sd' i; rw [hp]; rfl
      · intro sd' i; rw [hp]; rfl
      · intro sd'; rw [hp]; exact Nat.le_refl _
      · exact pre.wf
      · exact pre.lb
      · intro sd' i h1; cases h1
  simp only [stepThread, hp, Option.some.injEq, Prod.mk.injEq] at h
  obtain ⟨h, -⟩ := h
  split at h <;> split at h
  all_goals first
    | exact key _ (Or.inl rfl) h.symm
    | exact key _ (Or.inr rfl) h.symm

/-- the quiet steps inside a batch critical section: fAcq → bCbB → bCbE, fRel → bSt 0 -/
theorem sum_bQuiet (c : Cfg) (s s' : State) (t : Nat) (inp : Inp) (l : Act) (b : BCtx)
    (hp : s.pc t = .fAcq b ∨ s.pc t = .bCbB b ∨ s.pc t = .fRel b)
    (h : stepThread c s t inp = some (s', l)) (pre : Pre c s (s.pc t)) : Summary c s t s' := by
  rcases hp with hp | hp | hp
  · rw [hp] at pre
    simp only [stepThread, hp, Option.some.injEq, Prod.mk.injEq] at h
    refine quiet_plain c s s' t _ h.1.symm (by rw [hp]; simp) (by simp) ?_ ?_ ?_ ?_ ?_ ?_
    · intro sd' i; rw [hp]; rfl
    · intro sd' i; rw [hp]; rfl
    · intro sd'; rw [hp]; exact Nat.le_refl _
    · exact pre.wf
    · exact pre.lb
    · exact pre.exp
  · rw [hp] at pre
    simp only [stepThread, hp, Option.some.injEq, Prod.mk.injEq] at h
    refine quiet_plain c s s' t _ h.1.symm (by rw [hp]; simp) (by simp) ?_ ?_ ?_ ?_ ?_ ?_
    · intro sd' i; rw [hp]; rfl
    · intro sd' i; rw [hp]; rfl
    · intro sd'; rw [hp]; exact Nat.le_refl _
    · exact pre.wf
    · exact pre.lb
    · exact pre.exp
  · rw [hp] at pre
    have hw : b.wf c ∧ 0 < b.g.n := pre.wf
    have hne : b.g.n ≠ 0 := by omega
    simp only [stepThread, hp, hne, if_false, Option.some.injEq, Prod.mk.injEq] at h
    refine quiet_plain c s s' t _ h.1.symm (by rw [hp]; simp) (by simp) ?_ ?_ ?_ ?_ ?_ ?_
    · intro sd' i; rw [hp]; rfl
    · intro sd' i; rw [hp]; rfl
    · intro sd'; rw [hp]; exact Nat.le_refl _
    · exact ⟨hw.1, hw.2⟩
    · exact pre.lb
    · exact pre.exp

theorem comp_held_side (c : Cfg) (cc : CompCtx) (hw : cc.wf c) (sd : Side) (i : Nat) (h : cc.held sd i) : sd = cc.g.sd := by
  rcases h with h | h
  · exact h.1
  · cases hr : cc.rest with
    | none => simp [hr, optSegTk] at h
    | some g2 =>
      simp only [hr, optSegTk] at h
      have := hw.2.2.2; simp only [hr, linked] at this
      rw [h.1, this.1]

/-- tickets kept in a continuation lie beyond the current segment (or on the other side) -/
theorem K_held_disj (c : Cfg) (sd : Side) (e : Nat) (k : K) (hk : k.wf c sd e) (sd' : Side) (i : Nat)
    (h : k.held sd' i) (hsd : sd' = sd) : e ≤ i := by
  cases k with
  | ret r => cases h
  | block w k g => simp only [K.wf] at hk; simp only [K.held, segTk] at h; omega
  | comp g => simp only [K.wf] at hk; simp only [K.held, segTk] at h; omega
  | tryNext x g =>
    simp only [K.wf, TryCtx.wf] at hk; simp only [K.held, TryCtx.held] at h
    cases hb : x.back with
    | none => simp [hb] at h
    | some cc =>
      simp only [hb] at hk h
      have := comp_held_side c cc hk.1.1 sd' i h
      rw [hsd, hk.1.2.2] at this; exact absurd this.symm (other_ne sd)
  | back cc =>
    simp only [K.wf] at hk
    have := comp_held_side c cc hk.1 sd' i h
    rw [hsd, hk.2] at this; exact absurd this.symm (other_ne sd)

theorem segLb_in (c : Cfg) (g : Seg) (a b k : Nat) (h1 : a ≤ k) (h2 : k < b) : segLb c g a b (g.slot c k) = g.E c := by
  unfold segLb Seg.slot
  exact if_pos ⟨by omega, by omega⟩
theorem segLb_from_mono (c : Cfg) (g : Seg) (j n sl : Nat) : segLb c g (j + 1) n sl ≤ segLb c g j n sl := by
  unfold segLb Seg.slot
  by_cases h1 : slotOf c g.idx + (j + 1) ≤ sl ∧ sl < slotOf c g.idx + n
  · have h2 : slotOf c g.idx + j ≤ sl ∧ sl < slotOf c g.idx + n := by omega
    rw [if_pos h1, if_pos h2]; exact Nat.le_refl _
  · rw [if_neg h1]; exact Nat.zero_le _

theorem sum_bSt (c : Cfg) (s s' : State) (t : Nat) (inp : Inp) (l : Act) (b : BCtx) (j : Nat)
    (hp : s.pc t = .bSt b j)
    (h : stepThread c s t inp = some (s', l)) (pre : Pre c s (s.pc t)) : Summary c s t s' := by
  rw [hp] at pre
  have hw : (b.g.wf c ∧ b.k.wf c b.g.sd (b.g.idx + b.g.n)) ∧ j < b.g.n := pre.wf
  have hsl := seg_slot c b.g hw.1.1 j hw.2
  have hE := seg_E c b.g hw.1.1 j hw.2
  simp only [stepThread, hp, Option.some.injEq, Prod.mk.injEq, versionBump] at h
  obtain ⟨h, -⟩ := h
  have hdisj := K_held_disj c b.g.sd (b.g.idx + b.g.n) b.k hw.1.2
  -- common part, for a successor `p'` holding `held'`
  have key : ∀ p', s' = ({ s with ver := upd s.ver (b.g.slot c j) (b.g.E c + 1) } : State).setPc t p' →
      (∀ sd' i', p'.held sd' i' ↔ ((Pc.bSt b j).held sd' i' ∧ ¬ (sd' = b.g.sd ∧ i' = b.g.idx + j))) →
      (∀ sd' i', p'.cbDone sd' i' ↔ ((Pc.bSt b j).cbDone sd' i' ∧ ¬ (sd' = b.g.sd ∧ i' = b.g.idx + j))) →
      (∀ sd, p'.needs sd ≤ (Pc.bSt b j).needs sd) → p'.wf c → (∀ sl, p'.lb c sl ≤ s.ver sl) →
      (∀ sd i, p'.expects sd = some i → s.idx sd = i) → p' ≠ .idle → Summary c s t s' := by
    intro p' hs' hh hd hn hwf hlb hexp hid
    refine Summary.ofRelease b.g.sd (b.g.idx + j) p' s.pc ?_ (by rw [hs']; rfl) (by rw [hs']; rfl) (by rw [hs']; rfl)
      (by rw [hs']; rfl) (by rw [hs']; rfl) (by rw [hs']; rfl) (fun u => AttrEq.rfl' c _) ?_ ?_ ?_ ?_ ?_ ?_ hwf hlb hexp ?_
    · rw [hs', ← hsl, hE]; rfl
    · rw [hp]; left; exact ⟨rfl, Nat.le_refl _, by omega⟩
    · rw [hp, ← hsl, hE]; simp only [Pc.lb, BCtx.lb]
      rw [segLb_in c b.g j b.g.n j (Nat.le_refl _) hw.2]; exact Nat.le_max_left _ _
    · rw [hp]; exact ⟨rfl, Nat.le_refl _, by omega⟩
    · rw [hp]; exact hh
    · rw [hp]; exact hd
    · rw [hp]; exact hn
    · rw [hp]; exact ⟨by simp, hid⟩
  have klb : ∀ sl, b.k.lb c sl ≤ s.ver sl := fun sl => by
    have := pre.lb sl; simp only [Pc.lb, BCtx.lb] at this; omega
  split at h
  · -- next store
    refine key _ h.symm ?_ ?_ ?_ ?_ ?_ ?_ (by simp)
    · intro sd' i'; simp only [Pc.held, BCtx.held, segTk]; constructor
      · rintro (⟨h1, h2, h3⟩ | h1)
        · exact ⟨Or.inl ⟨h1, by omega, h3⟩, by intro e; omega⟩
        · refine ⟨Or.inr h1, fun e => ?_⟩
          have := hdisj sd' i' h1 e.1; omega
      · rintro ⟨(⟨h1, h2, h3⟩ | h1), hne⟩
        · left; refine ⟨h1, ?_, h3⟩
          have : i' ≠ b.g.idx + j := fun e => hne ⟨h1, e⟩
          omega
        · right; exact h1
    · intro sd' i'; simp only [Pc.cbDone, segTk]; constructor
      · rintro ⟨h1, h2, h3⟩; exact ⟨⟨h1, by omega, h3⟩, by intro e; omega⟩
      · rintro ⟨⟨h1, h2, h3⟩, hne⟩
        refine ⟨h1, ?_, h3⟩
        have : i' ≠ b.g.idx + j := fun e => hne ⟨h1, e⟩
        omega
    · intro sd'; exact Nat.le_refl _
    · exact ⟨hw.1, by assumption⟩
    · intro sl; have := pre.lb sl; simp only [Pc.lb, BCtx.lb] at this ⊢
      have hk := klb sl
      have := segLb_from_mono c b.g j b.g.n sl
      omega
    · exact pre.exp
  · -- last store
    have hn : b.g.n = j + 1 := by omega
    have hlast : ∀ sd' i', segTk b.g j sd' i' ↔ (sd' = b.g.sd ∧ i' = b.g.idx + j) := by
      intro sd' i'; simp only [segTk]; constructor
      · rintro ⟨h1, h2, h3⟩; exact ⟨h1, by omega⟩
      · rintro ⟨h1, h2⟩; exact ⟨h1, by omega, by omega⟩
    have hheld : ∀ (p' : Pc), p'.held = b.k.held → ∀ sd' i', p'.held sd' i' ↔
        ((Pc.bSt b j).held sd' i' ∧ ¬ (sd' = b.g.sd ∧ i' = b.g.idx + j)) := by
      intro p' e sd' i'; rw [e]; simp only [Pc.held, BCtx.held, hlast]; constructor
      · intro h1; refine ⟨Or.inr h1, fun e => ?_⟩
        have := hdisj sd' i' h1 e.1; omega
      · rintro ⟨(h1 | h1), hne⟩
        · exact absurd h1 hne
        · exact h1
    have hcb : ∀ (p' : Pc), p'.cbDone = (fun _ _ => False) → ∀ sd' i', p'.cbDone sd' i' ↔
        ((Pc.bSt b j).cbDone sd' i' ∧ ¬ (sd' = b.g.sd ∧ i' = b.g.idx + j)) := by
      intro p' e sd' i'; rw [e]; simp only [Pc.cbDone, hlast]; constructor
      · intro h1; cases h1
      · rintro ⟨h1, hne⟩; exact hne h1
    simp only [afterStores] at h
    split at h
    · refine key _ h.symm (hheld _ rfl) (hcb _ rfl) (fun _ => Nat.le_refl _) ⟨hw.1, by omega⟩ klb pre.exp (by simp)
    · have hk := hw.1.2
      refine key _ h.symm (hheld _ (runK_held c _ _ _ hk)) (hcb _ (runK_cbDone _)) ?_ (runK_wf c _ _ _ hk) ?_ ?_ (runK_ne_idle _)
      · intro sd'; rw [runK_needs c _ _ _ hk]; exact Nat.le_refl _
      · intro sl; rw [runK_lb c _ _ _ hk]; exact klb sl
      · intro sd' i' h1; rw [runK_expects c _ _ _ hk] at h1; exact pre.exp sd' i' h1

/-- the wake-up phase of a batch release: fSc, wLd, wCas, wWake -/
theorem sum_bWake (c : Cfg) (s s' : State) (t : Nat) (inp : Inp) (l : Act) (b : BCtx)
    (hp : s.pc t = .fSc b ∨ (∃ j, s.pc t = .wLd b j) ∨ (∃ j cur, s.pc t = .wCas b j cur) ∨ (∃ j, s.pc t = .wWake b j))
    (h : stepThread c s t inp = some (s', l)) (pre : Pre c s (s.pc t)) : Summary c s t s' := by
  -- every successor is `wLd b j'`, `wCas b j' cur`, `wWake b j'` or `runK b.k`
  have hbw : b.wf c := by
    rcases hp with hp | ⟨j, hp⟩ | ⟨j, cur, hp⟩ | ⟨j, hp⟩ <;> (have := pre.wf; rw [hp] at this; exact this.1)
  have hattr : (s.pc t).held = b.k.held ∧ (s.pc t).cbDone = (fun _ _ => False) ∧ (s.pc t).needs = b.k.needs ∧
      (s.pc t).lb c = b.k.lb c ∧ (s.pc t).expects = b.k.expects ∧ s.pc t ≠ .idle := by
    rcases hp with hp | ⟨j, hp⟩ | ⟨j, cur, hp⟩ | ⟨j, hp⟩ <;> rw [hp] <;> exact ⟨rfl, rfl, rfl, rfl, rfl, by simp⟩
  obtain ⟨a1, a2, a3, a4, a5, a6⟩ := hattr
  have toK : ∀ (s1 : State) (f : Nat → Pc), Core s s1 → (∀ u, AttrEq c (f u) (s.pc u)) →
      s' = { s1 with pc := upd f t (runK b.k) } → Summary c s t s' := by
    intro s1 f hc hf hs'
    exact quiet_runK c s s' t b.k _ _ f pre a6 a1 a2 (fun sd => by rw [a3]; exact Nat.le_refl _)
      (fun sl => by rw [a4]; exact Nat.le_refl _) (fun sd i e => by rw [a5]; exact e) hbw.2
      (by rw [hs']; exact ⟨hc.1, hc.2, hc.3, hc.4, hc.5, hc.6⟩) (by rw [hs']) hf
  have toW : ∀ (s1 : State) (f : Nat → Pc) (p' : Pc), Core s s1 → (∀ u, AttrEq c (f u) (s.pc u)) →
      ((∃ j, j < b.g.n ∧ p' = .wLd b j) ∨ (∃ j cur, j < b.g.n ∧ p' = .wCas b j cur) ∨ (∃ j, j < b.g.n ∧ p' = .wWake b j)) →
      s' = { s1 with pc := upd f t p' } → Summary c s t s' := by
    intro s1 f p' hc hf hp' hs'
    have hattr' : p'.held = b.k.held ∧ p'.cbDone = (fun _ _ => False) ∧ p'.needs = b.k.needs ∧
        p'.lb c = b.k.lb c ∧ p'.expects = b.k.expects ∧ p' ≠ .idle ∧ p'.wf c := by
      rcases hp' with ⟨j, hj, rfl⟩ | ⟨j, cur, hj, rfl⟩ | ⟨j, hj, rfl⟩ <;> exact ⟨rfl, rfl, rfl, rfl, rfl, by simp, hbw, hj⟩
    obtain ⟨b1, b2, b3, b4, b5, b6, b7⟩ := hattr'
    refine Summary.ofQuiet p' f (by rw [hs']; exact ⟨hc.1, hc.2, hc.3, hc.4, hc.5, hc.6⟩) (by rw [hs']) hf ?_ ?_ ?_ b7 ?_ ?_ ⟨a6, b6⟩
    · intro sd i; rw [b1, a1]
    · intro sd i; rw [b2, a2]
    · intro sd; rw [b3, a3]; exact Nat.le_refl _
    · intro sl; rw [b4, ← a4]; exact pre.lb sl
    · intro sd i e; rw [b5, ← a5] at e; exact pre.exp sd i e
  have toNext : ∀ (s1 : State) (f : Nat → Pc) (j : Nat), Core s s1 → (∀ u, AttrEq c (f u) (s.pc u)) →
      s' = { s1 with pc := upd f t (nextWake b j) } → Summary c s t s' := by
    intro s1 f j hc hf hs'
    simp only [nextWake] at hs'
    split at hs'
    · exact toW s1 f _ hc hf (Or.inl ⟨j + 1, by assumption, rfl⟩) hs'
    · exact toK s1 f hc hf hs'
  rcases hp with hp | ⟨j, hp⟩ | ⟨j, cur, hp⟩ | ⟨j, hp⟩
  · have hw : b.wf c ∧ 0 < b.g.n := by have := pre.wf; rw [hp] at this; exact this
    have hne : b.g.n ≠ 0 := by omega
    simp only [stepThread, hp, hne, if_false, Option.some.injEq, Prod.mk.injEq] at h
    exact toW s s.pc _ (core_refl s) (fun u => AttrEq.rfl' c _) (Or.inl ⟨0, hw.2, rfl⟩) h.1.symm
  · have hw : b.wf c ∧ j < b.g.n := by have := pre.wf; rw [hp] at this; exact this
    simp only [stepThread, hp, Option.some.injEq, Prod.mk.injEq] at h
    obtain ⟨h, -⟩ := h
    split at h
    · exact toNext s s.pc j (core_refl s) (fun u => AttrEq.rfl' c _) h.symm
    · split at h
      · exact toNext s s.pc j (core_refl s) (fun u => AttrEq.rfl' c _) h.symm
      · exact toW s s.pc _ (core_refl s) (fun u => AttrEq.rfl' c _) (Or.inr (Or.inl ⟨j, _, hw.2, rfl⟩)) h.symm
  · have hw : b.wf c ∧ j < b.g.n := by have := pre.wf; rw [hp] at this; exact this
    simp only [stepThread, hp] at h
    split at h
    · simp only [Option.some.injEq, Prod.mk.injEq] at h
      exact toW { s with wbit := upd s.wbit (b.g.slot c j) false } s.pc _ ⟨rfl, rfl, rfl, rfl, rfl, rfl⟩
        (fun u => AttrEq.rfl' c _) (Or.inr (Or.inr ⟨j, hw.2, rfl⟩)) h.1.symm
    · simp only [Option.some.injEq, Prod.mk.injEq] at h
      exact toNext s s.pc j (core_refl s) (fun u => AttrEq.rfl' c _) h.1.symm
  · simp only [stepThread, hp, Option.some.injEq, Prod.mk.injEq] at h
    exact toNext s _ j (core_refl s) (fun u => wakeAll_attrEq c _ _ u) h.1.symm

theorem sum_bCbE (c : Cfg) (s s' : State) (t : Nat) (inp : Inp) (l : Act) (b : BCtx)
    (hp : s.pc t = .bCbE b)
    (h : stepThread c s t inp = some (s', l)) (pre : Pre c s (s.pc t)) : Summary c s t s' := by
  rw [hp] at pre
  have hw : (b.g.wf c ∧ b.k.wf c b.g.sd (b.g.idx + b.g.n)) ∧ 0 < b.g.n := pre.wf
  have key : ∀ (s1 : State), s' = s1.setPc t (.fRel b) → s1.pc = s.pc →
      s1.pushIdx = s.pushIdx → s1.popIdx = s.popIdx → s1.ver = s.ver →
      (b.g.sd = .push → s1.poppedV = s.poppedV ∧
          (∀ k, k < b.g.n → s1.pushedV (b.g.idx + k) = some (s1.val (b.g.slot c k))) ∧
          (∀ i, ¬ segTk b.g 0 .push i → s1.pushedV i = s.pushedV i) ∧
          (∀ sl, ¬ (b.g.slot c 0 ≤ sl ∧ sl < b.g.slot c b.g.n) → s1.val sl = s.val sl)) →
      (b.g.sd = .pop → s1.pushedV = s.pushedV ∧ s1.val = s.val ∧
          (∀ k, k < b.g.n → s1.poppedV (b.g.idx + k) = some (s.val (b.g.slot c k))) ∧
          (∀ i, ¬ segTk b.g 0 .pop i → s1.poppedV i = s.poppedV i)) → Summary c s t s' := by
    intro s1 hs' hpcs h1 h2 h3 hpush hpop
    have hpc : s'.pc t = .fRel b := by rw [hs']; simp [State.setPc, upd]
    refine .callback b.g hw.1.1 ⟨by rw [hs']; exact h1, by rw [hs']; exact h2, by rw [hs']; exact h3⟩
      ?_ ?_ ?_ ?_ ?_ ?_ ?_ ?_ ?_ ⟨?_, ?_, ?_, ?_, ?_⟩
    · apply others_upd c _ _ t (.fRel b); rw [hs']; simp only [State.setPc, hpcs]
    · intro sd' i' hh; rw [hp]; exact Or.inl hh
    · intro k hk; rw [hp]; simp only [Pc.lb, BCtx.lb]
      rw [segLb_in c b.g 0 b.g.n k (Nat.zero_le _) hk]; exact Nat.le_max_left _ _
    · intro sl; rw [hp]; rfl
    · intro sd' i'; rw [hpc, hp]; rfl
    · intro sd' i'; rw [hp]; simp [Pc.cbDone]
    · intro sd' i'; rw [hpc]; rfl
    · intro hsd; rw [hs']; exact hpush hsd
    · intro hsd; rw [hs']; exact hpop hsd
    · intro sd'; rw [hpc, hp]; exact Nat.le_refl _
    · rw [hpc]; exact pre.wf
    · intro sl; rw [hpc]; exact pre.lb sl
    · intro sd' i' e; rw [hpc] at e; rw [hs']
      have := pre.exp sd' i' e
      cases sd' <;> simp only [State.idx, State.setPc] at * <;> omega
    · rw [hpc, hp]; simp
  cases hsd : b.g.sd with
  | push =>
    simp only [stepThread, hp, hsd] at h
    split at h
    · rename_i hlen
      simp only [Option.some.injEq, Prod.mk.injEq] at h
      refine key _ h.1.symm rfl rfl rfl rfl ?_ (by intro e; rw [hsd] at e; cases e)
      intro _
      refine ⟨rfl, ?_, ?_, ?_⟩
      · intro k hk
        have h1 : b.g.idx ≤ b.g.idx + k ∧ b.g.idx + k < b.g.idx + b.g.n := by omega
        have h2 : b.g.slot c 0 ≤ b.g.slot c k ∧ b.g.slot c k < b.g.slot c 0 + b.g.n := by simp only [Seg.slot]; omega
        simp only [h1, h2, and_self, if_true]
        have h3 : b.g.idx + k - b.g.idx = k := by omega
        have h4 : b.g.slot c k - b.g.slot c 0 = k := by simp only [Seg.slot]; omega
        rw [h3, h4]
        have hk' : k < inp.vals.length := by omega
        simp [List.getD, hk']
      · intro i hi
        have : ¬ (b.g.idx ≤ i ∧ i < b.g.idx + b.g.n) := by
          intro e; apply hi; exact ⟨hsd.symm, by omega, e.2⟩
        simp only [this, if_false]
      · intro sl hsl
        have : ¬ (b.g.slot c 0 ≤ sl ∧ sl < b.g.slot c 0 + b.g.n) := by
          intro e; apply hsl; simp only [Seg.slot] at e ⊢; omega
        simp only [this, if_false]
    · cases h
  | pop =>
    simp only [stepThread, hp, hsd, Option.some.injEq, Prod.mk.injEq] at h
    refine key _ h.1.symm rfl rfl rfl rfl (by intro e; rw [hsd] at e; cases e) ?_
    intro _
    refine ⟨rfl, rfl, ?_, ?_⟩
    · intro k hk
      have h1 : b.g.idx ≤ b.g.idx + k ∧ b.g.idx + k < b.g.idx + b.g.n := by omega
      have h3 : b.g.idx + k - b.g.idx = k := by omega
      simp only [h1, and_self, if_true, h3]
    · intro i hi
      have : ¬ (b.g.idx ≤ i ∧ i < b.g.idx + b.g.n) := by
        intro e; apply hi; exact ⟨hsd.symm, by omega, e.2⟩
      simp only [this, if_false]

/-- Every step of a thread is a quiet step, an acquisition, a release or a callback end. -/
theorem step_summary (c : Cfg) (s s' : State) (t : Nat) (inp : Inp) (l : Act)
    (h : stepThread c s t inp = some (s', l)) (pre : Pre c s (s.pc t)) (hf : Faithful c s t) :
    Summary c s t s' := by
  cases hp : s.pc t with
  | idle => simp [stepThread, hp] at h
  | retd r => simp [stepThread, hp] at h
  | idxRmw sd n single wait wake => exact sum_idxRmw c s s' t inp l sd n single wait wake hp h pre
  | idxLd sd n single wait wake => exact sum_idxLd c s s' t inp l sd n single wait wake hp h pre
  | idxSt sd n single wait wake i => exact sum_idxSt c s s' t inp l sd n single wait wake i hp h pre
  | cIdx sd n => exact sum_cIdx c s s' t inp l sd n hp h pre
  | wait x w => exact sum_wait c s s' t inp l x w hp h pre hf
  | sCbB sd i wake res => exact sum_sCbB c s s' t inp l sd i wake res hp h pre
  | sCbE sd i wake res => exact sum_sCbE c s s' t inp l sd i wake res hp h pre
  | sSet sd i wake res => exact sum_sSet c s s' t inp l sd i wake res hp h pre
  | sWake sd i res => exact sum_sWake c s s' t inp l sd i res hp h pre
  | tIdx sd conc wake => exact sum_tIdx c s s' t inp l sd conc wake hp h pre
  | tVer sd conc wake i => exact sum_tVer c s s' t inp l sd conc wake i hp h pre hf
  | tReIdx sd conc wake i => exact sum_tReIdx c s s' t inp l sd conc wake i hp h pre
  | tCas sd conc wake i => exact sum_tCas c s s' t inp l sd conc wake i hp h pre
  | nIdx sd x num => exact sum_nIdx c s s' t inp l sd x num hp h pre
  | nVer x g j => exact sum_nVer c s s' t inp l x g j hp h pre hf
  | nCas x g n => exact sum_nCas c s s' t inp l x g n hp h pre
  | cVer cc => exact sum_cVer c s s' t inp l cc hp h pre hf
  | cNeed cc => exact sum_cNeed c s s' t inp l cc hp h pre
  | fAcq b => exact sum_bQuiet c s s' t inp l b (Or.inl hp) h pre
  | bCbB b => exact sum_bQuiet c s s' t inp l b (Or.inr (Or.inl hp)) h pre
  | bCbE b => exact sum_bCbE c s s' t inp l b hp h pre
  | fRel b => exact sum_bQuiet c s s' t inp l b (Or.inr (Or.inr hp)) h pre
  | bSt b j => exact sum_bSt c s s' t inp l b j hp h pre
  | fSc b => exact sum_bWake c s s' t inp l b (Or.inl hp) h pre
  | wLd b j => exact sum_bWake c s s' t inp l b (Or.inr (Or.inl ⟨j, hp⟩)) h pre
  | wCas b j cur => exact sum_bWake c s s' t inp l b (Or.inr (Or.inr (Or.inl ⟨j, cur, hp⟩))) h pre
  | wWake b j => exact sum_bWake c s s' t inp l b (Or.inr (Or.inr (Or.inr ⟨j, hp⟩))) h pre
  | xIdx w n tm => exact sum_misc c s s' t inp l (Or.inl ⟨w, n, tm, hp⟩) h pre
  | zPop => exact sum_misc c s s' t inp l (Or.inr (Or.inl hp)) h pre
  | zPush p => exact sum_misc c s s' t inp l (Or.inr (Or.inr ⟨p, hp⟩)) h pre

end Babylon.BQ
