/-
  Abstract attributes of a thread's program counter, used by the invariants of the bounded queue:

    held    tickets the thread has taken from a dispenser and not yet released (version not advanced)
    lb      per slot, a lower bound on the slot version the thread has observed and relies on
    cbDone  held tickets whose callback has finished (value written / read)
    inCb    slots whose payload the thread is accessing (between callback begin and end)
    needs   per side, what the rest of the call needs from the client contract:
            1 = will modify the dispenser, 2 = relies on exclusive use of the dispenser
    expects per side, the dispenser value an exclusive (CONCURRENT = false) path relies on
    wf      local well-formedness (segments inside one round, loop counters in range)
-/
import Babylon.BQ.Model

namespace Babylon.BQ
open Babylon.Core Babylon.Gen.BQ

/-- tickets `g.idx + a … g.idx + g.n - 1` of side `g.sd` -/
def segTk (g : Seg) (a : Nat) : Side → Nat → Prop :=
  fun sd i => sd = g.sd ∧ g.idx + a ≤ i ∧ i < g.idx + g.n
def optSegTk : Option Seg → Side → Nat → Prop
  | none => fun _ _ => False
  | some g => segTk g 0

def CompCtx.held (cc : CompCtx) : Side → Nat → Prop := fun sd i => segTk cc.g 0 sd i ∨ optSegTk cc.rest sd i
def TryCtx.held (x : TryCtx) : Side → Nat → Prop :=
  match x.back with
  | none => fun _ _ => False
  | some cc => cc.held
def K.held : K → Side → Nat → Prop
  | .ret _ => fun _ _ => False
  | .block _ _ g => segTk g 0
  | .tryNext x _ => x.held
  | .comp g => segTk g 0
  | .back cc => cc.held
def BCtx.held (b : BCtx) (a : Nat) : Side → Nat → Prop := fun sd i => segTk b.g a sd i ∨ b.k.held sd i
def WCtx.held : WCtx → Side → Nat → Prop
  | .single sd i _ _ => fun sd' i' => sd' = sd ∧ i' = i
  | .batch g _ _ _ k => fun sd i => segTk g 0 sd i ∨ k.held sd i
  | .timed .. => fun _ _ => False

def Pc.held : Pc → Side → Nat → Prop
  | .wait x _ => x.held
  | .sCbB sd i _ _ | .sCbE sd i _ _ | .sSet sd i _ _ => fun sd' i' => sd' = sd ∧ i' = i
  | .nIdx _ x _ | .nVer x _ _ | .nCas x _ _ => x.held
  | .cVer cc | .cNeed cc => cc.held
  | .fAcq b | .bCbB b | .bCbE b | .fRel b => b.held 0
  | .bSt b j => b.held j
  | .fSc b | .wLd b _ | .wCas b _ _ | .wWake b _ => b.k.held
  | _ => fun _ _ => False

/-! lower bounds on slot versions -/
def segLb (c : Cfg) (g : Seg) (a b : Nat) : Nat → Nat :=
  fun sl => if g.slot c a ≤ sl ∧ sl < g.slot c b then g.E c else 0
def oneLb (c : Cfg) (sd : Side) (i : Nat) : Nat → Nat :=
  fun sl => if sl = slotOf c i then expVer c sd i else 0
def CompCtx.lb (c : Cfg) (cc : CompCtx) : Nat → Nat := segLb c cc.g 0 cc.j
def TryCtx.lb (c : Cfg) (x : TryCtx) : Nat → Nat :=
  match x.back with
  | none => fun _ => 0
  | some cc => cc.lb c
def K.lb (c : Cfg) : K → Nat → Nat
  | .tryNext x _ => x.lb c
  | .back cc => cc.lb c
  | _ => fun _ => 0
def BCtx.lb (c : Cfg) (b : BCtx) (a : Nat) : Nat → Nat := fun sl => max (segLb c b.g a b.g.n sl) (b.k.lb c sl)

def Pc.lb (c : Cfg) : Pc → Nat → Nat
  | .wait (.batch g j _ _ k) _ => fun sl => max (segLb c g 0 j sl) (k.lb c sl)
  | .sCbB sd i _ _ | .sCbE sd i _ _ | .sSet sd i _ _ => oneLb c sd i
  | .tCas sd _ _ i => oneLb c sd i
  | .nIdx _ x _ => x.lb c
  | .nVer x g j => fun sl => max (segLb c g 0 j sl) (x.lb c sl)
  | .nCas x g n => fun sl => max (segLb c g 0 n sl) (x.lb c sl)
  | .cVer cc | .cNeed cc => cc.lb c
  | .fAcq b | .bCbB b | .bCbE b | .fRel b => b.lb c 0
  | .bSt b j => b.lb c j
  | .fSc b | .wLd b _ | .wCas b _ _ | .wWake b _ => b.k.lb c
  | _ => fun _ => 0

/-- held tickets whose callback has finished -/
def Pc.cbDone : Pc → Side → Nat → Prop
  | .sSet sd i _ _ => fun sd' i' => sd' = sd ∧ i' = i
  | .fRel b => segTk b.g 0
  | .bSt b j => segTk b.g j
  | _ => fun _ _ => False

/-- slots whose payload is being accessed by the thread's callback -/
def Pc.inCb (c : Cfg) : Pc → Nat → Prop
  | .sCbE _ i _ _ => fun sl => sl = slotOf c i
  | .bCbE b => fun sl => b.g.slot c 0 ≤ sl ∧ sl < b.g.slot c b.g.n
  | _ => fun _ => False

/-! client-contract needs -/
def lvlConc (conc : Bool) : Nat := if conc then 1 else 2
def sideIf (sd sd' : Side) (v : Nat) : Nat := if sd = sd' then v else 0

def CompCtx.needs (cc : CompCtx) : Side → Nat := fun sd => sideIf cc.g.sd.other sd 1
def TryCtx.backNeeds (x : TryCtx) : Side → Nat :=
  match x.back with
  | none => fun _ => 0
  | some cc => cc.needs
def K.needs : K → Side → Nat
  | .tryNext x g => fun sd => max (sideIf g.sd sd (lvlConc x.conc)) (x.backNeeds sd)
  | .comp g => fun sd => sideIf g.sd.other sd 1
  | .back cc => cc.needs
  | _ => fun _ => 0

def Pc.needs : Pc → Side → Nat
  | .idxRmw sd .. => fun sd' => sideIf sd sd' 1
  | .idxLd sd .. | .idxSt sd .. => fun sd' => sideIf sd sd' 2
  | .cIdx .. => fun _ => 1
  | .wait (.batch _ _ _ _ k) _ => k.needs
  | .wait (.timed ..) _ | .xIdx .. => fun sd' => sideIf .pop sd' 2
  | .tIdx sd conc _ | .tVer sd conc _ _ | .tReIdx sd conc _ _ | .tCas sd conc _ _ => fun sd' => sideIf sd sd' (lvlConc conc)
  | .nIdx sd x _ => fun sd' => max (sideIf sd sd' (lvlConc x.conc)) (x.backNeeds sd')
  | .nVer x g _ | .nCas x g _ => fun sd' => max (sideIf g.sd sd' (lvlConc x.conc)) (x.backNeeds sd')
  | .cVer cc | .cNeed cc => cc.needs
  | .fAcq b | .bCbB b | .bCbE b | .fRel b | .bSt b _ | .fSc b | .wLd b _ | .wCas b _ _ | .wWake b _ => b.k.needs
  | _ => fun _ => 0

def Call.level (k : Call) (sd : Side) : Nat := if k.exclusive sd then 2 else if k.touches sd then 1 else 0
def optLevel : Option Call → Side → Nat
  | none => fun _ => 0
  | some k => k.level

/-- dispenser value an exclusive path relies on -/
def K.expects : K → Side → Option Nat
  | .tryNext x g => fun sd => if x.conc = false ∧ sd = g.sd then some g.idx else none
  | _ => fun _ => none
def Pc.expects : Pc → Side → Option Nat
  | .idxSt sd _ _ _ _ i => fun sd' => if sd' = sd then some i else none
  | .tVer sd conc _ i | .tReIdx sd conc _ i | .tCas sd conc _ i => fun sd' => if conc = false ∧ sd' = sd then some i else none
  | .nVer x g _ | .nCas x g _ => fun sd' => if x.conc = false ∧ sd' = g.sd then some g.idx else none
  | .fAcq b | .bCbB b | .bCbE b | .fRel b | .bSt b _ | .fSc b | .wLd b _ | .wCas b _ _ | .wWake b _ => b.k.expects
  | _ => fun _ => none

/-! local well-formedness -/
def Seg.wf (c : Cfg) (g : Seg) : Prop := slotOf c g.idx + g.n ≤ c.cap
def optSegWf (c : Cfg) : Option Seg → Prop
  | none => True
  | some g => g.wf c ∧ 0 < g.n
/-- the next segment of a call continues exactly where the current one ends -/
def linked (sd : Side) (e : Nat) : Option Seg → Prop
  | none => True
  | some g2 => g2.sd = sd ∧ g2.idx = e
def CompCtx.wf (c : Cfg) (cc : CompCtx) : Prop :=
  cc.g.wf c ∧ optSegWf c cc.rest ∧ cc.j < cc.g.n ∧ linked cc.g.sd (cc.g.idx + cc.g.n) cc.rest
/-- `sd` = side of the try itself -/
def TryCtx.wf (c : Cfg) (x : TryCtx) (sd : Side) : Prop :=
  match x.back with
  | none => True
  | some cc => cc.wf c ∧ x.conc = true ∧ cc.g.sd = sd.other
/-- `sd`, `e`: side and end of the segment the continuation follows -/
def K.wf (c : Cfg) (sd : Side) (e : Nat) : K → Prop
  | .ret _ => True
  | .block _ _ g => g.wf c ∧ 0 < g.n ∧ g.sd = sd ∧ g.idx = e
  | .tryNext x g => x.wf c sd ∧ g.wf c ∧ 0 < g.n ∧ x.g2 = none ∧ g.sd = sd ∧ g.idx = e
  | .comp g => g.wf c ∧ 0 < g.n ∧ g.sd = sd ∧ g.idx = e
  | .back cc => cc.wf c ∧ cc.g.sd = sd.other
def BCtx.wf (c : Cfg) (b : BCtx) : Prop := b.g.wf c ∧ b.k.wf c b.g.sd (b.g.idx + b.g.n)
def K.isBlock : K → Prop
  | .ret _ => True
  | .block .. => True
  | _ => False
def WCtx.wf (c : Cfg) : WCtx → Prop
  | .single .. => True
  | .batch g j _ _ k => g.wf c ∧ j < g.n ∧ k.wf c g.sd (g.idx + g.n) ∧ k.isBlock
  | .timed _ _ num _ _ => 1 ≤ num ∧ num ≤ c.cap

def Pc.wf (c : Cfg) : Pc → Prop
  | .idxRmw _ n single _ _ | .idxLd _ n single _ _ | .idxSt _ n single _ _ _ => 1 ≤ n ∧ n ≤ c.cap ∧ (single = true → n = 1)
  | .cIdx _ n => 1 ≤ n ∧ n ≤ c.cap
  | .wait x _ => x.wf c
  | .nIdx sd x num => x.wf c sd ∧ 1 ≤ num ∧ num ≤ c.cap ∧ x.g2 = none
  | .nVer x g j => x.wf c g.sd ∧ g.wf c ∧ optSegWf c x.g2 ∧ linked g.sd (g.idx + g.n) x.g2 ∧ j < g.n
  | .nCas x g n => x.wf c g.sd ∧ g.wf c ∧ optSegWf c x.g2 ∧ linked g.sd (g.idx + g.n) x.g2 ∧ 0 < n ∧ n ≤ g.n
  | .cVer cc | .cNeed cc => cc.wf c
  | .fAcq b | .bCbB b | .bCbE b | .fRel b | .fSc b => b.wf c ∧ 0 < b.g.n
  | .bSt b j | .wLd b j | .wCas b j _ | .wWake b j => b.wf c ∧ j < b.g.n
  | .xIdx _ num _ => 1 ≤ num ∧ num ≤ c.cap
  | _ => True

end Babylon.BQ
