/-
  Preservation of `Inv` by the four kinds of thread steps (`Summary`) and by call / return /
  spurious wake-up.
-/
import Babylon.BQ.Inv

namespace Babylon.BQ
open Babylon.Core Babylon.Gen.BQ

section
variable {c : Cfg} {y : Sys} {t : Nat} {s' : State}

/-- the fields that only need the frame facts shared by all kinds of steps -/
theorem inv_common (hI : Inv c y) (hoth : Others c y.s s' t) (com : Common c y.s s' (y.s.pc t) (s'.pc t))
    (hver : ∀ sl, y.s.ver sl ≤ s'.ver sl) (hidx : ∀ sd, y.s.idx sd ≤ s'.idx sd) :
    (∀ u, (s'.pc u).wf c) ∧ (∀ u sl, (s'.pc u).lb c sl ≤ s'.ver sl) ∧
    (∀ u sd, (s'.pc u).needs sd ≤ optLevel (y.cur u) sd) ∧
    (∀ u sd, s'.pc u ≠ .idle → y.start u sd ≤ s'.idx sd) := by
  refine ⟨?_, ?_, ?_, ?_⟩
  · intro u; by_cases hu : u = t
    · subst hu; exact com.wf
    · exact ((hoth u hu).wf).2 (hI.wf u)
  · intro u sl; by_cases hu : u = t
    · subst hu; exact Nat.le_trans (com.lb sl) (hver sl)
    · rw [(hoth u hu).lb]; exact Nat.le_trans (hI.lbLe u sl) (hver sl)
  · intro u sd; by_cases hu : u = t
    · subst hu; exact Nat.le_trans (com.needs sd) (hI.needsLe u sd)
    · rw [(hoth u hu).needs]; exact hI.needsLe u sd
  · intro u sd hne; by_cases hu : u = t
    · subst hu; exact Nat.le_trans (hI.startLe u sd com.idle.1) (hidx sd)
    · have : y.s.pc u ≠ .idle := fun e => hne ((hoth u hu).idle.2 e)
      exact Nat.le_trans (hI.startLe u sd this) (hidx sd)

/-- `expects` of the other threads survives when the dispensers they rely on do not move -/
theorem exp_others (hI : Inv c y) (hoth : Others c y.s s' t) (com : Common c y.s s' (y.s.pc t) (s'.pc t))
    (hidx : ∀ u sd i, u ≠ t → (y.s.pc u).expects sd = some i → s'.idx sd = y.s.idx sd) :
    ∀ u sd i, (s'.pc u).expects sd = some i → s'.idx sd = i := by
  intro u sd i h; by_cases hu : u = t
  · subst hu; exact com.exp sd i h
  · rw [(hoth u hu).expects] at h
    rw [hidx u sd i hu h]; exact hI.expOk u sd i h

theorem held_iff_others (hoth : Others c y.s s' t) (u : Nat) (hu : u ≠ t) (sd : Side) (i : Nat) :
    (s'.pc u).held sd i ↔ (y.s.pc u).held sd i := by rw [(hoth u hu).held]
theorem cbDone_iff_others (hoth : Others c y.s s' t) (u : Nat) (hu : u ≠ t) (sd : Side) (i : Nat) :
    (s'.pc u).cbDone sd i ↔ (y.s.pc u).cbDone sd i := by rw [(hoth u hu).cbDone]

theorem inv_quiet (hI : Inv c y) (hcore : Core y.s s') (hoth : Others c y.s s' t)
    (hh : ∀ sd i, (s'.pc t).held sd i ↔ (y.s.pc t).held sd i)
    (hd : ∀ sd i, (s'.pc t).cbDone sd i ↔ (y.s.pc t).cbDone sd i)
    (com : Common c y.s s' (y.s.pc t) (s'.pc t)) : Inv c { y with s := s' } := by
  have hidx : ∀ sd, s'.idx sd = y.s.idx sd := hcore.idx
  have hheld : ∀ u sd i, (s'.pc u).held sd i ↔ (y.s.pc u).held sd i := by
    intro u sd i; by_cases hu : u = t
    · subst hu; exact hh sd i
    · exact held_iff_others hoth u hu sd i
  have hdone : ∀ u sd i, (s'.pc u).cbDone sd i ↔ (y.s.pc u).cbDone sd i := by
    intro u sd i; by_cases hu : u = t
    · subst hu; exact hd sd i
    · exact cbDone_iff_others hoth u hu sd i
  obtain ⟨c1, c2, c3, c4⟩ := inv_common hI hoth com (fun sl => by rw [hcore.ver]; exact Nat.le_refl _)
    (fun sd => by rw [hidx]; exact Nat.le_refl _)
  have hg : ∀ sd, s'.ghostV sd = y.s.ghostV sd := by
    intro sd; cases sd <;> simp [State.ghostV, hcore.pushedV, hcore.poppedV]
  refine ⟨c1, ?_, ?_, ?_, ?_, c2, c3, hI.excl, ?_, ?_, ?_, ?_, ?_, ?_, ?_, c4, ?_⟩ <;> dsimp only
  · intro a b sd i h1 h2; exact hI.uniq a b sd i ((hheld a sd i).1 h1) ((hheld b sd i).1 h2)
  · intro a sd i h1
    rw [hidx, hcore.ver]; exact hI.heldLt a sd i ((hheld a sd i).1 h1)
  · intro sd i h1 h2
    rw [hcore.ver]; rw [hidx] at h1
    exact hI.doneGt sd i h1 (fun a ha => h2 a ((hheld a sd i).2 ha))
  · intro sd i h1
    rw [hcore.ver]; rw [hidx] at h1; exact hI.futLe sd i h1
  · exact exp_others hI hoth com (fun u sd i _ _ => hidx sd)
  · intro i h1
    rw [hcore.ver] at h1; rw [hcore.pushedV, hcore.val]; exact hI.valRd i h1
  · intro a i h1
    rw [hcore.pushedV, hcore.val]; exact hI.valWr a i ((hdone a _ i).1 h1)
  · intro i v h1
    rw [hcore.poppedV] at h1; rw [hcore.pushedV]; exact hI.popPush i v h1
  · intro sd i h1 h2
    rw [hidx] at h1; rw [hg]
    exact hI.ghostDef sd i h1 (fun a ha => (hdone a sd i).1 (h2 a ((hheld a sd i).2 ha)))
  · intro sd i h1
    rw [hg] at h1; rw [hidx]; exact hI.ghostLt sd i h1
  · intro a sd i h1 h2
    rw [hg]; exact hI.ghostNone a sd i ((hheld a sd i).1 h1) (fun h3 => h2 ((hdone a sd i).2 h3))
  · intro a sd i h1; exact hI.heldGe a sd i ((hheld a sd i).1 h1)

theorem side_cases (sd sd' : Side) : sd' = sd ∨ sd' = sd.other := by
  cases sd <;> cases sd' <;> simp [Side.other]

theorem inv_acquire (hI : Inv c y) (sd : Side) (n : Nat)
    (hidx : s'.idx sd = y.s.idx sd + n) (hidx' : s'.idx sd.other = y.s.idx sd.other)
    (hver : s'.ver = y.s.ver) (hval : s'.val = y.s.val) (hpv : s'.pushedV = y.s.pushedV) (hqv : s'.poppedV = y.s.poppedV)
    (hoth : Others c y.s s' t)
    (hneed : 1 ≤ (y.s.pc t).needs sd)
    (hh : ∀ sd' i, (s'.pc t).held sd' i ↔ ((y.s.pc t).held sd' i ∨ (sd' = sd ∧ y.s.idx sd ≤ i ∧ i < y.s.idx sd + n)))
    (hd : ∀ sd i, (s'.pc t).cbDone sd i ↔ (y.s.pc t).cbDone sd i)
    (com : Common c y.s s' (y.s.pc t) (s'.pc t)) : Inv c { y with s := s' } := by
  have hmono : ∀ sd', y.s.idx sd' ≤ s'.idx sd' := by
    intro sd'; rcases side_cases sd sd' with rfl | rfl
    · rw [hidx]; omega
    · rw [hidx']; exact Nat.le_refl _
  have hdone : ∀ u sd i, (s'.pc u).cbDone sd i ↔ (y.s.pc u).cbDone sd i := by
    intro u sd i; by_cases hu : u = t
    · subst hu; exact hd sd i
    · exact cbDone_iff_others hoth u hu sd i
  -- held' = held ∪ new, new tickets only for `t`
  have hheld : ∀ u sd' i, (s'.pc u).held sd' i ↔
      ((y.s.pc u).held sd' i ∨ (u = t ∧ sd' = sd ∧ y.s.idx sd ≤ i ∧ i < y.s.idx sd + n)) := by
    intro u sd' i; by_cases hu : u = t
    · subst hu; rw [hh]; simp
    · rw [held_iff_others hoth u hu]; simp [hu]
  obtain ⟨c1, c2, c3, c4⟩ := inv_common hI hoth com (fun sl => by rw [hver]; exact Nat.le_refl _) hmono
  have hg : ∀ sd, s'.ghostV sd = y.s.ghostV sd := by
    intro sd; cases sd <;> simp [State.ghostV, hpv, hqv]
  refine ⟨c1, ?_, ?_, ?_, ?_, c2, c3, hI.excl, ?_, ?_, ?_, ?_, ?_, ?_, ?_, c4, ?_⟩ <;> dsimp only
  · intro a b sd' i h1 h2
    rcases (hheld a sd' i).1 h1 with h1 | ⟨ea, es, h1a, h1b⟩ <;> rcases (hheld b sd' i).1 h2 with h2 | ⟨eb, es2, h2a, h2b⟩
    · exact hI.uniq a b sd' i h1 h2
    · have := (hI.heldLt a _ i h1).1; rw [es2] at this; omega
    · have := (hI.heldLt b _ i h2).1; rw [es] at this; omega
    · rw [ea, eb]
  · intro a sd' i h1
    rw [hver]
    rcases (hheld a sd' i).1 h1 with h1 | ⟨rfl, rfl, h1a, h1b⟩
    · have h3 := hI.heldLt a sd' i h1; have := hmono sd'; exact ⟨by omega, h3.2⟩
    · exact ⟨by rw [hidx]; exact h1b, hI.futLe _ i h1a⟩
  · intro sd' i h1 h2
    rw [hver]
    have hold : i < y.s.idx sd' := by
      rcases side_cases sd sd' with rfl | rfl
      · by_cases hlt : i < y.s.idx sd'
        · exact hlt
        · exact absurd ((hheld t sd' i).2 (Or.inr ⟨rfl, rfl, by omega, by rw [hidx] at h1; exact h1⟩)) (h2 t)
      · rw [hidx'] at h1; exact h1
    exact hI.doneGt sd' i hold (fun a ha => h2 a ((hheld a sd' i).2 (Or.inl ha)))
  · intro sd' i h1
    rw [hver]; exact hI.futLe sd' i (Nat.le_trans (hmono sd') h1)
  · refine exp_others hI hoth com ?_
    intro u sd' i hu he
    rcases side_cases sd sd' with rfl | rfl
    · exfalso
      have h2 := expects_needs _ _ _ he
      have h3 := hI.needsLe u sd'
      have h4 := level_le_two (y.cur u) sd'
      have h5 := hI.excl u t sd' hu (by omega)
      have h6 := hI.needsLe t sd'
      omega
    · exact hidx'
  · intro i h1
    rw [hver] at h1; rw [hpv, hval]; exact hI.valRd i h1
  · intro a i h1
    rw [hpv, hval]; exact hI.valWr a i ((hdone a _ i).1 h1)
  · intro i v h1
    rw [hqv] at h1; rw [hpv]; exact hI.popPush i v h1
  · intro sd' i h1 h2
    rw [hg]
    have hold : i < y.s.idx sd' := by
      rcases side_cases sd sd' with rfl | rfl
      · by_cases hlt : i < y.s.idx sd'
        · exact hlt
        · exfalso
          have hn := (hheld t sd' i).2 (Or.inr ⟨rfl, rfl, by omega, by rw [hidx] at h1; exact h1⟩)
          have hc := (hdone t sd' i).1 (h2 t hn)
          have := (hI.heldLt t sd' i (cbDone_crit c _ (hI.wf t) sd' i hc).1).1
          omega
      · rw [hidx'] at h1; exact h1
    exact hI.ghostDef sd' i hold (fun a ha => (hdone a sd' i).1 (h2 a ((hheld a sd' i).2 (Or.inl ha))))
  · intro sd' i h1
    rw [hg] at h1; exact Nat.lt_of_lt_of_le (hI.ghostLt sd' i h1) (hmono sd')
  · intro a sd' i h1 h2
    rw [hg]
    rcases (hheld a sd' i).1 h1 with h1 | ⟨ea, es, h1a, h1b⟩
    · exact hI.ghostNone a sd' i h1 (fun h3 => h2 ((hdone a sd' i).2 h3))
    · cases hgv : y.s.ghostV sd' i with
      | none => rfl
      | some v =>
        have := hI.ghostLt sd' i (by rw [hgv]; simp)
        rw [es] at this; omega
  · intro a sd' i h1
    rcases (hheld a sd' i).1 h1 with h1 | ⟨rfl, rfl, h1a, h1b⟩
    · exact hI.heldGe a sd' i h1
    · exact Nat.le_trans (hI.startLe a _ com.idle.1) h1a

theorem inv_release (hI : Inv c y) (sd : Side) (i : Nat)
    (hver : s'.ver = upd y.s.ver (slotOf c i) (expVer c sd i + 1))
    (hpi : s'.pushIdx = y.s.pushIdx) (hqi : s'.popIdx = y.s.popIdx)
    (hval : s'.val = y.s.val) (hpv : s'.pushedV = y.s.pushedV) (hqv : s'.poppedV = y.s.poppedV)
    (hoth : Others c y.s s' t)
    (hheld0 : (y.s.pc t).held sd i) (hlbE : expVer c sd i ≤ (y.s.pc t).lb c (slotOf c i)) (hdone0 : (y.s.pc t).cbDone sd i)
    (hh : ∀ sd' i', (s'.pc t).held sd' i' ↔ ((y.s.pc t).held sd' i' ∧ ¬ (sd' = sd ∧ i' = i)))
    (hd : ∀ sd' i', (s'.pc t).cbDone sd' i' ↔ ((y.s.pc t).cbDone sd' i' ∧ ¬ (sd' = sd ∧ i' = i)))
    (com : Common c y.s s' (y.s.pc t) (s'.pc t)) : Inv c { y with s := s' } := by
  have hcrit := hI.crit t sd i hheld0 hlbE
  have hidx : ∀ sd', s'.idx sd' = y.s.idx sd' := by intro sd'; cases sd' <;> simp [State.idx, hpi, hqi]
  have hv : ∀ sl, s'.ver sl = if sl = slotOf c i then expVer c sd i + 1 else y.s.ver sl := by
    intro sl; rw [hver]; rfl
  have hvmono : ∀ sl, y.s.ver sl ≤ s'.ver sl := by
    intro sl; rw [hv]; split
    · rename_i e; rw [e, hcrit]; omega
    · exact Nat.le_refl _
  have hheld : ∀ u sd' i', (s'.pc u).held sd' i' ↔ ((y.s.pc u).held sd' i' ∧ ¬ (sd' = sd ∧ i' = i)) := by
    intro u sd' i'; by_cases hu : u = t
    · subst hu; exact hh sd' i'
    · rw [held_iff_others hoth u hu]; constructor
      · intro h1; refine ⟨h1, fun e => ?_⟩
        rw [e.1, e.2] at h1; exact hu (hI.uniq u t sd i h1 hheld0)
      · exact fun h1 => h1.1
  have hdone : ∀ u sd' i', (s'.pc u).cbDone sd' i' → (y.s.pc u).cbDone sd' i' := by
    intro u sd' i' h1; by_cases hu : u = t
    · subst hu; exact ((hd sd' i').1 h1).1
    · exact (cbDone_iff_others hoth u hu sd' i').1 h1
  have hdone' : ∀ u sd' i', ¬ (sd' = sd ∧ i' = i) → (y.s.pc u).cbDone sd' i' → (s'.pc u).cbDone sd' i' := by
    intro u sd' i' hne h1; by_cases hu : u = t
    · subst hu; exact (hd sd' i').2 ⟨h1, hne⟩
    · exact (cbDone_iff_others hoth u hu sd' i').2 h1
  -- another deal on the released slot has a strictly larger version
  have hstrict : ∀ sd' i', slotOf c i' = slotOf c i → ¬ (sd' = sd ∧ i' = i) → expVer c sd i ≤ expVer c sd' i' →
      expVer c sd i + 1 ≤ expVer c sd' i' := by
    intro sd' i' hs hne hle
    have : expVer c sd' i' ≠ expVer c sd i := fun e => hne (deal_inj c sd' sd i' i hs e)
    omega
  obtain ⟨c1, c2, c3, c4⟩ := inv_common hI hoth com hvmono (fun sd' => by rw [hidx]; exact Nat.le_refl _)
  have hg : ∀ sd, s'.ghostV sd = y.s.ghostV sd := by
    intro sd; cases sd <;> simp [State.ghostV, hpv, hqv]
  refine ⟨c1, ?_, ?_, ?_, ?_, c2, c3, hI.excl, ?_, ?_, ?_, ?_, ?_, ?_, ?_, c4, ?_⟩ <;> dsimp only
  · intro a b sd' i' h1 h2; exact hI.uniq a b sd' i' ((hheld a sd' i').1 h1).1 ((hheld b sd' i').1 h2).1
  · intro a sd' i' h1
    obtain ⟨h1, hne⟩ := (hheld a sd' i').1 h1
    have h2 := hI.heldLt a sd' i' h1
    refine ⟨by rw [hidx]; exact h2.1, ?_⟩
    rw [hv]; split
    · rename_i e; apply hstrict sd' i' e hne; rw [← hcrit, ← e]; exact h2.2
    · exact h2.2
  · intro sd' i' h1 h2
    rw [hidx] at h1
    by_cases he : sd' = sd ∧ i' = i
    · rw [he.1, he.2, hv, if_pos rfl]; omega
    · have := hI.doneGt sd' i' h1 (fun a ha => h2 a ((hheld a sd' i').2 ⟨ha, he⟩))
      exact Nat.lt_of_lt_of_le this (hvmono _)
  · intro sd' i' h1
    rw [hidx] at h1
    have h2 := hI.futLe sd' i' h1
    rw [hv]; split
    · rename_i e
      apply hstrict sd' i' e
      · intro he; have := (hI.heldLt t sd i hheld0).1; rw [he.1, he.2] at h1; omega
      · rw [← hcrit, ← e]; exact h2
    · exact h2
  · exact exp_others hI hoth com (fun u sd' i' _ _ => hidx sd')
  · intro i' h1
    rw [hpv, hval]
    rw [hv] at h1; split at h1
    · rename_i e
      cases sd with
      | push =>
        have e2 : expVer c .pop i' = expVer c .pop i := by rw [← h1, expVer_pop_succ]
        have := (deal_inj c .pop .pop i' i e e2).2
        rw [this]; exact hI.valWr t i hdone0
      | pop => exfalso; unfold expVer at h1; simp at h1; omega
    · exact hI.valRd i' h1
  · intro a i' h1
    rw [hpv, hval]; exact hI.valWr a i' (hdone a _ i' h1)
  · intro i' v h1
    rw [hqv] at h1; rw [hpv]; exact hI.popPush i' v h1
  · intro sd' i' h1 h2
    rw [hidx] at h1; rw [hg]
    apply hI.ghostDef sd' i' h1
    intro a ha
    by_cases he : sd' = sd ∧ i' = i
    · rw [he.1, he.2] at ha ⊢
      have := hI.uniq a t sd i ha hheld0
      rw [this]; exact hdone0
    · exact hdone a sd' i' (h2 a ((hheld a sd' i').2 ⟨ha, he⟩))
  · intro sd' i' h1
    rw [hg] at h1; rw [hidx]; exact hI.ghostLt sd' i' h1
  · intro a sd' i' h1 h2
    rw [hg]
    obtain ⟨h1, hne⟩ := (hheld a sd' i').1 h1
    exact hI.ghostNone a sd' i' h1 (fun h3 => h2 (hdone' a sd' i' hne h3))
  · intro a sd' i' h1; exact hI.heldGe a sd' i' ((hheld a sd' i').1 h1).1

theorem inv_callback (hI : Inv c y) (g : Seg) (hg : g.wf c)
    (hcore : s'.pushIdx = y.s.pushIdx ∧ s'.popIdx = y.s.popIdx ∧ s'.ver = y.s.ver)
    (hoth : Others c y.s s' t)
    (hheld0 : ∀ sd i, segTk g 0 sd i → (y.s.pc t).held sd i)
    (hlbE : ∀ k, k < g.n → g.E c ≤ (y.s.pc t).lb c (g.slot c k))
    (hh : ∀ sd i, (s'.pc t).held sd i ↔ (y.s.pc t).held sd i)
    (hd0 : ∀ sd i, ¬ (y.s.pc t).cbDone sd i)
    (hd : ∀ sd i, (s'.pc t).cbDone sd i ↔ segTk g 0 sd i)
    (hpush : g.sd = .push → s'.poppedV = y.s.poppedV ∧
        (∀ k, k < g.n → s'.pushedV (g.idx + k) = some (s'.val (g.slot c k))) ∧
        (∀ i, ¬ segTk g 0 .push i → s'.pushedV i = y.s.pushedV i) ∧
        (∀ sl, ¬ (g.slot c 0 ≤ sl ∧ sl < g.slot c g.n) → s'.val sl = y.s.val sl))
    (hpop : g.sd = .pop → s'.pushedV = y.s.pushedV ∧ s'.val = y.s.val ∧
        (∀ k, k < g.n → s'.poppedV (g.idx + k) = some (y.s.val (g.slot c k))) ∧
        (∀ i, ¬ segTk g 0 .pop i → s'.poppedV i = y.s.poppedV i))
    (com : Common c y.s s' (y.s.pc t) (s'.pc t)) : Inv c { y with s := s' } := by
  obtain ⟨hpi, hqi, hver⟩ := hcore
  have hidx : ∀ sd', s'.idx sd' = y.s.idx sd' := by intro sd'; cases sd' <;> simp [State.idx, hpi, hqi]
  have hheld : ∀ u sd i, (s'.pc u).held sd i ↔ (y.s.pc u).held sd i := by
    intro u sd i; by_cases hu : u = t
    · subst hu; exact hh sd i
    · exact held_iff_others hoth u hu sd i
  -- facts about the tickets of the segment
  have tk : ∀ k, k < g.n → g.slot c k = slotOf c (g.idx + k) ∧ expVer c g.sd (g.idx + k) = g.E c ∧
      (y.s.pc t).held g.sd (g.idx + k) ∧ y.s.ver (slotOf c (g.idx + k)) = g.E c := by
    intro k hk
    have h1 := seg_slot c g hg k hk
    have h2 := seg_E c g hg k hk
    have h3 := hheld0 g.sd (g.idx + k) ⟨rfl, by omega, by omega⟩
    refine ⟨h1, h2, h3, ?_⟩
    rw [← h2]; apply hI.crit t g.sd (g.idx + k) h3
    rw [h2, ← h1]; exact hlbE k hk
  have inT : ∀ sd i, segTk g 0 sd i → ∃ k, k < g.n ∧ i = g.idx + k ∧ sd = g.sd := by
    intro sd i h; exact ⟨i - g.idx, by have := h.2; omega, by have := h.2; omega, h.1⟩
  -- a slot of the segment is in the critical section of `t` only
  have slotT : ∀ sl, (g.slot c 0 ≤ sl ∧ sl < g.slot c g.n) → ∃ k, k < g.n ∧ sl = slotOf c (g.idx + k) := by
    intro sl h; simp only [Seg.slot] at h
    refine ⟨sl - slotOf c g.idx, by omega, ?_⟩
    rw [← (tk _ (by omega)).1]; simp only [Seg.slot]; omega
  have other_crit : ∀ a sd i, (y.s.pc a).held sd i → expVer c sd i ≤ (y.s.pc a).lb c (slotOf c i) →
      (g.slot c 0 ≤ slotOf c i ∧ slotOf c i < g.slot c g.n) → a = t ∧ segTk g 0 sd i := by
    intro a sd i h1 h2 h3
    obtain ⟨k, hk, e⟩ := slotT _ h3
    have hv := hI.crit a sd i h1 h2
    obtain ⟨_, t2, t3, t4⟩ := tk k hk
    rw [e, t4, ← t2] at hv
    obtain ⟨e1, e2⟩ := deal_inj c g.sd sd (g.idx + k) i e.symm hv
    subst e1; subst e2
    exact ⟨hI.uniq a t _ _ h1 t3, rfl, by omega, by omega⟩
  have hdone : ∀ u sd i, u ≠ t → ((s'.pc u).cbDone sd i ↔ (y.s.pc u).cbDone sd i) :=
    fun u sd i hu => cbDone_iff_others hoth u hu sd i
  obtain ⟨c1, c2, c3, c4⟩ := inv_common hI hoth com (fun sl => by rw [hver]; exact Nat.le_refl _)
    (fun sd' => by rw [hidx]; exact Nat.le_refl _)
  -- ghost values outside the segment are unchanged
  have gsame : ∀ sd i, ¬ segTk g 0 sd i → s'.ghostV sd i = y.s.ghostV sd i := by
    intro sd i hn
    cases hsd : g.sd with
    | push =>
      obtain ⟨p1, _, p3, _⟩ := hpush hsd
      cases sd with
      | push => exact p3 i hn
      | pop => simp [State.ghostV, p1]
    | pop =>
      obtain ⟨p1, _, _, p4⟩ := hpop hsd
      cases sd with
      | push => simp [State.ghostV, p1]
      | pop => exact p4 i hn
  have gset : ∀ sd i, segTk g 0 sd i → s'.ghostV sd i ≠ none := by
    intro sd i h
    obtain ⟨k, hk, rfl, rfl⟩ := inT sd i h
    cases hsd : g.sd with
    | push => simp only [State.ghostV]; rw [(hpush hsd).2.1 k hk]; simp
    | pop => simp only [State.ghostV]; rw [(hpop hsd).2.2.1 k hk]; simp
  refine ⟨c1, ?_, ?_, ?_, ?_, c2, c3, hI.excl, ?_, ?_, ?_, ?_, ?_, ?_, ?_, c4, ?_⟩ <;> dsimp only
  · intro a b sd i h1 h2; exact hI.uniq a b sd i ((hheld a sd i).1 h1) ((hheld b sd i).1 h2)
  · intro a sd i h1
    rw [hidx, hver]; exact hI.heldLt a sd i ((hheld a sd i).1 h1)
  · intro sd i h1 h2
    rw [hver]; rw [hidx] at h1
    exact hI.doneGt sd i h1 (fun a ha => h2 a ((hheld a sd i).2 ha))
  · intro sd i h1
    rw [hver]; rw [hidx] at h1; exact hI.futLe sd i h1
  · exact exp_others hI hoth com (fun u sd i _ _ => hidx sd)
  · -- valRd
    intro i h1
    rw [hver] at h1
    cases hsd : g.sd with
    | push =>
      obtain ⟨_, _, p3, p4⟩ := hpush hsd
      have hns : ¬ (g.slot c 0 ≤ slotOf c i ∧ slotOf c i < g.slot c g.n) := by
        intro h3
        obtain ⟨k, hk, e⟩ := slotT _ h3
        obtain ⟨_, t2, _, t4⟩ := tk k hk
        rw [e, t4, ← t2, hsd] at h1
        exact expVer_parity c _ _ h1
      have hnt : ¬ segTk g 0 .push i := by
        intro h3
        obtain ⟨k, hk, rfl, _⟩ := inT _ _ h3
        apply hns; rw [← (tk k hk).1]; simp only [Seg.slot]; omega
      rw [p3 i hnt, p4 _ hns]; exact hI.valRd i h1
    | pop =>
      obtain ⟨p1, p2, _, _⟩ := hpop hsd
      rw [p1, p2]; exact hI.valRd i h1
  · -- valWr
    intro a i h1
    by_cases ha : a = t
    · subst ha
      have h2 := (hd .push i).1 h1
      obtain ⟨k, hk, rfl, hsd⟩ := inT _ _ h2
      rw [← (tk k hk).1]; exact (hpush hsd.symm).2.1 k hk
    · have h2 := (hdone a .push i ha).1 h1
      have h3 := cbDone_crit c _ (hI.wf a) .push i h2
      have hns : ¬ (g.slot c 0 ≤ slotOf c i ∧ slotOf c i < g.slot c g.n) :=
        fun h4 => ha (other_crit a .push i h3.1 h3.2 h4).1
      cases hsd : g.sd with
      | push =>
        obtain ⟨_, _, p3, p4⟩ := hpush hsd
        have hnt : ¬ segTk g 0 .push i := by
          intro h5
          obtain ⟨k, hk, rfl, _⟩ := inT _ _ h5
          apply hns; rw [← (tk k hk).1]; simp only [Seg.slot]; omega
        rw [p3 i hnt, p4 _ hns]; exact hI.valWr a i h2
      | pop =>
        obtain ⟨p1, p2, _, _⟩ := hpop hsd
        rw [p1, p2]; exact hI.valWr a i h2
  · -- popPush
    intro i v h1
    cases hsd : g.sd with
    | push =>
      obtain ⟨p1, _, p3, _⟩ := hpush hsd
      rw [p1] at h1
      have h2 := hI.popPush i v h1
      have hnt : ¬ segTk g 0 .push i := by
        intro h5
        have := hI.ghostNone t .push i (hheld0 _ _ h5) (hd0 _ _)
        simp only [State.ghostV] at this; rw [this] at h2; cases h2
      rw [p3 i hnt]; exact h2
    | pop =>
      obtain ⟨p1, p2, p3, p4⟩ := hpop hsd
      rw [p1]
      by_cases hin : segTk g 0 .pop i
      · obtain ⟨k, hk, rfl, _⟩ := inT _ _ hin
        rw [p3 k hk] at h1
        obtain ⟨t1, t2, _, t4⟩ := tk k hk
        rw [hsd] at t2
        have := hI.valRd (g.idx + k) (by rw [t4, t2])
        rw [this, ← t1]; exact h1
      · rw [p4 i hin] at h1; exact hI.popPush i v h1
  · -- ghostDef
    intro sd i h1 h2
    rw [hidx] at h1
    by_cases hin : segTk g 0 sd i
    · exact gset sd i hin
    · rw [gsame sd i hin]
      apply hI.ghostDef sd i h1
      intro a ha
      have h3 := h2 a ((hheld a sd i).2 ha)
      by_cases hat : a = t
      · subst hat; exact absurd ((hd sd i).1 h3) hin
      · exact (hdone a sd i hat).1 h3
  · -- ghostLt
    intro sd i h1
    rw [hidx]
    by_cases hin : segTk g 0 sd i
    · exact (hI.heldLt t sd i (hheld0 sd i hin)).1
    · rw [gsame sd i hin] at h1; exact hI.ghostLt sd i h1
  · -- ghostNone
    intro a sd i h1 h2
    have h1' := (hheld a sd i).1 h1
    by_cases hin : segTk g 0 sd i
    · have := hI.uniq a t sd i h1' (hheld0 sd i hin)
      subst this; exact absurd ((hd sd i).2 hin) h2
    · rw [gsame sd i hin]
      apply hI.ghostNone a sd i h1'
      by_cases hat : a = t
      · subst hat; exact hd0 sd i
      · exact fun h3 => h2 ((hdone a sd i hat).2 h3)
  · intro a sd i h1; exact hI.heldGe a sd i ((hheld a sd i).1 h1)

end
end Babylon.BQ
