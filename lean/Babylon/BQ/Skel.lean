/-
  The atomic skeletons (operations, their order, memory orders, notable calls), memory-order lists and
  template flags of the source functions this model was written against.  `Properties/C01.lean` and
  `Properties/C02.lean` compare them with what gen/bq.py extracts from the current /repo source
  (`Babylon.Gen.BQ.*`): a changed, added, removed or re-ordered atomic operation, fence or memory
  order in bounded_queue.hpp stops the `gen_*` obligations from checking.
  In `skel_version`, `skel_wait`, `skel_set_version`, `skel_block_slow`, `skel_spin_slow` the order
  `.sc` stands for "the `order` parameter" (no literal in the source); the literal orders handed in
  by the callers are the `ords_*` lists.
-/
import Babylon.Core.Skel
namespace Babylon.BQ.Skel
open Babylon.Core

def version : List Site := [
  .load "_futex.value()" .sc
]
def wait : List Site := [
  .load "_futex.value()" .sc,
  .call "block_until_reach_expected_version_slow",
  .call "spin_until_reach_expected_version_slow"
]
def set_version : List Site := [
  .store "_futex.value())" .sc
]
def wakeup_waiters : List Site := [
  .load "_futex.value()" .rlx,
  .cas "_futex.value()" true .rlx .rlx,
  .call "wake_all"
]
def set_version_and_wakeup : List Site := [
  .xchg "_futex.value()" .rel,
  .call "wake_all"
]
def block_slow : List Site := [
  .call "GetCurrentTimeNanos",
  .cas "_futex.value()" true .sc .sc,
  .call "_futex.wait",
  .load "_futex.value()" .sc,
  .call "GetCurrentTimeNanos"
]
def spin_slow : List Site := [
  .call "GetCurrentTimeNanos",
  .call "S::usleep",
  .load "_futex.value()" .sc,
  .call "GetCurrentTimeNanos"
]
def size : List Site := [
  .load "_next_pop_index" .rlx,
  .load "_next_push_index" .rlx
]
def push : List Site := [
  .rmw "fetch_add" "_next_push_index" .rlx,
  .load "_next_push_index" .rlx,
  .store "_next_push_index" .rlx,
  .call "deal"
]
def pop : List Site := [
  .rmw "fetch_add" "_next_pop_index" .rlx,
  .load "_next_pop_index" .rlx,
  .store "_next_pop_index" .rlx,
  .call "deal"
]
def push_n : List Site := [
  .rmw "fetch_add" "_next_push_index" .rlx,
  .load "_next_push_index" .rlx,
  .store "_next_push_index" .rlx,
  .call "deal_n_continuously",
  .call "deal_n_continuously",
  .call "deal_n_continuously"
]
def pop_n : List Site := [
  .rmw "fetch_add" "_next_pop_index" .rlx,
  .load "_next_pop_index" .rlx,
  .store "_next_pop_index" .rlx,
  .call "deal_n_continuously",
  .call "deal_n_continuously",
  .call "deal_n_continuously"
]
def try_push_n : List Site := [
  .load "_next_push_index" .rlx,
  .call "try_deal_n_continuously",
  .call "try_deal_n_continuously",
  .call "try_deal_n_continuously"
]
def try_pop_n : List Site := [
  .load "_next_pop_index" .rlx,
  .call "try_deal_n_continuously",
  .call "try_deal_n_continuously",
  .call "try_deal_n_continuously"
]
def cpush_n : List Site := [
  .rmw "fetch_add" "_next_push_index" .rlx,
  .call "deal_n_continuously",
  .call "deal_n_continuously",
  .call "deal_n_continuously"
]
def cpop_n : List Site := [
  .rmw "fetch_add" "_next_pop_index" .rlx,
  .call "deal_n_continuously",
  .call "deal_n_continuously",
  .call "deal_n_continuously"
]
def timed_pop_n : List Site := [
  .load "_next_pop_index" .rlx,
  .call "wait_until_reach_expected_version",
  .call "try_pop_n"
]
def deal : List Site := [
  .call "wait_until_reach_expected_version",
  .call "callback",
  .call "set_version_and_wakeup_waiters",
  .call "set_version"
]
def try_deal : List Site := [
  .load "next_index" .rlx,
  .call "version",
  .load "next_index" .rlx,
  .cas "next_index" false .rlx .rlx,
  .store "next_index" .rlx,
  .call "callback",
  .call "set_version_and_wakeup_waiters",
  .call "set_version"
]
def deal_n : List Site := [
  .call "wait_until_reach_expected_version",
  .fence .acq,
  .call "mark_tsan_acquire",
  .call "callback",
  .fence .rel,
  .call "mark_tsan_release",
  .call "set_version",
  .fence .sc,
  .call "wakeup_waiters"
]
def deal_n_comp : List Site := [
  .call "version",
  .load "_next_pop_index" .rlx,
  .load "_next_push_index" .rlx,
  .call "try_pop_n",
  .call "try_push_n",
  .call "S::yield",
  .fence .acq,
  .call "mark_tsan_acquire",
  .call "callback",
  .fence .rel,
  .call "mark_tsan_release",
  .call "set_version"
]
def try_deal_n : List Site := [
  .call "version",
  .cas "next_index" true .rlx .rlx,
  .store "next_index" .rlx,
  .fence .acq,
  .call "mark_tsan_acquire",
  .call "callback",
  .fence .rel,
  .call "mark_tsan_release",
  .call "set_version",
  .fence .sc,
  .call "wakeup_waiters"
]
def ords_deal : List Ord := [.acq, .rel]
def ords_try_deal : List Ord := [.rlx, .acq, .rlx, .rlx, .rlx, .rel]
def ords_deal_n : List Ord := [.rlx, .acq, .rel, .rlx, .sc]
def ords_deal_n_comp : List Ord := [.rlx, .rlx, .rlx, .acq, .rel, .rlx]
def ords_try_deal_n : List Ord := [.rlx, .rlx, .rlx, .acq, .rel, .rlx, .sc]
def ords_timed_pop_n : List Ord := [.rlx, .rlx]
def defaultFlags : List (String × List Bool) := [("push", [true, true, true]), ("try_push", [true, true, true]), ("push_n", [true, true, true]), ("pop", [true, true, true]), ("try_pop", [true, true]), ("pop_n", [true, true, true])]
def compFlags : List Bool := [true, false, true, false]
def timedFlags : List Bool := [true, false]
end Babylon.BQ.Skel
