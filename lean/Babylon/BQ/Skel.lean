/-
  The atomic skeletons (operations, their order, memory orders, notable calls), memory-order lists and
  template flags of the source functions this model was written against.  `Properties/C01.lean` and
  `Properties/C02.lean` compare them with what gen/bq.py extracts from the current /repo source
  (`Babylon.Gen.BQ.*`): a changed, added, removed or re-ordered atomic operation, fence or memory
  order in bounded_queue.hpp stops the `gen_*` obligations from checking.
  In `skel_version`, `skel_wait`, `skel_set_version`, `skel_block_slow`, `skel_spin_slow` the order
  `.sc` stands for "the `order` parameter" (no literal in the source); the literal orders handed in
  by the callers are the `ords_*` lists.
-/
import Babylon.Core.Skel
namespace Babylon.BQ.Skel
open Babylon.Core

def version : List Site := [
  .load "_futex.value()" .sc
]
def wait : List Site := [
  .load "_futex.value()" .sc,
  .call "block_until_reach_expected_version_slow",
  .call "spin_until_reach_expected_version_slow"
]
def set_version : List Site := [
  .store "_futex.value())" .sc
]
def wakeup_waiters : List Site := [
  .load "_futex.value()" .rlx,
  .cas "_futex.value()" true .rlx .rlx,
  .call "wake_all"
]
def set_version_and_wakeup : List Site := [
  .xchg "_futex.value()" .rel,
  .call "wake_all"
]
def block_slow : List Site := [
  .call "GetCurrentTimeNanos",
  .cas "_futex.value()" true .sc .sc,
  .call "_futex.wait",
  .load "_futex.value()" .sc,
  .call "GetCurrentTimeNanos"
]
def spin_slow : List Site := [
  .call "GetCurrentTimeNanos",
  .call "S::usleep",
  .load "_futex.value()" .sc,
  .call "GetCurrentTimeNanos"
]
def size : List Site := [
  .load "_next_pop_index" .rlx,
  .load "_next_push_index" .rlx
]
def push : List Site := [
  .rmw "fetch_add" "_next_push_index" .rlx,
  .load "_next_push_index" .rlx,
  .store "_next_push_index" .rlx,
  .call "deal"
]
def pop : List Site := [
  .rmw "fetch_add" "_next_pop_index" .rlx,
  .load "_next_pop_index" .rlx,
  .store "_next_pop_index" .rlx,
  .call "deal"
]
def push_n : List Site := [
  .rmw "fetch_add" "_next_push_index" .rlx,
  .load "_next_push_index" .rlx,
  .store "_next_push_index" .rlx,
  .call "deal_n_continuously",
  .call "deal_n_continuously",
  .call "deal_n_continuously"
]
def pop_n : List Site := [
  .rmw "fetch_add" "_next_pop_index" .rlx,
  .load "_next_pop_index" .rlx,
  .store "_next_pop_index" .rlx,
  .call "deal_n_continuously",
  .call "deal_n_continuously",
  .call "deal_n_continuously"
]
def try_push_n : List Site := [
  .load "_next_push_index" .rlx,
  .call "try_deal_n_continuously",
  .call "try_deal_n_continuously",
  .call "try_deal_n_continuously"
]
def try_pop_n : List Site := [
  .load "_next_pop_index" .rlx,
  .call "try_deal_n_continuously",
  .call "try_deal_n_continuously",
  .call "try_deal_n_continuously"
]
def cpush_n : List Site := [
  .rmw "fetch_add" "_next_push_index" .rlx,
  .call "deal_n_continuously",
  .call "deal_n_continuously",
  .call "deal_n_continuously"
]
def cpop_n : List Site := [
  .rmw "fetch_add" "_next_pop_index" .rlx,
  .call "deal_n_continuously",
  .call "deal_n_continuously",
  .call "deal_n_continuously"
]
def timed_pop_n : List Site := [
  .load "_next_pop_index" .rlx,
  .call "wait_until_reach_expected_version",
  .call "try_pop_n"
]
def deal : List Site := [
  .call "wait_until_reach_expected_version",
  .call "callback",
  .call "set_version_and_wakeup_waiters",
  .call "set_version"
]
def try_deal : List Site := [
  .load "next_index" .rlx,
  .call "version",
  .load "next_index" .rlx,
  .cas "next_index" false .rlx .rlx,
  .store "next_index" .rlx,
  .call "callback",
  .call "set_version_and_wakeup_waiters",
  .call "set_version"
]
def deal_n : List Site := [
  .call "wait_until_reach_expected_version",
  .fence .acq,
  .call "mark_tsan_acquire",
  .call "callback",
  .fence .rel,
  .call "mark_tsan_release",
  .call "set_version",
  .fence .sc,
  .call "wakeup_waiters"
]
def deal_n_comp : List Site := [
  .call "version",
  .load "_next_pop_index" .rlx,
  .load "_next_push_index" .rlx,
  .call "try_pop_n",
  .call "try_push_n",
  .call "S::yield",
  .fence .acq,
  .call "mark_tsan_acquire",
  .call "callback",
  .fence .rel,
  .call "mark_tsan_release",
  .call "set_version"
]
def try_deal_n : List Site := [
  .call "version",
  .cas "next_index" true .rlx .rlx,
  .store "next_index" .rlx,
  .fence .acq,
  .call "mark_tsan_acquire",
  .call "callback",
  .fence .rel,
  .call "mark_tsan_release",
  .call "set_version",
  .fence .sc,
  .call "wakeup_waiters"
]
def ords_deal : List Ord := [.acq, .rel]
def ords_try_deal : List Ord := [.rlx, .acq, .rlx, .rlx, .rlx, .rel]
def ords_deal_n : List Ord := [.rlx, .acq, .rel, .rlx, .sc]
def ords_deal_n_comp : List Ord := [.rlx, .rlx, .rlx, .acq, .rel, .rlx]
def ords_try_deal_n : List Ord := [.rlx, .rlx, .rlx, .acq, .rel, .rlx, .sc]
def ords_timed_pop_n : List Ord := [.rlx, .rlx]
def defaultFlags : List (String × List Bool) := [("push", [true, true, true]), ("try_push", [true, true, true]), ("push_n", [true, true, true]), ("pop", [true, true, true]), ("try_pop", [true, true]), ("pop_n", [true, true, true])]
def compFlags : List Bool := [true, false, true, false]
def timedFlags : List Bool := [true, false]

/- whitespace-free source text (signature types + body) the model was written against; compared by the
`gen_src_*` obligations with what gen/bq.py extracts from the current source -/
namespace Pinned
def decl_slotfutex : String := "classSlotFutex{public:inlineuint16_tversion(::std::memory_orderorder)constnoexcept;template<boolUSE_FUTEX_WAIT>inlinevoidwait_until_reach_expected_version(uint16_texpected_version,conststruct::timespec*timeout,::std::memory_orderorder)noexcept;inlinevoidset_version(uint16_tversion,::std::memory_orderorder)noexcept;inlinevoidwakeup_waiters(uint16_tcurrent_version)noexcept;inlinevoidset_version_and_wakeup_waiters(uint16_tnext_version)noexcept;inlinevoidreset()noexcept;inlinevoidmark_tsan_acquire()noexcept;inlinevoidmark_tsan_release()noexcept;private:voidblock_until_reach_expected_version_slow(uint32_tcurrent_version_and_waiters,uint16_texpected_version,conststruct::timespec*timeout,::std::memory_orderorder)noexcept;voidspin_until_reach_expected_version_slow(uint32_tcurrent_version_and_waiters,uint16_texpected_version,conststruct::timespec*timeout,::std::memory_orderorder)noexcept;Futex<S>_futex{0};};"
def decl_version_for_index : String := "inlineuint16_tpush_version_for_index(size_tindex)noexcept;inlineuint16_tpop_version_for_index(size_tindex)noexcept;"
def version : String := "template<typenameT,typenameS>inlineuint16_tConcurrentBoundedQueue<T,S>::SlotFutex::version(::std::memory_orderorder)constnoexcept{return_futex.value().load(order);}"
def wait : String := "template<typenameT,typenameS>template<boolUSE_FUTEX_WAIT>inlinevoidConcurrentBoundedQueue<T,S>::SlotFutex::wait_until_reach_expected_version(uint16_texpected_version,conststruct::timespec*timeout,::std::memory_orderorder)noexcept{autocurrent_version_and_waiters=_futex.value().load(order);uint16_tversion=current_version_and_waiters;if(version==expected_version){return;}if(USE_FUTEX_WAIT){block_until_reach_expected_version_slow(current_version_and_waiters,expected_version,timeout,order);}else{spin_until_reach_expected_version_slow(current_version_and_waiters,expected_version,timeout,order);}}"
def set_version : String := "template<typenameT,typenameS>inlinevoidConcurrentBoundedQueue<T,S>::SlotFutex::set_version(uint16_tversion,::std::memory_orderorder)noexcept{reinterpret_cast<::std::atomic<uint16_t>*>(&_futex.value())->store(version,order);}"
def wakeup_waiters : String := "template<typenameT,typenameS>inlinevoidConcurrentBoundedQueue<T,S>::SlotFutex::wakeup_waiters(uint16_tcurrent_version)noexcept{autocurrent_version_and_waiters=_futex.value().load(::std::memory_order_relaxed);if(current_version_and_waiters<=(65535)){return;}uint16_tversion=current_version_and_waiters;if(version!=current_version){return;}if(_futex.value().compare_exchange_strong(current_version_and_waiters,version,::std::memory_order_relaxed)){_futex.wake_all();}}"
def set_version_and_wakeup : String := "template<typenameT,typenameS>inlinevoidConcurrentBoundedQueue<T,S>::SlotFutex::set_version_and_wakeup_waiters(uint16_tnext_version)noexcept{autocurrent_version_and_waiters=_futex.value().exchange(next_version,::std::memory_order_release);if(current_version_and_waiters<=(65535)){return;}_futex.wake_all();}"
def block_slow : String := "template<typenameT,typenameS>__attribute__((noinline))voidConcurrentBoundedQueue<T,S>::SlotFutex::block_until_reach_expected_version_slow(uint32_tcurrent_version_and_waiters,uint16_texpected_version,conststruct::timespec*timeout,::std::memory_orderorder)noexcept{int64_tbegin_time_ns=timeout!=nullptr?::absl::GetCurrentTimeNanos():0;struct::timespecmodified_timeout;uint16_tversion=current_version_and_waiters;while(true){if(current_version_and_waiters<=(65535)){autowait_version_and_waiters=current_version_and_waiters+(65535)+1;if(!_futex.value().compare_exchange_strong(current_version_and_waiters,wait_version_and_waiters,order)){version=current_version_and_waiters;if(version==expected_version){break;}continue;}current_version_and_waiters=wait_version_and_waiters;}(*__errno_location())=0;_futex.wait(current_version_and_waiters,timeout);if((*__errno_location())==110){break;}current_version_and_waiters=_futex.value().load(order);version=current_version_and_waiters;if(version==expected_version){break;}if(timeout!=nullptr){int64_tend_time_ns=::absl::GetCurrentTimeNanos();autowait_duration=::absl::DurationFromTimespec(*timeout);wait_duration-=::absl::Nanoseconds(end_time_ns-begin_time_ns);if(wait_duration<=::absl::Nanoseconds(0)){break;}modified_timeout=::absl::ToTimespec(wait_duration);timeout=&modified_timeout;}}}"
def spin_slow : String := "template<typenameT,typenameS>__attribute__((noinline))voidConcurrentBoundedQueue<T,S>::SlotFutex::spin_until_reach_expected_version_slow(uint32_tcurrent_version_and_waiters,uint16_texpected_version,conststruct::timespec*timeout,::std::memory_orderorder)noexcept{int64_tbegin_time_ns=timeout!=nullptr?::absl::GetCurrentTimeNanos():0;int64_tend_time_ns=begin_time_ns+(timeout!=nullptr?::absl::ToInt64Nanoseconds(::absl::DurationFromTimespec(*timeout)):0);while(true){S::usleep(1000);current_version_and_waiters=_futex.value().load(order);uint16_tversion=current_version_and_waiters;if(version==expected_version){break;}if(timeout!=nullptr){int64_ttime_ns=::absl::GetCurrentTimeNanos();if(time_ns>end_time_ns){break;}}}}"
def push_version_for_index : String := "template<typenameT,typenameS>inlineuint16_tConcurrentBoundedQueue<T,S>::push_version_for_index(size_tindex)noexcept{return(index>>_slot_bits)<<1;}"
def pop_version_for_index : String := "template<typenameT,typenameS>inlineuint16_tConcurrentBoundedQueue<T,S>::pop_version_for_index(size_tindex)noexcept{returnpush_version_for_index(index)+1;}"
def push_n : String := "template<typenameT,typenameS>template<boolCONCURRENT,boolUSE_FUTEX_WAIT,boolUSE_FUTEX_WAKE,typenameC,typename>inlinevoidConcurrentBoundedQueue<T,S>::push_n(C&&callback,size_tnum){autoindex=CONCURRENT?_next_push_index.fetch_add(num,::std::memory_order_relaxed):_next_push_index.load(::std::memory_order_relaxed);if(!CONCURRENT){_next_push_index.store(index+num,::std::memory_order_relaxed);}autonext_round_begin_index=(index+_slot_mask+1)&~_slot_mask;if(index+num<=next_round_begin_index){deal_n_continuously<USE_FUTEX_WAIT,USE_FUTEX_WAKE,true>(::std::forward<C>(callback),index,num);}else{deal_n_continuously<USE_FUTEX_WAIT,USE_FUTEX_WAKE,true>(::std::forward<C>(callback),index,next_round_begin_index-index);deal_n_continuously<USE_FUTEX_WAIT,USE_FUTEX_WAKE,true>(::std::forward<C>(callback),next_round_begin_index,index+num-next_round_begin_index);}}"
def pop_n : String := "template<typenameT,typenameS>template<boolCONCURRENT,boolUSE_FUTEX_WAIT,boolUSE_FUTEX_WAKE,typenameC,typename>inlinevoidConcurrentBoundedQueue<T,S>::pop_n(C&&callback,size_tnum){autoindex=CONCURRENT?_next_pop_index.fetch_add(num,::std::memory_order_relaxed):_next_pop_index.load(::std::memory_order_relaxed);if(!CONCURRENT){_next_pop_index.store(index+num,::std::memory_order_relaxed);}autonext_round_begin_index=(index+_slot_mask+1)&~_slot_mask;if(index+num<=next_round_begin_index){deal_n_continuously<USE_FUTEX_WAIT,USE_FUTEX_WAKE,false>(::std::forward<C>(callback),index,num);}else{deal_n_continuously<USE_FUTEX_WAIT,USE_FUTEX_WAKE,false>(::std::forward<C>(callback),index,next_round_begin_index-index);deal_n_continuously<USE_FUTEX_WAIT,USE_FUTEX_WAKE,false>(::std::forward<C>(callback),next_round_begin_index,index+num-next_round_begin_index);}}"
def try_push_n : String := "template<typenameT,typenameS>template<boolCONCURRENT,boolUSE_FUTEX_WAKE,typenameC,typename>inlinesize_tConcurrentBoundedQueue<T,S>::try_push_n(C&&callback,size_tnum){autoindex=_next_push_index.load(::std::memory_order_relaxed);autoend_index=index+num;autonext_round_begin_index=(index+_slot_mask+1)&~_slot_mask;if(end_index<=next_round_begin_index){returntry_deal_n_continuously<CONCURRENT,USE_FUTEX_WAKE,true>(::std::forward<C>(callback),index,end_index-index);}else{size_tcontinuous_num=next_round_begin_index-index;size_tpushed=try_deal_n_continuously<CONCURRENT,USE_FUTEX_WAKE,true>(::std::forward<C>(callback),index,continuous_num);if(pushed<continuous_num){returnpushed;}returnpushed+try_deal_n_continuously<CONCURRENT,USE_FUTEX_WAKE,true>(::std::forward<C>(callback),next_round_begin_index,end_index-next_round_begin_index);}}"
def try_pop_n : String := "template<typenameT,typenameS>template<boolCONCURRENT,boolUSE_FUTEX_WAKE,typenameC,typename>inlinesize_tConcurrentBoundedQueue<T,S>::try_pop_n(C&&callback,size_tnum){autoindex=_next_pop_index.load(::std::memory_order_relaxed);autoend_index=index+num;autonext_round_begin_index=(index+_slot_mask+1)&~_slot_mask;if(end_index<=next_round_begin_index){returntry_deal_n_continuously<CONCURRENT,USE_FUTEX_WAKE,false>(::std::forward<C>(callback),index,end_index-index);}else{size_tcontinuous_num=next_round_begin_index-index;size_tpoped=try_deal_n_continuously<CONCURRENT,USE_FUTEX_WAKE,false>(::std::forward<C>(callback),index,continuous_num);if(poped<continuous_num){returnpoped;}returnpoped+try_deal_n_continuously<CONCURRENT,USE_FUTEX_WAKE,false>(::std::forward<C>(callback),next_round_begin_index,end_index-next_round_begin_index);}}"
def cpush_n : String := "template<typenameT,typenameS>template<typenameC,typenameRC>inlinevoidConcurrentBoundedQueue<T,S>::push_n(C&&callback,RC&&reverse_callback,size_tnum){autoindex=_next_push_index.fetch_add(num,::std::memory_order_relaxed);autonext_round_begin_index=(index+_slot_mask+1)&~_slot_mask;if(index+num<=next_round_begin_index){deal_n_continuously<true>(callback,reverse_callback,index,num);}else{deal_n_continuously<true>(callback,reverse_callback,index,next_round_begin_index-index);deal_n_continuously<true>(callback,reverse_callback,next_round_begin_index,index+num-next_round_begin_index);}}"
def cpop_n : String := "template<typenameT,typenameS>template<typenameC,typenameRC>inlinevoidConcurrentBoundedQueue<T,S>::pop_n(C&&callback,RC&&reverse_callback,size_tnum){autoindex=_next_pop_index.fetch_add(num,::std::memory_order_relaxed);autonext_round_begin_index=(index+_slot_mask+1)&~_slot_mask;if(index+num<=next_round_begin_index){deal_n_continuously<false>(callback,reverse_callback,index,num);}else{deal_n_continuously<false>(callback,reverse_callback,index,next_round_begin_index-index);deal_n_continuously<false>(callback,reverse_callback,next_round_begin_index,index+num-next_round_begin_index);}}"
def timed_pop_n : String := "template<typenameT,typenameS>template<boolUSE_FUTEX_WAKE,typenameC,typename>inlinesize_tConcurrentBoundedQueue<T,S>::try_pop_n_exclusively_until(C&&callback,size_tnum,conststruct::timespec*timeout)noexcept{autoindex=_next_pop_index.load(::std::memory_order_relaxed)+num;autoexpected_version=pop_version_for_index(index);autoslot_index=index&_slot_mask;auto&futex=_slots.futex(slot_index);futex.templatewait_until_reach_expected_version<true>(expected_version,timeout,::std::memory_order_relaxed);returntry_pop_n<false,USE_FUTEX_WAKE>(::std::forward<C>(callback),num);}"
def deal : String := "template<typenameT,typenameS>template<boolUSE_FUTEX_WAIT,boolUSE_FUTEX_WAKE,boolPUSH_OR_POP,typenameC>inlinevoidConcurrentBoundedQueue<T,S>::deal(C&&callback,size_tindex)noexcept{autoexpected_version=PUSH_OR_POP?push_version_for_index(index):pop_version_for_index(index);autoslot_index=index&_slot_mask;auto&futex=_slots.futex(slot_index);futex.templatewait_until_reach_expected_version<USE_FUTEX_WAIT>(expected_version,nullptr,::std::memory_order_acquire);callback(_slots.value(slot_index));if(USE_FUTEX_WAKE){futex.set_version_and_wakeup_waiters(expected_version+1);}else{futex.set_version(expected_version+1,::std::memory_order_release);}}"
def try_deal : String := "template<typenameT,typenameS>template<boolCONCURRENT,boolUSE_FUTEX_WAKE,boolPUSH_OR_POP,typenameC>inlineboolConcurrentBoundedQueue<T,S>::try_deal(C&&callback)noexcept{auto&next_index=PUSH_OR_POP?_next_push_index:_next_pop_index;autoindex=next_index.load(::std::memory_order_relaxed);while(true){autoexpected_version=PUSH_OR_POP?push_version_for_index(index):pop_version_for_index(index);autoslot_index=index&_slot_mask;auto&futex=_slots.futex(slot_index);if(expected_version!=futex.version(::std::memory_order_acquire)){autocurrent_index=next_index.load(::std::memory_order_relaxed);if(current_index==index){returnfalse;}index=current_index;continue;}ifconstexpr(CONCURRENT){if(!next_index.compare_exchange_weak(index,index+1,::std::memory_order_relaxed)){continue;}}else{next_index.store(index+1,::std::memory_order_relaxed);}callback(_slots.value(slot_index));if(USE_FUTEX_WAKE){futex.set_version_and_wakeup_waiters(expected_version+1);}else{futex.set_version(expected_version+1,::std::memory_order_release);}returntrue;}}"
def deal_n : String := "template<typenameT,typenameS>template<boolUSE_FUTEX_WAIT,boolUSE_FUTEX_WAKE,boolPUSH_OR_POP,typenameC>inlinevoidConcurrentBoundedQueue<T,S>::deal_n_continuously(C&&callback,size_tindex,size_tnum)noexcept{autoexpected_version=PUSH_OR_POP?push_version_for_index(index):pop_version_for_index(index);autoslot_index=index&_slot_mask;for(size_ti=0;i<num;++i){_slots.futex(slot_index+i).templatewait_until_reach_expected_version<USE_FUTEX_WAIT>(expected_version,nullptr,::std::memory_order_relaxed);}::std::atomic_thread_fence(::std::memory_order_acquire);for(size_ti=0;i<num;++i){_slots.futex(slot_index+i).mark_tsan_acquire();}callback(_slots.value_iterator(slot_index),_slots.value_iterator(slot_index+num));::std::atomic_thread_fence(::std::memory_order_release);for(size_ti=0;i<num;++i){_slots.futex(slot_index+i).mark_tsan_release();}for(size_ti=0;i<num;++i){_slots.futex(slot_index+i).set_version(expected_version+1,::std::memory_order_relaxed);}if(USE_FUTEX_WAKE){::std::atomic_thread_fence(::std::memory_order_seq_cst);for(size_ti=0;i<num;++i){_slots.futex(slot_index+i).wakeup_waiters(expected_version+1);}}}"
def deal_n_comp : String := "template<typenameT,typenameS>template<boolPUSH_OR_POP,typenameC,typenameRC>inlinevoidConcurrentBoundedQueue<T,S>::deal_n_continuously(C&&callback,RC&&reverse_callback,size_tindex,size_tnum)noexcept{autoexpected_version=PUSH_OR_POP?push_version_for_index(index):pop_version_for_index(index);autoslot_index=index&_slot_mask;for(size_ti=0;i<num;++i){while(expected_version!=_slots.futex(slot_index+i).version(::std::memory_order_relaxed)){autoneed_index=PUSH_OR_POP?_next_pop_index.load(::std::memory_order_relaxed)+capacity():_next_push_index.load(::std::memory_order_relaxed);if(need_index<=index+num){if(PUSH_OR_POP){try_pop_n<true,false>(::std::forward<RC>(reverse_callback),1);}else{try_push_n<true,false>(::std::forward<RC>(reverse_callback),1);}}else{S::yield();}}}::std::atomic_thread_fence(::std::memory_order_acquire);for(size_ti=0;i<num;++i){_slots.futex(slot_index+i).mark_tsan_acquire();}callback(_slots.value_iterator(slot_index),_slots.value_iterator(slot_index+num));::std::atomic_thread_fence(::std::memory_order_release);for(size_ti=0;i<num;++i){_slots.futex(slot_index+i).mark_tsan_release();}for(size_ti=0;i<num;++i){_slots.futex(slot_index+i).set_version(expected_version+1,::std::memory_order_relaxed);}}"
def try_deal_n : String := "template<typenameT,typenameS>template<boolCONCURRENT,boolUSE_FUTEX_WAKE,boolPUSH_OR_POP,typenameC>inlinesize_tConcurrentBoundedQueue<T,S>::try_deal_n_continuously(C&&callback,size_tindex,size_tnum)noexcept{autoexpected_version=PUSH_OR_POP?push_version_for_index(index):pop_version_for_index(index);autoslot_index=index&_slot_mask;for(size_ti=0;i<num;++i){auto&futex=_slots.futex(slot_index+i);if(expected_version!=futex.version(::std::memory_order_relaxed)){num=i;break;}}if(num==0){return0;}auto&next_index=PUSH_OR_POP?_next_push_index:_next_pop_index;if(CONCURRENT){if(!next_index.compare_exchange_strong(index,index+num,::std::memory_order_relaxed)){return0;}}else{next_index.store(index+num,::std::memory_order_relaxed);}::std::atomic_thread_fence(::std::memory_order_acquire);for(size_ti=0;i<num;++i){_slots.futex(slot_index+i).mark_tsan_acquire();}callback(_slots.value_iterator(slot_index),_slots.value_iterator(slot_index+num));::std::atomic_thread_fence(::std::memory_order_release);for(size_ti=0;i<num;++i){_slots.futex(slot_index+i).mark_tsan_release();}for(size_ti=0;i<num;++i){_slots.futex(slot_index+i).set_version(expected_version+1,::std::memory_order_relaxed);}if(USE_FUTEX_WAKE){::std::atomic_thread_fence(::std::memory_order_seq_cst);for(size_ti=0;i<num;++i){_slots.futex(slot_index+i).wakeup_waiters(expected_version+1);}}returnnum;}"
def sched_futex_wait : String := "inlineintSchedInterface::futex_wait(uint32_t*futex,uint32_tval,conststruct::timespec*timeout)noexcept{return::syscall(202,futex,(0|128),val,timeout);}"
def sched_futex_wake_one : String := "inlineintSchedInterface::futex_wake_one(uint32_t*futex)noexcept{return::syscall(202,futex,(1|128),1);}"
def sched_futex_wake_all : String := "inlineintSchedInterface::futex_wake_all(uint32_t*futex)noexcept{return::syscall(202,futex,(1|128),(2147483647));}"
def sched_usleep : String := "inlinevoidSchedInterface::usleep(useconds_tus)noexcept{::usleep(us);}"
def sched_yield : String := "inlinevoidSchedInterface::yield()noexcept{::sched_yield();}"
def futex_wait : String := "{returnS::futex_wait(&_value,val,timeout);}"
def futex_wake_all : String := "{returnS::futex_wake_all(&_value);}"
def push : String := "{autoindex=CONCURRENT?_next_push_index.fetch_add(1,::std::memory_order_relaxed):_next_push_index.load(::std::memory_order_relaxed);if(!CONCURRENT){_next_push_index.store(index+1,::std::memory_order_relaxed);}deal<USE_FUTEX_WAIT,USE_FUTEX_WAKE,true>(::std::forward<C>(callback),index);}"
def pop : String := "{autoindex=CONCURRENT?_next_pop_index.fetch_add(1,::std::memory_order_relaxed):_next_pop_index.load(::std::memory_order_relaxed);if(!CONCURRENT){_next_pop_index.store(index+1,::std::memory_order_relaxed);}deal<USE_FUTEX_WAIT,USE_FUTEX_WAKE,false>(::std::forward<C>(callback),index);}"
end Pinned

end Babylon.BQ.Skel
