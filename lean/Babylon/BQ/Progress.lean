/-
  Liveness in safety form (C02): stability of the awaited version, and the absence of a cyclic wait —
  whenever some thread is inside a blocking wait, the chain "the slot I wait for is the turn of a
  ticket held by …" ends in a thread that is not waiting, in a waiter whose awaited version is
  present, or in a ticket the client has not requested yet.
-/
import Babylon.BQ.WakeStep

namespace Babylon.BQ
open Babylon.Core Babylon.Gen.BQ

/-- versions never decrease -/
theorem step_ver_mono {c : Cfg} {y y' : Sys} (hI : Inv c y) (h : StepF c y y') (sl : Nat) : y.s.ver sl ≤ y'.s.ver sl := by
  obtain ⟨hstep, hf⟩ := h
  cases hstep with
  | act t inp s' l hs =>
    have hsum := step_summary c y.s s' t inp l hs (hI.pre t) (hf t)
    cases hsum with
    | quiet hcore _ _ _ _ => show _ ≤ s'.ver sl; rw [hcore.ver]; exact Nat.le_refl _
    | acquire _ _ _ _ hver _ _ _ _ _ _ _ _ => show _ ≤ s'.ver sl; rw [hver]; exact Nat.le_refl _
    | release sd i hver _ _ _ _ _ _ hheld hlbE _ _ _ _ =>
      show _ ≤ s'.ver sl; rw [hver]; simp only [upd]; split
      · rename_i e; rw [e, hI.crit t sd i hheld hlbE]; omega
      · exact Nat.le_refl _
    | callback _ _ hcore _ _ _ _ _ _ _ _ _ _ => show _ ≤ s'.ver sl; rw [hcore.2.2]; exact Nat.le_refl _
  | call t k _ _ _ => exact Nat.le_refl _
  | ret t res _ => exact Nat.le_refl _
  | spuriousWake t x cur _ => exact Nat.le_refl _

/-- **guard stability**: the version a ticket holder waits for, once present, stays until the holder
itself releases the ticket -/
theorem guard_stable {c : Cfg} {y y' : Sys} (hy : ReachF c y) (h : StepF c y y') (t : Nat) (sd : Side) (i : Nat)
    (hv : y.s.ver (slotOf c i) = expVer c sd i) (hh' : (y'.s.pc t).held sd i) :
    y'.s.ver (slotOf c i) = expVer c sd i := by
  have hI := inv_reach hy
  have hI' := inv_reach (Reachable.tail hy h)
  have h1 := step_ver_mono hI h (slotOf c i)
  have h2 := (hI'.heldLt t sd i hh').2
  omega

/-! ### no cyclic wait -/
/-- slot and awaited version of a blocking (ticket-holding) wait -/
def Pc.waitingOn (c : Cfg) : Pc → Option (Nat × Nat)
  | .wait (.single sd i _ _) _ => some (slotOf c i, expVer c sd i)
  | .wait (.batch g j _ _ _) _ => some (g.slot c j, g.E c)
  | _ => none

theorem waiting_holds (c : Cfg) (p : Pc) (hw : p.wf c) (sl E : Nat) (h : p.waitingOn c = some (sl, E)) :
    (∃ sd i, p.held sd i ∧ slotOf c i = sl ∧ expVer c sd i = E) ∧
    (∀ sd i, p.held sd i → E ≤ expVer c sd i) := by
  cases p <;> simp only [Pc.waitingOn] at h <;> try (cases h; done)
  rename_i x w
  cases x with
  | single sd i wait wake =>
    simp only [Option.some.injEq, Prod.mk.injEq] at h
    obtain ⟨rfl, rfl⟩ := h
    refine ⟨⟨sd, i, ⟨rfl, rfl⟩, rfl, rfl⟩, ?_⟩
    rintro sd' i' ⟨rfl, rfl⟩; exact Nat.le_refl _
  | batch g j wait wake k =>
    simp only [Option.some.injEq, Prod.mk.injEq] at h
    obtain ⟨rfl, rfl⟩ := h
    have hw' : g.wf c ∧ j < g.n ∧ k.wf c g.sd (g.idx + g.n) ∧ k.isBlock := hw
    refine ⟨⟨g.sd, g.idx + j, Or.inl ⟨rfl, by omega, by omega⟩, (seg_slot c g hw'.1 j hw'.2.1).symm, seg_E c g hw'.1 j hw'.2.1⟩, ?_⟩
    intro sd' i' hh
    rcases hh with ⟨rfl, h2, h3⟩ | hh
    · have hk : i' - g.idx < g.n := by omega
      have := seg_E c g hw'.1 _ hk
      have e : g.idx + (i' - g.idx) = i' := by omega
      rw [e] at this; rw [this]; exact Nat.le_refl _
    · -- tickets of the second segment: next round of the same side
      cases k with
      | ret r => cases hh
      | block w2 k2 g2 =>
        have hk := hw'.2.2.1; simp only [K.wf] at hk
        obtain ⟨rfl, h2, h3⟩ := hh
        rw [hk.2.2.1]
        have hge : g.idx ≤ i' := by omega
        unfold Seg.E expVer
        have : g.idx / c.cap ≤ i' / c.cap := Nat.div_le_div_right hge
        omega
      | tryNext x g2 => exact absurd hw'.2.2.2 (by simp [K.isBlock])
      | comp g2 => exact absurd hw'.2.2.2 (by simp [K.isBlock])
      | back cc => exact absurd hw'.2.2.2 (by simp [K.isBlock])
  | timed wake i num a b => cases h

/-- the deal whose turn it is on slot `sl` at version `v` -/
def dealOf (c : Cfg) (sl v : Nat) : Side × Nat := (if v % 2 = 0 then .push else .pop, (v / 2) * c.cap + sl)

theorem dealOf_spec (c : Cfg) (sl v : Nat) (hsl : sl < c.cap) :
    slotOf c (dealOf c sl v).2 = sl ∧ expVer c (dealOf c sl v).1 (dealOf c sl v).2 = v := by
  have hc := cap_pos c
  simp only [dealOf, slotOf, expVer]
  have e1 : (v / 2 * c.cap + sl) % c.cap = sl := by
    rw [Nat.add_comm, Nat.add_mul_mod_self_right, Nat.mod_eq_of_lt hsl]
  have e2 : (v / 2 * c.cap + sl) / c.cap = v / 2 := by
    rw [Nat.add_comm, Nat.add_mul_div_right _ _ hc, Nat.div_eq_of_lt hsl]; omega
  refine ⟨e1, ?_⟩
  rw [e2]
  by_cases hpar : v % 2 = 0
  · rw [if_pos hpar]; show 2 * (v / 2) + 0 = v; omega
  · rw [if_neg hpar]; show 2 * (v / 2) + 1 = v; omega

/-- something can happen: a thread in the middle of an operation is not in a blocking wait, or a waiter's
awaited version is present, or a slot is ready for a ticket that no call has requested yet -/
def Progress (c : Cfg) (y : Sys) : Prop :=
  (∃ u, y.s.pc u ≠ .idle ∧ (y.s.pc u).waitingOn c = none) ∨
  (∃ u sl E, (y.s.pc u).waitingOn c = some (sl, E) ∧ y.s.ver sl = E) ∨
  (∃ sd i, y.s.idx sd ≤ i ∧ y.s.ver (slotOf c i) = expVer c sd i)

theorem no_cyclic_wait {c : Cfg} {y : Sys} (hI : Inv c y) :
    ∀ E t sl, (y.s.pc t).waitingOn c = some (sl, E) → Progress c y := by
  intro E
  induction E using Nat.strongRecOn with
  | _ E ih =>
    intro t sl hw
    obtain ⟨⟨sd, i, hh, hs, hE⟩, hmin⟩ := waiting_holds c _ (hI.wf t) sl E hw
    have hle := (hI.heldLt t sd i hh).2
    rw [hs, hE] at hle
    by_cases heq : y.s.ver sl = E
    · exact Or.inr (Or.inl ⟨t, sl, E, hw, heq⟩)
    · have hlt : y.s.ver sl < E := by omega
      have hsl : sl < c.cap := by rw [← hs]; exact slotOf_lt c i
      obtain ⟨d1, d2⟩ := dealOf_spec c sl (y.s.ver sl) hsl
      generalize hd : dealOf c sl (y.s.ver sl) = d at d1 d2
      obtain ⟨sd', i'⟩ := d
      simp only at d1 d2
      by_cases hiss : y.s.idx sd' ≤ i'
      · exact Or.inr (Or.inr ⟨sd', i', hiss, by rw [d1, d2]⟩)
      · have hlt' : i' < y.s.idx sd' := by omega
        by_cases hnone : ∀ u, ¬ (y.s.pc u).held sd' i'
        · have := hI.doneGt sd' i' hlt' hnone
          rw [d1, d2] at this; omega
        · have ⟨u, hu⟩ : ∃ u, (y.s.pc u).held sd' i' := by
            apply Classical.byContradiction; intro hcon; exact hnone (fun u hu => hcon ⟨u, hu⟩)
          cases hwu : (y.s.pc u).waitingOn c with
          | none =>
            left; refine ⟨u, ?_, hwu⟩
            intro hid; rw [hid] at hu; cases hu
          | some p =>
            obtain ⟨slu, Eu⟩ := p
            have := (waiting_holds c _ (hI.wf u) slu Eu hwu).2 sd' i' hu
            rw [d2] at this
            exact ih Eu (by omega) u slu hwu

/-- a thread that is inside an operation and not in a blocking (ticket-holding) wait can take a step:
the operation's next action is enabled (a timed sleeper by its timeout), or it returns -/
theorem active_enabled (c : Cfg) (y : Sys) (u : Nat) (hne : y.s.pc u ≠ .idle) (hw : (y.s.pc u).waitingOn c = none) :
    ∃ y', Step c y y' := by
  cases hp : y.s.pc u
  case idle => exact absurd hp hne
  case retd r => exact ⟨_, Step.ret y u r hp⟩
  case sCbE sd i wake res =>
    have : ∃ r, stepThread c y.s u { vals := [0] } = some r := by
      cases sd <;> simp [stepThread, hp]
    obtain ⟨⟨s', l⟩, h⟩ := this
    exact ⟨_, Step.act y u _ s' l h⟩
  case bCbE b =>
    have : ∃ r, stepThread c y.s u { vals := List.replicate b.g.n 0 } = some r := by
      cases hsd : b.g.sd <;> simp [stepThread, hp, hsd]
    obtain ⟨⟨s', l⟩, h⟩ := this
    exact ⟨_, Step.act y u _ s' l h⟩
  case wait x w =>
    cases x with
    | single sd i wt wk => rw [hp] at hw; simp [Pc.waitingOn] at hw
    | batch g j wt wk k => rw [hp] at hw; simp [Pc.waitingOn] at hw
    | timed wk i num a b =>
      have : ∃ r, stepThread c y.s u { timeout := true } = some r := by
        cases w <;> simp [stepThread, hp, WCtx.isTimed] <;> (try split) <;> simp
      obtain ⟨⟨s', l⟩, h⟩ := this
      exact ⟨_, Step.act y u _ s' l h⟩
  all_goals
    have : ∃ r, stepThread c y.s u {} = some r := by
      simp only [stepThread, hp]
      (repeat' split) <;> simp
    obtain ⟨⟨s', l⟩, h⟩ := this
    exact ⟨_, Step.act y u _ s' l h⟩

end Babylon.BQ
