/-
  Abstract specification of ConcurrentBoundedQueue for the properties that build on it
  (C07 executors, C10 garbage collector, C16 execution queue, C17 page allocators / object pool,
  C20 async appender): a multi-producer multi-consumer FIFO *with tickets*.

    state   tail / head : number of push / pop tickets handed out (the two dispensers)
            item k      : value stored under push ticket k   (none until its producer callback ends)
            taken k     : value delivered under pop ticket k (none until its consumer callback ends)
    steps   reserve     : a push/pop variant takes the next n tickets of its side (fetch_add, CAS, or
                          exclusive store); try_ variants reserve only tickets whose slot is ready
            fill        : the producer callback of tickets [i, i+n) ends; each ticket is filled once
            take        : the consumer callback of tickets [i, i+n) ends; each ticket is taken once,
                          only after it was filled, and receives exactly the value filled under it
                          (= blocking pop: a consumer waits until its own ticket has been filled)
            stutter     : everything else (waiting, version stores, wake-ups)
    size()  = tail - head (tickets handed out, including operations in flight), truncated at 0

  `QInv` (exactly-once, no invention, ticket-indexed FIFO) is proved for the abstract system, and
  `refines` proves that every step of the detailed model (Babylon/BQ/Model.lean) is one abstract step
  of `absQ`.  Users of the queue can therefore reason about `Q` / `QStep` only.
-/
import Babylon.BQ.Timed

namespace Babylon.BQ.Spec
open Babylon.BQ Babylon.Core

structure Q where
  tail : Nat
  head : Nat
  item : Nat → Option Nat
  taken : Nat → Option Nat

def Q.empty : Q := { tail := 0, head := 0, item := fun _ => none, taken := fun _ => none }
def Q.size (q : Q) : Nat := q.tail - q.head

inductive QStep : Q → Q → Prop
  | reservePush (q : Q) (n : Nat) : QStep q { q with tail := q.tail + n }
  | reservePop (q : Q) (n : Nat) : QStep q { q with head := q.head + n }
  | fill (q : Q) (i n : Nat) (item' : Nat → Option Nat)
      (hin : ∀ k, i ≤ k → k < i + n → k < q.tail ∧ q.item k = none ∧ item' k ≠ none)
      (hout : ∀ k, ¬ (i ≤ k ∧ k < i + n) → item' k = q.item k) : QStep q { q with item := item' }
  | take (q : Q) (i n : Nat) (taken' : Nat → Option Nat)
      (hin : ∀ k, i ≤ k → k < i + n → k < q.head ∧ q.taken k = none ∧ q.item k ≠ none ∧ taken' k = q.item k)
      (hout : ∀ k, ¬ (i ≤ k ∧ k < i + n) → taken' k = q.taken k) : QStep q { q with taken := taken' }
  | stutter (q : Q) : QStep q q

/-- exactly-once and no invention, by ticket -/
structure QInv (q : Q) : Prop where
  takenItem : ∀ k v, q.taken k = some v → q.item k = some v
  itemLt : ∀ k, q.item k ≠ none → k < q.tail
  takenLt : ∀ k, q.taken k ≠ none → k < q.head

theorem qinv_empty : QInv Q.empty := ⟨fun _ _ h => (by cases h), fun _ h => absurd rfl h, fun _ h => absurd rfl h⟩

theorem qinv_step {q q' : Q} (hI : QInv q) (h : QStep q q') : QInv q' := by
  cases h with
  | reservePush n => exact ⟨hI.takenItem, fun k hk => Nat.lt_of_lt_of_le (hI.itemLt k hk) (Nat.le_add_right _ _), hI.takenLt⟩
  | reservePop n => exact ⟨hI.takenItem, hI.itemLt, fun k hk => Nat.lt_of_lt_of_le (hI.takenLt k hk) (Nat.le_add_right _ _)⟩
  | fill i n item' hin hout =>
    refine ⟨?_, ?_, hI.takenLt⟩
    · intro k v hk
      by_cases hr : i ≤ k ∧ k < i + n
      · have := (hin k hr.1 hr.2).2.1
        rw [hI.takenItem k v hk] at this; cases this
      · show item' k = some v; rw [hout k hr]; exact hI.takenItem k v hk
    · intro k hk
      by_cases hr : i ≤ k ∧ k < i + n
      · exact (hin k hr.1 hr.2).1
      · apply hI.itemLt k; rw [← hout k hr]; exact hk
  | take i n taken' hin hout =>
    refine ⟨?_, hI.itemLt, ?_⟩
    · intro k v hk
      by_cases hr : i ≤ k ∧ k < i + n
      · show q.item k = some v; rw [← (hin k hr.1 hr.2).2.2.2]; exact hk
      · apply hI.takenItem k v; rw [← hout k hr]; exact hk
    · intro k hk
      by_cases hr : i ≤ k ∧ k < i + n
      · exact (hin k hr.1 hr.2).1
      · apply hI.takenLt k; rw [← hout k hr]; exact hk
  | stutter => exact hI

/-- a value, once delivered, and the value stored under a ticket never change: every ticket is filled at most
once and taken at most once -/
theorem once {q q' : Q} (h : QStep q q') (k v : Nat) :
    (q.item k = some v → q'.item k = some v) ∧ (q.taken k = some v → q'.taken k = some v) := by
  cases h with
  | reservePush n => exact ⟨id, id⟩
  | reservePop n => exact ⟨id, id⟩
  | fill i n item' hin hout =>
    refine ⟨fun hk => ?_, id⟩
    by_cases hr : i ≤ k ∧ k < i + n
    · have := (hin k hr.1 hr.2).2.1; rw [hk] at this; cases this
    · show item' k = some v; rw [hout k hr]; exact hk
  | take i n taken' hin hout =>
    refine ⟨id, fun hk => ?_⟩
    by_cases hr : i ≤ k ∧ k < i + n
    · have := (hin k hr.1 hr.2).2.1; rw [hk] at this; cases this
    · show taken' k = some v; rw [hout k hr]; exact hk
  | stutter => exact ⟨id, id⟩

/-- the abstract queue of a state of the detailed model -/
def absQ (y : Sys) : Q := { tail := y.s.pushIdx, head := y.s.popIdx, item := y.s.pushedV, taken := y.s.poppedV }

theorem absQ_init : absQ Sys.init = Q.empty := rfl

/-- **Refinement.**  Every (faithful) step of the detailed model from a reachable state is one step of the
abstract queue. -/
theorem refines {c : Cfg} {y y' : Sys} (hy : ReachF c y) (h : StepF c y y') : QStep (absQ y) (absQ y') := by
  have hI := inv_reach hy
  have hI' := inv_reach (Reachable.tail hy h)
  obtain ⟨hstep, hf⟩ := h
  cases hstep with
  | call t k _ _ _ => exact QStep.stutter _
  | ret t res _ => exact QStep.stutter _
  | spuriousWake t x cur _ => exact QStep.stutter _
  | act t inp s' l hs =>
    have hsum := step_summary c y.s s' t inp l hs (hI.pre t) (hf t)
    cases hsum with
    | quiet hcore _ _ _ _ =>
      have : absQ { y with s := s' } = absQ y := by
        simp only [absQ, hcore.pushIdx, hcore.popIdx, hcore.pushedV, hcore.poppedV]
      rw [this]; exact QStep.stutter _
    | release sd i _ hpi hqi _ hpv hqv _ _ _ _ _ _ _ =>
      have : absQ { y with s := s' } = absQ y := by simp only [absQ, hpi, hqi, hpv, hqv]
      rw [this]; exact QStep.stutter _
    | acquire sd n hidx hidx' _ _ hpv hqv _ _ _ _ _ =>
      cases sd with
      | push =>
        have : absQ { y with s := s' } = { absQ y with tail := (absQ y).tail + n } := by
          simp only [absQ, hpv, hqv]
          have h1 : s'.pushIdx = y.s.pushIdx + n := hidx
          have h2 : s'.popIdx = y.s.popIdx := hidx'
          rw [h1, h2]
        rw [this]; exact QStep.reservePush _ n
      | pop =>
        have : absQ { y with s := s' } = { absQ y with head := (absQ y).head + n } := by
          simp only [absQ, hpv, hqv]
          have h1 : s'.popIdx = y.s.popIdx + n := hidx
          have h2 : s'.pushIdx = y.s.pushIdx := hidx'
          rw [h1, h2]
        rw [this]; exact QStep.reservePop _ n
    | callback g hg hcore _ hheld _ _ _ hd0 _ hpush hpop _ =>
      have inT : ∀ k, g.idx ≤ k → k < g.idx + g.n → segTk g 0 g.sd k := fun k h1 h2 => ⟨rfl, by omega, h2⟩
      cases hsd : g.sd with
      | push =>
        obtain ⟨p1, p2, p3, _⟩ := hpush hsd
        have : absQ { y with s := s' } = { absQ y with item := s'.pushedV } := by
          simp only [absQ, hcore.1, hcore.2.1, p1]
        rw [this]
        refine QStep.fill _ g.idx g.n _ ?_ ?_
        · intro k h1 h2
          have ht := inT k h1 h2; rw [hsd] at ht
          refine ⟨(hI.heldLt t .push k (hheld _ _ ht)).1, ?_, ?_⟩
          · exact hI.ghostNone t .push k (hheld _ _ ht) (hd0 _ _)
          · have e : g.idx + (k - g.idx) = k := by omega
            have := p2 (k - g.idx) (by omega)
            rw [e] at this; rw [this]; simp
        · intro k hk
          apply p3 k; intro ht; exact hk ⟨by have := ht.2.1; omega, ht.2.2⟩
      | pop =>
        obtain ⟨p1, _, p3, p4⟩ := hpop hsd
        have : absQ { y with s := s' } = { absQ y with taken := s'.poppedV } := by
          simp only [absQ, hcore.1, hcore.2.1, p1]
        rw [this]
        refine QStep.take _ g.idx g.n _ ?_ ?_
        · intro k h1 h2
          have ht := inT k h1 h2; rw [hsd] at ht
          have e : g.idx + (k - g.idx) = k := by omega
          have hv := p3 (k - g.idx) (by omega)
          rw [e] at hv
          have hpp : y.s.pushedV k = some (y.s.val (g.slot c (k - g.idx))) := by
            have := hI'.popPush k _ hv
            rw [show ({ y with s := s' } : Sys).s.pushedV = s'.pushedV from rfl, p1] at this; exact this
          refine ⟨(hI.heldLt t .pop k (hheld _ _ ht)).1, ?_, ?_, ?_⟩
          · exact hI.ghostNone t .pop k (hheld _ _ ht) (hd0 _ _)
          · show y.s.pushedV k ≠ none; rw [hpp]; simp
          · show s'.poppedV k = y.s.pushedV k; rw [hv, hpp]
        · intro k hk
          apply p4 k; intro ht; exact hk ⟨by have := ht.2.1; omega, ht.2.2⟩

/-- hence the abstract invariant holds of every reachable state of the detailed model -/
theorem qinv_reach {c : Cfg} {y : Sys} (hy : ReachF c y) : QInv (absQ y) := by
  induction hy with
  | base h => subst h; exact qinv_empty
  | tail hr hs ih => exact qinv_step ih (refines hr hs)

end Babylon.BQ.Spec
