/-
  `bq_publication` (C01) over the release/acquire VIEW memory model (Babylon/Core/MemView.lean): one slot of
  the ring, its futex word and its element cell, handed from deal to deal.

  Slot-level protocol (the single-element path: deal / try_deal).  Thread `t` performs deal number `t` on the
  slot (even = push callback, odd = pop callback; deal t+1 is the counterpart `capacity` tickets later in ring
  terms: push i, pop i, push i+capacity, …):
      wait     load the word with order `ld` (any message the view model admits — stale ones included) until
               its version is `t`; a waiter may also set the waiter bit with an RMW of order `ld`;
      access   the callback: a push writes the element cell, a pop reads it — plain accesses, modelled as
               relaxed accesses of the view model (a plain read may return ANY message the thread's view
               admits, so reading the right value is a theorem, not an assumption);
      release  exchange (`set_version_and_wakeup_waiters`) or store (`set_version`) of version t+1, order `st`.
  The word holds `2·version + waiterBit` (an arithmetic relabelling of the 16/16 packing).
  Orders come from the translator: `codeOrds` = the two orders of `Gen.BQ.ords_deal`.

  Theorems, for EVERY execution of the view model (any interleaving, any admissible stale read):
    pub_read_latest   a pop callback can only read the cell message its producer wrote, value included;
    pub_write_latest  a push callback's view covers every earlier access of the cell (no overwrite race);
    pub_hb            the thread view right after callback t-1 is contained in the view of callback t
                      (happens-before between consecutive callbacks on the slot, both directions).
  Not covered: the batch path (relaxed accesses bracketed by acquire / release fences) — `mp_fences` of
  MemView is the hand-off lemma it needs; the protocol induction was not redone for it.
-/
import Babylon.Core.MemView
import Babylon.Core.Reach
import Babylon.Gen.BQ

namespace Babylon.BQ.Pub
open Babylon.Core Babylon.Core.MemView

inductive Loc | word | cell
  deriving DecidableEq, Repr

structure Ords where
  ld : Core.Ord
  st : Core.Ord
  deriving DecidableEq, Repr

/-- the orders written in `deal()` (wait_until_reach_expected_version(acquire) … set_version(release)) -/
def codeOrds : Ords := ⟨Babylon.Gen.BQ.ords_deal.getD 0 .rlx, Babylon.Gen.BQ.ords_deal.getD 1 .rlx⟩

inductive P | waiting | crit | accessed | done
  deriving DecidableEq, Repr

structure St where
  m : Mem Loc
  pc : Nat → P
  n : Nat                      -- ghost: current version = number of released deals
  pub : Nat → View Loc         -- ghost: view attached to the release message of version k
  acc : Nat → View Loc         -- ghost: thread view right after the callback access of deal k
  got : Nat → Nat              -- ghost: value the pop callback of deal k read

def St.init : St :=
  { m := Mem.init (fun _ => 0), pc := fun _ => .waiting, n := 0, pub := fun _ => View.bot, acc := fun _ => View.bot,
    got := fun _ => 0 }

def setBit (v : Nat) : Nat := 2 * (v / 2) + 1

/-- the transition relation; `pay t` = value deal `t` pushes -/
inductive Step (o : Ords) (pay : Nat → Nat) : St → St → Prop
  | loadWord (s : St) (t ts : Nat) (m' : Mem Loc) (v : Nat) :
      s.pc t = .waiting → s.m.read t .word o.ld ts = some (m', v) →
      Step o pay s { s with m := m', pc := if v / 2 = t then MemView.upd s.pc t .crit else s.pc }
  | waiterBit (s : St) (t : Nat) (m' : Mem Loc) (old : Nat) :
      s.pc t = .waiting → s.m.rmw t .word o.ld setBit = some (m', old) → Step o pay s { s with m := m' }
  | push (s : St) (t : Nat) :
      s.pc t = .crit → t % 2 = 0 →
      Step o pay s { s with m := s.m.write t .cell .rlx (pay t), pc := MemView.upd s.pc t .accessed,
                            acc := MemView.upd s.acc t ((s.m.write t .cell .rlx (pay t)).tv t).cur }
  | pop (s : St) (t ts : Nat) (m' : Mem Loc) (v : Nat) :
      s.pc t = .crit → t % 2 = 1 → s.m.read t .cell .rlx ts = some (m', v) →
      Step o pay s { s with m := m', pc := MemView.upd s.pc t .accessed, acc := MemView.upd s.acc t (m'.tv t).cur,
                            got := MemView.upd s.got t v }
  | releaseX (s : St) (t : Nat) (m' : Mem Loc) (old : Nat) :
      s.pc t = .accessed → s.m.rmw t .word o.st (fun _ => 2 * (t + 1)) = some (m', old) →
      Step o pay s { s with m := m', pc := MemView.upd s.pc t .done, n := t + 1,
                            pub := MemView.upd s.pub (t + 1) (((m'.hist .word).getLast?.map (·.view)).getD View.bot) }
  | releaseS (s : St) (t : Nat) :
      s.pc t = .accessed →
      Step o pay s { s with m := s.m.write t .word o.st (2 * (t + 1)), pc := MemView.upd s.pc t .done, n := t + 1,
                            pub := MemView.upd s.pub (t + 1) (((s.m.tv t).wrote .word (s.m.len .word)).relView .word (s.m.len .word) o.st) }

structure Inv (pay : Nat → Nat) (s : St) : Prop where
  wf : s.m.WF
  /-- every message of the word has a version ≤ the current one and carries the release view of that version -/
  word : ∀ (ts : Nat) (msg : Msg Loc), (s.m.hist .word)[ts]? = some msg → msg.val / 2 ≤ s.n ∧ s.pub (msg.val / 2) ≤ msg.view
  last : ∃ msg : Msg Loc, (s.m.hist .word).getLast? = some msg ∧ msg.val / 2 = s.n
  past : ∀ t, t < s.n → s.pc t = .done
  future : ∀ t, s.n < t → s.pc t = .waiting
  /-- before the access of the current deal the release view of the current version covers the whole cell history -/
  cellPub : (s.pc s.n = .waiting ∨ s.pc s.n = .crit) → (s.pub s.n).get .cell + 1 = s.m.len .cell
  cellCur : s.pc s.n = .accessed → ((s.m.tv s.n).cur).get .cell + 1 = s.m.len .cell
  /-- a consumer's turn: the last cell message is what its producer wrote -/
  cellVal : (s.pc s.n = .waiting ∨ s.pc s.n = .crit) → s.n % 2 = 1 →
      ∃ msg : Msg Loc, (s.m.hist .cell)[s.m.len .cell - 1]? = some msg ∧ msg.val = pay (s.n - 1)
  cellValW : s.pc s.n = .accessed → s.n % 2 = 0 →
      ∃ msg : Msg Loc, (s.m.hist .cell)[s.m.len .cell - 1]? = some msg ∧ msg.val = pay s.n
  critView : s.pc s.n = .crit → s.pub s.n ≤ (s.m.tv s.n).cur
  accView : s.pc s.n = .accessed → s.acc s.n ≤ (s.m.tv s.n).cur
  chain : ∀ k, k < s.n → s.acc k ≤ s.pub (k + 1)

end Babylon.BQ.Pub

namespace Babylon.BQ.Pub
open Babylon.Core Babylon.Core.MemView

theorem inv_init (pay : Nat → Nat) : Inv pay St.init := by
  have hh : ∀ l : Loc, (St.init.m.hist l) = [⟨0, View.bot⟩] := fun l => rfl
  refine ⟨Mem.init_wf _, ?_, ⟨⟨0, View.bot⟩, rfl, rfl⟩, fun t h => absurd h (Nat.not_lt_zero _), fun t _ => rfl, ?_, ?_, ?_, ?_,
    ?_, ?_, fun k h => absurd h (Nat.not_lt_zero _)⟩
  · intro ts msg h
    rw [hh] at h
    cases ts with
    | zero => simp at h; subst h; exact ⟨Nat.le_refl _, View.le_refl _⟩
    | succ k => simp at h
  · intro _; rfl
  · intro h; cases h
  · intro _ h; cases h
  · intro h; cases h
  · intro h; cases h
  · intro h; cases h

/-- only the thread whose turn it is can be past the wait -/
theorem turn {pay : Nat → Nat} {s : St} (hI : Inv pay s) (t : Nat) (h : s.pc t = .crit ∨ s.pc t = .accessed) : t = s.n := by
  rcases Nat.lt_trichotomy t s.n with h1 | h1 | h1
  · have := hI.past t h1; rcases h with h | h <;> rw [this] at h <;> cases h
  · exact h1
  · have := hI.future t h1; rcases h with h | h <;> rw [this] at h <;> cases h

theorem waiting_ge {pay : Nat → Nat} {s : St} (hI : Inv pay s) (t : Nat) (h : s.pc t = .waiting) : s.n ≤ t := by
  rcases Nat.lt_or_ge t s.n with h1 | h1
  · have := hI.past t h1; rw [this] at h; cases h
  · exact h1

theorem setBit_div (v : Nat) : setBit v / 2 = v / 2 := by unfold setBit; omega

theorem getLast_getElem {α : Type} (xs : List α) (a : α) (h : xs.getLast? = some a) : xs[xs.length - 1]? = some a := by
  rw [List.getLast?_eq_getElem?] at h; exact h

theorem getElem_append_one {α : Type} (xs : List α) (a b : α) (ts : Nat) (h : (xs ++ [a])[ts]? = some b) :
    xs[ts]? = some b ∨ (ts = xs.length ∧ b = a) := by
  rcases Nat.lt_or_ge ts xs.length with h1 | h1
  · rw [List.getElem?_append_left h1] at h; exact Or.inl h
  · rw [List.getElem?_append_right h1] at h
    cases hk : ts - xs.length with
    | zero => rw [hk] at h; simp at h; exact Or.inr ⟨by omega, h.symm⟩
    | succ k => rw [hk] at h; simp at h

theorem step_loadWord (o : Ords) (pay : Nat → Nat) (ho : o.ld.acquires = true) (s : St) (hI : Inv pay s) (t ts : Nat) (m' : Mem Loc) (v : Nat)
    (hpc : s.pc t = .waiting) (hr : s.m.read t .word o.ld ts = some (m', v)) :
    Inv pay { s with m := m', pc := if v / 2 = t then MemView.upd s.pc t .crit else s.pc } := by
  have hwf := Mem.read_wf hr hI.wf
  obtain ⟨msg, hm, hv, hle, rfl⟩ := Mem.read_spec hr
  have hw := hI.word ts msg hm
  have hge := waiting_ge hI t hpc
  by_cases hvt : v / 2 = t
  · -- observed its own version: it is this thread's turn
    have htn : t = s.n := by rw [← hv] at hw; omega
    subst htn
    simp only [hvt, if_true]
    have hother : ∀ t', t' ≠ s.n → MemView.upd s.pc s.n P.crit t' = s.pc t' := fun t' h => MemView.upd_other _ _ _ _ h
    refine ⟨hwf, hI.word, hI.last, ?_, ?_, ?_, ?_, ?_, ?_, ?_, ?_, hI.chain⟩ <;> dsimp only
    · intro t' h; rw [hother t' (by omega)]; exact hI.past t' h
    · intro t' h; rw [hother t' (by omega)]; exact hI.future t' h
    · intro _; exact hI.cellPub (Or.inl hpc)
    · intro h; simp only [MemView.upd_same] at h; cases h
    · intro _ hodd; exact hI.cellVal (Or.inl hpc) hodd
    · intro h; simp only [MemView.upd_same] at h; cases h
    · intro _
      simp only [MemView.upd_same]
      refine View.le_trans ?_ (TView.read_acquires _ _ _ _ _ ho)
      rw [hv] at hvt; rw [← hvt]; exact hw.2
    · intro h; simp only [MemView.upd_same] at h; cases h
  · simp only [hvt, if_false]
    have tvn : s.pc s.n ≠ .waiting → (MemView.upd s.m.tv t ((s.m.tv t).read msg Loc.word ts o.ld)) s.n = s.m.tv s.n := by
      intro h; apply MemView.upd_other; intro e; rw [e] at h; exact h hpc
    refine ⟨hwf, hI.word, hI.last, hI.past, hI.future, hI.cellPub, ?_, hI.cellVal, hI.cellValW, ?_, ?_, hI.chain⟩ <;> dsimp only
    · intro h
      rw [tvn (by rw [h]; simp)]; exact hI.cellCur h
    · intro h
      rw [tvn (by rw [h]; simp)]; exact hI.critView h
    · intro h
      rw [tvn (by rw [h]; simp)]; exact hI.accView h
theorem step_waiterBit (o : Ords) (pay : Nat → Nat) (s : St) (hI : Inv pay s) (t : Nat) (m' : Mem Loc) (old : Nat)
    (hpc : s.pc t = .waiting) (hr : s.m.rmw t .word o.ld setBit = some (m', old)) : Inv pay { s with m := m' } := by
  have hwf := Mem.rmw_wf hr hI.wf
  obtain ⟨msg, W, hlast, hold, hh, hho, htv, hmW, _, _, _, _, _, _, _, _⟩ := Mem.rmw_facts hr
  have hcell : m'.hist .cell = s.m.hist .cell := hho .cell (by simp)
  have hlen : m'.len .cell = s.m.len .cell := by simp [Mem.len, hcell]
  have hmsg := hI.word _ msg (getLast_getElem _ _ hlast)
  obtain ⟨msg0, hl0, hn0⟩ := hI.last
  have e0 : msg0 = msg := by rw [hl0] at hlast; cases hlast; rfl
  subst e0
  have tvn : s.pc s.n ≠ .waiting → m'.tv s.n = s.m.tv s.n := by
    intro h; apply htv; intro e; rw [e] at h; exact h hpc
  refine ⟨hwf, ?_, ?_, hI.past, hI.future, ?_, ?_, ?_, ?_, ?_, ?_, hI.chain⟩ <;> dsimp only
  · intro ts msg' h
    rw [hh] at h
    rcases getElem_append_one _ _ _ _ h with h | ⟨_, rfl⟩
    · exact hI.word ts msg' h
    · simp only [setBit_div]; exact ⟨hmsg.1, View.le_trans hmsg.2 hmW⟩
  · exact ⟨⟨setBit msg0.val, W⟩, by rw [hh]; simp, by simp only [setBit_div]; exact hn0⟩
  · intro h; rw [hlen]; exact hI.cellPub h
  · intro h; rw [hlen, tvn (by rw [h]; simp)]; exact hI.cellCur h
  · intro h1 h2; rw [hlen, hcell]; exact hI.cellVal h1 h2
  · intro h1 h2; rw [hlen, hcell]; exact hI.cellValW h1 h2
  · intro h; rw [tvn (by rw [h]; simp)]; exact hI.critView h
  · intro h; rw [tvn (by rw [h]; simp)]; exact hI.accView h

theorem step_push (o : Ords) (pay : Nat → Nat) (s : St) (hI : Inv pay s) (t : Nat) (hpc : s.pc t = .crit) (hev : t % 2 = 0) :
    Inv pay { s with m := s.m.write t .cell .rlx (pay t), pc := MemView.upd s.pc t .accessed,
                     acc := MemView.upd s.acc t ((s.m.write t .cell .rlx (pay t)).tv t).cur } := by
  have htn := turn hI t (Or.inl hpc)
  subst htn
  have hwf := Mem.write_wf s.m s.n .cell .rlx (pay s.n) hI.wf
  have hword : (s.m.write s.n .cell .rlx (pay s.n)).hist .word = s.m.hist .word := Mem.write_hist_other _ _ _ _ _ _ (by simp)
  have hother : ∀ t', t' ≠ s.n → MemView.upd s.pc s.n P.accessed t' = s.pc t' := fun t' h => MemView.upd_other _ _ _ _ h
  have hb := hI.wf.cur s.n .cell
  refine ⟨hwf, ?_, ?_, ?_, ?_, ?_, ?_, ?_, ?_, ?_, ?_, ?_⟩ <;> dsimp only
  · intro ts msg h; rw [hword] at h; exact hI.word ts msg h
  · rw [hword]; exact hI.last
  · intro t' h; rw [hother t' (by omega)]; exact hI.past t' h
  · intro t' h; rw [hother t' (by omega)]; exact hI.future t' h
  · intro h; simp only [MemView.upd_same] at h; rcases h with h | h <;> cases h
  · intro _; simp [TView.wrote]; omega
  · intro h; simp only [MemView.upd_same] at h; rcases h with h | h <;> cases h
  · intro _ _
    refine ⟨⟨pay s.n, ((s.m.tv s.n).wrote .cell (s.m.len .cell)).relView .cell (s.m.len .cell) .rlx⟩, ?_, rfl⟩
    rw [Mem.write_hist_same, Mem.write_len_same]; simp [Mem.len]
  · intro h; simp only [MemView.upd_same] at h; cases h
  · intro _; simp only [MemView.upd_same]; exact View.le_refl _
  · intro k hk; rw [MemView.upd_other _ _ _ _ (by omega : k ≠ s.n)]; exact hI.chain k hk

theorem step_pop (o : Ords) (pay : Nat → Nat) (s : St) (hI : Inv pay s) (t ts : Nat) (m' : Mem Loc) (v : Nat)
    (hpc : s.pc t = .crit) (hodd : t % 2 = 1) (hr : s.m.read t .cell .rlx ts = some (m', v)) :
    Inv pay { s with m := m', pc := MemView.upd s.pc t .accessed, acc := MemView.upd s.acc t (m'.tv t).cur,
                     got := MemView.upd s.got t v } ∧ (ts + 1 = s.m.len .cell ∧ v = pay (t - 1)) := by
  have htn := turn hI t (Or.inl hpc)
  subst htn
  have hwf := Mem.read_wf hr hI.wf
  have hts := Mem.read_ts_lt hr
  obtain ⟨msg, hm, hv, hle, rfl⟩ := Mem.read_spec hr
  have hother : ∀ t', t' ≠ s.n → MemView.upd s.pc s.n P.accessed t' = s.pc t' := fun t' h => MemView.upd_other _ _ _ _ h
  have hb := hI.wf.cur s.n .cell
  have hp := hI.cellPub (Or.inr hpc)
  have hc := hI.critView hpc .cell
  -- the thread's view of the cell is the latest message: nothing older is admissible
  have hts' : ts + 1 = s.m.len .cell := by omega
  obtain ⟨msgL, hmL, hvL⟩ := hI.cellVal (Or.inr hpc) hodd
  have hval : v = pay (s.n - 1) := by
    have : s.m.len .cell - 1 = ts := by omega
    rw [this, hm] at hmL; cases hmL; rw [hv]; exact hvL
  refine ⟨⟨hwf, hI.word, hI.last, ?_, ?_, ?_, ?_, ?_, ?_, ?_, ?_, ?_⟩, hts', hval⟩ <;> dsimp only
  · intro t' h; rw [hother t' (by omega)]; exact hI.past t' h
  · intro t' h; rw [hother t' (by omega)]; exact hI.future t' h
  · intro h; simp only [MemView.upd_same] at h; rcases h with h | h <;> cases h
  · intro _
    show ((MemView.upd s.m.tv s.n _ s.n).cur).get .cell + 1 = s.m.len .cell
    simp [TView.read, Core.Ord.acquires]; omega
  · intro h; simp only [MemView.upd_same] at h; rcases h with h | h <;> cases h
  · intro _ h; omega
  · intro h; simp only [MemView.upd_same] at h; cases h
  · intro _; simp only [MemView.upd_same]; exact View.le_refl _
  · intro k hk; rw [MemView.upd_other _ _ _ _ (by omega : k ≠ s.n)]; exact hI.chain k hk

theorem release_common (pay : Nat → Nat) (s : St) (hI : Inv pay s) (hpc : s.pc s.n = .accessed) (m' : Mem Loc) (W : View Loc)
    (hwf : m'.WF) (hh : m'.hist .word = s.m.hist .word ++ [⟨2 * (s.n + 1), W⟩]) (hcell : m'.hist .cell = s.m.hist .cell)
    (hW : (s.m.tv s.n).cur ≤ W) :
    Inv pay { s with m := m', pc := MemView.upd s.pc s.n .done, n := s.n + 1, pub := MemView.upd s.pub (s.n + 1) W } := by
  have hlen : m'.len .cell = s.m.len .cell := by simp [Mem.len, hcell]
  have hother : ∀ t', t' ≠ s.n → MemView.upd s.pc s.n P.done t' = s.pc t' := fun t' h => MemView.upd_other _ _ _ _ h
  have hnext : MemView.upd s.pc s.n P.done (s.n + 1) = .waiting := by
    rw [hother _ (by omega)]; exact hI.future _ (by omega)
  have hWb : W.get .cell < m'.len .cell := by
    have := hwf.msg .word (s.m.hist .word).length ⟨2 * (s.n + 1), W⟩ (by rw [hh]; simp)
    exact this .cell
  have hWc : W.get .cell + 1 = s.m.len .cell := by
    have h1 := hW .cell
    have h2 := hI.cellCur hpc
    rw [hlen] at hWb; omega
  refine ⟨hwf, ?_, ?_, ?_, ?_, ?_, ?_, ?_, ?_, ?_, ?_, ?_⟩ <;> dsimp only
  · intro ts msg h
    rw [hh] at h
    rcases getElem_append_one _ _ _ _ h with h | ⟨_, rfl⟩
    · have := hI.word ts msg h
      refine ⟨by omega, ?_⟩
      rw [MemView.upd_other _ _ _ _ (by omega : msg.val / 2 ≠ s.n + 1)]; exact this.2
    · have e : 2 * (s.n + 1) / 2 = s.n + 1 := by omega
      simp only [e, MemView.upd_same]; exact ⟨Nat.le_refl _, View.le_refl _⟩
  · exact ⟨⟨2 * (s.n + 1), W⟩, by rw [hh]; simp, by simp only []; omega⟩
  · intro t' h
    by_cases e : t' = s.n
    · subst e; simp
    · rw [hother t' e]; exact hI.past t' (by omega)
  · intro t' h; rw [hother t' (by omega)]; exact hI.future t' (by omega)
  · intro _; simp only [MemView.upd_same]; rw [hlen]; exact hWc
  · intro h; rw [hnext] at h; cases h
  · intro _ hodd
    rw [hlen, hcell]
    have := hI.cellValW hpc (by omega)
    simpa using this
  · intro h; rw [hnext] at h; cases h
  · intro h; rw [hnext] at h; cases h
  · intro h; rw [hnext] at h; cases h
  · intro k hk
    by_cases e : k = s.n
    · subst e; simp only [MemView.upd_same]; exact View.le_trans (hI.accView hpc) hW
    · rw [MemView.upd_other _ _ _ _ (by omega : k + 1 ≠ s.n + 1)]; exact hI.chain k (by omega)

theorem step_releaseX (o : Ords) (pay : Nat → Nat) (ho : o.st.releases = true) (s : St) (hI : Inv pay s) (t : Nat) (m' : Mem Loc) (old : Nat)
    (hpc : s.pc t = .accessed) (hr : s.m.rmw t .word o.st (fun _ => 2 * (t + 1)) = some (m', old)) :
    Inv pay { s with m := m', pc := MemView.upd s.pc t .done, n := t + 1,
                     pub := MemView.upd s.pub (t + 1) (((m'.hist .word).getLast?.map (·.view)).getD View.bot) } := by
  have htn := turn hI t (Or.inr hpc)
  subst htn
  have hwf := Mem.rmw_wf hr hI.wf
  obtain ⟨msg, W, hlast, hold, hh, hho, htv, hmW, hrel, _, _, _, _, _, _, _⟩ := Mem.rmw_facts hr
  have e : ((m'.hist .word).getLast?.map (·.view)).getD View.bot = W := by rw [hh]; simp
  rw [e]
  exact release_common pay s hI hpc m' W hwf hh (hho .cell (by simp)) (hrel ho)

theorem step_releaseS (o : Ords) (pay : Nat → Nat) (ho : o.st.releases = true) (s : St) (hI : Inv pay s) (t : Nat)
    (hpc : s.pc t = .accessed) :
    Inv pay { s with m := s.m.write t .word o.st (2 * (t + 1)), pc := MemView.upd s.pc t .done, n := t + 1,
                     pub := MemView.upd s.pub (t + 1) (((s.m.tv t).wrote .word (s.m.len .word)).relView .word (s.m.len .word) o.st) } := by
  have htn := turn hI t (Or.inr hpc)
  subst htn
  refine release_common pay s hI hpc _ _ (Mem.write_wf _ _ _ _ _ hI.wf) (Mem.write_hist_same _ _ _ _ _)
    (Mem.write_hist_other _ _ _ _ _ _ (by simp)) ?_
  simp only [TView.relView, ho, if_true, TView.wrote]
  exact View.le_bump _ _ _

theorem inv_step (o : Ords) (pay : Nat → Nat) (ho : o.ld.acquires = true ∧ o.st.releases = true) (s s' : St)
    (hI : Inv pay s) (h : Step o pay s s') : Inv pay s' := by
  cases h with
  | loadWord t ts m' v hpc hr => exact step_loadWord o pay ho.1 s hI t ts m' v hpc hr
  | waiterBit t m' old hpc hr => exact step_waiterBit o pay s hI t m' old hpc hr
  | push t hpc hev => exact step_push o pay s hI t hpc hev
  | pop t ts m' v hpc hodd hr => exact (step_pop o pay s hI t ts m' v hpc hodd hr).1
  | releaseX t m' old hpc hr => exact step_releaseX o pay ho.2 s hI t m' old hpc hr
  | releaseS t hpc => exact step_releaseS o pay ho.2 s hI t hpc

/-- states reachable by any execution of the view model -/
def Reach (o : Ords) (pay : Nat → Nat) : St → Prop := Reachable (· = St.init) (Step o pay)

theorem inv_reach (o : Ords) (pay : Nat → Nat) (ho : o.ld.acquires = true ∧ o.st.releases = true) (s : St)
    (h : Reach o pay s) : Inv pay s :=
  Reachable.invariant (Inv pay) (fun s hs => by rw [hs]; exact inv_init pay) (fun a b hi hs => inv_step o pay ho a b hi hs) s h

/-- a pop callback can only read the latest cell message, and that is the value its producer wrote -/
theorem pub_read_latest (o : Ords) (pay : Nat → Nat) (ho : o.ld.acquires = true ∧ o.st.releases = true) (s : St)
    (h : Reach o pay s) (t ts : Nat) (m' : Mem Loc) (v : Nat) (hpc : s.pc t = .crit) (hodd : t % 2 = 1)
    (hr : s.m.read t .cell .rlx ts = some (m', v)) : ts + 1 = s.m.len .cell ∧ v = pay (t - 1) :=
  (step_pop o pay s (inv_reach o pay ho s h) t ts m' v hpc hodd hr).2

/-- a callback's view covers the whole history of the cell: every earlier access happens-before it -/
theorem pub_write_latest (o : Ords) (pay : Nat → Nat) (ho : o.ld.acquires = true ∧ o.st.releases = true) (s : St)
    (h : Reach o pay s) (t : Nat) (hpc : s.pc t = .crit) : ((s.m.tv t).cur).get .cell + 1 = s.m.len .cell := by
  have hI := inv_reach o pay ho s h
  have htn := turn hI t (Or.inl hpc)
  subst htn
  have h1 := hI.cellPub (Or.inr hpc)
  have h2 := hI.critView hpc .cell
  have h3 := hI.wf.cur s.n .cell
  omega

/-- happens-before between consecutive callbacks on the slot: the thread view right after callback t-1 is
contained in the view with which callback t runs -/
theorem pub_hb (o : Ords) (pay : Nat → Nat) (ho : o.ld.acquires = true ∧ o.st.releases = true) (s : St)
    (h : Reach o pay s) (t : Nat) (hpc : s.pc t = .crit) (ht : 0 < t) : s.acc (t - 1) ≤ (s.m.tv t).cur := by
  have hI := inv_reach o pay ho s h
  have htn := turn hI t (Or.inl hpc)
  subst htn
  have h1 := hI.chain (s.n - 1) (by omega)
  have e : s.n - 1 + 1 = s.n := by omega
  rw [e] at h1
  exact View.le_trans h1 (hI.critView hpc)


/-! ### the orders of the code, and the negative control -/
theorem codeOrds_ok : codeOrds.ld.acquires = true ∧ codeOrds.st.releases = true := by decide

/-- a two-thread run in which thread 0 writes the cell, then stores the version with order `st`; thread 1 loads the new
version with order `ld` and then reads the cell at timestamp `cts` -/
def handOff (ld st : Core.Ord) (cts : Nat) : Option (Nat × Nat) :=
  let m0 : Mem Loc := Mem.init (fun _ => 0)
  let m1 := m0.write 0 .cell .rlx 7
  let m2 := m1.write 0 .word st 2
  match m2.read 1 .word ld 1 with
  | none => none
  | some (m3, v) =>
    match m3.read 1 .cell .rlx cts with
    | none => none
    | some (_, c) => some (v, c)

/-- **negative control**: with relaxed orders the consumer, having seen the new version, can still read the STALE
initial cell value (0 instead of the pushed 7) — the conclusion of `pub_read_latest` fails -/
example : handOff .rlx .rlx 0 = some (2, 0) := by decide
/-- a relaxed store alone, or a relaxed load alone, is already enough to break it -/
example : handOff .acq .rlx 0 = some (2, 0) := by decide
example : handOff .rlx .rel 0 = some (2, 0) := by decide
/-- with the orders of the code the stale read is not a behaviour of the model, only the pushed value is -/
example : handOff codeOrds.ld codeOrds.st 0 = none ∧ handOff codeOrds.ld codeOrds.st 1 = some (2, 7) := by decide

end Babylon.BQ.Pub
