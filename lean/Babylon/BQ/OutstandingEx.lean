/-
  `OutstandingBound`: non-vacuity (a reachable execution under the bound) and necessity (states that satisfy
  the safety invariant `Inv`, lie one step beyond the bound, and in which a truncated comparison is wrong).
-/
import Babylon.BQ.Outstanding
import Babylon.BQ.Examples

namespace Babylon.BQ
open Babylon.Core Babylon.Gen.BQ

theorem outstanding_one (c : Cfg) (s : State) (p : Pc) (hpc : s.pc = upd (fun _ => Pc.idle) 1 p)
    (hh : ∀ sd i, p.held sd i → s.idx sd < i + 32767 * c.cap)
    (hw : ∀ sd i d, p.watch = some (sd, i, d) → s.idx sd ≤ i + 32767 * c.cap ∧ i + d * c.cap ≤ s.idx sd + c.cap) :
    OutstandingBound c s := by
  have key : ∀ t, s.pc t = .idle ∨ s.pc t = p := by
    intro t; rw [hpc]; simp only [upd]; split
    · exact Or.inr rfl
    · exact Or.inl rfl
  refine ⟨?_, ?_, ?_⟩
  · intro t sd i h; rcases key t with e | e <;> rw [e] at h
    · exact h.elim
    · exact hh sd i h
  · intro t sd i d h; rcases key t with e | e <;> rw [e] at h
    · cases h
    · exact (hw sd i d h).1
  · intro t sd i d h; rcases key t with e | e <;> rw [e] at h
    · cases h
    · exact (hw sd i d h).2

/-- non-vacuity: the blocking push of `Examples.lean` up to its callback is an execution under the bound -/
theorem ex3_reachO : ReachO exCfg ex3 := by
  have r1 : ReachO exCfg ex1 := by
    refine Reachable.tail (Reachable.base rfl) ⟨Step.call Sys.init 1 exCall rfl (by decide) ?_, ?_⟩
    · intro sd u _ k' h; cases h
    · exact outstanding_one exCfg _ .idle (by funext u; simp [Sys.init, State.init, upd]) (fun _ _ h => h.elim)
        (fun _ _ _ h => by cases h)
  have r2 : ReachO exCfg ex2 := by
    refine Reachable.tail r1 ⟨Step.act ex1 1 {} _ (.rmw "add" "pushidx" 0 .rlx 0 1) rfl, ?_⟩
    exact outstanding_one exCfg _ exCall.entry rfl (fun _ _ h => h.elim) (fun _ _ _ h => by cases h)
  refine Reachable.tail r2 ⟨Step.act ex2 1 {} _ (.ld "slot" 8 .acq 0) rfl, ?_⟩
  refine outstanding_one exCfg _ (.wait (.single .push 0 false true) .load0) ?_ ?_ ?_
  · funext u; simp [ex2, ex1, State.setPc, State.setIdx, upd, Sys.init, State.init]; split <;> simp_all
  · intro sd i h
    obtain ⟨rfl, rfl⟩ := h
    show (1 : Nat) < _; simp [exCfg, Cfg.cap]
  · intro sd i d h
    simp only [Pc.watch, WCtx.tk, Option.some.injEq, Prod.mk.injEq] at h
    obtain ⟨rfl, rfl, rfl⟩ := h
    constructor
    · show (1 : Nat) ≤ _; simp [exCfg, Cfg.cap]
    · show _ ≤ 1 + _; simp [exCfg, Cfg.cap]

/-! ### necessity -/
def oneCfg : Cfg := { bits := 0 }

/-- capacity 1, nothing outstanding: 32768 elements have been pushed and popped since thread 1, inside `try_push`,
read the push index 0; the slot version is 65536, its truncation equals the truncated expected version 0 -/
def staleSys : Sys :=
  { s := { pushIdx := 32768, popIdx := 32768, ver := fun _ => 65536, wbit := fun _ => false, val := fun _ => 0,
           pc := upd (fun _ => Pc.idle) 1 (.tVer .push true true 0),
           pushedV := fun i => if i < 32768 then some 0 else none,
           poppedV := fun i => if i < 32768 then some 0 else none, now := 0 },
    cur := upd (fun _ => none) 1 (some (.tryPush true true)), start := fun _ _ => 0 }

theorem staleSys_unfaithful : ¬ Faithful oneCfg staleSys.s 1 := by
  intro h
  have := (h 0 0 rfl).1 rfl
  cases this

theorem staleSys_pc (t : Nat) : staleSys.s.pc t = .idle ∨ staleSys.s.pc t = .tVer .push true true 0 := by
  dsimp only [staleSys, upd]; split
  · exact Or.inr rfl
  · exact Or.inl rfl

theorem oneCfg_slot (i : Nat) : slotOf oneCfg i = 0 := by simp [slotOf, oneCfg, Cfg.cap, Nat.mod_one]
theorem oneCfg_E (sd : Side) (i : Nat) : expVer oneCfg sd i = 2 * i + (match sd with | .push => 0 | .pop => 1) := by
  cases sd <;> simp [expVer, oneCfg, Cfg.cap]

theorem staleSys_inv : Inv oneCfg staleSys := by
  have hheld : ∀ t sd i, ¬ (staleSys.s.pc t).held sd i := by
    intro t sd i h; rcases staleSys_pc t with e | e <;> rw [e] at h <;> exact h
  have hver : ∀ sl, staleSys.s.ver sl = 65536 := fun _ => rfl
  refine { wf := ?_, uniq := ?_, heldLt := ?_, doneGt := ?_, futLe := ?_, lbLe := ?_, needsLe := ?_, excl := ?_,
           expOk := ?_, valRd := ?_, valWr := ?_, popPush := ?_, ghostDef := ?_, ghostLt := ?_, ghostNone := ?_,
           startLe := ?_, heldGe := ?_ }
  · intro t; rcases staleSys_pc t with e | e <;> rw [e] <;> exact True.intro
  · intro t u sd i h; exact absurd h (hheld t sd i)
  · intro t sd i h; exact absurd h (hheld t sd i)
  · intro sd i hi _
    rw [hver, oneCfg_E]
    cases sd <;> simp [State.idx, staleSys] at hi ⊢ <;> omega
  · intro sd i hi
    rw [hver, oneCfg_E]
    cases sd <;> simp [State.idx, staleSys] at hi ⊢ <;> omega
  · intro t sl; rcases staleSys_pc t with e | e <;> rw [e] <;> exact Nat.zero_le _
  · intro t sd
    by_cases ht : t = 1
    · subst ht; cases sd <;> decide
    · have e : staleSys.s.pc t = .idle := by dsimp only [staleSys, upd]; rw [if_neg ht]
      rw [e]; exact Nat.zero_le _
  · intro t u sd _ h2
    exfalso
    by_cases ht : t = 1
    · subst ht; cases sd <;> revert h2 <;> decide
    · have e : staleSys.cur t = none := by dsimp only [staleSys, upd]; rw [if_neg ht]
      rw [e] at h2; cases h2
  · intro t sd i h
    rcases staleSys_pc t with e | e <;> rw [e] at h
    · cases h
    · simp [Pc.expects] at h
  · intro i h; rw [hver, oneCfg_E] at h
    have h' : 65536 = 2 * i + 1 := h
    omega
  · intro t i h; rcases staleSys_pc t with e | e <;> rw [e] at h <;> exact h.elim
  · intro i v h; exact h
  · intro sd i hi _
    cases sd <;> simp [State.ghostV, staleSys, State.idx] at hi ⊢ <;> omega
  · intro sd i h
    cases sd <;> simp [State.ghostV, staleSys, State.idx] at h ⊢ <;> omega
  · intro t sd i h; exact absurd h (hheld t sd i)
  · intro t sd _; exact Nat.zero_le _
  · intro t sd i h; exact absurd h (hheld t sd i)

/-- `staleSys` violates only the `stale` part of the bound, and by exactly one ticket -/
theorem staleSys_bound :
    (∀ t sd i, ¬ (staleSys.s.pc t).held sd i) ∧
    (staleSys.s.pc 1).watch = some (.push, 0, 0) ∧
    staleSys.s.idx .push = 0 + 32767 * oneCfg.cap + 1 := by
  refine ⟨?_, rfl, rfl⟩
  intro t sd i h; rcases staleSys_pc t with e | e <;> rw [e] at h <;> exact h

/-- capacity 1, 32769 blocked pushers: threads `0 … 32768` hold the push tickets `0 … 32768`, nothing has been dealt.
The holder of ticket 32768 compares the truncated slot version 0 with its truncated expected version
`65536 % 65536 = 0` and would enter its callback although the turn belongs to ticket 0. -/
def crowdState : State :=
  { State.init with pushIdx := 32769,
                    pc := fun t => if t ≤ 32768 then .wait (.single .push t false true) .load0 else .idle }

theorem crowd_unfaithful : ¬ Faithful oneCfg crowdState 32768 := by
  intro h
  have := (h 0 65536 rfl).1 rfl
  cases this

theorem crowd_held (t : Nat) (ht : t ≤ 32768) : (crowdState.pc t).held .push t := by
  show (if t ≤ 32768 then Pc.wait (.single .push t false true) .load0 else .idle).held .push t
  rw [if_pos ht]; exact ⟨rfl, rfl⟩

end Babylon.BQ
