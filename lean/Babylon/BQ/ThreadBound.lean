/-
  Count → span: with at most `n` threads, the outstanding tickets of one side span fewer than `2 * n + 2` rounds
  (`held_span_of_threads`), hence `OutstandingBound.held` follows from a bound on the number of threads.
  `OutstandingBound.stale` does NOT follow from any thread bound (`stale_not_from_threads`).
-/
import Babylon.BQ.OutstandingEx

namespace Babylon.BQ
open Babylon.Core Babylon.Gen.BQ

/-- two threads suffice for an unfaithful comparison: in `staleSys` (which satisfies `Inv`) only thread 1 is inside a call -/
theorem stale_not_from_threads : (∀ t, 2 ≤ t → staleSys.s.pc t = .idle) ∧ Inv oneCfg staleSys ∧ ¬ Faithful oneCfg staleSys.s 1 := by
  refine ⟨?_, staleSys_inv, staleSys_unfaithful⟩
  intro t ht
  have : t ≠ 1 := by omega
  dsimp only [staleSys, upd]; rw [if_neg this]

/-! ### tickets of one thread lie within two rounds -/
def rnd (c : Cfg) (i : Nat) : Nat := c.cap * (i / c.cap)

theorem seg_in_round (c : Cfg) (g : Seg) (hw : g.wf c) (a : Nat) (sd : Side) (i : Nat) (h : segTk g a sd i) :
    rnd c g.idx ≤ i ∧ i < rnd c g.idx + c.cap := by
  have h1 := div_mod_cap c g.idx
  unfold Seg.wf at hw
  obtain ⟨_, h2, h3⟩ := h
  unfold rnd; omega

theorem rnd_linked (c : Cfg) (g g' : Seg) (hw : g.wf c) (hl : g'.idx = g.idx + g.n) :
    rnd c g.idx ≤ g'.idx ∧ rnd c g'.idx ≤ rnd c g.idx + c.cap := by
  have h1 := div_mod_cap c g.idx
  have h2 := div_mod_cap c g'.idx
  have hs := slotOf_lt c g'.idx
  unfold Seg.wf at hw
  have hq : g'.idx / c.cap < g.idx / c.cap + 2 := by
    apply Nat.div_lt_of_lt_mul
    rw [Nat.mul_add]; omega
  have hm : c.cap * (g'.idx / c.cap) ≤ c.cap * (g.idx / c.cap + 1) := Nat.mul_le_mul_left _ (by omega)
  rw [Nat.mul_add, Nat.mul_one] at hm
  unfold rnd; omega

/-- two linked well-formed segments -/
theorem two_seg (c : Cfg) (g g' : Seg) (hw : g.wf c) (hw' : g'.wf c) (hl : g'.idx = g.idx + g.n) (a a' : Nat) (sd : Side) (i : Nat)
    (h : segTk g a sd i ∨ segTk g' a' sd i) : rnd c g.idx ≤ i ∧ i < rnd c g.idx + 2 * c.cap := by
  rcases h with h | h
  · have := seg_in_round c g hw a sd i h; omega
  · have h1 := seg_in_round c g' hw' a' sd i h
    have h2 := rnd_linked c g g' hw hl
    obtain ⟨_, h3, _⟩ := h
    omega

def Width (c : Cfg) (P : Nat → Prop) : Prop := ∃ R, ∀ i, P i → R ≤ i ∧ i < R + 2 * c.cap

theorem width_false (c : Cfg) : Width c (fun _ => False) := ⟨0, fun _ h => h.elim⟩

theorem cc_width (c : Cfg) (cc : CompCtx) (hw : cc.wf c) (sd : Side) : Width c (cc.held sd) := by
  obtain ⟨h1, h2, _, h4⟩ := hw
  refine ⟨rnd c cc.g.idx, fun i h => ?_⟩
  cases hr : cc.rest with
  | none =>
    rw [CompCtx.held, hr] at h
    rcases h with h | h
    · have := seg_in_round c cc.g h1 0 sd i h; omega
    · exact h.elim
  | some g2 =>
    rw [hr] at h2 h4
    rw [CompCtx.held, hr] at h
    exact two_seg c cc.g g2 h1 h2.1 h4.2 0 0 sd i h

theorem cc_side (cc : CompCtx) (c : Cfg) (hw : cc.wf c) (sd : Side) (i : Nat) (h : cc.held sd i) : sd = cc.g.sd := by
  obtain ⟨_, _, _, h4⟩ := hw
  rcases h with h | h
  · exact h.1
  · cases hr : cc.rest with
    | none => rw [hr] at h; exact h.elim
    | some g2 => rw [hr] at h h4; rw [h.1]; exact h4.1

theorem x_width (c : Cfg) (x : TryCtx) (sd0 : Side) (hw : x.wf c sd0) (sd : Side) : Width c (x.held sd) := by
  unfold TryCtx.held; unfold TryCtx.wf at hw
  cases hb : x.back with
  | none => exact width_false c
  | some cc => rw [hb] at hw; exact cc_width c cc hw.1 sd

theorem x_side (c : Cfg) (x : TryCtx) (sd0 : Side) (hw : x.wf c sd0) (sd : Side) (i : Nat) (h : x.held sd i) : sd = sd0.other := by
  unfold TryCtx.held at h; unfold TryCtx.wf at hw
  cases hb : x.back with
  | none => rw [hb] at h; exact h.elim
  | some cc => rw [hb] at h hw; rw [cc_side cc c hw.1 sd i h]; exact hw.2.2

theorem other_ne' (sd : Side) : sd.other ≠ sd := by cases sd <;> decide

/-- a segment followed by a continuation -/
theorem segK_width (c : Cfg) (g : Seg) (a : Nat) (k : K) (hg : g.wf c) (hk : k.wf c g.sd (g.idx + g.n)) (sd : Side) :
    Width c (fun i => segTk g a sd i ∨ k.held sd i) := by
  cases k with
  | ret r => exact ⟨rnd c g.idx, fun i h => by
      rcases h with h | h
      · have := seg_in_round c g hg a sd i h; omega
      · exact h.elim⟩
  | block w1 w2 g' => exact ⟨rnd c g.idx, fun i h => two_seg c g g' hg hk.1 hk.2.2.2 a 0 sd i h⟩
  | comp g' => exact ⟨rnd c g.idx, fun i h => two_seg c g g' hg hk.1 hk.2.2.2 a 0 sd i h⟩
  | tryNext x g' =>
    by_cases hs : sd = g.sd
    · refine ⟨rnd c g.idx, fun i h => ?_⟩
      rcases h with h | h
      · have := seg_in_round c g hg a sd i h; omega
      · have := x_side c x g.sd hk.1 sd i h; rw [hs] at this; exact absurd this.symm (other_ne' _)
    · obtain ⟨R, hR⟩ := x_width c x g.sd hk.1 sd
      exact ⟨R, fun i h => by
        rcases h with h | h
        · exact absurd h.1 hs
        · exact hR i h⟩
  | back cc =>
    by_cases hs : sd = g.sd
    · refine ⟨rnd c g.idx, fun i h => ?_⟩
      rcases h with h | h
      · have := seg_in_round c g hg a sd i h; omega
      · have := cc_side cc c hk.1 sd i h; rw [hs, hk.2] at this; exact absurd this.symm (other_ne' _)
    · obtain ⟨R, hR⟩ := cc_width c cc hk.1 sd
      exact ⟨R, fun i h => by
        rcases h with h | h
        · exact absurd h.1 hs
        · exact hR i h⟩

theorem width_mono (c : Cfg) {P Q : Nat → Prop} (h : ∀ i, P i → Q i) (w : Width c Q) : Width c P := by
  obtain ⟨R, hR⟩ := w; exact ⟨R, fun i hi => hR i (h i hi)⟩

theorem width_one (c : Cfg) (sd0 sd : Side) (i0 : Nat) : Width c (fun i => sd = sd0 ∧ i = i0) :=
  ⟨i0, fun i h => by have := cap_pos c; have := h.2; omega⟩

theorem k_width (c : Cfg) (k : K) (sd0 : Side) (e : Nat) (hk : k.wf c sd0 e) (sd : Side) : Width c (k.held sd) :=
  width_mono c (fun _ h => Or.inr h)
    (segK_width c ⟨sd0, e, 0⟩ 0 k (by show slotOf c e + 0 ≤ c.cap; have := slotOf_lt c e; omega) hk sd)

/-- the tickets of one side a thread holds lie within two rounds of the ring (`num ≤ capacity`, split at the ring end) -/
theorem held_width (c : Cfg) (p : Pc) (hw : p.wf c) (sd : Side) : Width c (p.held sd) := by
  cases p
  case wait x w =>
    cases x with
    | single sd0 i0 a b => exact width_one c sd0 sd i0
    | batch g j a b k =>
      have hw' : g.wf c ∧ j < g.n ∧ k.wf c g.sd (g.idx + g.n) ∧ _ := hw
      exact segK_width c g 0 k hw'.1 hw'.2.2.1 sd
    | timed a i num tb tmo => exact width_false c
  case sCbB sd0 i0 a b => exact width_one c sd0 sd i0
  case sCbE sd0 i0 a b => exact width_one c sd0 sd i0
  case sSet sd0 i0 a b => exact width_one c sd0 sd i0
  case nIdx sd0 x num => have hw' : x.wf c sd0 ∧ _ := hw; exact x_width c x sd0 hw'.1 sd
  case nVer x g j => have hw' : x.wf c g.sd ∧ _ := hw; exact x_width c x g.sd hw'.1 sd
  case nCas x g n => have hw' : x.wf c g.sd ∧ _ := hw; exact x_width c x g.sd hw'.1 sd
  case cVer cc => exact cc_width c cc hw sd
  case cNeed cc => exact cc_width c cc hw sd
  case fAcq b => have hw' : (b.g.wf c ∧ _) ∧ _ := hw; exact segK_width c b.g 0 b.k hw'.1.1 hw'.1.2 sd
  case bCbB b => have hw' : (b.g.wf c ∧ _) ∧ _ := hw; exact segK_width c b.g 0 b.k hw'.1.1 hw'.1.2 sd
  case bCbE b => have hw' : (b.g.wf c ∧ _) ∧ _ := hw; exact segK_width c b.g 0 b.k hw'.1.1 hw'.1.2 sd
  case fRel b => have hw' : (b.g.wf c ∧ _) ∧ _ := hw; exact segK_width c b.g 0 b.k hw'.1.1 hw'.1.2 sd
  case bSt b j => have hw' : (b.g.wf c ∧ _) ∧ _ := hw; exact segK_width c b.g j b.k hw'.1.1 hw'.1.2 sd
  case fSc b => have hw' : (b.g.wf c ∧ _) ∧ _ := hw; exact k_width c b.k _ _ hw'.1.2 sd
  case wLd b j => have hw' : (b.g.wf c ∧ _) ∧ _ := hw; exact k_width c b.k _ _ hw'.1.2 sd
  case wCas b j cur => have hw' : (b.g.wf c ∧ _) ∧ _ := hw; exact k_width c b.k _ _ hw'.1.2 sd
  case wWake b j => have hw' : (b.g.wf c ∧ _) ∧ _ := hw; exact k_width c b.k _ _ hw'.1.2 sd
  all_goals exact width_false c

/-! ### pigeonhole -/
theorem php (n : Nat) : ∀ f : Nat → Nat, (∀ k, k ≤ n → f k < n) → ∃ a b, a < b ∧ b ≤ n ∧ f a = f b := by
  induction n with
  | zero => intro f h; have := h 0 (Nat.le_refl _); omega
  | succ n ih =>
    intro f h
    by_cases hex : ∃ a, a ≤ n ∧ f a = f (n + 1)
    · obtain ⟨a, ha, e⟩ := hex; exact ⟨a, n + 1, by omega, Nat.le_refl _, e⟩
    · have hne : ∀ a, a ≤ n → f a ≠ f (n + 1) := fun a ha e => hex ⟨a, ha, e⟩
      have hm := h (n + 1) (Nat.le_refl _)
      obtain ⟨a, b, hab, hb, e⟩ := ih (fun k => if f k < f (n + 1) then f k else f k - 1) (fun k hk => by
        have h1 := h k (by omega); have h2 := hne k hk
        split <;> omega)
      refine ⟨a, b, hab, by omega, ?_⟩
      have h1 := hne a (by omega); have h2 := hne b hb
      split at e <;> split at e <;> omega

/-! ### count → span -/
/-- while ticket `i` is outstanding, every issued ticket of the same slot in a later round is outstanding too -/
theorem chain_held {c : Cfg} {y : Sys} (hI : Inv c y) (u : Nat) (sd : Side) (i : Nat) (hh : (y.s.pc u).held sd i)
    (k : Nat) (hk : i + k * c.cap < y.s.idx sd) : ∃ t, (y.s.pc t).held sd (i + k * c.cap) := by
  apply Classical.byContradiction
  intro hne
  have h1 := hI.doneGt sd (i + k * c.cap) hk (fun t ht => hne ⟨t, ht⟩)
  have h2 := (hI.heldLt u sd i hh).2
  rw [slotOf_add_rounds, expVer_add_rounds] at h1
  omega

/-- **count → span.**  If only the threads `0 … n-1` ever run, the outstanding tickets of a side span at most `2·n` rounds:
an outstanding ticket `i` has `idx ≤ i + 2·n·capacity`. -/
theorem held_span_of_threads {c : Cfg} {y : Sys} (hI : Inv c y) (n : Nat) (hn : ∀ t, n ≤ t → y.s.pc t = .idle)
    (u : Nat) (sd : Side) (i : Nat) (hh : (y.s.pc u).held sd i) : y.s.idx sd ≤ i + (2 * n) * c.cap := by
  apply Classical.byContradiction
  intro hlt
  have hc := cap_pos c
  have hall : ∀ k, ∃ t, k ≤ n → (y.s.pc t).held sd (i + (2 * k) * c.cap) := by
    intro k
    by_cases hk : k ≤ n
    · have hle : (2 * k) * c.cap ≤ (2 * n) * c.cap := Nat.mul_le_mul_right _ (by omega)
      obtain ⟨t, ht⟩ := chain_held hI u sd i hh (2 * k) (by omega)
      exact ⟨t, fun _ => ht⟩
    · exact ⟨0, fun h => absurd h hk⟩
  obtain ⟨f, hf⟩ := Classical.axiomOfChoice hall
  have hlt' : ∀ k, k ≤ n → f k < n := by
    intro k hk
    apply Classical.byContradiction
    intro hge
    have := hf k hk
    rw [hn (f k) (by omega)] at this
    exact this
  obtain ⟨a, b, hab, hb, e⟩ := php n f hlt'
  have ha := hf a (by omega)
  have hb' := hf b hb
  rw [e] at ha
  obtain ⟨R, hR⟩ := held_width c _ (hI.wf (f b)) sd
  have r1 := hR _ ha
  have r2 := hR _ hb'
  have hmul : (2 * a + 2) * c.cap ≤ (2 * b) * c.cap := Nat.mul_le_mul_right _ (by omega)
  rw [Nat.add_mul] at hmul
  omega

/-- with fewer than 16384 threads the `held` part of `OutstandingBound` holds in every state satisfying `Inv` -/
theorem held_bound_of_threads {c : Cfg} {y : Sys} (hI : Inv c y) (n : Nat) (hn : ∀ t, n ≤ t → y.s.pc t = .idle) (hlt : n < 16384)
    (t : Nat) (sd : Side) (i : Nat) (hh : (y.s.pc t).held sd i) : y.s.idx sd < i + 32767 * c.cap := by
  have h := held_span_of_threads hI n hn t sd i hh
  have hc := cap_pos c
  have hmul : (2 * n) * c.cap ≤ 32766 * c.cap := Nat.mul_le_mul_right _ (by omega)
  omega

/-- what remains to be assumed besides the thread bound: the in-flight index reads (`Pc.watch`) are not stale / ahead -/
structure WatchBound (c : Cfg) (s : State) : Prop where
  stale : ∀ t sd i d, (s.pc t).watch = some (sd, i, d) → s.idx sd ≤ i + 32767 * c.cap
  ahead : ∀ t sd i d, (s.pc t).watch = some (sd, i, d) → i + d * c.cap ≤ s.idx sd + c.cap

/-- steps of the unrestricted system in which only the threads `0 … n-1` exist -/
def StepT (c : Cfg) (n : Nat) (y y' : Sys) : Prop := Step c y y' ∧ (∀ t, n ≤ t → y.s.pc t = .idle) ∧ WatchBound c y.s
def ReachT (c : Cfg) (n : Nat) : Sys → Prop := Reachable (· = Sys.init) (StepT c n)

theorem reachO_of_reachT {c : Cfg} {n : Nat} (hlt : n < 16384) {y : Sys} (h : ReachT c n y) : ReachO c y := by
  induction h with
  | base h => exact Reachable.base h
  | tail _ hst ih =>
    have hI := inv_reach (reachF_of_reachO ih)
    exact Reachable.tail ih ⟨hst.1, ⟨fun t sd i hh => held_bound_of_threads hI n hst.2.1 hlt t sd i hh, hst.2.2.stale, hst.2.2.ahead⟩⟩

end Babylon.BQ
