/-
  C02 `bq_wake_view` and C01 `bq_publication_batch`: the two weak-memory cores of the BATCH paths
  (deal_n_continuously / try_deal_n_continuously) over the release/acquire VIEW model of
  Babylon/Core/MemView.lean, with the memory orders of the generated constants of Babylon.Gen.BQ
  (a fence that is missing in the source is extracted as `.rlx`, a no-op).

  (1) Batch publication.  releaser: callback (plain cell accesses); `atomic_thread_fence(ordBatchRelFence)`;
      16-bit `set_version(E+1, ordBatchStore)`.  next dealer: `wait_until…(E+1, ordBatchLoad)` observing that
      store; `atomic_thread_fence(ordBatchAcqFence)`; callback.  `mp_fences_ord` (any releasing / acquiring
      fence, any store / load order, arbitrary steps of anybody in between); `bq_publication_batch`: in EVERY
      view-model execution the next callback's cell read cannot return a message older than the previous
      callback's write and returns exactly that value when the cell was written once.

  (2) Waiter / waker handshake of the batch waker.
        waker  : set_version(E+1, ordBatchStore) [16 bit] ; fence(ordBatchScFence) ; word.load(ordWakeLoad) [32 bit]
                 -> CAS-clear + wake_all iff the waiter mark is seen
        waiter : word.compare_exchange_strong(v, v + WAITER, ordBatchLoad) [32 bit] ; futex_wait(word, v + WAITER)
      The order between the waiter's RMW and the kernel's re-read of the word is supplied by futex_wait itself
      (hash-bucket lock + full barrier): modelled as `fence(seq_cst)` followed by the load, part of the trusted
      kernel-futex contract.  The two halves of the mixed-size futex word are modelled as TWO locations
      `ver` / `wt`: this forgets that they share one coherence order, so it only ADDS behaviours (it is how a
      mixed-size hardware model sees a 16-bit store followed by a 32-bit load) and the theorems are sound for the
      real word.  With the word as ONE location the handshake needs no fence at all — which is why the SC model,
      VRT's whole-cell view mode and the lock-step replay cannot see a dropped fence; under the two-location
      reading the seq_cst fence is necessary: `bq_wake_view_needs_fence`.
      The single-element waker exchanges the whole word (one RMW) and needs no fence.
-/
import Babylon.Core.MemView
import Babylon.Gen.BQ

namespace Babylon.BQ.WakeView
open Babylon.Core Babylon.Core.MemView Babylon.Gen.BQ

variable {L : Type} [DecidableEq L]

/-! ### generic lemmas -/
theorem fence_releases_rel (m : Mem L) (t : Nat) (o : Core.Ord) (h : o.releases = true) :
    (m.tv t).cur ≤ ((m.fence t o).tv t).rel := by
  cases o <;> simp [Core.Ord.releases] at h
  · simp [Mem.fence]; exact View.le_refl _
  · simp [Mem.fence]; exact View.le_join_left _ _
  · simp [Mem.fence]; exact View.le_trans (View.le_join_left _ _) (View.le_join_left _ _)

theorem fence_acquires_cur (m : Mem L) (t : Nat) (o : Core.Ord) (h : o.acquires = true) :
    (m.tv t).acq ≤ ((m.fence t o).tv t).cur := by
  cases o <;> simp [Core.Ord.acquires] at h
  · simp [Mem.fence]; exact View.le_join_right _ _
  · simp [Mem.fence]; exact View.le_join_right _ _
  · simp [Mem.fence]; exact View.le_trans (View.le_join_right _ _) (View.le_join_left _ _)

/-- message passing through fences, for every fence order with the needed strength and every store / load order -/
theorem mp_fences_ord (m : Mem L) (a b : Nat) (l : L) (orf os ol oaf : Core.Ord) (v : Nat)
    (hrel : orf.releases = true) (hacq : oaf.acquires = true)
    {m2 m3 m4 : Mem L} {v' : Nat}
    (hext : ((m.fence a orf).write a l os v).Ext m2) (h : m2.read b l ol (m.len l) = some (m3, v'))
    (hext2 : m3.Ext m4) :
    v' = v ∧ (m.tv a).cur ≤ ((m4.fence b oaf).tv b).cur := by
  have hlen : (m.fence a orf).len l = m.len l := by simp
  have hcur : (m.tv a).cur ≤ ((m.fence a orf).tv a).cur := (Mem.fence_ext m a orf).cur a
  have hW : (m.tv a).cur ≤ ((((m.fence a orf).tv a)).wrote l (m.len l)).relView l (m.len l) os := by
    unfold TView.relView
    split
    · simp only [TView.wrote]; exact View.le_trans hcur (View.le_bump _ _ _)
    · simp only [TView.wrote]; exact View.le_trans (fence_releases_rel m a orf hrel) (View.le_bump _ _ _)
  have hmsg : (((m.fence a orf).write a l os v).hist l)[m.len l]? =
      some ⟨v, ((((m.fence a orf).tv a)).wrote l (m.len l)).relView l (m.len l) os⟩ := by
    rw [Mem.write_hist_same, hlen]; simp [Mem.len]
  generalize ((((m.fence a orf).tv a)).wrote l (m.len l)).relView l (m.len l) os = W at hW hmsg
  have hmsg2 := hext.get? l _ _ hmsg
  obtain ⟨msg, hm, hv, _, rfl⟩ := Mem.read_spec h
  rw [hmsg2] at hm
  cases hm
  refine ⟨hv, ?_⟩
  have h2 := hext2.acq b
  simp only [upd_same] at h2
  have h1 := TView.read_acq_view (m2.tv b) (⟨v, W⟩ : Msg L) l (m.len l) ol
  exact View.le_trans hW (View.le_trans h1 (View.le_trans h2 (fence_acquires_cur m4 b oaf hacq)))

/-! ### (1) batch publication -/
theorem ordBatchRelFence_releases : ordBatchRelFence.releases = true ∧ ordTryBatchRelFence.releases = true := by decide
theorem ordBatchAcqFence_acquires : ordBatchAcqFence.acquires = true ∧ ordTryBatchAcqFence.acquires = true := by decide

/-- **Batch publication in the view model** (deal_n_continuously; the same proof with the `ordTryBatch*` constants gives
`publication_try_batch`).  The releaser `p` accesses the element cell `lc` in its callback (a plain write `item`: relaxed,
no view attached), executes `atomic_thread_fence(ordBatchRelFence)` and stores the next version `nv` into the version cell
`lv` with `ordBatchStore`.  After arbitrary steps of anybody the next dealer `c` loads that version message with
`ordBatchLoad`, after arbitrary steps executes `atomic_thread_fence(ordBatchAcqFence)`, and after arbitrary steps reads
the cell with any order at any admissible timestamp `ts`.  Then the version read returned `nv`, `ts` is not older than
the releaser's cell write — a stale element read is not a behaviour — and if nobody wrote the cell again (exclusive
turn-taking: `bq_exclusive`) the value read is the released one.  Several element words / slots: apply it to each. -/
theorem publication_batch (m : Mem L) (p c : Nat) (lc lv : L) (hne : lc ≠ lv) (item nv : Nat) (o : Core.Ord)
    {m3 m4 m5 m7 m8 : Mem L} {s x ts : Nat}
    (hext : (((m.write p lc .rlx item).fence p ordBatchRelFence).write p lv ordBatchStore nv).Ext m3)
    (hst : m3.read c lv ordBatchLoad (m.len lv) = some (m4, s))
    (hext2 : m4.Ext m5)
    (hext3 : (m5.fence c ordBatchAcqFence).Ext m7)
    (hrd : m7.read c lc o ts = some (m8, x)) :
    s = nv ∧ m.len lc ≤ ts ∧ (m7.len lc = m.len lc + 1 → x = item) := by
  have hlen : (m.write p lc .rlx item).len lv = m.len lv := Mem.write_len_other m p lc .rlx item lv (Ne.symm hne)
  rw [← hlen] at hst
  obtain ⟨hs, hv⟩ := mp_fences_ord (m.write p lc .rlx item) p c lv ordBatchRelFence ordBatchStore ordBatchLoad
    ordBatchAcqFence nv ordBatchRelFence_releases.1 ordBatchAcqFence_acquires.1 hext hst hext2
  have h0 : m.len lc ≤ ((m.write p lc .rlx item).tv p).cur.get lc := by
    simp [TView.wrote]; omega
  have h1 := hv lc
  have h2 := hext3.cur c lc
  have h3 := read_respects_view hrd
  have hts : m.len lc ≤ ts := by omega
  refine ⟨hs, hts, fun hone => ?_⟩
  have e1 : ((m.write p lc .rlx item).hist lc)[m.len lc]? =
      some ⟨item, (((m.tv p).wrote lc (m.len lc)).relView lc (m.len lc) .rlx)⟩ := by
    rw [Mem.write_hist_same]; simp [Mem.len]
  have x1 : (m.write p lc .rlx item).Ext ((m.write p lc .rlx item).fence p ordBatchRelFence) := Mem.fence_ext _ _ _
  have x2 := Mem.write_ext ((m.write p lc .rlx item).fence p ordBatchRelFence) p lv ordBatchStore nv
  have x3 := Mem.read_ext hst
  have x4 := Mem.fence_ext m5 c ordBatchAcqFence
  have xall : (m.write p lc .rlx item).Ext m7 :=
    (((((x1.trans x2).trans hext).trans x3).trans hext2).trans x4).trans hext3
  have e7 := xall.get? lc _ _ e1
  obtain ⟨msg, hm, hx, _, _⟩ := Mem.read_spec hrd
  have hlt := Mem.read_ts_lt hrd
  have : ts = m.len lc := by omega
  subst this
  rw [e7] at hm
  cases hm
  exact hx

/-- the reader side of the hand-off for a callback that only READS the cell (pop → next push on the slot): everything
the releaser had seen or done before its fence — its element reads included — is in the next dealer's view when its
callback starts, so the next write is ordered after those reads (no overwrite race) -/
theorem publication_batch_hb (m : Mem L) (p c : Nat) (lv : L) (nv : Nat)
    {m3 m4 m5 : Mem L} {s : Nat}
    (hext : ((m.fence p ordBatchRelFence).write p lv ordBatchStore nv).Ext m3)
    (hst : m3.read c lv ordBatchLoad (m.len lv) = some (m4, s))
    (hext2 : m4.Ext m5) :
    s = nv ∧ (m.tv p).cur ≤ ((m5.fence c ordBatchAcqFence).tv c).cur :=
  mp_fences_ord m p c lv ordBatchRelFence ordBatchStore ordBatchLoad ordBatchAcqFence nv
    ordBatchRelFence_releases.1 ordBatchAcqFence_acquires.1 hext hst hext2

/-! ### (2) waiter / waker handshake -/
theorem ordBatchScFence_sc : ordBatchScFence = .sc ∧ ordTryBatchScFence = .sc := by decide

/-- **waker's fence first.**  The batch waker `p` stores the new version and executes its `seq_cst` fence.  Whenever
afterwards a waiter `c` passes the full barrier of futex_wait and the kernel's value check loads the version half,
that load cannot return a message older than the waker's store: the waiter does not go to sleep on the stale version. -/
theorem wake_view_waker_first (m : Mem L) (p c : Nat) (lv : L) (nv : Nat) (o : Core.Ord)
    {m2 m3 m4 : Mem L} {ts v : Nat}
    (hext : ((m.write p lv ordBatchStore nv).fence p ordBatchScFence).Ext m2)
    (hext2 : (m2.fence c .sc).Ext m3)
    (hrd : m3.read c lv o ts = some (m4, v)) : m.len lv ≤ ts := by
  rw [ordBatchScFence_sc.1] at hext
  have h := sc_fence_dekker_read (m.write p lv ordBatchStore nv) p c lv o ts v hext hext2 hrd
  have h0 : m.len lv ≤ ((m.write p lv ordBatchStore nv).tv p).cur.get lv := by simp [TView.wrote]; omega
  omega

/-- **waiter's barrier first.**  The waiter `c` sets the waiter mark by an RMW (order `ordBatchLoad`, the order handed to
the CAS of block_until_reach_expected_version_slow) and passes the barrier of futex_wait.  Whenever afterwards the
waker `p` executes its `seq_cst` fence and then loads the mark half with `ordWakeLoad`, that load cannot return a
message older than the waiter's RMW: the waker sees the mark, clears it and calls wake_all.  One of the two fences
comes first in every execution, so at least one side sees the other: no lost wake-up. -/
theorem wake_view_waiter_first (m : Mem L) (p c : Nat) (wt : L) (f : Nat → Nat)
    {m1 m2 m3 m4 : Mem L} {old ts v : Nat}
    (hrmw : m.rmw c wt ordBatchLoad f = some (m1, old))
    (hext : (m1.fence c .sc).Ext m2)
    (hext2 : (m2.fence p ordBatchScFence).Ext m3)
    (hrd : m3.read p wt ordWakeLoad ts = some (m4, v)) : m.len wt ≤ ts := by
  rw [ordBatchScFence_sc.1] at hext2
  have h := sc_fence_dekker_read m1 c p wt ordWakeLoad ts v hext hext2 hrd
  obtain ⟨_, _, _, _, _, _, _, _, _, _, _, hts, _⟩ := Mem.rmw_facts hrmw
  omega

/-! ### litmus tests: exhaustive positive results and negative controls (all by `decide`) -/
inductive Loc | cell | ver | wt
  deriving DecidableEq, Repr

def mem0 : Mem Loc := Mem.init (fun _ => 0)

/-- batch hand-off: releaser writes element 7, fences with `orf`, stores version 1; the next dealer reads the version at
timestamp `tsV`, fences with `oaf`, reads the element at timestamp `tsC`.  Result `version * 100 + element`. -/
def mpRun (orf oaf : Core.Ord) (tsV tsC : Nat) : Option Nat :=
  let m1 := mem0.write 0 .cell .rlx 7
  let m2 := (m1.fence 0 orf).write 0 .ver ordBatchStore 1
  match m2.read 1 .ver ordBatchLoad tsV with
  | none => none
  | some (m3, s) =>
    match (m3.fence 1 oaf).read 1 .cell .rlx tsC with
    | none => none
    | some (_, x) => some (s * 100 + x)

example : mpRun ordBatchRelFence ordBatchAcqFence 1 0 = none := by decide
example : mpRun ordBatchRelFence ordBatchAcqFence 1 1 = some 107 := by decide
example : mpRun ordTryBatchRelFence ordTryBatchAcqFence 1 0 = none := by decide
/-- NEGATIVE CONTROLS: with the release fence or the acquire fence dropped (extracted as `.rlx`) the next dealer sees the new
version and reads the stale element -/
theorem publication_batch_needs_fences : mpRun .rlx ordBatchAcqFence 1 0 = some 100 ∧ mpRun ordBatchRelFence .rlx 1 0 = some 100 := by
  decide

inductive Op
  | wrVer           -- waker: set_version(E+1, ordBatchStore)
  | fenceP          -- waker: atomic_thread_fence(pf)
  | rdWt (ts : Nat) -- waker: load of the word (mark half), reading timestamp ts
  | rmwWt           -- waiter: CAS setting the waiter mark (ordBatchLoad)
  | fenceC          -- waiter: barrier of futex_wait (cf)
  | rdVer (ts : Nat) -- waiter: the kernel's value check (version half), reading timestamp ts
  deriving DecidableEq, Repr

def exec (pf cf : Core.Ord) : Mem Loc → List Op → Option (Mem Loc)
  | m, [] => some m
  | m, .wrVer :: r => exec pf cf (m.write 0 .ver ordBatchStore 1) r
  | m, .fenceP :: r => exec pf cf (m.fence 0 pf) r
  | m, .rdWt ts :: r => match m.read 0 .wt ordWakeLoad ts with | none => none | some (m', _) => exec pf cf m' r
  | m, .rmwWt :: r => match m.rmw 1 .wt ordBatchLoad (· + waiterInc) with | none => none | some (m', _) => exec pf cf m' r
  | m, .fenceC :: r => exec pf cf (m.fence 1 cf) r
  | m, .rdVer ts :: r => match m.read 1 .ver .rlx ts with | none => none | some (m', _) => exec pf cf m' r

def merge {α : Type} : List Bool → List α → List α → List α
  | [], xs, ys => xs ++ ys
  | _ :: _, [], ys => ys
  | _ :: _, xs, [] => xs
  | true :: bs, x :: xs, ys => x :: merge bs xs ys
  | false :: bs, xs, y :: ys => y :: merge bs xs ys

def allBits : Nat → List (List Bool)
  | 0 => [[]]
  | n + 1 => (allBits n).map (true :: ·) ++ (allBits n).map (false :: ·)

def interleavings {α : Type} (xs ys : List α) : List (List α) := (allBits 6).map (fun bits => merge bits xs ys)

/-- is there an interleaving of the batch waker and a waiter in which BOTH read the initial message of the other's half
(the waker sees no mark and does not wake, the kernel sees the old version and lets the waiter sleep) — a lost wake-up? -/
def lostWakeup (pf cf : Core.Ord) : Bool :=
  (interleavings [Op.wrVer, .fenceP, .rdWt 0] [Op.rmwWt, .fenceC, .rdVer 0]).any
    (fun sch => (exec pf cf mem0 sch).isSome)

/-- **`bq_wake_view` (litmus form)**: with the batch waker's fence of the source (deal_n_continuously and
try_deal_n_continuously) and the futex barrier, no interleaving of the view model loses the wake-up — all interleavings
of the two 3-operation programs (enumerated through 64 choice-bit strings), stale reads included. -/
theorem wake_view : lostWakeup ordBatchScFence .sc = false ∧ lostWakeup ordTryBatchScFence .sc = false := by decide
/-- NEGATIVE CONTROL: with the waker's `seq_cst` fence dropped (extracted as `.rlx`) or weakened to acq_rel the wake-up can
be lost: the dropped-fence mutation is a theorem-level failure (`wake_view` does not check any more) -/
theorem wake_view_needs_fence : lostWakeup .rlx .sc = true ∧ lostWakeup .acqrel .sc = true := by decide
/-- NEGATIVE CONTROL: the waiter's side needs the barrier of futex_wait as well -/
theorem wake_view_needs_futex_barrier : lostWakeup ordBatchScFence .rlx = true := by decide

end Babylon.BQ.WakeView
