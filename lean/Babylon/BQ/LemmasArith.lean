/-
  Arithmetic of tickets, slots and versions; attribute lemmas for the small control-flow helpers
  (`runK`, `finishTry`, `tryK`, `afterWait`, `blockHead`, …).
-/
import Babylon.BQ.Attr

namespace Babylon.BQ
open Babylon.Core Babylon.Gen.BQ

theorem cap_pos (c : Cfg) : 0 < c.cap := Nat.two_pow_pos c.bits

theorem slotOf_lt (c : Cfg) (i : Nat) : slotOf c i < c.cap := Nat.mod_lt _ (cap_pos c)

theorem div_mod_cap (c : Cfg) (i : Nat) : c.cap * (i / c.cap) + slotOf c i = i := Nat.div_add_mod i c.cap

/-- inside a well-formed segment the `k`-th ticket sits `k` slots further, in the same round -/
theorem seg_ticket (c : Cfg) (g : Seg) (hw : g.wf c) (k : Nat) (hk : k < g.n) :
    slotOf c (g.idx + k) = slotOf c g.idx + k ∧ (g.idx + k) / c.cap = g.idx / c.cap := by
  have hc := cap_pos c
  have h1 := div_mod_cap c g.idx
  have hlt : slotOf c g.idx + k < c.cap := by unfold Seg.wf at hw; omega
  have e : g.idx + k = (slotOf c g.idx + k) + c.cap * (g.idx / c.cap) := by omega
  constructor
  · unfold slotOf at *
    rw [e, Nat.add_mul_mod_self_left, Nat.mod_eq_of_lt hlt]
  · rw [e, Nat.add_mul_div_left _ _ hc, Nat.div_eq_of_lt hlt]; omega

theorem seg_E (c : Cfg) (g : Seg) (hw : g.wf c) (k : Nat) (hk : k < g.n) :
    expVer c g.sd (g.idx + k) = g.E c := by
  unfold expVer Seg.E expVer
  rw [(seg_ticket c g hw k hk).2]

theorem seg_slot (c : Cfg) (g : Seg) (hw : g.wf c) (k : Nat) (hk : k < g.n) :
    g.slot c k = slotOf c (g.idx + k) := by
  unfold Seg.slot; rw [(seg_ticket c g hw k hk).1]

/-- a deal is determined by its slot and its version -/
theorem deal_inj (c : Cfg) (sd sd' : Side) (i i' : Nat)
    (hs : slotOf c i = slotOf c i') (he : expVer c sd i = expVer c sd' i') : sd = sd' ∧ i = i' := by
  have h1 := div_mod_cap c i
  have h2 := div_mod_cap c i'
  unfold expVer at he
  cases sd <;> cases sd' <;> simp at he <;> first
    | (have : i / c.cap = i' / c.cap := by omega
       refine ⟨rfl, ?_⟩
       rw [← h1, ← h2, this, hs])
    | omega

theorem expVer_parity (c : Cfg) (i i' : Nat) : expVer c .push i ≠ expVer c .pop i' := by
  unfold expVer; simp; omega

theorem expVer_pop_succ (c : Cfg) (i : Nat) : expVer c .pop i = expVer c .push i + 1 := by
  unfold expVer; simp

theorem v16_word (s : State) (j : Nat) : v16 (s.word j) = v16 (s.ver j) := by
  unfold State.word v16 waiterInc
  split <;> simp

/-! ### splitSegs -/
theorem nextRound_gt (c : Cfg) (i : Nat) : i < nextRound c i ∧ nextRound c i = i - slotOf c i + c.cap := by
  have h := div_mod_cap c i
  have hl := slotOf_lt c i
  have e : (i / c.cap + 1) * c.cap = c.cap * (i / c.cap) + c.cap := by
    rw [Nat.add_mul, Nat.one_mul, Nat.mul_comm]
  unfold nextRound
  omega

theorem slotOf_nextRound (c : Cfg) (i : Nat) : slotOf c (nextRound c i) = 0 := by
  unfold slotOf nextRound; simp

theorem splitSegs_spec (c : Cfg) (sd : Side) (i n : Nat) (h1 : 1 ≤ n) (hn : n ≤ c.cap) :
    let r := splitSegs c sd i n
    r.1.wf c ∧ 0 < r.1.n ∧ r.1.sd = sd ∧ r.1.idx = i ∧ optSegWf c r.2 ∧ linked sd (i + r.1.n) r.2 ∧
    (r.1.n + (match r.2 with | none => 0 | some g => g.n) = n) := by
  have hr := nextRound_gt c i
  have hs := slotOf_lt c i
  have hd := div_mod_cap c i
  simp only [splitSegs]
  split
  · simp [Seg.wf, optSegWf, linked]; omega
  · simp [Seg.wf, optSegWf, linked, slotOf_nextRound]; omega

theorem segLb_self (c : Cfg) (g : Seg) (a : Nat) (sl : Nat) : segLb c g a a sl = 0 := by
  unfold segLb; split
  · omega
  · rfl

/-! ### attributes of the control-flow helpers -/
theorem finishTry_held (x : TryCtx) (r : Nat) : (finishTry x r).held = x.held := by
  unfold finishTry TryCtx.held; cases x.back <;> rfl
theorem finishTry_lb (c : Cfg) (x : TryCtx) (r : Nat) : (finishTry x r).lb c = x.lb c := by
  unfold finishTry TryCtx.lb; cases x.back <;> rfl
theorem finishTry_needs (x : TryCtx) (r : Nat) : (finishTry x r).needs = x.backNeeds := by
  unfold finishTry TryCtx.backNeeds; cases x.back <;> rfl
theorem finishTry_expects (x : TryCtx) (r : Nat) : (finishTry x r).expects = fun _ => none := by
  unfold finishTry; cases x.back <;> rfl
theorem finishTry_wf (c : Cfg) (x : TryCtx) (r : Nat) (sd : Side) (e : Nat) (h : x.wf c sd) :
    (finishTry x r).wf c sd e := by
  unfold finishTry; unfold TryCtx.wf at h
  cases hb : x.back <;> simp [hb, K.wf] at *
  exact ⟨h.1, h.2.2⟩

theorem tryK_held (x : TryCtx) (g : Seg) (n : Nat) : (tryK x g n).held = x.held := by
  unfold tryK; split
  · exact finishTry_held _ _
  · cases h : x.g2
    · exact finishTry_held _ _
    · simp only [K.held, TryCtx.held]
theorem tryK_lb (c : Cfg) (x : TryCtx) (g : Seg) (n : Nat) : (tryK x g n).lb c = x.lb c := by
  unfold tryK; split
  · exact finishTry_lb _ _ _
  · cases h : x.g2
    · exact finishTry_lb _ _ _
    · simp only [K.lb, TryCtx.lb]

theorem runK_held (c : Cfg) (sd : Side) (e : Nat) (k : K) (hw : k.wf c sd e) : (runK k).held = k.held := by
  cases k with
  | ret r => rfl
  | block w k g =>
    simp only [runK, startWaitSeg]
    split
    · funext sd i; simp [Pc.held, BCtx.held, K.held]
    · funext sd i; simp [Pc.held, WCtx.held, K.held]
  | tryNext x g =>
    have : g.n ≠ 0 := by simp [K.wf] at hw; omega
    simp only [runK, this, if_false]; rfl
  | comp g => funext sd i; simp [runK, Pc.held, CompCtx.held, K.held, optSegTk]
  | back cc => rfl

theorem runK_lb (c : Cfg) (sd : Side) (e : Nat) (k : K) (hw : k.wf c sd e) : (runK k).lb c = k.lb c := by
  cases k with
  | ret r => rfl
  | block w k g =>
    simp only [runK, startWaitSeg]
    split
    · simp [K.wf] at hw; omega
    · funext sl; simp [Pc.lb, K.lb, segLb_self]
  | tryNext x g =>
    have : g.n ≠ 0 := by simp [K.wf] at hw; omega
    simp only [runK, this, if_false]
    funext sl; simp [Pc.lb, K.lb, segLb_self]
  | comp g => funext sl; simp [runK, Pc.lb, CompCtx.lb, K.lb, segLb_self]
  | back cc => rfl

theorem runK_needs (c : Cfg) (sd : Side) (e : Nat) (k : K) (hw : k.wf c sd e) : (runK k).needs = k.needs := by
  cases k with
  | ret r => rfl
  | block w k g =>
    simp only [runK, startWaitSeg]
    split <;> rfl
  | tryNext x g =>
    have : g.n ≠ 0 := by simp [K.wf] at hw; omega
    simp only [runK, this, if_false]; rfl
  | comp g => rfl
  | back cc => rfl

theorem runK_expects (c : Cfg) (sd : Side) (e : Nat) (k : K) (hw : k.wf c sd e) : (runK k).expects = k.expects := by
  cases k with
  | ret r => rfl
  | block w k g =>
    simp only [runK, startWaitSeg]
    split <;> rfl
  | tryNext x g =>
    have : g.n ≠ 0 := by simp [K.wf] at hw; omega
    simp only [runK, this, if_false]; rfl
  | comp g => rfl
  | back cc => rfl

theorem runK_cbDone (k : K) : (runK k).cbDone = fun _ _ => False := by
  cases k with
  | ret r => rfl
  | block w k g => simp only [runK, startWaitSeg]; split <;> rfl
  | tryNext x g => simp only [runK]; split <;> rfl
  | comp g => rfl
  | back cc => rfl

theorem runK_wf (c : Cfg) (sd : Side) (e : Nat) (k : K) (hw : k.wf c sd e) : (runK k).wf c := by
  cases k with
  | ret r => trivial
  | block w k g =>
    simp only [runK, startWaitSeg]
    simp [K.wf] at hw
    have : g.n ≠ 0 := by omega
    simp [this, Pc.wf, WCtx.wf, K.wf, K.isBlock, hw]
  | tryNext x g =>
    simp [K.wf] at hw
    have : g.n ≠ 0 := by omega
    simp only [runK, this, if_false]
    simp [Pc.wf, hw, optSegWf, linked]
  | comp g =>
    simp [K.wf] at hw
    simp [runK, Pc.wf, CompCtx.wf, hw, optSegWf, linked]
  | back cc =>
    simp [K.wf] at hw
    simp [runK, Pc.wf, hw]
end Babylon.BQ
