/-
  The inductive invariant of the bounded queue (safety part) and its preservation by every step of
  the transition system, under `Ver16Faithful` for the stepping thread.
-/
import Babylon.BQ.StepCases3

namespace Babylon.BQ
open Babylon.Core Babylon.Gen.BQ

def State.ghostV (s : State) : Side → Nat → Option Nat
  | .push => s.pushedV
  | .pop => s.poppedV

structure Inv (c : Cfg) (y : Sys) : Prop where
  wf : ∀ t, (y.s.pc t).wf c
  /-- a ticket is held by at most one thread -/
  uniq : ∀ t u sd i, (y.s.pc t).held sd i → (y.s.pc u).held sd i → t = u
  /-- a held ticket was issued and its deal has not been completed -/
  heldLt : ∀ t sd i, (y.s.pc t).held sd i → i < y.s.idx sd ∧ y.s.ver (slotOf c i) ≤ expVer c sd i
  /-- an issued ticket nobody holds has been completed -/
  doneGt : ∀ sd i, i < y.s.idx sd → (∀ t, ¬ (y.s.pc t).held sd i) → expVer c sd i < y.s.ver (slotOf c i)
  /-- tickets not yet issued have not been dealt -/
  futLe : ∀ sd i, y.s.idx sd ≤ i → y.s.ver (slotOf c i) ≤ expVer c sd i
  /-- versions a thread has observed are still lower bounds -/
  lbLe : ∀ t sl, (y.s.pc t).lb c sl ≤ y.s.ver sl
  needsLe : ∀ t sd, (y.s.pc t).needs sd ≤ optLevel (y.cur t) sd
  excl : ∀ t u sd, t ≠ u → optLevel (y.cur t) sd = 2 → optLevel (y.cur u) sd = 0
  expOk : ∀ t sd i, (y.s.pc t).expects sd = some i → y.s.idx sd = i
  /-- a readable slot holds the value pushed with the ticket that made it readable -/
  valRd : ∀ i, y.s.ver (slotOf c i) = expVer c .pop i → y.s.pushedV i = some (y.s.val (slotOf c i))
  valWr : ∀ t i, (y.s.pc t).cbDone .push i → y.s.pushedV i = some (y.s.val (slotOf c i))
  popPush : ∀ i v, y.s.poppedV i = some v → y.s.pushedV i = some v
  ghostDef : ∀ sd i, i < y.s.idx sd → (∀ t, (y.s.pc t).held sd i → (y.s.pc t).cbDone sd i) → y.s.ghostV sd i ≠ none
  ghostLt : ∀ sd i, y.s.ghostV sd i ≠ none → i < y.s.idx sd
  /-- the ghost value of a ticket is written by its callback, not before -/
  ghostNone : ∀ t sd i, (y.s.pc t).held sd i → ¬ (y.s.pc t).cbDone sd i → y.s.ghostV sd i = none
  startLe : ∀ t sd, y.s.pc t ≠ .idle → y.start t sd ≤ y.s.idx sd
  heldGe : ∀ t sd i, (y.s.pc t).held sd i → y.start t sd ≤ i

theorem Inv.pre {c : Cfg} {y : Sys} (h : Inv c y) (t : Nat) : Pre c y.s (y.s.pc t) :=
  ⟨h.wf t, h.lbLe t, h.expOk t⟩

/-- a thread that holds a ticket and has observed its version is in the critical section: the slot
version is exactly the expected one -/
theorem Inv.crit {c : Cfg} {y : Sys} (h : Inv c y) (t : Nat) (sd : Side) (i : Nat)
    (hh : (y.s.pc t).held sd i) (hl : expVer c sd i ≤ (y.s.pc t).lb c (slotOf c i)) :
    y.s.ver (slotOf c i) = expVer c sd i := by
  have h1 := (h.heldLt t sd i hh).2
  have h2 := h.lbLe t (slotOf c i)
  omega

theorem level_le_two (k : Option Call) (sd : Side) : optLevel k sd ≤ 2 := by
  cases k with
  | none => simp [optLevel]
  | some k =>
    simp only [optLevel, Call.level]; split
    · omega
    · split <;> omega

theorem lvlConc_false : lvlConc false = 2 := rfl

theorem K_expects_needs (k : K) (sd : Side) (i : Nat) (h : k.expects sd = some i) : 2 ≤ k.needs sd := by
  cases k with
  | tryNext x g =>
    simp only [K.expects] at h
    split at h
    · rename_i e
      simp only [K.needs, sideIf, e.2, e.1, if_true, lvlConc_false]; omega
    · cases h
  | ret r => cases h
  | block a b g => cases h
  | comp g => cases h
  | back cc => cases h

theorem expects_needs (p : Pc) (sd : Side) (i : Nat) (h : p.expects sd = some i) : 2 ≤ p.needs sd := by
  cases p <;> simp only [Pc.expects] at h <;> first
    | cases h
    | exact K_expects_needs _ _ _ h
    | (split at h
       · rename_i e
         first
           | (simp only [Pc.needs, sideIf, e, if_true]; omega)
           | (simp only [Pc.needs, sideIf, e.2, e.1, if_true, lvlConc_false]; omega)
       · cases h)

theorem cbDone_crit (c : Cfg) (p : Pc) (hw : p.wf c) (sd : Side) (i : Nat) (h : p.cbDone sd i) :
    p.held sd i ∧ expVer c sd i ≤ p.lb c (slotOf c i) := by
  cases p <;> simp only [Pc.cbDone] at h <;> try (cases h; done)
  · rename_i sd0 i0 wake res
    obtain ⟨rfl, rfl⟩ := h
    exact ⟨⟨rfl, rfl⟩, by simp [Pc.lb, oneLb]⟩
  · rename_i b
    have hw' : (b.g.wf c ∧ _) ∧ 0 < b.g.n := hw
    obtain ⟨rfl, h2, h3⟩ := h
    refine ⟨Or.inl ⟨rfl, h2, h3⟩, ?_⟩
    have hk : i - b.g.idx < b.g.n := by omega
    have e : b.g.idx + (i - b.g.idx) = i := by omega
    have hs := seg_slot c b.g hw'.1.1 _ hk
    have hE := seg_E c b.g hw'.1.1 _ hk
    rw [e] at hs hE
    rw [← hs, hE]; simp only [Pc.lb, BCtx.lb]
    rw [segLb_in c b.g 0 b.g.n _ (Nat.zero_le _) hk]; exact Nat.le_max_left _ _
  · rename_i b j
    have hw' : (b.g.wf c ∧ _) ∧ j < b.g.n := hw
    obtain ⟨rfl, h2, h3⟩ := h
    refine ⟨Or.inl ⟨rfl, h2, h3⟩, ?_⟩
    have hk : i - b.g.idx < b.g.n := by omega
    have e : b.g.idx + (i - b.g.idx) = i := by omega
    have hs := seg_slot c b.g hw'.1.1 _ hk
    have hE := seg_E c b.g hw'.1.1 _ hk
    rw [e] at hs hE
    rw [← hs, hE]; simp only [Pc.lb, BCtx.lb]
    rw [segLb_in c b.g j b.g.n _ (by omega) hk]; exact Nat.le_max_left _ _

end Babylon.BQ
