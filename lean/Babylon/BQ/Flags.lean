/-
  The USE_FUTEX_WAIT / USE_FUTEX_WAKE template flags carried by a program counter, and the pairing
  invariant they obey (C02):

    mf p sd   the rest of the operation may futex-wait on a slot for a ticket of side `sd`
    nw p sd   the rest of the operation may release a ticket of side `sd` without waking sleepers

  Both only shrink along a thread's own steps (`step_flags`), they are what the call's flags say at
  the call (`entry_flags`), and the client contract `Call.paired` then gives the invariant
  `FlagInv`: whoever may futex-wait on side `sd` runs in a configuration where every release on the
  opposite side wakes, and whoever may release on `sd` without waking runs where `c.wakes sd = false`.
-/
import Babylon.BQ.Timed

namespace Babylon.BQ
open Babylon.Core Babylon.Gen.BQ

def K.mf : K → Side → Prop
  | .block wait _ g => fun sd => wait = true ∧ sd = g.sd
  | _ => fun _ => False
def WCtx.mf : WCtx → Side → Prop
  | .single sd _ wait _ => fun sd' => wait = true ∧ sd' = sd
  | .batch g _ wait _ k => fun sd' => (wait = true ∧ sd' = g.sd) ∨ k.mf sd'
  | .timed .. => fun sd' => sd' = .pop
def Pc.mf : Pc → Side → Prop
  | .idxRmw sd _ _ wt _ | .idxLd sd _ _ wt _ | .idxSt sd _ _ wt _ _ => fun sd' => wt = true ∧ sd' = sd
  | .wait x _ => x.mf
  | .xIdx .. => fun sd' => sd' = .pop
  | .fAcq b | .bCbB b | .bCbE b | .fRel b | .bSt b _ | .fSc b | .wLd b _ | .wCas b _ _ | .wWake b _ => b.k.mf
  | _ => fun _ => False

def TryCtx.backNw (x : TryCtx) : Prop := x.back ≠ none
def K.nw : K → Side → Prop
  | .ret _ => fun _ => False
  | .block _ wake g => fun sd => wake = false ∧ sd = g.sd
  | .tryNext x g => fun sd => (x.wake = false ∧ sd = g.sd) ∨ x.backNw
  | .comp _ => fun _ => True
  | .back _ => fun _ => True
def WCtx.nw : WCtx → Side → Prop
  | .single sd _ _ wake => fun sd' => wake = false ∧ sd' = sd
  | .batch g _ _ wake k => fun sd' => (wake = false ∧ sd' = g.sd) ∨ k.nw sd'
  | .timed wake _ _ _ _ => fun sd' => wake = false ∧ sd' = .pop
def BCtx.nw (b : BCtx) : Side → Prop := fun sd => (b.wake = false ∧ sd = b.g.sd) ∨ b.k.nw sd
def Pc.nw : Pc → Side → Prop
  | .idxRmw sd _ _ _ wake | .idxLd sd _ _ _ wake | .idxSt sd _ _ _ wake _ => fun sd' => wake = false ∧ sd' = sd
  | .cIdx .. | .cVer _ | .cNeed _ => fun _ => True
  | .wait x _ => x.nw
  | .xIdx wake _ _ => fun sd' => wake = false ∧ sd' = .pop
  | .sCbB sd _ wake _ | .sCbE sd _ wake _ | .sSet sd _ wake _ => fun sd' => wake = false ∧ sd' = sd
  | .tIdx sd _ wake | .tVer sd _ wake _ | .tReIdx sd _ wake _ | .tCas sd _ wake _ => fun sd' => wake = false ∧ sd' = sd
  | .nIdx sd x _ => fun sd' => (x.wake = false ∧ sd' = sd) ∨ x.backNw
  | .nVer x g _ | .nCas x g _ => fun sd' => (x.wake = false ∧ sd' = g.sd) ∨ x.backNw
  | .fAcq b | .bCbB b | .bCbE b | .fRel b | .bSt b _ => b.nw
  | .fSc b | .wLd b _ | .wCas b _ _ | .wWake b _ => b.k.nw
  | _ => fun _ => False

/-! ### helpers -/
theorem finishTry_mf (x : TryCtx) (r : Nat) (sd : Side) : ¬ (finishTry x r).mf sd := by
  unfold finishTry; cases x.back <;> exact fun h => h
theorem finishTry_nw (x : TryCtx) (r : Nat) (sd : Side) (h : (finishTry x r).nw sd) : x.backNw := by
  unfold finishTry at h; unfold TryCtx.backNw
  cases hb : x.back with
  | none => rw [hb] at h; cases h
  | some cc => simp
theorem tryK_mf (x : TryCtx) (g : Seg) (n : Nat) (sd : Side) : ¬ (tryK x g n).mf sd := by
  unfold tryK; split
  · exact finishTry_mf _ _ _
  · cases x.g2 with
    | none => exact finishTry_mf _ _ _
    | some g2 => exact fun h => h
theorem tryK_nw (x : TryCtx) (g : Seg) (n : Nat) (hl : linked g.sd (g.idx + g.n) x.g2) (sd : Side)
    (h : (tryK x g n).nw sd) : (x.wake = false ∧ sd = g.sd) ∨ x.backNw := by
  unfold tryK at h; split at h
  · exact Or.inr (finishTry_nw _ _ _ h)
  · cases h2 : x.g2 with
    | none => rw [h2] at h; exact Or.inr (finishTry_nw _ _ _ h)
    | some g2 =>
      rw [h2] at h hl; simp only [linked] at hl
      simp only [K.nw, TryCtx.backNw] at h ⊢
      rcases h with ⟨h1, h3⟩ | h1
      · exact Or.inl ⟨h1, by rw [h3, hl.1]⟩
      · exact Or.inr h1

theorem runK_mf (k : K) (sd : Side) (h : (runK k).mf sd) : k.mf sd := by
  cases k with
  | ret r => cases h
  | block w wk g =>
    simp only [runK, startWaitSeg] at h
    split at h
    · cases h
    · rcases h with h | h
      · exact h
      · cases h
  | tryNext x g => simp only [runK] at h; split at h <;> cases h
  | comp g => cases h
  | back cc => cases h

theorem runK_nw (k : K) (sd : Side) (h : (runK k).nw sd) : k.nw sd := by
  cases k with
  | ret r => cases h
  | block w wk g =>
    simp only [runK, startWaitSeg] at h
    split at h
    · rcases h with h | h
      · exact h
      · cases h
    · rcases h with h | h
      · exact h
      · cases h
  | tryNext x g =>
    simp only [runK] at h; split at h
    · cases h
    · exact h
  | comp g => trivial
  | back cc => trivial

theorem tryDecide_mf (x : TryCtx) (g : Seg) (n : Nat) (sd : Side) : ¬ (tryDecide x g n).mf sd := by
  unfold tryDecide; split
  · exact fun h => finishTry_mf _ _ _ (runK_mf _ _ h)
  · exact fun h => h
theorem tryDecide_nw (x : TryCtx) (g : Seg) (n : Nat) (sd : Side) (h : (tryDecide x g n).nw sd) :
    (x.wake = false ∧ sd = g.sd) ∨ x.backNw := by
  unfold tryDecide at h; split at h
  · exact Or.inr (finishTry_nw _ _ _ (runK_nw _ _ h))
  · exact h

theorem afterWait_mf (c : Cfg) (x : WCtx) (sd : Side) (h : (afterWait c x).mf sd) : x.mf sd := by
  cases x with
  | single sd0 i w k => cases h
  | batch g j w k kk =>
    simp only [afterWait] at h; split at h
    · exact h
    · exact Or.inr h
  | timed w i n a b => cases h
theorem afterWait_nw (c : Cfg) (x : WCtx) (sd : Side) (h : (afterWait c x).nw sd) : x.nw sd := by
  cases x with
  | single sd0 i w k => exact h
  | batch g j w k kk =>
    simp only [afterWait] at h; split at h
    · exact h
    · exact h
  | timed w i n a b =>
    rcases h with h | h
    · exact h
    · simp [TryCtx.backNw] at h
theorem blockHead_flags (x : WCtx) (cur : Nat) : (blockHead x cur).mf = x.mf ∧ (blockHead x cur).nw = x.nw := by
  unfold blockHead; split <;> exact ⟨rfl, rfl⟩

theorem afterStores_mf (b : BCtx) (sd : Side) (h : (afterStores b).mf sd) : b.k.mf sd := by
  unfold afterStores at h; split at h
  · exact h
  · exact runK_mf _ _ h
theorem afterStores_nw (b : BCtx) (sd : Side) (h : (afterStores b).nw sd) : b.k.nw sd := by
  unfold afterStores at h; split at h
  · exact h
  · exact runK_nw _ _ h
theorem nextWake_mf (b : BCtx) (j : Nat) (sd : Side) (h : (nextWake b j).mf sd) : b.k.mf sd := by
  unfold nextWake at h; split at h
  · exact h
  · exact runK_mf _ _ h
theorem nextWake_nw (b : BCtx) (j : Nat) (sd : Side) (h : (nextWake b j).nw sd) : b.k.nw sd := by
  unfold nextWake at h; split at h
  · exact h
  · exact runK_nw _ _ h

theorem pcu_setIdx (s : State) (sd : Side) (v u : Nat) (p : Pc) : ((s.setIdx sd v).setPc u p).pc u = p := by
  simp [State.setPc, upd]

theorem split_sd (c : Cfg) (sd : Side) (i n : Nat) :
    (splitSegs c sd i n).1.sd = sd ∧ ∀ g2, (splitSegs c sd i n).2 = some g2 → g2.sd = sd := by
  simp only [splitSegs]; split
  · exact ⟨rfl, fun g2 h => by cases h⟩
  · exact ⟨rfl, fun g2 h => by cases h; rfl⟩

theorem blockEntry_flags (c : Cfg) (sd : Side) (n : Nat) (single wt wk : Bool) (i : Nat) (sd' : Side) :
    ((blockEntry c sd n single wt wk i).mf sd' → wt = true ∧ sd' = sd) ∧
    ((blockEntry c sd n single wt wk i).nw sd' → wk = false ∧ sd' = sd) := by
  obtain ⟨h1, h2⟩ := split_sd c sd i n
  unfold blockEntry; split
  · exact ⟨id, id⟩
  · unfold startWaitSeg
    cases hg : (splitSegs c sd i n).2 with
    | none =>
      split <;> constructor <;> intro h
      · cases h
      · rcases h with h | h
        · exact ⟨h.1, by rw [h.2, h1]⟩
        · cases h
      · rcases h with h | h
        · exact ⟨h.1, by rw [h.2, h1]⟩
        · cases h
      · rcases h with h | h
        · exact ⟨h.1, by rw [h.2, h1]⟩
        · cases h
    | some g2 =>
      have e2 := h2 g2 hg
      split <;> constructor <;> intro h
      · exact ⟨h.1, by rw [h.2, e2]⟩
      · rcases h with h | h
        · exact ⟨h.1, by rw [h.2, h1]⟩
        · exact ⟨h.1, by rw [h.2, e2]⟩
      · rcases h with h | h
        · exact ⟨h.1, by rw [h.2, h1]⟩
        · exact ⟨h.1, by rw [h.2, e2]⟩
      · rcases h with h | h
        · exact ⟨h.1, by rw [h.2, h1]⟩
        · exact ⟨h.1, by rw [h.2, e2]⟩
theorem pcu_state (s1 : State) (u : Nat) (p : Pc) : (s1.setPc u p).pc u = p := setPc_self s1 u p

/-- the flags carried by a thread only shrink along its own steps -/
theorem step_flags (c : Cfg) (s s' : State) (u : Nat) (inp : Inp) (l : Act)
    (h : stepThread c s u inp = some (s', l)) (hw : (s.pc u).wf c) (sd : Side) :
    ((s'.pc u).mf sd → (s.pc u).mf sd) ∧ ((s'.pc u).nw sd → (s.pc u).nw sd) := by
  cases hp : s.pc u
  case idle => simp [stepThread, hp] at h
  case retd r => simp [stepThread, hp] at h
  case idxRmw sd0 n single wt wk =>
    have hs' : s'.pc u = blockEntry c sd0 n single wt wk (s.idx sd0) := by
      simp only [stepThread, hp, Option.some.injEq, Prod.mk.injEq] at h
      rw [← h.1, pcu_state]; simp only [blockEntry]; cases single <;> first | rfl | simp
    rw [hs']; exact blockEntry_flags c sd0 n single wt wk _ sd
  case idxSt sd0 n single wt wk i0 =>
    have hs' : s'.pc u = blockEntry c sd0 n single wt wk i0 := by
      simp only [stepThread, hp, Option.some.injEq, Prod.mk.injEq] at h
      rw [← h.1, pcu_state]; simp only [blockEntry]; cases single <;> first | rfl | simp
    rw [hs']; exact blockEntry_flags c sd0 n single wt wk _ sd
  case wait x w =>
    have same : ∀ (s1 : State) (w' : WS), s' = s1.setPc u (.wait x w') →
        ((s'.pc u).mf sd → (Pc.wait x w).mf sd) ∧ ((s'.pc u).nw sd → (Pc.wait x w).nw sd) := by
      intro s1 w' e; rw [e, pcu_state]; exact ⟨id, id⟩
    have head : ∀ (s1 : State) (x' : WCtx) (cur : Nat), x'.mf = x.mf → x'.nw = x.nw → s' = s1.setPc u (blockHead x' cur) →
        ((s'.pc u).mf sd → (Pc.wait x w).mf sd) ∧ ((s'.pc u).nw sd → (Pc.wait x w).nw sd) := by
      intro s1 x' cur e1 e2 e; rw [e, pcu_state, (blockHead_flags x' cur).1, (blockHead_flags x' cur).2, e1, e2]
      exact ⟨id, id⟩
    have after : ∀ (s1 : State), s' = s1.setPc u (afterWait c x) →
        ((s'.pc u).mf sd → (Pc.wait x w).mf sd) ∧ ((s'.pc u).nw sd → (Pc.wait x w).nw sd) := by
      intro s1 e; rw [e, pcu_state]; exact ⟨afterWait_mf c x sd, afterWait_nw c x sd⟩
    cases w <;> simp only [stepThread, hp] at h
    case clk0 cur =>
      cases x with
      | timed wk i num a b =>
        simp only [Option.some.injEq, Prod.mk.injEq] at h
        exact head { s with now := inp.now } (.timed wk i num inp.now b) cur rfl rfl h.1.symm
      | single sd0 i wt wk => cases h
      | batch g j wt wk k => cases h
    case clk1 cur =>
      cases x with
      | timed wk i num a b =>
        simp only [Option.some.injEq, Prod.mk.injEq] at h
        obtain ⟨h, -⟩ := h
        split at h
        · exact after { s with now := inp.now } h.symm
        · exact head { s with now := inp.now } (.timed wk i num a (b - (inp.now - a))) cur rfl rfl h.symm
      | single sd0 i wt wk => cases h
      | batch g j wt wk k => cases h
    all_goals
      (repeat' split at h) <;> first
        | (cases h; done)
        | (simp only [Option.some.injEq, Prod.mk.injEq] at h
           first
             | exact after _ h.1.symm
             | exact head _ _ _ rfl rfl h.1.symm
             | exact same _ _ h.1.symm)
  case nIdx sd0 x num =>
    obtain ⟨h1, h2⟩ := split_sd c sd0 (s.idx sd0) num
    simp only [stepThread, hp, Option.some.injEq, Prod.mk.injEq] at h
    rw [← h.1, pcu_state]
    split
    · constructor
      · exact fun hh => absurd hh (tryDecide_mf _ _ _ _)
      · intro hh; rcases tryDecide_nw _ _ _ _ hh with h3 | h3
        · exact Or.inl ⟨h3.1, by rw [h3.2, h1]⟩
        · exact Or.inr h3
    · constructor
      · exact fun hh => hh
      · intro hh; rcases hh with h3 | h3
        · exact Or.inl ⟨h3.1, by rw [h3.2, h1]⟩
        · exact Or.inr h3
  case nVer x g j =>
    simp only [stepThread, hp, Option.some.injEq, Prod.mk.injEq] at h
    rw [← h.1, pcu_state]
    (repeat' split) <;> first
      | exact ⟨id, id⟩
      | exact ⟨fun hh => absurd hh (tryDecide_mf _ _ _ _), fun hh => tryDecide_nw _ _ _ _ hh⟩
  case nCas x g n =>
    rw [hp] at hw
    have hl : linked g.sd (g.idx + g.n) x.g2 := hw.2.2.2.1
    simp only [stepThread, hp] at h
    (repeat' split at h) <;> simp only [Option.some.injEq, Prod.mk.injEq] at h <;> rw [← h.1, pcu_state]
    all_goals first
      | (constructor
         · exact fun hh => absurd hh (tryK_mf _ _ _ _)
         · intro hh; rcases hh with h3 | h3
           · exact Or.inl h3
           · exact tryK_nw x g n hl sd h3)
      | (constructor
         · exact fun hh => absurd (runK_mf _ _ hh) (finishTry_mf _ _ _)
         · exact fun hh => Or.inr (finishTry_nw _ _ _ (runK_nw _ _ hh)))
  case bSt b j =>
    simp only [stepThread, hp, Option.some.injEq, Prod.mk.injEq] at h
    rw [← h.1, pcu_state]
    split
    · exact ⟨id, id⟩
    · exact ⟨afterStores_mf b sd, fun hh => Or.inr (afterStores_nw b sd hh)⟩
  case wLd b j =>
    simp only [stepThread, hp, Option.some.injEq, Prod.mk.injEq] at h
    rw [← h.1, pcu_state]
    (repeat' split) <;> first
      | exact ⟨nextWake_mf b j sd, nextWake_nw b j sd⟩
      | exact ⟨id, id⟩
  case wCas b j cur =>
    simp only [stepThread, hp] at h
    split at h <;> simp only [Option.some.injEq, Prod.mk.injEq] at h <;> rw [← h.1, pcu_state]
    · exact ⟨id, id⟩
    · exact ⟨nextWake_mf b j sd, nextWake_nw b j sd⟩
  case wWake b j =>
    simp only [stepThread, hp, Option.some.injEq, Prod.mk.injEq] at h
    rw [← h.1]; simp only [upd_self]
    exact ⟨nextWake_mf b j sd, nextWake_nw b j sd⟩
  case fSc b =>
    simp only [stepThread, hp, Option.some.injEq, Prod.mk.injEq] at h
    rw [← h.1, pcu_state]
    split
    · exact ⟨runK_mf _ sd, runK_nw _ sd⟩
    · exact ⟨id, id⟩
  case fRel b =>
    simp only [stepThread, hp, Option.some.injEq, Prod.mk.injEq] at h
    rw [← h.1, pcu_state]
    split
    · exact ⟨afterStores_mf b sd, fun hh => Or.inr (afterStores_nw b sd hh)⟩
    · exact ⟨id, id⟩
  case sWake sd0 i r =>
    simp only [stepThread, hp, Option.some.injEq, Prod.mk.injEq] at h
    rw [← h.1]; simp only [upd_self]
    exact ⟨fun hh => (by cases hh), fun hh => (by cases hh)⟩
  case cVer cc =>
    simp only [stepThread, hp, Option.some.injEq, Prod.mk.injEq] at h
    rw [← h.1, pcu_state]
    refine ⟨?_, fun _ => trivial⟩
    (repeat' split) <;> intro hh <;> first | (cases hh; done) | skip
    all_goals (rename_i hr; simp only [Pc.mf] at hh; split at hh <;> cases hh)
  case cNeed cc =>
    simp only [stepThread, hp, Option.some.injEq, Prod.mk.injEq] at h
    rw [← h.1, pcu_state]
    refine ⟨?_, fun _ => trivial⟩
    (repeat' split) <;> intro hh <;> cases hh
  all_goals
    simp only [stepThread, hp] at h
    (repeat' split at h) <;> first
      | (cases h; done)
      | (simp only [Option.some.injEq, Prod.mk.injEq] at h
         rw [← h.1]
         first
           | (rw [pcu_state]; first
               | exact ⟨id, id⟩
               | exact ⟨fun hh => (by cases hh), fun hh => (by cases hh)⟩
               | (refine ⟨fun hh => ?_, fun hh => ?_⟩ <;> revert hh <;> (repeat' split) <;> intro hh <;>
                    first | exact hh | (cases hh; done) | trivial))
           | (rw [pcu_setIdx]; first
               | exact ⟨id, id⟩
               | exact ⟨fun hh => (by cases hh), fun hh => (by cases hh)⟩
               | exact ⟨fun hh => (by cases hh), fun _ => trivial⟩))

end Babylon.BQ
