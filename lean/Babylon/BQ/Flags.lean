/-
  The USE_FUTEX_WAIT / USE_FUTEX_WAKE template flags carried by a program counter, and the pairing
  invariant they obey (C02):

    mf p sd   the rest of the operation may futex-wait on a slot for a ticket of side `sd`
    nw p sd   the rest of the operation may release a ticket of side `sd` without waking sleepers

  Both only shrink along a thread's own steps (`step_flags`), they are what the call's flags say at
  the call (`entry_flags`), and the client contract `Call.paired` then gives the invariant
  `FlagInv`: whoever may futex-wait on side `sd` runs in a configuration where every release on the
  opposite side wakes, and whoever may release on `sd` without waking runs where `c.wakes sd = false`.
-/
import Babylon.BQ.Timed

namespace Babylon.BQ
open Babylon.Core Babylon.Gen.BQ

def K.mf : K → Side → Prop
  | .block wait _ g => fun sd => wait = true ∧ sd = g.sd
  | _ => fun _ => False
def WCtx.mf : WCtx → Side → Prop
  | .single sd _ wait _ => fun sd' => wait = true ∧ sd' = sd
  | .batch g _ wait _ k => fun sd' => (wait = true ∧ sd' = g.sd) ∨ k.mf sd'
  | .timed .. => fun sd' => sd' = .pop
def Pc.mf : Pc → Side → Prop
  | .idxRmw sd _ _ wt _ | .idxLd sd _ _ wt _ | .idxSt sd _ _ wt _ _ => fun sd' => wt = true ∧ sd' = sd
  | .wait x _ => x.mf
  | .xIdx .. => fun sd' => sd' = .pop
  | .fAcq b | .bCbB b | .bCbE b | .fRel b | .bSt b _ | .fSc b | .wLd b _ | .wCas b _ _ | .wWake b _ => b.k.mf
  | _ => fun _ => False

def TryCtx.backNw (x : TryCtx) : Prop := x.back ≠ none
def K.nw : K → Side → Prop
  | .ret _ => fun _ => False
  | .block _ wake g => fun sd => wake = false ∧ sd = g.sd
  | .tryNext x g => fun sd => (x.wake = false ∧ sd = g.sd) ∨ x.backNw
  | .comp _ => fun _ => True
  | .back _ => fun _ => True
def WCtx.nw : WCtx → Side → Prop
  | .single sd _ _ wake => fun sd' => wake = false ∧ sd' = sd
  | .batch g _ _ wake k => fun sd' => (wake = false ∧ sd' = g.sd) ∨ k.nw sd'
  | .timed wake _ _ _ _ => fun sd' => wake = false ∧ sd' = .pop
def BCtx.nw (b : BCtx) : Side → Prop := fun sd => (b.wake = false ∧ sd = b.g.sd) ∨ b.k.nw sd
def Pc.nw : Pc → Side → Prop
  | .idxRmw sd _ _ _ wake | .idxLd sd _ _ _ wake | .idxSt sd _ _ _ wake _ => fun sd' => wake = false ∧ sd' = sd
  | .cIdx .. | .cVer _ | .cNeed _ => fun _ => True
  | .wait x _ => x.nw
  | .xIdx wake _ _ => fun sd' => wake = false ∧ sd' = .pop
  | .sCbB sd _ wake _ | .sCbE sd _ wake _ | .sSet sd _ wake _ => fun sd' => wake = false ∧ sd' = sd
  | .tIdx sd _ wake | .tVer sd _ wake _ | .tReIdx sd _ wake _ | .tCas sd _ wake _ => fun sd' => wake = false ∧ sd' = sd
  | .nIdx sd x _ => fun sd' => (x.wake = false ∧ sd' = sd) ∨ x.backNw
  | .nVer x g _ | .nCas x g _ => fun sd' => (x.wake = false ∧ sd' = g.sd) ∨ x.backNw
  | .fAcq b | .bCbB b | .bCbE b | .fRel b | .bSt b _ => b.nw
  | .fSc b | .wLd b _ | .wCas b _ _ | .wWake b _ => b.k.nw
  | _ => fun _ => False

/-! ### helpers -/
theorem finishTry_mf (x : TryCtx) (r : Nat) (sd : Side) : ¬ (finishTry x r).mf sd := by
  unfold finishTry; cases x.back <;> exact fun h => h
theorem finishTry_nw (x : TryCtx) (r : Nat) (sd : Side) (h : (finishTry x r).nw sd) : x.backNw := by
  unfold finishTry at h; unfold TryCtx.backNw
  cases hb : x.back with
  | none => rw [hb] at h; cases h
  | some cc => simp
theorem tryK_mf (x : TryCtx) (g : Seg) (n : Nat) (sd : Side) : ¬ (tryK x g n).mf sd := by
  unfold tryK; split
  · exact finishTry_mf _ _ _
  · cases x.g2 with
    | none => exact finishTry_mf _ _ _
    | some g2 => exact fun h => h
theorem tryK_nw (x : TryCtx) (g : Seg) (n : Nat) (hl : linked g.sd (g.idx + g.n) x.g2) (sd : Side)
    (h : (tryK x g n).nw sd) : (x.wake = false ∧ sd = g.sd) ∨ x.backNw := by
  unfold tryK at h; split at h
  · exact Or.inr (finishTry_nw _ _ _ h)
  · cases h2 : x.g2 with
    | none => rw [h2] at h; exact Or.inr (finishTry_nw _ _ _ h)
    | some g2 =>
      rw [h2] at h hl; simp only [linked] at hl
      simp only [K.nw, TryCtx.backNw] at h ⊢
      rcases h with ⟨h1, h3⟩ | h1
      · exact Or.inl ⟨h1, by rw [h3, hl.1]⟩
      · exact Or.inr h1

theorem runK_mf (k : K) (sd : Side) (h : (runK k).mf sd) : k.mf sd := by
  cases k with
  | ret r => cases h
  | block w wk g =>
    simp only [runK, startWaitSeg] at h
    split at h
    · cases h
    · rcases h with h | h
      · exact h
      · cases h
  | tryNext x g => simp only [runK] at h; split at h <;> cases h
  | comp g => cases h
  | back cc => cases h

theorem runK_nw (k : K) (sd : Side) (h : (runK k).nw sd) : k.nw sd := by
  cases k with
  | ret r => cases h
  | block w wk g =>
    simp only [runK, startWaitSeg] at h
    split at h
    · rcases h with h | h
      · exact h
      · cases h
    · rcases h with h | h
      · exact h
      · cases h
  | tryNext x g =>
    simp only [runK] at h; split at h
    · cases h
    · exact h
  | comp g => trivial
  | back cc => trivial

theorem tryDecide_mf (x : TryCtx) (g : Seg) (n : Nat) (sd : Side) : ¬ (tryDecide x g n).mf sd := by
  unfold tryDecide; split
  · exact fun h => finishTry_mf _ _ _ (runK_mf _ _ h)
  · exact fun h => h
theorem tryDecide_nw (x : TryCtx) (g : Seg) (n : Nat) (sd : Side) (h : (tryDecide x g n).nw sd) :
    (x.wake = false ∧ sd = g.sd) ∨ x.backNw := by
  unfold tryDecide at h; split at h
  · exact Or.inr (finishTry_nw _ _ _ (runK_nw _ _ h))
  · exact h

theorem afterWait_mf (c : Cfg) (x : WCtx) (sd : Side) (h : (afterWait c x).mf sd) : x.mf sd := by
  cases x with
  | single sd0 i w k => cases h
  | batch g j w k kk =>
    simp only [afterWait] at h; split at h
    · exact h
    · exact Or.inr h
  | timed w i n a b => cases h
theorem afterWait_nw (c : Cfg) (x : WCtx) (sd : Side) (h : (afterWait c x).nw sd) : x.nw sd := by
  cases x with
  | single sd0 i w k => exact h
  | batch g j w k kk =>
    simp only [afterWait] at h; split at h
    · exact h
    · exact h
  | timed w i n a b =>
    rcases h with h | h
    · exact h
    · simp [TryCtx.backNw] at h
theorem blockHead_flags (x : WCtx) (cur : Nat) : (blockHead x cur).mf = x.mf ∧ (blockHead x cur).nw = x.nw := by
  unfold blockHead; split <;> exact ⟨rfl, rfl⟩

theorem afterStores_mf (b : BCtx) (sd : Side) (h : (afterStores b).mf sd) : b.k.mf sd := by
  unfold afterStores at h; split at h
  · exact h
  · exact runK_mf _ _ h
theorem afterStores_nw (b : BCtx) (sd : Side) (h : (afterStores b).nw sd) : b.k.nw sd := by
  unfold afterStores at h; split at h
  · exact h
  · exact runK_nw _ _ h
theorem nextWake_mf (b : BCtx) (j : Nat) (sd : Side) (h : (nextWake b j).mf sd) : b.k.mf sd := by
  unfold nextWake at h; split at h
  · exact h
  · exact runK_mf _ _ h
theorem nextWake_nw (b : BCtx) (j : Nat) (sd : Side) (h : (nextWake b j).nw sd) : b.k.nw sd := by
  unfold nextWake at h; split at h
  · exact h
  · exact runK_nw _ _ h

end Babylon.BQ
