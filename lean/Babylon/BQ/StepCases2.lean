/-
  `step_summary`, part 2: `wait_until_reach_expected_version` (fast path, futex slow path, spin slow
  path, timed variant).
-/
import Babylon.BQ.StepCases1

namespace Babylon.BQ
open Babylon.Core Babylon.Gen.BQ

theorem blockHead_eq (x : WCtx) (cur : Nat) : ∃ w', blockHead x cur = .wait x w' := by
  unfold blockHead; split
  · exact ⟨_, rfl⟩
  · exact ⟨_, rfl⟩

/-- two wait contexts with the same attributes -/
def WSame (x x' : WCtx) : Prop :=
  x' = x ∨ ∃ wake i num a b a' b', x = .timed wake i num a b ∧ x' = .timed wake i num a' b'

theorem quiet_wait (c : Cfg) (s s' : State) (t : Nat) (x x' : WCtx) (w w' : WS)
    (hp : s.pc t = .wait x w) (pre : Pre c s (.wait x w)) (hcore : Core s s') (hpcs : s'.pc = upd s.pc t (.wait x' w'))
    (hx : WSame x x') : Summary c s t s' := by
  have hattr : (Pc.wait x' w').held = (Pc.wait x w).held ∧ (Pc.wait x' w').cbDone = (Pc.wait x w).cbDone ∧
      (Pc.wait x' w').needs = (Pc.wait x w).needs ∧ ((Pc.wait x' w').wf c ↔ (Pc.wait x w).wf c) ∧
      (Pc.wait x' w').lb c = (Pc.wait x w).lb c ∧ (Pc.wait x' w').expects = (Pc.wait x w).expects := by
    rcases hx with rfl | ⟨wake, i, num, a, b, a', b', rfl, rfl⟩
    · refine ⟨rfl, rfl, ?_, Iff.rfl, ?_, rfl⟩
      · cases x' <;> rfl
      · cases x' <;> rfl
    · exact ⟨rfl, rfl, rfl, Iff.rfl, rfl, rfl⟩
  obtain ⟨h1, h2, h3, h4, h5, h6⟩ := hattr
  refine Summary.ofQuiet (.wait x' w') s.pc hcore hpcs (fun u => AttrEq.rfl' c _) ?_ ?_ ?_ ?_ ?_ ?_ ?_
  · intro sd i; rw [hp, h1]
  · intro sd i; rw [hp, h2]
  · intro sd; rw [hp, h3]; exact Nat.le_refl _
  · exact h4.2 pre.wf
  · intro sl; rw [h5]; exact pre.lb sl
  · intro sd i h; rw [h6] at h; exact pre.exp sd i h
  · rw [hp]; simp

theorem segLb_succ (c : Cfg) (g : Seg) (j sl : Nat) :
    segLb c g 0 (j + 1) sl ≤ max (segLb c g 0 j sl) (if sl = g.slot c j then g.E c else 0) := by
  unfold segLb Seg.slot
  by_cases h2 : sl = slotOf c g.idx + j
  · simp [h2]
  · by_cases h1 : slotOf c g.idx + 0 ≤ sl ∧ sl < slotOf c g.idx + (j + 1)
    · have h3 : slotOf c g.idx + 0 ≤ sl ∧ sl < slotOf c g.idx + j := by omega
      rw [if_pos h1, if_pos h3]; exact Nat.le_max_left _ _
    · rw [if_neg h1]; exact Nat.zero_le _

theorem segLb_le (c : Cfg) (g : Seg) (a b sl : Nat) : segLb c g a b sl ≤ g.E c := by
  unfold segLb; split
  · exact Nat.le_refl _
  · exact Nat.zero_le _

theorem quiet_afterWait (c : Cfg) (s s' : State) (t : Nat) (x : WCtx) (w : WS)
    (hp : s.pc t = .wait x w) (pre : Pre c s (.wait x w)) (hcore : Core s s') (hpcs : s'.pc = upd s.pc t (afterWait c x))
    (hobs : x.isTimed = false → s.ver (x.slot c) = x.E c) : Summary c s t s' := by
  refine Summary.ofQuiet (afterWait c x) s.pc hcore hpcs (fun u => AttrEq.rfl' c _) ?_ ?_ ?_ ?_ ?_ ?_ ?_
  all_goals (try rw [hp])
  all_goals cases x with
    | single sd i wait wake => ?_
    | batch g j wait wake k => ?_
    | timed wake i num a b => ?_
  -- held
  · intro sd' i'; rfl
  · intro sd' i'; simp only [afterWait]; split <;> rfl
  · intro sd' i'; simp [afterWait, Pc.held, TryCtx.held, WCtx.held]
  -- cbDone
  · intro sd' i'; rfl
  · intro sd' i'; simp only [afterWait]; split <;> rfl
  · intro sd' i'; rfl
  -- needs
  · intro sd'; exact Nat.le_refl _
  · intro sd'; simp only [afterWait]; split <;> exact Nat.le_refl _
  · intro sd'; simp [afterWait, Pc.needs, TryCtx.backNeeds, lvlConc]
  -- wf
  · trivial
  · have hw := pre.wf; simp only [Pc.wf, WCtx.wf] at hw
    simp only [afterWait]; split
    · simp only [Pc.wf, WCtx.wf]; exact ⟨hw.1, by assumption, hw.2.2⟩
    · simp only [Pc.wf, BCtx.wf]; exact ⟨⟨hw.1, hw.2.2.1⟩, by omega⟩
  · have hw := pre.wf; simp only [Pc.wf, WCtx.wf] at hw
    simp only [afterWait, Pc.wf, TryCtx.wf]; exact ⟨trivial, hw.1, hw.2, trivial⟩
  -- lb
  · intro sl; have ho := hobs rfl
    simp only [afterWait, Pc.lb, oneLb]; split
    · rename_i e; rw [e]; simp only [WCtx.slot, WCtx.E] at ho; rw [ho]; exact Nat.le_refl _
    · exact Nat.zero_le _
  · intro sl; have ho := hobs rfl
    simp only [WCtx.slot, WCtx.E] at ho
    have hw := pre.wf; simp only [Pc.wf, WCtx.wf] at hw
    have hl := pre.lb sl; simp only [Pc.lb] at hl
    have hs := segLb_succ c g j sl
    have hk : k.lb c sl ≤ s.ver sl := by omega
    have h1 : segLb c g 0 (j + 1) sl ≤ s.ver sl := by
      by_cases e : sl = g.slot c j
      · rw [e, ho]; exact segLb_le _ _ _ _ _
      · rw [if_neg e] at hs; omega
    simp only [afterWait]; split
    · simp only [Pc.lb]; omega
    · have : g.n = j + 1 := by omega
      simp only [Pc.lb, BCtx.lb, this]; omega
  · intro sl; simp [afterWait, Pc.lb, TryCtx.lb]
  -- expects
  · intro sd' i' h; cases h
  · intro sd' i' h
    have hw := pre.wf; simp only [Pc.wf, WCtx.wf] at hw
    simp only [afterWait] at h; split at h
    · cases h
    · simp only [Pc.expects] at h
      cases k <;> simp [K.isBlock] at hw <;> cases h
  · intro sd' i' h; simp [afterWait, Pc.expects] at h
  -- idle
  · simp [afterWait]
  · simp only [afterWait]; split <;> simp
  · simp [afterWait]

theorem core_refl (s : State) : Core s s := ⟨rfl, rfl, rfl, rfl, rfl, rfl⟩

theorem sum_wait (c : Cfg) (s s' : State) (t : Nat) (inp : Inp) (l : Act) (x : WCtx) (w : WS)
    (hp : s.pc t = .wait x w)
    (h : stepThread c s t inp = some (s', l)) (pre : Pre c s (s.pc t)) (hf : Faithful c s t) : Summary c s t s' := by
  rw [hp] at pre
  -- the three shapes of successor
  have same : ∀ (s1 : State) (x' : WCtx) (w' : WS), Core s s1 → s1.pc = s.pc → WSame x x' →
      s' = s1.setPc t (.wait x' w') → Summary c s t s' := by
    intro s1 x' w' hc hpcs hx hs'
    have hc' : Core s s' := by rw [hs']; exact ⟨hc.1, hc.2, hc.3, hc.4, hc.5, hc.6⟩
    exact quiet_wait c s s' t x x' w w' hp pre hc' (by rw [hs']; simp only [State.setPc, hpcs]) hx
  have head : ∀ (s1 : State) (x' : WCtx) (cur : Nat), Core s s1 → s1.pc = s.pc → WSame x x' →
      s' = s1.setPc t (blockHead x' cur) → Summary c s t s' := by
    intro s1 x' cur hc hpcs hx hs'
    obtain ⟨w', hw'⟩ := blockHead_eq x' cur
    rw [hw'] at hs'; exact same s1 x' w' hc hpcs hx hs'
  have after : (x.isTimed = false → s.ver (x.slot c) = x.E c) → s' = s.setPc t (afterWait c x) → Summary c s t s' := by
    intro ho hs'
    exact quiet_afterWait c s s' t x w hp pre (by rw [hs']; exact ⟨rfl, rfl, rfl, rfl, rfl, rfl⟩) (by rw [hs']; rfl) ho
  have hfa : ∀ w0, (w0 = WS.load0 ∨ (∃ cur, w0 = WS.cas cur) ∨ w0 = WS.reload ∨ w0 = WS.spin) → w = w0 →
      (v16 (s.ver (x.slot c)) = v16 (x.E c) ↔ s.ver (x.slot c) = x.E c) := by
    intro w0 hw0 e; subst e
    apply hf; rw [hp]
    rcases hw0 with rfl | ⟨cur, rfl⟩ | rfl | rfl <;> rfl
  cases w with
  | load0 =>
    simp only [stepThread, hp, Option.some.injEq, Prod.mk.injEq, v16_word] at h
    have hfa := hfa _ (Or.inl rfl) rfl
    obtain ⟨h, -⟩ := h
    split at h
    · rename_i e; exact after (fun _ => hfa.1 e) h.symm
    · split at h
      · split at h
        · exact same s _ _ (core_refl s) rfl (Or.inl rfl) h.symm
        · exact head s _ _ (core_refl s) rfl (Or.inl rfl) h.symm
      · exact same s _ _ (core_refl s) rfl (Or.inl rfl) h.symm
  | clk0 cur =>
    cases x with
    | timed wake i num a b =>
      simp only [stepThread, hp, Option.some.injEq, Prod.mk.injEq] at h
      exact head { s with now := inp.now } _ _ ⟨rfl, rfl, rfl, rfl, rfl, rfl⟩ rfl (Or.inr ⟨_, _, _, _, _, _, _, rfl, rfl⟩) h.1.symm
    | single sd i wait wake => simp [stepThread, hp] at h
    | batch g j wait wake k => simp [stepThread, hp] at h
  | cas cur =>
    simp only [stepThread, hp] at h
    have hfa := hfa _ (Or.inr (Or.inl ⟨cur, rfl⟩)) rfl
    split at h
    · simp only [Option.some.injEq, Prod.mk.injEq] at h
      exact same { s with wbit := upd s.wbit (x.slot c) true } _ _ ⟨rfl, rfl, rfl, rfl, rfl, rfl⟩ rfl (Or.inl rfl) h.1.symm
    · simp only [Option.some.injEq, Prod.mk.injEq, v16_word] at h
      obtain ⟨h, -⟩ := h
      split at h
      · rename_i e; exact after (fun _ => hfa.1 e) h.symm
      · exact head s _ _ (core_refl s) rfl (Or.inl rfl) h.symm
  | fwait cur =>
    simp only [stepThread, hp] at h
    split at h <;> simp only [Option.some.injEq, Prod.mk.injEq] at h <;>
      exact same s _ _ (core_refl s) rfl (Or.inl rfl) h.1.symm
  | asleep cur =>
    simp only [stepThread, hp] at h
    split at h
    · rename_i e
      simp only [Option.some.injEq, Prod.mk.injEq] at h
      refine after (fun ht => ?_) h.1.symm
      simp only [Bool.and_eq_true] at e; rw [ht] at e; cases e.2
    · cases h
  | woken =>
    simp only [stepThread, hp, Option.some.injEq, Prod.mk.injEq] at h
    exact same s _ _ (core_refl s) rfl (Or.inl rfl) h.1.symm
  | reload =>
    simp only [stepThread, hp, Option.some.injEq, Prod.mk.injEq, v16_word] at h
    have hfa := hfa _ (Or.inr (Or.inr (Or.inl rfl))) rfl
    obtain ⟨h, -⟩ := h
    split at h
    · rename_i e; exact after (fun _ => hfa.1 e) h.symm
    · split at h
      · exact same s _ _ (core_refl s) rfl (Or.inl rfl) h.symm
      · exact head s _ _ (core_refl s) rfl (Or.inl rfl) h.symm
  | clk1 cur =>
    cases x with
    | timed wake i num a b =>
      simp only [stepThread, hp, Option.some.injEq, Prod.mk.injEq] at h
      obtain ⟨h, -⟩ := h
      split at h
      · have hs' : s' = ({ s with now := inp.now } : State).setPc t (afterWait c (.timed wake i num a b)) := h.symm
        exact quiet_afterWait c s s' t _ _ hp pre (by rw [hs']; exact ⟨rfl, rfl, rfl, rfl, rfl, rfl⟩) (by rw [hs']; rfl)
          (fun ht => by cases ht)
      · exact head { s with now := inp.now } _ _ ⟨rfl, rfl, rfl, rfl, rfl, rfl⟩ rfl (Or.inr ⟨_, _, _, _, _, _, _, rfl, rfl⟩) h.symm
    | single sd i wait wake => simp [stepThread, hp] at h
    | batch g j wait wake k => simp [stepThread, hp] at h
  | spin =>
    simp only [stepThread, hp, Option.some.injEq, Prod.mk.injEq, v16_word] at h
    have hfa := hfa _ (Or.inr (Or.inr (Or.inr rfl))) rfl
    obtain ⟨h, -⟩ := h
    split at h
    · rename_i e; exact after (fun _ => hfa.1 e) h.symm
    · exact same s _ _ (core_refl s) rfl (Or.inl rfl) h.symm

end Babylon.BQ
