/-
  `bq_try_fail_justified` (C01): a failing try_push / try_pop is justified by a moment of its own call
  interval at which the queue was full / empty.

  Ghost record, added as a product on top of the unchanged transition system: `GSys = Sys × wit`, where
  `wit t` says "at some state since thread `t`'s current call began (the state right after the call step
  included) the queue was empty — for a pop-side try — or full — for a push-side try".  `GStep` is `StepF`
  plus the deterministic update  wit' t ⇔ (t still in the same call ∧ wit t) ∨ EF now;  every `StepF`
  execution lifts to exactly one `GStep` execution (`greach_of_reach`), so the quantification over
  interleavings / thread counts / capacities / programs is the one of C01's other theorems.

  "Empty / full" is read off the slot versions: `EF c s sd` = the slot of the next ticket of side `sd`
  is not at that ticket's version, i.e. (pop) the element with ticket `popIdx` has not been published /
  (push) the slot for ticket `pushIdx` has not been vacated by the pop `capacity` tickets earlier.
-/
import Babylon.BQ.WakePending

namespace Babylon.BQ
open Babylon.Core Babylon.Gen.BQ

/-- the queue is empty (`sd = .pop`) / full (`sd = .push`): the next ticket of that side cannot be dealt -/
def EF (c : Cfg) (s : State) (sd : Side) : Prop := s.ver (slotOf c (s.idx sd)) ≠ expVer c sd (s.idx sd)

/-- side whose emptiness / fullness justifies a failure of the call -/
def trySide : Option Call → Option Side
  | some (.tryPush ..) | some (.tryPushN ..) => some .push
  | some (.tryPop ..) | some (.tryPopN ..) => some .pop
  | _ => none
def EFo (c : Cfg) (s : State) : Option Side → Prop
  | some sd => EF c s sd
  | none => False

structure GSys where
  y : Sys
  wit : Nat → Prop

inductive GStep (c : Cfg) : GSys → GSys → Prop
  | mk (a b : GSys) : StepF c a.y b.y →
      (∀ t, b.wit t ↔ ((a.y.cur t ≠ none ∧ b.y.cur t ≠ none ∧ a.wit t) ∨ EFo c b.y.s (trySide (b.y.cur t)))) → GStep c a b

def GReach (c : Cfg) : GSys → Prop := Reachable (fun g => g.y = Sys.init ∧ ∀ t, ¬ g.wit t) (GStep c)

theorem greach_reach {c : Cfg} {g : GSys} (h : GReach c g) : ReachF c g.y := by
  induction h with
  | base h => exact Reachable.base h.1
  | tail _ hs ih => cases hs with | mk hst _ => exact Reachable.tail ih hst

/-- the ghost does not restrict the executions: every reachable state carries its (unique) ghost -/
theorem greach_of_reach {c : Cfg} {y : Sys} (h : ReachF c y) : ∃ w, GReach c ⟨y, w⟩ := by
  induction h with
  | base h => exact ⟨fun _ => False, Reachable.base ⟨h, fun _ hh => hh⟩⟩
  | @tail a b _ hs ih =>
    obtain ⟨w, hw⟩ := ih
    refine ⟨fun t => (a.cur t ≠ none ∧ b.cur t ≠ none ∧ w t) ∨ EFo c b.s (trySide (b.cur t)), ?_⟩
    exact Reachable.tail hw (GStep.mk ⟨a, w⟩ ⟨b, _⟩ hs (fun t => Iff.rfl))

/-- phases of a try_push / try_pop call, with what the ghost already knows -/
def TryPhase (c : Cfg) (sd : Side) (conc wake : Bool) (p : Pc) (s : State) (w : Prop) : Prop :=
  match p with
  | .tIdx sd' c' w' => sd' = sd ∧ c' = conc ∧ w' = wake
  | .tVer sd' c' w' i => sd' = sd ∧ c' = conc ∧ w' = wake ∧ i ≤ s.idx sd
  | .tReIdx sd' c' w' i => sd' = sd ∧ c' = conc ∧ w' = wake ∧ i ≤ s.idx sd ∧ (s.idx sd = i → w)
  | .tCas sd' c' w' i => sd' = sd ∧ c' = conc ∧ w' = wake ∧ i ≤ s.idx sd
  | .sCbB sd' _ w' res | .sCbE sd' _ w' res | .sSet sd' _ w' res => sd' = sd ∧ w' = wake ∧ res = 1
  | .sWake sd' _ res => sd' = sd ∧ res = 1
  | .retd res => res = 1 ∨ (res = 0 ∧ w)
  | _ => False

/-- own step of a thread inside try_push / try_pop -/
theorem tryphase_own (c : Cfg) (s s' : State) (t : Nat) (inp : Inp) (l : Act) (sd : Side) (conc wake : Bool) (w w' : Prop)
    (h : stepThread c s t inp = some (s', l)) (hp : TryPhase c sd conc wake (s.pc t) s w)
    (hww : w → w') (hef : EF c s' sd → w') : TryPhase c sd conc wake (s'.pc t) s' w' := by
  cases hpc : s.pc t <;> rw [hpc] at hp <;> simp only [TryPhase] at hp <;> try (exact hp.elim)
  case retd r => simp [stepThread, hpc] at h
  case tIdx sd' c' w' =>
    obtain ⟨rfl, rfl, rfl⟩ := hp
    simp only [stepThread, hpc, Option.some.injEq, Prod.mk.injEq] at h
    rw [← h.1, setPc_self]; exact ⟨rfl, rfl, rfl, Nat.le_refl _⟩
  case tVer sd' c' w' i =>
    obtain ⟨rfl, rfl, rfl, hi⟩ := hp
    simp only [stepThread, hpc, Option.some.injEq, Prod.mk.injEq, v16_word] at h
    obtain ⟨h, -⟩ := h
    split at h
    · rw [← h, setPc_self]; exact ⟨rfl, rfl, rfl, hi⟩
    · rename_i hne
      rw [← h, setPc_self]
      refine ⟨rfl, rfl, rfl, hi, fun e => hef ?_⟩
      -- the mismatch was observed on the slot of ticket `i = idx`: the queue is empty / full right now
      rw [← h]
      show s.ver (slotOf c (s.idx sd')) ≠ expVer c sd' (s.idx sd')
      have e' : s.idx sd' = i := e
      rw [e']; intro hv; exact hne (by rw [hv])
  case tReIdx sd' c' w' i =>
    obtain ⟨rfl, rfl, rfl, hi, hw⟩ := hp
    simp only [stepThread, hpc, Option.some.injEq, Prod.mk.injEq] at h
    obtain ⟨h, -⟩ := h
    split at h
    · rename_i e; rw [← h, setPc_self]; exact Or.inr ⟨rfl, hww (hw e)⟩
    · rw [← h, setPc_self]; exact ⟨rfl, rfl, rfl, Nat.le_refl _⟩
  case tCas sd' c' w' i =>
    obtain ⟨rfl, rfl, rfl, hi⟩ := hp
    simp only [stepThread, hpc] at h
    cases c' with
    | true =>
      simp only [if_true] at h
      split at h
      · simp only [Option.some.injEq, Prod.mk.injEq] at h
        rw [← h.1, setPc_self]; exact ⟨rfl, rfl, rfl⟩
      · simp only [Option.some.injEq, Prod.mk.injEq] at h
        rw [← h.1, setPc_self]; exact ⟨rfl, rfl, rfl, Nat.le_refl _⟩
    | false =>
      simp only [Bool.false_eq_true, if_false, Option.some.injEq, Prod.mk.injEq] at h
      rw [← h.1, setPc_self]; exact ⟨rfl, rfl, rfl⟩
  case sCbB sd' i w' res =>
    obtain ⟨rfl, rfl, rfl⟩ := hp
    simp only [stepThread, hpc, Option.some.injEq, Prod.mk.injEq] at h
    rw [← h.1, setPc_self]; exact ⟨rfl, rfl, rfl⟩
  case sCbE sd' i w' res =>
    obtain ⟨rfl, rfl, rfl⟩ := hp
    cases sd' with
    | push =>
      simp only [stepThread, hpc] at h
      split at h
      · simp only [Option.some.injEq, Prod.mk.injEq] at h
        rw [← h.1, setPc_self]; exact ⟨rfl, rfl, rfl⟩
      · cases h
    | pop =>
      simp only [stepThread, hpc, Option.some.injEq, Prod.mk.injEq] at h
      rw [← h.1, setPc_self]; exact ⟨rfl, rfl, rfl⟩
  case sSet sd' i w' res =>
    obtain ⟨rfl, rfl, rfl⟩ := hp
    simp only [stepThread, hpc] at h
    split at h
    · simp only [Option.some.injEq, Prod.mk.injEq] at h
      rw [← h.1, setPc_self]; split
      · exact Or.inl rfl
      · exact ⟨rfl, rfl⟩
    · simp only [Option.some.injEq, Prod.mk.injEq] at h
      rw [← h.1, setPc_self]; exact Or.inl rfl
  case sWake sd' i res =>
    obtain ⟨rfl, rfl⟩ := hp
    simp only [stepThread, hpc, Option.some.injEq, Prod.mk.injEq] at h
    rw [← h.1]; simp only [upd_self]; exact Or.inl rfl

/-- a step that leaves the thread's pc alone (another thread moved) -/
theorem tryphase_other (c : Cfg) (s s' : State) (sd : Side) (conc wake : Bool) (p : Pc) (w w' : Prop)
    (hp : TryPhase c sd conc wake p s w) (hidx : s.idx sd ≤ s'.idx sd) (hww : w → w') : TryPhase c sd conc wake p s' w' := by
  cases p <;> simp only [TryPhase] at hp ⊢ <;> try (exact hp.elim)
  · rcases hp with hp | hp
    · exact Or.inl hp
    · exact Or.inr ⟨hp.1, hww hp.2⟩
  · exact hp
  · exact hp
  · exact hp
  · exact hp
  · exact hp
  · exact ⟨hp.1, hp.2.1, hp.2.2.1, Nat.le_trans hp.2.2.2 hidx⟩
  · refine ⟨hp.1, hp.2.1, hp.2.2.1, Nat.le_trans hp.2.2.2.1 hidx, fun e => hww (hp.2.2.2.2 ?_)⟩
    have := hp.2.2.2.1; omega
  · exact ⟨hp.1, hp.2.1, hp.2.2.1, Nat.le_trans hp.2.2.2 hidx⟩

/-- the call a thread executes, if it is a single-element try -/
def tryCall : Option Call → Option (Side × Bool × Bool)
  | some (.tryPush conc wake) => some (.push, conc, wake)
  | some (.tryPop conc wake) => some (.pop, conc, wake)
  | _ => none

def TFInv (c : Cfg) (g : GSys) : Prop :=
  ∀ t sd conc wake, tryCall (g.y.cur t) = some (sd, conc, wake) → TryPhase c sd conc wake (g.y.s.pc t) g.y.s (g.wit t)

theorem trySide_of_tryCall (k : Option Call) (sd : Side) (conc wake : Bool) (h : tryCall k = some (sd, conc, wake)) :
    trySide k = some sd ∧ k ≠ none := by
  cases k with
  | none => cases h
  | some k => cases k <;> simp [tryCall] at h <;> obtain ⟨rfl, _, _⟩ := h <;> exact ⟨rfl, by simp⟩

theorem tfinv_step {c : Cfg} {a b : GSys} (ha : GReach c a) (hI : TFInv c a) (h : GStep c a b) : TFInv c b := by
  have hr := greach_reach ha
  have hInv := inv_reach hr
  have hS := sinv_reach hr
  obtain ⟨ay, aw⟩ := a
  obtain ⟨by', bw⟩ := b
  cases h with
  | mk hst hwit =>
    simp only at hst hwit hr hInv hS
    intro t sd conc wake hc
    simp only at hc ⊢
    obtain ⟨hside, hbne⟩ := trySide_of_tryCall _ sd conc wake hc
    have hwt := hwit t
    rw [hside] at hwt
    have hidx := step_idx_mono hInv hst sd
    obtain ⟨hstep, hf⟩ := hst
    cases hstep with
    | act u inp s' l hs =>
      have hne := (trySide_of_tryCall _ sd conc wake hc).2
      have hww : aw t → bw t := fun hw => hwt.2 (Or.inl ⟨hne, hne, hw⟩)
      have hef : EF c s' sd → bw t := fun he => hwt.2 (Or.inr he)
      have h0 := hI t sd conc wake hc
      by_cases htu : t = u
      · subst htu; exact tryphase_own c ay.s s' t inp l sd conc wake _ _ hs h0 hww hef
      · have hw := step_wsum c ay.s s' u inp l hs (hS.s0 u)
        rcases hw.others t htu with e | ⟨x, cur, e1, _, _⟩
        · show TryPhase c sd conc wake (s'.pc t) s' (bw t)
          rw [e]; exact tryphase_other c ay.s s' sd conc wake _ _ _ h0 hidx hww
        · simp only at h0; rw [e1] at h0; simp [TryPhase] at h0
    | call u k hidle hpair hmay =>
      by_cases htu : t = u
      · subst htu
        simp only [upd_self] at hc
        show TryPhase c sd conc wake ((ay.s.setPc t k.entry).pc t) _ (bw t)
        rw [setPc_self]
        cases k <;> simp only [tryCall, Option.some.injEq, Prod.mk.injEq] at hc <;> try (cases hc; done)
        all_goals (obtain ⟨rfl, rfl, rfl⟩ := hc; exact ⟨rfl, rfl, rfl⟩)
      · simp only [upd_other _ _ _ _ htu] at hc
        have hne := (trySide_of_tryCall _ sd conc wake hc).2
        have h0 := hI t sd conc wake hc
        show TryPhase c sd conc wake ((ay.s.setPc u k.entry).pc t) _ (bw t)
        rw [setPc_other _ _ _ t htu]
        exact tryphase_other c ay.s _ sd conc wake _ _ _ h0 hidx (fun hw => hwt.2 (Or.inl ⟨hne, hbne, hw⟩))
    | ret u res hret =>
      by_cases htu : t = u
      · subst htu; simp only [upd_self] at hc; cases hc
      · simp only [upd_other _ _ _ _ htu] at hc
        have hne := (trySide_of_tryCall _ sd conc wake hc).2
        have h0 := hI t sd conc wake hc
        show TryPhase c sd conc wake ((ay.s.setPc u .idle).pc t) _ (bw t)
        rw [setPc_other _ _ _ t htu]
        exact tryphase_other c ay.s _ sd conc wake _ _ _ h0 hidx (fun hw => hwt.2 (Or.inl ⟨hne, hbne, hw⟩))
    | spuriousWake u x cur hp =>
      have hne := (trySide_of_tryCall _ sd conc wake hc).2
      have h0 := hI t sd conc wake hc
      by_cases htu : t = u
      · subst htu; simp only at h0; rw [hp] at h0; simp [TryPhase] at h0
      · show TryPhase c sd conc wake ((ay.s.setPc u _).pc t) _ (bw t)
        rw [setPc_other _ _ _ t htu]
        exact tryphase_other c ay.s _ sd conc wake _ _ _ h0 hidx (fun hw => hwt.2 (Or.inl ⟨hne, hbne, hw⟩))

theorem tfinv_reach {c : Cfg} {g : GSys} (h : GReach c g) : TFInv c g := by
  induction h with
  | base h => intro t sd conc wake hc; rw [h.1] at hc; cases hc
  | tail hr hs ih => exact tfinv_step hr ih hs

/-- **try-failure justification (single-element try_push / try_pop).**  When the call has failed (it is about to
return `false`), the ghost says: at some state of the call interval the queue was full / empty. -/
theorem try_fail_justified {c : Cfg} {g : GSys} (h : GReach c g) (t : Nat) (sd : Side) (conc wake : Bool)
    (hc : tryCall (g.y.cur t) = some (sd, conc, wake)) (hp : g.y.s.pc t = .retd 0) : g.wit t := by
  have := tfinv_reach h t sd conc wake hc
  rw [hp] at this
  rcases this with e | ⟨_, w⟩
  · cases e
  · exact w

/-- what the ghost means: it is only ever set by a state of the current call at which the queue was empty / full
(one step of the ghost: either carried over inside the same call, or `EF` holds in the new state) -/
theorem wit_step {c : Cfg} {a b : GSys} (h : GStep c a b) (t : Nat) (hw : b.wit t) :
    (a.y.cur t ≠ none ∧ b.y.cur t ≠ none ∧ a.wit t) ∨ EFo c b.y.s (trySide (b.y.cur t)) := by
  cases h with
  | mk _ hwit => exact (hwit t).1 hw

end Babylon.BQ
