/-
  Lock-step replay of VRT traces of the real ConcurrentBoundedQueue against `Babylon.BQ.stepThread`
  (shared by Drivers/C01.lean and Drivers/C02.lean).
  stdin: runs `RUN <seed> bits=<b> P=<words> pushwake=<0|1> popwake=<0|1> …` / trace lines / `END`;
  stdout per run: `ok <n>` | `diverge <why>`.
-/
import Babylon.BQ.Model

namespace Babylon.BQ
open Babylon.Core

structure RState where
  c : Cfg
  y : Sys
  waitsSeen : Nat := 0

def hdrNat (hdr : List String) (key : String) (dflt : Nat) : Nat :=
  (hdr.filterMap (fun h => if h.startsWith (key ++ "=") then (h.drop (key.length + 1)).toNat? else none)).head?.getD dflt

def initR (hdr : List String) : RState :=
  let mode := (hdr.filterMap (fun h => if h.startsWith "mode=" then some (h.drop 5).toString else none)).head?.getD "mix"
  let dw : Nat := if mode == "comp" then 0 else 1
  let c : Cfg := { bits := hdrNat hdr "bits" 0, words := hdrNat hdr "P" 1, nthr := 16,
                   pushWakes := hdrNat hdr "pushwake" dw == 1, popWakes := hdrNat hdr "popwake" dw == 1 }
  -- `base=<round>`: the harness preset the queue to the state after `round` complete rounds of the ring
  -- (dispensers at round·capacity, every slot at version 2·round) to exercise the 16-bit version wrap
  let round := hdrNat hdr "base" 0
  let s0 : State := { State.init with pushIdx := round * c.cap, popIdx := round * c.cap, ver := fun _ => 2 * round }
  { c := c, y := { Sys.init with s := s0 } }

def b? (s : String) : Option Bool := if s == "1" then some true else if s == "0" then some false else none

def parseCall : List String → Option Call
  | ["push", c, w, k] => do pure (.push (← b? c) (← b? w) (← b? k))
  | ["try_push", c, k] => do pure (.tryPush (← b? c) (← b? k))
  | ["push_n", c, w, k, n] => do pure (.pushN (← b? c) (← b? w) (← b? k) (← n.toNat?))
  | ["try_push_n", c, k, n] => do pure (.tryPushN (← b? c) (← b? k) (← n.toNat?))
  | ["cpush_n", n] => do pure (.cpushN (← n.toNat?))
  | ["pop", c, w, k] => do pure (.pop (← b? c) (← b? w) (← b? k))
  | ["try_pop", c, k] => do pure (.tryPop (← b? c) (← b? k))
  | ["pop_n", c, w, k, n] => do pure (.popN (← b? c) (← b? w) (← b? k) (← n.toNat?))
  | ["try_pop_n", c, k, n] => do pure (.tryPopN (← b? c) (← b? k) (← n.toNat?))
  | ["cpop_n", n] => do pure (.cpopN (← n.toNat?))
  | ["timed_pop_n", k, n, t] => do pure (.timedPopN (← b? k) (← n.toNat?) (← t.toNat?))
  | ["size"] => some .size
  | _ => none

def callName : Call → String
  | .push .. => "push" | .tryPush .. => "try_push" | .pushN .. => "push_n" | .tryPushN .. => "try_push_n"
  | .cpushN _ => "cpush_n" | .pop .. => "pop" | .tryPop .. => "try_pop" | .popN .. => "pop_n"
  | .tryPopN .. => "try_pop_n" | .cpopN _ => "cpop_n" | .timedPopN .. => "timed_pop_n" | .size => "size"
/-- does the call report a result the harness prints -/
def callHasResult : Call → Bool
  | .tryPush .. | .tryPushN .. | .tryPop .. | .tryPopN .. | .timedPopN .. | .size => true
  | _ => false

/-- executable form of `Sys.mayStart` over the thread ids the run uses -/
def mayStartB (c : Cfg) (y : Sys) (t : Nat) (k : Call) : Bool :=
  (List.range c.nthr).all (fun u => u == t ||
    match y.cur u with
    | none => true
    | some k' => [Side.push, Side.pop].all (fun sd =>
        (!k.exclusive sd || !k'.touches sd) && (!k'.exclusive sd || !k.touches sd)))

def showPc (p : Pc) : String := reprStr p

def stepObs (r : RState) (o : Obs) : Except String RState :=
  let t := o.tid
  let s := r.y.s
  match Act.ofObs o with
  | none => .error "unknown trace line"
  | some (.ev ("call" :: ws)) =>
    match parseCall ws with
    | none => .error "unknown call"
    | some k =>
      if s.pc t ≠ .idle then .error s!"call while the model thread is at {showPc (s.pc t)}"
      else if !k.paired r.c then .error s!"client contract: call {reprStr k} violates the pairing rules of this run"
      else if !mayStartB r.c r.y t k then .error s!"client contract: {reprStr k} overlaps an operation it must not overlap"
      else .ok { r with y := { s := s.setPc t k.entry, cur := upd r.y.cur t (some k), start := upd r.y.start t s.idx } }
  | some (.ev ("ret" :: name :: rest)) =>
    match s.pc t, r.y.cur t with
    | .retd res, some k =>
      if callName k ≠ name then .error s!"returned from {name}, model thread runs {callName k}"
      else if callHasResult k && rest ≠ [toString res] then .error s!"{name} returned {rest}, model says {res}"
      else .ok { r with y := { r.y with s := s.setPc t .idle, cur := upd r.y.cur t none } }
    | p, _ => .error s!"implementation returned from {name} but the model thread is at {showPc p}"
  | some (.ev ("ORACLE" :: _)) | some (.ev ("stats" :: _)) => .ok r
  | some (.spawn _) | some (.join _) | some .exit | some (.race _) => .ok r
  | some a =>
    -- a wake-up nobody performed (EINTR / spurious return of futex_wait) is the model's `Step.spuriousWake`
    let s : State := match a, s.pc t with
      | .fwoke _ _ false, .wait x (.asleep _) => s.setPc t (.wait x .woken)
      | _, _ => s
    let inp : Inp := match a with
      | .cas _ _ true _ _ e _ ok obs => { spurious := !ok && e == obs }
      | .ev ["clock", n] => { now := n.toNat?.getD 0 }
      | .ev ("cbe" :: vs) => { vals := vs.filterMap String.toNat? }
      | .fwoke _ _ true => { timeout := true }
      | _ => {}
    match stepThread r.c s t inp with
    | none => .error s!"implementation performs {reprStr a} but the model thread is at {showPc (s.pc t)} with no such step"
    | some (s', l) =>
      if l ≠ a then .error s!"model expects {reprStr l}, implementation did {reprStr a} (model thread at {showPc (s.pc t)})"
      else
        -- a timed futex wait shows its relative timeout: compare with the model's remaining time
        let toArg := o.args.filterMap (fun w => if w.startsWith "to=" then (w.drop 3).toNat? else none)
        match s.pc t, toArg with
        | .wait (.timed _ _ _ _ tmo) (.fwait _), [v] =>
          if v = tmo then .ok { r with y := { r.y with s := s' }, waitsSeen := r.waitsSeen + 1 }
          else .error s!"timed futex wait uses timeout {v} ns, model says {tmo} ns"
        | .wait (.timed ..) (.fwait _), _ => .error "timed futex wait without a timeout in the trace"
        | _, [] => .ok { r with y := { r.y with s := s' } }
        | _, _ => .error "untimed wait carries a timeout"

def finalR (r : RState) : Except String Unit :=
  match (List.range r.c.nthr).find? (fun t => r.y.s.pc t ≠ .idle) with
  | some t => .error s!"trace ended but model thread {t} is at {showPc (r.y.s.pc t)}"
  | none => .ok ()

def replayMain : IO Unit := do
  replayLoop (← IO.getStdin) initR stepObs finalR

end Babylon.BQ
