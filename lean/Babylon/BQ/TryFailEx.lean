/- A reachable failing try_pop on the empty queue (capacity 2): non-vacuity witness for `bq_try_fail_justified`. -/
import Babylon.BQ.TryFailN
import Babylon.BQ.Examples

namespace Babylon.BQ
open Babylon.Core Babylon.Gen.BQ

def tfCall : Call := .tryPop true true
def tf1 : Sys := { s := Sys.init.s.setPc 1 tfCall.entry, cur := upd Sys.init.cur 1 (some tfCall), start := upd Sys.init.start 1 Sys.init.s.idx }
def tf2 : Sys := { tf1 with s := tf1.s.setPc 1 (.tVer .pop true true 0) }
def tf3 : Sys := { tf2 with s := tf2.s.setPc 1 (.tReIdx .pop true true 0) }
def tf4 : Sys := { tf3 with s := tf3.s.setPc 1 (.retd 0) }

theorem tf_pc (q p : Pc) : upd (upd (fun _ => Pc.idle) 1 q) 1 p = upd (fun _ => Pc.idle) 1 p := by
  funext u; simp only [upd]; split <;> rfl

theorem tf1_reach : ReachF exCfg tf1 := by
  refine Reachable.tail (Reachable.base rfl) ⟨Step.call Sys.init 1 tfCall rfl (by decide) ?_, ?_⟩
  · intro sd u _ k' h; cases h
  · exact faithful_one exCfg _ .idle (by funext u; simp [Sys.init, State.init, upd]) (fun _ => rfl) (fun _ _ h => by cases h)
theorem tf2_reach : ReachF exCfg tf2 := by
  refine Reachable.tail tf1_reach ⟨Step.act tf1 1 {} _ (.ld "popidx" 0 .rlx 0) rfl, ?_⟩
  exact faithful_one exCfg _ tfCall.entry rfl (fun _ => rfl) (fun _ _ h => by cases h)
theorem tf3_reach : ReachF exCfg tf3 := by
  refine Reachable.tail tf2_reach ⟨Step.act tf2 1 {} _ (.ld "slot" 8 .acq 0) rfl, ?_⟩
  refine faithful_one exCfg _ (.tVer .pop true true 0) (tf_pc _ _) (fun _ => rfl) ?_
  intro sl E h; simp [Pc.cmp, expVer, exCfg, Cfg.cap] at h; omega
theorem tf4_reach : ReachF exCfg tf4 := by
  refine Reachable.tail tf3_reach ⟨Step.act tf3 1 {} _ (.ld "popidx" 0 .rlx 0) rfl, ?_⟩
  refine faithful_one exCfg _ (.tReIdx .pop true true 0) ?_ (fun _ => rfl) (fun _ _ h => by cases h)
  funext u; simp only [tf3, tf2, tf1, State.setPc, upd, Sys.init, State.init]; split <;> rfl

end Babylon.BQ
