/-
  Atomic-granularity model of `ConcurrentBoundedQueue<T>` (src/babylon/concurrent/bounded_queue.h/.hpp).

  One model step = one atomic operation / fence / futex call / clock reading / callback begin /
  callback end of the real code — exactly the granularity VRT observes — so the same `stepThread`
  serves the theorems (any interleaving = any sequence of `Step`s) and the lock-step replay of the
  real implementation (`Drivers/C01.lean`).

  Slot futex word = `version mod 2^16 + 2^16·waiterBit`.  The model keeps the *untruncated* version
  of every slot (`ver`, ghost) and the waiter bit; what the code loads / stores / compares is
  `word`, i.e. the 16-bit truncation, exactly as in the source.  `index` is a 64-bit `size_t` in the
  code and an unbounded `Nat` here.  Core Lean only.
-/
import Babylon.Gen.BQ
import Babylon.Core.Trace

namespace Babylon.BQ
open Babylon.Core Babylon.Gen.BQ

inductive Side | push | pop
  deriving DecidableEq, Repr, Inhabited

def Side.other : Side → Side
  | .push => .pop
  | .pop => .push

structure Cfg where
  bits : Nat                 -- capacity = 2^bits (`reserve_and_clear` rounds up with bit_ceil)
  words : Nat := 1           -- payload words of the harness element type (layout only)
  nthr : Nat := 8            -- thread ids `0 … nthr-1` are scanned when a wake-up counts sleepers (label only)
  pushWakes : Bool := true   -- pairing contract: every push-side release uses USE_FUTEX_WAKE
  popWakes : Bool := true    -- pairing contract: every pop-side release uses USE_FUTEX_WAKE
  deriving Repr

def Cfg.cap (c : Cfg) : Nat := 2 ^ c.bits
def Cfg.slotSize (c : Cfg) : Nat := if c.words = 2 then sizeofSlot2 else sizeofSlot1
def Cfg.futexOff (c : Cfg) : Nat := if c.words = 2 then futexOff2 else futexOff1
def Cfg.wakes (c : Cfg) : Side → Bool
  | .push => c.pushWakes
  | .pop => c.popWakes

/-- 16-bit truncation (`uint16_t`) -/
def v16 (x : Nat) : Nat := x % 65536

/-- untruncated `push_version_for_index` / `pop_version_for_index`:
`(index >> slot_bits) << 1` (+ 1 for pop) -/
def expVer (c : Cfg) (sd : Side) (i : Nat) : Nat :=
  2 * (i / c.cap) + (match sd with | .push => 0 | .pop => 1)

/-- `index & _slot_mask` -/
def slotOf (c : Cfg) (i : Nat) : Nat := i % c.cap

/-- `(index + _slot_mask + 1) & ~_slot_mask` -/
def nextRound (c : Cfg) (i : Nat) : Nat := (i / c.cap + 1) * c.cap

/-- a run of tickets inside one round of the ring, handled by one `*deal_n_continuously` call
(for the single-element paths `n = 1`) -/
structure Seg where
  sd : Side
  idx : Nat
  n : Nat
  deriving DecidableEq, Repr, Inhabited

def Seg.E (c : Cfg) (g : Seg) : Nat := expVer c g.sd g.idx
/-- slot of the `j`-th element: `slot_index + j` (no masking in the code; a segment never crosses the ring end) -/
def Seg.slot (c : Cfg) (g : Seg) (j : Nat) : Nat := slotOf c g.idx + j

/-- split `[index, index+num)` at the ring end as push_n / pop_n / try_*_n do -/
def splitSegs (c : Cfg) (sd : Side) (index num : Nat) : Seg × Option Seg :=
  let nrb := nextRound c index
  if index + num ≤ nrb then ({ sd := sd, idx := index, n := num }, none)
  else ({ sd := sd, idx := index, n := nrb - index }, some { sd := sd, idx := nrb, n := index + num - nrb })

/-- where a compensating `deal_n_continuously` is inside its polling loop -/
structure CompCtx where
  g : Seg
  j : Nat
  rest : Option Seg
  deriving DecidableEq, Repr, Inhabited

/-- locals of a `try_push_n` / `try_pop_n` call -/
structure TryCtx where
  conc : Bool
  wake : Bool
  acc : Nat                    -- elements dealt by the earlier segment
  g2 : Option Seg              -- second segment, tried only when the first was complete
  back : Option CompCtx        -- `some`: this try is the compensation step of a compensating batch
  deriving DecidableEq, Repr, Inhabited

/-- what follows the release of a batch segment -/
inductive K
  | ret (res : Nat)
  | block (wait wake : Bool) (g : Seg)
  | tryNext (x : TryCtx) (g : Seg)
  | comp (g : Seg)
  | back (cc : CompCtx)
  deriving DecidableEq, Repr, Inhabited

/-- critical section + release of one batch segment -/
structure BCtx where
  g : Seg
  wake : Bool
  k : K
  deriving DecidableEq, Repr, Inhabited

/-- what a `wait_until_reach_expected_version` call is part of -/
inductive WCtx
  | single (sd : Side) (i : Nat) (wait wake : Bool)          -- deal(): acquire, futex iff `wait`
  | batch (g : Seg) (j : Nat) (wait wake : Bool) (k : K)     -- deal_n_continuously: relaxed, slot j of g
  | timed (wake : Bool) (i num : Nat) (tbegin tmo : Nat)     -- try_pop_n_exclusively_until: relaxed, futex, timeout
  deriving DecidableEq, Repr, Inhabited

/-- position inside `wait_until_reach_expected_version` / `block_…_slow` / `spin_…_slow` -/
inductive WS
  | load0                     -- first load
  | clk0 (cur : Nat)          -- timed: `begin_time_ns = GetCurrentTimeNanos()`
  | cas (cur : Nat)           -- `compare_exchange_strong(cur, cur + 65536, order)` (cur ≤ 65535)
  | fwait (cur : Nat)         -- `_futex.wait(cur, timeout)`
  | asleep (cur : Nat)        -- blocked in the kernel
  | woken                     -- made runnable by a wake-up, has not run yet
  | reload                    -- load after the wait returned
  | clk1 (cur : Nat)          -- timed: `end_time_ns = GetCurrentTimeNanos()`
  | spin                      -- `usleep(1000)` then load
  deriving DecidableEq, Repr, Inhabited

inductive Pc
  | idle
  | retd (res : Nat)                                    -- operation finished, about to return `res`
  -- ticket dispensers of the blocking variants
  | idxRmw (sd : Side) (n : Nat) (single : Bool) (wait wake : Bool)    -- `fetch_add(n, relaxed)`
  | idxLd (sd : Side) (n : Nat) (single : Bool) (wait wake : Bool)     -- `load(relaxed)`        (!CONCURRENT)
  | idxSt (sd : Side) (n : Nat) (single : Bool) (wait wake : Bool) (i : Nat)  -- `store(i+n, relaxed)`
  | cIdx (sd : Side) (n : Nat)                          -- compensating: `fetch_add(n, relaxed)`
  | wait (x : WCtx) (w : WS)
  -- single-element critical section and release (deal / try_deal)
  | sCbB (sd : Side) (i : Nat) (wake : Bool) (res : Nat)
  | sCbE (sd : Side) (i : Nat) (wake : Bool) (res : Nat)
  | sSet (sd : Side) (i : Nat) (wake : Bool) (res : Nat)     -- exchange(release) | 16-bit store(release)
  | sWake (sd : Side) (i : Nat) (res : Nat)                  -- wake_all
  -- try_deal
  | tIdx (sd : Side) (conc wake : Bool)
  | tVer (sd : Side) (conc wake : Bool) (i : Nat)            -- `futex.version(acquire)`
  | tReIdx (sd : Side) (conc wake : Bool) (i : Nat)
  | tCas (sd : Side) (conc wake : Bool) (i : Nat)            -- `compare_exchange_weak` | store
  -- try_push_n / try_pop_n + try_deal_n_continuously
  | nIdx (sd : Side) (x : TryCtx) (num : Nat)
  | nVer (x : TryCtx) (g : Seg) (j : Nat)                    -- `futex.version(relaxed)` of slot j
  | nCas (x : TryCtx) (g : Seg) (n : Nat)                    -- `compare_exchange_strong` | store, n = ready prefix
  -- compensating deal_n_continuously polling loop
  | cVer (cc : CompCtx)
  | cNeed (cc : CompCtx)
  -- batch critical section and release
  | fAcq (b : BCtx)
  | bCbB (b : BCtx)
  | bCbE (b : BCtx)
  | fRel (b : BCtx)
  | bSt (b : BCtx) (j : Nat)                                 -- 16-bit `store(E+1, relaxed)`
  | fSc (b : BCtx)
  | wLd (b : BCtx) (j : Nat)                                 -- wakeup_waiters: `load(relaxed)`
  | wCas (b : BCtx) (j : Nat) (cur : Nat)                    -- `compare_exchange_strong(cur, version, relaxed)`
  | wWake (b : BCtx) (j : Nat)                               -- wake_all
  -- try_pop_n_exclusively_until entry
  | xIdx (wake : Bool) (num : Nat) (tmo : Nat)
  -- size()
  | zPop
  | zPush (p : Nat)
  deriving DecidableEq, Repr, Inhabited

structure State where
  pushIdx : Nat
  popIdx : Nat
  ver : Nat → Nat               -- slot → untruncated version (low half of the word = `ver % 2^16`)
  wbit : Nat → Bool             -- slot → waiter bit (high half of the word ≠ 0)
  val : Nat → Nat               -- slot → payload
  pc : Nat → Pc
  -- ghost
  pushedV : Nat → Option Nat    -- ticket → value its push callback wrote
  poppedV : Nat → Option Nat    -- ticket → value its pop callback read
  now : Nat                     -- last clock reading

def State.init : State :=
  { pushIdx := 0, popIdx := 0, ver := fun _ => 0, wbit := fun _ => false, val := fun _ => 0,
    pc := fun _ => .idle, pushedV := fun _ => none, poppedV := fun _ => none, now := 0 }

def upd {α : Type} (f : Nat → α) (i : Nat) (v : α) : Nat → α := fun j => if j = i then v else f j

def State.word (s : State) (j : Nat) : Nat := v16 (s.ver j) + (if s.wbit j then waiterInc else 0)
def State.idx (s : State) : Side → Nat
  | .push => s.pushIdx
  | .pop => s.popIdx
def State.setIdx (s : State) (sd : Side) (v : Nat) : State :=
  match sd with
  | .push => { s with pushIdx := v }
  | .pop => { s with popIdx := v }
def State.setPc (s : State) (t : Nat) (p : Pc) : State := { s with pc := upd s.pc t p }

def idxName : Side → String
  | .push => "pushidx"
  | .pop => "popidx"
def slotOff (c : Cfg) (j : Nat) : Nat := j * c.slotSize + c.futexOff

/-- resolution of what the model does not decide itself -/
structure Inp where
  spurious : Bool := false      -- a weak CAS that would succeed fails
  now : Nat := 0                -- value of a clock reading
  vals : List Nat := []         -- values a push callback writes
  timeout : Bool := false       -- a timed futex wait ends by timeout

/-- the slot / expected version / order / futex-or-spin / timeout of a wait -/
def WCtx.slot (c : Cfg) : WCtx → Nat
  | .single _ i _ _ => slotOf c i
  | .batch g j _ _ _ => g.slot c j
  | .timed _ i num _ _ => slotOf c (i + num)
def WCtx.E (c : Cfg) : WCtx → Nat
  | .single sd i _ _ => expVer c sd i
  | .batch g _ _ _ _ => g.E c
  | .timed _ i num _ _ => expVer c .pop (i + num)
def WCtx.ord : WCtx → Ord
  | .single .. => .acq
  | _ => .rlx
def WCtx.futex : WCtx → Bool
  | .single _ _ w _ => w
  | .batch _ _ w _ _ => w
  | .timed .. => true
def WCtx.isTimed : WCtx → Bool
  | .timed .. => true
  | _ => false

/-- interpretation of a continuation -/
def startWaitSeg (g : Seg) (wait wake : Bool) (k : K) : Pc :=
  if g.n = 0 then .fAcq { g := g, wake := wake, k := k } else .wait (.batch g 0 wait wake k) .load0
def runK : K → Pc
  | .ret res => .retd res
  | .block wait wake g => startWaitSeg g wait wake (.ret 0)
  | .tryNext x g => if g.n = 0 then .retd x.acc else .nVer x g 0
  | .comp g => .cVer { g := g, j := 0, rest := none }
  | .back cc => .cVer cc
/-- a try_*_n finishes with `res` elements: return to the caller, or back into the compensation loop -/
def finishTry (x : TryCtx) (res : Nat) : K :=
  match x.back with
  | none => .ret res
  | some cc => .back cc
/-- `wait_until_reach_expected_version` returned (version reached, or timed out) -/
def afterWait (_c : Cfg) : WCtx → Pc
  | .single sd i _ wake => .sCbB sd i wake 0
  | .batch g j wait wake k =>
    if j + 1 < g.n then .wait (.batch g (j + 1) wait wake k) .load0 else .fAcq { g := g, wake := wake, k := k }
  | .timed wake _ num _ _ => .nIdx .pop { conc := false, wake := wake, acc := 0, g2 := none, back := none } num
/-- loop head of `block_until_reach_expected_version_slow` -/
def blockHead (x : WCtx) (cur : Nat) : Pc :=
  if cur ≤ waiterThreshold then .wait x (.cas cur) else .wait x (.fwait cur)
/-- after the ready prefix `n` of a try segment is known -/
def tryDecide (x : TryCtx) (g : Seg) (n : Nat) : Pc :=
  if n = 0 then runK (finishTry x x.acc) else .nCas x g n
/-- continuation of a try segment that obtained `n ≤ g.n` tickets -/
def tryK (x : TryCtx) (g : Seg) (n : Nat) : K :=
  if n < g.n then finishTry x (x.acc + n)
  else match x.g2 with
    | some g2 => .tryNext { x with acc := x.acc + n, g2 := none } g2
    | none => finishTry x (x.acc + n)
/-- after the version stores of a batch release -/
def afterStores (b : BCtx) : Pc := if b.wake then .fSc b else runK b.k
def nextWake (b : BCtx) (j : Nat) : Pc := if j + 1 < b.g.n then .wLd b (j + 1) else runK b.k

def isAsleepOn (c : Cfg) (p : Pc) (slot : Nat) : Bool :=
  match p with
  | .wait x (.asleep _) => x.slot c == slot
  | _ => false
/-- `FUTEX_WAKE(INT_MAX)`: every sleeper on the slot becomes runnable -/
def wakeAll (c : Cfg) (pcs : Nat → Pc) (slot : Nat) : Nat → Pc :=
  fun u => match pcs u with
    | .wait x (.asleep cur) => if x.slot c == slot then .wait x .woken else .wait x (.asleep cur)
    | p => p
def sleepers (c : Cfg) (s : State) (slot : Nat) : Nat :=
  ((List.range c.nthr).filter (fun u => isAsleepOn c (s.pc u) slot)).length

def natStr (n : Nat) : String := toString n

/-- One action of thread `t`. -/
def stepThread (c : Cfg) (s : State) (t : Nat) (inp : Inp) : Option (State × Act) :=
  let goto (p : Pc) : State := s.setPc t p
  match s.pc t with
  | .idle => none
  | .retd _ => none
  -- ---------------------------------------------------------------- ticket dispensers
  | .idxRmw sd n single wait wake =>
    let i := s.idx sd
    let p : Pc :=
      if single then .wait (.single sd i wait wake) .load0
      else let (g1, g2) := splitSegs c sd i n
           startWaitSeg g1 wait wake (match g2 with | some g => .block wait wake g | none => .ret 0)
    some ((s.setIdx sd (i + n)).setPc t p, .rmw "add" (idxName sd) 0 .rlx i n)
  | .idxLd sd n single wait wake =>
    some (goto (.idxSt sd n single wait wake (s.idx sd)), .ld (idxName sd) 0 .rlx (s.idx sd))
  | .idxSt sd n single wait wake i =>
    let p : Pc :=
      if single then .wait (.single sd i wait wake) .load0
      else let (g1, g2) := splitSegs c sd i n
           startWaitSeg g1 wait wake (match g2 with | some g => .block wait wake g | none => .ret 0)
    some ((s.setIdx sd (i + n)).setPc t p, .st (idxName sd) 0 .rlx (i + n))
  | .cIdx sd n =>
    let i := s.idx sd
    let (g1, g2) := splitSegs c sd i n
    some ((s.setIdx sd (i + n)).setPc t (.cVer { g := g1, j := 0, rest := g2 }), .rmw "add" (idxName sd) 0 .rlx i n)
  -- ---------------------------------------------------------------- wait_until_reach_expected_version
  | .wait x w =>
    let j := x.slot c
    let E := x.E c
    let off := slotOff c j
    match w with
    | .load0 =>
      let cur := s.word j
      let p : Pc :=
        if v16 cur = v16 E then afterWait c x
        else if x.futex then (if x.isTimed then .wait x (.clk0 cur) else blockHead x cur)
        else .wait x .spin
      some (goto p, .ld "slot" off x.ord cur)
    | .clk0 cur =>
      match x with
      | .timed wake i num _ tmo =>
        some ({ s with now := inp.now }.setPc t (blockHead (.timed wake i num inp.now tmo) cur), .ev ["clock", natStr inp.now])
      | _ => none
    | .cas cur =>
      let obs := s.word j
      if obs = cur then
        some ({ s with wbit := upd s.wbit j true }.setPc t (.wait x (.fwait (cur + waiterInc))),
              .cas "slot" off false x.ord x.ord cur (cur + waiterInc) true obs)
      else
        let p : Pc := if v16 obs = v16 E then afterWait c x else blockHead x obs
        some (goto p, .cas "slot" off false x.ord x.ord cur (cur + waiterInc) false obs)
    | .fwait cur =>
      if s.word j = cur then some (goto (.wait x (.asleep cur)), .fwait "slot" off cur true)
      else some (goto (.wait x .reload), .fwait "slot" off cur false)
    | .asleep _ =>
      -- only a timed wait ends by itself (timeout); otherwise the thread needs a wake-up
      if inp.timeout && x.isTimed then some (goto (afterWait c x), .fwoke "slot" off true) else none
    | .woken => some (goto (.wait x .reload), .fwoke "slot" off false)
    | .reload =>
      let cur := s.word j
      let p : Pc :=
        if v16 cur = v16 E then afterWait c x
        else if x.isTimed then .wait x (.clk1 cur) else blockHead x cur
      some (goto p, .ld "slot" off x.ord cur)
    | .clk1 cur =>
      match x with
      | .timed wake i num tbegin tmo =>
        -- wait_duration = *timeout - (end - begin); break when ≤ 0, else timeout := wait_duration
        let el := inp.now - tbegin
        let p : Pc := if tmo ≤ el then afterWait c x else blockHead (.timed wake i num tbegin (tmo - el)) cur
        some ({ s with now := inp.now }.setPc t p, .ev ["clock", natStr inp.now])
      | _ => none
    | .spin =>
      let cur := s.word j
      let p : Pc := if v16 cur = v16 E then afterWait c x else .wait x .spin
      some (goto p, .ld "slot" off x.ord cur)
  -- ---------------------------------------------------------------- single critical section / release
  | .sCbB sd i wake res => some (goto (.sCbE sd i wake res), .ev ["cbb", natStr (slotOf c i), "1"])
  | .sCbE sd i wake res =>
    let j := slotOf c i
    match sd with
    | .push =>
      match inp.vals with
      | [v] => some ({ s with val := upd s.val j v, pushedV := upd s.pushedV i (some v) }.setPc t (.sSet sd i wake res),
                     .ev ["cbe", natStr v])
      | _ => none
    | .pop =>
      some ({ s with poppedV := upd s.poppedV i (some (s.val j)) }.setPc t (.sSet sd i wake res), .ev ["cbe", natStr (s.val j)])
  | .sSet sd i wake res =>
    let j := slotOf c i
    let nv := expVer c sd i + versionBump
    if wake then
      let old := s.word j
      some ({ s with ver := upd s.ver j nv, wbit := upd s.wbit j false }.setPc t
              (if old ≤ waiterThreshold then .retd res else .sWake sd i res),
            .xchg "slot" (slotOff c j) .rel old (v16 nv))
    else
      some ({ s with ver := upd s.ver j nv }.setPc t (.retd res), .st "slot" (slotOff c j) .rel (v16 nv))
  | .sWake _ i res =>
    let j := slotOf c i
    some ({ s with pc := upd (wakeAll c s.pc j) t (.retd res) }, .fwake "slot" (slotOff c j) 99 (sleepers c s j))
  -- ---------------------------------------------------------------- try_deal
  | .tIdx sd conc wake => some (goto (.tVer sd conc wake (s.idx sd)), .ld (idxName sd) 0 .rlx (s.idx sd))
  | .tVer sd conc wake i =>
    let j := slotOf c i
    let cur := s.word j
    let p : Pc := if v16 cur = v16 (expVer c sd i) then .tCas sd conc wake i else .tReIdx sd conc wake i
    some (goto p, .ld "slot" (slotOff c j) .acq cur)
  | .tReIdx sd conc wake i =>
    let cur := s.idx sd
    some (goto (if cur = i then .retd 0 else .tVer sd conc wake cur), .ld (idxName sd) 0 .rlx cur)
  | .tCas sd conc wake i =>
    if conc then
      let obs := s.idx sd
      if obs = i ∧ ¬ inp.spurious then
        some ((s.setIdx sd (i + 1)).setPc t (.sCbB sd i wake 1), .cas (idxName sd) 0 true .rlx .rlx i (i + 1) true obs)
      else
        some (goto (.tVer sd conc wake obs), .cas (idxName sd) 0 true .rlx .rlx i (i + 1) false obs)
    else
      some ((s.setIdx sd (i + 1)).setPc t (.sCbB sd i wake 1), .st (idxName sd) 0 .rlx (i + 1))
  -- ---------------------------------------------------------------- try_push_n / try_pop_n
  | .nIdx sd x num =>
    let i := s.idx sd
    let (g1, g2) := splitSegs c sd i num
    let x' := { x with g2 := g2 }
    some (goto (if g1.n = 0 then tryDecide x' g1 0 else .nVer x' g1 0), .ld (idxName sd) 0 .rlx i)
  | .nVer x g j =>
    let sl := g.slot c j
    let cur := s.word sl
    let p : Pc :=
      if v16 cur = v16 (g.E c) then (if j + 1 < g.n then .nVer x g (j + 1) else tryDecide x g g.n)
      else tryDecide x g j
    some (goto p, .ld "slot" (slotOff c sl) .rlx cur)
  | .nCas x g n =>
    let b : BCtx := { g := { g with n := n }, wake := x.wake, k := tryK x g n }
    if x.conc then
      let obs := s.idx g.sd
      if obs = g.idx then
        some ((s.setIdx g.sd (g.idx + n)).setPc t (.fAcq b), .cas (idxName g.sd) 0 false .rlx .rlx g.idx (g.idx + n) true obs)
      else
        some (goto (runK (finishTry x x.acc)), .cas (idxName g.sd) 0 false .rlx .rlx g.idx (g.idx + n) false obs)
    else
      some ((s.setIdx g.sd (g.idx + n)).setPc t (.fAcq b), .st (idxName g.sd) 0 .rlx (g.idx + n))
  -- ---------------------------------------------------------------- compensating polling loop
  | .cVer cc =>
    let sl := cc.g.slot c cc.j
    let cur := s.word sl
    let p : Pc :=
      if v16 cur = v16 (cc.g.E c) then
        (if cc.j + 1 < cc.g.n then .cVer { cc with j := cc.j + 1 }
         else .fAcq { g := cc.g, wake := false, k := (match cc.rest with | some g2 => .comp g2 | none => .ret 0) })
      else .cNeed cc
    some (goto p, .ld "slot" (slotOff c sl) .rlx cur)
  | .cNeed cc =>
    let o := cc.g.sd.other
    let v := s.idx o
    let need := match cc.g.sd with | .push => v + c.cap | .pop => v
    let p : Pc :=
      if need ≤ cc.g.idx + cc.g.n then .nIdx o { conc := true, wake := false, acc := 0, g2 := none, back := some cc } 1
      else .cVer cc            -- S::yield()
    some (goto p, .ld (idxName o) 0 .rlx v)
  -- ---------------------------------------------------------------- batch critical section / release
  | .fAcq b => some (goto (.bCbB b), .fence .acq)
  | .bCbB b => some (goto (.bCbE b), .ev ["cbb", natStr (b.g.slot c 0), natStr b.g.n])
  | .bCbE b =>
    match b.g.sd with
    | .push =>
      if inp.vals.length = b.g.n then
        let val' := fun sl => if b.g.slot c 0 ≤ sl ∧ sl < b.g.slot c 0 + b.g.n then inp.vals.getD (sl - b.g.slot c 0) 0 else s.val sl
        let pv' := fun i => if b.g.idx ≤ i ∧ i < b.g.idx + b.g.n then inp.vals[i - b.g.idx]? else s.pushedV i
        some ({ s with val := val', pushedV := pv' }.setPc t (.fRel b), .ev ("cbe" :: inp.vals.map natStr))
      else none
    | .pop =>
      let vs := (List.range b.g.n).map (fun k => s.val (b.g.slot c k))
      let pp' := fun i => if b.g.idx ≤ i ∧ i < b.g.idx + b.g.n then some (s.val (b.g.slot c (i - b.g.idx))) else s.poppedV i
      some ({ s with poppedV := pp' }.setPc t (.fRel b), .ev ("cbe" :: vs.map natStr))
  | .fRel b => some (goto (if b.g.n = 0 then afterStores b else .bSt b 0), .fence .rel)
  | .bSt b j =>
    let sl := b.g.slot c j
    let nv := b.g.E c + versionBump
    some ({ s with ver := upd s.ver sl nv }.setPc t (if j + 1 < b.g.n then .bSt b (j + 1) else afterStores b),
          .st "slot" (slotOff c sl) .rlx (v16 nv))
  | .fSc b => some (goto (if b.g.n = 0 then runK b.k else .wLd b 0), .fence .sc)
  | .wLd b j =>
    let sl := b.g.slot c j
    let cur := s.word sl
    let p : Pc :=
      if cur ≤ waiterThreshold then nextWake b j
      else if v16 cur ≠ v16 (b.g.E c + versionBump) then nextWake b j
      else .wCas b j cur
    some (goto p, .ld "slot" (slotOff c sl) .rlx cur)
  | .wCas b j cur =>
    let sl := b.g.slot c j
    let obs := s.word sl
    if obs = cur then
      some ({ s with wbit := upd s.wbit sl false }.setPc t (.wWake b j),
            .cas "slot" (slotOff c sl) false .rlx .rlx cur (v16 cur) true obs)
    else some (goto (nextWake b j), .cas "slot" (slotOff c sl) false .rlx .rlx cur (v16 cur) false obs)
  | .wWake b j =>
    let sl := b.g.slot c j
    some ({ s with pc := upd (wakeAll c s.pc sl) t (nextWake b j) }, .fwake "slot" (slotOff c sl) 99 (sleepers c s sl))
  -- ---------------------------------------------------------------- timed exclusive pop, size
  | .xIdx wake num tmo =>
    some (goto (.wait (.timed wake s.popIdx num 0 tmo) .load0), .ld "popidx" 0 .rlx s.popIdx)
  | .zPop => some (goto (.zPush s.popIdx), .ld "popidx" 0 .rlx s.popIdx)
  | .zPush p => some (goto (.retd (if s.pushIdx > p then s.pushIdx - p else 0)), .ld "pushidx" 0 .rlx s.pushIdx)

/-! ### Client calls -/

/-- an API call with its template flags -/
inductive Call
  | push (conc wait wake : Bool)
  | tryPush (conc wake : Bool)
  | pushN (conc wait wake : Bool) (n : Nat)
  | tryPushN (conc wake : Bool) (n : Nat)
  | cpushN (n : Nat)
  | pop (conc wait wake : Bool)
  | tryPop (conc wake : Bool)
  | popN (conc wait wake : Bool) (n : Nat)
  | tryPopN (conc wake : Bool) (n : Nat)
  | cpopN (n : Nat)
  | timedPopN (wake : Bool) (n : Nat) (tmo : Nat)
  | size
  deriving DecidableEq, Repr

def Call.entry : Call → Pc
  | .push conc wait wake => if conc then .idxRmw .push 1 true wait wake else .idxLd .push 1 true wait wake
  | .pop conc wait wake => if conc then .idxRmw .pop 1 true wait wake else .idxLd .pop 1 true wait wake
  | .pushN conc wait wake n => if conc then .idxRmw .push n false wait wake else .idxLd .push n false wait wake
  | .popN conc wait wake n => if conc then .idxRmw .pop n false wait wake else .idxLd .pop n false wait wake
  | .tryPush conc wake => .tIdx .push conc wake
  | .tryPop conc wake => .tIdx .pop conc wake
  | .tryPushN conc wake n => .nIdx .push { conc := conc, wake := wake, acc := 0, g2 := none, back := none } n
  | .tryPopN conc wake n => .nIdx .pop { conc := conc, wake := wake, acc := 0, g2 := none, back := none } n
  | .cpushN n => .cIdx .push n
  | .cpopN n => .cIdx .pop n
  | .timedPopN wake n tmo => .xIdx wake n tmo
  | .size => .zPop

/-- does the call take tickets of side `sd` (compensating variants work on both ends) -/
def Call.touches : Call → Side → Bool
  | .push .., .push | .tryPush .., .push | .pushN .., .push | .tryPushN .., .push => true
  | .pop .., .pop | .tryPop .., .pop | .popN .., .pop | .tryPopN .., .pop | .timedPopN .., .pop => true
  | .cpushN _, _ | .cpopN _, _ => true
  | _, _ => false
/-- does it take them without an atomic read-modify-write (CONCURRENT = false) -/
def Call.exclusive : Call → Side → Bool
  | .push false _ _, .push | .tryPush false _, .push | .pushN false _ _ _, .push | .tryPushN false _ _, .push => true
  | .pop false _ _, .pop | .tryPop false _, .pop | .popN false _ _ _, .pop | .tryPopN false _ _, .pop
  | .timedPopN .., .pop => true
  | _, _ => false
/-- side whose slots the call may sleep on with futex_wait -/
def Call.futexWaits : Call → Side → Bool
  | .push _ true _, .push | .pushN _ true _ _, .push | .pop _ true _, .pop | .popN _ true _ _, .pop
  | .timedPopN .., .pop => true
  | _, _ => false
/-- does every release the call performs on side `sd` wake sleepers -/
def Call.wakesOn : Call → Side → Bool
  | .push _ _ k, .push | .tryPush _ k, .push | .pushN _ _ k _, .push | .tryPushN _ k _, .push => k
  | .pop _ _ k, .pop | .tryPop _ k, .pop | .popN _ _ k _, .pop | .tryPopN _ k _, .pop | .timedPopN k _ _, .pop => k
  | .cpushN _, _ | .cpopN _, _ => false
  | _, _ => true
def Call.num : Call → Nat
  | .pushN _ _ _ n | .tryPushN _ _ n | .cpushN n | .popN _ _ _ n | .tryPopN _ _ n | .cpopN n | .timedPopN _ n _ => n
  | _ => 1

/-- Documented pairing rules (bounded_queue.h): USE_FUTEX_WAIT on one side needs USE_FUTEX_WAKE on
every release of the opposite side (`c.wakes`), batch sizes are between 1 and the capacity. -/
def Call.paired (c : Cfg) (k : Call) : Bool :=
  [Side.push, Side.pop].all (fun sd =>
    (!k.futexWaits sd || c.wakes sd.other) && (!(k.touches sd && c.wakes sd) || k.wakesOn sd))
  && decide (1 ≤ k.num ∧ k.num ≤ c.cap)

/-- ghost: the call a thread is executing (the transition system remembers it for the contract) -/
structure Sys where
  s : State
  cur : Nat → Option Call
  start : Nat → Side → Nat      -- ghost: dispenser values when the thread's current call began

def Sys.init : Sys := { s := State.init, cur := fun _ => none, start := fun _ _ => 0 }

/-- CONCURRENT = false contract: no other operation on that side overlaps -/
def Sys.mayStart (y : Sys) (t : Nat) (k : Call) : Prop :=
  ∀ sd u, u ≠ t → ∀ k', y.cur u = some k' →
    (k.exclusive sd = true → k'.touches sd = false) ∧ (k'.exclusive sd = true → k.touches sd = false)

/-- The transition relation: a thread performs its next action; an idle thread starts a call allowed
by the client contract; a finished call returns; a sleeper may wake spuriously. -/
inductive Step (c : Cfg) : Sys → Sys → Prop
  | act (y : Sys) (t : Nat) (inp : Inp) (s' : State) (l : Act) :
      stepThread c y.s t inp = some (s', l) → Step c y { y with s := s' }
  | call (y : Sys) (t : Nat) (k : Call) :
      y.s.pc t = .idle → k.paired c = true → y.mayStart t k →
      Step c y { s := y.s.setPc t k.entry, cur := upd y.cur t (some k), start := upd y.start t y.s.idx }
  | ret (y : Sys) (t : Nat) (res : Nat) :
      y.s.pc t = .retd res → Step c y { y with s := y.s.setPc t .idle, cur := upd y.cur t none }
  | spuriousWake (y : Sys) (t : Nat) (x : WCtx) (cur : Nat) :
      y.s.pc t = .wait x (.asleep cur) → Step c y { y with s := y.s.setPc t (.wait x .woken) }

end Babylon.BQ
