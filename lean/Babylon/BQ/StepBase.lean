/-
  Helper lemmas for `step_summary`: state updates, attributes of composite successors.
-/
import Babylon.BQ.Summary

namespace Babylon.BQ
open Babylon.Core Babylon.Gen.BQ

theorem upd_self {α} (f : Nat → α) (t : Nat) (v : α) : upd f t v t = v := by simp [upd]
theorem upd_other {α} (f : Nat → α) (t u : Nat) (v : α) (h : u ≠ t) : upd f t v u = f u := by simp [upd, h]

theorem others_upd (c : Cfg) (s s' : State) (t : Nat) (p' : Pc) (h : s'.pc = upd s.pc t p') : Others c s s' t := by
  intro u hu; rw [h, upd_other _ _ _ _ hu]; exact AttrEq.rfl' c _

theorem wakeAll_attrEq (c : Cfg) (pcs : Nat → Pc) (sl u : Nat) : AttrEq c (wakeAll c pcs sl u) (pcs u) := by
  unfold wakeAll
  split
  · rename_i x cur h
    split
    · rw [h]; exact ⟨rfl, by cases x <;> rfl, rfl, rfl, by cases x <;> rfl, rfl, Iff.rfl, by simp⟩
    · rw [h]; exact AttrEq.rfl' c _
  · exact AttrEq.rfl' c _

theorem others_wake (c : Cfg) (s s' : State) (t sl : Nat) (p' : Pc) (h : s'.pc = upd (wakeAll c s.pc sl) t p') :
    Others c s s' t := by
  intro u hu; rw [h, upd_other _ _ _ _ hu]; exact wakeAll_attrEq c _ _ _

theorem idx_setIdx (s : State) (sd : Side) (v : Nat) : (s.setIdx sd v).idx sd = v := by
  cases sd <;> rfl
theorem idx_setIdx_other (s : State) (sd : Side) (v : Nat) : (s.setIdx sd v).idx sd.other = s.idx sd.other := by
  cases sd <;> rfl

theorem Summary.mkQuiet {c : Cfg} {s s' : State} {t : Nat} (p' : Pc)
    (hpc : s'.pc t = p') (hcore : Core s s') (hoth : Others c s s' t)
    (hh : ∀ sd i, p'.held sd i ↔ (s.pc t).held sd i)
    (hd : ∀ sd i, p'.cbDone sd i ↔ (s.pc t).cbDone sd i)
    (hn : ∀ sd, p'.needs sd ≤ (s.pc t).needs sd) (hwf : p'.wf c) (hlb : ∀ sl, p'.lb c sl ≤ s.ver sl)
    (hexp : ∀ sd i, p'.expects sd = some i → s.idx sd = i) (hid : s.pc t ≠ .idle ∧ p' ≠ .idle) : Summary c s t s' := by
  subst hpc
  exact .quiet hcore hoth hh hd ⟨hn, hwf, hlb, fun sd i h => by rw [hcore.idx]; exact hexp sd i h, hid⟩

theorem Summary.ofQuiet {c : Cfg} {s s' : State} {t : Nat} (p' : Pc) (f : Nat → Pc)
    (hcore : Core s s') (hpcs : s'.pc = upd f t p') (hf : ∀ u, AttrEq c (f u) (s.pc u))
    (hh : ∀ sd i, p'.held sd i ↔ (s.pc t).held sd i)
    (hd : ∀ sd i, p'.cbDone sd i ↔ (s.pc t).cbDone sd i)
    (hn : ∀ sd, p'.needs sd ≤ (s.pc t).needs sd) (hwf : p'.wf c) (hlb : ∀ sl, p'.lb c sl ≤ s.ver sl)
    (hexp : ∀ sd i, p'.expects sd = some i → s.idx sd = i) (hid : s.pc t ≠ .idle ∧ p' ≠ .idle) : Summary c s t s' := by
  refine Summary.mkQuiet p' (by rw [hpcs, upd_self]) hcore ?_ hh hd hn hwf hlb hexp hid
  intro u hu; rw [hpcs, upd_other _ _ _ _ hu]; exact hf u

theorem Summary.ofAcquire {c : Cfg} {s s' : State} {t : Nat} (sd : Side) (n : Nat) (p' : Pc)
    (hs' : s' = (s.setIdx sd (s.idx sd + n)).setPc t p')
    (hneed : 1 ≤ (s.pc t).needs sd)
    (hh : ∀ sd' i, p'.held sd' i ↔ ((s.pc t).held sd' i ∨ (sd' = sd ∧ s.idx sd ≤ i ∧ i < s.idx sd + n)))
    (hd : ∀ sd i, p'.cbDone sd i ↔ (s.pc t).cbDone sd i)
    (hn : ∀ sd, p'.needs sd ≤ (s.pc t).needs sd) (hwf : p'.wf c) (hlb : ∀ sl, p'.lb c sl ≤ s.ver sl)
    (hexp : ∀ sd' i, p'.expects sd' = some i → (s.setIdx sd (s.idx sd + n)).idx sd' = i)
    (hid : s.pc t ≠ .idle ∧ p' ≠ .idle) : Summary c s t s' := by
  have hpc : s'.pc t = p' := by rw [hs']; simp [State.setPc, upd]
  refine .acquire sd n ?_ ?_ ?_ ?_ ?_ ?_ ?_ hneed ?_ ?_ ⟨?_, ?_, ?_, ?_, ?_⟩
  · rw [hs']; show (s.setIdx sd _).idx sd = _; exact idx_setIdx _ _ _
  · rw [hs']; show (s.setIdx sd _).idx sd.other = _; exact idx_setIdx_other _ _ _
  · rw [hs']; cases sd <;> rfl
  · rw [hs']; cases sd <;> rfl
  · rw [hs']; cases sd <;> rfl
  · rw [hs']; cases sd <;> rfl
  · apply others_upd c _ _ t p'; rw [hs']; cases sd <;> rfl
  · rw [hpc]; exact hh
  · rw [hpc]; exact hd
  · rw [hpc]; exact hn
  · rw [hpc]; exact hwf
  · rw [hpc]; exact hlb
  · rw [hpc]; intro sd' i h; rw [hs']; exact hexp sd' i h
  · rw [hpc]; exact hid

theorem Summary.ofRelease {c : Cfg} {s s' : State} {t : Nat} (sd : Side) (i : Nat) (p' : Pc) (f : Nat → Pc)
    (hver : s'.ver = upd s.ver (slotOf c i) (expVer c sd i + 1))
    (hpi : s'.pushIdx = s.pushIdx) (hqi : s'.popIdx = s.popIdx)
    (hval : s'.val = s.val) (hpv : s'.pushedV = s.pushedV) (hqv : s'.poppedV = s.poppedV)
    (hpcs : s'.pc = upd f t p') (hf : ∀ u, AttrEq c (f u) (s.pc u))
    (hheld : (s.pc t).held sd i) (hlbE : expVer c sd i ≤ (s.pc t).lb c (slotOf c i)) (hdone : (s.pc t).cbDone sd i)
    (hh : ∀ sd' i', p'.held sd' i' ↔ ((s.pc t).held sd' i' ∧ ¬ (sd' = sd ∧ i' = i)))
    (hd : ∀ sd' i', p'.cbDone sd' i' ↔ ((s.pc t).cbDone sd' i' ∧ ¬ (sd' = sd ∧ i' = i)))
    (hn : ∀ sd, p'.needs sd ≤ (s.pc t).needs sd) (hwf : p'.wf c) (hlb : ∀ sl, p'.lb c sl ≤ s.ver sl)
    (hexp : ∀ sd i, p'.expects sd = some i → s.idx sd = i) (hid : s.pc t ≠ .idle ∧ p' ≠ .idle) : Summary c s t s' := by
  have hpc : s'.pc t = p' := by rw [hpcs, upd_self]
  refine .release sd i hver hpi hqi hval hpv hqv ?_ hheld hlbE hdone ?_ ?_ ⟨?_, ?_, ?_, ?_, ?_⟩
  · intro u hu; rw [hpcs, upd_other _ _ _ _ hu]; exact hf u
  · rw [hpc]; exact hh
  · rw [hpc]; exact hd
  · rw [hpc]; exact hn
  · rw [hpc]; exact hwf
  · rw [hpc]; exact hlb
  · rw [hpc]; intro sd' i' h
    have := hexp sd' i' h
    cases sd' <;> simp only [State.idx] at * <;> omega
  · rw [hpc]; exact hid

/-! ### segments -/
theorem segLb_n (c : Cfg) (g : Seg) (n a b : Nat) : segLb c { g with n := n } a b = segLb c g a b := rfl

theorem split_held (c : Cfg) (sd : Side) (i n : Nat) (h1 : 1 ≤ n) (hn : n ≤ c.cap) (sd' : Side) (j : Nat) :
    (segTk (splitSegs c sd i n).1 0 sd' j ∨ optSegTk (splitSegs c sd i n).2 sd' j) ↔ (sd' = sd ∧ i ≤ j ∧ j < i + n) := by
  have h := splitSegs_spec c sd i n h1 hn
  simp only at h
  obtain ⟨_, _, hsd, hidx, _, hl, hsum⟩ := h
  cases h2 : (splitSegs c sd i n).2 with
  | none =>
    simp only [h2] at hsum hl
    simp only [optSegTk, segTk, hsd, hidx, or_false]
    constructor <;> intro h <;> refine ⟨h.1, ?_, ?_⟩ <;> omega
  | some g2 =>
    simp only [h2, linked] at hsum hl
    simp only [optSegTk, segTk, hsd, hidx, hl.1, hl.2]
    constructor
    · rintro (h | h) <;> refine ⟨h.1, ?_, ?_⟩ <;> omega
    · intro h
      by_cases hj : j < i + (splitSegs c sd i n).1.n
      · left; exact ⟨h.1, by omega, hj⟩
      · right; exact ⟨h.1, by omega, by omega⟩

/-! ### tryDecide / tryK -/
theorem tryK_needs_le (x : TryCtx) (g : Seg) (n : Nat) (hl : linked g.sd (g.idx + g.n) x.g2) (sd : Side) :
    (tryK x g n).needs sd ≤ max (sideIf g.sd sd (lvlConc x.conc)) (x.backNeeds sd) := by
  unfold tryK; split
  · rw [finishTry_needs]; omega
  · cases h : x.g2 with
    | none => simp only []; rw [finishTry_needs]; omega
    | some g2 =>
      simp only [h, linked] at hl
      simp only [K.needs, TryCtx.backNeeds, hl.1]
      omega

theorem tryK_wf (c : Cfg) (x : TryCtx) (g : Seg) (n : Nat) (hx : x.wf c g.sd) (h2 : optSegWf c x.g2)
    (hl : linked g.sd (g.idx + g.n) x.g2) (hn : n ≤ g.n) : (tryK x g n).wf c g.sd (g.idx + n) := by
  unfold tryK; split
  · exact finishTry_wf c x _ _ _ hx
  · cases h : x.g2 with
    | none => exact finishTry_wf c x _ _ _ hx
    | some g2 =>
      simp only [h, linked, optSegWf] at hl h2
      have : n = g.n := by omega
      simp only [K.wf, h2.1, h2.2, hl.1, hl.2, this, and_self, and_true]
      exact hx

theorem tryK_expects (x : TryCtx) (g : Seg) (n : Nat) (hl : linked g.sd (g.idx + g.n) x.g2) (hn : n ≤ g.n)
    (sd : Side) (i : Nat) (h : (tryK x g n).expects sd = some i) : x.conc = false ∧ sd = g.sd ∧ i = g.idx + n := by
  unfold tryK at h; split at h
  · rw [finishTry_expects] at h; cases h
  · cases h2 : x.g2 with
    | none => simp only [h2] at h; rw [finishTry_expects] at h; cases h
    | some g2 =>
      simp only [h2, linked] at hl h
      simp only [K.expects] at h
      split at h
      · rename_i hc; cases h
        exact ⟨hc.1, by rw [hc.2, hl.1], by rw [hl.2]; omega⟩
      · cases h

theorem tryDecide_held (c : Cfg) (x : TryCtx) (g : Seg) (n : Nat) (hx : x.wf c g.sd) : (tryDecide x g n).held = x.held := by
  unfold tryDecide; split
  · rw [runK_held c g.sd 0 _ (finishTry_wf c x _ _ _ hx), finishTry_held]
  · rfl
theorem tryDecide_cbDone (x : TryCtx) (g : Seg) (n : Nat) : (tryDecide x g n).cbDone = fun _ _ => False := by
  unfold tryDecide; split
  · exact runK_cbDone _
  · rfl
theorem tryDecide_lb (c : Cfg) (x : TryCtx) (g : Seg) (n : Nat) (hx : x.wf c g.sd) (sl : Nat) :
    (tryDecide x g n).lb c sl ≤ max (segLb c g 0 n sl) (x.lb c sl) := by
  unfold tryDecide; split
  · rw [runK_lb c g.sd 0 _ (finishTry_wf c x _ _ _ hx), finishTry_lb]; omega
  · exact Nat.le_refl _
theorem tryDecide_needs (c : Cfg) (x : TryCtx) (g : Seg) (n : Nat) (hx : x.wf c g.sd) (sd : Side) :
    (tryDecide x g n).needs sd ≤ max (sideIf g.sd sd (lvlConc x.conc)) (x.backNeeds sd) := by
  unfold tryDecide; split
  · rw [runK_needs c g.sd 0 _ (finishTry_wf c x _ _ _ hx), finishTry_needs]; omega
  · exact Nat.le_refl _
theorem tryDecide_expects (c : Cfg) (x : TryCtx) (g : Seg) (n : Nat) (hx : x.wf c g.sd) (sd : Side) (i : Nat)
    (h : (tryDecide x g n).expects sd = some i) : x.conc = false ∧ sd = g.sd ∧ i = g.idx := by
  unfold tryDecide at h; split at h
  · rw [runK_expects c g.sd 0 _ (finishTry_wf c x _ _ _ hx), finishTry_expects] at h; cases h
  · simp only [Pc.expects] at h
    split at h
    · rename_i hc; cases h; exact ⟨hc.1, hc.2, rfl⟩
    · cases h
theorem tryDecide_wf (c : Cfg) (x : TryCtx) (g : Seg) (n : Nat) (hx : x.wf c g.sd) (hg : g.wf c) (h2 : optSegWf c x.g2)
    (hl : linked g.sd (g.idx + g.n) x.g2) (hn : n ≤ g.n) : (tryDecide x g n).wf c := by
  unfold tryDecide; split
  · exact runK_wf c g.sd 0 _ (finishTry_wf c x _ _ _ hx)
  · simp only [Pc.wf]; exact ⟨hx, hg, h2, hl, by omega, hn⟩
theorem runK_ne_idle (k : K) : runK k ≠ .idle := by
  cases k with
  | ret r => simp [runK]
  | block w k g => simp only [runK, startWaitSeg]; split <;> simp
  | tryNext x g => simp only [runK]; split <;> simp
  | comp g => simp [runK]
  | back cc => simp [runK]

theorem tryDecide_ne_idle (x : TryCtx) (g : Seg) (n : Nat) : tryDecide x g n ≠ .idle := by
  unfold tryDecide; split
  · exact runK_ne_idle _
  · simp

end Babylon.BQ
