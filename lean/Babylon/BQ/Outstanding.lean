/-
  `Ver16Faithful` from a bound on concurrency only (no bound on the total traffic).

  Every truncated comparison of the code compares the 16-bit version of the slot of some ticket
  `(sd, i)` with the 16-bit expected version of that ticket (`Pc.watch`).  If all tickets that are
  taken but not completed, and all tickets whose slot a thread is about to compare, lie within
  less than 32767 (= 2^15 - 1) rounds of the ring below the dispenser (`OutstandingBound`), the slot
  version and the expected version are less than 2^16 apart and the truncated comparison is exact.
  The bound is a bound on the *span* of the outstanding tickets; `Outstanding.lean` also shows that
  it is necessary (two unfaithful states one round beyond it).
-/
import Babylon.BQ.Props

namespace Babylon.BQ
open Babylon.Core Babylon.Gen.BQ

/-- ticket a waiter compares the slot version with -/
def WCtx.tk : WCtx → Side × Nat
  | .single sd i _ _ => (sd, i)
  | .batch g j _ _ _ => (g.sd, g.idx + j)
  | .timed _ i num _ _ => (.pop, i + num)

/-- `(sd, i, d)`: the thread's next action compares the truncated version of slot `slotOf i` with the
truncation of `expVer sd i + d` -/
def Pc.watch : Pc → Option (Side × Nat × Nat)
  | .wait x .load0 | .wait x (.cas _) | .wait x .reload | .wait x .spin => some (x.tk.1, x.tk.2, 0)
  | .tVer sd _ _ i => some (sd, i, 0)
  | .nVer _ g j => some (g.sd, g.idx + j, 0)
  | .cVer cc => some (cc.g.sd, cc.g.idx + cc.j, 0)
  | .wLd b j => some (b.g.sd, b.g.idx + j, 1)
  | _ => none

theorem WCtx.tk_spec (c : Cfg) (x : WCtx) (hw : x.wf c) :
    x.slot c = slotOf c x.tk.2 ∧ x.E c = expVer c x.tk.1 x.tk.2 := by
  cases x with
  | single sd i w k => exact ⟨rfl, rfl⟩
  | batch g j w k kk =>
    have hw' : g.wf c ∧ j < g.n ∧ _ := hw
    exact ⟨seg_slot c g hw'.1 j hw'.2.1, (seg_E c g hw'.1 j hw'.2.1).symm⟩
  | timed w i num tb tmo => exact ⟨rfl, rfl⟩

theorem cmp_watch (c : Cfg) (p : Pc) (hw : p.wf c) (sl E : Nat) (h : p.cmp c = some (sl, E)) :
    ∃ sd i d, p.watch = some (sd, i, d) ∧ sl = slotOf c i ∧ E = expVer c sd i + d ∧ d ≤ 1 := by
  cases p <;> try (simp only [Pc.cmp] at h; cases h; done)
  · rename_i x w
    have hx : x.wf c := hw
    obtain ⟨e1, e2⟩ := WCtx.tk_spec c x hx
    cases w <;> try (simp only [Pc.cmp] at h; cases h; done)
    all_goals
      simp only [Pc.cmp, Option.some.injEq, Prod.mk.injEq] at h
      exact ⟨x.tk.1, x.tk.2, 0, rfl, by rw [← h.1, e1], by rw [← h.2, e2, Nat.add_zero], by omega⟩
  · rename_i sd conc wake i
    simp only [Pc.cmp, Option.some.injEq, Prod.mk.injEq] at h
    exact ⟨sd, i, 0, rfl, h.1.symm, h.2.symm, by omega⟩
  · rename_i x g j
    have hw' : _ ∧ g.wf c ∧ _ ∧ _ ∧ j < g.n := hw
    simp only [Pc.cmp, Option.some.injEq, Prod.mk.injEq] at h
    exact ⟨g.sd, g.idx + j, 0, rfl, by rw [← h.1, seg_slot c g hw'.2.1 j hw'.2.2.2.2],
      by rw [← h.2, seg_E c g hw'.2.1 j hw'.2.2.2.2, Nat.add_zero], by omega⟩
  · rename_i cc
    have hw' : cc.g.wf c ∧ _ ∧ cc.j < cc.g.n ∧ _ := hw
    simp only [Pc.cmp, Option.some.injEq, Prod.mk.injEq] at h
    exact ⟨cc.g.sd, cc.g.idx + cc.j, 0, rfl, by rw [← h.1, seg_slot c cc.g hw'.1 cc.j hw'.2.2.1],
      by rw [← h.2, seg_E c cc.g hw'.1 cc.j hw'.2.2.1, Nat.add_zero], by omega⟩
  · rename_i b j
    have hw' : (b.g.wf c ∧ _) ∧ j < b.g.n := hw
    simp only [Pc.cmp, Option.some.injEq, Prod.mk.injEq] at h
    refine ⟨b.g.sd, b.g.idx + j, 1, rfl, by rw [← h.1, seg_slot c b.g hw'.1.1 j hw'.2], ?_, by omega⟩
    rw [← h.2, seg_E c b.g hw'.1.1 j hw'.2]; rfl

/-! ### slot versions and the dispensers -/
theorem slotOf_add_rounds (c : Cfg) (i k : Nat) : slotOf c (i + k * c.cap) = slotOf c i := by
  unfold slotOf; exact Nat.add_mul_mod_self_right _ _ _

theorem expVer_add_rounds (c : Cfg) (sd : Side) (i k : Nat) : expVer c sd (i + k * c.cap) = expVer c sd i + 2 * k := by
  unfold expVer; rw [Nat.add_mul_div_right _ _ (cap_pos c)]; omega

/-- a slot cannot be ahead of the dispenser: if at most `k` rounds of tickets have been issued from `i` on,
the slot of `i` is at most `k` rounds past the deal of ticket `i` -/
theorem ver_upper {c : Cfg} {y : Sys} (hI : Inv c y) (sd : Side) (i k : Nat) (h : y.s.idx sd ≤ i + k * c.cap) :
    y.s.ver (slotOf c i) ≤ expVer c sd i + 2 * k := by
  have := hI.futLe sd (i + k * c.cap) h
  rwa [slotOf_add_rounds, expVer_add_rounds] at this

/-- a slot cannot be behind a completed ticket: if ticket `j` is issued and nobody holds it, its slot is less than
`k` rounds behind the deal of ticket `j + k * cap` -/
theorem ver_lower {c : Cfg} {y : Sys} (hI : Inv c y) (sd : Side) (j k : Nat) (hj : j < y.s.idx sd)
    (hn : ∀ t, ¬ (y.s.pc t).held sd j) :
    expVer c sd (j + k * c.cap) < y.s.ver (slotOf c (j + k * c.cap)) + 2 * k := by
  have := hI.doneGt sd j hj hn
  rw [slotOf_add_rounds, expVer_add_rounds]; omega

theorem expVer_small (c : Cfg) (sd : Side) (i r : Nat) (h : i < r * c.cap) : expVer c sd i + 1 ≤ 2 * r := by
  have : i / c.cap < r := Nat.div_lt_of_lt_mul (by rwa [Nat.mul_comm] at h)
  unfold expVer; cases sd <;> simp <;> omega

/-- **OutstandingBound**: a bound on concurrency only.
  * `held`:  every ticket taken from a dispenser and not yet completed is among the last `32767 * capacity - 1`
    tickets issued on its side (fewer than 2^15 - 1 rounds of the ring are outstanding);
  * `stale`: the same for a ticket whose slot a thread is about to compare without holding it (`try_*`, the timed
    pop, the waker's reload): the index it read is not older than that;
  * `ahead`: such an index is at most one round ahead of the dispenser (a fact of the code: the indices are read
    from the dispenser and `num ≤ capacity`; not part of `Inv`, so listed here). -/
structure OutstandingBound (c : Cfg) (s : State) : Prop where
  held : ∀ t sd i, (s.pc t).held sd i → s.idx sd < i + 32767 * c.cap
  stale : ∀ t sd i d, (s.pc t).watch = some (sd, i, d) → s.idx sd ≤ i + 32767 * c.cap
  ahead : ∀ t sd i d, (s.pc t).watch = some (sd, i, d) → i + d * c.cap ≤ s.idx sd + c.cap

/-- the version window of `faithful_of_window`, derived from the ticket window -/
theorem window_of_outstanding {c : Cfg} {y : Sys} (hI : Inv c y) (hb : OutstandingBound c y.s)
    (t sl E : Nat) (h : (y.s.pc t).cmp c = some (sl, E)) : y.s.ver sl < E + 65536 ∧ E < y.s.ver sl + 65536 := by
  obtain ⟨sd, i, d, hw, rfl, rfl, hd⟩ := cmp_watch c _ (hI.wf t) sl E h
  have hc := cap_pos c
  have hst := hb.stale t sd i d hw
  have hah := hb.ahead t sd i d hw
  have hup := ver_upper hI sd i 32767 hst
  refine ⟨by omega, ?_⟩
  have hd' : d = 0 ∨ d = 1 := by omega
  rcases hd' with rfl | rfl
  · by_cases hs : i < 32768 * c.cap
    · have := expVer_small c sd i 32768 hs; omega
    · have e : (i - 32768 * c.cap) + 32768 * c.cap = i := by omega
      have hl := ver_lower hI sd (i - 32768 * c.cap) 32768 (by omega)
        (fun u hu => by have := hb.held u sd _ hu; omega)
      rw [e] at hl; omega
  · by_cases hs : i < 32767 * c.cap
    · have := expVer_small c sd i 32767 hs; omega
    · have e : (i - 32767 * c.cap) + 32767 * c.cap = i := by omega
      have hl := ver_lower hI sd (i - 32767 * c.cap) 32767 (by omega)
        (fun u hu => by have := hb.held u sd _ hu; omega)
      rw [e] at hl; omega

/-- **ticket-level `bq_ver16_faithful`** -/
theorem faithful_of_outstanding {c : Cfg} {y : Sys} (hI : Inv c y) (hb : OutstandingBound c y.s) :
    ∀ t, Faithful c y.s t :=
  faithful_of_window c y.s (fun t sl E h => window_of_outstanding hI hb t sl E h)

/-- steps of the unrestricted transition system from states that satisfy the bound -/
def StepO (c : Cfg) (y y' : Sys) : Prop := Step c y y' ∧ OutstandingBound c y.s

/-- executions of the unrestricted system along which the concurrency bound holds (any length, any traffic) -/
def ReachO (c : Cfg) : Sys → Prop := Reachable (· = Sys.init) (StepO c)

theorem reachF_of_reachO {c : Cfg} {y : Sys} (h : ReachO c y) : ReachF c y := by
  induction h with
  | base h => exact Reachable.base h
  | tail _ hst ih => exact Reachable.tail ih ⟨hst.1, faithful_of_outstanding (inv_reach ih) hst.2⟩

/-- the same for the continuation of an execution (as used by `fifo_tickets`) -/
theorem laterF_of_laterO {c : Cfg} {y y' : Sys} (hy : ReachF c y) (h : Reachable (· = y) (StepO c) y') :
    Reachable (· = y) (StepF c) y' ∧ ReachF c y' := by
  induction h with
  | base h => subst h; exact ⟨Reachable.base rfl, hy⟩
  | tail _ hst ih =>
    have hf : StepF c _ _ := ⟨hst.1, faithful_of_outstanding (inv_reach ih.2) hst.2⟩
    exact ⟨Reachable.tail ih.1 hf, Reachable.tail ih.2 hf⟩

end Babylon.BQ
