/-
  `bq_try_fail_justified` for the batch variants try_push_n / try_pop_n (C01): a call that returns fewer
  elements than asked is justified by a state of its own call interval at which the first ticket it did not
  get was not ready (the queue held no further element / free slot for it), or by another operation that
  moved the same dispenser inside the interval (overlap).

  Ghost product as in TryFail.lean:
    nr t r   at some state since `t`'s call began, ticket `start + r` of the call's side was not ready
             (`start` = dispenser value when the call began, the existing ghost `Sys.start`)
    ovl t    at some step since the call began, the dispenser of the call's side moved while `t` did not
             (so another thread's operation overlapped the call)
-/
import Babylon.BQ.TryFail

namespace Babylon.BQ
open Babylon.Core Babylon.Gen.BQ

/-- ticket `start + r` of side `sd` is not ready in state `y` -/
def NR (c : Cfg) (y : Sys) (t : Nat) (sd : Side) (r : Nat) : Prop :=
  y.s.ver (slotOf c (y.start t sd + r)) ≠ expVer c sd (y.start t sd + r)

structure G2Sys where
  y : Sys
  nr : Nat → Nat → Prop
  ovl : Nat → Prop

def sameCall (a b : Sys) (t : Nat) : Prop := a.cur t ≠ none ∧ b.cur t ≠ none

inductive G2Step (c : Cfg) : G2Sys → G2Sys → Prop
  | mk (a b : G2Sys) : StepF c a.y b.y →
      (∀ t r, b.nr t r ↔ ((sameCall a.y b.y t ∧ a.nr t r) ∨ ∃ sd, trySide (b.y.cur t) = some sd ∧ NR c b.y t sd r)) →
      (∀ t, b.ovl t ↔ (sameCall a.y b.y t ∧
          (a.ovl t ∨ (a.y.s.pc t = b.y.s.pc t ∧ ∃ sd, trySide (b.y.cur t) = some sd ∧ a.y.s.idx sd ≠ b.y.s.idx sd)))) →
      G2Step c a b

def G2Reach (c : Cfg) : G2Sys → Prop :=
  Reachable (fun g => g.y = Sys.init ∧ (∀ t r, ¬ g.nr t r) ∧ ∀ t, ¬ g.ovl t) (G2Step c)

theorem g2reach_reach {c : Cfg} {g : G2Sys} (h : G2Reach c g) : ReachF c g.y := by
  induction h with
  | base h => exact Reachable.base h.1
  | tail _ hs ih => cases hs with | mk hst _ _ => exact Reachable.tail ih hst

theorem g2reach_of_reach {c : Cfg} {y : Sys} (h : ReachF c y) : ∃ n o, G2Reach c ⟨y, n, o⟩ := by
  induction h with
  | base h => exact ⟨fun _ _ => False, fun _ => False, Reachable.base ⟨h, fun _ _ hh => hh, fun _ hh => hh⟩⟩
  | @tail a b _ hs ih =>
    obtain ⟨n, o, hw⟩ := ih
    exact ⟨fun t r => (sameCall a b t ∧ n t r) ∨ ∃ sd, trySide (b.cur t) = some sd ∧ NR c b t sd r,
      fun t => sameCall a b t ∧ (o t ∨ (a.s.pc t = b.s.pc t ∧ ∃ sd, trySide (b.cur t) = some sd ∧ a.s.idx sd ≠ b.s.idx sd)),
      Reachable.tail hw (G2Step.mk ⟨a, n, o⟩ ⟨b, _, _⟩ hs (fun t r => Iff.rfl) (fun t => Iff.rfl))⟩

def g2n : Option Seg → Nat
  | none => 0
  | some g => g.n

/-- what the call knows precisely, as long as nobody overlapped it -/
def BPrec (c : Cfg) (sd : Side) (num S : Nat) (p : Pc) (s : State) (nr : Nat → Prop) : Prop :=
  match p with
  | .nIdx sd' x num' => sd' = sd ∧ num' = num ∧ x.acc = 0 ∧ x.back = none ∧ s.idx sd = S
  | .nVer x g _ => g.sd = sd ∧ x.back = none ∧ g.idx = S + x.acc ∧ s.idx sd = g.idx ∧ x.acc + g.n + g2n x.g2 = num
  | .nCas x g n => g.sd = sd ∧ x.back = none ∧ g.idx = S + x.acc ∧ s.idx sd = g.idx ∧ x.acc + g.n + g2n x.g2 = num ∧
      (n < g.n → nr (x.acc + n))
  | .fAcq b | .bCbB b | .bCbE b | .fRel b | .bSt b _ | .fSc b | .wLd b _ | .wCas b _ _ | .wWake b _ =>
    match b.k with
    | .ret r => r = num ∨ nr r
    | .tryNext x g => g.sd = sd ∧ x.back = none ∧ x.g2 = none ∧ g.idx = S + x.acc ∧ s.idx sd = g.idx ∧ x.acc + g.n = num
    | _ => False
  | .retd r => r = num ∨ nr r
  | _ => False

/-- continuations of a top-level try_*_n -/
def Kok : K → Prop
  | .ret _ => True
  | .tryNext x _ => x.back = none
  | _ => False

/-- pcs a (top-level) try_push_n / try_pop_n call can be at -/
def BShape (p : Pc) : Prop :=
  match p with
  | .nIdx _ x _ | .nVer x _ _ | .nCas x _ _ => x.back = none
  | .fAcq b | .bCbB b | .bCbE b | .fRel b | .bSt b _ | .fSc b | .wLd b _ | .wCas b _ _ | .wWake b _ => Kok b.k
  | .retd _ => True
  | _ => False

theorem shape_runK (k : K) (h : Kok k) : BShape (runK k) := by
  cases k <;> simp only [Kok] at h <;> try (exact h.elim)
  · trivial
  · simp only [runK]; split
    · trivial
    · exact h
theorem kok_finishTry (x : TryCtx) (hb : x.back = none) (r : Nat) : Kok (finishTry x r) := by
  unfold finishTry; rw [hb]; trivial
theorem kok_tryK (x : TryCtx) (g : Seg) (n : Nat) (hb : x.back = none) : Kok (tryK x g n) := by
  unfold tryK; split
  · exact kok_finishTry x hb _
  · cases x.g2 with
    | none => exact kok_finishTry x hb _
    | some g2 => exact hb
theorem shape_tryDecide (x : TryCtx) (g : Seg) (n : Nat) (hb : x.back = none) : BShape (tryDecide x g n) := by
  unfold tryDecide; split
  · exact shape_runK _ (kok_finishTry x hb _)
  · exact hb
theorem shape_afterStores (b : BCtx) (h : Kok b.k) : BShape (afterStores b) := by
  unfold afterStores; split
  · exact h
  · exact shape_runK _ h
theorem shape_nextWake (b : BCtx) (j : Nat) (h : Kok b.k) : BShape (nextWake b j) := by
  unfold nextWake; split
  · exact h
  · exact shape_runK _ h

theorem bshape_own (c : Cfg) (s s' : State) (t : Nat) (inp : Inp) (l : Act)
    (h : stepThread c s t inp = some (s', l)) (hsh : BShape (s.pc t)) : BShape (s'.pc t) := by
  cases hp : s.pc t <;> rw [hp] at hsh <;> simp only [BShape] at hsh <;> try (exact hsh.elim)
  case retd r => simp [stepThread, hp] at h
  all_goals
    simp only [stepThread, hp] at h
    (repeat' split at h) <;> first
      | (cases h; done)
      | (simp only [Option.some.injEq, Prod.mk.injEq] at h
         rw [← h.1]
         first
           | rw [setPc_self]
           | rw [pcu_setIdx]
           | simp only [upd_self]
         first
           | exact hsh
           | exact shape_tryDecide _ _ _ hsh
           | exact shape_runK _ (kok_finishTry _ hsh _)
           | exact kok_tryK _ _ _ hsh
           | exact shape_afterStores _ hsh
           | exact shape_nextWake _ _ hsh
           | exact shape_runK _ hsh
           | ((repeat' split) <;> first
               | exact hsh
               | exact shape_tryDecide _ _ _ hsh
               | exact shape_nextWake _ _ hsh
               | exact shape_afterStores _ hsh
               | exact shape_runK _ hsh))

/-- the part of `BPrec` carried by a continuation -/
def BK (sd : Side) (num S : Nat) (k : K) (s : State) (nr : Nat → Prop) : Prop :=
  match k with
  | .ret r => r = num ∨ nr r
  | .tryNext x g => g.sd = sd ∧ x.back = none ∧ x.g2 = none ∧ g.idx = S + x.acc ∧ s.idx sd = g.idx ∧ x.acc + g.n = num
  | _ => False

theorem bk_mono (sd : Side) (num S : Nat) (k : K) (s s' : State) (nr nr' : Nat → Prop)
    (h : BK sd num S k s nr) (hi : s'.idx sd = s.idx sd) (hn : ∀ r, nr r → nr' r) : BK sd num S k s' nr' := by
  cases k <;> simp only [BK] at h ⊢ <;> try (exact h.elim)
  · rcases h with h | h
    · exact Or.inl h
    · exact Or.inr (hn _ h)
  · rw [hi]; exact h

theorem bk_runK (c : Cfg) (sd : Side) (num S : Nat) (k : K) (s : State) (nr : Nat → Prop) (sd0 : Side) (e : Nat)
    (h : BK sd num S k s nr) (hw : k.wf c sd0 e) : BPrec c sd num S (runK k) s nr := by
  cases k <;> simp only [BK] at h <;> try (exact h.elim)
  · exact h
  · rename_i x g
    have : g.n ≠ 0 := by simp only [K.wf] at hw; omega
    simp only [runK, this, if_false, BPrec]
    exact ⟨h.1, h.2.1, h.2.2.2.1, h.2.2.2.2.1, by rw [h.2.2.1]; simp only [g2n]; omega⟩

theorem idx_setPc (s : State) (t : Nat) (p : Pc) (sd : Side) : (s.setPc t p).idx sd = s.idx sd := by cases sd <;> rfl

/-- successors of a batch critical-section / release phase of `b` -/
inductive Succ (b : BCtx) : Pc → Prop
  | fAcq : Succ b (.fAcq b)
  | bCbB : Succ b (.bCbB b)
  | bCbE : Succ b (.bCbE b)
  | fRel : Succ b (.fRel b)
  | bSt (j : Nat) : Succ b (.bSt b j)
  | fSc : Succ b (.fSc b)
  | wLd (j : Nat) : Succ b (.wLd b j)
  | wCas (j cur : Nat) : Succ b (.wCas b j cur)
  | wWake (j : Nat) : Succ b (.wWake b j)
  | runK : Succ b (runK b.k)

theorem succ_afterStores (b : BCtx) : Succ b (afterStores b) := by
  unfold afterStores; split
  · exact Succ.fSc
  · exact Succ.runK
theorem succ_nextWake (b : BCtx) (j : Nat) : Succ b (nextWake b j) := by
  unfold nextWake; split
  · exact Succ.wLd _
  · exact Succ.runK

theorem bprec_succ (c : Cfg) (sd : Side) (num S : Nat) (b : BCtx) (s' : State) (nr' : Nat → Prop) (p' : Pc) (e : Nat)
    (hbk : BK sd num S b.k s' nr') (hkw : b.k.wf c b.g.sd e) (hs : Succ b p') : BPrec c sd num S p' s' nr' := by
  cases hs with
  | runK => exact bk_runK c sd num S b.k s' nr' _ _ hbk hkw
  | _ => exact hbk

theorem bprec_bctx (c : Cfg) (s s' : State) (t : Nat) (inp : Inp) (l : Act) (sd : Side) (num S : Nat) (nr nr' : Nat → Prop) (b : BCtx)
    (h : stepThread c s t inp = some (s', l))
    (hpc : s.pc t = .fAcq b ∨ s.pc t = .bCbB b ∨ s.pc t = .bCbE b ∨ s.pc t = .fRel b ∨ (∃ j, s.pc t = .bSt b j) ∨ s.pc t = .fSc b ∨
      (∃ j, s.pc t = .wLd b j) ∨ (∃ j cur, s.pc t = .wCas b j cur) ∨ (∃ j, s.pc t = .wWake b j))
    (hkw : b.k.wf c b.g.sd (b.g.idx + b.g.n)) (hbk : BK sd num S b.k s nr) (hnr : ∀ r, nr r → nr' r) :
    BPrec c sd num S (s'.pc t) s' nr' := by
  have fin : ∀ (s1 : State) (p' : Pc), s1.idx sd = s.idx sd → Succ b p' → s'.pc t = p' → s'.idx sd = s1.idx sd →
      BPrec c sd num S (s'.pc t) s' nr' := by
    intro s1 p' hi hsucc hpc' hi'
    rw [hpc']
    exact bprec_succ c sd num S b s' nr' p' _ (bk_mono sd num S _ s s' nr nr' hbk (by rw [hi', hi]) hnr) hkw hsucc
  rcases hpc with hp | hp | hp | hp | ⟨j, hp⟩ | hp | ⟨j, hp⟩ | ⟨j, cur, hp⟩ | ⟨j, hp⟩ <;> simp only [stepThread, hp] at h
  all_goals
    (repeat' split at h) <;> first
      | (cases h; done)
      | (simp only [Option.some.injEq, Prod.mk.injEq] at h
         refine fin s _ rfl ?_ (by rw [← h.1]) (by rw [← h.1]; first | done | (cases sd <;> rfl))
         first | rw [setPc_self] | simp only [upd_self]
         first
           | constructor
           | exact succ_afterStores b
           | exact succ_nextWake b _
           | (split <;> first | constructor | exact succ_afterStores b | exact succ_nextWake b _))

/-- own step of a thread inside try_push_n / try_pop_n that nobody has overlapped so far -/
theorem bprec_own (c : Cfg) (s s' : State) (t : Nat) (inp : Inp) (l : Act) (sd : Side) (num S : Nat) (nr nr' : Nat → Prop)
    (h : stepThread c s t inp = some (s', l)) (hwf : (s.pc t).wf c) (hp : BPrec c sd num S (s.pc t) s nr)
    (hnr : ∀ r, nr r → nr' r) (hNR : ∀ r, s'.ver (slotOf c (S + r)) ≠ expVer c sd (S + r) → nr' r) :
    BPrec c sd num S (s'.pc t) s' nr' := by
  cases hpc : s.pc t <;> rw [hpc] at hp hwf <;> simp only [BPrec] at hp <;> try (exact hp.elim)
  case retd r => simp [stepThread, hpc] at h
  case nIdx sd' x num' =>
    obtain ⟨rfl, rfl, hacc, hback, hidx⟩ := hp
    have hw : x.wf c sd' ∧ 1 ≤ num' ∧ num' ≤ c.cap ∧ x.g2 = none := hwf
    obtain ⟨_, hn1, hsd, hi, _, _, hsum⟩ := splitSegs_spec c sd' (s.idx sd') num' hw.2.1 hw.2.2.1
    have hne : (splitSegs c sd' (s.idx sd') num').1.n ≠ 0 := by omega
    simp only [stepThread, hpc, hne, if_false, Option.some.injEq, Prod.mk.injEq] at h
    rw [← h.1, setPc_self]
    simp only [BPrec, idx_setPc]
    refine ⟨hsd, hback, by rw [hi, hacc, hidx]; rfl, by rw [hi], ?_⟩
    rw [hacc]
    cases h2 : (splitSegs c sd' (s.idx sd') num').2 <;> simp only [h2, g2n] at hsum ⊢ <;> omega
  case nVer x g j =>
    obtain ⟨hsd, hback, hgi, hidx, hsum⟩ := hp
    have hw : x.wf c g.sd ∧ g.wf c ∧ optSegWf c x.g2 ∧ linked g.sd (g.idx + g.n) x.g2 ∧ j < g.n := hwf
    simp only [stepThread, hpc, Option.some.injEq, Prod.mk.injEq, v16_word] at h
    obtain ⟨h, -⟩ := h
    have hs' : s'.ver = s.ver := by rw [← h]; rfl
    -- a mismatch at position j means ticket S + acc + j is not ready
    have miss : ¬ v16 (s.ver (g.slot c j)) = v16 (g.E c) → nr' (x.acc + j) := by
      intro hne
      apply hNR
      rw [hs', ← Nat.add_assoc, ← hgi, ← seg_slot c g hw.2.1 j hw.2.2.2.2, ← hsd, seg_E c g hw.2.1 j hw.2.2.2.2]
      intro hv; exact hne (by rw [hv])
    have dec : ∀ n, n ≤ g.n → (n < g.n → nr' (x.acc + n)) → BPrec c sd num S (tryDecide x g n) s nr' := by
      intro n hn hnn
      unfold tryDecide; split
      · rename_i e
        unfold finishTry; rw [hback]; simp only [runK, BPrec]
        right; have := hnn (by omega); rw [e] at this; exact this
      · exact ⟨hsd, hback, hgi, hidx, hsum, hnn⟩
    have lift : ∀ p, BPrec c sd num S p s nr' → BPrec c sd num S ((s.setPc t p).pc t) (s.setPc t p) nr' := by
      intro p hp; rw [setPc_self]
      cases p <;> simp only [BPrec, idx_setPc] at hp ⊢ <;> exact hp
    rw [← h]
    apply lift
    split
    · split
      · exact ⟨hsd, hback, hgi, hidx, hsum⟩
      · exact dec g.n (Nat.le_refl _) (fun hlt => absurd hlt (Nat.lt_irrefl _))
    · rename_i hne; exact dec j (by omega) (fun _ => miss hne)
  case nCas x g n =>
    obtain ⟨hsd, hback, hgi, hidx, hsum, hshort⟩ := hp
    have hw : x.wf c g.sd ∧ g.wf c ∧ optSegWf c x.g2 ∧ linked g.sd (g.idx + g.n) x.g2 ∧ 0 < n ∧ n ≤ g.n := hwf
    have acq : s' = (s.setIdx g.sd (g.idx + n)).setPc t (.fAcq { g := { g with n := n }, wake := x.wake, k := tryK x g n }) →
        BPrec c sd num S (s'.pc t) s' nr' := by
      intro e; rw [e, setPc_self]
      show BK sd num S (tryK x g n) _ nr'
      by_cases hlt : n < g.n
      · have ek : tryK x g n = .ret (x.acc + n) := by unfold tryK finishTry; simp [hlt, hback]
        rw [ek]; exact Or.inr (hnr _ (hshort hlt))
      · have hn : n = g.n := by omega
        cases hg2 : x.g2 with
        | none =>
          have ek : tryK x g n = .ret (x.acc + n) := by unfold tryK finishTry; simp [hlt, hback, hg2]
          rw [ek]; left
          rw [hg2] at hsum; simp only [g2n] at hsum; omega
        | some g2 =>
          have ek : tryK x g n = .tryNext { x with acc := x.acc + n, g2 := none } g2 := by unfold tryK; simp [hlt, hg2]
          rw [ek]
          rw [hg2] at hsum; simp only [g2n] at hsum
          have hl := hw.2.2.2.1; rw [hg2] at hl; simp only [linked] at hl
          refine ⟨by rw [hl.1, hsd], hback, rfl, by rw [hl.2, hgi]; simp only []; omega, ?_, by simp only []; omega⟩
          rw [idx_setPc, ← hsd, idx_setIdx, hl.2, hn]
    simp only [stepThread, hpc] at h
    cases hc : x.conc with
    | true =>
      simp only [hc, if_true] at h
      split at h
      · simp only [Option.some.injEq, Prod.mk.injEq] at h; exact acq h.1.symm
      · rename_i hne; exact absurd (by rw [hsd]; exact hidx) hne
    | false =>
      simp only [hc, Bool.false_eq_true, if_false, Option.some.injEq, Prod.mk.injEq] at h
      exact acq h.1.symm
  case fAcq b => exact bprec_bctx c s s' t inp l sd num S nr nr' b h (Or.inl hpc) hwf.1.2 hp hnr
  case bCbB b => exact bprec_bctx c s s' t inp l sd num S nr nr' b h (Or.inr (Or.inl hpc)) hwf.1.2 hp hnr
  case bCbE b => exact bprec_bctx c s s' t inp l sd num S nr nr' b h (Or.inr (Or.inr (Or.inl hpc))) hwf.1.2 hp hnr
  case fRel b => exact bprec_bctx c s s' t inp l sd num S nr nr' b h (Or.inr (Or.inr (Or.inr (Or.inl hpc)))) hwf.1.2 hp hnr
  case bSt b j => exact bprec_bctx c s s' t inp l sd num S nr nr' b h (Or.inr (Or.inr (Or.inr (Or.inr (Or.inl ⟨j, hpc⟩))))) hwf.1.2 hp hnr
  case fSc b => exact bprec_bctx c s s' t inp l sd num S nr nr' b h (Or.inr (Or.inr (Or.inr (Or.inr (Or.inr (Or.inl hpc)))))) hwf.1.2 hp hnr
  case wLd b j => exact bprec_bctx c s s' t inp l sd num S nr nr' b h (Or.inr (Or.inr (Or.inr (Or.inr (Or.inr (Or.inr (Or.inl ⟨j, hpc⟩))))))) hwf.1.2 hp hnr
  case wCas b j cur => exact bprec_bctx c s s' t inp l sd num S nr nr' b h (Or.inr (Or.inr (Or.inr (Or.inr (Or.inr (Or.inr (Or.inr (Or.inl ⟨j, cur, hpc⟩)))))))) hwf.1.2 hp hnr
  case wWake b j => exact bprec_bctx c s s' t inp l sd num S nr nr' b h (Or.inr (Or.inr (Or.inr (Or.inr (Or.inr (Or.inr (Or.inr (Or.inr ⟨j, hpc⟩)))))))) hwf.1.2 hp hnr

def tryNCall : Option Call → Option (Side × Nat)
  | some (.tryPushN _ _ n) => some (.push, n)
  | some (.tryPopN _ _ n) => some (.pop, n)
  | _ => none

def BInv (c : Cfg) (g : G2Sys) : Prop :=
  ∀ t sd num, tryNCall (g.y.cur t) = some (sd, num) →
    BShape (g.y.s.pc t) ∧ (g.ovl t ∨ BPrec c sd num (g.y.start t sd) (g.y.s.pc t) g.y.s (g.nr t))

theorem bprec_other (c : Cfg) (sd : Side) (num S : Nat) (p : Pc) (s s' : State) (nr nr' : Nat → Prop)
    (h : BPrec c sd num S p s nr) (hi : s'.idx sd = s.idx sd) (hn : ∀ r, nr r → nr' r) : BPrec c sd num S p s' nr' := by
  cases p <;> try (exact h.elim)
  case retd r => rcases h with h | h; exact Or.inl h; exact Or.inr (hn _ h)
  case nIdx sd' x num' => simp only [BPrec] at h ⊢; rw [hi]; exact h
  case nVer x g j => simp only [BPrec] at h ⊢; rw [hi]; exact h
  case nCas x g n =>
    simp only [BPrec] at h ⊢; rw [hi]
    exact ⟨h.1, h.2.1, h.2.2.1, h.2.2.2.1, h.2.2.2.2.1, fun hl => hn _ (h.2.2.2.2.2 hl)⟩
  all_goals exact bk_mono sd num S _ s s' nr nr' h hi hn

theorem trySide_of_tryNCall (k : Option Call) (sd : Side) (num : Nat) (h : tryNCall k = some (sd, num)) :
    trySide k = some sd ∧ k ≠ none := by
  cases k with
  | none => cases h
  | some k => cases k <;> simp [tryNCall] at h <;> obtain ⟨rfl, _⟩ := h <;> exact ⟨rfl, by simp⟩

theorem binv_step {c : Cfg} {a b : G2Sys} (ha : G2Reach c a) (hI : BInv c a) (h : G2Step c a b) : BInv c b := by
  have hr := g2reach_reach ha
  have hInv := inv_reach hr
  have hS := sinv_reach hr
  obtain ⟨ay, an, ao⟩ := a
  obtain ⟨by', bn, bo⟩ := b
  cases h with
  | mk hst hnr hovl =>
    simp only at hst hnr hovl hr hInv hS
    intro t sd num hc
    simp only at hc ⊢
    obtain ⟨hside, hbne⟩ := trySide_of_tryNCall _ sd num hc
    obtain ⟨hstep, hf⟩ := hst
    -- generic: the thread's pc, call and start are unchanged by the step
    have other : ∀ (hcur : by'.cur t = ay.cur t) (hpc : by'.s.pc t = ay.s.pc t) (hstart : by'.start t sd = ay.start t sd),
        BShape (by'.s.pc t) ∧ (bo t ∨ BPrec c sd num (by'.start t sd) (by'.s.pc t) by'.s (bn t)) := by
      intro hcur hpc hstart
      have hc0 : tryNCall (ay.cur t) = some (sd, num) := by rw [← hcur]; exact hc
      have hane := (trySide_of_tryNCall _ sd num hc0).2
      obtain ⟨hsh, hor⟩ := hI t sd num hc0
      refine ⟨by rw [hpc]; exact hsh, ?_⟩
      rcases hor with ho | hp
      · exact Or.inl ((hovl t).2 ⟨⟨hane, hbne⟩, Or.inl ho⟩)
      · by_cases hi : by'.s.idx sd = ay.s.idx sd
        · right; rw [hpc, hstart]
          exact bprec_other c sd num _ _ ay.s by'.s _ _ hp hi (fun r hr => (hnr t r).2 (Or.inl ⟨⟨hane, hbne⟩, hr⟩))
        · exact Or.inl ((hovl t).2 ⟨⟨hane, hbne⟩, Or.inr ⟨hpc.symm, sd, hside, fun e => hi e.symm⟩⟩)
    cases hstep with
    | act u inp s' l hs =>
      by_cases htu : t = u
      · subst htu
        have hane := hbne
        obtain ⟨hsh, hor⟩ := hI t sd num hc
        refine ⟨bshape_own c ay.s s' t inp l hs hsh, ?_⟩
        rcases hor with ho | hp
        · exact Or.inl ((hovl t).2 ⟨⟨hane, hbne⟩, Or.inl ho⟩)
        · right
          refine bprec_own c ay.s s' t inp l sd num _ _ _ hs (hInv.wf t) hp (fun r hr => (hnr t r).2 (Or.inl ⟨⟨hane, hbne⟩, hr⟩)) ?_
          intro r hne; exact (hnr t r).2 (Or.inr ⟨sd, hside, hne⟩)
      · have hw := step_wsum c ay.s s' u inp l hs (hS.s0 u)
        rcases hw.others t htu with e | ⟨x, cur, e1, _, _⟩
        · exact other rfl e rfl
        · have := (hI t sd num hc).1; simp only at this; rw [e1] at this; exact this.elim
    | call u k hidle hpair hmay =>
      by_cases htu : t = u
      · subst htu
        simp only [upd_self] at hc
        show BShape ((ay.s.setPc t k.entry).pc t) ∧ (bo t ∨ BPrec c sd num (upd ay.start t ay.s.idx t sd) ((ay.s.setPc t k.entry).pc t) _ (bn t))
        rw [setPc_self, upd_self]
        cases k <;> simp only [tryNCall, Option.some.injEq, Prod.mk.injEq] at hc <;> try (cases hc; done)
        all_goals (obtain ⟨rfl, rfl⟩ := hc; exact ⟨rfl, Or.inr ⟨rfl, rfl, rfl, rfl, idx_setPc _ _ _ _⟩⟩)
      · exact other (by show upd ay.cur u (some k) t = _; rw [upd_other _ _ _ _ htu]) (setPc_other _ _ _ t htu)
          (by show upd ay.start u ay.s.idx t sd = _; rw [upd_other _ _ _ _ htu])
    | ret u res hret =>
      by_cases htu : t = u
      · subst htu; simp only [upd_self] at hc; cases hc
      · exact other (by show upd ay.cur u none t = _; rw [upd_other _ _ _ _ htu]) (setPc_other _ _ _ t htu) rfl
    | spuriousWake u x cur hp =>
      by_cases htu : t = u
      · subst htu; have := (hI t sd num hc).1; simp only at this; rw [hp] at this; exact this.elim
      · exact other rfl (setPc_other _ _ _ t htu) rfl

theorem binv_reach {c : Cfg} {g : G2Sys} (h : G2Reach c g) : BInv c g := by
  induction h with
  | base h => intro t sd num hc; rw [h.1] at hc; cases hc
  | tail hr hs ih => exact binv_step hr ih hs

/-- **try-failure justification (try_push_n / try_pop_n).**  A call about to return `res ≠ num` elements was
overlapped by another operation on its dispenser, or at some state of its call interval the first ticket it did
not get (`start + res`) was not ready: the queue held no element / no free slot for it. -/
theorem tryN_short_justified {c : Cfg} {g : G2Sys} (h : G2Reach c g) (t : Nat) (sd : Side) (num res : Nat)
    (hc : tryNCall (g.y.cur t) = some (sd, num)) (hp : g.y.s.pc t = .retd res) (hne : res ≠ num) :
    g.ovl t ∨ g.nr t res := by
  obtain ⟨_, hor⟩ := binv_reach h t sd num hc
  rcases hor with ho | hpq
  · exact Or.inl ho
  · rw [hp] at hpq
    rcases hpq with e | e
    · exact absurd e hne
    · exact Or.inr e

end Babylon.BQ
