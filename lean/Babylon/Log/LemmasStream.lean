/-
  Helper lemmas for the LogEntry model, part 3: page contents.
  * `xsputn` is the same as writing the characters one by one (`sputn_eq_foldl`);
  * the stream invariant `SInv` (structure + contents) and its preservation by every operation;
  * what `append_to_iovec` returns on a state satisfying the invariant (`expectIov`).
-/
import Babylon.Log.LemmasInv

namespace Babylon.Log
open Babylon.Gen.Log

/-! ### `xsputn` = character by character -/

theorem Stream.putc_fault {α} (s : Stream α) (b : α) (h : s.buf.fault.isSome) : s.putc b = s := by
  have : s.buf.putc = s.buf := by unfold Buf.putc; simp [h]
  unfold Stream.putc
  simp [this, h]

theorem Stream.foldl_putc_fault {α} (l : List α) (s : Stream α) (h : s.buf.fault.isSome) :
    l.foldl Stream.putc s = s := by
  induction l with
  | nil => rfl
  | cons b l ih => simp [List.foldl_cons, Stream.putc_fault s b h, ih]

theorem DMem.app_app {α} (m : DMem α) (p : Option Nat) (a b : List α) :
    (m.app p a).app p b = m.app p (a ++ b) := by
  cases p with
  | none => rfl
  | some p =>
    funext q
    by_cases hq : q = p <;> simp [DMem.app, hq]

theorem DMem.app_nil {α} (m : DMem α) (p : Option Nat) : m.app p [] = m := by
  cases p with
  | none => rfl
  | some p => funext q; simp [DMem.app]

/-- Copying a chunk that fits the put area = storing its characters one by one. -/
theorem Stream.copy_eq_foldl {α} : ∀ (chunk : List α) (s : Stream α), s.buf.fault = none →
    s.buf.pptr + chunk.length ≤ s.buf.epptr → s.copy chunk = chunk.foldl Stream.putc s
  | [], s, _, _ => by
    cases s
    simp [Stream.copy, DMem.app_nil]
  | b :: rest, s, hf, hlen => by
    have hlt : s.buf.pptr < s.buf.epptr := by simp at hlen; omega
    have hp : s.putc b = ⟨{ s.buf with pptr := s.buf.pptr + 1 }, s.dmem.app s.buf.cur [b]⟩ := by
      unfold Stream.putc Buf.putc
      simp [hf, hlt]
    have ih := Stream.copy_eq_foldl rest (s.putc b) (by rw [hp]; exact hf)
      (by rw [hp]; simp at hlen ⊢; omega)
    rw [List.foldl_cons, ← ih, hp]
    simp only [Stream.copy, DMem.app_app, List.length_cons]
    congr 2
    · omega

theorem Stream.over_eq_putc {α} (s : Stream α) (c : α) (hf : s.buf.fault = none)
    (hfull : ¬ s.buf.pptr < s.buf.epptr) : s.over c = s.putc c := by
  unfold Stream.over Stream.putc
  rw [putc_full hf hfull]

theorem Stream.sputnLoop_eq {α} : ∀ (fuel : Nat) (s : Stream α) (bs : List α), bs.length < fuel →
    Stream.sputnLoop fuel s bs = bs.foldl Stream.putc s
  | 0, _, _, h => by omega
  | fuel + 1, s, [], _ => by simp [Stream.sputnLoop]
  | fuel + 1, s, b :: rest, hlen => by
    unfold Stream.sputnLoop
    by_cases hf : s.buf.fault.isSome
    · simp [hf, Stream.foldl_putc_fault _ s hf]
    · have hf' : s.buf.fault = none := by simpa using hf
      simp only [hf, Bool.false_eq_true, if_false]
      by_cases hroom : s.buf.epptr - s.buf.pptr > 0
      · simp only [hroom, if_true]
        generalize hlen' : min (s.buf.epptr - s.buf.pptr) (b :: rest).length = len
        have hsplit : (b :: rest) = (b :: rest).take len ++ (b :: rest).drop len := (List.take_append_drop _ _).symm
        have hcl : ((b :: rest).take len).length = len := by
          rw [List.length_take]; omega
        have hcopy := Stream.copy_eq_foldl ((b :: rest).take len) s hf' (by rw [hcl]; omega)
        rcases hd : (b :: rest).drop len with _ | ⟨c, rest'⟩
        · simp only
          rw [hcopy]
          conv => rhs; rw [hsplit, hd]
          simp
        · simp only
          have hdl : ((b :: rest).drop len).length = rest'.length + 1 := by rw [hd]; simp
          rw [List.length_drop] at hdl
          have hlen2 : len = s.buf.epptr - s.buf.pptr := by
            simp only [List.length_cons] at hdl hlen'
            omega
          have hs1f : (s.copy ((b :: rest).take len)).buf.fault = none := hf'
          have hs1full : ¬ (s.copy ((b :: rest).take len)).buf.pptr < (s.copy ((b :: rest).take len)).buf.epptr := by
            simp only [Stream.copy, hcl]; omega
          rw [Stream.over_eq_putc _ c hs1f hs1full]
          rw [Stream.sputnLoop_eq fuel _ rest' (by simp only [List.length_cons] at hdl hlen; omega)]
          rw [hcopy]
          conv => rhs; rw [hsplit, hd]
          simp [List.foldl_append]
      · simp only [hroom, if_false]
        rw [Stream.over_eq_putc s b hf' (by omega)]
        rw [Stream.sputnLoop_eq fuel _ rest (by simp at hlen; omega)]
        rfl

theorem Stream.sputn_eq_foldl {α} (s : Stream α) (bs : List α) : s.sputn bs = bs.foldl Stream.putc s :=
  Stream.sputnLoop_eq _ s bs (by omega)

end Babylon.Log
