/-
  Helper lemmas for the LogEntry model, part 3: page contents.
  * `xsputn` is the same as writing the characters one by one (`sputn_eq_foldl`);
  * the stream invariant `SInv` (structure + contents) and its preservation by every operation;
  * what `append_to_iovec` returns on a state satisfying the invariant (`expectIov`).
-/
import Babylon.Log.LemmasInv

namespace Babylon.Log
open Babylon.Gen.Log

/-! ### `xsputn` = character by character -/

theorem Stream.putc_fault {α} (s : Stream α) (b : α) (h : s.buf.fault.isSome) : s.putc b = s := by
  have : s.buf.putc = s.buf := by unfold Buf.putc; simp [h]
  unfold Stream.putc
  simp [this, h]

theorem Stream.foldl_putc_fault {α} (l : List α) (s : Stream α) (h : s.buf.fault.isSome) :
    l.foldl Stream.putc s = s := by
  induction l with
  | nil => rfl
  | cons b l ih => simp [List.foldl_cons, Stream.putc_fault s b h, ih]

theorem DMem.app_app {α} (m : DMem α) (p : Option Nat) (a b : List α) :
    (m.app p a).app p b = m.app p (a ++ b) := by
  cases p with
  | none => rfl
  | some p =>
    funext q
    by_cases hq : q = p <;> simp [DMem.app, hq]

theorem DMem.app_nil {α} (m : DMem α) (p : Option Nat) : m.app p [] = m := by
  cases p with
  | none => rfl
  | some p => funext q; simp [DMem.app]

/-- Copying a chunk that fits the put area = storing its characters one by one. -/
theorem Stream.copy_eq_foldl {α} : ∀ (chunk : List α) (s : Stream α), s.buf.fault = none →
    s.buf.pptr + chunk.length ≤ s.buf.epptr → s.copy chunk = chunk.foldl Stream.putc s
  | [], s, _, _ => by
    cases s
    simp [Stream.copy, DMem.app_nil]
  | b :: rest, s, hf, hlen => by
    have hlt : s.buf.pptr < s.buf.epptr := by simp at hlen; omega
    have hp : s.putc b = ⟨{ s.buf with pptr := s.buf.pptr + 1 }, s.dmem.app s.buf.cur [b]⟩ := by
      unfold Stream.putc Buf.putc
      simp [hf, hlt]
    have ih := Stream.copy_eq_foldl rest (s.putc b) (by rw [hp]; exact hf)
      (by rw [hp]; simp at hlen ⊢; omega)
    rw [List.foldl_cons, ← ih, hp]
    simp only [Stream.copy, DMem.app_app, List.length_cons]
    congr 2
    · omega

theorem Stream.over_eq_putc {α} (s : Stream α) (c : α) (hf : s.buf.fault = none)
    (hfull : ¬ s.buf.pptr < s.buf.epptr) : s.over c = s.putc c := by
  unfold Stream.over Stream.putc
  rw [putc_full hf hfull]

theorem Stream.sputnLoop_eq {α} : ∀ (fuel : Nat) (s : Stream α) (bs : List α), bs.length < fuel →
    Stream.sputnLoop fuel s bs = bs.foldl Stream.putc s
  | 0, _, _, h => by omega
  | fuel + 1, s, [], _ => by simp [Stream.sputnLoop]
  | fuel + 1, s, b :: rest, hlen => by
    unfold Stream.sputnLoop
    by_cases hf : s.buf.fault.isSome
    · simp [hf, Stream.foldl_putc_fault _ s hf]
    · have hf' : s.buf.fault = none := by simpa using hf
      simp only [hf, Bool.false_eq_true, if_false]
      by_cases hroom : s.buf.epptr - s.buf.pptr > 0
      · simp only [hroom, if_true]
        generalize hlen' : min (s.buf.epptr - s.buf.pptr) (b :: rest).length = len
        have hsplit : (b :: rest) = (b :: rest).take len ++ (b :: rest).drop len := (List.take_append_drop _ _).symm
        have hcl : ((b :: rest).take len).length = len := by
          rw [List.length_take]; omega
        have hcopy := Stream.copy_eq_foldl ((b :: rest).take len) s hf' (by rw [hcl]; omega)
        rcases hd : (b :: rest).drop len with _ | ⟨c, rest'⟩
        · simp only
          rw [hcopy]
          conv => rhs; rw [hsplit, hd]
          simp
        · simp only
          have hdl : ((b :: rest).drop len).length = rest'.length + 1 := by rw [hd]; simp
          rw [List.length_drop] at hdl
          have hlen2 : len = s.buf.epptr - s.buf.pptr := by
            simp only [List.length_cons] at hdl hlen'
            omega
          have hs1f : (s.copy ((b :: rest).take len)).buf.fault = none := hf'
          have hs1full : ¬ (s.copy ((b :: rest).take len)).buf.pptr < (s.copy ((b :: rest).take len)).buf.epptr := by
            simp only [Stream.copy, hcl]; omega
          rw [Stream.over_eq_putc _ c hs1f hs1full]
          rw [Stream.sputnLoop_eq fuel _ rest' (by simp only [List.length_cons] at hdl hlen; omega)]
          rw [hcopy]
          conv => rhs; rw [hsplit, hd]
          simp [List.foldl_append]
      · simp only [hroom, if_false]
        rw [Stream.over_eq_putc s b hf' (by omega)]
        rw [Stream.sputnLoop_eq fuel _ rest (by simp at hlen; omega)]
        rfl

theorem Stream.sputn_eq_foldl {α} (s : Stream α) (bs : List α) : s.sputn bs = bs.foldl Stream.putc s :=
  Stream.sputnLoop_eq _ s bs (by omega)

/-! ### The stream invariant -/

/-- Structure plus contents after the bytes `bs` (`bs ≠ []`): the pages `F` are full, the current
page `c` holds `pptr` bytes, the concatenation is `bs`, pages not yet handed out are empty. -/
structure SInv {α} (s : Stream α) (F : List Nat) (c : Nat) (T : List Nat) (bs : List α) : Prop where
  inv : Inv s.buf F c T bs.length
  full : ∀ p ∈ F, (s.dmem p).length = s.buf.ps
  curlen : (s.dmem c).length = s.buf.pptr
  bytes : F.flatMap s.dmem ++ s.dmem c = bs
  empty : ∀ p, s.buf.nextId ≤ p → s.dmem p = []

/-- The page size is adequate for an entry of `total` bytes. -/
def Fits (ps total : Nat) : Prop := 0 < ps ∧ (K * ps < total → PageOK ps)

theorem Fits.mono {ps a b : Nat} (h : Fits ps b) (hab : a ≤ b) : Fits ps a :=
  ⟨h.1, fun hk => h.2 (by omega)⟩

/-- State of a stream after the bytes `bs` since `begin()` on an allocator at `a0`. -/
def St {α} (s : Stream α) (ps a0 : Nat) (bs : List α) : Prop :=
  (bs = [] ∧ s = Stream.begin ps a0) ∨ (∃ F c T, SInv s F c T bs ∧ s.buf.ps = ps)

theorem flatMap_congr' {α β} {l : List α} {f g : α → List β} (h : ∀ x ∈ l, f x = g x) :
    l.flatMap f = l.flatMap g := by
  induction l with
  | nil => rfl
  | cons a l ih =>
    simp only [List.flatMap_cons]
    rw [h a (by simp), ih (fun x hx => h x (by simp [hx]))]

theorem Inv.c_notin_F {s : Buf} {F T : List Nat} {c n : Nat} (h : Inv s F c T n) : c ∉ F := by
  have h1 : (F ++ c :: T).Nodup := h.perm.nodup_iff.1 h.nodup
  intro hc
  exact (List.nodup_append.1 h1).2.2 c hc c (by simp) rfl

theorem Inv.Fc_lt {s : Buf} {F T : List Nat} {c n : Nat} (h : Inv s F c T n) :
    ∀ q ∈ F ++ [c], q < s.nextId := by
  intro q hq
  refine h.fresh q (h.perm.mem_iff.2 ?_)
  simp only [List.mem_append, List.mem_cons, List.not_mem_nil, or_false] at hq ⊢
  rcases hq with hq | hq
  · exact Or.inl hq
  · exact Or.inr (Or.inl hq)

theorem SInv.putc {α} {s : Stream α} {F T : List Nat} {c : Nat} {bs : List α} (b : α)
    (h : SInv s F c T bs) (hfit : Fits s.buf.ps (bs.length + 1)) :
    ∃ F' c' T', SInv (s.putc b) F' c' T' (bs ++ [b]) ∧ (s.putc b).buf.ps = s.buf.ps := by
  by_cases hlt : s.buf.pptr < s.buf.ps
  · obtain ⟨hi, hp⟩ := h.inv.step_store hlt
    have hs : s.putc b = ⟨{ s.buf with pptr := s.buf.pptr + 1 }, s.dmem.app (some c) [b]⟩ := by
      unfold Stream.putc
      simp only [hp]
      simp [h.inv.nofault, h.inv.cur]
    refine ⟨F, c, T, ⟨?_, ?_, ?_, ?_, ?_⟩, ?_⟩
    · rw [hs, ← hp]; simpa using hi
    · intro p hp'
      have hne : p ≠ c := fun hh => h.inv.c_notin_F (hh ▸ hp')
      rw [hs]; simp [DMem.app, hne, h.full p hp']
    · rw [hs]; simp [DMem.app, h.curlen]
    · rw [hs]
      have hF : F.flatMap (s.dmem.app (some c) [b]) = F.flatMap s.dmem := by
        apply flatMap_congr'
        intro p hp'
        have hne : p ≠ c := fun hh => h.inv.c_notin_F (hh ▸ hp')
        simp [DMem.app, hne]
      simp only [hF]
      simp only [DMem.app, if_true]
      rw [← List.append_assoc, h.bytes]
    · intro p hp'
      rw [hs] at hp' ⊢
      have hc : c < s.buf.nextId := h.inv.Fc_lt c (by simp)
      have hne : p ≠ c := by simp at hp'; omega
      simp only [DMem.app, hne, if_false]
      exact h.empty p (by simpa using hp')
    · rw [hs]
  · have hfull : s.buf.pptr = s.buf.ps := by have := h.inv.pp1; omega
    obtain ⟨T', hi, hps, hnx, hpp⟩ := h.inv.step_over hfull hfit.1 hfit.2
    have hcur : (s.buf.putc).cur = some s.buf.nextId := hi.cur
    have hs : s.putc b = ⟨s.buf.putc, s.dmem.app (some s.buf.nextId) [b]⟩ := by
      unfold Stream.putc
      simp [hi.nofault, hcur]
    have hold : ∀ q ∈ F ++ [c], (s.dmem.app (some s.buf.nextId) [b]) q = s.dmem q := by
      intro q hq
      have : q ≠ s.buf.nextId := by have := h.inv.Fc_lt q hq; omega
      simp [DMem.app, this]
    refine ⟨F ++ [c], s.buf.nextId, T', ⟨?_, ?_, ?_, ?_, ?_⟩, ?_⟩
    · rw [hs]; simpa using hi
    · intro p hp'
      rw [hs]
      simp only
      rw [hold p hp', hps]
      simp only [List.mem_append, List.mem_singleton] at hp'
      rcases hp' with hp' | hp'
      · exact h.full p hp'
      · rw [hp', h.curlen, hfull]
    · rw [hs]
      simp only [DMem.app, if_true, hpp]
      rw [h.empty _ (Nat.le_refl _)]
      rfl
    · rw [hs]
      simp only
      rw [flatMap_congr' hold]
      simp only [DMem.app, if_true]
      rw [h.empty _ (Nat.le_refl _), List.flatMap_append, List.flatMap_singleton, h.bytes]
      rfl
    · intro p hp'
      rw [hs] at hp' ⊢
      have hne : p ≠ s.buf.nextId := by simp at hp'; omega
      simp only [DMem.app, hne, if_false]
      exact h.empty p (by simp at hp'; omega)
    · rw [hs]; exact hps

theorem St.putc {α} {s : Stream α} {ps a0 : Nat} {bs : List α} (b : α) (h : St s ps a0 bs)
    (hfit : Fits ps (bs.length + 1)) : St (s.putc b) ps a0 (bs ++ [b]) := by
  rcases h with ⟨rfl, rfl⟩ | ⟨F, c, T, hs, hps⟩
  · right
    obtain ⟨hi, h2, h3, h4⟩ := begin_putc ps a0 hfit.1
    have hcur : ((Buf.begin ps a0).putc).cur = some a0 := hi.cur
    have hs : (Stream.begin ps a0 : Stream α).putc b = ⟨(Buf.begin ps a0).putc, fun q => if q = a0 then [b] else []⟩ := by
      unfold Stream.putc
      simp only [Stream.begin, hi.nofault, hcur]
      simp [DMem.app]
    refine ⟨[], a0, [], ⟨?_, by simp, ?_, ?_, ?_⟩, ?_⟩
    · rw [hs]; simpa using hi
    · rw [hs]; simp [h4]
    · rw [hs]; simp
    · intro p hp'
      rw [hs] at hp' ⊢
      have : p ≠ a0 := by simp [h3] at hp'; omega
      simp [this]
    · rw [hs]; exact h2
  · right
    subst hps
    obtain ⟨F', c', T', h1, h2⟩ := hs.putc b hfit
    exact ⟨F', c', T', h1, h2⟩

theorem St.foldl_putc {α} {ps a0 : Nat} : ∀ (l : List α) {s : Stream α} {bs : List α}, St s ps a0 bs →
    Fits ps (bs.length + l.length) → St (l.foldl Stream.putc s) ps a0 (bs ++ l)
  | [], s, bs, h, _ => by simpa using h
  | b :: l, s, bs, h, hfit => by
    have h1 := h.putc b (hfit.mono (by simp))
    have := St.foldl_putc l h1 (by simpa [Nat.add_assoc, Nat.add_comm 1] using hfit)
    simpa using this

theorem Inv.sync {s : Buf} {F T : List Nat} {c n : Nat} (h : Inv s F c T n) :
    Inv s.sync F c T n ∧ s.sync.size = n ∧ s.sync.slots = s.slots ∧ s.sync.tmem = s.tmem ∧
      s.sync.ps = s.ps ∧ s.sync.allocs = s.allocs ∧ s.sync.pptr = s.pptr ∧ s.sync.nextId = s.nextId := by
  rw [sync_eq h.nofault h.sy]
  have hsz := h.sz
  refine ⟨⟨h.nofault, h.perm, h.fresh, h.nodup, h.cur, h.ep, h.pp0, h.pp1, h.total, by simp, by simp; omega, ?_, h.tdom⟩,
    by simp; omega, rfl, rfl, rfl, rfl, rfl, rfl⟩
  cases h.layout with
  | inl hle hs hT hp he => exact Layout.inl hle hs hT hp he
  | tbl t0 T' tl e hgt hT hs hc hl hm hp he => exact Layout.tbl t0 T' tl e hgt hT hs hc hl hm hp he

theorem St.sync {α} {s : Stream α} {ps a0 : Nat} {bs : List α} (h : St s ps a0 bs) :
    St { s with buf := s.buf.sync } ps a0 bs := by
  rcases h with ⟨rfl, rfl⟩ | ⟨F, c, T, hs, hps⟩
  · left
    refine ⟨rfl, ?_⟩
    simp [Stream.begin, Buf.begin, Buf.sync]
  · right
    obtain ⟨hi, h1, h2, h3, h4, h5, h6, h7⟩ := hs.inv.sync
    refine ⟨F, c, T, ⟨hi, ?_, ?_, hs.bytes, ?_⟩, by simpa [h4] using hps⟩
    · intro p hp; simpa [h4] using hs.full p hp
    · simpa [h6] using hs.curlen
    · intro p hp; exact hs.empty p (by simpa [h7] using hp)

theorem St.step {α} {s : Stream α} {ps a0 : Nat} {bs : List α} (op : Op α) (h : St s ps a0 bs)
    (hfit : Fits ps (bs.length + op.bytes.length)) : St (s.step op) ps a0 (bs ++ op.bytes) := by
  cases op with
  | sputn l =>
    simp only [Stream.step, Op.bytes, Stream.sputn_eq_foldl]
    exact St.foldl_putc l h hfit
  | sputc b =>
    simp only [Stream.step, Op.bytes]
    exact h.putc b hfit
  | sync =>
    simp only [Stream.step, Op.bytes, List.append_nil]
    exact h.sync

theorem St.run {α} {ps a0 : Nat} : ∀ (ops : List (Op α)) {s : Stream α} {bs : List α}, St s ps a0 bs →
    Fits ps (bs.length + (bytesOf ops).length) → St (s.run ops) ps a0 (bs ++ bytesOf ops)
  | [], s, bs, h, _ => by simpa [Stream.run, bytesOf] using h
  | op :: ops, s, bs, h, hfit => by
    have hb : bytesOf (op :: ops) = op.bytes ++ bytesOf ops := by simp [bytesOf]
    rw [hb] at hfit ⊢
    have h1 := h.step op (hfit.mono (by simp))
    have := St.run ops h1 (by simpa [Nat.add_assoc] using hfit)
    simpa [Stream.run] using this

theorem St.begin {α} (ps a0 : Nat) : St (Stream.begin ps a0 : Stream α) ps a0 [] := Or.inl ⟨rfl, rfl⟩

/-! ### What `append_to_iovec` returns -/

/-- The scatter list of an entry with full data pages `F`, last data page `c` holding `r` bytes and
table pages `T`. -/
def expectIov (ps : Nat) (F : List Nat) (c : Nat) (T : List Nat) (r : Nat) : Iov :=
  match T with
  | [] => F.map (·, ps) ++ [(c, r)]
  | _ :: _ => (F.take (K - 1)).map (·, ps) ++ chainIov ps (tableCap ps) T (F.drop (K - 1)) c r

theorem Inv.read {s : Buf} {F T : List Nat} {c n : Nat} (h : Inv s F c T n) (hsz : s.size = n)
    (hfit : Fits s.ps n) : appendToIovec s.entry s.ps = some (expectIov s.ps F c T s.pptr) := by
  have hps := hfit.1
  have hps' : s.ps ≠ 0 := by omega
  have hn := h.total
  have hK := K_pos
  unfold appendToIovec appendToIovec.m
  simp only [hps', if_false, Buf.entry, hsz]
  cases h.layout with
  | inl hle hs hT hp he =>
    subst hT
    have hle' : F.length + 1 ≤ K := by simpa using hle
    have hng : ¬ (n > K * s.ps) := by
      have := Nat.mul_le_mul_right s.ps hle'
      rw [Nat.add_mul, Nat.one_mul] at this
      have := h.pp1
      omega
    simp only [hng, if_false, hs, expectIov]
    rw [hn]
    exact pagesAppend_snoc hps c s.pptr [] h.pp0 h.pp1 F
  | tbl t0 T' tl e hgt hT hs hc hl hm hp he =>
    subst hT
    have hKF : K ≤ F.length := by simp at hgt; omega
    have hmul := Nat.mul_le_mul_right s.ps hKF
    have hgtn : n > K * s.ps := by have := h.pp0; omega
    have hpo : PageOK s.ps := hfit.2 hgtn
    obtain ⟨hpe, hE2⟩ := hpo.eq
    have hh8 := hdr_eq
    have hp8 := ptr_eq
    rw [hh8, hp8] at hpe
    have hnlt : ¬ (s.ps < hdr) := by omega
    have hEps : 0 < tableCap s.ps * s.ps := Nat.mul_pos (by omega) hps
    have hfull0 : tableCap s.ps * s.ps ≠ 0 := by omega
    have hK1 : K = (K - 1) + 1 := by omega
    have hKm : K * s.ps = (K - 1) * s.ps + s.ps := by
      conv => lhs; rw [hK1, Nat.add_mul, Nat.one_mul]
    have hsub : K * s.ps - s.ps = (K - 1) * s.ps := by omega
    have hlen1 : ((F ++ [c]).take (K - 1)).length = K - 1 := by
      rw [List.length_take]; simp; omega
    have htk : (F ++ [c]).take (K - 1) = F.take (K - 1) := List.take_append_of_le_length (by omega)
    have hdr' : (F ++ [c]).drop (K - 1) = F.drop (K - 1) ++ [c] := List.drop_append_of_le_length (by omega)
    have ha := pagesAppend_full hps (K - 1) s.slots (by rw [hs]; simp; omega)
    have hst : s.slots.take (K - 1) = F.take (K - 1) := by
      rw [hs, List.take_append_of_le_length (by omega), List.take_of_length_le (by omega), htk]
    rw [hst] at ha
    have hhead : s.slots[K - 1]? = some t0 := by
      rw [hs, List.getElem?_append_right (by omega), hlen1]; simp
    rw [hdr'] at hc
    have hlenD : (F.drop (K - 1)).length = F.length - (K - 1) := by simp
    have hK1F := Nat.mul_le_mul_right s.ps (show K - 1 ≤ F.length by omega)
    have hsz2 : n - K * s.ps + s.ps = (F.drop (K - 1)).length * s.ps + s.pptr := by
      rw [hlenD, Nat.sub_mul]; omega
    have hb := tableAppend_chain hps (show 0 < tableCap s.ps by omega) c s.pptr h.pp0 h.pp1 T' t0
      (F.drop (K - 1)) (n + 1) hc (by rw [← hsz2]; omega)
    rw [← hsz2] at hb
    simp only [hgtn, if_true, hnlt, if_false, hfull0, hsub, ha, hhead, expectIov]
    simp [hb]

theorem expectIov_nz {ps : Nat} (hps : 0 < ps) (F : List Nat) (c : Nat) (T : List Nat) (r : Nat) (hr : 0 < r) :
    ((expectIov ps F c T r).filter nz).map Prod.fst = F ++ [c] := by
  cases T with
  | nil =>
    have h1 : nz (c, r) = true := by simp [nz]; omega
    simp [expectIov, List.filter_append, filter_nz_full hps, h1]
  | cons t T' =>
    simp only [expectIov, List.filter_append, List.map_append, filter_nz_full hps,
      chainIov_nz hps c r hr (t :: T') _ (by simp)]
    rw [← List.append_assoc, List.take_append_drop]

theorem expectIov_isz {ps : Nat} (hps : 0 < ps) (F : List Nat) (c : Nat) (T : List Nat) (r : Nat) (hr : 0 < r) :
    ((expectIov ps F c T r).filter isz).map Prod.fst = T := by
  cases T with
  | nil =>
    have h1 : isz (c, r) = false := by simp [isz]; omega
    simp [expectIov, List.filter_append, filter_isz_full hps, h1]
  | cons t T' =>
    simp only [expectIov, List.filter_append, List.map_append, filter_isz_full hps,
      chainIov_isz hps c r hr (t :: T') _]
    simp

theorem expectIov_bytes {α} (d : DMem α) {ps : Nat} (F : List Nat) (c : Nat) (T : List Nat) (r : Nat)
    (hF : ∀ p ∈ F, (d p).length ≤ ps) (hc : (d c).length ≤ r) :
    iovBytes d (expectIov ps F c T r) = F.flatMap d ++ d c := by
  cases T with
  | nil =>
    have h1 : (d c).take r = d c := List.take_of_length_le hc
    simp only [expectIov, iovBytes_append, iovBytes_full d F hF]
    simp [iovBytes, h1]
  | cons t T' =>
    simp only [expectIov, iovBytes_append]
    rw [iovBytes_full d (F.take (K - 1)) (fun p hp => hF p (List.mem_of_mem_take hp)),
      chainIov_bytes d c r hc (t :: T') _ (by simp) (fun p hp => hF p (List.mem_of_mem_drop hp)),
      ← List.append_assoc, ← List.flatMap_append, List.take_append_drop]

end Babylon.Log
