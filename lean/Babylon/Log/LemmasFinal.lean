/-
  Helper lemmas for the LogEntry model, part 5: the state after `end()` and what the reader
  returns on it, in the form the property theorems use.
-/
import Babylon.Log.LemmasCanon

namespace Babylon.Log
open Babylon.Gen.Log

theorem finish_spec {α} (ps a0 : Nat) (ops : List (Op α)) (hfit : Fits ps (bytesOf ops).length) :
    (bytesOf ops = [] ∧ Stream.finish ps a0 ops = Stream.begin ps a0) ∨
    (∃ F c T, SInv (Stream.finish ps a0 ops) F c T (bytesOf ops) ∧ (Stream.finish ps a0 ops).buf.ps = ps ∧
      (Stream.finish ps a0 ops).buf.size = (bytesOf ops).length) := by
  have hst := St.run ops (St.begin (α := α) ps a0) (by simpa using hfit)
  simp only [List.nil_append] at hst
  unfold Stream.finish Stream.end_
  rcases hst with ⟨h1, h2⟩ | ⟨F, c, T, hs, hps⟩
  · left
    refine ⟨h1, ?_⟩
    rw [h2]
    simp [Stream.begin, Buf.begin, Buf.sync]
  · right
    obtain ⟨hi, h1, h2, h3, h4, h5, h6, h7⟩ := hs.inv.sync
    refine ⟨F, c, T, ⟨hi, ?_, ?_, hs.bytes, ?_⟩, by simpa [h4] using hps, h1⟩
    · intro p hp; simpa [h4] using hs.full p hp
    · simpa [h6] using hs.curlen
    · intro p hp; exact hs.empty p (by simpa [h7] using hp)

theorem isz_eq_not_nz : isz = fun e => !nz e := by
  funext e
  cases h : e.2 <;> simp [isz, nz, h]

/-- Everything the property theorems need about an entry that received at least one byte. -/
theorem SInv.read_spec {α} {s : Stream α} {F T : List Nat} {c : Nat} {bs : List α} (h : SInv s F c T bs)
    (hsz : s.buf.size = bs.length) (hfit : Fits s.buf.ps bs.length) :
    ∃ iov, appendToIovec s.buf.entry s.buf.ps = some iov ∧
      iovBytes s.dmem iov = bs ∧
      (iov.filter nz).map Prod.fst = F ++ [c] ∧
      (iov.filter isz).map Prod.fst = T ∧
      (iov.map Prod.fst).Perm s.buf.allocs := by
  have hps := hfit.1
  refine ⟨_, h.inv.read hsz hfit, ?_, expectIov_nz hps F c T _ h.inv.pp0, expectIov_isz hps F c T _ h.inv.pp0, ?_⟩
  · rw [expectIov_bytes s.dmem F c T _ (fun p hp => by rw [h.full p hp]; exact Nat.le_refl _)
      (by rw [h.curlen]; exact Nat.le_refl _)]
    exact h.bytes
  · have hp := (List.filter_append_perm nz (expectIov s.buf.ps F c T s.buf.pptr)).symm
    have hp2 := hp.map Prod.fst
    rw [List.map_append, ← isz_eq_not_nz, expectIov_nz hps F c T _ h.inv.pp0,
      expectIov_isz hps F c T _ h.inv.pp0] at hp2
    refine hp2.trans (List.Perm.trans ?_ h.inv.perm.symm)
    simp

end Babylon.Log
