/-
  Helper lemmas for the LogEntry model, part 2: the writer invariant (`Inv`) and its preservation
  by `Buf.putc` (store into the put area / `overflow` in its four layouts).
-/
import Babylon.Log.Lemmas

namespace Babylon.Log
open Babylon.Gen.Log

/-! ### Chain maintenance -/

theorem Chain.ne_nil {m : TMem} {E : Nat} {T ids : List Nat} (h : Chain m E T ids) : T ≠ [] := by
  cases T with
  | nil => exact absurd h (by simp [Chain])
  | cons _ _ => simp

/-- The last table of a chain: `next` is null, between 1 and `E` pointers. -/
theorem Chain.last {m : TMem} {E : Nat} : ∀ {T ids : List Nat} {tl : Nat}, Chain m E T ids →
    T.getLast? = some tl → ∃ e, m tl = some ⟨none, e⟩ ∧ 0 < e.length ∧ e.length ≤ E
  | [], _, _, h, _ => absurd h (by simp [Chain])
  | [t], ids, tl, h, hl => by
    have : t = tl := by simpa using hl
    subst this
    exact ⟨ids, h.1, h.2.1, h.2.2⟩
  | t :: t' :: R, ids, tl, h, hl => by
    have hl' : (t' :: R).getLast? = some tl := by
      simpa [List.getLast?_cons_cons] using hl
    exact Chain.last h.2.2 hl'

/-- Appending one pointer to the (not yet full) last table. -/
theorem Chain.snoc_ent {m m' : TMem} {E p : Nat} : ∀ {T ids : List Nat} {tl : Nat} {e : List Nat},
    Chain m E T ids → T.Nodup → T.getLast? = some tl → m tl = some ⟨none, e⟩ → e.length < E →
    m' tl = some ⟨none, e ++ [p]⟩ → (∀ q, q ≠ tl → m' q = m q) →
    Chain m' E T (ids ++ [p])
  | [], _, _, _, h, _, _, _, _, _, _ => absurd h (by simp [Chain])
  | [t], ids, tl, e, h, _, hl, hm, he, hm', _ => by
    have : t = tl := by simpa using hl
    subst this
    have : e = ids := by
      have := h.1; rw [hm] at this; simpa using this
    subst this
    refine ⟨hm', by simp, by simp; omega⟩
  | t :: t' :: R, ids, tl, e, h, hn, hl, hm, he, hm', hfr => by
    have hl' : (t' :: R).getLast? = some tl := by
      simpa [List.getLast?_cons_cons] using hl
    have hmem : tl ∈ t' :: R := List.mem_of_getLast? hl'
    have hne : t ≠ tl := by
      intro h'; subst h'
      exact (List.nodup_cons.1 hn).1 hmem
    obtain ⟨h1, h2, h3⟩ := h
    refine ⟨?_, by simp; omega, ?_⟩
    · rw [hfr t hne, h1, List.take_append_of_le_length (by omega)]
    · rw [List.drop_append_of_le_length (by omega)]
      exact Chain.snoc_ent h3 (List.nodup_cons.1 hn).2 hl' hm he hm' hfr

/-- Linking a fresh table `t` (holding the single pointer `p`) behind the full last table. -/
theorem Chain.snoc_tbl {m m' : TMem} {E p t : Nat} (hE : 0 < E) : ∀ {T ids : List Nat} {tl : Nat} {e : List Nat},
    Chain m E T ids → T.Nodup → t ∉ T → T.getLast? = some tl → m tl = some ⟨none, e⟩ → e.length = E →
    m' tl = some ⟨some t, e⟩ → m' t = some ⟨none, [p]⟩ → (∀ q, q ≠ tl → q ≠ t → m' q = m q) →
    Chain m' E (T ++ [t]) (ids ++ [p])
  | [], _, _, _, h, _, _, _, _, _, _, _, _ => absurd h (by simp [Chain])
  | [t1], ids, tl, e, h, _, _, hl, hm, he, hm', hmt, _ => by
    have : t1 = tl := by simpa using hl
    subst this
    have : e = ids := by
      have := h.1; rw [hm] at this; simpa using this
    subst this
    have htake : (e ++ [p]).take E = e := by
      rw [List.take_append_of_le_length (by omega), ← he, List.take_length]
    have hdrop : (e ++ [p]).drop E = [p] := by
      rw [← he]; simp
    show Chain m' E [t1, t] (e ++ [p])
    refine ⟨by rw [htake]; exact hm', by simp; omega, ?_⟩
    rw [hdrop]
    exact ⟨hmt, by simp, by simp; omega⟩
  | t1 :: t' :: R, ids, tl, e, h, hn, hnt, hl, hm, he, hm', hmt, hfr => by
    have hl' : (t' :: R).getLast? = some tl := by
      simpa [List.getLast?_cons_cons] using hl
    have hmem : tl ∈ t' :: R := List.mem_of_getLast? hl'
    have hne : t1 ≠ tl := by
      intro h'; subst h'
      exact (List.nodup_cons.1 hn).1 hmem
    have hne2 : t1 ≠ t := by
      intro h'; subst h'; exact hnt (by simp)
    obtain ⟨h1, h2, h3⟩ := h
    show Chain m' E (t1 :: (t' :: R ++ [t])) (ids ++ [p])
    have := Chain.snoc_tbl hE h3 (List.nodup_cons.1 hn).2 (fun hh => hnt (List.mem_cons_of_mem _ hh)) hl' hm he hm' hmt hfr
    refine ⟨?_, by simp; omega, ?_⟩
    · rw [hfr t1 hne hne2, h1, List.take_append_of_le_length (by omega)]
    · rw [List.drop_append_of_le_length (by omega)]
      exact this

/-! ### The writer invariant -/

/-- How the page pointers of the data pages `D` (in stream order) and the table pages `T` (in
chain order) sit in the inline array and the table pages, and where `_pages` / `_pages_end` point. -/
inductive Layout (s : Buf) (D T : List Nat) : Prop
  | inl (hle : D.length ≤ K) (hs : s.slots = D) (hT : T = []) (hp : s.pages = .inl D.length)
      (he : s.pagesEnd = .inl K)
  | tbl (t0 : Nat) (T' : List Nat) (tl : Nat) (e : List Nat) (hgt : K < D.length) (hT : T = t0 :: T')
      (hs : s.slots = D.take (K - 1) ++ [t0])
      (hc : Chain s.tmem (tableCap s.ps) T (D.drop (K - 1)))
      (hl : T.getLast? = some tl) (hm : s.tmem tl = some ⟨none, e⟩)
      (hp : s.pages = .tbl tl (hdr + ptr * e.length)) (he : s.pagesEnd = .tbl tl s.ps)

/-- State of the stream buffer after `n ≥ 1` bytes: `F` are the full data pages, `c` the page the
put area points into, `T` the table pages. -/
structure Inv (s : Buf) (F : List Nat) (c : Nat) (T : List Nat) (n : Nat) : Prop where
  nofault : s.fault = none
  perm : s.allocs.Perm (F ++ c :: T)
  fresh : ∀ x ∈ s.allocs, x < s.nextId
  nodup : s.allocs.Nodup
  cur : s.cur = some c
  ep : s.epptr = s.ps
  pp0 : 0 < s.pptr
  pp1 : s.pptr ≤ s.ps
  total : n = F.length * s.ps + s.pptr
  sy : s.syncPt ≤ s.pptr
  sz : s.size + (s.pptr - s.syncPt) = n
  layout : Layout s (F ++ [c]) T
  tdom : ∀ q, (s.tmem q).isSome ↔ q ∈ T

theorem perm_step1 {a F T : List Nat} {c p : Nat} (h : a.Perm (F ++ c :: T)) :
    (a ++ [p]).Perm ((F ++ [c]) ++ p :: T) := by
  refine List.perm_iff_count.2 (fun x => ?_)
  have := List.perm_iff_count.1 h x
  simp only [List.count_append, List.count_cons, List.count_nil] at this ⊢
  omega

theorem perm_step2 {a F T : List Nat} {c p t : Nat} (h : a.Perm (F ++ c :: T)) :
    (a ++ [p] ++ [t]).Perm ((F ++ [c]) ++ p :: (T ++ [t])) := by
  refine List.perm_iff_count.2 (fun x => ?_)
  have := List.perm_iff_count.1 h x
  simp only [List.count_append, List.count_cons, List.count_nil] at this ⊢
  omega

theorem Inv.T_sub {s : Buf} {F T : List Nat} {c n : Nat} (h : Inv s F c T n) : ∀ x ∈ T, x < s.nextId := by
  intro x hx
  exact h.fresh x (h.perm.mem_iff.2 (by simp [hx]))

theorem Inv.T_nodup {s : Buf} {F T : List Nat} {c n : Nat} (h : Inv s F c T n) : T.Nodup := by
  have h1 : (F ++ c :: T).Nodup := h.perm.nodup_iff.1 h.nodup
  have h2 := (List.nodup_append.1 h1).2.1
  exact (List.nodup_cons.1 h2).2

/-- `sync()` when nothing faulted: the size field absorbs the unsynchronised bytes. -/
theorem sync_eq {s : Buf} (hf : s.fault = none) (hs : s.syncPt ≤ s.pptr) :
    s.sync = { s with size := s.size + (s.pptr - s.syncPt), syncPt := s.pptr } := by
  unfold Buf.sync
  simp only [hf, Option.isSome_none, Bool.false_eq_true, if_false]
  split
  · rfl
  · have : s.pptr = s.syncPt := by omega
    cases s
    simp_all

/-- Store into the put area. -/
theorem Inv.step_store {s : Buf} {F T : List Nat} {c n : Nat} (h : Inv s F c T n) (hlt : s.pptr < s.ps) :
    Inv s.putc F c T (n + 1) ∧ s.putc = { s with pptr := s.pptr + 1 } := by
  have hp : s.putc = { s with pptr := s.pptr + 1 } := by
    unfold Buf.putc
    simp [h.nofault, h.ep, hlt]
  refine ⟨?_, hp⟩
  rw [hp]
  refine ⟨h.nofault, h.perm, h.fresh, h.nodup, h.cur, h.ep, by simp, by simp; omega, ?_, ?_, ?_, ?_, h.tdom⟩
  · have := h.total; simp; omega
  · have := h.sy; simp; omega
  · have := h.sz; have := h.sy; simp; omega
  · cases h.layout with
    | inl hle hs hT hp he => exact Layout.inl hle hs hT hp he
    | tbl t0 T' tl e hgt hT hs hc hl hm hp he => exact Layout.tbl t0 T' tl e hgt hT hs hc hl hm hp he

/-- `overflow` up to the point where the page pointer is stored. -/
def Buf.pre (s : Buf) : Buf :=
  { s with size := s.size + (s.pptr - s.syncPt), syncPt := s.pptr, nextId := s.nextId + 1,
           allocs := s.allocs ++ [s.nextId] }

theorem overflow_eq {s : Buf} (hf : s.fault = none) (hs : s.syncPt ≤ s.pptr) :
    s.overflow =
      (let s3 := if s.pre.pages = s.pre.pagesEnd then s.pre.overflowPageTable else s.pre
       let s4 := s3.storePages s.nextId
       if s4.fault.isSome then s4 else
       if s4.ps = 0 then s4.fail "page_size 0: sputc re-enters overflow forever"
       else { s4 with cur := some s.nextId, syncPt := 0, pptr := 1, epptr := s4.ps }) := by
  unfold Buf.overflow
  rw [sync_eq hf hs]
  simp [hf, Buf.alloc, Buf.pre]

theorem putc_full {s : Buf} (hf : s.fault = none) (hfull : ¬ s.pptr < s.epptr) : s.putc = s.overflow := by
  unfold Buf.putc
  simp [hf, hfull]

/-- Case A: the new page pointer still fits the inline array. -/
theorem Inv.step_over_inl {s : Buf} {F T : List Nat} {c n : Nat} (h : Inv s F c T n)
    (hfull : s.pptr = s.ps) (hps : 0 < s.ps)
    (hle : (F ++ [c]).length < K) (hs : s.slots = F ++ [c]) (hT : T = [])
    (hp : s.pages = .inl (F ++ [c]).length) (he : s.pagesEnd = .inl K) :
    Inv s.putc (F ++ [c]) s.nextId T (n + 1) ∧ s.putc.ps = s.ps ∧ s.putc.nextId = s.nextId + 1 ∧
      s.putc.pptr = 1 := by
  have hne : ¬ (s.pre.pages = s.pre.pagesEnd) := by
    simp only [Buf.pre, hp, he]
    intro hh; injection hh with hh; omega
  have hput : s.putc =
      { s.pre with
        slots := s.slots ++ [s.nextId], pages := .inl ((F ++ [c]).length + 1),
        cur := some s.nextId, syncPt := 0, pptr := 1, epptr := s.ps } := by
    rw [putc_full h.nofault (by rw [h.ep]; omega), overflow_eq h.nofault h.sy]
    simp only [hne, if_false]
    have hst : s.pre.storePages s.nextId =
        { s.pre with slots := s.slots ++ [s.nextId], pages := .inl ((F ++ [c]).length + 1) } := by
      have hle' : F.length + 1 < K := by simpa using hle
      have hle'' : ¬ (K ≤ F.length + 1) := by omega
      unfold Buf.storePages
      simp [Buf.pre, h.nofault, hp, hle'', hs]
    rw [hst]
    have hps' : s.ps ≠ 0 := by omega
    simp [Buf.pre, h.nofault, hps']
  rw [hput]
  refine ⟨⟨h.nofault, ?_, ?_, ?_, rfl, rfl, by simp, by simp [Buf.pre]; omega, ?_, by simp, ?_, ?_, h.tdom⟩, rfl, rfl, rfl⟩
  · exact perm_step1 h.perm
  · intro x hx
    simp only [Buf.pre, List.mem_append, List.mem_singleton] at hx ⊢
    rcases hx with hx | hx
    · have := h.fresh x hx; omega
    · omega
  · simp only [Buf.pre]
    refine List.nodup_append.2 ⟨h.nodup, by simp, ?_⟩
    intro a ha b hb
    simp at hb; subst hb
    have := h.fresh a ha; omega
  · have := h.total
    simp only [Buf.pre, List.length_append, List.length_singleton, Nat.add_mul, Nat.one_mul]
    omega
  · have := h.sz; have := h.sy
    simp only [Buf.pre]; omega
  · refine Layout.inl (by simp at hle ⊢; omega) (by simp [hs]) hT (by simp) (by simpa [Buf.pre] using he)

/-- Case B: the inline array is full; the first table page takes over the last inline slot. -/
theorem Inv.step_over_first {s : Buf} {F T : List Nat} {c n : Nat} (h : Inv s F c T n)
    (hfull : s.pptr = s.ps) (hok : PageOK s.ps)
    (hle : (F ++ [c]).length = K) (hs : s.slots = F ++ [c]) (hT : T = [])
    (hp : s.pages = .inl (F ++ [c]).length) (he : s.pagesEnd = .inl K) :
    Inv s.putc (F ++ [c]) s.nextId [s.nextId + 1] (n + 1) ∧ s.putc.ps = s.ps ∧
      s.putc.nextId = s.nextId + 2 ∧ s.putc.pptr = 1 := by
  have hps := hok.pos
  obtain ⟨hpe, hE2⟩ := hok.eq
  have hh8 := hdr_eq
  have hp8 := ptr_eq
  rw [hh8, hp8] at hpe
  have hFK : F.length = K - 1 := by simp at hle; omega
  have hK := K_pos
  have heq : s.pre.pages = s.pre.pagesEnd := by
    simp only [Buf.pre, hp, he, hle]
  have hhead : (F ++ [c])[K - 1]? = some c := by
    rw [List.getElem?_append_right (by omega)]; simp [hFK]
  have hput : s.putc =
      { s.pre with
        nextId := s.nextId + 2, allocs := s.allocs ++ [s.nextId] ++ [s.nextId + 1],
        tmem := fun q => if q = s.nextId + 1 then some ⟨none, [c, s.nextId]⟩ else s.tmem q,
        slots := (F ++ [c]).set (K - 1) (s.nextId + 1),
        pages := .tbl (s.nextId + 1) (hdr + ptr + ptr), pagesEnd := .tbl (s.nextId + 1) s.ps,
        cur := some s.nextId, syncPt := 0, pptr := 1, epptr := s.ps } := by
    rw [putc_full h.nofault (by rw [h.ep]; omega), overflow_eq h.nofault h.sy]
    simp only [heq, if_true]
    have h1 : hdr + ptr ≤ s.ps := by omega
    have hopt : s.pre.overflowPageTable =
        { s.pre with
          nextId := s.nextId + 2, allocs := s.allocs ++ [s.nextId] ++ [s.nextId + 1],
          tmem := (s.tmem.set (s.nextId + 1) ⟨none, []⟩).set (s.nextId + 1) ⟨none, [c]⟩,
          slots := (F ++ [c]).set (K - 1) (s.nextId + 1),
          pages := .tbl (s.nextId + 1) (hdr + ptr), pagesEnd := .tbl (s.nextId + 1) s.ps } := by
      unfold Buf.overflowPageTable
      simp [Buf.pre, Buf.alloc, h.nofault, hp, hle, hs, hhead, h1]
    rw [hopt]
    have h2 : hdr + ptr + ptr ≤ s.ps := by omega
    unfold Buf.storePages
    have hps' : s.ps ≠ 0 := by omega
    simp [Buf.pre, h.nofault, TMem.set, h2, hps']
    funext q
    by_cases hq : q = s.nextId + 1 <;> simp [hq, TMem.set]
  have hn := h.total
  rw [hput]
  have htd : ∀ q, ((fun q => if q = s.nextId + 1 then some (⟨none, [c, s.nextId]⟩ : TablePage) else s.tmem q) q).isSome
      ↔ q ∈ [s.nextId + 1] := by
    intro q
    have := h.tdom q
    by_cases hq : q = s.nextId + 1
    · simp [hq]
    · simp [hq, this, hT]
  refine ⟨⟨h.nofault, ?_, ?_, ?_, rfl, rfl, by simp, by simp [Buf.pre]; omega, ?_, by simp, ?_, ?_, htd⟩, rfl, rfl, rfl⟩
  · have := perm_step2 (t := s.nextId + 1) (p := s.nextId) h.perm
    simpa [hT] using this
  · intro x hx
    simp only [List.mem_append, List.mem_singleton] at hx ⊢
    rcases hx with (hx | hx) | hx
    · have := h.fresh x hx; omega
    · omega
    · omega
  · simp only
    refine List.nodup_append.2 ⟨List.nodup_append.2 ⟨h.nodup, by simp, ?_⟩, by simp, ?_⟩
    · intro a ha b hb
      simp at hb; subst hb
      have := h.fresh a ha; omega
    · intro a ha b hb
      simp at hb; subst hb
      simp only [List.mem_append, List.mem_singleton] at ha
      rcases ha with ha | ha
      · have := h.fresh a ha; omega
      · omega
  · simp only [Buf.pre, List.length_append, List.length_singleton, Nat.add_mul, Nat.one_mul]
    omega
  · have := h.sz; have := h.sy
    simp only [Buf.pre]; omega
  · refine Layout.tbl (s.nextId + 1) [] (s.nextId + 1) [c, s.nextId] (by simp at hle ⊢; omega) rfl ?_ ?_ rfl
      (by simp) (by simp; omega) (by simp [Buf.pre])
    · have : ((F ++ [c]) ++ [s.nextId]).take (K - 1) = F := by
        rw [List.append_assoc, List.take_append_of_le_length (by omega), ← hFK, List.take_length]
      rw [this]
      show (F ++ [c]).set (K - 1) (s.nextId + 1) = F ++ [s.nextId + 1]
      rw [List.set_append_right _ _ (by omega)]
      simp [hFK]
    · have : ((F ++ [c]) ++ [s.nextId]).drop (K - 1) = [c, s.nextId] := by
        rw [List.append_assoc, List.drop_append_of_le_length (by omega), ← hFK]
        simp
      rw [this]
      refine ⟨by simp, by simp, ?_⟩
      simp [Buf.pre]; omega

/-- Case C: the last table page still has a free slot. -/
theorem Inv.step_over_ent {s : Buf} {F T : List Nat} {c n : Nat} (h : Inv s F c T n)
    (hfull : s.pptr = s.ps) (hok : PageOK s.ps)
    (t0 : Nat) (T' : List Nat) (tl : Nat) (e : List Nat) (hgt : K < (F ++ [c]).length) (hT : T = t0 :: T')
    (hs : s.slots = (F ++ [c]).take (K - 1) ++ [t0])
    (hc : Chain s.tmem (tableCap s.ps) T ((F ++ [c]).drop (K - 1)))
    (hl : T.getLast? = some tl) (hm : s.tmem tl = some ⟨none, e⟩)
    (hp : s.pages = .tbl tl (hdr + ptr * e.length)) (he : s.pagesEnd = .tbl tl s.ps)
    (hlt : e.length < tableCap s.ps) :
    Inv s.putc (F ++ [c]) s.nextId T (n + 1) ∧ s.putc.ps = s.ps ∧
      s.putc.nextId = s.nextId + 1 ∧ s.putc.pptr = 1 := by
  have hps := hok.pos
  obtain ⟨hpe, hE2⟩ := hok.eq
  have hh8 := hdr_eq
  have hp8 := ptr_eq
  rw [hh8, hp8] at hpe
  rw [hh8, hp8] at hp
  have hK := K_pos
  have hne : ¬ (s.pre.pages = s.pre.pagesEnd) := by
    simp only [Buf.pre, hp, he]
    intro hh; injection hh with _ hh; omega
  have hput : s.putc =
      { s.pre with
        tmem := s.tmem.set tl ⟨none, e ++ [s.nextId]⟩,
        pages := .tbl tl (8 + 8 * e.length + 8),
        cur := some s.nextId, syncPt := 0, pptr := 1, epptr := s.ps } := by
    rw [putc_full h.nofault (by rw [h.ep]; omega), overflow_eq h.nofault h.sy]
    simp only [hne, if_false]
    have h2 : 8 + 8 * e.length + 8 ≤ s.ps := by omega
    unfold Buf.storePages
    have hps' : s.ps ≠ 0 := by omega
    simp [Buf.pre, h.nofault, hp, hm, h2, hps', hh8, hp8]
  have hn := h.total
  have htd : ∀ q, ((s.tmem.set tl ⟨none, e ++ [s.nextId]⟩) q).isSome ↔ q ∈ T := by
    intro q
    have := h.tdom q
    by_cases hq : q = tl
    · have hmem : tl ∈ T := List.mem_of_getLast? hl
      simp [TMem.set, hq, hmem]
    · simp [TMem.set, hq, this]
  rw [hput]
  refine ⟨⟨h.nofault, ?_, ?_, ?_, rfl, rfl, by simp, by simp [Buf.pre]; omega, ?_, by simp, ?_, ?_, htd⟩, rfl, rfl, rfl⟩
  · exact perm_step1 h.perm
  · intro x hx
    simp only [Buf.pre, List.mem_append, List.mem_singleton] at hx ⊢
    rcases hx with hx | hx
    · have := h.fresh x hx; omega
    · omega
  · simp only [Buf.pre]
    refine List.nodup_append.2 ⟨h.nodup, by simp, ?_⟩
    intro a ha b hb
    simp at hb; subst hb
    have := h.fresh a ha; omega
  · simp only [Buf.pre, List.length_append, List.length_singleton, Nat.add_mul, Nat.one_mul]
    omega
  · have := h.sz; have := h.sy
    simp only [Buf.pre]; omega
  · have hlen : K - 1 ≤ (F ++ [c]).length := by omega
    refine Layout.tbl t0 T' tl (e ++ [s.nextId]) (by simp at hgt ⊢; omega) hT ?_ ?_ hl (by simp [TMem.set])
      (by simp [hh8, hp8]; omega) (by simpa [Buf.pre] using he)
    · rw [List.take_append_of_le_length hlen]; exact hs
    · rw [List.drop_append_of_le_length hlen]
      exact Chain.snoc_ent hc h.T_nodup hl hm hlt (by simp [TMem.set]) (by intro q hq; simp [TMem.set, hq])

/-- Case D: the last table page is full; a new table page is linked behind it. -/
theorem Inv.step_over_tbl {s : Buf} {F T : List Nat} {c n : Nat} (h : Inv s F c T n)
    (hfull : s.pptr = s.ps) (hok : PageOK s.ps)
    (t0 : Nat) (T' : List Nat) (tl : Nat) (e : List Nat) (hgt : K < (F ++ [c]).length) (hT : T = t0 :: T')
    (hs : s.slots = (F ++ [c]).take (K - 1) ++ [t0])
    (hc : Chain s.tmem (tableCap s.ps) T ((F ++ [c]).drop (K - 1)))
    (hl : T.getLast? = some tl) (hm : s.tmem tl = some ⟨none, e⟩)
    (hp : s.pages = .tbl tl (hdr + ptr * e.length)) (he : s.pagesEnd = .tbl tl s.ps)
    (hlt : e.length = tableCap s.ps) :
    Inv s.putc (F ++ [c]) s.nextId (T ++ [s.nextId + 1]) (n + 1) ∧ s.putc.ps = s.ps ∧
      s.putc.nextId = s.nextId + 2 ∧ s.putc.pptr = 1 := by
  have hps := hok.pos
  obtain ⟨hpe, hE2⟩ := hok.eq
  have hh8 := hdr_eq
  have hp8 := ptr_eq
  rw [hh8, hp8] at hpe
  rw [hh8, hp8] at hp
  have hK := K_pos
  have htl : tl < s.nextId := h.T_sub tl (List.mem_of_getLast? hl)
  have heq : s.pre.pages = s.pre.pagesEnd := by
    simp only [Buf.pre, hp, he]
    congr 1; omega
  have hput : s.putc =
      { s.pre with
        nextId := s.nextId + 2, allocs := s.allocs ++ [s.nextId] ++ [s.nextId + 1],
        tmem := ((s.tmem.set (s.nextId + 1) ⟨none, []⟩).set tl ⟨some (s.nextId + 1), e⟩).set (s.nextId + 1)
                  ⟨none, [s.nextId]⟩,
        pages := .tbl (s.nextId + 1) (8 + 8), pagesEnd := .tbl (s.nextId + 1) s.ps,
        cur := some s.nextId, syncPt := 0, pptr := 1, epptr := s.ps } := by
    rw [putc_full h.nofault (by rw [h.ep]; omega), overflow_eq h.nofault h.sy]
    simp only [heq, if_true]
    have hne1 : tl ≠ s.nextId + 1 := by omega
    have hopt : s.pre.overflowPageTable =
        { s.pre with
          nextId := s.nextId + 2, allocs := s.allocs ++ [s.nextId] ++ [s.nextId + 1],
          tmem := (s.tmem.set (s.nextId + 1) ⟨none, []⟩).set tl ⟨some (s.nextId + 1), e⟩,
          pages := .tbl (s.nextId + 1) 8, pagesEnd := .tbl (s.nextId + 1) s.ps } := by
      unfold Buf.overflowPageTable
      simp [Buf.pre, Buf.alloc, h.nofault, hp, he, TMem.set, hne1, hm, hh8]
    rw [hopt]
    have h2 : 8 + 8 ≤ s.ps := by omega
    unfold Buf.storePages
    have hps' : s.ps ≠ 0 := by omega
    have hne2 : s.nextId + 1 ≠ tl := by omega
    simp [Buf.pre, h.nofault, TMem.set, h2, hps', hh8, hp8, hne2]
  have hn := h.total
  have htd : ∀ q, ((((s.tmem.set (s.nextId + 1) ⟨none, []⟩).set tl ⟨some (s.nextId + 1), e⟩).set (s.nextId + 1)
      ⟨none, [s.nextId]⟩) q).isSome ↔ q ∈ T ++ [s.nextId + 1] := by
    intro q
    have := h.tdom q
    have hmem : tl ∈ T := List.mem_of_getLast? hl
    by_cases hq : q = s.nextId + 1
    · simp [TMem.set, hq]
    · by_cases hq2 : q = tl
      · subst hq2
        simp [TMem.set, hq, hmem]
      · simp [TMem.set, hq, hq2, this]
  rw [hput]
  refine ⟨⟨h.nofault, ?_, ?_, ?_, rfl, rfl, by simp, by simp [Buf.pre]; omega, ?_, by simp, ?_, ?_, htd⟩, rfl, rfl, rfl⟩
  · exact perm_step2 h.perm
  · intro x hx
    simp only [List.mem_append, List.mem_singleton] at hx ⊢
    rcases hx with (hx | hx) | hx
    · have := h.fresh x hx; omega
    · omega
    · omega
  · simp only
    refine List.nodup_append.2 ⟨List.nodup_append.2 ⟨h.nodup, by simp, ?_⟩, by simp, ?_⟩
    · intro a ha b hb
      simp at hb; subst hb
      have := h.fresh a ha; omega
    · intro a ha b hb
      simp at hb; subst hb
      simp only [List.mem_append, List.mem_singleton] at ha
      rcases ha with ha | ha
      · have := h.fresh a ha; omega
      · omega
  · simp only [Buf.pre, List.length_append, List.length_singleton, Nat.add_mul, Nat.one_mul]
    omega
  · have := h.sz; have := h.sy
    simp only [Buf.pre]; omega
  · have hlen : K - 1 ≤ (F ++ [c]).length := by omega
    have hnotin : s.nextId + 1 ∉ T := fun hx => by have := h.T_sub _ hx; omega
    refine Layout.tbl t0 (T' ++ [s.nextId + 1]) (s.nextId + 1) [s.nextId] (by simp at hgt ⊢; omega)
      (by simp [hT]) ?_ ?_ (by simp) (by simp [TMem.set]) (by simp [hh8, hp8]) (by simp [Buf.pre])
    · rw [List.take_append_of_le_length hlen]; exact hs
    · rw [List.drop_append_of_le_length hlen]
      refine Chain.snoc_tbl (show 0 < tableCap s.ps by omega) hc h.T_nodup hnotin hl hm hlt ?_ (by simp [TMem.set]) ?_
      · have : tl ≠ s.nextId + 1 := by omega
        simp [TMem.set, this]
      · intro q hq1 hq2; simp [TMem.set, hq1, hq2]

/-- `overflow` from any state satisfying the invariant whose put area is full. -/
theorem Inv.step_over {s : Buf} {F T : List Nat} {c n : Nat} (h : Inv s F c T n)
    (hfull : s.pptr = s.ps) (hps : 0 < s.ps) (hok : K * s.ps < n + 1 → PageOK s.ps) :
    ∃ T', Inv s.putc (F ++ [c]) s.nextId T' (n + 1) ∧ s.putc.ps = s.ps ∧
      s.nextId < s.putc.nextId ∧ s.putc.pptr = 1 := by
  have hn := h.total
  cases h.layout with
  | inl hle hs hT hp he =>
    by_cases hlt : (F ++ [c]).length < K
    · obtain ⟨h1, h2, h3, h4⟩ := h.step_over_inl hfull hps hlt hs hT hp he
      exact ⟨T, h1, h2, by omega, h4⟩
    · have hKe : (F ++ [c]).length = K := by omega
      have hpo : PageOK s.ps := by
        apply hok
        have : K = F.length + 1 := by simp at hKe; omega
        rw [this, Nat.add_mul, Nat.one_mul]; omega
      obtain ⟨h1, h2, h3, h4⟩ := h.step_over_first hfull hpo hKe hs hT hp he
      exact ⟨_, h1, h2, by omega, h4⟩
  | tbl t0 T' tl e hgt hT hs hc hl hm hp he =>
    have hpo : PageOK s.ps := by
      apply hok
      have hKF : K ≤ F.length := by simp at hgt; omega
      have := Nat.mul_le_mul_right s.ps hKF
      omega
    obtain ⟨e', he1, _, he3⟩ := hc.last hl
    have : e' = e := by rw [hm] at he1; simpa using he1.symm
    subst this
    by_cases hlt : e'.length < tableCap s.ps
    · obtain ⟨h1, h2, h3, h4⟩ := h.step_over_ent hfull hpo t0 T' tl e' hgt hT hs hc hl hm hp he hlt
      exact ⟨T, h1, h2, by omega, h4⟩
    · obtain ⟨h1, h2, h3, h4⟩ := h.step_over_tbl hfull hpo t0 T' tl e' hgt hT hs hc hl hm hp he (by omega)
      exact ⟨_, h1, h2, by omega, h4⟩

/-- The first byte of an entry. -/
theorem begin_putc (ps a0 : Nat) (hps : 0 < ps) :
    Inv (Buf.begin ps a0).putc [] a0 [] 1 ∧ (Buf.begin ps a0).putc.ps = ps ∧
      (Buf.begin ps a0).putc.nextId = a0 + 1 ∧ (Buf.begin ps a0).putc.pptr = 1 := by
  have hK := K_pos
  have hK' : ¬ (K ≤ 0) := by omega
  have hK'' : K ≠ 0 := by omega
  have hps' : ps ≠ 0 := by omega
  have hput : (Buf.begin ps a0).putc =
      { Buf.begin ps a0 with
        nextId := a0 + 1, allocs := [a0], slots := [a0], pages := .inl 1,
        cur := some a0, syncPt := 0, pptr := 1, epptr := ps } := by
    unfold Buf.putc Buf.overflow
    simp [Buf.begin, Buf.sync, Buf.alloc, Buf.storePages, hK, hps', Ne.symm hK'']
  rw [hput]
  refine ⟨⟨rfl, by simp, by simp, by simp, rfl, rfl, by simp, by simp [Buf.begin]; omega, by simp, by simp,
    by simp [Buf.begin], ?_, by simp [Buf.begin]⟩, rfl, rfl, rfl⟩
  exact Layout.inl (by simp; omega) rfl rfl rfl rfl

end Babylon.Log
