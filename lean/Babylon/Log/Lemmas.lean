/-
  Helper lemmas for the LogEntry model, part 1: arithmetic of page sizes and correctness of the
  reader (`pagesAppend`, `tableAppend`, `appendToIovec`) on a well-formed layout.
-/
import Babylon.Log.Entry

namespace Babylon.Log
open Babylon.Gen.Log

theorem hdr_eq : hdr = 8 := by decide
theorem ptr_eq : ptr = 8 := by decide
theorem K_pos : 0 < K := by decide

/-- The page sizes for which a page can serve as a page table: the pointer array must end exactly
at the page end (`8 ∣ ps`) and hold at least two pointers (the moved `head` plus the new page). -/
def PageOK (ps : Nat) : Prop := 8 ∣ ps ∧ 24 ≤ ps

instance (ps : Nat) : Decidable (PageOK ps) := by unfold PageOK; infer_instance

theorem PageOK.eq {ps : Nat} (h : PageOK ps) : ps = hdr + ptr * tableCap ps ∧ 2 ≤ tableCap ps := by
  obtain ⟨⟨k, rfl⟩, h24⟩ := h
  unfold tableCap
  rw [hdr_eq, ptr_eq]
  omega

theorem PageOK.pos {ps : Nat} (h : PageOK ps) : 0 < ps := by
  have := h.2; omega

/-! ### `pagesAppend` -/

theorem pagesAppend_zero (ps : Nat) (l : List Nat) : pagesAppend ps l 0 = some [] := by
  unfold pagesAppend; simp

/-- `c` whole pages out of an array that has at least `c` written slots. -/
theorem pagesAppend_full {ps : Nat} (hps : 0 < ps) :
    ∀ (c : Nat) (l : List Nat), c ≤ l.length →
      pagesAppend ps l (c * ps) = some ((l.take c).map (·, ps))
  | 0, l, _ => by unfold pagesAppend; simp
  | c + 1, [], h => by simp at h
  | c + 1, p :: rest, h => by
    have hc : c ≤ rest.length := by simpa using h
    have h1 : (c + 1) * ps = c * ps + ps := Nat.succ_mul c ps
    unfold pagesAppend
    have hne : (c + 1) * ps ≠ 0 := by rw [h1]; omega
    have hge : (c + 1) * ps ≥ ps := by rw [h1]; omega
    have hsub : (c + 1) * ps - ps = c * ps := by rw [h1]; omega
    simp only [hne, if_false, hge, if_true, hsub, pagesAppend_full hps c rest hc]
    simp

/-- `front` whole pages, then the page holding the last `r` bytes (`0 < r ≤ ps`); whatever follows
in the array is not touched. -/
theorem pagesAppend_snoc {ps : Nat} (hps : 0 < ps) (last r : Nat) (junk : List Nat) (hr : 0 < r) (hr' : r ≤ ps) :
    ∀ (front : List Nat),
      pagesAppend ps (front ++ last :: junk) (front.length * ps + r) = some (front.map (·, ps) ++ [(last, r)])
  | [] => by
    unfold pagesAppend
    have : r ≠ 0 := by omega
    by_cases h : r ≥ ps
    · have : r = ps := by omega
      subst this
      simp [pagesAppend_zero, this]
    · simp [this, h]
  | p :: f => by
    have h1 : (f.length + 1) * ps = f.length * ps + ps := Nat.succ_mul _ ps
    have ih := pagesAppend_snoc hps last r junk hr hr' f
    unfold pagesAppend
    have hne : (f.length + 1) * ps + r ≠ 0 := by omega
    have hge : (f.length + 1) * ps + r ≥ ps := by rw [h1]; omega
    have hsub : (f.length + 1) * ps + r - ps = f.length * ps + r := by rw [h1]; omega
    simp only [List.length_cons, List.cons_append, hne, if_false, hge, if_true, hsub, ih]
    simp


/-! ### The page-table chain -/

/-- `Chain m E T ids`: the table pages `T` (in list order) are linked through `next`, hold the page
pointers `ids` in order, every table but the last is full (`E` pointers), the last one is not empty
and its `next` is null. -/
def Chain (m : TMem) (E : Nat) : List Nat → List Nat → Prop
  | [], _ => False
  | [t], ids => m t = some ⟨none, ids⟩ ∧ 0 < ids.length ∧ ids.length ≤ E
  | t :: t' :: r, ids =>
    m t = some ⟨some t', ids.take E⟩ ∧ E < ids.length ∧ Chain m E (t' :: r) (ids.drop E)

/-- What `page_table_append_to_iovec` must produce for such a chain: `front` are full data pages,
`last` holds `r` bytes; every table contributes a zero-length element after its pages. -/
def chainIov (ps E : Nat) : List Nat → List Nat → Nat → Nat → Iov
  | [], _, _, _ => []
  | [t], front, last, r => front.map (·, ps) ++ [(last, r), (t, 0)]
  | t :: t' :: rest, front, last, r =>
    (front.take E).map (·, ps) ++ [(t, 0)] ++ chainIov ps E (t' :: rest) (front.drop E) last r

theorem tableAppend_chain {m : TMem} {ps E : Nat} (hps : 0 < ps) (hE : 0 < E) (last r : Nat)
    (hr : 0 < r) (hr' : r ≤ ps) :
    ∀ (T : List Nat) (t : Nat) (front : List Nat) (fuel : Nat),
      Chain m E (t :: T) (front ++ [last]) → front.length * ps + r < fuel →
      tableAppend m ps (E * ps) fuel (some t) (front.length * ps + r)
        = some (chainIov ps E (t :: T) front last r)
  | [], t, front, fuel, hc, hf => by
    obtain ⟨hm, _, hle⟩ := hc
    have hle' : front.length + 1 ≤ E := by simpa using hle
    have h1 : (front.length + 1) * ps ≤ E * ps := Nat.mul_le_mul_right ps hle'
    have h2 : (front.length + 1) * ps = front.length * ps + ps := Nat.succ_mul _ ps
    obtain ⟨f, rfl⟩ : ∃ f, fuel = f + 1 := ⟨fuel - 1, by omega⟩
    have hng : ¬ (front.length * ps + r > E * ps) := by omega
    have hpos : front.length * ps + r > 0 := by omega
    have hpa := pagesAppend_snoc hps last r [] hr hr' front
    simp only [tableAppend, hng, if_false, hpos, if_true, chainIov]
    simp [hm, hpa]
  | t' :: R, t, front, fuel, hc, hf => by
    obtain ⟨hm, hlt, hrest⟩ := hc
    have hle : E ≤ front.length := by simp at hlt; omega
    have htake : (front ++ [last]).take E = front.take E := List.take_append_of_le_length hle
    have hdrop : (front ++ [last]).drop E = front.drop E ++ [last] := List.drop_append_of_le_length hle
    rw [htake] at hm
    rw [hdrop] at hrest
    have h1 : E * ps ≤ front.length * ps := Nat.mul_le_mul_right ps hle
    have hEps : 0 < E * ps := Nat.mul_pos hE hps
    obtain ⟨f, rfl⟩ : ∃ f, fuel = f + 1 := ⟨fuel - 1, by omega⟩
    have hgt : front.length * ps + r > E * ps := by omega
    have hlen : (front.drop E).length = front.length - E := by simp
    have hsub : front.length * ps + r - E * ps = (front.drop E).length * ps + r := by
      rw [hlen, Nat.sub_mul]; omega
    have hfull := pagesAppend_full hps E (front.take E) (by simp; omega)
    have htt : (front.take E).take E = front.take E := by simp [List.take_take]
    rw [htt] at hfull
    have ih := tableAppend_chain hps hE last r hr hr' R t' (front.drop E) f hrest (by omega)
    simp only [tableAppend, hgt, if_true, hsub, chainIov]
    rw [hlen] at ih
    simp [hm, hfull, ih]

/-! ### What the expected scatter list says -/

def nz (e : Nat × Nat) : Bool := e.2 != 0
def isz (e : Nat × Nat) : Bool := e.2 == 0

theorem filter_nz_full {ps : Nat} (hps : 0 < ps) (l : List Nat) :
    ((l.map (·, ps)).filter nz).map Prod.fst = l := by
  induction l with
  | nil => rfl
  | cons p l ih =>
    have : nz (p, ps) = true := by simp [nz]; omega
    simp [this]
    simpa using ih

theorem filter_isz_full {ps : Nat} (hps : 0 < ps) (l : List Nat) :
    (l.map (·, ps)).filter isz = [] := by
  induction l with
  | nil => rfl
  | cons p l ih =>
    have : isz (p, ps) = false := by simp [isz]; omega
    simp [this]
    simpa using ih

theorem chainIov_nz {ps E : Nat} (hps : 0 < ps) (last r : Nat) (hr : 0 < r) :
    ∀ (T : List Nat) (front : List Nat), T ≠ [] →
      ((chainIov ps E T front last r).filter nz).map Prod.fst = front ++ [last]
  | [], _, h => absurd rfl h
  | [t], front, _ => by
    have h1 : nz (last, r) = true := by simp [nz]; omega
    have h2 : nz (t, 0) = false := by simp [nz]
    simp [chainIov, h1, h2, filter_nz_full hps]
  | t :: t' :: R, front, _ => by
    have h2 : nz (t, 0) = false := by simp [nz]
    have ih := chainIov_nz (E := E) hps last r hr (t' :: R) (front.drop E) (by simp)
    simp only [chainIov, List.filter_append, List.map_append, filter_nz_full hps, ih]
    simp [h2]
    rw [← List.append_assoc, List.take_append_drop]

theorem chainIov_isz {ps E : Nat} (hps : 0 < ps) (last r : Nat) (hr : 0 < r) :
    ∀ (T : List Nat) (front : List Nat),
      ((chainIov ps E T front last r).filter isz).map Prod.fst = T
  | [], _ => by simp [chainIov]
  | [t], front => by
    have h1 : isz (last, r) = false := by simp [isz]; omega
    have h2 : isz (t, 0) = true := by simp [isz]
    simp [chainIov, h1, h2, filter_isz_full hps]
  | t :: t' :: R, front => by
    have h2 : isz (t, 0) = true := by simp [isz]
    have ih := chainIov_isz (E := E) hps last r hr (t' :: R) (front.drop E)
    simp only [chainIov, List.filter_append, List.map_append, filter_isz_full hps, ih]
    simp [h2]

theorem iovBytes_full {α} (d : DMem α) {ps : Nat} (l : List Nat) (h : ∀ p ∈ l, (d p).length ≤ ps) :
    iovBytes d (l.map (·, ps)) = l.flatMap d := by
  induction l with
  | nil => rfl
  | cons p l ih =>
    have hp : (d p).take ps = d p := List.take_of_length_le (h p (by simp))
    have := ih (fun q hq => h q (by simp [hq]))
    simp only [iovBytes] at this ⊢
    simp [hp, this]

theorem iovBytes_append {α} (d : DMem α) (a b : Iov) : iovBytes d (a ++ b) = iovBytes d a ++ iovBytes d b := by
  simp [iovBytes]

theorem chainIov_bytes {α} (d : DMem α) {ps E : Nat} (last r : Nat) (hl : (d last).length ≤ r) :
    ∀ (T : List Nat) (front : List Nat), T ≠ [] → (∀ p ∈ front, (d p).length ≤ ps) →
      iovBytes d (chainIov ps E T front last r) = front.flatMap d ++ d last
  | [], _, h, _ => absurd rfl h
  | [t], front, _, hf => by
    have h1 : (d last).take r = d last := List.take_of_length_le hl
    simp only [chainIov, iovBytes_append, iovBytes_full d front hf]
    simp [iovBytes, h1]
  | t :: t' :: R, front, _, hf => by
    have ih := chainIov_bytes (ps := ps) (E := E) d last r hl (t' :: R) (front.drop E) (by simp)
      (fun p hp => hf p (List.mem_of_mem_drop hp))
    have h1 := iovBytes_full d (front.take E) (fun p hp => hf p (List.mem_of_mem_take hp))
    simp only [chainIov, iovBytes_append, h1, ih]
    have : front.flatMap d = (front.take E).flatMap d ++ (front.drop E).flatMap d := by
      rw [← List.flatMap_append, List.take_append_drop]
    simp [iovBytes, this]

end Babylon.Log
