/-
  Sequential model of `LogStreamBuffer` + `LogEntry`
  (src/babylon/logging/log_entry.{h,cpp}), transcribed statement by statement.

  * Pages are named by the sequence number of the `allocate()` call that returned them
    (the harness' recording allocator prints the same numbers), so "page" = "allocation event".
  * A pointer into a `char*` array (`_pages`, `_pages_end`) is an *address*: either a slot of the
    inline array `_log.pages[i]` (slot `K-1` is the storage of `_log.head`, slot `K` is one past
    the object) or a byte offset inside a page-table page.  The code's tests `_pages == _pages_end`
    and `_pages == _log.pages + INLINE_PAGE_CAPACITY` are address comparisons here too, and
    `_pages_end` is computed as `page_table + page_size` exactly as in the source, so a page size
    that is not `8 (mod 8)`-compatible makes the model run past the page, like the code.
  * Every store through `_pages` is bounds-checked against the page it lands in; a store outside
    sets `fault` (the real code corrupts the heap there; under ASan it aborts).  `fault` is
    sticky.  The theorems show `fault = none` under the stated page-size hypothesis.
  * `Buf` is the byte-independent part of the state (everything except page contents), `Stream α`
    adds the contents of the data pages, for an arbitrary byte type `α`.

  Core Lean only (the driver `drv_C20` links this file).
-/
import Babylon.Gen.Log

namespace Babylon.Log
open Babylon.Gen.Log

/-- `LogEntry::INLINE_PAGE_CAPACITY` (generated). -/
def K : Nat := inlinePageCapacity
/-- `sizeof(PageTable)`: offset of `pages[0]` inside a table page (generated). -/
def hdr : Nat := sizeofPageTable
/-- `sizeof(char*)` (generated). -/
def ptr : Nat := sizeofPtr

/-- Number of page pointers a table page holds: `(page_size - sizeof(PageTable)) / sizeof(char*)`. -/
def tableCap (ps : Nat) : Nat := (ps - hdr) / ptr

/-- Address of a `char*` slot. -/
inductive Ptr
  | inl (i : Nat)            -- `&_log.pages[i]`
  | tbl (t : Nat) (off : Nat) -- byte offset `off` inside table page `t`
  deriving DecidableEq, Repr, Inhabited

structure TablePage where
  next : Option Nat    -- `PageTable::next` (`none` = nullptr)
  ents : List Nat      -- `pages[0]`, `pages[1]`, … written so far
  deriving DecidableEq, Repr

/-- Memory holding the page-table pages: page id ↦ contents (`none`: not a table page). -/
abbrev TMem := Nat → Option TablePage
def TMem.set (m : TMem) (t : Nat) (v : TablePage) : TMem := fun q => if q = t then some v else m q

/-- Byte-independent state of a `LogStreamBuffer` (its `LogEntry _log` included). -/
structure Buf where
  ps : Nat                 -- `_page_allocator->page_size()`
  size : Nat               -- `_log.size`
  slots : List Nat         -- `_log.pages[0..]` written since `begin()`; slot `K-1` is `_log.head`
  tmem : TMem
  pages : Ptr              -- `_pages`
  pagesEnd : Ptr           -- `_pages_end`
  cur : Option Nat         -- page of the put area (`pbase()`), `none` = nullptr
  pptr : Nat               -- `pptr()  - pbase()`
  epptr : Nat              -- `epptr() - pbase()`
  syncPt : Nat             -- `_sync_point - pbase()`
  nextId : Nat             -- allocator: sequence number of the next `allocate()`
  allocs : List Nat        -- pages handed out since `begin()`, in order
  fault : Option String

/-- `LogStreamBuffer::begin()` on an allocator that has handed out `a0` pages so far. -/
def Buf.begin (ps a0 : Nat) : Buf :=
  { ps := ps, size := 0, slots := [], tmem := fun _ => none, pages := .inl 0, pagesEnd := .inl K,
    cur := none, pptr := 0, epptr := 0, syncPt := 0, nextId := a0, allocs := [], fault := none }

def Buf.fail (s : Buf) (msg : String) : Buf :=
  if s.fault.isSome then s else { s with fault := some msg }

/-- `_page_allocator->allocate()`. -/
def Buf.alloc (s : Buf) : Nat × Buf :=
  (s.nextId, { s with nextId := s.nextId + 1, allocs := s.allocs ++ [s.nextId] })

/-- `LogStreamBuffer::sync()`. -/
def Buf.sync (s : Buf) : Buf :=
  if s.fault.isSome then s else
  if s.pptr > s.syncPt then { s with size := s.size + (s.pptr - s.syncPt), syncPt := s.pptr } else s

/-- `*_pages++ = v`. -/
def Buf.storePages (s : Buf) (v : Nat) : Buf :=
  if s.fault.isSome then s else
  match s.pages with
  | .inl i =>
    if i < K then
      if i = s.slots.length then { s with slots := s.slots ++ [v], pages := .inl (i + 1) }
      else s.fail "inline slot written out of sequence"
    else s.fail "store past the end of the LogEntry"
  | .tbl t off =>
    if hdr ≤ off ∧ off + ptr ≤ s.ps then
      match s.tmem t with
      | some T =>
        if off = hdr + ptr * T.ents.length then
          { s with tmem := s.tmem.set t { T with ents := T.ents ++ [v] }, pages := .tbl t (off + ptr) }
        else s.fail "table slot written out of sequence"
      | none => s.fail "store into a page that is not a page table"
    else s.fail "heap-buffer-overflow"

/-- `LogStreamBuffer::overflow_page_table()`. -/
def Buf.overflowPageTable (s : Buf) : Buf :=
  if s.fault.isSome then s else
  let (t, s) := s.alloc                                   -- page_table = allocate()
  let s := { s with tmem := s.tmem.set t ⟨none, []⟩ }      -- page_table->next = nullptr
  -- pages = page_table->pages; pages_end = page_table + page_size
  if s.pages = .inl K then
    -- *pages++ = _log.head; _log.head = page_table
    match s.slots[K - 1]? with
    | some head =>
      if hdr + ptr ≤ s.ps then
        { s with tmem := s.tmem.set t ⟨none, [head]⟩, slots := s.slots.set (K - 1) t,
                 pages := .tbl t (hdr + ptr), pagesEnd := .tbl t s.ps }
      else s.fail "heap-buffer-overflow"
    | none => s.fail "read of uninitialised _log.head"
  else
    -- last_page_table = _pages_end - page_size; last_page_table->next = page_table
    match s.pagesEnd with
    | .tbl l off =>
      if off = s.ps then
        match s.tmem l with
        | some L => { s with tmem := s.tmem.set l { L with next := some t },
                             pages := .tbl t hdr, pagesEnd := .tbl t s.ps }
        | none => s.fail "last_page_table is not a page table"
      else s.fail "last_page_table is not a page start"
    | .inl _ => s.fail "last_page_table computed from the inline array"

/-- `LogStreamBuffer::overflow(ch)` including the final `sputc(ch)` into the fresh page
(the byte itself is stored by `Stream.putc`). -/
def Buf.overflow (s : Buf) : Buf :=
  if s.fault.isSome then s else
  let s := s.sync
  let (page, s) := s.alloc
  let s := if s.pages = s.pagesEnd then s.overflowPageTable else s
  let s := s.storePages page
  if s.fault.isSome then s else
  -- _sync_point = page; setp(page, page + page_size); return sputc(ch);
  if s.ps = 0 then s.fail "page_size 0: sputc re-enters overflow forever"
  else { s with cur := some page, syncPt := 0, pptr := 1, epptr := s.ps }

/-- `std::streambuf::sputc` seen from the structural state: store into the put area if there is
room, else `overflow`. -/
def Buf.putc (s : Buf) : Buf :=
  if s.fault.isSome then s else
  if s.pptr < s.epptr then { s with pptr := s.pptr + 1 } else s.overflow

/-- `n` single-character writes. -/
def Buf.putN (s : Buf) : Nat → Buf
  | 0 => s
  | n + 1 => (s.putc).putN n

/-! ### Page contents -/

/-- Contents of the data pages: page id ↦ bytes stored so far (a prefix of the page). -/
abbrev DMem (α : Type) := Nat → List α
def DMem.app {α} (m : DMem α) (p : Option Nat) (bs : List α) : DMem α :=
  match p with
  | some p => fun q => if q = p then m q ++ bs else m q
  | none => m

structure Stream (α : Type) where
  buf : Buf
  dmem : DMem α

def Stream.begin {α} (ps a0 : Nat) : Stream α := ⟨Buf.begin ps a0, fun _ => []⟩

/-- `sputc(b)`. -/
def Stream.putc {α} (s : Stream α) (b : α) : Stream α :=
  let b' := s.buf.putc
  ⟨b', if b'.fault.isSome then s.dmem else s.dmem.app b'.cur [b]⟩

/-- `traits_type::copy(pptr(), s, len); pbump(len)` with `len ≤ epptr() - pptr()`. -/
def Stream.copy {α} (s : Stream α) (chunk : List α) : Stream α :=
  ⟨{ s.buf with pptr := s.buf.pptr + chunk.length }, s.dmem.app s.buf.cur chunk⟩

/-- `overflow(c)` called from `xsputn`. -/
def Stream.over {α} (s : Stream α) (c : α) : Stream α :=
  let b' := s.buf.overflow
  ⟨b', if b'.fault.isSome then s.dmem else s.dmem.app b'.cur [c]⟩

/-- libstdc++ `basic_streambuf::xsputn` (LogStreamBuffer does not override it): copy as much as
fits into the put area, call `overflow` for the next character, repeat. -/
def Stream.sputnLoop {α} : Nat → Stream α → List α → Stream α
  | 0, s, _ => s
  | fuel + 1, s, bs =>
    match bs with
    | [] => s
    | b :: rest =>
      if s.buf.fault.isSome then s else
      let room := s.buf.epptr - s.buf.pptr
      if room > 0 then
        let len := min room bs.length
        let s1 := s.copy (bs.take len)
        match bs.drop len with
        | [] => s1
        | c :: rest' => sputnLoop fuel (s1.over c) rest'
      else sputnLoop fuel (s.over b) rest

def Stream.sputn {α} (s : Stream α) (bs : List α) : Stream α := Stream.sputnLoop (bs.length + 1) s bs

/-- What a user of the stream buffer can do between `begin()` and `end()`. -/
inductive Op (α : Type)
  | sputn (bs : List α)
  | sputc (b : α)
  | sync                 -- `pubsync()` (an `ostream` flush)
  deriving Repr

def Op.bytes {α} : Op α → List α
  | .sputn bs => bs
  | .sputc b => [b]
  | .sync => []

def Stream.step {α} (s : Stream α) : Op α → Stream α
  | .sputn bs => s.sputn bs
  | .sputc b => s.putc b
  | .sync => { s with buf := s.buf.sync }

def Stream.run {α} (s : Stream α) (ops : List (Op α)) : Stream α := ops.foldl Stream.step s

/-- All bytes streamed by a list of operations. -/
def bytesOf {α} (ops : List (Op α)) : List α := ops.flatMap Op.bytes

/-- `LogStreamBuffer::end()`. -/
def Stream.end_ {α} (s : Stream α) : Stream α := { s with buf := s.buf.sync }

/-- `begin()` on an allocator at position `a0`, the operations `ops`, `end()`. -/
def Stream.finish {α} (ps a0 : Nat) (ops : List (Op α)) : Stream α := ((Stream.begin ps a0).run ops).end_

/-- The finished `LogEntry` plus the table pages it points to. -/
structure Entry where
  size : Nat
  slots : List Nat
  tmem : TMem

def Buf.entry (s : Buf) : Entry := ⟨s.size, s.slots, s.tmem⟩

/-! ### `append_to_iovec` -/

abbrev Iov := List (Nat × Nat)   -- (page, iov_len)

/-- `LogEntry::pages_append_to_iovec(pages, size, page_size, iov)`: `size / page_size` whole pages
(the loop runs while at least a page of `size` remains), then the partial tail.  `none`: the
code would read a slot that was never written.  Requires `ps > 0` (checked by the callers). -/
def pagesAppend (ps : Nat) : List Nat → Nat → Option Iov
  | pages, size =>
    if size = 0 then some [] else
    match pages with
    | [] => none
    | p :: rest =>
      if size ≥ ps then (pagesAppend ps rest (size - ps)).map ((p, ps) :: ·)
      else some [(p, size)]

/-- `LogEntry::page_table_append_to_iovec(table, size, page_size, iov)`; `full` is
`full_table_size`.  `fuel` bounds the `while` loop (`size + 1` always suffices when `full > 0`). -/
def tableAppend (m : TMem) (ps full : Nat) : Nat → Option Nat → Nat → Option Iov
  | 0, _, _ => none
  | fuel + 1, tp, size =>
    if size > full then do
      let t ← tp
      let T ← m t
      let a ← pagesAppend ps T.ents full
      let b ← tableAppend m ps full fuel T.next (size - full)
      pure (a ++ [(t, 0)] ++ b)
    else if size > 0 then do
      let t ← tp
      let T ← m t
      let a ← pagesAppend ps T.ents size
      pure (a ++ [(t, 0)])
    else some []

/-- `LogEntry::append_to_iovec(page_size, iov)`. -/
def appendToIovec (e : Entry) (ps : Nat) : Option Iov :=
  if ps = 0 then none else          -- division by zero in the code
  let fullInline := K * ps
  if e.size > fullInline then
    if ps < hdr then none else      -- `page_size - sizeof(PageTable)` wraps
    let full := tableCap ps * ps
    if full = 0 then none else      -- the `while` loop would not terminate
    do
      let a ← pagesAppend ps e.slots (fullInline - ps)
      let head ← e.slots[K - 1]?
      let b ← tableAppend m ps full (e.size + 1) (some head) (e.size - fullInline + ps)
      pure (a ++ b)
  else pagesAppend ps e.slots e.size
where m := e.tmem

/-- `AsyncFileAppender::discard(entry)`: the pages handed to `deallocate`, in order. -/
def discardPages (e : Entry) (ps : Nat) : Option (List Nat) := (appendToIovec e ps).map (·.map Prod.fst)

/-- Bytes described by a scatter list. -/
def iovBytes {α} (d : DMem α) (iov : Iov) : List α := iov.flatMap (fun e => (d e.1).take e.2)

end Babylon.Log
