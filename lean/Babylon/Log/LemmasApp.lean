/-
  Helper lemmas for the abstract appender model (Babylon/Log/Appender.lean): the invariant `AInv`
  of all reachable states.
-/
import Babylon.Log.Appender

namespace Babylon.Log.App
open Babylon.Gen.Log Babylon.Log

theorem iovMax_pos : 0 < iovMax := by decide

/-! ### `chunks` -/

theorem chunks_spec {n : Nat} (hn : 0 < n) : ∀ (fuel : Nat) (l : Iov), l.length ≤ fuel →
    (chunks n fuel l).flatten = l ∧ ∀ c ∈ chunks n fuel l, c ≠ [] ∧ c.length ≤ n
  | 0, l, h => by
    have : l = [] := List.length_eq_zero_iff.1 (by omega)
    subst this; simp [chunks]
  | fuel + 1, l, h => by
    unfold chunks
    by_cases hl : l = []
    · simp [hl]
    · have hlen : 0 < l.length := List.length_pos_iff.2 hl
      have ih := chunks_spec hn fuel (l.drop n) (by simp; omega)
      simp only [hl, if_false, List.flatten_cons, ih.1, List.take_append_drop, List.mem_cons, true_and]
      intro c hc
      rcases hc with rfl | hc
      · refine ⟨?_, by simp; omega⟩
        intro h0
        have : (l.take n).length = 0 := by rw [h0]; rfl
        rw [List.length_take] at this; omega
      · exact ih.2 c hc

/-! ### Destinations during a round -/

/-- Entries queued on the destinations of file `f`. -/
def itemsOf (ds : List Dest) (f : Nat) : List Item := (ds.filter (·.file = f)).flatMap (·.items)

/-- Well-formed destinations: one per file object, `iov` is the concatenation of the scatter lists
of `items`, which all belong to that file and have non-empty scatter lists. -/
structure DOk (ds : List Dest) : Prop where
  nodup : (ds.map (·.file)).Nodup
  iov : ∀ d ∈ ds, d.iov = d.items.flatMap (·.iov)
  file : ∀ d ∈ ds, ∀ it ∈ d.items, it.file = d.file
  ne : ∀ d ∈ ds, ∀ it ∈ d.items, it.iov ≠ []

theorem addTo_files (ds : List Dest) (it : Item) :
    (addTo ds it).map (·.file) = if it.file ∈ ds.map (·.file) then ds.map (·.file) else ds.map (·.file) ++ [it.file] := by
  induction ds with
  | nil => simp [addTo]
  | cons d ds ih =>
    unfold addTo
    by_cases h : d.file = it.file
    · simp [h]
    · have h' : ¬ it.file = d.file := fun hh => h hh.symm
      simp only [h, if_false, List.map_cons, ih, List.mem_cons, h', false_or]
      split <;> simp

theorem itemsOf_nil_of_not_mem {ds : List Dest} {f : Nat} (h : f ∉ ds.map (·.file)) : itemsOf ds f = [] := by
  induction ds with
  | nil => rfl
  | cons d ds ih =>
    have h1 : ¬ d.file = f := fun hh => h (by simp [hh])
    have h2 : f ∉ ds.map (·.file) := fun hh => h (by simp at hh ⊢; exact Or.inr hh)
    simp only [itemsOf, List.filter_cons, h1, decide_false, Bool.false_eq_true, if_false]
    exact ih h2

theorem addTo_itemsOf {ds : List Dest} (hn : (ds.map (·.file)).Nodup) (it : Item) (f : Nat) :
    itemsOf (addTo ds it) f = itemsOf ds f ++ (if it.file = f then [it] else []) := by
  induction ds with
  | nil =>
    by_cases h : it.file = f <;> simp [addTo, itemsOf, h]
  | cons d ds ih =>
    have hn0 : (d.file :: ds.map (·.file)).Nodup := by simpa using hn
    have hn' := (List.nodup_cons.1 hn0).2
    have hnotin := (List.nodup_cons.1 hn0).1
    unfold addTo
    by_cases h : d.file = it.file
    · simp only [h, if_true]
      by_cases hf : it.file = f
      · have hrest : itemsOf ds f = [] := itemsOf_nil_of_not_mem (by rw [← hf, ← h]; exact hnotin)
        have hrest' : (ds.filter (·.file = f)).flatMap (·.items) = [] := hrest
        simp [itemsOf, h, hf, hrest']
      · simp [itemsOf, h, hf]
    · simp only [h, if_false]
      have := ih hn'
      by_cases hd : d.file = f
      · simp only [itemsOf, List.filter_cons, hd, decide_true, if_true, List.flatMap_cons] at this ⊢
        rw [this, List.append_assoc]
      · simp only [itemsOf, List.filter_cons, hd, decide_false, Bool.false_eq_true, if_false] at this ⊢
        exact this

theorem mem_addTo {ds : List Dest} {it : Item} {d : Dest} (h : d ∈ addTo ds it) :
    d ∈ ds ∨ (∃ d0 ∈ ds, d0.file = it.file ∧ d = { d0 with iov := d0.iov ++ it.iov, items := d0.items ++ [it] }) ∨
      d = ⟨it.file, it.iov, [it]⟩ := by
  induction ds with
  | nil => simp [addTo] at h; exact Or.inr (Or.inr h)
  | cons d0 ds ih =>
    unfold addTo at h
    by_cases h0 : d0.file = it.file
    · rw [if_pos h0, List.mem_cons] at h
      rcases h with rfl | h
      · exact Or.inr (Or.inl ⟨d0, by simp, h0, rfl⟩)
      · exact Or.inl (by simp [h])
    · rw [if_neg h0, List.mem_cons] at h
      rcases h with rfl | h
      · exact Or.inl (by simp)
      · rcases ih h with h1 | ⟨d1, hd1, h2, h3⟩ | h1
        · exact Or.inl (by simp [h1])
        · exact Or.inr (Or.inl ⟨d1, by simp [hd1], h2, h3⟩)
        · exact Or.inr (Or.inr h1)

theorem addTo_DOk {ds : List Dest} (h : DOk ds) (it : Item) (hne : it.iov ≠ []) : DOk (addTo ds it) := by
  refine ⟨?_, ?_, ?_, ?_⟩
  · rw [addTo_files]
    split
    · exact h.nodup
    · rename_i hni
      refine List.nodup_append.2 ⟨h.nodup, by simp, ?_⟩
      intro a ha b hb
      simp at hb; subst hb
      intro hab; subst hab; exact hni ha
  · intro d hd
    rcases mem_addTo hd with h1 | ⟨d0, hd0, _, rfl⟩ | rfl
    · exact h.iov d h1
    · simp [h.iov d0 hd0]
    · simp
  · intro d hd x hx
    rcases mem_addTo hd with h1 | ⟨d0, hd0, hf0, rfl⟩ | rfl
    · exact h.file d h1 x hx
    · simp only [List.mem_append, List.mem_singleton] at hx
      rcases hx with hx | hx
      · exact h.file d0 hd0 x hx
      · subst hx; exact hf0.symm
    · simp at hx; subst hx; rfl
  · intro d hd x hx
    rcases mem_addTo hd with h1 | ⟨d0, hd0, hf0, rfl⟩ | rfl
    · exact h.ne d h1 x hx
    · simp only [List.mem_append, List.mem_singleton] at hx
      rcases hx with hx | hx
      · exact h.ne d0 hd0 x hx
      · subst hx; exact hne
    · simp at hx; subst hx; exact hne

theorem procSeg_spec : ∀ (seg : List Item) (ds : List Dest), DOk ds →
    (∀ it ∈ seg, it.size ≠ 0 → it.iov ≠ []) →
    DOk (procSeg ds seg).1 ∧
    (∀ f, itemsOf (procSeg ds seg).1 f = itemsOf ds f ++ (segProcessed seg).filter (·.file = f)) ∧
    (procSeg ds seg).2 = seg.any (·.size == 0)
  | [], ds, h, _ => by simp [procSeg, segProcessed, h]
  | it :: rest, ds, h, hne => by
    unfold procSeg segProcessed
    by_cases h0 : it.size = 0
    · simp [h0, h]
    · have hit : it.iov ≠ [] := hne it (by simp) h0
      have ih := procSeg_spec rest (addTo ds it) (addTo_DOk h it hit) (fun x hx => hne x (by simp [hx]))
      simp only [h0, if_false]
      refine ⟨ih.1, ?_, ?_⟩
      · intro f
        rw [ih.2.1 f, addTo_itemsOf h.nodup it f]
        by_cases hf : it.file = f <;> simp [hf]
      · rw [ih.2.2]; simp [h0]

/-- One `write_use_plain_writev`: the calls concatenate to the scatter lists of whole entries of
this file, each call is non-empty and at most `IOV_MAX` long. -/
structure FlushOk (x : Flush) : Prop where
  cat : x.calls.flatten = x.items.flatMap (·.iov)
  calls : ∀ c ∈ x.calls, c ≠ [] ∧ c.length ≤ iovMax
  ne : x.items ≠ []
  file : ∀ it ∈ x.items, it.file = x.file

theorem flatMap_eq_nil_of_ne {l : List Item} (h : l.flatMap (·.iov) = []) (hne : ∀ it ∈ l, it.iov ≠ []) : l = [] := by
  cases l with
  | nil => rfl
  | cons a l =>
    simp only [List.flatMap_cons, List.append_eq_nil_iff] at h
    exact absurd h.1 (hne a (by simp))

theorem flushAll_spec : ∀ (ds : List Dest) (fds : List Nat), DOk ds →
    (∀ d ∈ (flushAll ds fds).1, d.iov = [] ∧ d.items = []) ∧
    (flushAll ds fds).1.map (·.file) = ds.map (·.file) ∧
    (∀ f, ((flushAll ds fds).2.1.filter (·.file = f)).flatMap (·.items) = itemsOf ds f) ∧
    (∀ x ∈ (flushAll ds fds).2.1, FlushOk x) ∧
    (flushAll ds fds).2.2 = (flushAll ds fds).2.1.flatMap (fun fl => fl.calls.flatten.map Prod.fst)
  | [], fds, _ => by simp [flushAll, itemsOf]
  | d :: ds, fds, h => by
    have hds : DOk ds := ⟨(List.nodup_cons.1 (by simpa using h.nodup)).2, fun x hx => h.iov x (by simp [hx]),
      fun x hx => h.file x (by simp [hx]), fun x hx => h.ne x (by simp [hx])⟩
    have ih := flushAll_spec ds fds.tail hds
    unfold flushAll
    by_cases he : d.iov = []
    · have hitems : d.items = [] :=
        flatMap_eq_nil_of_ne (by rw [← h.iov d (by simp)]; exact he) (h.ne d (by simp))
      simp only [he, if_true]
      refine ⟨?_, by simp [ih.2.1], ?_, ih.2.2.2.1, ih.2.2.2.2⟩
      · intro x hx
        simp only [List.mem_cons] at hx
        rcases hx with rfl | hx
        · exact ⟨he, hitems⟩
        · exact ih.1 x hx
      · intro f
        rw [ih.2.2.1 f]
        by_cases hf : d.file = f <;> simp [itemsOf, hf, hitems]
    · simp only [he, if_false]
      have hch := chunks_spec iovMax_pos d.iov.length d.iov (Nat.le_refl _)
      refine ⟨?_, by simp [ih.2.1], ?_, ?_, ?_⟩
      · intro x hx
        simp only [List.mem_cons] at hx
        rcases hx with rfl | hx
        · exact ⟨rfl, rfl⟩
        · exact ih.1 x hx
      · intro f
        by_cases hf : d.file = f
        · simp only [List.filter_cons, hf, decide_true, if_true, List.flatMap_cons, ih.2.2.1 f, itemsOf]
        · simp only [List.filter_cons, hf, decide_false, Bool.false_eq_true, if_false, ih.2.2.1 f, itemsOf]
      · intro x hx
        simp only [List.mem_cons] at hx
        rcases hx with rfl | hx
        · refine ⟨by rw [hch.1]; exact h.iov d (by simp), hch.2, ?_, h.file d (by simp)⟩
          intro h0
          apply he
          have h0' : d.items = [] := h0
          rw [h.iov d (by simp), h0']; rfl
        · exact ih.2.2.2.1 x hx
      · simp only [List.flatMap_cons, hch.1, ih.2.2.2.2]


/-! ### Pages: grouping by destination keeps the multiset -/

/-- Pages named by the scatter lists of a list of entries. -/
def pagesOf (l : List Item) : List Nat := l.flatMap (fun it => it.iov.map Prod.fst)

theorem addTo_perm (ds : List Dest) (it : Item) :
    ((addTo ds it).flatMap (·.iov)).Perm (ds.flatMap (·.iov) ++ it.iov) := by
  induction ds with
  | nil => simp [addTo]
  | cons d ds ih =>
    unfold addTo
    by_cases h : d.file = it.file
    · simp only [h, if_true, List.flatMap_cons]
      refine List.perm_iff_count.2 (fun x => ?_)
      simp only [List.count_append]; omega
    · simp only [h, if_false, List.flatMap_cons]
      refine List.perm_iff_count.2 (fun x => ?_)
      have := List.perm_iff_count.1 ih x
      simp only [List.count_append] at this ⊢; omega

theorem procSeg_perm : ∀ (seg : List Item) (ds : List Dest),
    ((procSeg ds seg).1.flatMap (·.iov)).Perm (ds.flatMap (·.iov) ++ (segProcessed seg).flatMap (·.iov))
  | [], ds => by simp [procSeg, segProcessed]
  | it :: rest, ds => by
    unfold procSeg segProcessed
    by_cases h0 : it.size = 0
    · simp [h0]
    · simp only [h0, if_false, List.flatMap_cons]
      refine (procSeg_perm rest (addTo ds it)).trans ?_
      refine List.perm_iff_count.2 (fun x => ?_)
      have := List.perm_iff_count.1 (addTo_perm ds it) x
      simp only [List.count_append] at this ⊢; omega

theorem flushAll_freed : ∀ (ds : List Dest) (fds : List Nat),
    (flushAll ds fds).2.2 = (ds.flatMap (·.iov)).map Prod.fst
  | [], _ => by simp [flushAll]
  | d :: ds, fds => by
    have ih := flushAll_freed ds fds.tail
    unfold flushAll
    by_cases he : d.iov = []
    · simp [he, ih]
    · simp [he, ih]

theorem flatMap_iov_idle {ds : List Dest} (h : ∀ d ∈ ds, d.iov = [] ∧ d.items = []) : ds.flatMap (·.iov) = [] := by
  induction ds with
  | nil => rfl
  | cons d ds ih => simp [(h d (by simp)).1, ih (fun x hx => h x (by simp [hx]))]

theorem pagesOf_eq (l : List Item) : pagesOf l = (l.flatMap (·.iov)).map Prod.fst := by
  induction l with
  | nil => rfl
  | cons a l ih => simp [pagesOf, List.flatMap_cons] at ih ⊢; rw [ih]

/-! ### Segments and the stop marker -/

def nzs (it : Item) : Bool := it.size != 0

theorem segProcessed_all {seg : List Item} (h : ∀ it ∈ seg, it.size ≠ 0) : segProcessed seg = seg := by
  induction seg with
  | nil => rfl
  | cons a l ih =>
    have ha : a.size ≠ 0 := h a (by simp)
    simp [segProcessed, ha, ih (fun x hx => h x (by simp [hx]))]

theorem segProcessed_split {seg : List Item} (h : seg.any (·.size == 0) = true) :
    ∃ a mk b, seg = a ++ mk :: b ∧ mk.size = 0 ∧ (∀ it ∈ a, it.size ≠ 0) ∧ segProcessed seg = a := by
  induction seg with
  | nil => simp at h
  | cons x l ih =>
    by_cases hx : x.size = 0
    · exact ⟨[], x, l, rfl, hx, by simp, by simp [segProcessed, hx]⟩
    · have hl : l.any (·.size == 0) = true := by
        simp only [List.any_cons, Bool.or_eq_true] at h
        rcases h with h | h
        · simp at h; exact absurd h hx
        · exact h
      obtain ⟨a, mk, b, h1, h2, h3, h4⟩ := ih hl
      refine ⟨x :: a, mk, b, by simp [h1], h2, ?_, by simp [segProcessed, hx, h4]⟩
      intro it hit
      simp only [List.mem_cons] at hit
      rcases hit with rfl | hit
      · exact hx
      · exact h3 it hit

theorem segProcessed_sublist (seg : List Item) : (segProcessed seg).Sublist seg := by
  induction seg with
  | nil => exact List.Sublist.slnil
  | cons x l ih =>
    unfold segProcessed
    split
    · exact List.nil_sublist _
    · exact ih.cons_cons x

theorem any_false_all {seg : List Item} (h : seg.any (·.size == 0) = false) : ∀ it ∈ seg, it.size ≠ 0 := by
  intro it hit h0
  have := List.any_eq_false.1 h it hit
  simp [h0] at this

/-! ### The invariant of reachable states -/

/-- A well-formed event: user entries are not empty (a zero-size entry is the stop marker and outside
the stated domain; a non-empty entry has a non-empty scatter list, part A). -/
def Ev.WF : Ev → Prop
  | .reserve _ _ size iov => size ≠ 0 ∧ iov ≠ []
  | _ => True

/-- Same thread ⇒ ticket order = program order. -/
def ThreadOrder (a b : Item) : Prop := a.size ≠ 0 → b.size ≠ 0 → a.tid = b.tid → a.seq < b.seq

structure AInv (s : State) : Prop where
  dnodup : (s.dests.map (·.file)).Nodup
  idle : ∀ d ∈ s.dests, d.iov = [] ∧ d.items = []
  hist : s.hist = s.consumed ++ s.queue.map (·.item)
  wf : ∀ it ∈ s.hist, it.size ≠ 0 → it.iov ≠ []
  outItems : ∀ f, (s.out.filter (·.file = f)).flatMap (·.items) = s.processed.filter (·.file = f)
  flushOk : ∀ x ∈ s.out, FlushOk x
  freed : s.freed = s.out.flatMap (fun fl => fl.calls.flatten.map Prod.fst)
  live : s.exited = false → s.processed = s.consumed ∧ ∀ it ∈ s.consumed, it.size ≠ 0
  done : s.exited = true → ∃ pre mk after post, s.consumed = pre ++ mk :: after ∧ mk.size = 0 ∧
    (∀ it ∈ pre, it.size ≠ 0) ∧ s.processed = pre ++ post ∧ post.Sublist after
  order : s.hist.Pairwise ThreadOrder
  seqs : ∀ it ∈ s.hist, it.size ≠ 0 → it.seq < countOf s.nextSeq it.tid
  freedPerm : s.freed.Perm (pagesOf s.processed)

theorem AInv.dok {s : State} (h : AInv s) : DOk s.dests :=
  ⟨h.dnodup, fun d hd => by simp [(h.idle d hd).1, (h.idle d hd).2],
    fun d hd it hit => by simp [(h.idle d hd).2] at hit, fun d hd it hit => by simp [(h.idle d hd).2] at hit⟩

theorem itemsOf_idle {ds : List Dest} (h : ∀ d ∈ ds, d.iov = [] ∧ d.items = []) (f : Nat) : itemsOf ds f = [] := by
  induction ds with
  | nil => rfl
  | cons d ds ih =>
    have hd := (h d (by simp)).2
    have := ih (fun x hx => h x (by simp [hx]))
    by_cases hf : d.file = f <;> simp_all [itemsOf]

theorem countOf_bump (m : Nat → Nat) (t t' : Nat) :
    countOf (bump m t) t' = if t' = t then countOf m t + 1 else countOf m t' := rfl

theorem init_AInv (capacity : Nat) : AInv (init capacity) := by
  refine ⟨by simp [init], by simp [init], rfl, by simp [init], by simp [init], by simp [init], rfl,
    fun _ => ⟨rfl, by simp [init]⟩, fun h => by simp [init] at h, by simp [init], by simp [init],
    by simp [init, pagesOf]⟩

theorem session_AInv (capacity : Nat) (files : List Nat) (hn : files.Nodup) : AInv (session capacity files) := by
  refine ⟨?_, ?_, rfl, by simp [session], by simp [session], by simp [session], rfl,
    fun _ => ⟨rfl, by simp [session]⟩, fun h => by simp [session] at h, by simp [session], by simp [session],
    by simp [session, pagesOf]⟩
  · simpa [session, List.map_map, Function.comp_def] using hn
  · intro d hd
    simp only [session, List.mem_map] at hd
    obtain ⟨f, _, rfl⟩ := hd
    exact ⟨rfl, rfl⟩

/-- Between rounds every destination is empty, so the state a later `initialize()` starts from is
`session capacity (files of the existing destinations)`. -/
theorem AInv.dests_idle {s : State} (h : AInv s) :
    s.dests = (s.dests.map (·.file)).map (fun f => (⟨f, [], []⟩ : Dest)) ∧ (s.dests.map (·.file)).Nodup := by
  refine ⟨?_, h.dnodup⟩
  rw [List.map_map]
  conv => lhs; rw [← List.map_id s.dests]
  apply List.map_congr_left
  intro d hd
  obtain ⟨h1, h2⟩ := h.idle d hd
  cases d
  simp_all

theorem pairwise_snoc {l : List Item} {x : Item} (h : l.Pairwise ThreadOrder) (hx : ∀ a ∈ l, ThreadOrder a x) :
    (l ++ [x]).Pairwise ThreadOrder := by
  refine List.pairwise_append.2 ⟨h, by simp, ?_⟩
  intro a ha b hb
  simp at hb; subst hb; exact hx a ha

theorem step_reserve {s : State} (h : AInv s) (tid file size : Nat) (iov : Iov) (hwf : size ≠ 0 ∧ iov ≠ []) :
    AInv { s with queue := s.queue ++ [⟨⟨tid, countOf s.nextSeq tid, file, size, iov⟩, false⟩],
                  hist := s.hist ++ [⟨tid, countOf s.nextSeq tid, file, size, iov⟩],
                  nextSeq := bump s.nextSeq tid } := by
  refine ⟨h.dnodup, h.idle, ?_, ?_, h.outItems, h.flushOk, h.freed, h.live, h.done, ?_, ?_, h.freedPerm⟩
  · simp [h.hist, List.append_assoc]
  · intro it hit
    simp only [List.mem_append, List.mem_singleton] at hit
    rcases hit with hit | rfl
    · exact h.wf it hit
    · intro _; exact hwf.2
  · refine pairwise_snoc h.order ?_
    intro a ha hsa _ htid
    have := h.seqs a ha hsa
    simp only at htid ⊢
    rw [htid] at this; exact this
  · intro it hit hs
    simp only [List.mem_append, List.mem_singleton] at hit
    rw [countOf_bump]
    rcases hit with hit | rfl
    · have := h.seqs it hit hs
      split
      · rename_i heq; rw [heq] at this; omega
      · exact this
    · simp

theorem step_close {s : State} (h : AInv s) :
    AInv { s with queue := s.queue ++ [⟨⟨0, 0, 0, 0, []⟩, false⟩], hist := s.hist ++ [⟨0, 0, 0, 0, []⟩],
                  closed := true } := by
  refine ⟨h.dnodup, h.idle, ?_, ?_, h.outItems, h.flushOk, h.freed, h.live, h.done, ?_, ?_, h.freedPerm⟩
  · simp [h.hist, List.append_assoc]
  · intro it hit
    simp only [List.mem_append, List.mem_singleton] at hit
    rcases hit with hit | rfl
    · exact h.wf it hit
    · intro hh; exact absurd rfl hh
  · refine pairwise_snoc h.order ?_
    intro a _ _ hb; exact absurd rfl hb
  · intro it hit hs
    simp only [List.mem_append, List.mem_singleton] at hit
    rcases hit with hit | rfl
    · exact h.seqs it hit hs
    · exact absurd rfl hs

theorem step_publish {s : State} (h : AInv s) (idx : Nat) (sl : Slot) (hsl : s.queue[idx]? = some sl) :
    AInv { s with queue := s.queue.set idx { sl with ready := true } } := by
  refine ⟨h.dnodup, h.idle, ?_, h.wf, h.outItems, h.flushOk, h.freed, h.live, h.done, h.order, h.seqs, h.freedPerm⟩
  have hlt : idx < s.queue.length := by
    rcases Nat.lt_or_ge idx s.queue.length with h1 | h1
    · exact h1
    · rw [List.getElem?_eq_none h1] at hsl; exact absurd hsl (by simp)
  have hget : s.queue[idx] = sl := by
    have := List.getElem?_eq_getElem hlt
    rw [this] at hsl; exact Option.some.inj hsl
  have : (s.queue.set idx { sl with ready := true }).map (·.item) = s.queue.map (·.item) := by
    rw [List.map_set]
    apply List.ext_getElem (by simp)
    intro i h1 h2
    by_cases hi : idx = i
    · subst hi; simp [hget]
    · simp [List.getElem_set_ne hi]
  simp only [this]
  exact h.hist

theorem step_round {s : State} (h : AInv s) (n1 n2 : Nat) (fds : List Nat) (hex : s.exited = false) :
    AInv { s with
      queue := s.queue.drop (n1 + n2),
      dests := (flushAll (procSeg (procSeg s.dests ((s.queue.take n1).map (·.item))).1
                  (((s.queue.drop n1).take n2).map (·.item))).1 fds).1,
      out := s.out ++ (flushAll (procSeg (procSeg s.dests ((s.queue.take n1).map (·.item))).1
                  (((s.queue.drop n1).take n2).map (·.item))).1 fds).2.1,
      freed := s.freed ++ (flushAll (procSeg (procSeg s.dests ((s.queue.take n1).map (·.item))).1
                  (((s.queue.drop n1).take n2).map (·.item))).1 fds).2.2,
      exited := (procSeg s.dests ((s.queue.take n1).map (·.item))).2 ||
                (procSeg (procSeg s.dests ((s.queue.take n1).map (·.item))).1
                  (((s.queue.drop n1).take n2).map (·.item))).2,
      consumed := s.consumed ++ (s.queue.take n1).map (·.item) ++ ((s.queue.drop n1).take n2).map (·.item),
      processed := s.processed ++ segProcessed ((s.queue.take n1).map (·.item)) ++
                    segProcessed (((s.queue.drop n1).take n2).map (·.item)) } := by
  generalize hseg1 : (s.queue.take n1).map (·.item) = seg1
  generalize hseg2 : ((s.queue.drop n1).take n2).map (·.item) = seg2
  have hsegs : seg1 ++ seg2 ++ (s.queue.drop (n1 + n2)).map (·.item) = s.queue.map (·.item) := by
    rw [← hseg1, ← hseg2, ← List.map_append, ← List.map_append, ← List.take_add, List.take_append_drop]
  have hmem1 : ∀ it ∈ seg1, it ∈ s.hist := by
    intro it hit
    rw [h.hist, ← hsegs]; simp [hit]
  have hmem2 : ∀ it ∈ seg2, it ∈ s.hist := by
    intro it hit
    rw [h.hist, ← hsegs]; simp [hit]
  have P1 := procSeg_spec seg1 s.dests h.dok (fun it hit => h.wf it (hmem1 it hit))
  have P2 := procSeg_spec seg2 (procSeg s.dests seg1).1 P1.1 (fun it hit => h.wf it (hmem2 it hit))
  have P3 := flushAll_spec (procSeg (procSeg s.dests seg1).1 seg2).1 fds P2.1
  have hlive := h.live hex
  refine ⟨?_, P3.1, ?_, h.wf, ?_, ?_, ?_, ?_, ?_, h.order, h.seqs, ?_⟩
  · show ((flushAll _ fds).1.map (·.file)).Nodup
    rw [P3.2.1]; exact P2.1.nodup
  · show s.hist = (s.consumed ++ seg1 ++ seg2) ++ (s.queue.drop (n1 + n2)).map (·.item)
    rw [h.hist, ← hsegs]; simp [List.append_assoc]
  · intro f
    show ((s.out ++ (flushAll _ fds).2.1).filter (·.file = f)).flatMap (·.items) = _
    rw [List.filter_append, List.flatMap_append, h.outItems f, P3.2.2.1 f, P2.2.1 f, P1.2.1 f,
      itemsOf_idle h.idle f]
    simp [List.filter_append]
  · intro x hx
    have hx' : x ∈ s.out ++ (flushAll (procSeg (procSeg s.dests seg1).1 seg2).1 fds).2.1 := hx
    rcases List.mem_append.1 hx' with hx | hx
    · exact h.flushOk x hx
    · exact P3.2.2.2.1 x hx
  · show s.freed ++ (flushAll _ fds).2.2 = (s.out ++ (flushAll _ fds).2.1).flatMap _
    rw [List.flatMap_append, h.freed, P3.2.2.2.2]
  · intro hne
    have hne' : ((procSeg s.dests seg1).2 || (procSeg (procSeg s.dests seg1).1 seg2).2) = false := hne
    rw [P1.2.2, P2.2.2, Bool.or_eq_false_iff] at hne'
    have a1 := any_false_all hne'.1
    have a2 := any_false_all hne'.2
    refine ⟨?_, ?_⟩
    · show s.processed ++ segProcessed seg1 ++ segProcessed seg2 = s.consumed ++ seg1 ++ seg2
      rw [segProcessed_all a1, segProcessed_all a2, hlive.1]
    · intro it hit
      have hit' : it ∈ s.consumed ++ seg1 ++ seg2 := hit
      simp only [List.mem_append] at hit'
      rcases hit' with (hit' | hit') | hit'
      · exact hlive.2 it hit'
      · exact a1 it hit'
      · exact a2 it hit'
  · intro hst
    have hst' : ((procSeg s.dests seg1).2 || (procSeg (procSeg s.dests seg1).1 seg2).2) = true := hst
    rw [P1.2.2, P2.2.2] at hst'
    show ∃ pre mk after post, s.consumed ++ seg1 ++ seg2 = pre ++ mk :: after ∧ mk.size = 0 ∧
      (∀ it ∈ pre, it.size ≠ 0) ∧ s.processed ++ segProcessed seg1 ++ segProcessed seg2 = pre ++ post ∧
      post.Sublist after
    by_cases hs1 : seg1.any (·.size == 0) = true
    · obtain ⟨a, mk, b, e1, e2, e3, e4⟩ := segProcessed_split hs1
      refine ⟨s.consumed ++ a, mk, b ++ seg2, segProcessed seg2, ?_, e2, ?_, ?_, ?_⟩
      · rw [e1]; simp [List.append_assoc]
      · intro it hit
        rcases List.mem_append.1 hit with hit | hit
        · exact hlive.2 it hit
        · exact e3 it hit
      · rw [e4, hlive.1]
      · exact List.sublist_append_of_sublist_right (segProcessed_sublist seg2)
    · have hs1' : seg1.any (·.size == 0) = false := by simpa using hs1
      have hs2 : seg2.any (·.size == 0) = true := by
        rw [hs1', Bool.false_or] at hst'; exact hst'
      have a1 := any_false_all hs1'
      obtain ⟨a, mk, b, e1, e2, e3, e4⟩ := segProcessed_split hs2
      refine ⟨s.consumed ++ seg1 ++ a, mk, b, [], ?_, e2, ?_, ?_, List.nil_sublist _⟩
      · rw [e1]; simp [List.append_assoc]
      · intro it hit
        simp only [List.mem_append] at hit
        rcases hit with (hit | hit) | hit
        · exact hlive.2 it hit
        · exact a1 it hit
        · exact e3 it hit
      · rw [segProcessed_all a1, e4, hlive.1]; simp
  · show (s.freed ++ (flushAll _ fds).2.2).Perm (pagesOf (s.processed ++ segProcessed seg1 ++ segProcessed seg2))
    rw [flushAll_freed, pagesOf_eq]
    have q1 := procSeg_perm seg1 s.dests
    have q2 := procSeg_perm seg2 (procSeg s.dests seg1).1
    rw [flatMap_iov_idle h.idle, List.nil_append] at q1
    have q3 : ((procSeg (procSeg s.dests seg1).1 seg2).1.flatMap (·.iov)).Perm
        ((segProcessed seg1).flatMap (·.iov) ++ (segProcessed seg2).flatMap (·.iov)) :=
      q2.trans (List.Perm.append_right _ q1)
    have q4 := q3.map Prod.fst
    have q5 := h.freedPerm
    rw [pagesOf_eq] at q5
    simp only [List.flatMap_append, List.map_append, List.append_assoc]
    exact List.Perm.append q5 (by simpa using q4)

theorem step_AInv {s s' : State} (h : AInv s) (e : Ev) (hwf : e.WF) (hs : step s e = some s') : AInv s' := by
  cases e with
  | reserve tid file size iov =>
    simp only [step, Option.some.injEq] at hs
    subst hs
    exact step_reserve h tid file size iov hwf
  | publish idx =>
    simp only [step] at hs
    split at hs
    · rename_i sl hsl
      split at hs
      · exact absurd hs (by simp)
      · simp only [Option.some.injEq] at hs
        subst hs
        exact step_publish h idx sl hsl
    · exact absurd hs (by simp)
  | close =>
    simp only [step] at hs
    split at hs
    · exact absurd hs (by simp)
    · simp only [Option.some.injEq] at hs
      subst hs
      exact step_close h
  | round n1 n2 fds =>
    simp only [step] at hs
    split at hs
    · exact absurd hs (by simp)
    · rename_i hex
      split at hs
      · exact absurd hs (by simp)
      · split at hs
        · exact absurd hs (by simp)
        · split at hs
          · exact absurd hs (by simp)
          · split at hs
            · exact absurd hs (by simp)
            · simp only [Option.some.injEq] at hs
              subst hs
              exact step_round h n1 n2 fds (by simpa using hex)

theorem run_AInv : ∀ (evs : List Ev) {s s' : State}, AInv s → (∀ e ∈ evs, e.WF) → run s evs = some s' → AInv s'
  | [], s, s', h, _, hr => by
    simp only [run, Option.some.injEq] at hr
    subst hr; exact h
  | e :: es, s, s', h, hwf, hr => by
    simp only [run] at hr
    split at hr
    · rename_i s1 hs1
      exact run_AInv es (step_AInv h e (hwf e (by simp)) hs1) (fun x hx => hwf x (by simp [hx])) hr
    · exact absurd hr (by simp)

/-! ### Reading the invariant at exit -/

theorem flushes_cat : ∀ (l : List Flush), (∀ x ∈ l, FlushOk x) →
    (l.flatMap (·.calls)).flatten = (l.flatMap (·.items)).flatMap (·.iov)
  | [], _ => rfl
  | x :: l, h => by
    have ih := flushes_cat l (fun y hy => h y (by simp [hy]))
    simp only [List.flatMap_cons, List.flatten_append, List.flatMap_append, ih, (h x (by simp)).cat]

theorem takeWhile_marker {pre after : List Item} {mk : Item} (hpre : ∀ it ∈ pre, it.size ≠ 0) (hmk : mk.size = 0)
    (rest : List Item) :
    (pre ++ mk :: after ++ rest).takeWhile nzs = pre ∧ ((pre ++ mk :: after ++ rest).dropWhile nzs).drop 1 = after ++ rest := by
  have hp : ∀ a ∈ pre, nzs a = true := by
    intro a ha; simp [nzs, hpre a ha]
  have hm : nzs mk = false := by simp [nzs, hmk]
  rw [List.append_assoc, List.takeWhile_append_of_pos hp, List.dropWhile_append_of_pos hp]
  simp [hm]

theorem AInv.exit_spec {s : State} (h : AInv s) (hexit : s.exited = true) :
    ∃ post, s.processed = s.hist.takeWhile nzs ++ post ∧ post.Sublist ((s.hist.dropWhile nzs).drop 1) := by
  obtain ⟨pre, mk, after, post, e1, e2, e3, e4, e5⟩ := h.done hexit
  have := takeWhile_marker e3 e2 (after := after) (s.queue.map (·.item))
  rw [h.hist, e1, this.1, this.2]
  exact ⟨post, e4, List.Sublist.trans e5 (List.sublist_append_left _ _)⟩

/-- The ticket order recorded in `hist` is the order of the `reserve` / `close` events. -/
def evItem : Ev → Option (Nat × Nat × Nat × Iov)
  | .reserve tid file size iov => some (tid, file, size, iov)
  | .close => some (0, 0, 0, [])
  | _ => none

def itemKey (it : Item) : Nat × Nat × Nat × Iov := (it.tid, it.file, it.size, it.iov)

theorem step_hist {s s' : State} (e : Ev) (hs : step s e = some s') :
    s'.hist.map itemKey = s.hist.map itemKey ++ (evItem e).toList := by
  cases e with
  | reserve tid file size iov =>
    simp only [step, Option.some.injEq] at hs
    subst hs; simp [evItem, itemKey]
  | publish idx =>
    simp only [step] at hs
    split at hs
    · split at hs
      · exact absurd hs (by simp)
      · simp only [Option.some.injEq] at hs
        subst hs; simp [evItem]
    · exact absurd hs (by simp)
  | close =>
    simp only [step] at hs
    split at hs
    · exact absurd hs (by simp)
    · simp only [Option.some.injEq] at hs
      subst hs; simp [evItem, itemKey]
  | round n1 n2 fds =>
    simp only [step] at hs
    split at hs
    · exact absurd hs (by simp)
    · split at hs
      · exact absurd hs (by simp)
      · split at hs
        · exact absurd hs (by simp)
        · split at hs
          · exact absurd hs (by simp)
          · split at hs
            · exact absurd hs (by simp)
            · simp only [Option.some.injEq] at hs
              subst hs; simp [evItem]

theorem run_hist : ∀ (evs : List Ev) {s s' : State}, run s evs = some s' →
    s'.hist.map itemKey = s.hist.map itemKey ++ evs.filterMap evItem
  | [], s, s', hr => by
    simp only [run, Option.some.injEq] at hr
    subst hr; simp
  | e :: es, s, s', hr => by
    simp only [run] at hr
    split at hr
    · rename_i s1 hs1
      rw [run_hist es hr, step_hist e hs1]
      cases h : evItem e <;> simp [h]
    · exact absurd hr (by simp)

theorem step_batch {s s' : State} (e : Ev) (hs : step s e = some s') : s'.batch = s.batch := by
  cases e with
  | reserve tid file size iov =>
    simp only [step, Option.some.injEq] at hs
    subst hs; rfl
  | publish idx =>
    simp only [step] at hs
    split at hs
    · split at hs
      · exact absurd hs (by simp)
      · simp only [Option.some.injEq] at hs
        subst hs; rfl
    · exact absurd hs (by simp)
  | close =>
    simp only [step] at hs
    split at hs
    · exact absurd hs (by simp)
    · simp only [Option.some.injEq] at hs
      subst hs; rfl
  | round n1 n2 fds =>
    simp only [step] at hs
    split at hs
    · exact absurd hs (by simp)
    · split at hs
      · exact absurd hs (by simp)
      · split at hs
        · exact absurd hs (by simp)
        · split at hs
          · exact absurd hs (by simp)
          · split at hs
            · exact absurd hs (by simp)
            · simp only [Option.some.injEq] at hs
              subst hs; rfl

theorem run_batch : ∀ (evs : List Ev) {s s' : State}, run s evs = some s' → s'.batch = s.batch
  | [], s, s', hr => by
    simp only [run, Option.some.injEq] at hr
    subst hr; rfl
  | e :: es, s, s', hr => by
    simp only [run] at hr
    split at hr
    · rename_i s1 hs1
      rw [run_batch es hr, step_batch e hs1]
    · exact absurd hr (by simp)

end Babylon.Log.App
