/-
  Abstract, event-level model of `AsyncFileAppender`
  (src/babylon/logging/async_file_appender.{h,cpp}).

  What is abstracted
  * The `ConcurrentBoundedQueue` is its specification (property C01): a list of items in ticket
    order; `write()` is two events — `reserve` (the `fetch_add` on the push index: the item takes its
    place in the order) and `publish` (the slot becomes visible) — and the consumer can only pop a
    prefix of *published* items (`try_pop_n` stops at the first slot whose version is not ready).
  * A `LogEntry` is its size field plus the scatter list `append_to_iovec` yields for it (part A).
  * `FileObject::check_and_get_file_descriptor` is an oracle: every round the environment supplies
    one descriptor per destination (rotation = a different descriptor than last round).
  * `writev` writes all its iovecs, in order, to the descriptor (short writes / errors: not modelled;
    the code ignores the result).

  What follows the code
  * `close()`: pushes an item with `size = 0`; guarded by `joinable()` (once).
  * `keep_writing` (one `round` = one iteration of its `do … while (!stop)` loop):
    `try_pop_n(callback, batch)` with `batch = min(UIO_MAXIOV, capacity)` may invoke the callback on
    two contiguous ring segments; the callback walks a segment, `break`s at the first `size == 0`
    item after setting `stop` (the rest of *that* segment is dropped), otherwise appends the entry's
    scatter list to `destination(item.file).iov`; then every destination, in creation order, gets its
    descriptor and, if its `iov` is not empty, `write_use_plain_writev`: `writev` in chunks of at most
    `IOV_MAX`, then all those pages to `deallocate`, then `iov.clear()`.
  * `destination(file)`: existing destination of that file object, else a new one at the end.

  Ghost fields (`tid`, `seq`, `Dest.items`, `Flush.items`, `hist`, `consumed`, `processed`) do not
  influence any step; they only let the theorems name entries.   Core Lean only.
-/
import Babylon.Log.Entry

namespace Babylon.Log.App
open Babylon.Gen.Log Babylon.Log

structure Item where
  tid : Nat            -- ghost: logging thread
  seq : Nat            -- ghost: index of this write in its thread's program order
  file : Nat           -- FileObject*
  size : Nat           -- entry.size (0: the stop marker)
  iov : Iov            -- entry.append_to_iovec(page_size)
  deriving DecidableEq, Repr

structure Slot where
  item : Item
  ready : Bool         -- published (slot version advanced by the producer)
  deriving DecidableEq, Repr

structure Dest where
  file : Nat
  iov : Iov
  items : List Item    -- ghost: the entries whose scatter lists make up `iov`
  deriving DecidableEq, Repr

/-- One execution of `write_use_plain_writev`. -/
structure Flush where
  file : Nat
  fd : Nat
  calls : List Iov     -- the `writev` calls, in order
  items : List Item    -- ghost
  deriving DecidableEq, Repr

structure State where
  batch : Nat                  -- min(UIO_MAXIOV, queue capacity)
  queue : List Slot := []      -- reserved, not yet popped; ticket order
  dests : List Dest := []      -- `_destinations`
  out : List Flush := []       -- everything written so far, in order
  freed : List Nat := []       -- pages handed to `deallocate`, in order
  closed : Bool := false       -- close() pushed its marker
  exited : Bool := false       -- keep_writing returned (close() can return from join)
  nextSeq : Nat → Nat := fun _ => 0  -- ghost: per thread, number of writes so far
  hist : List Item := []       -- ghost: every item ever reserved, ticket order
  consumed : List Item := []   -- ghost: items popped so far
  processed : List Item := []  -- ghost: entries whose scatter list reached a destination

def batchOf (capacity : Nat) : Nat := min uioMaxIov capacity

def init (capacity : Nat) : State := { batch := batchOf capacity }

/-- State right after `initialize()` of a later session of the same appender: `close()` leaves
`_destinations` (and the index cached in every `FileObject`) in place, so the destinations of the
file objects used so far, `files` in creation order, still exist, empty.  `init c = session c []`. -/
def session (capacity : Nat) (files : List Nat) : State :=
  { batch := batchOf capacity, dests := files.map (fun f => ⟨f, [], []⟩) }

/-- `destination(item.file)` followed by `append_to_iovec(…, dest.iov)`. -/
def addTo : List Dest → Item → List Dest
  | [], it => [⟨it.file, it.iov, [it]⟩]
  | d :: ds, it =>
    if d.file = it.file then { d with iov := d.iov ++ it.iov, items := d.items ++ [it] } :: ds
    else d :: addTo ds it

/-- The `try_pop_n` callback on one contiguous segment: `(destinations, stop)`. -/
def procSeg : List Dest → List Item → List Dest × Bool
  | ds, [] => (ds, false)
  | ds, it :: rest => if it.size = 0 then (ds, true) else procSeg (addTo ds it) rest

/-- The entries of a segment that reach a destination (ghost). -/
def segProcessed : List Item → List Item
  | [] => []
  | it :: rest => if it.size = 0 then [] else it :: segProcessed rest

/-- Cut a scatter list into `writev` calls of at most `n` elements (`fuel ≥ length` suffices). -/
def chunks (n : Nat) : Nat → Iov → List Iov
  | 0, _ => []
  | fuel + 1, l => if l = [] then [] else l.take n :: chunks n fuel (l.drop n)

/-- The `for (auto& dest : _destinations)` loop of one round. -/
def flushAll : List Dest → List Nat → List Dest × List Flush × List Nat
  | [], _ => ([], [], [])
  | d :: ds, fds =>
    let fd := fds.headD 0
    let (ds', fl, fr) := flushAll ds fds.tail
    if d.iov = [] then (d :: ds', fl, fr)
    else ({ d with iov := [], items := [] } :: ds',
          ⟨d.file, fd, chunks iovMax d.iov.length d.iov, d.items⟩ :: fl,
          d.iov.map Prod.fst ++ fr)

def countOf (m : Nat → Nat) (t : Nat) : Nat := m t

def bump (m : Nat → Nat) (t : Nat) : Nat → Nat := fun x => if x = t then m t + 1 else m x

inductive Ev
  | reserve (tid file size : Nat) (iov : Iov)   -- write(): ticket taken
  | publish (idx : Nat)                         -- write()/close(): slot `idx` of the queue published
  | close                                       -- close(): ticket for the stop marker taken
  | round (n1 n2 : Nat) (fds : List Nat)        -- one iteration of keep_writing
  deriving Repr

def allReady (q : List Slot) : Bool := q.all (·.ready)

/-- `none`: the event is not enabled in this state. -/
def step (s : State) : Ev → Option State
  | .reserve tid file size iov =>
    let it : Item := ⟨tid, countOf s.nextSeq tid, file, size, iov⟩
    some { s with queue := s.queue ++ [⟨it, false⟩], hist := s.hist ++ [it], nextSeq := bump s.nextSeq tid }
  | .publish idx =>
    match s.queue[idx]? with
    | some sl => if sl.ready then none else some { s with queue := s.queue.set idx { sl with ready := true } }
    | none => none
  | .close =>
    if s.closed then none else
    let it : Item := ⟨0, 0, 0, 0, []⟩
    some { s with queue := s.queue ++ [⟨it, false⟩], hist := s.hist ++ [it], closed := true }
  | .round n1 n2 fds =>
    if s.exited then none else
    if n1 + n2 > s.batch then none else
    if n1 + n2 > s.queue.length then none else
    if !allReady (s.queue.take (n1 + n2)) then none else
    let seg1 := ((s.queue.take n1).map (·.item))
    let seg2 := (((s.queue.drop n1).take n2).map (·.item))
    let (d1, stop1) := procSeg s.dests seg1
    let (d2, stop2) := procSeg d1 seg2
    if fds.length ≠ d2.length then none else
    let (d3, fl, fr) := flushAll d2 fds
    some { s with queue := s.queue.drop (n1 + n2), dests := d3, out := s.out ++ fl, freed := s.freed ++ fr,
                  exited := stop1 || stop2,
                  consumed := s.consumed ++ seg1 ++ seg2,
                  processed := s.processed ++ segProcessed seg1 ++ segProcessed seg2 }

def run : State → List Ev → Option State
  | s, [] => some s
  | s, e :: es => match step s e with
    | some s' => run s' es
    | none => none

/-- States reachable from `init capacity`. -/
def Reachable (capacity : Nat) (s : State) : Prop := ∃ evs, run (init capacity) evs = some s

/-- What file object `f` has received so far: the concatenation of all `writev` calls on it. -/
def written (s : State) (f : Nat) : Iov := ((s.out.filter (·.file = f)).flatMap (·.calls)).flatten

end Babylon.Log.App
