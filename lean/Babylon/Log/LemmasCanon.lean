/-
  Helper lemmas for the LogEntry model, part 4: the structural state after `end()` depends only on
  the page size, the allocator position and the *number* of bytes streamed — not on how the bytes
  were cut into `sputn` / `sputc` calls nor on where `sync()` was called.
-/
import Babylon.Log.LemmasStream

namespace Babylon.Log
open Babylon.Gen.Log

/-- The state with the pending byte count folded into `size` (what `sync()` produces). -/
def Buf.norm (s : Buf) : Buf := { s with size := s.size + (s.pptr - s.syncPt), syncPt := s.pptr }

theorem Buf.norm_norm (s : Buf) : s.norm.norm = s.norm := by
  simp [Buf.norm]

theorem Buf.putN_succ (s : Buf) : ∀ n, s.putN (n + 1) = (s.putN n).putc
  | 0 => rfl
  | n + 1 => by
    show (s.putc).putN (n + 1) = ((s.putc).putN n).putc
    exact Buf.putN_succ s.putc n

theorem norm_putc {s : Buf} (hf : s.fault = none) (hs : s.syncPt ≤ s.pptr) :
    s.putc.norm = s.norm.putc.norm := by
  have hf' : s.norm.fault = none := hf
  unfold Buf.putc
  simp only [hf, hf', Option.isSome_none, Bool.false_eq_true, if_false]
  have he : s.norm.epptr = s.epptr := rfl
  have hp : s.norm.pptr = s.pptr := rfl
  rw [he, hp]
  split
  · simp only [Buf.norm]
    congr 1
    omega
  · have hpre : s.norm.pre = s.pre := by
      simp only [Buf.pre, Buf.norm]
      congr 1
      omega
    have hnx : s.norm.nextId = s.nextId := rfl
    rw [overflow_eq hf hs, overflow_eq hf' (by simp [Buf.norm]), hpre, hnx]

theorem norm_sync {s : Buf} (hf : s.fault = none) (hs : s.syncPt ≤ s.pptr) : s.sync.norm = s.norm := by
  rw [sync_eq hf hs]
  exact Buf.norm_norm s

theorem St.ok {α} {s : Stream α} {ps a0 : Nat} {bs : List α} (h : St s ps a0 bs) :
    s.buf.fault = none ∧ s.buf.syncPt ≤ s.buf.pptr := by
  rcases h with ⟨_, rfl⟩ | ⟨F, c, T, hs, _⟩
  · simp [Stream.begin, Buf.begin]
  · exact ⟨hs.inv.nofault, hs.inv.sy⟩

theorem Stream.putc_buf {α} (s : Stream α) (b : α) : (s.putc b).buf = s.buf.putc := rfl

/-- The canonical stream: `k` unit characters written one by one. -/
def unitStream (ps a0 k : Nat) : Stream Unit := (List.replicate k ()).foldl Stream.putc (Stream.begin ps a0)

theorem unitStream_buf (ps a0 : Nat) : ∀ k, (unitStream ps a0 k).buf = (Buf.begin ps a0).putN k
  | 0 => rfl
  | k + 1 => by
    have : unitStream ps a0 (k + 1) = (unitStream ps a0 k).putc () := by
      simp [unitStream, List.replicate_succ', List.foldl_append]
    rw [this, Stream.putc_buf, unitStream_buf ps a0 k, Buf.putN_succ]

theorem unitStream_St (ps a0 k : Nat) (hfit : Fits ps k) :
    St (unitStream ps a0 k) ps a0 (List.replicate k ()) := by
  have := St.foldl_putc (List.replicate k ()) (St.begin (α := Unit) ps a0) (by simpa using hfit)
  simpa [unitStream] using this

theorem putN_ok (ps a0 k : Nat) (hfit : Fits ps k) :
    ((Buf.begin ps a0).putN k).fault = none ∧ ((Buf.begin ps a0).putN k).syncPt ≤ ((Buf.begin ps a0).putN k).pptr := by
  have := (unitStream_St ps a0 k hfit).ok
  rwa [unitStream_buf] at this

theorem canon_foldl {α} {ps a0 : Nat} : ∀ (l : List α) {s : Stream α} {bs : List α}, St s ps a0 bs →
    Fits ps (bs.length + l.length) → s.buf.norm = ((Buf.begin ps a0).putN bs.length).norm →
    (l.foldl Stream.putc s).buf.norm = ((Buf.begin ps a0).putN (bs.length + l.length)).norm
  | [], s, bs, _, _, h => by simpa using h
  | b :: l, s, bs, hst, hfit, h => by
    have h1 := hst.putc b (hfit.mono (by simp))
    have hok := hst.ok
    have hok2 := putN_ok ps a0 bs.length (hfit.mono (by simp))
    have hstep : (s.putc b).buf.norm = ((Buf.begin ps a0).putN (bs ++ [b]).length).norm := by
      rw [Stream.putc_buf, norm_putc hok.1 hok.2, h, ← norm_putc hok2.1 hok2.2]
      simp [Buf.putN_succ]
    have := canon_foldl l h1 (by simpa [Nat.add_assoc, Nat.add_comm 1] using hfit) hstep
    simpa [Nat.add_assoc, Nat.add_comm 1] using this

theorem canon_run {α} {ps a0 : Nat} : ∀ (ops : List (Op α)) {s : Stream α} {bs : List α}, St s ps a0 bs →
    Fits ps (bs.length + (bytesOf ops).length) → s.buf.norm = ((Buf.begin ps a0).putN bs.length).norm →
    (s.run ops).buf.norm = ((Buf.begin ps a0).putN (bs.length + (bytesOf ops).length)).norm
  | [], s, bs, _, _, h => by simpa [Stream.run, bytesOf] using h
  | op :: ops, s, bs, hst, hfit, h => by
    have hb : bytesOf (op :: ops) = op.bytes ++ bytesOf ops := by simp [bytesOf]
    rw [hb] at hfit ⊢
    have h1 := hst.step op (hfit.mono (by simp))
    have hstep : (s.step op).buf.norm = ((Buf.begin ps a0).putN (bs ++ op.bytes).length).norm := by
      cases op with
      | sputn l =>
        simp only [Stream.step, Op.bytes, Stream.sputn_eq_foldl]
        have := canon_foldl l hst (hfit.mono (by simp [Op.bytes])) h
        simpa using this
      | sputc b =>
        have := canon_foldl [b] hst (hfit.mono (by simp [Op.bytes])) h
        simpa [Stream.step, Op.bytes] using this
      | sync =>
        have hok := hst.ok
        simp only [Stream.step, Op.bytes, List.append_nil]
        rw [norm_sync hok.1 hok.2]
        exact h
    have := canon_run ops h1 (by simpa [Nat.add_assoc] using hfit) hstep
    simpa [Stream.run, Nat.add_assoc] using this

end Babylon.Log
