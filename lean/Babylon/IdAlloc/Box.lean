/-
  Atomic-granularity model of `DepositBox<T>` (src/babylon/concurrent/deposit_box.h) on top of the
  `IdAllocator<uint32_t>` model (`Babylon/IdAlloc/Model.lean`, whose `stepThread` is reused for
  the embedded `_slot_id_allocator`):

    emplace(x)          id = allocate();  slot.version.store(id.version, relaxed);  slot.object.emplace(x);  return id
    take_released(id)   slot.version.compare_exchange_strong(id.version, id.version + 1, relaxed)  → &object | nullptr
    finish_released(id) deallocate(id.value)

  One step = one atomic operation of the real code (the construction of the object, plain writes, is
  one more step that ends `emplace`).  Client contract: `take` is called with ids returned by
  `emplace`; `finish_released(id)` is called once, by the thread whose take of `id` succeeded.
  Ghost: `issued` (ids returned by emplace, with the item), `ph` (phase of each slot), `won`/`lost`
  (items obtained by successful takes / number of failed takes, per id).  Core Lean only.
-/
import Babylon.IdAlloc.Model

namespace Babylon.IdAlloc
open Babylon.Core Babylon.Gen.IdAlloc

/-- ghost phase of a slot -/
inductive Phase
  | out                       -- not holding a takeable item (free, being recycled, or emplace in progress)
  | live (r x : Nat)          -- emplace returned id (slot, r) for item x; not yet taken
  | held (t r : Nat)          -- thread t took (slot, r) and has not yet called finish_released
  deriving DecidableEq, Repr, Inhabited

inductive BPc
  | idle
  | emAlloc (x : Nat)         -- emplace(x): inside `_slot_id_allocator.allocate()`, then the version store
  | emCons (v r x : Nat)      -- `slot.object.emplace(x)`; return (v, r)
  | take (v r : Nat)          -- take_released: the strong CAS
  | fin                       -- finish_released: inside `deallocate(id.value)`
  deriving DecidableEq, Repr, Inhabited

structure BState where
  al : State                          -- `_slot_id_allocator`
  ver : Nat → Nat                     -- `_slots[i].version`
  obj : Nat → Nat                     -- `_slots[i].object` (item token)
  bpc : Nat → BPc
  eres : Nat → Option (Nat × Nat)     -- last id returned by `emplace` to a thread
  tres : Nat → Option (Option Nat)    -- last result of `take_released`: `some (some item)` | `some none`
  issued : List (Nat × Nat × Nat)     -- ghost: (slot, version, item) returned by emplace so far
  ph : Nat → Phase                    -- ghost
  won : Nat → Nat → List Nat          -- ghost: items obtained by the successful takes of id (slot, version)
  lost : Nat → Nat → Nat              -- ghost: number of failed takes of id (slot, version)

def BState.init (c : Cfg) : BState :=
  { al := State.init c, ver := fun _ => 0, obj := fun _ => 0, bpc := fun _ => .idle, eres := fun _ => none,
    tres := fun _ => none, issued := [], ph := fun _ => .out, won := fun _ _ => [], lost := fun _ _ => 0 }

def upd2 {α : Type} (f : Nat → Nat → α) (i j : Nat) (v : α) : Nat → Nat → α :=
  fun a b => if a = i ∧ b = j then v else f a b

/-- trace name of `_slots[v].version` (the harness names every slot's version word) -/
def slotLoc (v : Nat) : String := "ver" ++ toString v

/-- the value the taker's CAS writes -/
def Cfg.takeTo (c : Cfg) (r : Nat) : Nat := (r + takeVersionBump) % 2 ^ c.W

/-- One action of thread `t`. -/
def bstep (c : Cfg) (b : BState) (t : Nat) (spurious : Bool) : Option (BState × Label) :=
  match b.bpc t with
  | .idle => none
  | .emAlloc x =>
    if b.al.pc t = .idle then
      -- allocate() has returned `id`: `slot.version.store(id.version, relaxed)`
      match b.al.result t with
      | some (v, r) => some ({ b with ver := upd b.ver v r, bpc := upd b.bpc t (.emCons v r x) }, .st (slotLoc v) 0 .rlx r)
      | none => none
    else
      (stepThread c b.al t spurious).map (fun p => ({ b with al := p.1 }, p.2))
  | .emCons v r x =>
    some ({ b with obj := upd b.obj v x, issued := (v, r, x) :: b.issued, ph := upd b.ph v (.live r x),
                   eres := upd b.eres t (some (v, r)), bpc := upd b.bpc t .idle }, .ev ["constructed"])
  | .take v r =>
    if b.ver v = r then
      some ({ b with ver := upd b.ver v (c.takeTo r), al := giveId b.al v t, ph := upd b.ph v (.held t r),
                     won := upd2 b.won v r (b.obj v :: b.won v r), tres := upd b.tres t (some (some (b.obj v))),
                     bpc := upd b.bpc t .idle },
            .cas (slotLoc v) 0 false .rlx .rlx r (c.takeTo r) true r)
    else
      some ({ b with lost := upd2 b.lost v r (b.lost v r + 1), tres := upd b.tres t (some none),
                     bpc := upd b.bpc t .idle },
            .cas (slotLoc v) 0 false .rlx .rlx r (c.takeTo r) false (b.ver v))
  | .fin =>
    (stepThread c b.al t spurious).map (fun p =>
      ({ b with al := p.1, bpc := if p.1.pc t = .idle then upd b.bpc t .idle else b.bpc }, p.2))

def callEmplace (b : BState) (t x : Nat) : BState :=
  { b with al := callAlloc b.al t, bpc := upd b.bpc t (.emAlloc x) }
def callTake (b : BState) (t v r : Nat) : BState := { b with bpc := upd b.bpc t (.take v r) }
def callFinish (b : BState) (t v : Nat) : BState :=
  { b with al := callDealloc b.al t v, ph := upd b.ph v .out, bpc := upd b.bpc t .fin }

inductive BStep (c : Cfg) : BState → BState → Prop
  | act (b : BState) (t : Nat) (sp : Bool) (b' : BState) (l : Label) : bstep c b t sp = some (b', l) → BStep c b b'
  | emplace (b : BState) (t x : Nat) : b.bpc t = .idle → BStep c b (callEmplace b t x)
  | take (b : BState) (t v r x : Nat) : b.bpc t = .idle → (v, r, x) ∈ b.issued → BStep c b (callTake b t v r)
  | finish (b : BState) (t v r : Nat) : b.bpc t = .idle → b.ph v = .held t r → BStep c b (callFinish b t v)

/-- skeletons this model was written against -/
def Skel.boxEmplace : List Site := [.call "allocate", .call "ensure", .store "slot.version" .rlx, .call "object.emplace"]
def Skel.boxTake : List Site := [.cas "slot.version" true .rlx .rlx]
def Skel.boxFinish : List Site := [.call "deallocate"]

end Babylon.IdAlloc
