/-
  Invariant of the DepositBox model (Babylon/IdAlloc/Box.lean) and its preservation.

  Hypotheses on the execution (`BGood`): the free-list version of the embedded allocator never
  wraps (`headG + 1 < 2^W`: fewer than `2^W - 1` recycles in total — "NoWrap 32") and `Cap`.
  Key facts: the version a slot is issued with is the free-list push count at the time of the pop,
  every recycle is a push, hence versions issued for one slot strictly increase and a taken id
  `(v, r)` satisfies `r < ver v` forever.
-/
import Babylon.IdAlloc.Box
import Babylon.IdAlloc.LemmasUse
import Babylon.IdAlloc.Sched

namespace Babylon.IdAlloc
open Babylon.Core Babylon.Gen.IdAlloc

/-- what one atomic action of the allocator can change, as seen by a client layer -/
structure StFrame (a a' : State) (t : Nat) : Prop where
  headG : a.headG ≤ a'.headG
  owner : ∀ x, a'.owner x = a.owner x ∨ (a.owner x = none ∧ a'.owner x = some t)
  fl : ∀ x, x ∈ a'.fl → x ∈ a.fl ∨ ((a.pc t).transit = some x ∧ a'.headG = a.headG + 1)
  nv : a.nv ≤ a'.nv
  transit : ∀ u x, (a'.pc u).transit = some x → (a.pc u).transit = some x
  fresh : ∀ x, (a'.pc t).fresh = some x → (a.pc t).fresh = some x ∨ a.owner x = none
  pcOther : ∀ u, u ≠ t → a'.pc u = a.pc u
  resOther : ∀ u, u ≠ t → a'.result u = a.result u

theorem allocLoop_cases (c : Cfg) (a b : Nat) : allocLoop c a b = .an ∨ allocLoop c a b = .a1 a b := by
  unfold allocLoop; split <;> simp

theorem stepThread_frame {c : Cfg} {a a' : State} {t : Nat} {sp : Bool} {l : Label} (h : Inv c a)
    (hst : stepThread c a t sp = some (a', l)) : StFrame a a' t := by
  have hpo := fun u (hu : u ≠ t) => stepThread_pc_other hst hu
  unfold stepThread at hst
  cases hpc : a.pc t <;> rw [hpc] at hst <;> simp only at hst
  case idle => simp at hst
  case a2 cv cg nr =>
    split at hst
    · rename_i hhit
      simp only [Option.some.injEq, Prod.mk.injEq] at hst
      have ht := h.thr t; rw [hpc] at ht
      have hmem : cv ∈ a.fl := by rw [← hhit.1.1]; exact h.head_mem (by rw [hhit.1.1]; exact ht.1)
      have hown := (h.flmem cv hmem).2
      rw [← hst.1] at hpo ⊢
      refine ⟨Nat.le_refl _, ?_, ?_, Nat.le_refl _, ?_, ?_, hpo, ?_⟩
      · intro x; simp only; by_cases hx : x = cv
        · subst hx; right; simp [hown]
        · left; simp [upd, hx]
      · intro x hx; left; exact List.mem_of_mem_tail hx
      · intro u x; simp only; by_cases hu : u = t
        · subst hu; simp [Pc.transit]
        · simp [upd, hu]
      · intro x; simp only [upd_same, Pc.fresh, Option.some.injEq]; intro hx; subst hx; exact Or.inr hown
      · intro u hu; rfl
    · simp only [Option.some.injEq, Prod.mk.injEq] at hst
      rw [← hst.1] at hpo ⊢
      refine ⟨Nat.le_refl _, fun x => Or.inl rfl, fun x hx => Or.inl hx, Nat.le_refl _, ?_, ?_, hpo, fun u hu => rfl⟩
      · intro u x; simp only; by_cases hu : u = t
        · subst hu; rcases allocLoop_cases c a.headV a.headG with e | e <;> simp [e, Pc.transit]
        · simp [upd, hu]
      · intro x; simp only [upd_same]; rcases allocLoop_cases c a.headV a.headG with e | e <;> simp [e, Pc.fresh]
  case d2 id cv cg =>
    split at hst
    · simp only [Option.some.injEq, Prod.mk.injEq] at hst
      rw [← hst.1] at hpo ⊢
      refine ⟨by simp, fun x => Or.inl rfl, ?_, Nat.le_refl _, ?_, ?_, hpo, fun u hu => rfl⟩
      · intro x hx; simp only [List.mem_cons] at hx
        rcases hx with hx | hx
        · right; subst hx; exact ⟨by simp [hpc, Pc.transit], by simp [pushVersionBump]⟩
        · exact Or.inl hx
      · intro u x; simp only; by_cases hu : u = t
        · subst hu; simp [Pc.transit]
        · simp [upd, hu]
      · intro x; simp [Pc.fresh]
    · simp only [Option.some.injEq, Prod.mk.injEq] at hst
      rw [← hst.1] at hpo ⊢
      refine ⟨Nat.le_refl _, fun x => Or.inl rfl, fun x hx => Or.inl hx, Nat.le_refl _, ?_, ?_, hpo, fun u hu => rfl⟩
      · intro u x; simp only; by_cases hu : u = t
        · subst hu; simp [Pc.transit, hpc]
        · simp [upd, hu]
      · intro x; simp [Pc.fresh]
  case an =>
    simp only [Option.some.injEq, Prod.mk.injEq] at hst
    have hown := h.high a.nv (Nat.le_refl _)
    rw [← hst.1] at hpo ⊢
    refine ⟨Nat.le_refl _, ?_, fun x hx => Or.inl hx, by simp, ?_, ?_, hpo, fun u hu => rfl⟩
    · intro x; simp only; by_cases hx : x = a.nv
      · subst hx; right; simp [hown]
      · left; simp [upd, hx]
    · intro u x; simp only; by_cases hu : u = t
      · subst hu; simp [Pc.transit]
      · simp [upd, hu]
    · intro x; simp only [upd_same, Pc.fresh, Option.some.injEq]; intro hx; subst hx; exact Or.inr hown
  all_goals
    simp only [Option.some.injEq, Prod.mk.injEq] at hst
    rw [← hst.1] at hpo ⊢
    refine ⟨Nat.le_refl _, fun x => Or.inl rfl, fun x hx => Or.inl hx, Nat.le_refl _, ?_, ?_, hpo, ?_⟩
    · intro u x; simp only; by_cases hu : u = t
      · subst hu; simp only [upd_same, allocLoop_transit, hpc]; simp [Pc.transit]
      · simp [upd, hu]
    · intro x; simp only [upd_same, allocLoop_fresh, hpc]; simp [Pc.fresh]
    · intro u hu; simp [upd, hu]

/-- **NoWrap 32** for the box: the free-list version never wraps (fewer than `2^W - 1` recycles), and Cap -/
def BGood (c : Cfg) (b : BState) : Prop := b.al.headG + 1 < 2 ^ c.W ∧ b.al.nv ≤ c.active

theorem BGood.good {c : Cfg} {b : BState} (h : BGood c b) : Good c b.al :=
  ⟨fun _ _ _ _ _ => by have := h.1; omega, h.2⟩

/-- per-thread part of the box invariant -/
def BT (b : BState) (t : Nat) : BPc → Prop
  | .idle => b.al.pc t = .idle
  | .emAlloc _ =>
    match b.al.pc t with
    | .idle => ∃ v r, b.al.result t = some (v, r) ∧ b.al.owner v = some t ∧ b.ph v = .out ∧ b.ver v ≤ r ∧
        r ≤ b.al.headG
    | .a0 | .a1 _ _ | .a2 _ _ _ | .an => True
    | .a3 v cg => b.ph v = .out ∧ b.ver v ≤ cg ∧ cg ≤ b.al.headG
    | .an2 v => b.ph v = .out ∧ b.ver v = 0
    | _ => False
  | .emCons v r _ => b.al.pc t = .idle ∧ b.al.owner v = some t ∧ b.ph v = .out ∧ b.ver v = r ∧ r ≤ b.al.headG
  | .take v r => b.al.pc t = .idle ∧ ∃ x, (v, r, x) ∈ b.issued
  | .fin => ∃ v, (b.al.pc t).transit = some v

structure BInv (c : Cfg) (b : BState) : Prop where
  al : Inv c b.al
  thr : ∀ t, BT b t (b.bpc t)
  live : ∀ v r x, b.ph v = .live r x → (v, r, x) ∈ b.issued ∧ b.ver v = r ∧ b.obj v = x ∧ b.won v r = [] ∧
    r ≤ b.al.headG ∧ ∃ e, b.al.owner v = some e ∧ (b.al.pc e).fresh ≠ some v
  held : ∀ v t r, b.ph v = .held t r → b.ver v = r + 1 ∧ r ≤ b.al.headG ∧ b.al.owner v = some t
  stale : ∀ v r x, (v, r, x) ∈ b.issued → b.ph v = .live r x ∨ (b.won v r = [x] ∧ r < b.ver v)
  wonIss : ∀ v r, b.won v r ≠ [] → ∃ x, (v, r, x) ∈ b.issued
  lostWon : ∀ v r, 0 < b.lost v r → b.won v r ≠ []
  transitB : ∀ t v, (b.al.pc t).transit = some v → b.ver v ≤ b.al.headG + 1
  flB : ∀ v, v ∈ b.al.fl → b.ver v ≤ b.al.headG
  highB : ∀ v, b.al.nv ≤ v → b.ver v = 0 ∧ b.ph v = .out
  incr : b.issued.Pairwise (fun new old => new.1 = old.1 → old.2.1 < new.2.1)

theorem BInv.init (c : Cfg) : BInv c (BState.init c) where
  al := Inv.init c
  thr := by intro t; simp [BState.init, BT, State.init]
  live := by intro v r x h; simp [BState.init] at h
  held := by intro v t r h; simp [BState.init] at h
  stale := by intro v r x h; simp [BState.init] at h
  wonIss := by intro v r h; simp [BState.init] at h
  lostWon := by intro v r h; simp [BState.init] at h
  transitB := by intro t v h; simp [BState.init, State.init, Pc.transit] at h
  flB := by intro v h; simp [BState.init, State.init] at h
  highB := by intro v _; simp [BState.init]
  incr := by simp [BState.init]

/-- a slot that is live or held is owned in the allocator -/
theorem BInv.owned_of_ph {c : Cfg} {b : BState} (h : BInv c b) {v : Nat} (hp : b.ph v ≠ .out) :
    b.al.owner v ≠ none := by
  cases hph : b.ph v with
  | out => exact absurd hph hp
  | live r x => obtain ⟨_, _, _, _, _, e, he, _⟩ := h.live v r x hph; simp [he]
  | held t r => have := (h.held v t r hph).2.2; simp [this]

theorem BInv.out_of_unowned {c : Cfg} {b : BState} (h : BInv c b) {v : Nat} (ho : b.al.owner v = none) :
    b.ph v = .out := by
  by_cases hp : b.ph v = .out
  · exact hp
  · exact absurd ho (h.owned_of_ph hp)

theorem upd2_same {α : Type} (f : Nat → Nat → α) (i j : Nat) (v : α) : upd2 f i j v i j = v := by simp [upd2]
theorem upd2_other {α : Type} (f : Nat → Nat → α) {i j a b : Nat} (v : α) (h : ¬ (a = i ∧ b = j)) :
    upd2 f i j v a b = f a b := by simp [upd2, h]

/-- "others" part of the thread invariant when the allocator state is untouched and `ver`/`ph`/`issued`
change only at a slot `v` that no other thread's pre-issue state refers to -/
theorem BT.frame {b b' : BState} {u : Nat} {p : BPc} (hal : b'.al = b.al)
    (hver : ∀ v1, b.al.owner v1 = some u → b.ph v1 = .out → b'.ver v1 = b.ver v1 ∧ b'.ph v1 = .out)
    (hiss : ∀ i, i ∈ b.issued → i ∈ b'.issued)
    (hta : TInv c b.al u (b.al.pc u))
    (h : BT b u p) : BT b' u p := by
  cases p <;> simp only [BT, hal] at h ⊢ <;> try exact h
  · cases hp : b.al.pc u <;> simp only [hp, TInv] at h hta ⊢ <;> try exact h
    all_goals grind
  · grind
  · grind

/-- emplace: `slot.version.store(id.version)` after allocate returned `(v, r)` -/
theorem BInv.store {c : Cfg} {b : BState} (h : BInv c b) {t x v r : Nat} (hb : b.bpc t = .emAlloc x)
    (hpc : b.al.pc t = .idle) (hres : b.al.result t = some (v, r)) :
    BInv c { b with ver := upd b.ver v r, bpc := upd b.bpc t (.emCons v r x) } := by
  have ht := h.thr t
  rw [hb] at ht; simp only [BT, hpc] at ht
  obtain ⟨v', r', hr', hown, hph, hver, hrG⟩ := ht
  rw [hres] at hr'; simp only [Option.some.injEq, Prod.mk.injEq] at hr'
  obtain ⟨rfl, rfl⟩ := hr'
  have hnfl : v ∉ b.al.fl := fun hm => by have := (h.al.flmem v hm).2; simp [hown] at this
  have hntr : ∀ u, (b.al.pc u).transit ≠ some v := fun u hu => by
    have := (h.al.transit_props hu).1; simp [hown] at this
  have hlt : v < b.al.nv := h.al.owned_lt (by simp [hown])
  refine { al := h.al, thr := ?thr, live := ?live, held := ?held, stale := ?stale, wonIss := h.wonIss,
           lostWon := h.lostWon, transitB := ?transitB, flB := ?flB, highB := ?highB, incr := h.incr }
  case thr =>
    intro u
    by_cases hu : u = t
    · subst hu; simp [BT, hpc, hown, hph, hrG]
    · simp only [upd_other _ _ hu]
      have hu' := h.thr u
      cases hbu : b.bpc u <;> rw [hbu] at hu' <;> simp only [BT] at hu' ⊢ <;> try exact hu'
      · have hta := h.al.thr u
        cases hp : b.al.pc u <;> simp only [hp, TInv] at hu' hta ⊢ <;> try exact hu'
        all_goals grind [upd]
      · grind [upd]
  case live =>
    intro v1 r1 x1 hl
    have := h.live v1 r1 x1 hl
    have hne : v1 ≠ v := by intro e; subst e; simp [hph] at hl
    simp only [upd_other _ _ hne]; exact this
  case held =>
    intro v1 t1 r1 hl
    have := h.held v1 t1 r1 hl
    have hne : v1 ≠ v := by intro e; subst e; simp [hph] at hl
    simp only [upd_other _ _ hne]; exact this
  case stale =>
    intro v1 r1 x1 hi
    have := h.stale v1 r1 x1 hi
    simp only
    by_cases hne : v1 = v
    · subst hne; simp only [upd_same]; simp [hph] at this ⊢; exact ⟨this.1, by omega⟩
    · simp only [upd_other _ _ hne]; exact this
  case transitB =>
    intro u v1 hu
    have hne : v1 ≠ v := fun e => hntr u (e ▸ hu)
    simp only [upd_other _ _ hne]; exact h.transitB u v1 hu
  case flB =>
    intro v1 hm
    have hne : v1 ≠ v := fun e => hnfl (e ▸ hm)
    simp only [upd_other _ _ hne]; exact h.flB v1 hm
  case highB =>
    intro v1 hv1
    simp only at hv1
    have hne : v1 ≠ v := by omega
    simp only [upd_other _ _ hne]; exact h.highB v1 hv1

/-- emplace: the object is constructed and the id returned -/
theorem BInv.construct {c : Cfg} {b : BState} (h : BInv c b) {t v r x : Nat} (hb : b.bpc t = .emCons v r x) :
    BInv c { b with obj := upd b.obj v x, issued := (v, r, x) :: b.issued, ph := upd b.ph v (.live r x),
                    eres := upd b.eres t (some (v, r)), bpc := upd b.bpc t .idle } := by
  have ht := h.thr t
  rw [hb] at ht; simp only [BT] at ht
  obtain ⟨hpc, hown, hph, hver, hrG⟩ := ht
  have hnotiss : ∀ x1, (v, r, x1) ∉ b.issued := fun x1 hi => by
    have := h.stale v r x1 hi; simp [hph] at this; omega
  have hwon : b.won v r = [] := by
    by_cases hw : b.won v r = []
    · exact hw
    · obtain ⟨x1, hx1⟩ := h.wonIss v r hw; exact absurd hx1 (hnotiss x1)
  have hlt : v < b.al.nv := h.al.owned_lt (by simp [hown])
  refine { al := h.al, thr := ?thr, live := ?live, held := ?held, stale := ?stale, wonIss := ?wonIss,
           lostWon := h.lostWon, transitB := h.transitB, flB := h.flB, highB := ?highB, incr := ?incr }
  case thr =>
    intro u
    by_cases hu : u = t
    · subst hu; simp [BT, hpc]
    · simp only [upd_other _ _ hu]
      refine BT.frame (b := b) rfl ?_ (fun i hi => List.mem_cons_of_mem _ hi) (h.al.thr u) (h.thr u)
      intro v1 ho hp
      have hne : v1 ≠ v := by intro e; subst e; rw [hown] at ho; simp at ho; exact hu ho.symm
      simp [upd_other _ _ hne, hp]
  case live =>
    intro v1 r1 x1 hl
    simp only at hl ⊢
    by_cases hne : v1 = v
    · subst hne; simp only [upd_same, Phase.live.injEq] at hl
      obtain ⟨rfl, rfl⟩ := hl
      refine ⟨by simp, hver, by simp, hwon, hrG, t, hown, by simp [hpc, Pc.fresh]⟩
    · rw [upd_other _ _ hne] at hl
      have := h.live v1 r1 x1 hl
      simp only [upd_other _ _ hne]
      exact ⟨List.mem_cons_of_mem _ this.1, this.2⟩
  case held =>
    intro v1 t1 r1 hl
    simp only at hl ⊢
    have hne : v1 ≠ v := by intro e; subst e; simp at hl
    rw [upd_other _ _ hne] at hl
    exact h.held v1 t1 r1 hl
  case stale =>
    intro v1 r1 x1 hi
    simp only [List.mem_cons] at hi
    simp only
    rcases hi with hi | hi
    · simp only [Prod.mk.injEq] at hi; obtain ⟨rfl, rfl, rfl⟩ := hi; left; simp
    · have := h.stale v1 r1 x1 hi
      by_cases hne : v1 = v
      · subst hne; simp [hph] at this; right; exact this
      · simp only [upd_other _ _ hne]; exact this
  case wonIss =>
    intro v1 r1 hw
    obtain ⟨x1, hx1⟩ := h.wonIss v1 r1 hw
    exact ⟨x1, List.mem_cons_of_mem _ hx1⟩
  case incr =>
    refine List.pairwise_cons.mpr ⟨?_, h.incr⟩
    intro old hold hv
    obtain ⟨v1, r1, x1⟩ := old
    simp only at hv; subst hv
    have := h.stale _ r1 x1 hold
    simp [hph] at this
    simp only; omega
  case highB =>
    intro v1 hv1
    simp only at hv1
    have hne : v1 ≠ v := by omega
    simp only [upd_other _ _ hne]; exact h.highB v1 hv1

/-- take_released: the CAS fails -/
theorem BInv.takeFail {c : Cfg} {b : BState} (h : BInv c b) {t v r : Nat} (hb : b.bpc t = .take v r)
    (hne : b.ver v ≠ r) (tr : Nat → Option (Option Nat)) :
    BInv c { b with lost := upd2 b.lost v r (b.lost v r + 1), tres := tr, bpc := upd b.bpc t .idle } := by
  have ht := h.thr t
  rw [hb] at ht; simp only [BT] at ht
  obtain ⟨hpc, x, hiss⟩ := ht
  have hwon : b.won v r ≠ [] := by
    rcases h.stale v r x hiss with h1 | h1
    · exact absurd (h.live v r x h1).2.1 hne
    · simp [h1.1]
  refine { al := h.al, thr := ?thr, live := h.live, held := h.held, stale := h.stale, wonIss := h.wonIss,
           lostWon := ?lostWon, transitB := h.transitB, flB := h.flB, highB := h.highB, incr := h.incr }
  case thr =>
    intro u
    by_cases hu : u = t
    · subst hu; simp [BT, hpc]
    · simp only [upd_other _ _ hu]
      exact BT.frame (b := b) rfl (fun v1 _ hp => ⟨rfl, hp⟩) (fun i hi => hi) (h.al.thr u) (h.thr u)
  case lostWon =>
    intro v1 r1 hl
    simp only at hl ⊢
    by_cases he : v1 = v ∧ r1 = r
    · obtain ⟨rfl, rfl⟩ := he; exact hwon
    · rw [upd2_other _ _ he] at hl; exact h.lostWon v1 r1 hl

/-- take_released: the CAS succeeds -/
theorem BInv.takeOk {c : Cfg} {b : BState} (h : BInv c b) (hg : BGood c b) {t v r : Nat}
    (hb : b.bpc t = .take v r) (heq : b.ver v = r) (tr : Nat → Option (Option Nat)) :
    BInv c { b with ver := upd b.ver v (c.takeTo r), al := giveId b.al v t, ph := upd b.ph v (.held t r),
                    won := upd2 b.won v r (b.obj v :: b.won v r), tres := tr, bpc := upd b.bpc t .idle } := by
  have ht := h.thr t
  rw [hb] at ht; simp only [BT] at ht
  obtain ⟨hpc, x, hiss⟩ := ht
  have hlive : b.ph v = .live r x := by
    rcases h.stale v r x hiss with h1 | h1
    · exact h1
    · omega
  obtain ⟨_, _, hobj, hwon, hrG, e, hown, hfr⟩ := h.live v r x hlive
  have hto : c.takeTo r = r + 1 := by
    unfold Cfg.takeTo
    have : takeVersionBump = 1 := rfl
    rw [this]; exact Nat.mod_eq_of_lt (by have := hg.1; omega)
  have hal' : Inv c (giveId b.al v t) := h.al.give hown hfr
  have hnfl : v ∉ b.al.fl := fun hm => by have := (h.al.flmem v hm).2; simp [hown] at this
  have hntr : ∀ u, (b.al.pc u).transit ≠ some v := fun u hu => by
    have := (h.al.transit_props hu).1; simp [hown] at this
  have hlt : v < b.al.nv := h.al.owned_lt (by simp [hown])
  rw [hto]
  refine { al := hal', thr := ?thr, live := ?live, held := ?held, stale := ?stale, wonIss := ?wonIss,
           lostWon := ?lostWon, transitB := ?transitB, flB := ?flB, highB := ?highB, incr := h.incr }
  case thr =>
    intro u
    by_cases hu : u = t
    · subst hu; simp [BT, giveId, hpc]
    · simp only [upd_other _ _ hu]
      have hu' := h.thr u
      have hta := h.al.thr u
      cases hbu : b.bpc u <;> rw [hbu] at hu' <;> simp only [BT, giveId] at hu' ⊢ <;> try exact hu'
      · cases hp : b.al.pc u <;> simp only [hp, TInv] at hu' hta ⊢ <;> try exact hu'
        all_goals grind [upd]
      · grind [upd]
  case live =>
    intro v1 r1 x1 hl
    simp only at hl ⊢
    have hne : v1 ≠ v := by intro e; subst e; simp at hl
    rw [upd_other _ _ hne] at hl
    have := h.live v1 r1 x1 hl
    simp only [upd_other _ _ hne, giveId]
    have hne2 : ¬ (v1 = v ∧ r1 = r) := fun e => hne e.1
    rw [upd2_other _ _ hne2]
    exact this
  case held =>
    intro v1 t1 r1 hl
    simp only at hl ⊢
    by_cases hne : v1 = v
    · subst hne; simp only [upd_same, Phase.held.injEq] at hl
      obtain ⟨rfl, rfl⟩ := hl
      simp [giveId, hrG]
    · rw [upd_other _ _ hne] at hl
      simp only [upd_other _ _ hne, giveId]
      exact h.held v1 t1 r1 hl
  case stale =>
    intro v1 r1 x1 hi
    have hs := h.stale v1 r1 x1 hi
    simp only
    by_cases hne : v1 = v
    · subst hne
      right
      simp only [upd_same]
      by_cases hr : r1 = r
      · subst hr
        rcases hs with h1 | h1
        · rw [hlive] at h1; simp only [Phase.live.injEq] at h1
          rw [upd2_same, hwon, hobj, h1.2]; exact ⟨rfl, by omega⟩
        · omega
      · have hne2 : ¬ (v1 = v1 ∧ r1 = r) := fun e => hr e.2
        rw [upd2_other _ _ hne2]
        rcases hs with h1 | h1
        · rw [hlive] at h1; simp only [Phase.live.injEq] at h1; exact absurd h1.1.symm hr
        · exact ⟨h1.1, by omega⟩
    · have hne2 : ¬ (v1 = v ∧ r1 = r) := fun e => hne e.1
      rw [upd_other _ _ hne, upd_other _ _ hne, upd2_other _ _ hne2]; exact hs
  case wonIss =>
    intro v1 r1 hw
    simp only at hw
    by_cases he : v1 = v ∧ r1 = r
    · obtain ⟨rfl, rfl⟩ := he; exact ⟨x, hiss⟩
    · rw [upd2_other _ _ he] at hw; exact h.wonIss v1 r1 hw
  case lostWon =>
    intro v1 r1 hl
    simp only
    by_cases he : v1 = v ∧ r1 = r
    · obtain ⟨rfl, rfl⟩ := he; rw [upd2_same]; simp
    · rw [upd2_other _ _ he]; exact h.lostWon v1 r1 hl
  case transitB =>
    intro u v1 hu
    simp only [giveId] at hu ⊢
    have hne : v1 ≠ v := fun e => hntr u (e ▸ hu)
    simp only [upd_other _ _ hne]; exact h.transitB u v1 hu
  case flB =>
    intro v1 hm
    simp only [giveId] at hm ⊢
    have hne : v1 ≠ v := fun e => hnfl (e ▸ hm)
    simp only [upd_other _ _ hne]; exact h.flB v1 hm
  case highB =>
    intro v1 hv1
    simp only [giveId] at hv1 ⊢
    have hne : v1 ≠ v := by omega
    simp only [upd_other _ _ hne]; exact h.highB v1 hv1

/-- thread invariant of another thread across a move of the allocator / of the slot table -/
theorem BT.frame' {c : Cfg} {b b' : BState} {u : Nat} {p : BPc}
    (hpc : b'.al.pc u = b.al.pc u) (hres : b'.al.result u = b.al.result u)
    (hown : ∀ v1, b.al.owner v1 = some u → b'.al.owner v1 = some u)
    (hG : b.al.headG ≤ b'.al.headG)
    (hver : ∀ v1, b.al.owner v1 = some u → b.ph v1 = .out → b'.ver v1 = b.ver v1 ∧ b'.ph v1 = .out)
    (hiss : ∀ i, i ∈ b.issued → i ∈ b'.issued)
    (hta : TInv c b.al u (b.al.pc u))
    (h : BT b u p) : BT b' u p := by
  cases p <;> simp only [BT, hpc, hres] at h ⊢ <;> try exact h
  · cases hp : b.al.pc u <;> simp only [hp, TInv] at h hta ⊢ <;> try exact h
    · obtain ⟨v, r, h1, h2, h3, h4, h5⟩ := h
      have := hver v h2 h3
      exact ⟨v, r, h1, hown v h2, this.2, by omega, by omega⟩
    · have := hver _ hta h.1
      exact ⟨this.2, by omega, by omega⟩
    · have := hver _ hta h.1
      exact ⟨this.2, by omega⟩
  · have := hver _ h.2.1 h.2.2.1
    exact ⟨h.1, hown _ h.2.1, this.2, by omega, by omega⟩
  · exact ⟨h.1, h.2.elim fun x hx => ⟨x, hiss _ hx⟩⟩

/-- a move of the embedded allocator that only gains ownership for `t` (an atomic action, or the
call of `allocate`) preserves the box invariant, given the mover's own thread invariant -/
theorem BInv.alMove {c : Cfg} {b : BState} (h : BInv c b) {t : Nat} {a' : State} (hfr : StFrame b.al a' t)
    (hinv : Inv c a') (bpc' : Nat → BPc) (hother : ∀ u, u ≠ t → bpc' u = b.bpc u)
    (ht : BT { b with al := a', bpc := bpc' } t (bpc' t)) :
    BInv c { b with al := a', bpc := bpc' } := by
  have hownk : ∀ x u, b.al.owner x = some u → a'.owner x = some u := by
    intro x u hx; rcases hfr.owner x with h1 | h1
    · rw [h1]; exact hx
    · rw [h1.1] at hx; simp at hx
  refine { al := hinv, thr := ?thr, live := ?live, held := ?held, stale := h.stale, wonIss := h.wonIss,
           lostWon := h.lostWon, transitB := ?transitB, flB := ?flB, highB := ?highB, incr := h.incr }
  case thr =>
    intro u
    by_cases hu : u = t
    · subst hu; exact ht
    · simp only [hother u hu]
      exact BT.frame' (b := b) (hfr.pcOther u hu) (hfr.resOther u hu) (fun v1 hv1 => hownk v1 u hv1) hfr.headG
        (fun v1 _ hp => ⟨rfl, hp⟩) (fun i hi => hi) (h.al.thr u) (h.thr u)
  case live =>
    intro v r x hl
    obtain ⟨h1, h2, h3, h4, h5, e, he, hfe⟩ := h.live v r x hl
    refine ⟨h1, h2, h3, h4, Nat.le_trans h5 hfr.headG, e, hownk v e he, ?_⟩
    simp only
    by_cases het : e = t
    · subst het
      intro hf
      rcases hfr.fresh v hf with h6 | h6
      · exact hfe h6
      · rw [he] at h6; simp at h6
    · rw [hfr.pcOther e het]; exact hfe
  case held =>
    intro v u r hl
    obtain ⟨h1, h2, h3⟩ := h.held v u r hl
    exact ⟨h1, Nat.le_trans h2 hfr.headG, hownk v u h3⟩
  case transitB =>
    intro u v hu
    have := h.transitB u v (hfr.transit u v hu)
    have := hfr.headG
    simp only; omega
  case flB =>
    intro v hv
    have hG := hfr.headG
    rcases hfr.fl v hv with h1 | ⟨h1, h2⟩
    · have := h.flB v h1; simp only; omega
    · have := h.transitB t v h1; simp only; omega
  case highB =>
    intro v hv
    have := hfr.nv
    exact h.highB v (by simp only at hv; omega)

/-- the emplacing thread's own invariant across one action of its `allocate` -/
theorem BT.emAllocStep {c : Cfg} {b : BState} (h : BInv c b) (hg : BGood c b) {t x : Nat} {sp : Bool}
    {a' : State} {l : Label} (hb : b.bpc t = .emAlloc x) (hni : b.al.pc t ≠ .idle)
    (hst : stepThread c b.al t sp = some (a', l)) :
    BT { b with al := a', bpc := b.bpc } t (.emAlloc x) := by
  have ht := h.thr t
  rw [hb] at ht
  have hta := h.al.thr t
  have hP := hg.1
  unfold stepThread at hst
  cases hpc : b.al.pc t <;> rw [hpc] at hst <;> simp only [BT, hpc, TInv] at hst ht hta ⊢
  case idle => exact absurd hpc hni
  case a0 =>
    simp only [Option.some.injEq, Prod.mk.injEq] at hst
    rw [← hst.1]; simp only [upd_same]
    rcases allocLoop_cases c b.al.headV b.al.headG with e | e <;> simp [e]
  case a1 cv cg =>
    simp only [Option.some.injEq, Prod.mk.injEq] at hst
    rw [← hst.1]; simp only [upd_same]
  case a2 cv cg nr =>
    split at hst
    · rename_i hhit
      simp only [Option.some.injEq, Prod.mk.injEq] at hst
      rw [← hst.1]; simp only [upd_same]
      have hmem : cv ∈ b.al.fl := by rw [← hhit.1.1]; exact h.al.head_mem (by rw [hhit.1.1]; exact hta.1)
      have hG : b.al.headG = cg := by
        have h1 := hhit.1.2
        rw [Nat.mod_eq_of_lt (by omega), Nat.mod_eq_of_lt (by omega)] at h1
        exact h1
      have := h.flB cv hmem
      exact ⟨h.out_of_unowned (h.al.flmem cv hmem).2, by omega, by omega⟩
    · simp only [Option.some.injEq, Prod.mk.injEq] at hst
      rw [← hst.1]; simp only [upd_same]
      rcases allocLoop_cases c b.al.headV b.al.headG with e | e <;> simp [e]
  case a3 cv cg =>
    simp only [Option.some.injEq, Prod.mk.injEq] at hst
    rw [← hst.1]; simp only [upd_same]
    exact ⟨cv, cg % 2 ^ c.W, rfl, hta, ht.1, by rw [Nat.mod_eq_of_lt (by omega)]; exact ht.2.1,
      by rw [Nat.mod_eq_of_lt (by omega)]; exact ht.2.2⟩
  case an =>
    simp only [Option.some.injEq, Prod.mk.injEq] at hst
    rw [← hst.1]; simp only [upd_same]
    have := h.highB b.al.nv (Nat.le_refl _)
    exact ⟨this.2, this.1⟩
  case an2 v =>
    simp only [Option.some.injEq, Prod.mk.injEq] at hst
    rw [← hst.1]; simp only [upd_same]
    exact ⟨v, 0, rfl, hta, ht.1, by omega, Nat.zero_le _⟩

/-- the finishing thread's own invariant across one action of its `deallocate` -/
theorem BT.finStep {c : Cfg} {b : BState} (h : BInv c b) {t : Nat} {sp : Bool}
    {a' : State} {l : Label} (hb : b.bpc t = .fin)
    (hst : stepThread c b.al t sp = some (a', l)) :
    BT { b with al := a', bpc := if a'.pc t = .idle then upd b.bpc t .idle else b.bpc } t
      ((if a'.pc t = .idle then upd b.bpc t .idle else b.bpc) t) := by
  have ht := h.thr t
  rw [hb] at ht
  simp only [BT] at ht
  obtain ⟨v, hv⟩ := ht
  by_cases hi : a'.pc t = .idle
  · simp only [hi, if_true, upd_same, BT]
  · simp only [hi, if_false, hb, BT]
    unfold stepThread at hst
    cases hpc : b.al.pc t <;> rw [hpc] at hst hv <;> simp only [Pc.transit] at hst hv
    case d0 id =>
      simp only [Option.some.injEq, Prod.mk.injEq] at hst
      rw [← hst.1]; exact ⟨id, by simp [Pc.transit]⟩
    case d1 id cv cg =>
      simp only [Option.some.injEq, Prod.mk.injEq] at hst
      rw [← hst.1]; exact ⟨id, by simp [Pc.transit]⟩
    case d2 id cv cg =>
      split at hst
      · simp only [Option.some.injEq, Prod.mk.injEq] at hst
        rw [← hst.1] at hi; simp at hi
      · simp only [Option.some.injEq, Prod.mk.injEq] at hst
        rw [← hst.1]; exact ⟨id, by simp [Pc.transit]⟩
    all_goals simp at hv

theorem callAlloc_frame (a : State) (t : Nat) (hpc : a.pc t = .idle) : StFrame a (callAlloc a t) t := by
  refine ⟨Nat.le_refl _, fun x => Or.inl rfl, fun x hx => Or.inl hx, Nat.le_refl _, ?_, ?_, ?_, fun u hu => rfl⟩
  · intro u x; simp only [callAlloc]; by_cases hu : u = t
    · subst hu; simp [Pc.transit]
    · simp [upd, hu]
  · intro x; simp [callAlloc, Pc.fresh]
  · intro u hu; simp [callAlloc, upd, hu]

/-- an idle thread calls `emplace(x)` -/
theorem BInv.callEmplace {c : Cfg} {b : BState} (h : BInv c b) {t : Nat} (x : Nat) (hb : b.bpc t = .idle) :
    BInv c (callEmplace b t x) := by
  have hpc : b.al.pc t = .idle := by have := h.thr t; rw [hb] at this; exact this
  unfold Babylon.IdAlloc.callEmplace
  refine h.alMove (callAlloc_frame b.al t hpc)
    (h.al.setPc t .a0 trivial (by simp [hpc, Pc.transit]) (by simp [hpc, Pc.fresh]) b.al.result b.al.bound)
    _ (fun u hu => upd_other _ _ hu) ?_
  simp [BT, callAlloc]

/-- an idle thread calls `take_released(id)` with an issued id -/
theorem BInv.callTake {c : Cfg} {b : BState} (h : BInv c b) {t v r x : Nat} (hb : b.bpc t = .idle)
    (hiss : (v, r, x) ∈ b.issued) : BInv c (callTake b t v r) := by
  have hpc : b.al.pc t = .idle := by have := h.thr t; rw [hb] at this; exact this
  unfold Babylon.IdAlloc.callTake
  refine { al := h.al, thr := ?thr, live := h.live, held := h.held, stale := h.stale, wonIss := h.wonIss,
           lostWon := h.lostWon, transitB := h.transitB, flB := h.flB, highB := h.highB, incr := h.incr }
  intro u
  by_cases hu : u = t
  · subst hu; simp only [upd_same, BT]; exact ⟨hpc, x, hiss⟩
  · simp only [upd_other _ _ hu]
    exact BT.frame (b := b) rfl (fun v1 _ hp => ⟨rfl, hp⟩) (fun i hi => hi) (h.al.thr u) (h.thr u)

/-- the holder of a taken id calls `finish_released(id)` -/
theorem BInv.callFinish {c : Cfg} {b : BState} (h : BInv c b) {t v r : Nat} (hb : b.bpc t = .idle)
    (hph : b.ph v = .held t r) : BInv c (callFinish b t v) := by
  have hpc : b.al.pc t = .idle := by have := h.thr t; rw [hb] at this; exact this
  obtain ⟨hver, hrG, hown⟩ := h.held v t r hph
  have hal' : Inv c (callDealloc b.al t v) := h.al.callDealloc hpc hown
  unfold Babylon.IdAlloc.callFinish
  refine { al := hal', thr := ?thr, live := ?live, held := ?held, stale := ?stale, wonIss := h.wonIss,
           lostWon := h.lostWon, transitB := ?transitB, flB := ?flB, highB := ?highB, incr := h.incr }
  case thr =>
    intro u
    by_cases hu : u = t
    · subst hu; simp only [upd_same, BT, callDealloc]; exact ⟨v, by simp [Pc.transit]⟩
    · simp only [upd_other _ _ hu]
      refine BT.frame' (b := b) (by simp [callDealloc, upd, hu]) rfl ?_ (Nat.le_refl _) ?_ (fun i hi => hi)
        (h.al.thr u) (h.thr u)
      · intro v1 hv1
        have hne : v1 ≠ v := by intro e; subst e; rw [hown] at hv1; simp at hv1; exact hu hv1.symm
        simp [callDealloc, upd, hne, hv1]
      · intro v1 hv1 hp
        have hne : v1 ≠ v := by intro e; subst e; rw [hown] at hv1; simp at hv1; exact hu hv1.symm
        simp [upd, hne, hp]
  case live =>
    intro v1 r1 x1 hl
    simp only at hl
    have hne : v1 ≠ v := by intro e; subst e; simp at hl
    rw [upd_other _ _ hne] at hl
    obtain ⟨h1, h2, h3, h4, h5, e, he, hfe⟩ := h.live v1 r1 x1 hl
    refine ⟨h1, h2, h3, h4, h5, e, by simp [callDealloc, upd, hne, he], ?_⟩
    simp only [callDealloc]
    by_cases het : e = t
    · subst het; simp [Pc.fresh]
    · rw [upd_other _ _ het]; exact hfe
  case held =>
    intro v1 u r1 hl
    simp only at hl
    have hne : v1 ≠ v := by intro e; subst e; simp at hl
    rw [upd_other _ _ hne] at hl
    obtain ⟨h1, h2, h3⟩ := h.held v1 u r1 hl
    exact ⟨h1, h2, by simp [callDealloc, upd, hne, h3]⟩
  case stale =>
    intro v1 r1 x1 hi
    have hs := h.stale v1 r1 x1 hi
    simp only
    by_cases hne : v1 = v
    · subst hne; rw [hph] at hs; simp at hs; right; exact hs
    · rw [upd_other _ _ hne]; exact hs
  case transitB =>
    intro u v1 hu
    simp only [callDealloc] at hu ⊢
    by_cases hut : u = t
    · subst hut; simp [Pc.transit] at hu; subst hu; omega
    · rw [upd_other _ _ hut] at hu; exact h.transitB u v1 hu
  case flB => exact h.flB
  case highB =>
    intro v1 hv1
    simp only [callDealloc] at hv1 ⊢
    have := h.highB v1 hv1
    by_cases hne : v1 = v
    · subst hne; simp [this.1]
    · rw [upd_other _ _ hne]; exact this

/-- every action of a box thread preserves the invariant -/
theorem BInv.act {c : Cfg} {b b' : BState} {t : Nat} {sp : Bool} {l : Label} (h : BInv c b)
    (hg : BGood c b) (hst : bstep c b t sp = some (b', l)) (hg' : BGood c b') : BInv c b' := by
  unfold bstep at hst
  cases hb : b.bpc t <;> rw [hb] at hst <;> simp only at hst
  case idle => simp at hst
  case emAlloc x =>
    split at hst
    · rename_i hpc
      split at hst
      · rename_i v r hres
        simp only [Option.some.injEq, Prod.mk.injEq] at hst
        rw [← hst.1]
        exact h.store hb hpc hres
      · simp at hst
    · rename_i hpc
      simp only [Option.map_eq_some_iff] at hst
      obtain ⟨⟨a', l'⟩, hs, he⟩ := hst
      simp only [Prod.mk.injEq] at he
      rw [← he.1] at hg' ⊢
      have hinv : Inv c a' := h.al.act hg.good.1 hs hg'.2
      have := h.alMove (stepThread_frame h.al hs) hinv b.bpc (fun u _ => rfl)
        (by rw [hb]; exact BT.emAllocStep h hg hb hpc hs)
      exact this
  case emCons v r x =>
    simp only [Option.some.injEq, Prod.mk.injEq] at hst
    rw [← hst.1]
    exact h.construct hb
  case take v r =>
    split at hst
    · rename_i heq
      simp only [Option.some.injEq, Prod.mk.injEq] at hst
      rw [← hst.1]
      exact h.takeOk hg hb heq _
    · rename_i hne
      simp only [Option.some.injEq, Prod.mk.injEq] at hst
      rw [← hst.1]
      exact h.takeFail hb hne _
  case fin =>
    simp only [Option.map_eq_some_iff] at hst
    obtain ⟨⟨a', l'⟩, hs, he⟩ := hst
    simp only [Prod.mk.injEq] at he
    rw [← he.1] at hg' ⊢
    have hinv : Inv c a' := h.al.act hg.good.1 hs hg'.2
    refine h.alMove (stepThread_frame h.al hs) hinv _ ?_ (BT.finStep h hb hs)
    intro u hu
    split
    · exact upd_other _ _ hu
    · rfl

theorem BInv.step {c : Cfg} {b b' : BState} (h : BInv c b) (hg : BGood c b) (hst : BStep c b b')
    (hg' : BGood c b') : BInv c b' := by
  cases hst with
  | act t sp _ l hs => exact h.act hg hs hg'
  | emplace t x hb => exact h.callEmplace x hb
  | take t v r x hb hi => exact h.callTake hb hi
  | finish t v r hb hp => exact h.callFinish hb hp

/-- executions of the box all of whose states satisfy `BGood` -/
def BStepR (c : Cfg) (b b' : BState) : Prop := BStep c b b' ∧ BGood c b'

theorem bgood_init (c : Cfg) (hW : 2 ≤ 2 ^ c.W) : BGood c (BState.init c) :=
  ⟨by show 0 + 1 < 2 ^ c.W; omega, Nat.zero_le _⟩

theorem breach_inv {c : Cfg} {b : BState}
    (hr : Reachable (fun b0 => b0 = BState.init c ∧ BGood c b0) (BStepR c) b) : BInv c b ∧ BGood c b := by
  refine Reachable.invariant (fun b => BInv c b ∧ BGood c b) ?_ ?_ b hr
  · intro b0 ⟨hb, hg⟩; subst hb; exact ⟨BInv.init c, hg⟩
  · intro b b' ⟨hi, hg⟩ ⟨hst, hg'⟩
    exact ⟨hi.step hg hst hg', hg'⟩

/-- the ghost record of successful takes only grows -/
theorem bstep_won_mono {c : Cfg} {b b' : BState} {t : Nat} {sp : Bool} {l : Label}
    (h : bstep c b t sp = some (b', l)) (v r : Nat) (hw : b.won v r ≠ []) : b'.won v r ≠ [] := by
  unfold bstep at h
  cases hb : b.bpc t <;> rw [hb] at h <;> simp only at h
  case idle => simp at h
  case emAlloc x =>
    split at h
    · split at h
      · simp only [Option.some.injEq, Prod.mk.injEq] at h; rw [← h.1]; exact hw
      · simp at h
    · simp only [Option.map_eq_some_iff] at h
      obtain ⟨p, _, he⟩ := h
      simp only [Prod.mk.injEq] at he; rw [← he.1]; exact hw
  case emCons => simp only [Option.some.injEq, Prod.mk.injEq] at h; rw [← h.1]; exact hw
  case take v1 r1 =>
    split at h
    · simp only [Option.some.injEq, Prod.mk.injEq] at h; rw [← h.1]
      simp only [upd2]; split
      · simp
      · exact hw
    · simp only [Option.some.injEq, Prod.mk.injEq] at h; rw [← h.1]; exact hw
  case fin =>
    simp only [Option.map_eq_some_iff] at h
    obtain ⟨p, _, he⟩ := h
    simp only [Prod.mk.injEq] at he; rw [← he.1]; exact hw

theorem BStep.won_mono {c : Cfg} {b b' : BState} (h : BStep c b b') (v r : Nat) (hw : b.won v r ≠ []) :
    b'.won v r ≠ [] := by
  cases h with
  | act t sp _ l hs => exact bstep_won_mono hs v r hw
  | emplace t x hb => exact hw
  | take t v1 r1 x hb hi => exact hw
  | finish t v1 r1 hb hp => exact hw

/-- any continuation of an execution (all states `BGood`) -/
inductive BStar (c : Cfg) : BState → BState → Prop
  | refl (b : BState) : BStar c b b
  | tail {b b1 b2 : BState} : BStar c b b1 → BStepR c b1 b2 → BStar c b b2

theorem BStar.reach {c : Cfg} {b b' : BState} {init : BState → Prop} (hr : Reachable init (BStepR c) b)
    (hs : BStar c b b') : Reachable init (BStepR c) b' := by
  induction hs with
  | refl => exact hr
  | tail _ hst ih => exact Reachable.tail ih hst

theorem BStar.won_mono {c : Cfg} {b b' : BState} (hs : BStar c b b') (v r : Nat) (hw : b.won v r ≠ []) :
    b'.won v r ≠ [] := by
  induction hs with
  | refl => exact hw
  | tail _ hst ih => exact hst.1.won_mono v r ih

/-- a taken id is strictly below the slot's version -/
theorem BInv.taken_lt {c : Cfg} {b : BState} (h : BInv c b) {v r : Nat} (hw : b.won v r ≠ []) : r < b.ver v := by
  obtain ⟨x, hx⟩ := h.wonIss v r hw
  rcases h.stale v r x hx with h1 | h1
  · exact absurd (h.live v r x h1).2.2.2.1 hw
  · exact h1.2

/-- the CAS of a take whose id does not match fails: the thread returns "nothing" and neither the slot
version nor the record of winners changes -/
theorem bstep_take_fail {c : Cfg} {b b' : BState} {t v r : Nat} {sp : Bool} {l : Label}
    (hb : b.bpc t = .take v r) (hne : b.ver v ≠ r) (h : bstep c b t sp = some (b', l)) :
    b'.tres t = some none ∧ b'.won = b.won ∧ b'.ver = b.ver ∧ b'.bpc t = .idle := by
  unfold bstep at h
  rw [hb] at h; simp only [if_neg hne, Option.some.injEq, Prod.mk.injEq] at h
  rw [← h.1]; simp

end Babylon.IdAlloc
