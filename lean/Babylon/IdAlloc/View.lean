/-
  C14 over the release/acquire VIEW memory model (Babylon/Core/MemView.lean): what the DepositBox and the
  id allocator guarantee about the *item* (plain data in `slot.object`) in every view-model execution —
  any interleaving, any admissible stale read.

  What the code does (orders taken from the generated skeletons of gen/idalloc.py):
      emplace            id = allocate()              pop   CAS on free_head, success order `ordPop.1`   (acq_rel)
                         slot.version.store(id.version, `ordEmplaceStore`)                                (RELAXED)
                         slot.object.emplace(x)       plain writes, AFTER the version store
      take_released      slot.version CAS (v → v+1), orders `ordTake`                                     (RELAXED, RELAXED)
                         then the winner reads `slot.object` (plain)
      finish_released    deallocate(id.value)         push  CAS on free_head, success order `ordPush.1`  (release)

  Consequences, all proved below:
   * `box_publication_view`: the version word does NOT carry the item (it is stored before the item is
     constructed, relaxed, and taken with a relaxed CAS).  The item is published by whatever carries the
     *id* from the emplacing thread to the taker: if that hand-off is a release store / acquire load (or
     stronger) then in EVERY view-model execution the winning taker cannot read anything older than the
     constructed item, and reads exactly it while the slot is not re-emplaced.  The orders of the version
     store and of the take CAS are irrelevant (any orders, in particular the extracted ones).
     `box_version_word_does_not_publish` (by `decide`): with the extracted orders and a relaxed hand-off
     the winning taker CAN read the unconstructed slot — the hand-off hypothesis is necessary, and the
     version word would publish only with a releasing store placed after the construction and an
     acquiring take CAS (`versionWordRun .rel .acq`), which is not what the code has.
   * `box_reuse_view`: taker reads the item, finish_released pushes the slot (CAS with the extracted
     RELEASE order), any number of other pushes / pops (RMWs) hit the head, the next emplace pops the slot
     (CAS with the extracted ACQUIRING order): everything the taker had seen or read — its read of the
     item included — is in the new emplacer's view before it constructs the next item: no overwrite race,
     through the release sequence on `free_head`.  Negative controls with the push or the pop relaxed.
  Core Lean only.
-/
import Babylon.Core.MemView
import Babylon.Gen.IdAlloc

namespace Babylon.IdAlloc.View
open Babylon.Core Babylon.Core.MemView Babylon.Gen.IdAlloc

/-! ### orders written in the source (first store / first CAS of a generated skeleton; a missing
site yields `relaxed`, the weakest order, so no obligation can be satisfied by accident) -/

def firstStoreOrd : List Site → Core.Ord
  | [] => .rlx
  | .store _ o :: _ => o
  | _ :: r => firstStoreOrd r

def firstCasOrds : List Site → Core.Ord × Core.Ord
  | [] => (.rlx, .rlx)
  | .cas _ _ s f :: _ => (s, f)
  | _ :: r => firstCasOrds r

/-- `slot.version.store(id.version, …)` in `DepositBox::emplace` -/
def ordEmplaceStore : Core.Ord := firstStoreOrd skel_box_emplace
/-- the CAS of `DepositBox::take_released` (success, failure) -/
def ordTake : Core.Ord × Core.Ord := firstCasOrds skel_box_take_released
/-- the push CAS of `IdAllocator::deallocate` -/
def ordPush : Core.Ord × Core.Ord := firstCasOrds skel_deallocate
/-- the pop CAS of `IdAllocator::allocate` -/
def ordPop : Core.Ord × Core.Ord := firstCasOrds skel_allocate

variable {L : Type} [DecidableEq L]

/-! ### generic lemmas -/

/-- the thread that wrote `(l, m.len l)` knows it -/
theorem write_cur_ts (m : Mem L) (t : Nat) (l : L) (o : Core.Ord) (v : Nat) :
    m.len l ≤ ((m.write t l o v).tv t).cur.get l := by
  simp [Mem.write, TView.wrote]; omega

theorem write_msg (m : Mem L) (t : Nat) (l : L) (o : Core.Ord) (v : Nat) :
    ∃ W, ((m.write t l o v).hist l)[m.len l]? = some ⟨v, W⟩ := by
  refine ⟨((m.tv t).wrote l (m.len l)).relView l (m.len l) o, ?_⟩
  rw [Mem.write_hist_same]; simp [Mem.len]

/-- after a load of `(l, ts)` the thread's view of `l` is at least `ts` -/
theorem read_cur_ts {m m' : Mem L} {t : Nat} {l : L} {o : Core.Ord} {ts v : Nat}
    (h : m.read t l o ts = some (m', v)) : ts ≤ (m'.tv t).cur.get l := by
  obtain ⟨msg, _, _, _, rfl⟩ := Mem.read_spec h
  simp only [upd_same]
  exact TView.read_cur_ts _ _ _ _ _

/-- every message of `l` from timestamp `ts0` on carries at least the view `W` (release sequence) -/
def RelSeq (m : Mem L) (l : L) (ts0 : Nat) (W : View L) : Prop :=
  ∀ ts msg, ts0 ≤ ts → (m.hist l)[ts]? = some msg → W ≤ msg.view

theorem getLast_getElem {α : Type} (xs : List α) (a : α) (h : xs.getLast? = some a) :
    xs[xs.length - 1]? = some a := by
  rw [List.getLast?_eq_getElem?] at h; exact h

/-- an RMW of any order by any thread continues the release sequence -/
theorem relseq_rmw {m m' : Mem L} {l : L} {ts0 : Nat} {W : View L} {t : Nat} {o : Core.Ord} {f : Nat → Nat}
    {old : Nat} (R : RelSeq m l ts0 W) (hlt : ts0 < m.len l) (h : m.rmw t l o f = some (m', old)) :
    RelSeq m' l ts0 W := by
  obtain ⟨msg, W', hlast, _, hh, _, _, hmW, _⟩ := Mem.rmw_facts h
  intro ts mg hts hm
  rw [hh] at hm
  by_cases hin : ts < (m.hist l).length
  · rw [List.getElem?_append_left hin] at hm
    exact R ts mg hts hm
  · have hl : (m.hist l)[m.len l - 1]? = some msg := getLast_getElem _ _ hlast
    have hWm : W ≤ msg.view := R (m.len l - 1) msg (by omega) hl
    by_cases he : ts = (m.hist l).length
    · subst he
      simp at hm
      subst hm
      exact View.le_trans hWm hmW
    · rw [List.getElem?_eq_none (by simp; omega)] at hm; cases hm

/-- executions in which location `h` is written by RMWs only (every modification of `free_head` is a
compare-exchange); everything else — other locations, other threads, loads and failed CASes of `h` — is
unconstrained -/
inductive OnlyRmw (h : L) : Mem L → Mem L → Prop
  | refl (m : Mem L) : OnlyRmw h m m
  | other {m m1 m2 : Mem L} : OnlyRmw h m m1 → m1.Ext m2 → m2.hist h = m1.hist h → OnlyRmw h m m2
  | rmw {m m1 m2 : Mem L} {t : Nat} {o : Core.Ord} {f : Nat → Nat} {old : Nat} :
      OnlyRmw h m m1 → m1.rmw t h o f = some (m2, old) → OnlyRmw h m m2

theorem OnlyRmw.ext {h : L} {m m' : Mem L} (s : OnlyRmw h m m') : m.Ext m' := by
  induction s with
  | refl => exact Mem.Ext.refl _
  | other _ he _ ih => exact ih.trans he
  | rmw _ hr ih => exact ih.trans (Mem.rmw_ext hr)

theorem OnlyRmw.relseq {h : L} {m m' : Mem L} {ts0 : Nat} {W : View L} (s : OnlyRmw h m m')
    (R : RelSeq m h ts0 W) (hlt : ts0 < m.len h) : RelSeq m' h ts0 W ∧ ts0 < m'.len h := by
  induction s with
  | refl => exact ⟨R, hlt⟩
  | other _ he hh ih =>
    refine ⟨fun ts mg hts hm => ih.1 ts mg hts (by rw [hh] at hm; exact hm), ?_⟩
    have := ih.2; simp only [Mem.len, hh] at this ⊢; exact this
  | rmw _ hr ih =>
    refine ⟨relseq_rmw ih.1 ih.2 hr, ?_⟩
    have := (Mem.rmw_ext hr).len_le h; have := ih.2; omega

/-! ### (1) publication of the item -/

/-- **box_publication_view.**  Emplacer `a`: stores the slot's version (`ver`, order `os` — the code's
`ordEmplaceStore`), then constructs the item (`item`, plain), returns the id and hands it to the taker by
a store of order `oh` on some client location `ch`.  Taker `b`: obtains the id by a load of order `oh'` of
that message, wins the take CAS on `ver` (orders `so`, `fo` — the code's `ordTake`), then reads the item
(plain, ANY message its view admits).  Arbitrary steps of arbitrary threads in between (`Ext`).  If the
hand-off releases and acquires, the taker obtains the right id, cannot read an item message older than the
emplacer's construction, and reads exactly the constructed item as long as the slot has not been
re-emplaced. -/
theorem box_publication_view (m0 : Mem L) (a b : Nat) (ver item ch : L) (os ov ov' oh oh' so fo : Core.Ord)
    (r x idv d tsv : Nat) {m m1 m2 m3 m4 m5 m6 m7 : Mem L} {v obs ts' v' : Nat}
    (hrel : oh.releases = true) (hacq : oh'.acquires = true)
    (_h0 : (m0.write a ver os r).Ext m)                         -- slot.version.store(id.version)
    (h1 : (m.write a item ov x).Ext m1)                         -- slot.object.emplace(x)
    (h2 : (m1.write a ch oh idv).Ext m2)                        -- the id leaves the emplacing thread
    (h3 : m2.read b ch oh' (m1.len ch) = some (m3, v))          -- … and reaches the taker
    (h4 : m3.Ext m4)
    (h5 : m4.cas b ver so fo r d tsv = some (m5, true, obs))    -- the winning take
    (h6 : m5.Ext m6)
    (h7 : m6.read b item ov' ts' = some (m7, v')) :             -- the winner reads the item
    v = idv ∧ m.len item ≤ ts' ∧ (m6.len item = m.len item + 1 → v' = x) := by
  obtain ⟨hv, hle⟩ := mp_release_acquire m1 a b ch oh oh' idv hrel hacq h2 h3
  have k1 := write_cur_ts m a item ov x
  have k2 := h1.cur a item
  have k3 := hle item
  have k4 := h4.cur b item
  have k5 := (Mem.cas_ext h5).cur b item
  have k6 := h6.cur b item
  have k7 := read_respects_view h7
  have hts : m.len item ≤ ts' := by omega
  refine ⟨hv, hts, fun hlen => ?_⟩
  have hlt := Mem.read_ts_lt h7
  have hte : ts' = m.len item := by omega
  subst hte
  obtain ⟨W, hmsg⟩ := write_msg m a item ov x
  have e1 := h1.get? item _ _ hmsg
  have e2 := ((Mem.write_ext m1 a ch oh idv).trans h2).get? item _ _ e1
  have e3 := (Mem.read_ext h3).get? item _ _ e2
  have e4 := h4.get? item _ _ e3
  have e5 := (Mem.cas_ext h5).get? item _ _ e4
  have e6 := h6.get? item _ _ e5
  obtain ⟨msg, hm, hvv, _, _⟩ := Mem.read_spec h7
  rw [e6] at hm
  cases hm
  exact hvv

/-! ### (2) reuse of a slot -/

/-- **box_reuse_view.**  Taker `b` reads the item of its slot (plain), later `finish_released` pushes the
slot: a successful CAS on `head` whose success order `sp` releases (the code's `ordPush.1`).  Then any
execution in which `head` is modified by RMWs only (all pushes and pops are compare-exchanges).  Emplacer
`c` pops: a successful CAS on `head` whose success order `sq` acquires (the code's `ordPop.1`).  Then, after
arbitrary further steps, everything `b` had seen when it read the item is in `c`'s view — in particular the
very message `b` read — so `c`'s construction of the next item (and its version store) happens after
`b`'s read: no overwrite race. -/
theorem box_reuse_view (m : Mem L) (b c : Nat) (item head : L) (ov sp fp sq fq : Core.Ord)
    (e d tsp e' d' tsq : Nat) {m1 m2 m3 m4 m5 m6 : Mem L} {ts0 v obs obs' : Nat}
    (hrel : sp.releases = true) (hacq : sq.acquires = true)
    (h1 : m.read b item ov ts0 = some (m1, v))                  -- the taker reads the item
    (h2 : m1.Ext m2)
    (h3 : m2.cas b head sp fp e d tsp = some (m3, true, obs))   -- finish_released: push
    (h4 : OnlyRmw head m3 m4)
    (h5 : m4.cas c head sq fq e' d' tsq = some (m5, true, obs')) -- next emplace: pop
    (h6 : m5.Ext m6) :
    (m1.tv b).cur ≤ (m6.tv c).cur ∧ ts0 ≤ (m6.tv c).cur.get item ∧ ts0 < m6.len item := by
  -- the push message starts a release sequence carrying b's view
  have hr3 : m2.rmw b head sp (fun _ => d) = some (m3, obs) := by
    rcases Mem.cas_spec h3 with ⟨_, _, hr⟩ | ⟨hf, _⟩
    · exact hr
    · cases hf
  obtain ⟨msg3, W, _, _, hh3, _, _, _, hW, _⟩ := Mem.rmw_facts hr3
  have hWb : (m2.tv b).cur ≤ W := hW hrel
  have hR3 : RelSeq m3 head (m2.len head) W := by
    intro ts mg hts hm
    rw [hh3] at hm
    by_cases he : ts = (m2.hist head).length
    · subst he; simp at hm; subst hm; exact View.le_refl _
    · have : (m2.hist head ++ [(⟨d, W⟩ : Msg L)]).length ≤ ts := by
        simp only [List.length_append, List.length_singleton, Mem.len] at hts ⊢; omega
      rw [List.getElem?_eq_none this] at hm; cases hm
  have hlen3 : m2.len head < m3.len head := by simp [Mem.len, hh3]
  obtain ⟨hR4, hlen4⟩ := h4.relseq hR3 hlen3
  -- the pop reads the last message of the sequence with an acquiring order
  have hr5 : m4.rmw c head sq (fun _ => d') = some (m5, obs') := by
    rcases Mem.cas_spec h5 with ⟨_, _, hr⟩ | ⟨hf, _⟩
    · exact hr
    · cases hf
  obtain ⟨msg5, W5, hlast5, _, _, _, _, _, _, _, _, _, _, hcur5, _⟩ := Mem.rmw_facts hr5
  have hl5 : (m4.hist head)[m4.len head - 1]? = some msg5 := getLast_getElem _ _ hlast5
  have hWm : W ≤ msg5.view := hR4 (m4.len head - 1) msg5 (by omega) hl5
  have hc5 : msg5.view ≤ (m5.tv c).cur := hcur5 hacq
  have hle : (m1.tv b).cur ≤ (m6.tv c).cur :=
    View.le_trans (h2.cur b) (View.le_trans hWb (View.le_trans hWm (View.le_trans hc5 (h6.cur c))))
  have hts := read_cur_ts h1
  have hlt := Mem.read_ts_lt h1
  have hext : m.Ext m6 :=
    (Mem.read_ext h1).trans (h2.trans ((Mem.cas_ext h3).trans (h4.ext.trans ((Mem.cas_ext h5).trans h6))))
  have := hext.len_le item
  have := hle item
  exact ⟨hle, by omega, by omega⟩

/-! ### the orders the code really has -/

/-- the push CAS of `deallocate` releases and the pop CAS of `allocate` acquires: what `box_reuse_view` needs.
Weakening either in the source makes this `decide` fail. -/
theorem gen_reuse_orders : ordPush.1.releases = true ∧ ordPop.1.acquires = true := by decide

/-- the version store of `emplace` and the CAS of `take_released` are relaxed: the version word cannot
publish the item (see `box_version_word_does_not_publish`); `box_publication_view` does not depend on them. -/
theorem gen_box_orders : ordEmplaceStore = .rlx ∧ ordTake = (.rlx, .rlx) := by decide

/-- `box_reuse_view` with the extracted orders -/
theorem box_reuse_view_code (m : Mem L) (b c : Nat) (item head : L) (ov : Core.Ord)
    (e d tsp e' d' tsq : Nat) {m1 m2 m3 m4 m5 m6 : Mem L} {ts0 v obs obs' : Nat}
    (h1 : m.read b item ov ts0 = some (m1, v)) (h2 : m1.Ext m2)
    (h3 : m2.cas b head ordPush.1 ordPush.2 e d tsp = some (m3, true, obs)) (h4 : OnlyRmw head m3 m4)
    (h5 : m4.cas c head ordPop.1 ordPop.2 e' d' tsq = some (m5, true, obs')) (h6 : m5.Ext m6) :
    (m1.tv b).cur ≤ (m6.tv c).cur ∧ ts0 ≤ (m6.tv c).cur.get item ∧ ts0 < m6.len item :=
  box_reuse_view m b c item head ov _ _ _ _ e d tsp e' d' tsq gen_reuse_orders.1 gen_reuse_orders.2 h1 h2 h3 h4 h5 h6

/-- `box_publication_view` with the extracted orders of the version store and of the take CAS -/
theorem box_publication_view_code (m0 : Mem L) (a b : Nat) (ver item ch : L) (ov ov' oh oh' : Core.Ord)
    (r x idv d tsv : Nat) {m m1 m2 m3 m4 m5 m6 m7 : Mem L} {v obs ts' v' : Nat}
    (hrel : oh.releases = true) (hacq : oh'.acquires = true)
    (h0 : (m0.write a ver ordEmplaceStore r).Ext m) (h1 : (m.write a item ov x).Ext m1)
    (h2 : (m1.write a ch oh idv).Ext m2) (h3 : m2.read b ch oh' (m1.len ch) = some (m3, v)) (h4 : m3.Ext m4)
    (h5 : m4.cas b ver ordTake.1 ordTake.2 r d tsv = some (m5, true, obs)) (h6 : m5.Ext m6)
    (h7 : m6.read b item ov' ts' = some (m7, v')) :
    v = idv ∧ m.len item ≤ ts' ∧ (m6.len item = m.len item + 1 → v' = x) :=
  box_publication_view m0 a b ver item ch _ ov ov' oh oh' _ _ r x idv d tsv hrel hacq h0 h1 h2 h3 h4 h5 h6 h7

/-! ### concrete executions: positive and negative controls (kernel-evaluated) -/

inductive Loc | ver | item | ch | head
  deriving DecidableEq, Repr

def mem0 : Mem Loc := Mem.init (fun _ => 0)

/-- emplacer = thread 1 (version 5, item 77, id handed off on `ch` with order `oh`), taker = thread 2 (reads
the hand-off with `oh'`, wins the take CAS, reads the item message with timestamp `tsItem`: 0 = the
unconstructed slot, 1 = the item).  Result: the value the winner reads, `none` = not an execution. -/
def pubRun (os so oh oh' : Core.Ord) (tsItem : Nat) : Option Nat :=
  let m1 := mem0.write 1 .ver os 5
  let m2 := m1.write 1 .item .rlx 77
  let m3 := m2.write 1 .ch oh 1
  match m3.read 2 .ch oh' 1 with
  | none => none
  | some (m4, _) =>
    match m4.cas 2 .ver so .rlx 5 6 1 with
    | some (m5, true, _) => (m5.read 2 .item .rlx tsItem).map (·.2)
    | _ => none

/-- with a release / acquire hand-off of the id (and the code's relaxed version store and take CAS) the
winner cannot read the unconstructed slot and reads the item -/
example : pubRun ordEmplaceStore ordTake.1 .rel .acq 0 = none ∧
    pubRun ordEmplaceStore ordTake.1 .rel .acq 1 = some 77 := by decide

/-- **The version word does not publish the item**: with the extracted orders and a hand-off that does not
synchronise (relaxed, or only one side) the winning taker reads the unconstructed slot. -/
theorem box_version_word_does_not_publish :
    pubRun ordEmplaceStore ordTake.1 .rlx .rlx 0 = some 0 ∧
    pubRun ordEmplaceStore ordTake.1 .rel .rlx 0 = some 0 ∧
    pubRun ordEmplaceStore ordTake.1 .rlx .acq 0 = some 0 := by decide

/-- hypothetical protocol "construct, THEN store the version with `os`; taker: CAS with `so`, no hand-off":
it publishes iff the store releases and the CAS acquires — neither is what the code has -/
def versionWordRun (os so : Core.Ord) (tsItem : Nat) : Option Nat :=
  let m1 := mem0.write 1 .item .rlx 77
  let m2 := m1.write 1 .ver os 5
  match m2.cas 2 .ver so .rlx 5 6 1 with
  | some (m3, true, _) => (m3.read 2 .item .rlx tsItem).map (·.2)
  | _ => none

example : versionWordRun .rel .acq 0 = none ∧ versionWordRun .rel .acq 1 = some 77 := by decide
example : versionWordRun .rlx .acq 0 = some 0 ∧ versionWordRun .rel .rlx 0 = some 0 ∧
    versionWordRun ordEmplaceStore ordTake.1 0 = some 0 := by decide

/-- thread 1 constructs item 77 (timestamp 1); taker 2 reads it, pushes the slot (CAS `sp`); thread 4 pops and
re-pushes something else in between iff `mid` (RMWs, relaxed: the release sequence continues through them);
emplacer 3 pops (CAS `sq`).  Result: emplacer 3's view of the item cell when it is about to construct. -/
def reuseRun (sp sq : Core.Ord) (mid : Bool) : Option Nat :=
  let m1 := mem0.write 1 .item .rlx 77
  match m1.read 2 .item .rlx 1 with
  | none => none
  | some (m2, _) =>
    match m2.cas 2 .head sp .rlx 0 9 0 with
    | some (m3, true, _) =>
      if mid then
        match m3.cas 4 .head .rlx .rlx 9 8 1 with
        | some (m4, true, _) =>
          match m4.cas 3 .head sq .rlx 8 0 2 with
          | some (m5, true, _) => some ((m5.tv 3).cur.get .item)
          | _ => none
        | _ => none
      else
        match m3.cas 3 .head sq .rlx 9 0 1 with
        | some (m5, true, _) => some ((m5.tv 3).cur.get .item)
        | _ => none
    | _ => none

/-- with the code's orders the next emplacer knows the message the taker read (timestamp 1), also through
an intervening relaxed RMW on the head -/
example : reuseRun ordPush.1 ordPop.1 false = some 1 ∧ reuseRun ordPush.1 ordPop.1 true = some 1 := by decide

/-- negative controls: push CAS relaxed, or pop CAS relaxed — the next emplacer's view does not cover the
taker's read (its construction would race with it) -/
example : reuseRun .rlx ordPop.1 false = some 0 ∧ reuseRun ordPush.1 .rlx false = some 0 ∧
    reuseRun .rlx ordPop.1 true = some 0 := by decide

end Babylon.IdAlloc.View
