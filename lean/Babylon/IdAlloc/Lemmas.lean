/-
  The inductive invariant of the `IdAllocator` transition system (Babylon/IdAlloc/Model.lean) and
  its preservation by every step.  Stated over the ghost free list `s.fl`:

  * the chain from `headV` through `next` is exactly `fl`, ends in `FREE_LIST_TAIL`, has no
    duplicates, all its members are minted (`< nv`), unowned and not being pushed;
  * ids `≥ nv` are unowned; an id being pushed (thread in d0/d1/d2) is unowned, not in the chain, and
    pushed by one thread only;
  * a pending pop's snapshot `(cv, cg)`: `cg ≤ headG`, and if no push happened since (`headG = cg`)
    then `cv` is still the head or has left the chain, and the `next` value read is still current
    when the CAS can succeed;
  * flag bookkeeping for `for_each`: an owned id is flagged ACTIVE unless its allocate has not yet
    stored the flag (a3 / an2); every minted id is in the chain, owned, or being pushed.

  Hypotheses on the execution (not provable, see `ida_wrap_counterexample`):
  `NoWrap` (fewer than 2^W pushes between the head load and the CAS of one allocate) and `Cap`
  (fewer than 2^W - 2 ids minted, so that ids never collide with the two sentinels).
-/
import Babylon.IdAlloc.Model
import Babylon.Core.Reach

namespace Babylon.IdAlloc
open Babylon.Core Babylon.Gen.IdAlloc

@[simp] theorem upd_same {α : Type} (f : Nat → α) (i : Nat) (v : α) : upd f i v i = v := by simp [upd]
theorem upd_other {α : Type} (f : Nat → α) {i j : Nat} (v : α) (h : j ≠ i) : upd f i v j = f j := by
  simp [upd, h]

/-- walking `next` from `h` visits exactly the list `l` and then reaches `tl` -/
def chainOK (tl : Nat) (next : Nat → Nat) : Nat → List Nat → Prop
  | h, [] => h = tl
  | h, x :: xs => h = x ∧ chainOK tl next (next x) xs

theorem chainOK_upd {tl : Nat} {next : Nat → Nat} {x v : Nat} :
    ∀ {l : List Nat} {h : Nat}, x ∉ l → chainOK tl next h l → chainOK tl (upd next x v) h l
  | [], _, _, hc => hc
  | y :: ys, h, hx, hc => by
    have hxy : y ≠ x := fun e => hx (by simp [e])
    have hx' : x ∉ ys := fun e => hx (by simp [e])
    refine ⟨hc.1, ?_⟩
    rw [upd_other _ _ hxy]
    exact chainOK_upd hx' hc.2

/-- the successor of a chain member is a chain member or the tail sentinel -/
theorem chainOK_next {tl : Nat} {next : Nat → Nat} {x : Nat} :
    ∀ {l : List Nat} {h : Nat}, chainOK tl next h l → x ∈ l → next x = tl ∨ next x ∈ l
  | [], _, _, hx => by simp at hx
  | y :: ys, h, hc, hx => by
    rcases List.mem_cons.mp hx with rfl | hx
    · cases ys with
      | nil => left; exact hc.2
      | cons z zs => right; simp [hc.2.1]
    · rcases chainOK_next hc.2 hx with h1 | h1
      · exact Or.inl h1
      · exact Or.inr (List.mem_cons_of_mem _ h1)

/-- the id a thread is pushing -/
def Pc.transit : Pc → Option Nat
  | .d0 id => some id
  | .d1 id _ _ => some id
  | .d2 id _ _ => some id
  | _ => none

/-- **NoWrap**: while a thread sits between the head load and the CAS of `allocate` (it has read
the head with ghost version `cg`), fewer than `2^W` pushes have completed since that load. -/
def NoWrap (c : Cfg) (s : State) : Prop :=
  ∀ t cv cg nr, s.pc t = .a2 cv cg nr → s.headG - cg < 2 ^ c.W

/-- **Cap**: at most `2^W - 2` ids were ever minted (ids stay below both sentinels; the code
documents "at most 65534 live threads" for `W = 16`). -/
def Cap (c : Cfg) (s : State) : Prop := s.nv ≤ c.active

/-- executions all of whose states satisfy `P` -/
def StepR (c : Cfg) (P : State → Prop) (s s' : State) : Prop := Step c s s' ∧ P s'

/-- per-thread part of the invariant -/
def TInv (c : Cfg) (s : State) (t : Nat) : Pc → Prop
  | .a1 cv cg => cv ≠ c.tail ∧ cg ≤ s.headG ∧ (s.headG = cg → cv ∈ s.fl → s.headV = cv)
  | .a2 cv cg nr => cv ≠ c.tail ∧ cg ≤ s.headG ∧ (s.headG = cg → cv ∈ s.fl → s.headV = cv) ∧
      (s.headV = cv → s.headG = cg → s.next cv = nr)
  | .a3 cv _ => s.owner cv = some t
  | .an2 v => s.owner v = some t
  | .d0 id => s.owner id = none ∧ id < s.nv ∧ id ∉ s.fl
  | .d1 id _ _ => s.owner id = none ∧ id < s.nv ∧ id ∉ s.fl
  | .d2 id cv _ => s.owner id = none ∧ id < s.nv ∧ id ∉ s.fl ∧ s.next id = cv
  | _ => True

structure Inv (c : Cfg) (s : State) : Prop where
  chain : chainOK c.tail s.next s.headV s.fl
  nodup : s.fl.Nodup
  flmem : ∀ x ∈ s.fl, x < s.nv ∧ s.owner x = none
  high : ∀ x, s.nv ≤ x → s.owner x = none
  thr : ∀ t, TInv c s t (s.pc t)
  uniq : ∀ t u id, (s.pc t).transit = some id → (s.pc u).transit = some id → t = u
  nd : s.dup = false
  cap : s.nv ≤ c.active
  flag : ∀ x u, s.owner x = some u → (s.pc u).fresh = some x ∨ s.next x = c.active
  noleak : ∀ x, x < s.nv → x ∈ s.fl ∨ s.owner x ≠ none ∨ ∃ t, (s.pc t).transit = some x

theorem active_le_tail (c : Cfg) : c.active ≤ c.tail := by
  unfold Cfg.active Cfg.tail; omega

theorem Inv.mem_lt_tail {c : Cfg} {s : State} (h : Inv c s) {x : Nat} (hx : x ∈ s.fl) : x < c.tail := by
  have := (h.flmem x hx).1
  have := h.cap
  have := active_le_tail c
  omega

/-- a non-tail head is the first element of the free list -/
theorem Inv.head_cons {c : Cfg} {s : State} (h : Inv c s) (hv : s.headV ≠ c.tail) :
    ∃ xs, s.fl = s.headV :: xs := by
  have hc := h.chain
  cases hfl : s.fl with
  | nil => rw [hfl] at hc; exact absurd hc hv
  | cons y ys => rw [hfl] at hc; exact ⟨ys, by rw [hc.1]⟩

theorem Inv.init (c : Cfg) : Inv c (State.init c) where
  chain := rfl
  nodup := List.nodup_nil
  flmem := by intro x hx; simp [State.init] at hx
  high := by intro x _; rfl
  thr := by intro t; simp [State.init, TInv]
  uniq := by intro t u id h; simp [State.init, Pc.transit] at h
  nd := rfl
  cap := Nat.zero_le _
  flag := by intro x u h; simp [State.init] at h
  noleak := by intro x hx; simp [State.init] at hx


theorem Inv.head_mem {c : Cfg} {s : State} (h : Inv c s) (hv : s.headV ≠ c.tail) : s.headV ∈ s.fl := by
  obtain ⟨xs, hxs⟩ := h.head_cons hv; rw [hxs]; simp

theorem transit_upd {s : State} {t : Nat} {p : Pc} (htr : p.transit = (s.pc t).transit) :
    ∀ v, (upd s.pc t p v).transit = (s.pc v).transit := by
  intro v; by_cases hv : v = t
  · subst hv; simp [htr]
  · simp [upd_other _ _ hv]

theorem Inv.setPc {c : Cfg} {s : State} (h : Inv c s) (t : Nat) (p : Pc) (hp : TInv c s t p)
    (htr : p.transit = (s.pc t).transit) (hfr : p.fresh = (s.pc t).fresh)
    (r : Nat → Option (Nat × Nat)) (b : Nat → Nat) :
    Inv c { s with pc := upd s.pc t p, result := r, bound := b } where
  chain := h.chain
  nodup := h.nodup
  flmem := h.flmem
  high := h.high
  thr := by
    intro u
    by_cases hu : u = t
    · subst hu; simp only [upd_same]; exact hp
    · simp only [upd_other _ _ hu]; exact h.thr u
  uniq := by
    intro u w id
    simp only [transit_upd htr]; exact h.uniq u w id
  nd := h.nd
  cap := h.cap
  flag := by
    intro x u hx
    have key : (upd s.pc t p u).fresh = (s.pc u).fresh := by
      by_cases hv : u = t
      · subst hv; simp [hfr]
      · simp [upd_other _ _ hv]
    simp only [key]; exact h.flag x u hx
  noleak := by
    intro x hx
    simp only [transit_upd htr]; exact h.noleak x hx

theorem fresh_upd {s : State} {t : Nat} {p : Pc} (hfr : p.fresh = (s.pc t).fresh) :
    ∀ v, (upd s.pc t p v).fresh = (s.pc v).fresh := by
  intro v; by_cases hv : v = t
  · subst hv; simp [hfr]
  · simp [upd_other _ _ hv]

/-- a3 / an2: the allocating thread stores the ACTIVE flag and returns -/
theorem Inv.storeFlag {c : Cfg} {s : State} (h : Inv c s) {t cv : Nat}
    (hpc : (∃ cg, s.pc t = .a3 cv cg) ∨ s.pc t = .an2 cv) (r : Nat → Option (Nat × Nat)) :
    Inv c { s with next := upd s.next cv c.active, result := r, pc := upd s.pc t .idle } := by
  have hown : s.owner cv = some t := by
    have := h.thr t
    rcases hpc with ⟨cg, hpc⟩ | hpc <;> (rw [hpc] at this; exact this)
  have hfr : (s.pc t).fresh = some cv := by
    rcases hpc with ⟨cg, hpc⟩ | hpc <;> simp [hpc, Pc.fresh]
  have hnfl : cv ∉ s.fl := fun hm => by have := (h.flmem cv hm).2; simp [hown] at this
  have htr : (Pc.idle).transit = (s.pc t).transit := by
    rcases hpc with ⟨cg, hpc⟩ | hpc <;> simp [hpc, Pc.transit]
  refine { chain := chainOK_upd hnfl h.chain, nodup := h.nodup, flmem := h.flmem, high := h.high,
           nd := h.nd, cap := h.cap, thr := ?_, uniq := ?_, flag := ?_, noleak := ?_ }
  · intro u
    by_cases hu : u = t
    · subst hu; simp [TInv]
    · simp only [upd_other _ _ hu]
      have hhead := h.head_mem
      have hfl := h.flmem
      have hu' := h.thr u
      cases hp : s.pc u <;> rw [hp] at hu' <;> simp only [TInv] at hu' ⊢ <;> try exact hu'
      · grind [upd]
      · grind [upd]
  · intro u w id
    simp only [transit_upd htr]; exact h.uniq u w id
  · intro x u hx
    have := h.flag x u hx
    by_cases hv : u = t
    · subst hv; simp [hfr] at this ⊢; grind [upd]
    · simp [upd_other _ _ hv]; grind [upd]
  · intro x hx
    simp only [transit_upd htr]; exact h.noleak x hx

/-- an: mint a new id -/
theorem Inv.mint {c : Cfg} {s : State} (h : Inv c s) {t : Nat} (hpc : s.pc t = .an)
    (hcap : s.nv + 1 ≤ c.active) :
    Inv c { s with nv := s.nv + 1, owner := upd s.owner s.nv (some t),
                   dup := s.dup || (s.owner s.nv).isSome, pc := upd s.pc t (.an2 s.nv) } := by
  have htr : (Pc.an2 s.nv).transit = (s.pc t).transit := by simp [hpc, Pc.transit]
  have hhigh := h.high
  have hfl := h.flmem
  refine { chain := h.chain, nodup := h.nodup, flmem := ?flmem, high := ?high,
           nd := ?nd, cap := hcap, thr := ?thr, uniq := ?uniq, flag := ?flag, noleak := ?noleak }
  case flmem => intro x hx; have := hfl x hx; simp only; grind [upd]
  case high => intro x hx; simp only at hx ⊢; grind [upd]
  case nd => simp [h.nd, hhigh s.nv (Nat.le_refl _)]
  case thr =>
    intro u
    by_cases hu : u = t
    · subst hu; simp [TInv]
    · simp only [upd_other _ _ hu]
      have hu' := h.thr u
      cases hp : s.pc u <;> rw [hp] at hu' <;> simp only [TInv] at hu' ⊢ <;> try exact hu'
      all_goals grind [upd]
  case uniq =>
    intro u w id
    simp only [transit_upd htr]; exact h.uniq u w id
  case flag =>
    intro x u hx
    simp only at hx ⊢
    by_cases hxn : x = s.nv
    · subst hxn; simp at hx; subst hx; simp [Pc.fresh]
    · rw [upd_other _ _ hxn] at hx
      have := h.flag x u hx
      by_cases hv : u = t
      · subst hv; simp [hpc, Pc.fresh] at this; exact Or.inr this
      · simpa [upd_other _ _ hv] using this
  case noleak =>
    intro x hx
    simp only [transit_upd htr]
    simp only at hx
    by_cases hxn : x = s.nv
    · subst hxn; right; left; simp
    · have := h.noleak x (by omega)
      grind [upd]

/-- d1: store the link of the id being pushed -/
theorem Inv.link {c : Cfg} {s : State} (h : Inv c s) {t id cv cg : Nat} (hpc : s.pc t = .d1 id cv cg) :
    Inv c { s with next := upd s.next id cv, pc := upd s.pc t (.d2 id cv cg) } := by
  have ht : s.owner id = none ∧ id < s.nv ∧ id ∉ s.fl := by have := h.thr t; rw [hpc] at this; exact this
  have htr : (Pc.d2 id cv cg).transit = (s.pc t).transit := by simp [hpc, Pc.transit]
  have hfr : (Pc.d2 id cv cg).fresh = (s.pc t).fresh := by simp [hpc, Pc.fresh]
  refine { chain := chainOK_upd ht.2.2 h.chain, nodup := h.nodup, flmem := h.flmem, high := h.high,
           nd := h.nd, cap := h.cap, thr := ?_, uniq := ?_, flag := ?_, noleak := ?_ }
  · intro u
    by_cases hu : u = t
    · subst hu; simp [TInv, ht]
    · simp only [upd_other _ _ hu]
      have hhead := h.head_mem
      have hu' := h.thr u
      have huniq := h.uniq u t
      cases hp : s.pc u <;> rw [hp] at hu' <;> simp only [TInv] at hu' ⊢ <;> try exact hu'
      · grind [upd]
      · rw [hp, hpc] at huniq; simp [Pc.transit] at huniq; grind [upd]
  · intro u w id
    simp only [transit_upd htr]; exact h.uniq u w id
  · intro x u hx
    simp only [fresh_upd hfr]
    have := h.flag x u hx
    grind [upd]
  · intro x hx
    simp only [transit_upd htr]; exact h.noleak x hx

theorem chainOK_head_mem {tl : Nat} {next : Nat → Nat} {h : Nat} {l : List Nat}
    (hc : chainOK tl next h l) (hh : h ≠ tl) : h ∈ l := by
  cases l with
  | nil => exact absurd hc hh
  | cons y ys => simp [hc.1]

/-- a2, CAS succeeds: pop -/
theorem Inv.pop {c : Cfg} {s : State} (h : Inv c s) (hnw : NoWrap c s) {t cv cg nr : Nat}
    (hpc : s.pc t = .a2 cv cg nr) (hV : s.headV = cv) (hG : s.headG % 2 ^ c.W = cg % 2 ^ c.W) :
    Inv c { s with headV := nr, owner := upd s.owner cv (some t), dup := s.dup || (s.owner cv).isSome,
                   pc := upd s.pc t (.a3 cv cg), fl := s.fl.tail } := by
  have ht := h.thr t
  rw [hpc] at ht
  obtain ⟨hcvt, hle, _, hK⟩ := ht
  have hGe : s.headG = cg := by
    have h1 := hnw t cv cg nr hpc
    have h2 : s.headG = cg + (s.headG - cg) := by omega
    generalize s.headG - cg = d at h1 h2
    rw [h2, Nat.add_mod] at hG
    rw [Nat.mod_eq_of_lt h1] at hG
    have h3 := Nat.mod_lt cg (Nat.two_pow_pos c.W)
    by_cases hd : d = 0
    · omega
    · exfalso
      by_cases h4 : cg % 2 ^ c.W + d < 2 ^ c.W
      · rw [Nat.mod_eq_of_lt h4] at hG; omega
      · have h5 : cg % 2 ^ c.W + d = 2 ^ c.W + (cg % 2 ^ c.W + d - 2 ^ c.W) := by omega
        rw [h5, Nat.add_mod_left, Nat.mod_eq_of_lt (by omega)] at hG
        omega
  have hnext : s.next cv = nr := hK hV hGe
  obtain ⟨xs, hxs⟩ := h.head_cons (by rw [hV]; exact hcvt)
  rw [hV] at hxs
  have hchain := h.chain
  have hnod := h.nodup
  rw [hxs] at hchain hnod
  have hcvx : cv ∉ xs := (List.nodup_cons.mp hnod).1
  have hnodx : xs.Nodup := (List.nodup_cons.mp hnod).2
  have hfl := h.flmem
  rw [hxs] at hfl
  have hcvo : s.owner cv = none := (hfl cv (by simp)).2
  have hcvn : cv < s.nv := (hfl cv (by simp)).1
  have hchx : chainOK c.tail s.next nr xs := by rw [← hnext]; exact hchain.2
  have htr : (Pc.a3 cv cg).transit = (s.pc t).transit := by simp [hpc, Pc.transit]
  have hhigh := h.high
  refine { chain := ?chain, nodup := ?nodup, flmem := ?flmem, high := ?high,
           nd := ?nd, cap := h.cap, thr := ?thr, uniq := ?uniq, flag := ?flag, noleak := ?noleak }
  case chain => simp only [hxs, List.tail_cons]; exact hchx
  case nodup => simp only [hxs, List.tail_cons]; exact hnodx
  case flmem =>
    simp only [hxs, List.tail_cons]
    intro x hx
    have := hfl x (List.mem_cons_of_mem _ hx)
    have hne : x ≠ cv := fun e => hcvx (e ▸ hx)
    rw [upd_other _ _ hne]; exact this
  case high =>
    intro x hx; simp only at hx ⊢
    have hne : x ≠ cv := by omega
    rw [upd_other _ _ hne]; exact hhigh x hx
  case nd => simp [h.nd, hcvo]
  case thr =>
    intro u
    by_cases hu : u = t
    · subst hu; simp [TInv]
    · simp only [upd_other _ _ hu, hxs, List.tail_cons]
      have hu' := h.thr u
      have hmemx : ∀ x, x ∈ xs → x ∈ s.fl := fun x hx => by rw [hxs]; exact List.mem_cons_of_mem _ hx
      have hnrx : nr ≠ c.tail → nr ∈ xs := chainOK_head_mem hchx
      have hcvfl : cv ∈ s.fl := by rw [hxs]; simp
      have hflo := h.flmem
      cases hp : s.pc u <;> rw [hp] at hu' <;> simp only [TInv] at hu' ⊢ <;> try exact hu'
      all_goals grind [upd]
  case uniq =>
    intro u w id
    simp only [transit_upd htr]; exact h.uniq u w id
  case flag =>
    intro x u hx
    simp only at hx ⊢
    by_cases hxn : x = cv
    · subst hxn; simp at hx; subst hx; simp [Pc.fresh]
    · rw [upd_other _ _ hxn] at hx
      have := h.flag x u hx
      by_cases hv : u = t
      · subst hv; simp [hpc, Pc.fresh] at this; exact Or.inr this
      · simpa [upd_other _ _ hv] using this
  case noleak =>
    intro x hx
    simp only [transit_upd htr, hxs, List.tail_cons]
    have := h.noleak x hx
    rw [hxs] at this
    by_cases hxn : x = cv
    · subst hxn; right; left; simp
    · rw [upd_other _ _ hxn]; simpa [hxn] using this

/-- d2, CAS succeeds: push.  Needs no NoWrap: a push only relies on the head *value* being current. -/
theorem Inv.push {c : Cfg} {s : State} (h : Inv c s) {t id cv cg : Nat}
    (hpc : s.pc t = .d2 id cv cg) (hV : s.headV = cv) :
    Inv c { s with headV := id, headG := s.headG + pushVersionBump, pc := upd s.pc t .idle,
                   fl := id :: s.fl } := by
  have ht := h.thr t
  rw [hpc] at ht
  obtain ⟨hown, hlt, hnfl, hnext⟩ := ht
  have htr : ∀ v x, (upd s.pc t .idle v).transit = some x → v ≠ t ∧ (s.pc v).transit = some x := by
    intro v x; by_cases hv : v = t
    · subst hv; simp [Pc.transit]
    · simp [upd_other _ _ hv, hv]
  have hfr : (Pc.idle).fresh = (s.pc t).fresh := by simp [hpc, Pc.fresh]
  have hbump : pushVersionBump = 1 := rfl
  refine { chain := ?chain, nodup := ?nodup, flmem := ?flmem, high := h.high,
           nd := h.nd, cap := h.cap, thr := ?thr, uniq := ?uniq, flag := ?flag, noleak := ?noleak }
  case chain => exact ⟨rfl, by rw [hnext, ← hV]; exact h.chain⟩
  case nodup => exact List.nodup_cons.mpr ⟨hnfl, h.nodup⟩
  case flmem =>
    intro x hx
    rcases List.mem_cons.mp hx with rfl | hx
    · exact ⟨hlt, hown⟩
    · exact h.flmem x hx
  case thr =>
    intro u
    by_cases hu : u = t
    · subst hu; simp [TInv]
    · simp only [upd_other _ _ hu, hbump]
      have hu' := h.thr u
      have huniq := h.uniq u t
      rw [hpc] at huniq
      cases hp : s.pc u <;> rw [hp] at hu' huniq <;> simp only [TInv, Pc.transit] at hu' huniq ⊢ <;> try exact hu'
      all_goals grind
  case uniq =>
    intro u w x hu hw
    exact h.uniq u w x (htr u x hu).2 (htr w x hw).2
  case flag =>
    intro x u hx
    simp only [fresh_upd hfr]; exact h.flag x u hx
  case noleak =>
    intro x hx
    rcases h.noleak x hx with h1 | h1 | ⟨w, hw⟩
    · left; exact List.mem_cons_of_mem _ h1
    · right; left; exact h1
    · by_cases hwt : w = t
      · subst hwt; rw [hpc] at hw; simp [Pc.transit] at hw; left; simp [hw]
      · right; right; exact ⟨w, by simpa [upd_other _ _ hwt] using hw⟩

/-- an idle owner calls deallocate -/
theorem Inv.callDealloc {c : Cfg} {s : State} (h : Inv c s) {t id : Nat}
    (hpc : s.pc t = .idle) (hown : s.owner id = some t) : Inv c (callDealloc s t id) := by
  have hlt : id < s.nv := by
    by_cases hh : id < s.nv
    · exact hh
    · have := h.high id (by omega); simp [hown] at this
  have hnfl : id ∉ s.fl := fun hm => by have := (h.flmem id hm).2; simp [hown] at this
  unfold Babylon.IdAlloc.callDealloc
  refine { chain := h.chain, nodup := h.nodup, flmem := ?flmem, high := ?high,
           nd := h.nd, cap := h.cap, thr := ?thr, uniq := ?uniq, flag := ?flag, noleak := ?noleak }
  case flmem =>
    intro x hx; have := h.flmem x hx; simp only; grind [upd]
  case high =>
    intro x hx; have := h.high x hx; simp only; grind [upd]
  case thr =>
    intro u
    by_cases hu : u = t
    · subst hu; simp [TInv, hlt, hnfl]
    · simp only [upd_other _ _ hu]
      have hu' := h.thr u
      cases hp : s.pc u <;> rw [hp] at hu' <;> simp only [TInv] at hu' ⊢ <;> try exact hu'
      all_goals grind [upd]
  case uniq =>
    intro u w x hu hw
    simp only at hu hw
    have key : ∀ v, v ≠ t → (s.pc v).transit = some id → False := by
      intro v _ hv
      have hv' := h.thr v
      cases hp : s.pc v <;> rw [hp] at hv' hv <;> simp only [TInv, Pc.transit] at hv' hv <;> grind
    by_cases hut : u = t <;> by_cases hwt : w = t
    · rw [hut, hwt]
    · subst hut; simp [upd_other _ _ hwt, Pc.transit] at hu hw; subst hu; exact (key w hwt hw).elim
    · subst hwt; simp [upd_other _ _ hut, Pc.transit] at hu hw; subst hw; exact (key u hut hu).elim
    · simp [upd_other _ _ hut, upd_other _ _ hwt] at hu hw; exact h.uniq u w x hu hw
  case flag =>
    intro x u hx
    simp only at hx ⊢
    have hxn : x ≠ id := by intro e; subst e; simp at hx
    rw [upd_other _ _ hxn] at hx
    have := h.flag x u hx
    by_cases hv : u = t
    · subst hv; simp [hpc, Pc.fresh] at this; exact Or.inr this
    · simpa [upd_other _ _ hv] using this
  case noleak =>
    intro x hx
    simp only at hx ⊢
    by_cases hxn : x = id
    · subst hxn; right; right; exact ⟨t, by simp [Pc.transit]⟩
    · rcases h.noleak x hx with h1 | h1 | ⟨w, hw⟩
      · exact Or.inl h1
      · right; left; rw [upd_other _ _ hxn]; exact h1
      · right; right
        have hwt : w ≠ t := by intro e; subst e; rw [hpc] at hw; simp [Pc.transit] at hw
        exact ⟨w, by simpa [upd_other _ _ hwt] using hw⟩

/-- ghost hand-off of an id whose allocate has returned -/
theorem Inv.give {c : Cfg} {s : State} (h : Inv c s) {t u id : Nat}
    (hown : s.owner id = some t) (hfr : (s.pc t).fresh ≠ some id) : Inv c (giveId s id u) := by
  have hlt : id < s.nv := by
    by_cases hh : id < s.nv
    · exact hh
    · have := h.high id (by omega); simp [hown] at this
  unfold giveId
  refine { chain := h.chain, nodup := h.nodup, flmem := ?flmem, high := ?high,
           nd := h.nd, cap := h.cap, thr := ?thr, uniq := h.uniq, flag := ?flag, noleak := ?noleak }
  case flmem =>
    intro x hx; have := h.flmem x hx; simp only; grind [upd]
  case high =>
    intro x hx; have := h.high x hx; simp only at hx ⊢; grind [upd]
  case thr =>
    intro w
    have hw' := h.thr w
    simp only
    cases hp : s.pc w <;> rw [hp] at hw' <;> simp only [TInv] at hw' ⊢ <;> try exact hw'
    all_goals (first | grind [upd] | (by_cases hwt : w = t <;> grind [upd, Pc.fresh]))
  case flag =>
    intro x w hx
    simp only at hx ⊢
    by_cases hxn : x = id
    · subst hxn; simp at hx; subst hx
      rcases h.flag x t hown with h1 | h1
      · exact absurd h1 hfr
      · exact Or.inr h1
    · rw [upd_other _ _ hxn] at hx; exact h.flag x w hx
  case noleak =>
    intro x hx
    rcases h.noleak x hx with h1 | h1 | h1
    · exact Or.inl h1
    · right; left; simp only; grind [upd]
    · exact Or.inr (Or.inr h1)

theorem TInv_allocLoop {c : Cfg} {s : State} (t : Nat) : TInv c s t (allocLoop c s.headV s.headG) := by
  unfold allocLoop
  split
  · trivial
  · rename_i hne; exact ⟨hne, Nat.le_refl _, fun _ _ => rfl⟩

theorem allocLoop_transit (c : Cfg) (a b : Nat) : (allocLoop c a b).transit = none := by
  unfold allocLoop; split <;> rfl
theorem allocLoop_fresh (c : Cfg) (a b : Nat) : (allocLoop c a b).fresh = none := by
  unfold allocLoop; split <;> rfl

/-- every atomic action preserves the invariant (given NoWrap before and Cap after) -/
theorem Inv.act {c : Cfg} {s s' : State} {t : Nat} {sp : Bool} {l : Label} (h : Inv c s)
    (hnw : NoWrap c s) (hst : stepThread c s t sp = some (s', l)) (hcap : Cap c s') : Inv c s' := by
  unfold stepThread at hst
  cases hpc : s.pc t <;> rw [hpc] at hst <;> simp only at hst
  case idle => simp at hst
  case a0 =>
    simp only [Option.some.injEq, Prod.mk.injEq] at hst
    rw [← hst.1]
    exact h.setPc t _ (TInv_allocLoop t) (by rw [allocLoop_transit, hpc]; rfl)
      (by rw [allocLoop_fresh, hpc]; rfl) s.result s.bound
  case a1 cv cg =>
    simp only [Option.some.injEq, Prod.mk.injEq] at hst
    rw [← hst.1]
    have ht := h.thr t; rw [hpc] at ht
    exact h.setPc t _ (show TInv c s t (.a2 cv cg (s.next cv)) from ⟨ht.1, ht.2.1, ht.2.2, fun _ _ => rfl⟩) (by simp [hpc, Pc.transit])
      (by simp [hpc, Pc.fresh]) s.result s.bound
  case a2 cv cg nr =>
    split at hst
    · rename_i hhit
      simp only [Option.some.injEq, Prod.mk.injEq] at hst
      rw [← hst.1]
      exact h.pop hnw hpc hhit.1.1 hhit.1.2
    · simp only [Option.some.injEq, Prod.mk.injEq] at hst
      rw [← hst.1]
      exact h.setPc t _ (TInv_allocLoop t) (by rw [allocLoop_transit, hpc]; rfl)
        (by rw [allocLoop_fresh, hpc]; rfl) s.result s.bound
  case a3 cv cg =>
    simp only [Option.some.injEq, Prod.mk.injEq] at hst
    rw [← hst.1]
    exact h.storeFlag (Or.inl ⟨cg, hpc⟩) _
  case an =>
    simp only [Option.some.injEq, Prod.mk.injEq] at hst
    rw [← hst.1] at hcap ⊢
    exact h.mint hpc hcap
  case an2 v =>
    simp only [Option.some.injEq, Prod.mk.injEq] at hst
    rw [← hst.1]
    exact h.storeFlag (Or.inr hpc) _
  case d0 id =>
    simp only [Option.some.injEq, Prod.mk.injEq] at hst
    rw [← hst.1]
    have ht := h.thr t; rw [hpc] at ht
    exact h.setPc t _ (show TInv c s t (.d1 id s.headV s.headG) from ht) (by simp [hpc, Pc.transit]) (by simp [hpc, Pc.fresh]) s.result s.bound
  case d1 id cv cg =>
    simp only [Option.some.injEq, Prod.mk.injEq] at hst
    rw [← hst.1]
    exact h.link hpc
  case d2 id cv cg =>
    split at hst
    · rename_i hhit
      simp only [Option.some.injEq, Prod.mk.injEq] at hst
      rw [← hst.1]
      exact h.push hpc hhit.1.1
    · simp only [Option.some.injEq, Prod.mk.injEq] at hst
      rw [← hst.1]
      have ht := h.thr t; rw [hpc] at ht
      exact h.setPc t _ (show TInv c s t (.d1 id s.headV s.headG) from ⟨ht.1, ht.2.1, ht.2.2.1⟩) (by simp [hpc, Pc.transit]) (by simp [hpc, Pc.fresh]) s.result s.bound
  case e0 =>
    simp only [Option.some.injEq, Prod.mk.injEq] at hst
    rw [← hst.1]
    exact h.setPc t .idle trivial (by simp [hpc, Pc.transit]) (by simp [hpc, Pc.fresh]) s.result _
  case fe0 =>
    simp only [Option.some.injEq, Prod.mk.injEq] at hst
    rw [← hst.1]
    exact h.setPc t .idle trivial (by simp [hpc, Pc.transit]) (by simp [hpc, Pc.fresh]) s.result _

theorem Inv.step {c : Cfg} {s s' : State} (h : Inv c s) (hnw : NoWrap c s) (hst : Step c s s')
    (hcap : Cap c s') : Inv c s' := by
  cases hst with
  | act t sp _ l hs => exact h.act hnw hs hcap
  | alloc t hpc =>
    exact h.setPc t .a0 trivial (by simp [hpc, Pc.transit]) (by simp [hpc, Pc.fresh]) s.result s.bound
  | dealloc t id hpc hown => exact h.callDealloc hpc hown
  | endc t hpc =>
    exact h.setPc t .e0 trivial (by simp [hpc, Pc.transit]) (by simp [hpc, Pc.fresh]) s.result s.bound
  | foreach t hpc =>
    exact h.setPc t .fe0 trivial (by simp [hpc, Pc.transit]) (by simp [hpc, Pc.fresh]) s.result s.bound
  | give t u id hown hfr => exact h.give hown hfr

/-- hypotheses on an execution: every state satisfies NoWrap and Cap -/
def Good (c : Cfg) (s : State) : Prop := NoWrap c s ∧ Cap c s

theorem good_init (c : Cfg) : Good c (State.init c) :=
  ⟨by intro t cv cg nr h; simp [State.init] at h, Nat.zero_le _⟩

theorem reach_inv {c : Cfg} {s : State}
    (hr : Reachable (· = State.init c) (StepR c (Good c)) s) : Inv c s ∧ Good c s := by
  refine Reachable.invariant (fun s => Inv c s ∧ Good c s) ?_ ?_ s hr
  · intro s hs; subst hs; exact ⟨Inv.init c, good_init c⟩
  · intro s s' ⟨hi, hg⟩ ⟨hst, hg'⟩
    exact ⟨hi.step hg.1 hst hg'.2, hg'⟩

end Babylon.IdAlloc
