/-
  Atomic-granularity model of `IdAllocator<T>` (src/babylon/concurrent/id_allocator.hpp):
  a Treiber-style free list whose head packs `(value, version)`; `allocate` pops (version
  kept) or mints `next_value++`; `deallocate` pushes with `version + 1`.

  One model step = one atomic operation of the real code (exactly what VRT observes), so the
  same `stepThread` serves the theorems (any interleaving = any sequence of `Step`s) and the
  lock-step trace replay of the real implementation (`Drivers/C14.lean`).

  `W` = width in bits of the value and of the version (16 for thread ids, 32 for deposit-box
  slots).  The model keeps the *untruncated* push count as a ghost (`headG`); what the code stores
  and compares is `headG % 2^W`.  `owner` is ghost ownership used to state uniqueness; `fl` is the
  ghost free list (the ids a successful push put on the stack and no successful pop removed yet).
  Ghost fields never influence a label or a non-ghost field.
  Core Lean only.
-/
import Babylon.Gen.IdAlloc
import Babylon.Core.Trace

namespace Babylon.IdAlloc
open Babylon.Core Babylon.Gen.IdAlloc

structure Cfg where
  W : Nat

def Cfg.tail (c : Cfg) : Nat := 2 ^ c.W - 1        -- FREE_LIST_TAIL
def Cfg.active (c : Cfg) : Nat := 2 ^ c.W - 2      -- ACTIVE_FLAG
def Cfg.pack (c : Cfg) (value ver : Nat) : Nat := value + (ver % 2 ^ c.W) * 2 ^ c.W

/-- program counter of one thread inside `allocate` / `deallocate`; the arguments are the locals
the C++ keeps (`current_head` = `(cv, cg)` with `cg` the ghost version read, `new_head.value`). -/
inductive Pc
  | idle
  | a0                          -- allocate: `free_head().load(acquire)`
  | a1 (cv cg : Nat)            -- `_free_next_value[cv].load(relaxed)`
  | a2 (cv cg nv : Nat)         -- `compare_exchange_weak(current_head, new_head, acq_rel)`
  | a3 (cv cg : Nat)            -- `_free_next_value[cv].store(ACTIVE_FLAG, relaxed)`
  | an                          -- `next_value().fetch_add(1, relaxed)`
  | an2 (v : Nat)               -- `_free_next_value.ensure(v).store(ACTIVE_FLAG, relaxed)`
  | d0 (id : Nat)               -- deallocate: `free_head().load(acquire)`
  | d1 (id cv cg : Nat)         -- `_free_next_value[id].store(cv, relaxed)`
  | d2 (id cv cg : Nat)         -- `compare_exchange_weak(current_head, id, release, acquire)`
  | e0                          -- `end()`: `next_value().load(acquire)`
  | fe0                         -- `for_each`: `next_value().load(acquire)`, then plain reads of the flags
  deriving DecidableEq, Repr, Inhabited

structure State where
  headV : Nat                   -- `_free_head.value`
  headG : Nat                   -- ghost: number of successful pushes; stored version = `headG % 2^W`
  next : Nat → Nat              -- `_free_next_value[i]`
  nv : Nat                      -- `_next_value`
  pc : Nat → Pc
  owner : Nat → Option Nat      -- ghost: which thread holds id `i`
  result : Nat → Option (Nat × Nat)   -- last value returned by `allocate` to a thread (value, version)
  bound : Nat → Nat             -- last `next_value` bound read by `end()` / `for_each` of a thread
  dup : Bool                    -- ghost: some allocation handed out an id that already had an owner
  fl : List Nat := []           -- ghost: the free stack as a list (head first)

def State.init (c : Cfg) : State :=
  { headV := c.tail, headG := 0, next := fun _ => 0, nv := 0, pc := fun _ => .idle,
    owner := fun _ => none, result := fun _ => none, bound := fun _ => 0, dup := false }

def upd {α : Type} (f : Nat → α) (i : Nat) (v : α) : Nat → α := fun j => if j = i then v else f j

abbrev Label := Act

/-- element size in bytes of `_free_next_value[i]` -/
def Cfg.bytes (c : Cfg) : Nat := c.W / 8

/-- the loop head `while (current_head.value != FREE_LIST_TAIL)` of `allocate` -/
def allocLoop (c : Cfg) (cv cg : Nat) : Pc := if cv = c.tail then .an else .a1 cv cg

/-- One atomic action of thread `t`.  `spurious`: a weak CAS that would succeed fails instead. -/
def stepThread (c : Cfg) (s : State) (t : Nat) (spurious : Bool) : Option (State × Label) :=
  match s.pc t with
  | .idle => none
  | .a0 =>
    some ({ s with pc := upd s.pc t (allocLoop c s.headV s.headG) },
          .ld "head" 0 .acq (c.pack s.headV s.headG))
  | .a1 cv cg =>
    some ({ s with pc := upd s.pc t (.a2 cv cg (s.next cv)) }, .ld "next" (cv * c.bytes) .rlx (s.next cv))
  | .a2 cv cg nv =>
    let hit := s.headV = cv ∧ s.headG % 2 ^ c.W = cg % 2 ^ c.W
    if hit ∧ ¬ spurious then
      -- pop: value := next, version kept; the id now belongs to `t`
      some ({ s with headV := nv, owner := upd s.owner cv (some t), dup := s.dup || (s.owner cv).isSome,
                     pc := upd s.pc t (.a3 cv cg), fl := s.fl.tail },
            .cas "head" 0 true .acqrel .acq (c.pack cv cg) (c.pack nv (cg + popVersionBump)) true (c.pack s.headV s.headG))
    else
      some ({ s with pc := upd s.pc t (allocLoop c s.headV s.headG) },
            .cas "head" 0 true .acqrel .acq (c.pack cv cg) (c.pack nv (cg + popVersionBump)) false (c.pack s.headV s.headG))
  | .a3 cv cg =>
    some ({ s with next := upd s.next cv c.active, result := upd s.result t (some (cv, cg % 2 ^ c.W)),
                   pc := upd s.pc t .idle },
          .st "next" (cv * c.bytes) .rlx c.active)
  | .an =>
    some ({ s with nv := s.nv + 1, owner := upd s.owner s.nv (some t), dup := s.dup || (s.owner s.nv).isSome,
                   pc := upd s.pc t (.an2 s.nv) },
          .rmw "add" "nv" 0 .rlx s.nv 1)
  | .an2 v =>
    some ({ s with next := upd s.next v c.active, result := upd s.result t (some (v, 0)),
                   pc := upd s.pc t .idle },
          .st "next" (v * c.bytes) .rlx c.active)
  | .e0 => some ({ s with bound := upd s.bound t s.nv, pc := upd s.pc t .idle }, .ld "nv" 0 .acq s.nv)
  | .fe0 => some ({ s with bound := upd s.bound t s.nv, pc := upd s.pc t .idle }, .ld "nv" 0 .acq s.nv)
  | .d0 id =>
    some ({ s with pc := upd s.pc t (.d1 id s.headV s.headG) }, .ld "head" 0 .acq (c.pack s.headV s.headG))
  | .d1 id cv cg =>
    some ({ s with next := upd s.next id cv, pc := upd s.pc t (.d2 id cv cg) }, .st "next" (id * c.bytes) .rlx cv)
  | .d2 id cv cg =>
    let hit := s.headV = cv ∧ s.headG % 2 ^ c.W = cg % 2 ^ c.W
    if hit ∧ ¬ spurious then
      some ({ s with headV := id, headG := s.headG + pushVersionBump, pc := upd s.pc t .idle, fl := id :: s.fl },
            .cas "head" 0 true .rel .acq (c.pack cv cg) (c.pack id (cg + pushVersionBump)) true (c.pack s.headV s.headG))
    else
      some ({ s with pc := upd s.pc t (.d1 id s.headV s.headG) },
            .cas "head" 0 true .rel .acq (c.pack cv cg) (c.pack id (cg + pushVersionBump)) false (c.pack s.headV s.headG))

/-- a thread that is idle calls `allocate()` -/
def callAlloc (s : State) (t : Nat) : State := { s with pc := upd s.pc t .a0 }
/-- a thread that is idle and owns `id` calls `deallocate(id)`; ownership ends at the call -/
def callDealloc (s : State) (t id : Nat) : State :=
  { s with pc := upd s.pc t (.d0 id), owner := upd s.owner id none }

/-- ids `for_each` reports when it runs with bound `n`: those whose flag is ACTIVE (run-length
encoded by the real code; the ranges are flattened here) -/
def forEachIds (c : Cfg) (s : State) (n : Nat) : List Nat :=
  (List.range n).filter (fun i => s.next i = c.active)

def callEnd (s : State) (t : Nat) : State := { s with pc := upd s.pc t .e0 }
/-- ghost hand-off: thread `t` passes an id it holds (its `allocate` has returned) to thread `u`,
who may then deallocate it (a deposit-box taker releases the slot the emplacer allocated) -/
def giveId (s : State) (id u : Nat) : State := { s with owner := upd s.owner id (some u) }
/-- the id whose `allocate` by this thread has obtained it but not yet returned it -/
def Pc.fresh : Pc → Option Nat
  | .a3 cv _ => some cv
  | .an2 v => some v
  | _ => none
def callForEach (s : State) (t : Nat) : State := { s with pc := upd s.pc t .fe0 }

/-- The transition relation: any thread performs its next atomic action, or an idle thread starts
a call that respects the client contract (only the owner deallocates, once). -/
inductive Step (c : Cfg) : State → State → Prop
  | act (s : State) (t : Nat) (sp : Bool) (s' : State) (l : Label) :
      stepThread c s t sp = some (s', l) → Step c s s'
  | alloc (s : State) (t : Nat) : s.pc t = .idle → Step c s (callAlloc s t)
  | dealloc (s : State) (t id : Nat) : s.pc t = .idle → s.owner id = some t → Step c s (callDealloc s t id)
  | endc (s : State) (t : Nat) : s.pc t = .idle → Step c s (callEnd s t)
  | foreach (s : State) (t : Nat) : s.pc t = .idle → Step c s (callForEach s t)
  | give (s : State) (t u id : Nat) : s.owner id = some t → (s.pc t).fresh ≠ some id → Step c s (giveId s id u)

/-- skeleton this model was written against (compared with the generated one in Properties/C14) -/
def Skel.allocate : List Site := [
  .load "free_head()" .acq,
  .load "_free_next_value[current_head.value]" .rlx,
  .cas "free_head()" false .acqrel .acq,
  .store "_free_next_value[current_head.value]" .rlx,
  .rmw "fetch_add" "next_value()" .rlx,
  .store "_free_next_value.ensure(current_head.value)" .rlx,
  .call "ensure"]
def Skel.deallocate : List Site := [
  .load "free_head()" .acq,
  .store "_free_next_value[id.value]" .rlx,
  .cas "free_head()" false .rel .acq]

end Babylon.IdAlloc
