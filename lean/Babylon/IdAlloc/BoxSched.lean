/-
  Explicit finite executions of the DepositBox model (for non-vacuity examples).  Core Lean only.
-/
import Babylon.IdAlloc.Box
import Babylon.Core.Reach

namespace Babylon.IdAlloc
open Babylon.Core

inductive BMove
  | act (t : Nat) (spurious : Bool)
  | emplace (t x : Nat)
  | take (t v r : Nat)
  | finish (t v : Nat)
  deriving Repr

def applyBMove (c : Cfg) (b : BState) : BMove → Option BState
  | .act t sp => (bstep c b t sp).map (·.1)
  | .emplace t x => if b.bpc t = .idle then some (callEmplace b t x) else none
  | .take t v r =>
    if b.bpc t = .idle ∧ (b.issued.any (fun i => i.1 = v ∧ i.2.1 = r)) = true then some (callTake b t v r) else none
  | .finish t v =>
    match b.ph v with
    | .held t' _ => if b.bpc t = .idle ∧ t' = t then some (callFinish b t v) else none
    | _ => none

theorem applyBMove_step {c : Cfg} {b b' : BState} {m : BMove} (h : applyBMove c b m = some b') : BStep c b b' := by
  cases m with
  | act t sp =>
    simp only [applyBMove, Option.map_eq_some_iff] at h
    obtain ⟨⟨b1, l⟩, h1, h2⟩ := h
    simp only at h2; subst h2
    exact BStep.act b t sp b1 l h1
  | emplace t x =>
    simp only [applyBMove] at h
    split at h
    · rename_i hp; simp only [Option.some.injEq] at h; subst h; exact BStep.emplace b t x hp
    · simp at h
  | take t v r =>
    simp only [applyBMove] at h
    split at h
    · rename_i hp; simp only [Option.some.injEq] at h; subst h
      obtain ⟨⟨v1, r1, x1⟩, hm, hx⟩ := List.any_eq_true.mp hp.2
      simp only [decide_eq_true_eq] at hx
      obtain ⟨rfl, rfl⟩ := hx
      exact BStep.take b t _ _ x1 hp.1 hm
    · simp at h
  | finish t v =>
    simp only [applyBMove] at h
    split at h
    · rename_i t' r hph
      split at h
      · rename_i hp; simp only [Option.some.injEq] at h; subst h
        exact BStep.finish b t v r hp.1 (by rw [hph, hp.2])
      · simp at h
    · simp at h

def brun (c : Cfg) (ok : BState → Bool) : BState → List BMove → Option BState
  | b, [] => some b
  | b, m :: ms =>
    match applyBMove c b m with
    | some b' => if ok b' then brun c ok b' ms else none
    | none => none

theorem brun_reachable {c : Cfg} {ok : BState → Bool} {P : BState → Prop} (hok : ∀ b, ok b = true → P b)
    {init : BState → Prop} :
    ∀ (ms : List BMove) (b b' : BState), Reachable init (fun x y => BStep c x y ∧ P y) b →
      brun c ok b ms = some b' → Reachable init (fun x y => BStep c x y ∧ P y) b'
  | [], b, b', hr, h => by simp only [brun, Option.some.injEq] at h; subst h; exact hr
  | m :: ms, b, b', hr, h => by
    simp only [brun] at h
    split at h
    · rename_i b1 h1
      split at h
      · rename_i hk
        exact brun_reachable hok ms b1 b' (Reachable.tail hr ⟨applyBMove_step h1, hok _ hk⟩) h
      · simp at h
    · simp at h

/-- whole calls executed without interference -/
def bmEmplaceMint (t x : Nat) : List BMove :=
  [.emplace t x, .act t false, .act t false, .act t false, .act t false, .act t false]
def bmEmplacePop (t x : Nat) : List BMove :=
  [.emplace t x, .act t false, .act t false, .act t false, .act t false, .act t false, .act t false]
def bmTake (t v r : Nat) : List BMove := [.take t v r, .act t false]
def bmFinish (t v : Nat) : List BMove := [.finish t v, .act t false, .act t false, .act t false]

end Babylon.IdAlloc
