/-
  Explicit finite executions of the `IdAllocator` transition system: a list of `Move`s is run by an
  executable function that checks every precondition of `Step`; a successful run is a `Step`-path
  (`run_reachable`).  Used for the wrap-around counterexample and the non-vacuity examples.
  Core Lean only.
-/
import Babylon.IdAlloc.Model
import Babylon.Core.Reach

namespace Babylon.IdAlloc
open Babylon.Core

inductive Move
  | act (t : Nat) (spurious : Bool)     -- thread `t` performs its next atomic action
  | alloc (t : Nat)                     -- idle thread `t` calls `allocate()`
  | dealloc (t id : Nat)                -- idle owner `t` calls `deallocate(id)`
  | endc (t : Nat)
  | foreach (t : Nat)
  | give (t u id : Nat)
  deriving Repr

def applyMove (c : Cfg) (s : State) : Move → Option State
  | .act t sp => (stepThread c s t sp).map (·.1)
  | .alloc t => if s.pc t = .idle then some (callAlloc s t) else none
  | .dealloc t id => if s.pc t = .idle ∧ s.owner id = some t then some (callDealloc s t id) else none
  | .endc t => if s.pc t = .idle then some (callEnd s t) else none
  | .foreach t => if s.pc t = .idle then some (callForEach s t) else none
  | .give t u id => if s.owner id = some t ∧ (s.pc t).fresh ≠ some id then some (giveId s id u) else none

theorem applyMove_step {c : Cfg} {s s' : State} {m : Move} (h : applyMove c s m = some s') : Step c s s' := by
  cases m with
  | act t sp =>
    simp only [applyMove, Option.map_eq_some_iff] at h
    obtain ⟨⟨s1, l⟩, h1, h2⟩ := h
    simp only at h2; subst h2
    exact Step.act s t sp s1 l h1
  | alloc t =>
    simp only [applyMove] at h
    split at h
    · rename_i hp; simp only [Option.some.injEq] at h; subst h; exact Step.alloc s t hp
    · simp at h
  | dealloc t id =>
    simp only [applyMove] at h
    split at h
    · rename_i hp; simp only [Option.some.injEq] at h; subst h; exact Step.dealloc s t id hp.1 hp.2
    · simp at h
  | endc t =>
    simp only [applyMove] at h
    split at h
    · rename_i hp; simp only [Option.some.injEq] at h; subst h; exact Step.endc s t hp
    · simp at h
  | foreach t =>
    simp only [applyMove] at h
    split at h
    · rename_i hp; simp only [Option.some.injEq] at h; subst h; exact Step.foreach s t hp
    · simp at h
  | give t u id =>
    simp only [applyMove] at h
    split at h
    · rename_i hp; simp only [Option.some.injEq] at h; subst h; exact Step.give s t u id hp.1 hp.2
    · simp at h

/-- run a schedule; every intermediate state (after each move) must satisfy the decidable check `ok` -/
def run (c : Cfg) (ok : State → Bool) : State → List Move → Option State
  | s, [] => some s
  | s, m :: ms =>
    match applyMove c s m with
    | some s' => if ok s' then run c ok s' ms else none
    | none => none

theorem run_reachable {c : Cfg} {ok : State → Bool} {P : State → Prop} (hok : ∀ s, ok s = true → P s)
    {init : State → Prop} :
    ∀ (ms : List Move) (s s' : State), Reachable init (fun a b => Step c a b ∧ P b) s →
      run c ok s ms = some s' → Reachable init (fun a b => Step c a b ∧ P b) s'
  | [], s, s', hr, h => by simp only [run, Option.some.injEq] at h; subst h; exact hr
  | m :: ms, s, s', hr, h => by
    simp only [run] at h
    split at h
    · rename_i s1 h1
      split at h
      · rename_i hk
        exact run_reachable hok ms s1 s' (Reachable.tail hr ⟨applyMove_step h1, hok _ hk⟩) h
      · simp at h
    · simp at h

/-- shorthand moves: a whole call executed without interference and without spurious CAS failure -/
def mvAllocPop (t : Nat) : List Move := [.alloc t, .act t false, .act t false, .act t false, .act t false]
def mvAllocMint (t : Nat) : List Move := [.alloc t, .act t false, .act t false, .act t false]
def mvDealloc (t id : Nat) : List Move := [.dealloc t id, .act t false, .act t false, .act t false]

end Babylon.IdAlloc
