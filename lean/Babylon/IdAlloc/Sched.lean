/-
  Explicit finite executions of the `IdAllocator` transition system: a list of `Move`s is run by an
  executable function that checks every precondition of `Step`; a successful run is a `Step`-path
  (`run_reachable`).  Used for the wrap-around counterexample and the non-vacuity examples.
  Core Lean only.
-/
import Babylon.IdAlloc.Model
import Babylon.Core.Reach

namespace Babylon.IdAlloc
open Babylon.Core

inductive Move
  | act (t : Nat) (spurious : Bool)     -- thread `t` performs its next atomic action
  | alloc (t : Nat)                     -- idle thread `t` calls `allocate()`
  | dealloc (t id : Nat)                -- idle owner `t` calls `deallocate(id)`
  | endc (t : Nat)
  | foreach (t : Nat)
  | give (t u id : Nat)
  deriving Repr

def applyMove (c : Cfg) (s : State) : Move → Option State
  | .act t sp => (stepThread c s t sp).map (·.1)
  | .alloc t => if s.pc t = .idle then some (callAlloc s t) else none
  | .dealloc t id => if s.pc t = .idle ∧ s.owner id = some t then some (callDealloc s t id) else none
  | .endc t => if s.pc t = .idle then some (callEnd s t) else none
  | .foreach t => if s.pc t = .idle then some (callForEach s t) else none
  | .give t u id => if s.owner id = some t ∧ (s.pc t).fresh ≠ some id then some (giveId s id u) else none

theorem applyMove_step {c : Cfg} {s s' : State} {m : Move} (h : applyMove c s m = some s') : Step c s s' := by
  cases m with
  | act t sp =>
    simp only [applyMove, Option.map_eq_some_iff] at h
    obtain ⟨⟨s1, l⟩, h1, h2⟩ := h
    simp only at h2; subst h2
    exact Step.act s t sp s1 l h1
  | alloc t =>
    simp only [applyMove] at h
    split at h
    · rename_i hp; simp only [Option.some.injEq] at h; subst h; exact Step.alloc s t hp
    · simp at h
  | dealloc t id =>
    simp only [applyMove] at h
    split at h
    · rename_i hp; simp only [Option.some.injEq] at h; subst h; exact Step.dealloc s t id hp.1 hp.2
    · simp at h
  | endc t =>
    simp only [applyMove] at h
    split at h
    · rename_i hp; simp only [Option.some.injEq] at h; subst h; exact Step.endc s t hp
    · simp at h
  | foreach t =>
    simp only [applyMove] at h
    split at h
    · rename_i hp; simp only [Option.some.injEq] at h; subst h; exact Step.foreach s t hp
    · simp at h
  | give t u id =>
    simp only [applyMove] at h
    split at h
    · rename_i hp; simp only [Option.some.injEq] at h; subst h; exact Step.give s t u id hp.1 hp.2
    · simp at h

/-- run a schedule; every intermediate state (after each move) must satisfy the decidable check `ok` -/
def run (c : Cfg) (ok : State → Bool) : State → List Move → Option State
  | s, [] => some s
  | s, m :: ms =>
    match applyMove c s m with
    | some s' => if ok s' then run c ok s' ms else none
    | none => none

theorem run_reachable {c : Cfg} {ok : State → Bool} {P : State → Prop} (hok : ∀ s, ok s = true → P s)
    {init : State → Prop} :
    ∀ (ms : List Move) (s s' : State), Reachable init (fun a b => Step c a b ∧ P b) s →
      run c ok s ms = some s' → Reachable init (fun a b => Step c a b ∧ P b) s'
  | [], s, s', hr, h => by simp only [run, Option.some.injEq] at h; subst h; exact hr
  | m :: ms, s, s', hr, h => by
    simp only [run] at h
    split at h
    · rename_i s1 h1
      split at h
      · rename_i hk
        exact run_reachable hok ms s1 s' (Reachable.tail hr ⟨applyMove_step h1, hok _ hk⟩) h
      · simp at h
    · simp at h

theorem upd_ne {α : Type} (f : Nat → α) {i j : Nat} (v : α) (h : j ≠ i) : upd f i v j = f j := by
  simp [upd, h]

/-- an atomic action changes the program counter of the acting thread only -/
theorem stepThread_pc_other {c : Cfg} {s s' : State} {t u : Nat} {sp : Bool} {l : Label}
    (h : stepThread c s t sp = some (s', l)) (hu : u ≠ t) : s'.pc u = s.pc u := by
  unfold stepThread at h
  cases hpc : s.pc t <;> rw [hpc] at h <;> simp only at h
  case idle => simp at h
  case a2 => split at h <;> (simp only [Option.some.injEq, Prod.mk.injEq] at h; rw [← h.1]; exact upd_ne _ _ hu)
  case d2 => split at h <;> (simp only [Option.some.injEq, Prod.mk.injEq] at h; rw [← h.1]; exact upd_ne _ _ hu)
  all_goals (simp only [Option.some.injEq, Prod.mk.injEq] at h; rw [← h.1]; exact upd_ne _ _ hu)

def Move.thread : Move → Nat
  | .act t _ => t | .alloc t => t | .dealloc t _ => t | .endc t => t | .foreach t => t | .give t _ _ => t

theorem applyMove_pc_other {c : Cfg} {s s' : State} {m : Move} {u : Nat}
    (h : applyMove c s m = some s') (hu : u ≠ m.thread) : s'.pc u = s.pc u := by
  cases m with
  | act t sp =>
    simp only [applyMove, Option.map_eq_some_iff] at h
    obtain ⟨⟨s1, l⟩, h1, h2⟩ := h
    simp only at h2; subst h2
    exact stepThread_pc_other h1 hu
  | alloc t =>
    simp only [applyMove] at h
    split at h
    · simp only [Option.some.injEq] at h; subst h; exact upd_ne _ _ hu
    · simp at h
  | dealloc t id =>
    simp only [applyMove] at h
    split at h
    · simp only [Option.some.injEq] at h; subst h; exact upd_ne _ _ hu
    · simp at h
  | endc t =>
    simp only [applyMove] at h
    split at h
    · simp only [Option.some.injEq] at h; subst h; exact upd_ne _ _ hu
    · simp at h
  | foreach t =>
    simp only [applyMove] at h
    split at h
    · simp only [Option.some.injEq] at h; subst h; exact upd_ne _ _ hu
    · simp at h
  | give t u' id =>
    simp only [applyMove] at h
    split at h
    · simp only [Option.some.injEq] at h; subst h; rfl
    · simp at h

theorem run_pc_other {c : Cfg} {ok : State → Bool} {n : Nat} :
    ∀ (ms : List Move) (s s' : State), run c ok s ms = some s' → (ms.all (fun m => m.thread < n)) = true →
      ∀ u, n ≤ u → s'.pc u = s.pc u
  | [], s, s', h, _, u, _ => by simp only [run, Option.some.injEq] at h; subst h; rfl
  | m :: ms, s, s', h, hall, u, hu => by
    simp only [run] at h
    simp only [List.all_cons, Bool.and_eq_true, decide_eq_true_eq] at hall
    split at h
    · rename_i s1 h1
      split at h
      · rw [run_pc_other ms s1 s' h hall.2 u hu]
        exact applyMove_pc_other h1 (by omega)
      · simp at h
    · simp at h

/-- decidable sufficient condition for "all threads idle" after a run that used threads `< n` only -/
theorem run_quiescent {c : Cfg} {ok : State → Bool} {n : Nat} {ms : List Move} {s s' : State}
    (h : run c ok s ms = some s') (hall : (ms.all (fun m => m.thread < n)) = true)
    (hs : ∀ u, n ≤ u → s.pc u = .idle)
    (hlow : ((List.range n).all (fun u => s'.pc u = .idle)) = true) : ∀ u, s'.pc u = .idle := by
  intro u
  by_cases hu : u < n
  · have := List.all_eq_true.mp hlow u (List.mem_range.mpr hu)
    simpa using this
  · rw [run_pc_other ms s s' h hall u (by omega)]; exact hs u (by omega)

/-- shorthand moves: a whole call executed without interference and without spurious CAS failure -/
def mvAllocPop (t : Nat) : List Move := [.alloc t, .act t false, .act t false, .act t false, .act t false]
def mvAllocMint (t : Nat) : List Move := [.alloc t, .act t false, .act t false, .act t false]
def mvDealloc (t id : Nat) : List Move := [.dealloc t id, .act t false, .act t false, .act t false]

end Babylon.IdAlloc
