/-
  Consequences of the invariant used by the property theorems: for_each at quiescence, reuse by a
  solitary allocate.
-/
import Babylon.IdAlloc.Lemmas

namespace Babylon.IdAlloc
open Babylon.Core Babylon.Gen.IdAlloc

/-- a free-list member never carries the ACTIVE flag (its `next` is another member or the tail) -/
theorem Inv.fl_not_active {c : Cfg} {s : State} (h : Inv c s) {x : Nat} (hx : x ∈ s.fl) :
    s.next x ≠ c.active := by
  have hxl := (h.flmem x hx).1
  have hcap := h.cap
  rcases chainOK_next h.chain hx with h1 | h1
  · rw [h1]; unfold Cfg.tail Cfg.active; unfold Cfg.active at hcap; omega
  · have := (h.flmem _ h1).1; omega

/-- an id being pushed is unowned, minted and not on the free list -/
theorem Inv.transit_props {c : Cfg} {s : State} (h : Inv c s) {u x : Nat}
    (hu : (s.pc u).transit = some x) : s.owner x = none ∧ x < s.nv ∧ x ∉ s.fl := by
  have hu' := h.thr u
  cases hp : s.pc u <;> rw [hp] at hu hu' <;> simp only [Pc.transit, TInv] at hu hu'
  case d0 => simp only [Option.some.injEq] at hu; subst hu; exact hu'
  case d1 => simp only [Option.some.injEq] at hu; subst hu; exact hu'
  case d2 => simp only [Option.some.injEq] at hu; subst hu; exact ⟨hu'.1, hu'.2.1, hu'.2.2.1⟩
  all_goals exact absurd hu (by simp)

def Quiescent (s : State) : Prop := ∀ t, s.pc t = .idle

/-- at quiescence the ACTIVE flag of a minted id says exactly whether it is owned -/
theorem Inv.flag_iff_owned {c : Cfg} {s : State} (h : Inv c s) (hq : Quiescent s) {i : Nat} (hi : i < s.nv) :
    s.next i = c.active ↔ (s.owner i).isSome = true := by
  constructor
  · intro hn
    rcases h.noleak i hi with h1 | h1 | ⟨t, ht⟩
    · exact absurd hn (h.fl_not_active h1)
    · cases ho : s.owner i with
      | none => exact absurd ho h1
      | some u => rfl
    · rw [hq t] at ht; simp [Pc.transit] at ht
  · intro ho
    cases hu : s.owner i with
    | none => rw [hu] at ho; simp at ho
    | some u =>
      rcases h.flag i u hu with h1 | h1
      · rw [hq u] at h1; simp [Pc.fresh] at h1
      · exact h1

theorem Inv.forEach_quiescent {c : Cfg} {s : State} (h : Inv c s) (hq : Quiescent s) :
    forEachIds c s s.nv = (List.range s.nv).filter (fun i => (s.owner i).isSome) := by
  unfold forEachIds
  apply List.filter_congr
  intro i hi
  have hi' : i < s.nv := List.mem_range.mp hi
  have := h.flag_iff_owned hq hi'
  by_cases hn : s.next i = c.active
  · simp [hn, this.mp hn]
  · have : (s.owner i).isSome = false := by
      cases ho : (s.owner i).isSome with
      | false => rfl
      | true => exact absurd (this.mpr ho) hn
    simp [hn, this]

theorem Inv.owned_lt {c : Cfg} {s : State} (h : Inv c s) {i : Nat} (ho : (s.owner i).isSome = true) :
    i < s.nv := by
  by_cases hi : i < s.nv
  · exact hi
  · rw [h.high i (by omega)] at ho; simp at ho

/-- if some minted id is unowned at quiescence the free list is non-empty, and its head is such an id -/
theorem Inv.free_head {c : Cfg} {s : State} (h : Inv c s) (hq : Quiescent s) {i : Nat}
    (hi : i < s.nv) (ho : s.owner i = none) :
    s.headV ≠ c.tail ∧ s.headV < s.nv ∧ s.owner s.headV = none := by
  have hmem : i ∈ s.fl := by
    rcases h.noleak i hi with h1 | h1 | ⟨t, ht⟩
    · exact h1
    · exact absurd ho h1
    · rw [hq t] at ht; simp [Pc.transit] at ht
  have hc := h.chain
  cases hfl : s.fl with
  | nil => rw [hfl] at hmem; simp at hmem
  | cons y ys =>
    rw [hfl] at hc
    have hy : s.headV ∈ s.fl := by rw [hfl, hc.1]; simp
    have h1 := h.flmem _ hy
    have h2 := h.mem_lt_tail hy
    exact ⟨by omega, h1.1, h1.2⟩

/-- a run in which only thread `t` takes steps -/
inductive Solo (c : Cfg) (t : Nat) : State → State → Prop
  | refl (s : State) : Solo c t s s
  | step {s s1 s2 : State} (sp : Bool) (l : Label) : Solo c t s s1 → stepThread c s1 t sp = some (s2, l) →
      Solo c t s s2

/-- phases of a solitary `allocate` that started with head `(hv, hg)`, `hv ≠ tail` -/
def SoloPh (c : Cfg) (s : State) (t : Nat) (s1 : State) : Prop :=
  s1.nv = s.nv ∧
  ((s1.headV = s.headV ∧ s1.headG = s.headG ∧ s1.next = s.next ∧
      (s1.pc t = .a0 ∨ s1.pc t = .a1 s.headV s.headG ∨ s1.pc t = .a2 s.headV s.headG (s.next s.headV))) ∨
   (s1.pc t = .a3 s.headV s.headG ∧ s1.owner s.headV = some t ∧ s1.headV = s.next s.headV) ∨
   (s1.pc t = .idle ∧ s1.owner s.headV = some t ∧ s1.headV = s.next s.headV ∧
      s1.result t = some (s.headV, s.headG % 2 ^ c.W)))

theorem soloPh_step {c : Cfg} {s s1 s2 : State} {t : Nat} {sp : Bool} {l : Label} (hv : s.headV ≠ c.tail)
    (h : SoloPh c s t s1) (hst : stepThread c s1 t sp = some (s2, l)) : SoloPh c s t s2 := by
  obtain ⟨hnv, hph⟩ := h
  unfold stepThread at hst
  rcases hph with ⟨h1, h2, h3, hpc | hpc | hpc⟩ | ⟨hpc, ho, hh⟩ | ⟨hpc, _⟩
  · rw [hpc] at hst; simp only [Option.some.injEq, Prod.mk.injEq] at hst
    rw [← hst.1]
    refine ⟨hnv, Or.inl ⟨h1, h2, h3, Or.inr (Or.inl ?_)⟩⟩
    simp [allocLoop, h1, h2, hv]
  · rw [hpc] at hst; simp only [Option.some.injEq, Prod.mk.injEq] at hst
    rw [← hst.1]
    refine ⟨hnv, Or.inl ⟨h1, h2, h3, Or.inr (Or.inr ?_)⟩⟩
    simp [h3]
  · rw [hpc] at hst; simp only at hst
    split at hst
    · simp only [Option.some.injEq, Prod.mk.injEq] at hst
      rw [← hst.1]
      exact ⟨hnv, Or.inr (Or.inl ⟨by simp, by simp, rfl⟩)⟩
    · simp only [Option.some.injEq, Prod.mk.injEq] at hst
      rw [← hst.1]
      refine ⟨hnv, Or.inl ⟨h1, h2, h3, Or.inr (Or.inl ?_)⟩⟩
      simp [allocLoop, h1, h2, hv]
  · rw [hpc] at hst; simp only [Option.some.injEq, Prod.mk.injEq] at hst
    rw [← hst.1]
    exact ⟨hnv, Or.inr (Or.inr ⟨by simp, ho, hh, by simp⟩)⟩
  · rw [hpc] at hst; simp at hst

theorem solo_ph {c : Cfg} {s s2 : State} {t : Nat} (hv : s.headV ≠ c.tail)
    (hs : Solo c t (callAlloc s t) s2) : SoloPh c s t s2 := by
  induction hs with
  | refl => exact ⟨rfl, Or.inl ⟨rfl, rfl, rfl, Or.inl (by simp [callAlloc])⟩⟩
  | step sp l _ hst ih => exact soloPh_step hv ih hst

/-- a solitary allocate on a non-empty free list, once returned, has returned the old head with the
current version, minted nothing, and owns the id -/
theorem solo_alloc_reuses {c : Cfg} {s s2 : State} {t : Nat} (hv : s.headV ≠ c.tail)
    (hs : Solo c t (callAlloc s t) s2) (hret : s2.pc t = .idle) :
    s2.result t = some (s.headV, s.headG % 2 ^ c.W) ∧ s2.nv = s.nv ∧ s2.owner s.headV = some t ∧
      s2.headV = s.next s.headV := by
  obtain ⟨hnv, hph⟩ := solo_ph hv hs
  rcases hph with ⟨_, _, _, hpc | hpc | hpc⟩ | ⟨hpc, _⟩ | ⟨_, ho, hh, hr⟩
  · rw [hpc] at hret; cases hret
  · rw [hpc] at hret; cases hret
  · rw [hpc] at hret; cases hret
  · rw [hpc] at hret; cases hret
  · exact ⟨hr, hnv, ho, hh⟩

/-- progress of the solitary allocate when the weak CAS does not fail spuriously -/
def soloRank : Pc → Nat
  | .a0 => 4 | .a1 _ _ => 3 | .a2 _ _ _ => 2 | .a3 _ _ => 1 | _ => 0

theorem soloPh_progress {c : Cfg} {s s1 : State} {t : Nat} (hv : s.headV ≠ c.tail)
    (h : SoloPh c s t s1) (hni : s1.pc t ≠ .idle) :
    ∃ s2 l, stepThread c s1 t false = some (s2, l) ∧ soloRank (s2.pc t) < soloRank (s1.pc t) := by
  obtain ⟨hnv, hph⟩ := h
  rcases hph with ⟨h1, h2, h3, hpc | hpc | hpc⟩ | ⟨hpc, ho, hh⟩ | ⟨hpc, _⟩
  · refine ⟨_, _, by simp only [stepThread, hpc]; rfl, ?_⟩
    simp [hpc, allocLoop, h1, hv, soloRank]
  · refine ⟨_, _, by simp only [stepThread, hpc]; rfl, ?_⟩
    simp [hpc, soloRank]
  · have hhit : (s1.headV = s.headV ∧ s1.headG % 2 ^ c.W = s.headG % 2 ^ c.W) ∧ ¬ (false = true) :=
      ⟨⟨h1, by rw [h2]⟩, by simp⟩
    refine ⟨_, _, by simp only [stepThread, hpc, if_pos hhit]; rfl, ?_⟩
    simp [hpc, soloRank]
  · refine ⟨_, _, by simp only [stepThread, hpc]; rfl, ?_⟩
    simp [hpc, soloRank]
  · exact absurd hpc hni

/-- and without spurious CAS failures it does return -/
theorem solo_alloc_terminates (c : Cfg) (s : State) (t : Nat) (hv : s.headV ≠ c.tail) :
    ∃ s2, Solo c t (callAlloc s t) s2 ∧ s2.pc t = .idle := by
  have key : ∀ n s1, Solo c t (callAlloc s t) s1 → soloRank (s1.pc t) ≤ n →
      ∃ s2, Solo c t (callAlloc s t) s2 ∧ s2.pc t = .idle := by
    intro n
    induction n with
    | zero =>
      intro s1 hs hr
      by_cases hi : s1.pc t = .idle
      · exact ⟨s1, hs, hi⟩
      · obtain ⟨s2, l, _, hlt⟩ := soloPh_progress hv (solo_ph hv hs) hi
        omega
    | succ n ih =>
      intro s1 hs hr
      by_cases hi : s1.pc t = .idle
      · exact ⟨s1, hs, hi⟩
      · obtain ⟨s2, l, hst, hlt⟩ := soloPh_progress hv (solo_ph hv hs) hi
        exact ih s2 (Solo.step false l hs hst) (by omega)
  exact key _ _ (Solo.refl _) (Nat.le_refl _)

end Babylon.IdAlloc
