/-
  Reading back what was written: primitive reads on encodings, packed elements, container loops.
-/
import Babylon.Wire.LemmasStream
import Babylon.Wire.LemmasSize

namespace Babylon.Wire
open Babylon.Gen.Wire

/-- `dec` (parsing into `d`) reads `enc` as `v'` whenever the readable window is exactly `enc` -/
def Reads (dec : St → Val → Res) (enc : Bytes) (d v' : Val) : Prop :=
  ∀ st : St, st.WF → st.window = enc → dec st d = .ok v' (st.adv enc.length)

/-- … whenever the readable window starts with `enc` (self-delimiting encodings) -/
def ReadsPrefix (dec : St → Val → Res) (enc : Bytes) (d v' : Val) : Prop :=
  ∀ (st : St) (rest : Bytes), st.WF → st.window = enc ++ rest → dec st d = .ok v' (st.adv enc.length)

theorem ReadsPrefix.reads {dec : St → Val → Res} {enc : Bytes} {d v' : Val} (h : ReadsPrefix dec enc d v') :
    Reads dec enc d v' := fun st hwf hw => h st [] hwf (by rw [hw, List.append_nil])

/-! ### scalars -/

theorem readVarint_enc {st : St} {x : Nat} {rest : Bytes} (hx : x < 2 ^ 64) (hw : st.window = encVarint x ++ rest) :
    readVarint st = .ok x (st.adv (encVarint x).length) := by
  unfold readVarint
  simp only [hw, scanVarint_encVarint x hx rest, Nat.mod_eq_of_lt hx]

theorem sext_mod {b to : Nat} (s : Bool) (n : Nat) (hb : okBits b = true) (hto : to = 32 ∨ to = 64) (hle : b ≤ to)
    (hn : n < 2 ^ b) : sext b to s n % 2 ^ b = n := by
  simp only [sext, Nat.mod_eq_of_lt hn]
  split
  · rcases okBits_cases hb with rfl | rfl | rfl | rfl <;> rcases hto with rfl | rfl <;> omega
  · exact Nat.mod_eq_of_lt hn

theorem scalarRead_scalarWire (t : Ty) (n : Nat) (ht : wfTy t = true) (hs : t.isVarintScalar = true)
    (hty : hasTy t (.num n) = true) : scalarRead t (scalarWire t n) = n := by
  cases t <;> simp only [Ty.isVarintScalar, Bool.false_eq_true] at hs
  case bool =>
    simp only [hasTy, decide_eq_true_eq] at hty
    simp only [scalarRead, scalarWire]
    have : n = 0 ∨ n = 1 := by omega
    rcases this with rfl | rfl <;> simp
  case int b s =>
    simp only [hasTy, decide_eq_true_eq] at hty
    simp only [wfTy] at ht
    simp only [scalarRead, scalarWire]
    have hb := okBits_cases ht
    have h1 : b ≤ intVarintBits b := by unfold intVarintBits; split <;> omega
    have h2 : intVarintBits b = 32 ∨ intVarintBits b = 64 := by unfold intVarintBits; split <;> simp
    rw [Nat.mod_eq_of_lt (sext_lt s n h1)]
    exact sext_mod s n ht h2 h1 hty
  case enum b s =>
    simp only [hasTy, decide_eq_true_eq] at hty
    simp only [wfTy] at ht
    simp only [scalarRead, scalarWire]
    have hb := okBits_cases ht
    exact sext_mod s n ht (Or.inr rfl) (by show b ≤ 64; omega) hty

theorem decScalar_varint (t : Ty) (n : Nat) (ht : wfTy t = true) (hs : t.isVarintScalar = true)
    (hty : hasTy t (.num n) = true) (d : Val) :
    ReadsPrefix (fun st _ => decScalar t st) (encVarint (scalarWire t n)) d (.num n) := by
  intro st rest _ hw
  have hr := readVarint_enc (scalarWire_lt t n ht) hw
  have : decScalar t st = match readVarint st with
      | .ok v st' => .ok (.num (scalarRead t v)) st'
      | .fail _ => .fail := by
    cases t <;> simp only [Ty.isVarintScalar, Bool.false_eq_true] at hs <;> rfl
  show decScalar t st = _
  rw [this, hr]
  simp only [scalarRead_scalarWire t n ht hs hty]

theorem decScalar_fixed (t : Ty) (k n : Nat) (ht : (t = .f32 ∧ k = 4) ∨ (t = .f64 ∧ k = 8)) (hn : n < 256 ^ k) (d : Val) :
    ReadsPrefix (fun st _ => decScalar t st) (encFixed k n) d (.num n) := by
  intro st rest _ hw
  have hl := St.window_after hw
  rw [encFixed_length] at hl
  have htake : st.bs.take k = encFixed k n := by
    have : st.bs.take k = st.window.take k := by
      unfold St.window; rw [List.take_take]; congr 1; omega
    rw [this, hw, List.take_left' (encFixed_length k n)]
  have hf : readFixed k st = some (n, st.adv k) := by
    unfold readFixed
    simp only [hl.1, if_true, htake, decFixed_encFixed, Nat.mod_eq_of_lt hn]
  show decScalar t st = _
  rcases ht with ⟨rfl, rfl⟩ | ⟨rfl, rfl⟩ <;> simp only [decScalar, hf, encFixed_length]

theorem decScalar_str (b : Bytes) (d : Val) : Reads (fun st _ => decScalar .str st) b d (.bytes b) := by
  intro st _ hw
  show decScalar .str st = _
  simp only [decScalar, hw]
  rw [← hw, St.window_length]

/-! ### packed elements -/

/-- `deserialize_packed_field` reads `serialize_packed_field` -/
theorem packedWith_reads (cfg : Cfg) (ld : Bool) (dec : St → Val → Res) (s : Nat) (payload : Bytes) (d v' : Val)
    (hlen : payload.length = s) (hs : s < 2 ^ 31)
    (hLD : ld = true → Reads dec payload d v')
    (hSD : ld = false → ReadsPrefix dec payload d v') :
    ReadsPrefix (packedWith cfg ld dec) (packedEnc ld s payload) d v' := by
  intro st rest hwf hw
  unfold packedWith
  cases ld with
  | false =>
    simp only [packedEnc, Bool.false_eq_true, if_false] at hw ⊢
    exact hSD rfl st rest hwf hw
  | true =>
    simp only [packedEnc, if_true, Nat.mod_eq_of_lt (show s < 2 ^ 32 by omega), List.append_assoc] at hw ⊢
    have hr := readVarint_enc (show s < 2 ^ 64 by omega) hw
    obtain ⟨hk, hw1⟩ := St.window_after hw
    simp only [hr, Nat.mod_eq_of_lt (show s < 2 ^ 32 by omega)]
    have hwf1 := St.WF_adv hwf hk
    have hwin : ((st.adv (encVarint s).length).pushLimit s).window = payload := by
      have := St.window_pushLimit hwf1 hw1 (by omega)
      rwa [hlen] at this
    have := hLD rfl _ (St.WF_pushLimit hwf1 s) hwin
    rw [this]
    simp only [List.length_append, hlen]
    rw [St.pop_after_adv, St.adv_adv]

/-! ### sequences -/

/-- append a chain to a chain -/
def Val.app : Val → Val → Val
  | .cons h t, y => .cons h (t.app y)
  | _, y => y

/-- fold `put` over a chain -/
def foldSeq (put : Val → Val → Val) (acc : Val) : Val → Val
  | .cons h t => foldSeq put (put acc h) t
  | _ => acc

/-- a container loop reads the concatenation of its packed elements: the accumulator is folded over what each
element reads back as -/
theorem elemLoop_reads (elem : St → Val → Res) (d0 : Val) (put : Val → Val → Val) (E : Val → Bytes) (N : Val → Val) :
    ∀ (xs : Val), (∀ x, xs.mem x = true → ReadsPrefix elem (E x) d0 (N x) ∧ E x ≠ []) →
    ∀ (f : Nat) (st : St) (acc : Val), st.WF → st.window = catSeq E xs → st.bs.length < f →
      loopN St.hasBytes (fun s a => match elem s d0 with
        | .ok x s' => .ok (put a x) s'
        | r => r) f st acc = .ok (foldSeq put acc (mapSeq N xs)) (st.adv (catSeq E xs).length) := by
  intro xs
  induction xs with
  | cons x xs _ ih =>
    intro hx f st acc hwf hw hf
    have hxm : (Val.cons x xs).mem x = true := by simp [Val.mem]
    obtain ⟨hrd, hne⟩ := hx x hxm
    simp only [catSeq] at hw
    cases f with
    | zero => omega
    | succ f =>
      rw [loopN]
      have hav : 0 < st.avail := by
        rw [← St.window_length, hw, List.length_append]
        have : 0 < (E x).length := List.length_pos_iff.mpr hne
        omega
      have hb : st.hasBytes = true := by simp [St.hasBytes, hav]
      simp only [hb, if_true, hrd st _ hwf hw]
      have hpos : 0 < (E x).length := List.length_pos_iff.mpr hne
      have hnle : ¬ (st.adv (E x).length).pos ≤ st.pos := by simp only [St.adv_pos]; omega
      simp only [hnle, if_false]
      obtain ⟨hk, hw'⟩ := St.window_after hw
      have := ih (fun y hy => hx y (by simp [Val.mem, hy])) f (st.adv (E x).length) (put acc (N x))
        (St.WF_adv hwf hk) hw' (by
          have := st.avail_le_length
          simp only [St.adv_bs, List.length_drop]; omega)
      rw [this]
      simp only [mapSeq, foldSeq, catSeq, List.length_append, St.adv_adv]
  | _ =>
    intro _ f st acc _ hw hf
    cases f with
    | zero => omega
    | succ f =>
      rw [loopN]
      have hav : st.avail = 0 := by rw [← St.window_length, hw]; rfl
      have hb : st.hasBytes = false := by simp [St.hasBytes, hav]
      simp [hb, mapSeq, foldSeq, catSeq]

end Babylon.Wire
