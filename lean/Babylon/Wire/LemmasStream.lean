/-
  Facts about the `CodedInputStream` state, the primitive reads and the parse loop.
-/
import Babylon.Wire.Codec
import Babylon.Wire.LemmasVarint

namespace Babylon.Wire
open Babylon.Gen.Wire

/-- a state `CodedInputStream` can be in: position not beyond the limit, limit at most `INT_MAX` -/
def St.WF (st : St) : Prop := st.pos ≤ st.lim ∧ st.lim ≤ intMax

/-- `st'` is `st` after consuming `k` readable bytes (same limit, same kind of stream) -/
def Adv (st st' : St) : Prop := ∃ k, k ≤ st.avail ∧ st' = st.adv k

namespace St

theorem avail_le_length (st : St) : st.avail ≤ st.bs.length := by unfold avail; omega
theorem avail_le_lim (st : St) : st.avail ≤ st.lim - st.pos := by unfold avail; omega

theorem window_length (st : St) : st.window.length = st.avail := by
  unfold window; rw [List.length_take]; have := st.avail_le_length; omega

@[simp] theorem adv_zero (st : St) : st.adv 0 = st := by
  cases st; simp [adv]

theorem adv_adv (st : St) (a b : Nat) : (st.adv a).adv b = st.adv (a + b) := by
  cases st; simp [adv, List.drop_drop, Nat.add_assoc]

@[simp] theorem adv_lim (st : St) (k : Nat) : (st.adv k).lim = st.lim := rfl
@[simp] theorem adv_flat (st : St) (k : Nat) : (st.adv k).flat = st.flat := rfl
@[simp] theorem adv_pos (st : St) (k : Nat) : (st.adv k).pos = st.pos + k := rfl
@[simp] theorem adv_bs (st : St) (k : Nat) : (st.adv k).bs = st.bs.drop k := rfl

theorem avail_adv (st : St) (k : Nat) (h : k ≤ st.avail) : (st.adv k).avail = st.avail - k := by
  unfold avail at *
  simp only [adv_bs, adv_pos, adv_lim, List.length_drop]
  omega

theorem window_adv (st : St) (k : Nat) (h : k ≤ st.avail) : (st.adv k).window = st.window.drop k := by
  unfold window
  rw [avail_adv st k h, adv_bs, List.drop_take]

theorem WF_adv {st : St} (h : st.WF) {k : Nat} (hk : k ≤ st.avail) : (st.adv k).WF := by
  have := st.avail_le_lim
  unfold WF at *
  simp only [adv_pos, adv_lim]
  omega

/-- if the window starts with `a`, advancing past `a` leaves the rest of the window -/
theorem window_after {st : St} {a b : Bytes} (h : st.window = a ++ b) :
    a.length ≤ st.avail ∧ (st.adv a.length).window = b := by
  have hl : st.avail = a.length + b.length := by rw [← window_length, h, List.length_append]
  refine ⟨by omega, ?_⟩
  rw [window_adv st _ (by omega), h, List.drop_left]

/-! #### PushLimit -/

@[simp] theorem pushLimit_bs (st : St) (n : Nat) : (st.pushLimit n).bs = st.bs := by
  unfold pushLimit; split <;> rfl
@[simp] theorem pushLimit_pos (st : St) (n : Nat) : (st.pushLimit n).pos = st.pos := by
  unfold pushLimit; split <;> rfl
@[simp] theorem pushLimit_flat (st : St) (n : Nat) : (st.pushLimit n).flat = st.flat := by
  unfold pushLimit; split <;> rfl

theorem pushLimit_lim_le (st : St) (n : Nat) : (st.pushLimit n).lim ≤ st.lim := by
  unfold pushLimit; split
  · simp only; omega
  · exact Nat.le_refl _

theorem pushLimit_pos_le (st : St) (n : Nat) (h : st.pos ≤ st.lim) : st.pos ≤ (st.pushLimit n).lim := by
  unfold pushLimit; split
  · simp only; omega
  · exact h

theorem WF_pushLimit {st : St} (h : st.WF) (n : Nat) : (st.pushLimit n).WF := by
  unfold WF at *
  have := pushLimit_lim_le st n
  have := pushLimit_pos_le st n h.1
  simp only [pushLimit_pos]
  omega

theorem avail_pushLimit_le (st : St) (n : Nat) : (st.pushLimit n).avail ≤ st.avail := by
  have := pushLimit_lim_le st n
  unfold avail
  simp only [pushLimit_bs, pushLimit_pos]
  omega

/-- `PopLimit` after the nested parse consumed `k` bytes of the pushed window -/
theorem pop_after_adv (st : St) (n k : Nat) :
    ({ (st.pushLimit n).adv k with lim := st.lim } : St) = st.adv k := by
  cases st
  simp only [adv, pushLimit_bs, pushLimit_pos, pushLimit_flat]

/-- the window under a pushed limit of exactly the payload's length is the payload -/
theorem window_pushLimit {st : St} (hwf : st.WF) {payload rest : Bytes} (h : st.window = payload ++ rest)
    (hn : payload.length < 2 ^ 31) : (st.pushLimit payload.length).window = payload := by
  have hav : st.avail = payload.length + rest.length := by rw [← window_length, h, List.length_append]
  have h1 := st.avail_le_length
  have h2 := st.avail_le_lim
  have hwf' := hwf
  unfold WF intMax at hwf'
  unfold pushLimit
  split
  · -- the limit is really pushed
    rename_i hc
    unfold window avail
    simp only
    have : min st.bs.length (st.pos + payload.length - st.pos) = payload.length := by omega
    rw [this]
    have : st.bs.take payload.length = (st.bs.take st.avail).take payload.length := by
      rw [List.take_take]; congr 1; omega
    rw [this]
    show (st.window).take payload.length = payload
    rw [h, List.take_left]
  · -- the requested limit is not nearer than the current one: the window already ends there
    rename_i hc
    have hc' : ¬ (st.pos + payload.length < st.lim) := by
      intro hlt; apply hc; refine ⟨hn, ?_, hlt⟩; unfold intMax; omega
    have hr : rest.length = 0 := by omega
    have : rest = [] := List.eq_nil_of_length_eq_zero hr
    rw [h, this, List.append_nil]

end St

theorem Adv.refl (st : St) : Adv st st := ⟨0, Nat.zero_le _, (St.adv_zero st).symm⟩

theorem Adv.trans {a b c : St} (h1 : Adv a b) (h2 : Adv b c) : Adv a c := by
  obtain ⟨k1, hk1, rfl⟩ := h1
  obtain ⟨k2, hk2, rfl⟩ := h2
  rw [St.avail_adv a k1 hk1] at hk2
  exact ⟨k1 + k2, by omega, St.adv_adv a k1 k2⟩

theorem Adv.WF {a b : St} (h : Adv a b) (hw : a.WF) : b.WF := by
  obtain ⟨k, hk, rfl⟩ := h
  exact St.WF_adv hw hk

theorem Adv.pos_le {a b : St} (h : Adv a b) : a.pos ≤ b.pos := by
  obtain ⟨k, _, rfl⟩ := h; simp

theorem Adv.lim_eq {a b : St} (h : Adv a b) : b.lim = a.lim := by
  obtain ⟨k, _, rfl⟩ := h; rfl

/-- consuming at least one byte shortens the remaining input -/
theorem Adv.length_lt {a b : St} (h : Adv a b) (hp : a.pos < b.pos) : b.bs.length < a.bs.length := by
  obtain ⟨k, hk, rfl⟩ := h
  have := a.avail_le_length
  simp only [St.adv_pos, St.adv_bs, List.length_drop] at *
  omega

/-- a nested parse under `PushLimit(n)`, followed by `PopLimit` -/
theorem Adv.of_pushed {st st2 : St} (n : Nat) (h : Adv (st.pushLimit n) st2) :
    Adv st { st2 with lim := st.lim } ∧ ({ st2 with lim := st.lim } : St).pos = st2.pos := by
  obtain ⟨k, hk, rfl⟩ := h
  have := St.avail_pushLimit_le st n
  refine ⟨⟨k, by omega, St.pop_after_adv st n k⟩, rfl⟩

/-! ### primitive reads -/

theorem readVarint_ok {st : St} {v : Nat} {st' : St} (h : readVarint st = .ok v st') :
    ∃ k, 1 ≤ k ∧ k ≤ st.avail ∧ st' = st.adv k := by
  unfold readVarint at h
  simp only at h
  split at h
  · rename_i v0 n heq
    have hb := scanVarint_bounds 10 st.window v0 n heq
    rw [St.window_length] at hb
    cases h
    exact ⟨n, hb.1, hb.2.2, rfl⟩
  · split at h <;> cases h

theorem readVarint_fail {st st' : St} (h : readVarint st = .fail st') : Adv st st' := by
  unfold readVarint at h
  simp only at h
  split at h
  · cases h
  · rw [St.window_length] at h
    split at h
    · rename_i h10
      cases h
      split
      · exact Adv.refl st
      · exact ⟨10, h10, rfl⟩
    · cases h
      exact ⟨st.avail, Nat.le_refl _, rfl⟩

/-- a failed read that consumed nothing fails again -/
theorem readVarint_fail_same {st : St} (h : readVarint st = .fail st) : ∀ r, readVarint st = r → r = .fail st :=
  fun r hr => by rw [← hr, h]

theorem readVarint_lt (st : St) (v : Nat) (st' : St) (h : readVarint st = .ok v st') : v < 2 ^ 64 := by
  unfold readVarint at h
  simp only at h
  split at h
  · cases h; exact Nat.mod_lt _ (by decide)
  · split at h <;> cases h

theorem readFixed_some {n : Nat} {st : St} {v : Nat} {st' : St} (h : readFixed n st = some (v, st')) :
    n ≤ st.avail ∧ st' = st.adv n := by
  unfold readFixed at h
  split at h
  · cases h; exact ⟨by assumption, rfl⟩
  · cases h

theorem skip_some {n : Nat} {st st' : St} (h : skip n st = some st') : n ≤ st.avail ∧ st' = st.adv n := by
  unfold skip at h
  split at h
  · cases h; exact ⟨by assumption, rfl⟩
  · cases h

theorem consumeUnknown_adv {tag : Nat} {st st' : St} (h : consumeUnknown tag st = some st') : Adv st st' := by
  unfold consumeUnknown at h
  simp only at h
  split at h
  · split at h
    · rename_i v s1 heq
      cases h
      obtain ⟨k, _, hk, rfl⟩ := readVarint_ok heq
      exact ⟨k, hk, rfl⟩
    · cases h
  · split at h
    · obtain ⟨hk, rfl⟩ := skip_some h; exact ⟨4, hk, rfl⟩
    · split at h
      · obtain ⟨hk, rfl⟩ := skip_some h; exact ⟨8, hk, rfl⟩
      · split at h
        · split at h
          · rename_i v s1 heq
            split at h
            · obtain ⟨k, _, hk, rfl⟩ := readVarint_ok heq
              obtain ⟨hk2, rfl⟩ := skip_some h
              exact Adv.trans ⟨k, hk, rfl⟩ ⟨_, hk2, rfl⟩
            · cases h
          · cases h
        · cases h

/-- tag 0 after a tag read that failed without consuming: the unknown-field path re-reads the same bytes and fails -/
theorem consumeUnknown_zero_of_fail {st : St} (h : readVarint st = .fail st) : consumeUnknown 0 st = none := by
  unfold consumeUnknown
  have h0 : (0 : Nat) % (tagWireMask + 1) = wtVarint := by decide
  simp only [h0, if_true, h]

/-! ### the parse loop -/

/-- If every iteration started on readable input either fails or consumes at least one byte, the loop never
reports `noret` (neither by a stuck iteration nor by running out of fuel) and only consumes readable bytes. -/
theorem loopN_spec (guard : St → Bool) (body : St → Val → Res)
    (hbody : ∀ s a, s.WF → guard s = true →
      (∀ a' s', body s a = .ok a' s' → Adv s s' ∧ s.pos < s'.pos) ∧ body s a ≠ .noret) :
    ∀ (f : Nat) (st : St) (acc : Val), st.WF → st.bs.length < f →
      (∀ v st', loopN guard body f st acc = .ok v st' → Adv st st') ∧ loopN guard body f st acc ≠ .noret := by
  intro f
  induction f with
  | zero => intro st acc _ h; omega
  | succ f ih =>
    intro st acc hwf hf
    rw [loopN]
    by_cases hg : guard st = true
    · simp only [hg, if_true]
      obtain ⟨hok, hnr⟩ := hbody st acc hwf hg
      cases hb : body st acc with
      | ok a' s' =>
        obtain ⟨hadv, hpos⟩ := hok a' s' hb
        have hnle : ¬ s'.pos ≤ st.pos := by omega
        simp only [hnle, if_false]
        have hlen := hadv.length_lt hpos
        obtain ⟨h1, h2⟩ := ih s' a' (hadv.WF hwf) (by omega)
        exact ⟨fun v st' h => hadv.trans (h1 v st' h), h2⟩
      | fail => simp
      | noret => exact absurd hb hnr
    · simp only [hg]
      exact ⟨fun v st' h => by cases h; exact Adv.refl st, by simp⟩

/-- with enough fuel the result does not depend on the fuel -/
theorem loopN_fuel (guard : St → Bool) (body : St → Val → Res)
    (hbody : ∀ s a, s.WF → guard s = true → ∀ a' s', body s a = .ok a' s' → Adv s s') :
    ∀ (f g : Nat) (st : St) (acc : Val), st.WF → st.bs.length < f → st.bs.length < g →
      loopN guard body f st acc = loopN guard body g st acc := by
  intro f
  induction f with
  | zero => intro g st acc _ h; omega
  | succ f ih =>
    intro g st acc hwf hf hg
    cases g with
    | zero => omega
    | succ g =>
      rw [loopN, loopN]
      by_cases hgd : guard st = true
      · simp only [hgd, if_true]
        cases hb : body st acc with
        | ok a' s' =>
          simp only
          by_cases hp : s'.pos ≤ st.pos
          · simp [hp]
          · simp only [hp, if_false]
            have hadv := hbody st acc hwf hgd a' s' hb
            have hlen := hadv.length_lt (by omega)
            exact ih g s' a' (hadv.WF hwf) (by omega) (by omega)
        | fail => rfl
        | noret => rfl
      · simp [hgd]

end Babylon.Wire
