/-
  The compile-time traits that decide how sizes are computed and cached (traits.h, aggregate.h and every container
  header): `SERIALIZED_SIZE_COMPLEXITY`, `SERIALIZED_SIZE_CACHED`, which aggregates own a size cache, and the size
  `calculate_serialized_size` really computes — with the "TRIVIAL ⇒ n · size(value[0])" shortcut of vector.h and
  array.h.  `inh`: smart pointers inherit the pointee's complexity unchanged (`Gen.ptrInheritsTrivial`).
  Core Lean only.
-/
import Babylon.Wire.Codec

namespace Babylon.Wire
open Babylon.Gen.Wire

/-- complexity of a container from its element's: `T == TRIVIAL ? SIMPLE : COMPLEX` -/
def cxOfElems (c : Nat) : Nat := if c = cxTrivial then cxSimple else cxComplex

mutual
/-- `SerializeTraits<T>::SERIALIZED_SIZE_COMPLEXITY` -/
def complexity (inh : Bool) : Ty → Nat
  | .bool | .int _ _ | .enum _ _ | .str => cxSimple
  | .f32 | .f64 => cxTrivial
  | .vec .bool => cxSimple                      -- the std::vector<bool> specialisation
  | .vec t => cxOfElems (complexity inh t)
  | .list t => cxOfElems (complexity inh t)
  | .set t => cxOfElems (complexity inh t)
  | .arr t _ => cxOfElems (complexity inh t)
  | .map _ _ => cxComplex                       -- not declared: the default
  | .uptr t => if complexity inh t = cxTrivial ∧ inh = false then cxSimple else complexity inh t
  | .sptr t => if complexity inh t = cxTrivial ∧ inh = false then cxSimple else complexity inh t
  | .agg _ fs => if allTrivial inh fs then cxTrivial else cxSimple
/-- base and members all TRIVIAL -/
def allTrivial (inh : Bool) : Fields → Bool
  | .nil => true
  | .cons _ t _ r => complexity inh t == cxTrivial && allTrivial inh r
end

/-- weight of one member in the whole-object cache rule -/
def aggWeight (c : Nat) : Nat :=
  if c = cxComplex then aggCountComplex else if c = cxTrivial then aggCountTrivial else aggCountSimple

def weightSum (inh : Bool) : Fields → Nat
  | .nil => 0
  | .cons _ t _ r => aggWeight (complexity inh t) + weightSum inh r

def Fields.tail : Fields → Fields
  | .nil => .nil
  | .cons _ _ _ r => r

/-- the members `__BABYLON_SERIALIZABLE_COUNT_FIELD` is applied to (the base class is not among them) -/
def countedFields (base : Bool) (fs : Fields) : Fields := if base && !aggCountIncludesBase then fs.tail else fs

/-- the aggregate has the `__babylon_cached_serialized_size` member -/
def wholeCache (inh base : Bool) (fs : Fields) : Bool :=
  decide (aggWholeCacheThreshold ≤ weightSum inh (countedFields base fs))

/-- some base / member is COMPLEX: it gets a per-field size cache -/
def anyComplex (inh : Bool) : Fields → Bool
  | .nil => false
  | .cons _ t _ r => complexity inh t == cxComplex || anyComplex inh r

mutual
/-- `SerializeTraits<T>::SERIALIZED_SIZE_CACHED`: `Serialization::serialize_to_*` runs `calculate_serialized_size`
first exactly for these types -/
def sizeCached (inh : Bool) : Ty → Bool
  | .vec t => sizeCached inh t
  | .list t => sizeCached inh t
  | .set t => sizeCached inh t
  | .arr t _ => sizeCached inh t
  | .uptr t => sizeCached inh t
  | .sptr t => sizeCached inh t
  | .map k w => sizeCached inh k || sizeCached inh w
  | .agg b fs => wholeCache inh b fs || anyCached inh fs
  | _ => false
def anyCached (inh : Bool) : Fields → Bool
  | .nil => false
  | .cons _ t _ r => sizeCached inh t || anyCached inh r
end

mutual
/-- somewhere inside the type there is an object that keeps a size cache `serialize` trusts -/
def hasCacheInside (inh : Bool) : Ty → Bool
  | .vec t => hasCacheInside inh t
  | .list t => hasCacheInside inh t
  | .set t => hasCacheInside inh t
  | .arr t _ => hasCacheInside inh t
  | .uptr t => hasCacheInside inh t
  | .sptr t => hasCacheInside inh t
  | .map k w => hasCacheInside inh k || hasCacheInside inh w
  | .agg b fs => wholeCache inh b fs || anyComplex inh fs || hasCacheInsideFields inh fs
  | _ => false
def hasCacheInsideFields (inh : Bool) : Fields → Bool
  | .nil => false
  | .cons _ t _ r => hasCacheInside inh t || hasCacheInsideFields inh r
end

mutual
/-- no aggregate inside has a COMPLEX base class (the known finding `oracle:complex-base-uncached`) -/
def noComplexBase (inh : Bool) : Ty → Bool
  | .vec t => noComplexBase inh t
  | .list t => noComplexBase inh t
  | .set t => noComplexBase inh t
  | .arr t _ => noComplexBase inh t
  | .uptr t => noComplexBase inh t
  | .sptr t => noComplexBase inh t
  | .map k w => noComplexBase inh k && noComplexBase inh w
  | .agg b fs => (!(b && !aggCountIncludesBase) || !anyComplex inh (match fs with | .cons n t d _ => .cons n t d .nil | .nil => .nil))
                  && noComplexBaseFields inh fs
  | _ => true
def noComplexBaseFields (inh : Bool) : Fields → Bool
  | .nil => true
  | .cons _ t _ r => noComplexBase inh t && noComplexBaseFields inh r
end

mutual
/-- no smart pointer to a TRIVIAL type that is itself declared TRIVIAL (the size of a nullable pointer depends on
the value): under this the TRIVIAL shortcut is exact -/
def sizeStable (inh : Bool) : Ty → Bool
  | .vec t => sizeStable inh t
  | .list t => sizeStable inh t
  | .set t => sizeStable inh t
  | .arr t _ => sizeStable inh t
  | .map k w => sizeStable inh k && sizeStable inh w
  | .uptr t => !(inh && complexity inh t == cxTrivial) && sizeStable inh t
  | .sptr t => !(inh && complexity inh t == cxTrivial) && sizeStable inh t
  | .agg _ fs => sizeStableFields inh fs
  | _ => true
def sizeStableFields (inh : Bool) : Fields → Bool
  | .nil => true
  | .cons _ t _ r => sizeStable inh t && sizeStableFields inh r
end

def headOr : Val → Val
  | .cons h _ => h
  | _ => .nil

mutual
/-- what `calculate_serialized_size` computes: `size`, except that vector.h and array.h take
`n · packed_size(value[0])` when the element type is declared TRIVIAL -/
def calcSize (inh : Bool) : Ty → Val → Nat
  | .bool, .num n => varintSize (scalarWire .bool n)
  | .int b s, .num n => varintSize (scalarWire (.int b s) n)
  | .enum b s, .num n => varintSize (scalarWire (.enum b s) n)
  | .f32, .num _ => 4
  | .f64, .num _ => 8
  | .str, .bytes b => b.length
  | .vec t, v =>
    if complexity inh t = cxTrivial then v.length * packedSize t.isLD (calcSize inh t (headOr v))
    else sumSeq (fun x => packedSize t.isLD (calcSize inh t x)) v
  | .arr t n, v =>
    if complexity inh t = cxTrivial then n * packedSize t.isLD (calcSize inh t (headOr v))
    else sumSeq (fun x => packedSize t.isLD (calcSize inh t x)) v
  | .list t, v => sumSeq (fun x => packedSize t.isLD (calcSize inh t x)) v
  | .set t, v => sumSeq (fun x => packedSize t.isLD (calcSize inh t x)) v
  | .map k w, v => sumPairs (fun x => packedSize k.isLD (calcSize inh k x)) (fun x => packedSize w.isLD (calcSize inh w x)) v
  | .uptr t, .some x => calcSize inh t x
  | .sptr t, .some x => calcSize inh t x
  | .agg _ fs, v => calcSizeFields inh fs v
  | _, _ => 0
def calcSizeFields (inh : Bool) : Fields → Val → Nat
  | .cons num t _ rest, .cons x xs => fieldSize num t (calcSize inh t x) + calcSizeFields inh rest xs
  | _, _ => 0
end

end Babylon.Wire
