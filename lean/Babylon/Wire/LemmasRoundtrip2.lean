/-
  The round-trip theorem proper, by induction over the type universe.
-/
import Babylon.Wire.LemmasRoundtrip

namespace Babylon.Wire
open Babylon.Gen.Wire

theorem vecGuard_repaired (dbg : Bool) : vecGuard (Cfg.repaired dbg) = St.hasBytes := by
  funext s; simp [vecGuard, Cfg.repaired]

/-- scalars: both the exact and the prefix form -/
theorem rt_scalar (cfg : Cfg) (t : Ty) (v d : Val) (ht : wfTy t = true) (hs : t.isVarintScalar = true)
    (hty : hasTy t v = true) (hdec : ∀ st d, decode cfg t st d = decScalar t st)
    (henc : ∀ n, encode t (.num n) = encVarint (scalarWire t n)) (hnorm : norm t v = v) : RT cfg t v d := by
  have hv : ∃ n, v = .num n := by
    cases t <;> simp only [Ty.isVarintScalar, Bool.false_eq_true] at hs <;>
      cases v <;> simp only [hasTy, Bool.false_eq_true] at hty <;> exact ⟨_, rfl⟩
  obtain ⟨n, rfl⟩ := hv
  have key : ReadsPrefix (decode cfg t) (encode t (.num n)) d (norm t (.num n)) := by
    rw [henc, hnorm]
    intro st rest hwf hw
    rw [hdec]
    exact decScalar_varint t n ht hs hty d st rest hwf hw
  exact ⟨key.reads, fun _ _ => key⟩

theorem rt_fixed (cfg : Cfg) (t : Ty) (k : Nat) (v d : Val) (hk : (t = .f32 ∧ k = 4) ∨ (t = .f64 ∧ k = 8))
    (hv : ∃ n, v = .num n ∧ n < 256 ^ k) (hdec : ∀ st d, decode cfg t st d = decScalar t st)
    (henc : ∀ n, encode t (.num n) = encFixed k n) (hnorm : norm t v = v) : RT cfg t v d := by
  obtain ⟨n, rfl, hn⟩ := hv
  have key : ReadsPrefix (decode cfg t) (encode t (.num n)) d (norm t (.num n)) := by
    rw [henc, hnorm]
    intro st rest hwf hw
    rw [hdec]
    exact decScalar_fixed t k n hk hn d st rest hwf hw
  exact ⟨key.reads, fun _ _ => key⟩

/-- the common part of vector / list / set: a loop over packed elements into an empty container -/
theorem rt_seq (cfg : Cfg) (t : Ty) (v : Val) (put : Val → Val → Val) (ht : wfTy t = true)
    (hne : t.packedNonEmpty = true) (hty : allSeq (hasTy t) v = true)
    (hsz : sumSeq (fun x => packedSize t.isLD (size t x)) v < 2 ^ 31)
    (ih : ∀ x, v.mem x = true → RT cfg t x (dflt t))
    (hput : foldSeq put .nil (mapSeq (norm t) v) = mapSeq (norm t) v) :
    Reads (fun st d => loopN St.hasBytes (fun s acc => match packedWith cfg t.isLD (decode cfg t) s (dflt t) with
        | .ok x s' => .ok (put acc x) s'
        | r => r) (fuelOf st) st d)
      (catSeq (fun x => packedEnc t.isLD (size t x) (encode t x)) v) .nil (mapSeq (norm t) v) := by
  intro st hwf hw
  have hx : ∀ x, v.mem x = true →
      ReadsPrefix (packedWith cfg t.isLD (decode cfg t)) (packedEnc t.isLD (size t x) (encode t x)) (dflt t) (norm t x) ∧
      packedEnc t.isLD (size t x) (encode t x) ≠ [] := by
    intro x hxm
    have h1 : packedSize t.isLD (size t x) ≤ _ := sumSeq_mem_le (fun x => packedSize t.isLD (size t x)) v x hxm
    have h2 := packedSize_ge t.isLD (size t x)
    have hsx : size t x < 2 ^ 31 := by omega
    have htx := allSeq_mem _ v hty x hxm
    exact ⟨elem_reads cfg t x (dflt t) ht hsx (scalar_encode_ne_nil t x ht htx hne hsx) (ih x hxm),
      packedEnc_ne_nil t x ht htx hne hsx⟩
  have := elemLoop_reads (packedWith cfg t.isLD (decode cfg t)) (dflt t) put
    (fun x => packedEnc t.isLD (size t x) (encode t x)) (norm t) v hx (fuelOf st) st .nil hwf hw
    (by unfold fuelOf; omega)
  rw [hput] at this
  exact this

theorem nodupSeq_mem_nil (ys : Val) : ∀ y, ys.mem y = true → Val.nil.mem y = false := fun _ _ => rfl

mutual
/-- **round trip**, the induction: for a declarable canonical type `t`, a well-typed canonical value `v` with an
encoding below 2 GiB, and any resettable object `d` of that type, parsing `encode t v` into `d` gives `norm t v`
— when the readable window is exactly the encoding, and (for the self-delimiting kinds with a non-empty encoding)
also when more bytes follow. -/
theorem rt (dbg : Bool) : ∀ (t : Ty), wfTy t = true → canonTy t = true → ∀ (v d : Val), hasTy t v = true →
    canon t v = true → resettable t d = true → size t v < 2 ^ 31 → RT (Cfg.repaired dbg) t v d
  | .bool, ht, _, v, d, hty, _, _, _ =>
    rt_scalar _ .bool v d ht rfl hty (fun _ _ => by rw [decode]) (fun _ => by rw [encode]) (by simp [norm])
  | .int b s, ht, _, v, d, hty, _, _, _ =>
    rt_scalar _ (.int b s) v d ht rfl hty (fun _ _ => by rw [decode]) (fun _ => by rw [encode]) (by simp [norm])
  | .enum b s, ht, _, v, d, hty, _, _, _ =>
    rt_scalar _ (.enum b s) v d ht rfl hty (fun _ _ => by rw [decode]) (fun _ => by rw [encode]) (by simp [norm])
  | .f32, _, _, v, d, hty, _, _, _ =>
    rt_fixed _ .f32 4 v d (Or.inl ⟨rfl, rfl⟩)
      (by cases v <;> simp only [hasTy, Bool.false_eq_true, decide_eq_true_eq] at hty; exact ⟨_, rfl, by omega⟩)
      (fun _ _ => by rw [decode]) (fun _ => by rw [encode]) (by simp [norm])
  | .f64, _, _, v, d, hty, _, _, _ =>
    rt_fixed _ .f64 8 v d (Or.inr ⟨rfl, rfl⟩)
      (by cases v <;> simp only [hasTy, Bool.false_eq_true, decide_eq_true_eq] at hty; exact ⟨_, rfl, by omega⟩)
      (fun _ _ => by rw [decode]) (fun _ => by rw [encode]) (by simp [norm])
  | .str, _, _, v, d, hty, _, _, _ => by
    cases v with
    | bytes b =>
      refine ⟨?_, fun h => by simp at h⟩
      intro st hwf hw
      rw [decode]
      simp only [encode, norm] at hw ⊢
      exact decScalar_str b d st hwf hw
    | _ => simp [hasTy] at hty
  | .vec t, ht, hc, v, d, hty, hcv, hd, hsz => by
    simp only [wfTy] at ht
    simp only [canonTy, Bool.and_eq_true] at hc
    simp only [hasTy] at hty
    simp only [canon] at hcv
    simp only [size] at hsz
    cases d <;> simp only [resettable, Bool.false_eq_true] at hd
    refine ⟨?_, fun h => by simp at h⟩
    have := rt_seq (Cfg.repaired dbg) t v Val.snoc ht hc.2 hty hsz
      (fun x hx => rt dbg t ht hc.1 x (dflt t) (allSeq_mem _ v hty x hx) (allSeq_mem _ v hcv x hx)
        (resettable_dflt t hc.1) (by
          have h1 : packedSize t.isLD (size t x) ≤ _ := sumSeq_mem_le (fun x => packedSize t.isLD (size t x)) v x hx
          have h2 := packedSize_ge t.isLD (size t x)
          omega))
      (by rw [foldSeq_snoc _ _ rfl (isChain_mapSeq _ v (hasTy_chain _ v hty))]; rfl)
    intro st hwf hw
    rw [decode]
    simp only [encode, norm] at hw ⊢
    have hcfg : ((Cfg.repaired dbg).vecReserveUnguarded && t.isFloat && st.lim == intMax) = false := by
      simp [Cfg.repaired]
    simp only [hcfg, Bool.false_eq_true, if_false, vecGuard_repaired]
    exact this st hwf hw
  | .list t, ht, hc, v, d, hty, hcv, hd, hsz => by
    simp only [wfTy] at ht
    simp only [canonTy, Bool.and_eq_true] at hc
    simp only [hasTy] at hty
    simp only [canon] at hcv
    simp only [size] at hsz
    cases d <;> simp only [resettable, Bool.false_eq_true] at hd
    refine ⟨?_, fun h => by simp at h⟩
    have := rt_seq (Cfg.repaired dbg) t v Val.snoc ht hc.2 hty hsz
      (fun x hx => rt dbg t ht hc.1 x (dflt t) (allSeq_mem _ v hty x hx) (allSeq_mem _ v hcv x hx)
        (resettable_dflt t hc.1) (by
          have h1 : packedSize t.isLD (size t x) ≤ _ := sumSeq_mem_le (fun x => packedSize t.isLD (size t x)) v x hx
          have h2 := packedSize_ge t.isLD (size t x)
          omega))
      (by rw [foldSeq_snoc _ _ rfl (isChain_mapSeq _ v (hasTy_chain _ v hty))]; rfl)
    intro st hwf hw
    rw [decode]
    simp only [encode, norm] at hw ⊢
    exact this st hwf hw
  | .set t, ht, hc, v, d, hty, hcv, hd, hsz => by
    simp only [wfTy] at ht
    simp only [canonTy, Bool.and_eq_true] at hc
    simp only [hasTy] at hty
    simp only [canon, Bool.and_eq_true] at hcv
    simp only [size] at hsz
    cases d <;> simp only [resettable, Bool.false_eq_true] at hd
    refine ⟨?_, fun h => by simp at h⟩
    have := rt_seq (Cfg.repaired dbg) t v (fun a x => if a.mem x then a else a.snoc x) ht hc.2 hty hsz
      (fun x hx => rt dbg t ht hc.1 x (dflt t) (allSeq_mem _ v hty x hx) (allSeq_mem _ v hcv.1 x hx)
        (resettable_dflt t hc.1) (by
          have h1 : packedSize t.isLD (size t x) ≤ _ := sumSeq_mem_le (fun x => packedSize t.isLD (size t x)) v x hx
          have h2 := packedSize_ge t.isLD (size t x)
          omega))
      (by rw [foldSeq_setPut _ _ rfl (isChain_mapSeq _ v (hasTy_chain _ v hty)) hcv.2 (fun _ _ => rfl)]; rfl)
    intro st hwf hw
    rw [decode]
    simp only [encode, norm] at hw ⊢
    exact this st hwf hw
  | .arr t n, ht, hc, v, d, hty, hcv, hd, hsz => by
    simp only [wfTy, Bool.and_eq_true] at ht
    simp only [canonTy, Bool.and_eq_true] at hc
    simp only [hasTy, Bool.and_eq_true, beq_iff_eq] at hty
    simp only [canon] at hcv
    simp only [size] at hsz
    simp only [resettable, Bool.and_eq_true, beq_iff_eq] at hd
    refine ⟨?_, fun h => by simp at h⟩
    intro st hwf hw
    rw [decode]
    simp only [encode, norm] at hw ⊢
    refine seqEach_reads (packedWith (Cfg.repaired dbg) t.isLD (decode (Cfg.repaired dbg) t))
      (fun x => packedEnc t.isLD (size t x) (encode t x)) (norm t) v d (hasTy_chain _ v hty.1)
      (hasTy_chain _ d hd.1) (by omega) ?_ st hwf hw
    intro x di hx hdi
    have h1 : packedSize t.isLD (size t x) ≤ _ := sumSeq_mem_le (fun x => packedSize t.isLD (size t x)) v x hx
    have h2 := packedSize_ge t.isLD (size t x)
    have hsx : size t x < 2 ^ 31 := by omega
    have htx := allSeq_mem _ v hty.1 x hx
    exact elem_reads _ t x di ht.1 hsx (scalar_encode_ne_nil t x ht.1 htx hc.2 hsx)
      (rt dbg t ht.1 hc.1 x di htx (allSeq_mem _ v hcv x hx) (allSeq_mem _ d hd.1 di hdi) hsx)
  | .map k w, ht, hc, v, d, hty, hcv, hd, hsz => by
    simp only [wfTy, Bool.and_eq_true] at ht
    simp only [canonTy, Bool.and_eq_true] at hc
    simp only [hasTy] at hty
    simp only [canon, Bool.and_eq_true] at hcv
    simp only [size] at hsz
    cases d <;> simp only [resettable, Bool.false_eq_true] at hd
    refine ⟨?_, fun h => by simp at h⟩
    have hshape := allPairs_weaken _ _ v hty
    -- the loop body as "read one entry, then emplace it"
    let Ek := fun x => packedEnc k.isLD (size k x) (encode k x)
    let Ew := fun x => packedEnc w.isLD (size w x) (encode w x)
    let elem : St → Val → Res := fun s _ =>
      match packedWith (Cfg.repaired dbg) k.isLD (decode (Cfg.repaired dbg) k) s (dflt k) with
      | .ok x s' =>
        match packedWith (Cfg.repaired dbg) w.isLD (decode (Cfg.repaired dbg) w) s' (dflt w) with
        | .ok y s'' => .ok (.pair x y) s''
        | r => r
      | r => r
    let put : Val → Val → Val := fun a p => match p with
      | .pair x y => if a.hasKey x then a else a.snoc (.pair x y)
      | _ => a
    let E : Val → Bytes := fun p => match p with | .pair x y => Ek x ++ Ew y | _ => []
    let N : Val → Val := fun p => match p with | .pair x y => .pair (norm k x) (norm w y) | q => q
    have hbody : (fun (s : St) (acc : Val) =>
        match packedWith (Cfg.repaired dbg) k.isLD (decode (Cfg.repaired dbg) k) s (dflt k) with
        | .ok x s' =>
          match packedWith (Cfg.repaired dbg) w.isLD (decode (Cfg.repaired dbg) w) s' (dflt w) with
          | .ok y s'' => .ok (if acc.hasKey x then acc else acc.snoc (.pair x y)) s''
          | r => r
        | r => r) = (fun s acc => match elem s .nil with
          | Res.ok p s' => Res.ok (put acc p) s'
          | r => r) := by
      funext s acc
      simp only [elem, put]
      cases packedWith (Cfg.repaired dbg) k.isLD (decode (Cfg.repaired dbg) k) s (dflt k) with
      | ok x s' =>
        simp only
        cases packedWith (Cfg.repaired dbg) w.isLD (decode (Cfg.repaired dbg) w) s' (dflt w) <;> rfl
      | fail => rfl
      | noret => rfl
    have hx : ∀ p, v.mem p = true → ReadsPrefix elem (E p) .nil (N p) ∧ E p ≠ [] := by
      intro p hp
      obtain ⟨x, y, rfl, hxk, hyw⟩ := allPairs_mem _ _ v hty p hp
      obtain ⟨_, _, heq, hcx, hcy⟩ := allPairs_mem _ _ v hcv.1 (.pair x y) hp
      cases heq
      have hle := sumPairs_mem_le (fun x => packedSize k.isLD (size k x)) (fun x => packedSize w.isLD (size w x))
        v hshape x y hp
      have h1 := packedSize_ge k.isLD (size k x)
      have h2 := packedSize_ge w.isLD (size w y)
      have hsx : size k x < 2 ^ 31 := by omega
      have hsy : size w y < 2 ^ 31 := by omega
      have rk := elem_reads (Cfg.repaired dbg) k x (dflt k) ht.1 hsx (scalar_encode_ne_nil k x ht.1 hxk hc.1.2 hsx)
        (rt dbg k ht.1 hc.1.1.1 x (dflt k) hxk hcx (resettable_dflt k hc.1.1.1) hsx)
      have rw' := elem_reads (Cfg.repaired dbg) w y (dflt w) ht.2 hsy (scalar_encode_ne_nil w y ht.2 hyw hc.2 hsy)
        (rt dbg w ht.2 hc.1.1.2 y (dflt w) hyw hcy (resettable_dflt w hc.1.1.2) hsy)
      refine ⟨?_, ?_⟩
      · intro st rest hwf hw
        simp only [E, Ek, Ew, List.append_assoc] at hw
        obtain ⟨hk1, hw1⟩ := St.window_after hw
        simp only [elem, N]
        rw [rk st _ hwf hw]
        simp only
        rw [rw' _ rest (St.WF_adv hwf hk1) hw1]
        simp only [E, Ek, Ew, List.length_append, St.adv_adv]
      · simp only [E, Ek]
        have := packedEnc_ne_nil k x ht.1 hxk hc.1.2 hsx
        intro h
        exact this (List.append_eq_nil_iff.mp h).1
    intro st hwf hw
    rw [decode]
    simp only [encode, norm] at hw ⊢
    rw [catPairs_eq_catSeq _ _ v hshape] at hw
    refine (congrArg (fun b => loopN St.hasBytes b (fuelOf st) st Val.nil) hbody).trans ?_
    have := elemLoop_reads elem .nil put E N v hx (fuelOf st) st .nil hwf hw (by unfold fuelOf; omega)
    refine this.trans ?_
    have hN : mapSeq N v = mapPairs (norm k) (norm w) v := (mapPairs_eq_mapSeq _ _ v hshape).symm
    rw [hN, catPairs_eq_catSeq _ _ v hshape]
    congr 1
    have hsh2 : allPairs (fun _ => true) (fun _ => true) (mapPairs (norm k) (norm w) v) = true := by
      clear this hN hx hbody hw hcv hsz
      induction v with
      | cons h t _ iht =>
        cases h with
        | pair a b =>
          simp only [allPairs, Bool.and_eq_true] at hshape hty ⊢
          simp only [mapPairs, allPairs, Bool.and_eq_true]
          exact ⟨⟨trivial, trivial⟩, iht hty.2 hshape.2⟩
        | _ => simp [allPairs] at hshape
      | nil => rfl
      | _ => simp [allPairs] at hshape
    exact foldSeq_mapPut _ .nil rfl hsh2 hcv.2 (fun _ _ => rfl)
  | .uptr t, ht, hc, v, d, hty, hcv, hd, hsz => by
    simp only [wfTy] at ht
    simp only [canonTy] at hc
    cases d <;> simp only [resettable, Bool.false_eq_true] at hd
    cases v with
    | null =>
      refine ⟨?_, fun _ h => by simp [encode] at h⟩
      intro st hwf hw
      simp only [encode, norm] at hw ⊢
      have hav : st.avail = 0 := by rw [← St.window_length, hw]; rfl
      simp [decode, St.hasBytes, hav]
    | some x =>
      simp only [hasTy] at hty
      simp only [canon] at hcv
      simp only [size] at hsz
      have ih := rt dbg t ht hc x (dflt t) hty hcv (resettable_dflt t hc) hsz
      have hlen := encode_length t ht x (by omega)
      refine ⟨?_, ?_⟩
      · intro st hwf hw
        simp only [encode] at hw ⊢
        by_cases h0 : size t x = 0
        · have hav : st.avail = 0 := by rw [← St.window_length, hw, hlen, h0]
          have he : encode t x = [] := List.eq_nil_of_length_eq_zero (by omega)
          simp [decode, St.hasBytes, hav, norm, h0, he]
        · have hav : 0 < st.avail := by rw [← St.window_length, hw, hlen]; omega
          have hb : st.hasBytes = true := by simp [St.hasBytes, hav]
          simp only [decode, hb, if_true, ih.1 st hwf hw, norm, h0, if_false]
      · intro hld hne st rest hwf hw
        simp only [encode] at hw hne ⊢
        simp only [isLD_uptr] at hld
        have h0 : size t x ≠ 0 := by
          intro h; apply hne; exact List.eq_nil_of_length_eq_zero (by omega)
        have hav : 0 < st.avail := by
          rw [← St.window_length, hw, List.length_append, hlen]; omega
        have hb : st.hasBytes = true := by simp [St.hasBytes, hav]
        simp only [decode, hb, if_true, ih.2 hld hne st rest hwf hw, norm, h0, if_false]
    | _ => simp [hasTy] at hty
  | .sptr t, ht, hc, v, d, hty, hcv, hd, hsz => by
    simp only [wfTy] at ht
    simp only [canonTy] at hc
    cases d <;> simp only [resettable, Bool.false_eq_true] at hd
    cases v with
    | null =>
      refine ⟨?_, fun _ h => by simp [encode] at h⟩
      intro st hwf hw
      simp only [encode, norm] at hw ⊢
      have hav : st.avail = 0 := by rw [← St.window_length, hw]; rfl
      simp [decode, St.hasBytes, hav]
    | some x =>
      simp only [hasTy] at hty
      simp only [canon] at hcv
      simp only [size] at hsz
      have ih := rt dbg t ht hc x (dflt t) hty hcv (resettable_dflt t hc) hsz
      have hlen := encode_length t ht x (by omega)
      refine ⟨?_, ?_⟩
      · intro st hwf hw
        simp only [encode] at hw ⊢
        by_cases h0 : size t x = 0
        · have hav : st.avail = 0 := by rw [← St.window_length, hw, hlen, h0]
          have he : encode t x = [] := List.eq_nil_of_length_eq_zero (by omega)
          simp [decode, St.hasBytes, hav, norm, h0, he]
        · have hav : 0 < st.avail := by rw [← St.window_length, hw, hlen]; omega
          have hb : st.hasBytes = true := by simp [St.hasBytes, hav]
          simp only [decode, hb, if_true, ih.1 st hwf hw, norm, h0, if_false]
      · intro hld hne st rest hwf hw
        simp only [encode] at hw hne ⊢
        simp only [isLD_sptr] at hld
        have h0 : size t x ≠ 0 := by
          intro h; apply hne; exact List.eq_nil_of_length_eq_zero (by omega)
        have hav : 0 < st.avail := by
          rw [← St.window_length, hw, List.length_append, hlen]; omega
        have hb : st.hasBytes = true := by simp [St.hasBytes, hav]
        simp only [decode, hb, if_true, ih.2 hld hne st rest hwf hw, norm, h0, if_false]
    | _ => simp [hasTy] at hty
  | .agg b fs, ht, hc, v, d, hty, hcv, hd, hsz => by
    simp only [wfTy, Bool.and_eq_true] at ht
    simp only [canonTy] at hc
    simp only [hasTy] at hty
    simp only [canon] at hcv
    simp only [size] at hsz
    simp only [resettable] at hd
    refine ⟨?_, fun h => by simp at h⟩
    intro st hwf hw
    rw [decode]
    simp only [encode, norm] at hw ⊢
    exact rtFields dbg fs ht.1 hc ht.2 .nil .nil v d rfl (fun _ _ => rfl) hty hcv hd hsz (fuelOf st) st hwf hw
      (by unfold fuelOf; omega)
theorem rtFields (dbg : Bool) : ∀ (suf : Fields), wfFields suf = true → canonFields suf = true →
    suf.nodupNums = true → ∀ (pre : Fields) (rpre vs ds : Val), shapeOf pre rpre = true →
    (∀ m, suf.hasNum m = true → pre.hasNum m = false) →
    hasTyFields suf vs = true → canonRec suf vs = true → resettableFields suf ds = true →
    sizeFields suf vs < 2 ^ 31 →
    ∀ (f : Nat) (st : St), st.WF → st.window = encodeFields suf vs → st.bs.length < f →
      loopN St.hasBytes (fun s acc => let r := readTag s
          decodeField (Cfg.repaired dbg) (pre.app suf) (r.1 >>> tagFieldShift) r.1 r.2 acc) f st (rpre.app ds) =
        .ok (rpre.app (normFields suf vs)) (st.adv (encodeFields suf vs).length)
  | .nil, _, _, _, pre, rpre, vs, ds, _, _, hty, _, hd, _, f, st, _, hw, hf => by
    cases vs <;> simp only [hasTyFields, Bool.false_eq_true] at hty
    cases ds <;> simp only [resettableFields, Bool.false_eq_true] at hd
    simp only [encodeFields] at hw
    cases f with
    | zero => omega
    | succ f =>
      rw [loopN]
      have hav : st.avail = 0 := by rw [← St.window_length, hw]; rfl
      have hb : st.hasBytes = false := by simp [St.hasBytes, hav]
      simp [hb, normFields, encodeFields]
  | .cons n t d0 rest, ht, hc, hnd, pre, rpre, vs, ds, hsh, hdis, hty, hcv, hd, hsz, f, st, hwf, hw, hf => by
    simp only [wfFields, Bool.and_eq_true, decide_eq_true_eq] at ht
    simp only [canonFields, Bool.and_eq_true] at hc
    simp only [Fields.nodupNums, Bool.and_eq_true, Bool.not_eq_true'] at hnd
    cases vs <;> simp only [hasTyFields, Bool.false_eq_true, Bool.and_eq_true] at hty
    cases ds <;> simp only [resettableFields, Bool.false_eq_true, Bool.and_eq_true] at hd
    rename_i x xs dx dxs
    simp only [canonRec, Bool.and_eq_true] at hcv
    simp only [sizeFields] at hsz
    have hfs := fieldSize_ge n t (size t x)
    have hsx : size t x < 2 ^ 31 := by omega
    -- the fields that follow see `pre` extended by this one
    have hdis' : ∀ m, rest.hasNum m = true → (pre.app (.cons n t d0 .nil)).hasNum m = false := by
      intro m hm
      rw [Fields.hasNum_app_one, hdis m (by simp [Fields.hasNum, hm])]
      simp only [Bool.false_or, beq_eq_false_iff_ne]
      intro heq; subst heq; rw [hnd.1] at hm; cases hm
    have step : ∀ (y : Val) (f' : Nat) (st' : St), st'.WF → st'.window = encodeFields rest xs → st'.bs.length < f' →
        loopN St.hasBytes (fun s acc => let r := readTag s
          decodeField (Cfg.repaired dbg) (pre.app (.cons n t d0 rest)) (r.1 >>> tagFieldShift) r.1 r.2 acc) f' st'
            (rpre.app (.cons y dxs)) =
          .ok (rpre.app (.cons y (normFields rest xs))) (st'.adv (encodeFields rest xs).length) := by
      intro y f' st' hwf' hw' hf'
      have := rtFields dbg rest ht.2 hc.2 hnd.2 (pre.app (.cons n t d0 .nil)) (rpre.app (.cons y .nil)) xs dxs
        (shapeOf_app_one n t d0 y pre rpre hsh) hdis' hty.2 hcv.2 hd.2 (by omega) f' st' hwf' hw' hf'
      rw [Fields.app_assoc_one, val_app_assoc_one y dxs pre rpre hsh,
        val_app_assoc_one y (normFields rest xs) pre rpre hsh] at this
      exact this
    by_cases h0 : size t x = 0
    · -- empty member: not on the wire, the object keeps its (resettable) default, which is what the value reads back as
      have hnorm := norm_of_size_zero t ht.1.1.2 hc.1.1 x dx hty.1 hd.1 h0
      simp only [encodeFields, fieldEnc, h0, if_true, List.nil_append, normFields, hnorm] at hw ⊢
      exact step dx f st hwf hw hf
    · simp only [encodeFields] at hw
      cases f with
      | zero => omega
      | succ f =>
        have ih := rt dbg t ht.1.1.2 hc.1.1 x dx hty.1 hcv.1 hd.1 hsx
        obtain ⟨htag, hfield⟩ := field_reads (Cfg.repaired dbg) n t x dx ht.1.1.1.2 ht.1.1.2 hsx h0 ih st _ hwf hw
        obtain ⟨hk, hw'⟩ := St.window_after hw
        have hne : fieldEnc n t (size t x) (encode t x) ≠ [] := by
          simp only [fieldEnc, h0, if_false]
          intro h
          have := encVarint_length_pos (mkTag n t)
          rw [(List.append_eq_nil_iff.mp h).1] at this
          simp at this
        have hpos : 0 < (fieldEnc n t (size t x) (encode t x)).length := List.length_pos_iff.mpr hne
        have hav : 0 < st.avail := by rw [← St.window_length, hw, List.length_append]; omega
        have hb : st.hasBytes = true := by simp [St.hasBytes, hav]
        rw [loopN]
        simp only [hb, if_true, htag, mkTag_num n t ht.1.1.1.2]
        rw [decodeField_at (Cfg.repaired dbg) n t d0 rest (mkTag n t) _ dx dxs pre rpre hsh
          (hdis n (by simp [Fields.hasNum])), hfield]
        have hnle : ¬ (st.adv (fieldEnc n t (size t x) (encode t x)).length).pos ≤ st.pos := by
          simp only [St.adv_pos]; omega
        simp only [hnle, if_false]
        rw [step (norm t x) f _ (St.WF_adv hwf hk) hw' (by
          have := st.avail_le_length
          simp only [St.adv_bs, List.length_drop]; omega)]
        simp only [normFields, encodeFields, List.length_append, St.adv_adv]
end

/-! ### the initial state of a presentation -/

theorem init_bs (p : Pres) (bs : Bytes) : (St.init p bs).bs = bs := by
  unfold St.init; cases p.outer <;> simp

theorem init_pos (p : Pres) (bs : Bytes) : (St.init p bs).pos = 0 := by
  unfold St.init; cases p.outer <;> simp

theorem init_WF (p : Pres) (bs : Bytes) (hlen : bs.length ≤ intMax) : (St.init p bs).WF := by
  unfold St.init
  have base : St.WF { bs := bs, pos := 0, lim := if p.flat = true then bs.length else intMax, flat := p.flat } := by
    unfold St.WF
    simp only
    split <;> omega
  cases p.outer with
  | none => exact base
  | some n => exact St.WF_pushLimit base n

theorem pushLimit_lim_cases (st : St) (n : Nat) :
    (st.pushLimit n).lim = st.lim ∨ (st.pushLimit n).lim = st.pos + n := by
  unfold St.pushLimit; split
  · exact Or.inr rfl
  · exact Or.inl rfl

theorem init_lim_ge (p : Pres) (bs : Bytes) (hlen : bs.length ≤ intMax) (hp : p.shows bs.length) :
    bs.length ≤ (St.init p bs).lim := by
  have base : bs.length ≤ (if p.flat = true then bs.length else intMax) := by split <;> omega
  unfold St.init
  cases ho : p.outer with
  | none => exact base
  | some L =>
    have hL := hp L ho
    simp only
    rcases pushLimit_lim_cases
      { bs := bs, pos := 0, lim := if p.flat = true then bs.length else intMax, flat := p.flat } L with h | h
    · rw [h]; exact base
    · rw [h]; simp only; omega

/-- a presentation that shows all the bytes: the readable window is the whole input -/
theorem init_window (p : Pres) (bs : Bytes) (hlen : bs.length ≤ intMax) (hp : p.shows bs.length) :
    (St.init p bs).window = bs := by
  have h1 := init_bs p bs
  have h2 := init_pos p bs
  have h3 := init_lim_ge p bs hlen hp
  unfold St.window St.avail
  rw [h1, h2]
  have : min bs.length ((St.init p bs).lim - 0) = bs.length := by omega
  rw [this, List.take_length]

end Babylon.Wire
