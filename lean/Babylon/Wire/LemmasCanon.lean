/-
  Facts about well-typed / canonical values used by the round-trip proof: element encodings are non-empty, default
  values are resettable, and a value with an empty encoding reads back as the (resettable) default.
-/
import Babylon.Wire.LemmasSize

namespace Babylon.Wire
open Babylon.Gen.Wire

@[simp] theorem isLD_bool : Ty.bool.isLD = false := by decide
@[simp] theorem isLD_int (b : Nat) (s : Bool) : (Ty.int b s).isLD = false := by simp [Ty.isLD, Ty.wire]; decide
@[simp] theorem isLD_enum (b : Nat) (s : Bool) : (Ty.enum b s).isLD = false := by simp [Ty.isLD, Ty.wire]; decide
@[simp] theorem isLD_f32 : Ty.f32.isLD = false := by decide
@[simp] theorem isLD_f64 : Ty.f64.isLD = false := by decide
@[simp] theorem isLD_str : Ty.str.isLD = true := by decide
@[simp] theorem isLD_vec (t : Ty) : (Ty.vec t).isLD = true := by simp [Ty.isLD, Ty.wire]
@[simp] theorem isLD_list (t : Ty) : (Ty.list t).isLD = true := by simp [Ty.isLD, Ty.wire]
@[simp] theorem isLD_set (t : Ty) : (Ty.set t).isLD = true := by simp [Ty.isLD, Ty.wire]
@[simp] theorem isLD_arr (t : Ty) (n : Nat) : (Ty.arr t n).isLD = true := by simp [Ty.isLD, Ty.wire]
@[simp] theorem isLD_map (k w : Ty) : (Ty.map k w).isLD = true := by simp [Ty.isLD, Ty.wire]
@[simp] theorem isLD_agg (b : Bool) (fs : Fields) : (Ty.agg b fs).isLD = true := by simp [Ty.isLD, Ty.wire]
@[simp] theorem isLD_uptr (t : Ty) : (Ty.uptr t).isLD = t.isLD := by simp [Ty.isLD, Ty.wire]
@[simp] theorem isLD_sptr (t : Ty) : (Ty.sptr t).isLD = t.isLD := by simp [Ty.isLD, Ty.wire]

/-- a scalar always has a non-empty encoding -/
theorem size_pos_of_scalar (t : Ty) (v : Val) (ht : wfTy t = true) (hty : hasTy t v = true) (hld : t.isLD = false)
    (hp : t.isPtr = false) : 0 < size t v := by
  cases t <;> simp only [isLD_str, isLD_vec, isLD_list, isLD_set, isLD_arr, isLD_map, isLD_agg, Ty.isPtr,
    Bool.true_eq_false] at hld hp
  case bool => cases v <;> simp only [hasTy, Bool.false_eq_true] at hty; exact varintSize_pos _ (scalarWire_lt .bool _ ht)
  case int b s => cases v <;> simp only [hasTy, Bool.false_eq_true] at hty; exact varintSize_pos _ (scalarWire_lt (.int b s) _ ht)
  case enum b s => cases v <;> simp only [hasTy, Bool.false_eq_true] at hty; exact varintSize_pos _ (scalarWire_lt (.enum b s) _ ht)
  case f32 => cases v <;> simp only [hasTy, Bool.false_eq_true] at hty; simp [size]
  case f64 => cases v <;> simp only [hasTy, Bool.false_eq_true] at hty; simp [size]

/-- the packed size of an element of a canonical container is positive -/
theorem packedSize_pos (t : Ty) (x : Val) (ht : wfTy t = true) (hty : hasTy t x = true) (hne : t.packedNonEmpty = true)
    (hs : size t x < 2 ^ 64) : 0 < packedSize t.isLD (size t x) := by
  unfold packedSize
  cases hld : t.isLD with
  | true => simp only [if_true]; have := varintSize_pos (size t x) hs; omega
  | false =>
    simp only [Bool.false_eq_true, if_false]
    have hp : t.isPtr = false := by simpa [Ty.packedNonEmpty, hld] using hne
    exact size_pos_of_scalar t x ht hty hld hp

theorem sumSeq_eq_zero (g : Val → Nat) : ∀ v, allSeq (fun _ => true) v = true → sumSeq g v = 0 →
    (∀ x, v.mem x = true → g x = 0 → False) → v = .nil := by
  intro v
  cases v with
  | cons h t =>
    intro _ hs hpos
    simp only [sumSeq] at hs
    exact (hpos h (by simp [Val.mem]) (by omega)).elim
  | nil => intros; rfl
  | _ => intro h; simp [allSeq] at h

theorem sumPairs_eq_zero (g1 g2 : Val → Nat) : ∀ v, allPairs (fun _ => true) (fun _ => true) v = true →
    sumPairs g1 g2 v = 0 → (∀ k w t, v = .cons (.pair k w) t → g1 k = 0 → False) → v = .nil := by
  intro v
  cases v with
  | cons h t =>
    intro hp hs hpos
    cases h with
    | pair k w =>
      simp only [sumPairs] at hs
      exact (hpos k w t rfl (by omega)).elim
    | _ => simp [allPairs] at hp
  | nil => intros; rfl
  | _ => intro h; simp [allPairs] at h

theorem allPairs_weaken (f g : Val → Bool) : ∀ v, allPairs f g v = true → allPairs (fun _ => true) (fun _ => true) v = true := by
  intro v
  induction v with
  | cons h t _ iht =>
    intro hh
    cases h with
    | pair k w => simp only [allPairs, Bool.and_eq_true] at hh ⊢; exact ⟨⟨trivial, trivial⟩, iht hh.2⟩
    | _ => simp [allPairs] at hh
  | nil => intro; rfl
  | _ => intro hh; simp [allPairs] at hh

theorem allSeq_weaken (f : Val → Bool) : ∀ v, allSeq f v = true → allSeq (fun _ => true) v = true := by
  intro v
  induction v with
  | cons h t _ iht => intro hh; simp only [allSeq, Bool.and_eq_true] at hh ⊢; exact ⟨trivial, iht hh.2⟩
  | nil => intro; rfl
  | _ => intro hh; simp [allSeq] at hh

theorem allSeq_mem (f : Val → Bool) : ∀ v, allSeq f v = true → ∀ x, v.mem x = true → f x = true := by
  intro v
  induction v with
  | cons h t _ iht =>
    intro hh x hx
    simp only [allSeq, Bool.and_eq_true] at hh
    simp only [Val.mem, Bool.or_eq_true, beq_iff_eq] at hx
    rcases hx with rfl | hx
    · exact hh.1
    · exact iht hh.2 x hx
  | _ => intro _ x hx; simp [Val.mem] at hx

theorem allSeq_replicate (f : Val → Bool) (x : Val) (hx : f x = true) : ∀ n, allSeq f (Val.replicate n x) = true := by
  intro n
  induction n with
  | zero => rfl
  | succ n ih => simp [Val.replicate, allSeq, hx, ih]

theorem length_replicate (x : Val) : ∀ n, (Val.replicate n x).length = n := by
  intro n
  induction n with
  | zero => rfl
  | succ n ih => simp [Val.replicate, Val.length, ih]

mutual
/-- a default-constructed object of a canonical type is resettable -/
theorem resettable_dflt : ∀ (t : Ty), canonTy t = true → resettable t (dflt t) = true
  | .bool, _ | .int _ _, _ | .enum _ _, _ | .f32, _ | .f64, _ => by simp [dflt, resettable]
  | .str, _ => by simp [dflt, resettable]
  | .vec _, _ | .list _, _ | .set _, _ | .map _ _, _ => by simp [dflt, resettable]
  | .uptr _, _ | .sptr _, _ => by simp [dflt, resettable]
  | .arr t n, h => by
    simp only [canonTy, Bool.and_eq_true] at h
    simp only [dflt, resettable, Bool.and_eq_true, beq_iff_eq]
    exact ⟨allSeq_replicate _ _ (resettable_dflt t h.1) n, length_replicate _ n⟩
  | .agg _ fs, h => by
    simp only [canonTy] at h
    simp only [dflt, resettable]
    exact resettable_dfltFields fs h
theorem resettable_dfltFields : ∀ (fs : Fields), canonFields fs = true → resettableFields fs (dfltFields fs) = true
  | .nil, _ => by simp [dfltFields, resettableFields]
  | .cons n t d rest, h => by
    simp only [canonFields, Bool.and_eq_true] at h
    simp only [dfltFields, resettableFields, Bool.and_eq_true]
    exact ⟨h.1.2, resettable_dfltFields rest h.2⟩
end

theorem fieldSize_eq_zero {num : Nat} {t : Ty} {s : Nat} (h : fieldSize num t s = 0) (hs : s < 2 ^ 64) : s = 0 := by
  unfold fieldSize at h
  split at h
  · assumption
  · have := varintSize_pos (mkTag num t) (Nat.lt_of_lt_of_le (mkTag_lt num t) (by decide)); omega

mutual
/-- **empty encoding ⇒ reads back as the default**: a value whose encoding is empty equals, after the
null-normalisation of smart pointers, every resettable object of its type. -/
theorem norm_of_size_zero : ∀ (t : Ty), wfTy t = true → canonTy t = true → ∀ (v d : Val), hasTy t v = true →
    resettable t d = true → size t v = 0 → norm t v = d
  | .bool, ht, _, v, d, hty, _, hs => by
    have := size_pos_of_scalar .bool v ht hty (by simp) rfl; omega
  | .int b s, ht, _, v, d, hty, _, hs => by
    have := size_pos_of_scalar (.int b s) v ht hty (by simp) rfl; omega
  | .enum b s, ht, _, v, d, hty, _, hs => by
    have := size_pos_of_scalar (.enum b s) v ht hty (by simp) rfl; omega
  | .f32, ht, _, v, d, hty, _, hs => by
    have := size_pos_of_scalar .f32 v ht hty (by simp) rfl; omega
  | .f64, ht, _, v, d, hty, _, hs => by
    have := size_pos_of_scalar .f64 v ht hty (by simp) rfl; omega
  | .str, _, _, v, d, hty, hd, hs => by
    cases v <;> simp only [hasTy, Bool.false_eq_true] at hty
    cases d <;> simp only [resettable, Bool.false_eq_true] at hd
    simp only [size] at hs
    simp only [norm]
    rename_i b b'
    have h1 : b = [] := List.eq_nil_of_length_eq_zero hs
    have h2 : b' = [] := by simpa using hd
    rw [h1, h2]
  | .vec t, ht, hc, v, d, hty, hd, hs => by
    simp only [wfTy] at ht
    simp only [canonTy, Bool.and_eq_true] at hc
    simp only [hasTy] at hty
    simp only [size] at hs
    have hv : v = .nil := sumSeq_eq_zero _ v (allSeq_weaken _ v hty) hs (fun x hx h0 => by
      have h1 : size t x ≤ packedSize t.isLD (size t x) := packedSize_ge _ _
      have := packedSize_pos t x ht (allSeq_mem _ v hty x hx) hc.2 (by omega)
      omega)
    subst hv
    cases d <;> simp only [resettable, Bool.false_eq_true] at hd
    simp [norm, mapSeq]
  | .list t, ht, hc, v, d, hty, hd, hs => by
    simp only [wfTy] at ht
    simp only [canonTy, Bool.and_eq_true] at hc
    simp only [hasTy] at hty
    simp only [size] at hs
    have hv : v = .nil := sumSeq_eq_zero _ v (allSeq_weaken _ v hty) hs (fun x hx h0 => by
      have h1 : size t x ≤ packedSize t.isLD (size t x) := packedSize_ge _ _
      have := packedSize_pos t x ht (allSeq_mem _ v hty x hx) hc.2 (by omega)
      omega)
    subst hv
    cases d <;> simp only [resettable, Bool.false_eq_true] at hd
    simp [norm, mapSeq]
  | .set t, ht, hc, v, d, hty, hd, hs => by
    simp only [wfTy] at ht
    simp only [canonTy, Bool.and_eq_true] at hc
    simp only [hasTy] at hty
    simp only [size] at hs
    have hv : v = .nil := sumSeq_eq_zero _ v (allSeq_weaken _ v hty) hs (fun x hx h0 => by
      have h1 : size t x ≤ packedSize t.isLD (size t x) := packedSize_ge _ _
      have := packedSize_pos t x ht (allSeq_mem _ v hty x hx) hc.2 (by omega)
      omega)
    subst hv
    cases d <;> simp only [resettable, Bool.false_eq_true] at hd
    simp [norm, mapSeq]
  | .arr t n, ht, hc, v, d, hty, hd, hs => by
    simp only [wfTy, Bool.and_eq_true, decide_eq_true_eq] at ht
    simp only [canonTy, Bool.and_eq_true] at hc
    simp only [hasTy, Bool.and_eq_true, beq_iff_eq] at hty
    simp only [size] at hs
    have hv : v = .nil := sumSeq_eq_zero _ v (allSeq_weaken _ v hty.1) hs (fun x hx h0 => by
      have h1 : size t x ≤ packedSize t.isLD (size t x) := packedSize_ge _ _
      have := packedSize_pos t x ht.1 (allSeq_mem _ v hty.1 x hx) hc.2 (by omega)
      omega)
    subst hv
    have := hty.2
    simp only [Val.length] at this
    omega
  | .map k w, ht, hc, v, d, hty, hd, hs => by
    simp only [wfTy, Bool.and_eq_true] at ht
    simp only [canonTy, Bool.and_eq_true] at hc
    simp only [hasTy] at hty
    simp only [size] at hs
    have hv : v = .nil := sumPairs_eq_zero _ _ v (allPairs_weaken _ _ v hty) hs (fun x y t hv h0 => by
      subst hv
      simp only [allPairs, Bool.and_eq_true] at hty
      have h1 : size k x ≤ packedSize k.isLD (size k x) := packedSize_ge _ _
      have := packedSize_pos k x ht.1 hty.1.1 hc.1.2 (by omega)
      omega)
    subst hv
    cases d <;> simp only [resettable, Bool.false_eq_true] at hd
    simp [norm, mapPairs]
  | .uptr t, _, _, v, d, hty, hd, hs => by
    cases d <;> simp only [resettable, Bool.false_eq_true] at hd
    cases v <;> simp only [hasTy, Bool.false_eq_true] at hty
    · simp [norm]
    · simp only [size] at hs; simp [norm, hs]
  | .sptr t, _, _, v, d, hty, hd, hs => by
    cases d <;> simp only [resettable, Bool.false_eq_true] at hd
    cases v <;> simp only [hasTy, Bool.false_eq_true] at hty
    · simp [norm]
    · simp only [size] at hs; simp [norm, hs]
  | .agg _ fs, ht, hc, v, d, hty, hd, hs => by
    simp only [wfTy, Bool.and_eq_true] at ht
    simp only [canonTy] at hc
    simp only [hasTy] at hty
    simp only [resettable] at hd
    simp only [size] at hs
    simp only [norm]
    exact normFields_of_size_zero fs ht.1 hc v d hty hd hs
theorem normFields_of_size_zero : ∀ (fs : Fields), wfFields fs = true → canonFields fs = true → ∀ (v d : Val),
    hasTyFields fs v = true → resettableFields fs d = true → sizeFields fs v = 0 → normFields fs v = d
  | .nil, _, _, v, d, hty, hd, _ => by
    cases v <;> simp only [hasTyFields, Bool.false_eq_true] at hty
    cases d <;> simp only [resettableFields, Bool.false_eq_true] at hd
    simp [normFields]
  | .cons n t d0 rest, ht, hc, v, d, hty, hd, hs => by
    simp only [wfFields, Bool.and_eq_true] at ht
    simp only [canonFields, Bool.and_eq_true] at hc
    cases v <;> simp only [hasTyFields, Bool.false_eq_true, Bool.and_eq_true] at hty
    cases d <;> simp only [resettableFields, Bool.false_eq_true, Bool.and_eq_true] at hd
    rename_i x xs dx dxs
    simp only [sizeFields] at hs
    have h1 : fieldSize n t (size t x) = 0 := by omega
    have h2 : sizeFields rest xs = 0 := by omega
    have hsz : size t x ≤ fieldSize n t (size t x) := fieldSize_ge _ _ _
    have h3 : size t x = 0 := by omega
    simp only [normFields]
    rw [norm_of_size_zero t ht.1.1.2 hc.1.1 x dx hty.1 hd.1 h3,
      normFields_of_size_zero rest ht.2 hc.2 xs dxs hty.2 hd.2 h2]
end

end Babylon.Wire
