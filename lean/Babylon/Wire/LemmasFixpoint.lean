/-
  Whatever a successful parse returns is a well-typed canonical value — so it serializes and parses back to
  itself (fixpoint).
-/
import Babylon.Wire.LemmasRoundtrip2

namespace Babylon.Wire
open Babylon.Gen.Wire

mutual
/-- no smart pointer anywhere inside the type -/
def noPtr : Ty → Bool
  | .uptr _ | .sptr _ => false
  | .vec t => noPtr t
  | .list t => noPtr t
  | .set t => noPtr t
  | .arr t _ => noPtr t
  | .map k w => noPtr k && noPtr w
  | .agg _ fs => noPtrFields fs
  | _ => true
def noPtrFields : Fields → Bool
  | .nil => true
  | .cons _ t _ rest => noPtr t && noPtrFields rest
end

mutual
/-- set elements and map keys (compared by value by the C++ containers) contain no smart pointers -/
def keysPtrFree : Ty → Bool
  | .set t => noPtr t && keysPtrFree t
  | .map k w => noPtr k && keysPtrFree k && keysPtrFree w
  | .vec t => keysPtrFree t
  | .list t => keysPtrFree t
  | .arr t _ => keysPtrFree t
  | .uptr t => keysPtrFree t
  | .sptr t => keysPtrFree t
  | .agg _ fs => keysPtrFreeFields fs
  | _ => true
def keysPtrFreeFields : Fields → Bool
  | .nil => true
  | .cons _ t _ rest => keysPtrFree t && keysPtrFreeFields rest
end

theorem mapSeq_id (f : Val → Val) (hf : ∀ x, f x = x) : ∀ v, mapSeq f v = v := by
  intro v
  induction v with
  | cons h t _ iht => simp only [mapSeq, hf h, iht]
  | _ => rfl

theorem mapPairs_id (f g : Val → Val) (hf : ∀ x, f x = x) (hg : ∀ x, g x = x) : ∀ v, mapPairs f g v = v := by
  intro v
  induction v with
  | cons h t _ iht => cases h <;> simp only [mapPairs, hf, hg, iht]
  | _ => rfl

mutual
/-- without smart pointers nothing is normalised -/
theorem norm_id : ∀ (t : Ty), noPtr t = true → ∀ v, norm t v = v
  | .bool, _, v | .int _ _, _, v | .enum _ _, _, v | .f32, _, v | .f64, _, v | .str, _, v => by simp [norm]
  | .vec t, h, v => by simp only [noPtr] at h; simp only [norm]; exact mapSeq_id _ (norm_id t h) v
  | .list t, h, v => by simp only [noPtr] at h; simp only [norm]; exact mapSeq_id _ (norm_id t h) v
  | .set t, h, v => by simp only [noPtr] at h; simp only [norm]; exact mapSeq_id _ (norm_id t h) v
  | .arr t n, h, v => by simp only [noPtr] at h; simp only [norm]; exact mapSeq_id _ (norm_id t h) v
  | .map k w, h, v => by
    simp only [noPtr, Bool.and_eq_true] at h
    simp only [norm]
    exact mapPairs_id _ _ (norm_id k h.1) (norm_id w h.2) v
  | .uptr _, h, _ => by simp [noPtr] at h
  | .sptr _, h, _ => by simp [noPtr] at h
  | .agg _ fs, h, v => by simp only [noPtr] at h; simp only [norm]; exact normFields_id fs h v
theorem normFields_id : ∀ (fs : Fields), noPtrFields fs = true → ∀ v, normFields fs v = v
  | .nil, _, v => by cases v <;> simp [normFields]
  | .cons n t d rest, h, v => by
    simp only [noPtrFields, Bool.and_eq_true] at h
    cases v <;> simp only [normFields]
    rw [norm_id t h.1, normFields_id rest h.2]
end

mutual
/-- resettable objects are canonical values -/
theorem canon_of_resettable : ∀ (t : Ty) (d : Val), resettable t d = true → canon t d = true
  | .bool, d, _ | .int _ _, d, _ | .enum _ _, d, _ | .f32, d, _ | .f64, d, _ | .str, d, _ => by simp [canon]
  | .vec t, d, h => by cases d <;> simp only [resettable, Bool.false_eq_true] at h; simp [canon, allSeq]
  | .list t, d, h => by cases d <;> simp only [resettable, Bool.false_eq_true] at h; simp [canon, allSeq]
  | .set t, d, h => by
    cases d <;> simp only [resettable, Bool.false_eq_true] at h; simp [canon, allSeq, mapSeq, nodupSeq]
  | .map k w, d, h => by
    cases d <;> simp only [resettable, Bool.false_eq_true] at h; simp [canon, allPairs, mapPairs, keysOf, nodupSeq]
  | .uptr t, d, h => by cases d <;> simp only [resettable, Bool.false_eq_true] at h; simp [canon]
  | .sptr t, d, h => by cases d <;> simp only [resettable, Bool.false_eq_true] at h; simp [canon]
  | .arr t n, d, h => by
    simp only [resettable, Bool.and_eq_true] at h
    simp only [canon]
    have h1 := h.1
    clear h
    induction d with
    | cons x xs _ ih =>
      simp only [allSeq, Bool.and_eq_true] at h1 ⊢
      exact ⟨canon_of_resettable t x h1.1, ih h1.2⟩
    | nil => rfl
    | _ => simp [allSeq] at h1
  | .agg _ fs, d, h => by
    simp only [resettable] at h
    simp only [canon]
    exact canonRec_of_resettable fs d h
theorem canonRec_of_resettable : ∀ (fs : Fields) (d : Val), resettableFields fs d = true → canonRec fs d = true
  | .nil, d, _ => by cases d <;> simp [canonRec]
  | .cons n t d0 rest, d, h => by
    cases d <;> simp only [resettableFields, Bool.false_eq_true, Bool.and_eq_true] at h
    simp only [canonRec, Bool.and_eq_true]
    exact ⟨canon_of_resettable t _ h.1, canonRec_of_resettable rest _ h.2⟩
end

mutual
theorem hasTy_dflt : ∀ (t : Ty), wfTy t = true → hasTy t (dflt t) = true
  | .bool, _ | .f32, _ | .f64, _ => by simp [dflt, hasTy]
  | .int b _, _ | .enum b _, _ => by simp [dflt, hasTy, Nat.two_pow_pos]
  | .str, _ => by simp [dflt, hasTy]
  | .vec _, _ | .list _, _ | .set _, _ => by simp [dflt, hasTy, allSeq]
  | .map _ _, _ => by simp [dflt, hasTy, allPairs]
  | .uptr _, _ | .sptr _, _ => by simp [dflt, hasTy]
  | .arr t n, h => by
    simp only [wfTy, Bool.and_eq_true] at h
    simp only [dflt, hasTy, Bool.and_eq_true, beq_iff_eq]
    exact ⟨allSeq_replicate _ _ (hasTy_dflt t h.1) n, length_replicate _ n⟩
  | .agg _ fs, h => by
    simp only [wfTy, Bool.and_eq_true] at h
    simp only [dflt, hasTy]
    exact hasTy_dfltFields fs h.1
theorem hasTy_dfltFields : ∀ (fs : Fields), wfFields fs = true → hasTyFields fs (dfltFields fs) = true
  | .nil, _ => by simp [dfltFields, hasTyFields]
  | .cons n t d rest, h => by
    simp only [wfFields, Bool.and_eq_true] at h
    simp only [dfltFields, hasTyFields, Bool.and_eq_true]
    exact ⟨h.1.2, hasTy_dfltFields rest h.2⟩
end

/-! ### invariants through the parser's combinators -/

theorem loopN_inv (I : Val → Prop) (guard : St → Bool) (body : St → Val → Res)
    (hbody : ∀ s a a' s', I a → body s a = .ok a' s' → I a') :
    ∀ (f : Nat) (st : St) (acc v : Val) (st' : St), I acc → loopN guard body f st acc = .ok v st' → I v := by
  intro f
  induction f with
  | zero => intro st acc v st' _ h; simp [loopN] at h
  | succ f ih =>
    intro st acc v st' hI h
    rw [loopN] at h
    split at h
    · cases hb : body st acc with
      | ok a' s' =>
        rw [hb] at h
        simp only at h
        split at h
        · cases h
        · exact ih s' a' v st' (hbody st acc a' s' hI hb) h
      | fail => rw [hb] at h; cases h
      | noret => rw [hb] at h; cases h
    · cases h; exact hI

theorem packedWith_ok {cfg : Cfg} {ld : Bool} {dec : St → Val → Res} {st : St} {d v : Val} {st' : St}
    (h : packedWith cfg ld dec st d = .ok v st') : ∃ s1 s2, dec s1 d = .ok v s2 := by
  unfold packedWith at h
  cases ld with
  | false => simp only [Bool.false_eq_true, if_false] at h; exact ⟨st, st', h⟩
  | true =>
    simp only [if_true] at h
    cases hr : readVarint st with
    | ok n s1 =>
      rw [hr] at h
      simp only at h
      cases hd : dec (s1.pushLimit (n % 2 ^ 32)) d with
      | ok x s2 => rw [hd] at h; cases h; exact ⟨_, s2, hd⟩
      | fail => rw [hd] at h; cases h
      | noret => rw [hd] at h; cases h
    | fail s1 =>
      rw [hr] at h
      simp only at h
      split at h
      · cases h
      · cases hd : dec (s1.pushLimit 0) d with
        | ok x s2 => rw [hd] at h; cases h; exact ⟨_, s2, hd⟩
        | fail => rw [hd] at h; cases h
        | noret => rw [hd] at h; cases h

theorem fieldWith_ok {cfg : Cfg} {wire tag : Nat} {dec : St → Val → Res} {st : St} {d v : Val} {st' : St}
    (h : fieldWith cfg wire tag dec st d = .ok v st') : ∃ s1 s2, dec s1 d = .ok v s2 := by
  unfold fieldWith at h
  split at h
  · cases h
  · exact packedWith_ok h

theorem seqEach_inv (I : Val → Prop) (dec : St → Val → Res)
    (hdec : ∀ s d v s', I d → dec s d = .ok v s' → I v) :
    ∀ (ds : Val) (st : St) (v : Val) (st' : St), (∀ d, ds.mem d = true → I d) → seqEach dec ds st = .ok v st' →
      (∀ x, v.mem x = true → I x) ∧ v.length = ds.length ∧ (isChain ds = true → isChain v = true) := by
  intro ds
  induction ds with
  | cons d ds _ ih =>
    intro st v st' hI h
    rw [seqEach] at h
    cases hd : dec st d with
    | ok x s1 =>
      rw [hd] at h
      simp only at h
      cases hs : seqEach dec ds s1 with
      | ok xs s2 =>
        rw [hs] at h
        cases h
        obtain ⟨h1, h2, h3⟩ := ih s1 xs _ (fun e he => hI e (by simp [Val.mem, he])) hs
        refine ⟨?_, by simp [Val.length, h2], fun hc => by rw [isChain_cons] at hc ⊢; exact h3 hc⟩
        intro y hy
        simp only [Val.mem, Bool.or_eq_true, beq_iff_eq] at hy
        rcases hy with rfl | hy
        · exact hdec st d _ s1 (hI d (by simp [Val.mem])) hd
        · exact h1 y hy
      | fail => rw [hs] at h; cases h
      | noret => rw [hs] at h; cases h
    | fail => rw [hd] at h; cases h
    | noret => rw [hd] at h; cases h
  | nil => intro st v st' _ h; simp only [seqEach] at h; cases h; exact ⟨fun x hx => by simp [Val.mem] at hx, rfl, id⟩
  | num n => intro st v st' hI h; simp only [seqEach] at h; cases h; exact ⟨fun x hx => by simp [Val.mem] at hx, rfl, id⟩
  | bytes b => intro st v st' hI h; simp only [seqEach] at h; cases h; exact ⟨fun x hx => by simp [Val.mem] at hx, rfl, id⟩
  | null => intro st v st' hI h; simp only [seqEach] at h; cases h; exact ⟨fun x hx => by simp [Val.mem] at hx, rfl, id⟩
  | some x _ => intro st v st' hI h; simp only [seqEach] at h; cases h; exact ⟨fun x hx => by simp [Val.mem] at hx, rfl, id⟩
  | pair a b _ _ => intro st v st' hI h; simp only [seqEach] at h; cases h; exact ⟨fun x hx => by simp [Val.mem] at hx, rfl, id⟩

theorem allSeq_of_mem (f : Val → Bool) : ∀ v, isChain v = true → (∀ x, v.mem x = true → f x = true) → allSeq f v = true := by
  intro v
  induction v with
  | cons h t _ iht =>
    intro hc hm
    rw [isChain_cons] at hc
    simp only [allSeq, Bool.and_eq_true]
    exact ⟨hm h (by simp [Val.mem]), iht hc (fun x hx => hm x (by simp [Val.mem, hx]))⟩
  | nil => intros; rfl
  | _ => intro hc; simp [isChain, allSeq] at hc

theorem allSeq_snoc (f : Val → Bool) : ∀ acc x, allSeq f acc = true → f x = true → allSeq f (acc.snoc x) = true := by
  intro acc
  induction acc with
  | cons h t _ iht =>
    intro x ha hx
    simp only [allSeq, Bool.and_eq_true] at ha
    simp only [Val.snoc, allSeq, Bool.and_eq_true]
    exact ⟨ha.1, iht x ha.2 hx⟩
  | nil => intro x _ hx; simp [Val.snoc, allSeq, hx]
  | _ => intro x ha; simp [allSeq] at ha

theorem nodupSeq_snoc : ∀ acc x, isChain acc = true → nodupSeq acc = true → acc.mem x = false →
    nodupSeq (acc.snoc x) = true := by
  intro acc
  induction acc with
  | cons h t _ iht =>
    intro x hc hn hm
    rw [isChain_cons] at hc
    simp only [nodupSeq, Bool.and_eq_true, Bool.not_eq_true'] at hn
    simp only [Val.mem, Bool.or_eq_false_iff, beq_eq_false_iff_ne] at hm
    simp only [Val.snoc, nodupSeq, Bool.and_eq_true, Bool.not_eq_true']
    refine ⟨?_, iht x hc hn.2 hm.2⟩
    rw [mem_snoc t x h hc, hn.1]
    simp only [Bool.false_or, beq_eq_false_iff_ne]
    exact fun e => hm.1 e.symm
  | nil => intro x _ _ _; simp [Val.snoc, nodupSeq, Val.mem]
  | _ => intro x hc; simp [isChain, allSeq] at hc

theorem allPairs_snoc (f g : Val → Bool) : ∀ acc k w, allPairs f g acc = true → f k = true → g w = true →
    allPairs f g (acc.snoc (.pair k w)) = true := by
  intro acc
  induction acc with
  | cons h t _ iht =>
    intro k w ha hk hw
    cases h with
    | pair a b =>
      simp only [allPairs, Bool.and_eq_true] at ha
      simp only [Val.snoc, allPairs, Bool.and_eq_true]
      exact ⟨ha.1, iht k w ha.2 hk hw⟩
    | _ => simp [allPairs] at ha
  | nil => intro k w _ hk hw; simp [Val.snoc, allPairs, hk, hw]
  | _ => intro k w ha; simp [allPairs] at ha

theorem keysOf_snoc : ∀ acc k w, allPairs (fun _ => true) (fun _ => true) acc = true →
    keysOf (acc.snoc (.pair k w)) = (keysOf acc).snoc k := by
  intro acc
  induction acc with
  | cons h t _ iht =>
    intro k w ha
    cases h with
    | pair a b =>
      simp only [allPairs, Bool.and_eq_true] at ha
      simp only [Val.snoc, keysOf, iht k w ha.2]
    | _ => simp [allPairs] at ha
  | nil => intro k w _; simp [Val.snoc, keysOf]
  | _ => intro k w ha; simp [allPairs] at ha

theorem hasKey_eq_mem_keys : ∀ acc k, allPairs (fun _ => true) (fun _ => true) acc = true →
    acc.hasKey k = (keysOf acc).mem k := by
  intro acc
  induction acc with
  | cons h t _ iht =>
    intro k ha
    cases h with
    | pair a b =>
      simp only [allPairs, Bool.and_eq_true] at ha
      simp only [Val.hasKey, keysOf, Val.mem, iht k ha.2]
    | _ => simp [allPairs] at ha
  | nil => intro k _; simp [Val.hasKey, keysOf, Val.mem]
  | _ => intro k ha; simp [allPairs] at ha

theorem isChain_keysOf : ∀ acc, isChain (keysOf acc) = true := by
  intro acc
  induction acc with
  | cons h t _ iht =>
    cases h with
    | pair a b => simp only [keysOf, isChain_cons]; exact iht
    | _ => simp [keysOf, isChain, allSeq]
  | _ => simp [keysOf, isChain, allSeq]

theorem decFixed_lt : ∀ (bs : Bytes), decFixed bs < 256 ^ bs.length := by
  intro bs
  induction bs with
  | nil => simp [decFixed]
  | cons b bs ih =>
    simp only [decFixed, List.length_cons, Nat.pow_succ]
    have := b.toNat_lt
    omega

end Babylon.Wire
