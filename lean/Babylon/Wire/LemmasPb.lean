/-
  babylon's parser reads protobuf's own encoding of the documented-compatible kinds.
-/
import Babylon.Wire.Pb
import Babylon.Wire.LemmasRoundtrip2

namespace Babylon.Wire
open Babylon.Gen.Wire

/-- what the induction says about one value and an arbitrary encoding of it -/
def RTb (cfg : Cfg) (t : Ty) (enc : Bytes) (d v : Val) : Prop :=
  Reads (decode cfg t) enc d v ∧ (t.isLD = false → enc ≠ [] → ReadsPrefix (decode cfg t) enc d v)

/-- a known field with an arbitrary payload encoding -/
theorem field_reads_gen (cfg : Cfg) (n : Nat) (t : Ty) (b : Bytes) (d v : Val) (hn : n < 2 ^ 29)
    (hlen : b.length < 2 ^ 31) (hne : t.isLD = false → b ≠ []) (ih : RTb cfg t b d v) (st : St) (rest : Bytes)
    (hwf : st.WF) (hw : st.window = encVarint (mkTag n t) ++ packedEnc t.isLD b.length b ++ rest) :
    readTag st = (mkTag n t, st.adv (encVarint (mkTag n t)).length) ∧
    fieldWith cfg t.wire (mkTag n t) (decode cfg t) (st.adv (encVarint (mkTag n t)).length) d =
      .ok v (st.adv (encVarint (mkTag n t) ++ packedEnc t.isLD b.length b).length) := by
  rw [List.append_assoc] at hw
  refine ⟨readTag_enc hw, ?_⟩
  obtain ⟨hk, hw1⟩ := St.window_after hw
  unfold fieldWith
  have hwire : (mkTag n t % (tagWireMask + 1) != t.wire) = false := by
    rw [mkTag_wire n t hn]; simp
  simp only [hwire, Bool.and_false, Bool.false_eq_true, if_false]
  have hld : (t.wire == wtLenDelim) = t.isLD := rfl
  rw [hld]
  have := packedWith_reads cfg t.isLD (decode cfg t) b.length b d v rfl hlen (fun _ => ih.1)
    (fun h => ih.2 h (hne h)) (st.adv (encVarint (mkTag n t)).length) rest (St.WF_adv hwf hk) hw1
  rw [this, St.adv_adv, List.length_append]

theorem sext_mod64 {b : Nat} (s : Bool) (n : Nat) (hb : okBits b = true) (hn : n < 2 ^ b) :
    (sext b 64 s n % 2 ^ intVarintBits b) % 2 ^ b = n := by
  rcases okBits_cases hb with rfl | rfl | rfl | rfl <;>
    simp only [sext, Nat.mod_eq_of_lt hn, intVarintBits] <;> split <;> simp <;> omega

/-- protobuf's varint of an `int32/int64/uint32/uint64` read by babylon's scalar parser -/
theorem decScalar_pb_int (b : Nat) (s : Bool) (n : Nat) (hb : okBits b = true) (hn : n < 2 ^ b) (d : Val) :
    ReadsPrefix (fun st _ => decScalar (.int b s) st) (encVarint (sext b 64 s n)) d (.num n) := by
  intro st rest _ hw
  have hlt : sext b 64 s n < 2 ^ 64 := sext_lt s n (by rcases okBits_cases hb with rfl | rfl | rfl | rfl <;> omega)
  have hr := readVarint_enc hlt hw
  show decScalar (.int b s) st = _
  simp only [decScalar, hr, scalarRead, sext_mod64 s n hb hn]

/-- a compatible scalar: protobuf's bytes, read by babylon, in exact and prefix form -/
theorem pb_scalar (cfg : Cfg) (t : Ty) (n : Nat) (d : Val) (ht : wfTy t = true) (hc : compatScalar t = true)
    (hty : hasTy t (.num n) = true) :
    ReadsPrefix (decode cfg t) (pbScalar t n) d (.num n) ∧ pbScalar t n ≠ [] := by
  cases t <;> simp only [compatScalar, Bool.false_eq_true] at hc
  case bool =>
    refine ⟨?_, ?_⟩
    · intro st rest hwf hw
      rw [decode]
      exact decScalar_varint .bool n ht rfl hty d st rest hwf hw
    · simp only [pbScalar]; intro h; have := encVarint_length_pos (if n = 0 then 0 else 1); rw [h] at this; simp at this
  case int b s =>
    simp only [wfTy] at ht
    simp only [hasTy, decide_eq_true_eq] at hty
    refine ⟨?_, ?_⟩
    · intro st rest hwf hw
      rw [decode]
      exact decScalar_pb_int b s n ht hty d st rest hwf hw
    · simp only [pbScalar]; intro h; have := encVarint_length_pos (sext b 64 s n); rw [h] at this; simp at this
  case enum b s =>
    refine ⟨?_, ?_⟩
    · intro st rest hwf hw
      rw [decode]
      exact decScalar_varint (.enum b s) n ht rfl hty d st rest hwf hw
    · simp only [pbScalar]; intro h; have := encVarint_length_pos (sext b 64 s n); rw [h] at this; simp at this
  case f32 =>
    simp only [hasTy, decide_eq_true_eq] at hty
    refine ⟨?_, ?_⟩
    · intro st rest hwf hw
      rw [decode]
      exact decScalar_fixed .f32 4 n (Or.inl ⟨rfl, rfl⟩) (by omega) d st rest hwf hw
    · simp only [pbScalar]; intro h; have := encFixed_length 4 n; rw [h] at this; simp at this
  case f64 =>
    simp only [hasTy, decide_eq_true_eq] at hty
    refine ⟨?_, ?_⟩
    · intro st rest hwf hw
      rw [decode]
      exact decScalar_fixed .f64 8 n (Or.inr ⟨rfl, rfl⟩) (by omega) d st rest hwf hw
    · simp only [pbScalar]; intro h; have := encFixed_length 8 n; rw [h] at this; simp at this

theorem compatScalar_num (t : Ty) (x : Val) (hc : compatScalar t = true) (hty : hasTy t x = true) : ∃ n, x = .num n := by
  cases t <;> simp only [compatScalar, Bool.false_eq_true] at hc <;>
    cases x <;> simp only [hasTy, Bool.false_eq_true] at hty <;> exact ⟨_, rfl⟩

theorem compatScalar_notLD (t : Ty) (hc : compatScalar t = true) : t.isLD = false := by
  cases t <;> simp only [compatScalar, Bool.false_eq_true] at hc <;> simp

theorem compatScalar_pbEncode (t : Ty) (n : Nat) (hc : compatScalar t = true) : pbEncode t (.num n) = pbScalar t n := by
  cases t <;> simp only [compatScalar, Bool.false_eq_true] at hc <;> simp [pbEncode]

/-- a compatible member that is not length-delimited is a scalar -/
theorem compat_nonLD_scalar (t : Ty) (hc : compatTy t = true) (hld : t.isLD = false) : compatScalar t = true := by
  cases t <;> first
    | (simp at hld; done)
    | (simpa [compatTy] using hc)
    | (simp [compatTy, compatScalar] at hc)

theorem mapSeq_self (f : Val → Val) : ∀ v, (∀ x, v.mem x = true → f x = x) → mapSeq f v = v := by
  intro v
  induction v with
  | cons h t _ iht =>
    intro hf
    simp only [mapSeq, hf h (by simp [Val.mem]), iht (fun x hx => hf x (by simp [Val.mem, hx]))]
  | _ => intro; rfl

mutual
/-- **babylon reads protobuf**: for a declarable struct of the documented-compatible kinds and a well-typed value,
parsing protobuf's encoding of the value into a fresh (resettable) object yields the value. -/
theorem pb_rt (dbg : Bool) : ∀ (t : Ty), wfTy t = true → compatTy t = true → ∀ (v d : Val), hasTy t v = true →
    resettable t d = true → (pbEncode t v).length < 2 ^ 31 → RTb (Cfg.repaired dbg) t (pbEncode t v) d v
  | .str, _, _, v, d, hty, _, _ => by
    cases v with
    | bytes b =>
      refine ⟨?_, fun h => by simp at h⟩
      intro st hwf hw
      rw [decode]
      simp only [pbEncode] at hw ⊢
      exact decScalar_str b d st hwf hw
    | _ => simp [hasTy] at hty
  | .vec t, ht, hc, v, d, hty, hd, hsz => by
    simp only [wfTy] at ht
    simp only [compatTy] at hc
    simp only [hasTy] at hty
    cases d <;> simp only [resettable, Bool.false_eq_true] at hd
    refine ⟨?_, fun h => by simp at h⟩
    intro st hwf hw
    rw [decode]
    simp only [pbEncode] at hw ⊢
    have hcfg : ((Cfg.repaired dbg).vecReserveUnguarded && t.isFloat && st.lim == intMax) = false := by
      simp [Cfg.repaired]
    simp only [hcfg, Bool.false_eq_true, if_false, vecGuard_repaired]
    have hld := compatScalar_notLD t hc
    have hx : ∀ x, v.mem x = true →
        ReadsPrefix (packedWith (Cfg.repaired dbg) t.isLD (decode (Cfg.repaired dbg) t))
          ((fun x => match x with | .num n => pbScalar t n | _ => []) x) (dflt t) ((fun x => x) x) ∧
        (fun x => match x with | .num n => pbScalar t n | _ => []) x ≠ [] := by
      intro x hxm
      have htx := allSeq_mem _ v hty x hxm
      obtain ⟨n, rfl⟩ := compatScalar_num t x hc htx
      obtain ⟨h1, h2⟩ := pb_scalar (Cfg.repaired dbg) t n (dflt t) ht hc htx
      refine ⟨?_, h2⟩
      intro st rest hwf hw
      unfold packedWith
      simp only [hld, Bool.false_eq_true, if_false]
      exact h1 st rest hwf hw
    have := elemLoop_reads (packedWith (Cfg.repaired dbg) t.isLD (decode (Cfg.repaired dbg) t)) (dflt t) Val.snoc
      (fun x => match x with | .num n => pbScalar t n | _ => []) (fun x => x) v hx (fuelOf st) st .nil hwf hw
      (by unfold fuelOf; omega)
    rw [mapSeq_self _ v (fun _ _ => rfl), foldSeq_snoc _ _ rfl (hasTy_chain _ v hty)] at this
    exact this
  | .agg b fs, ht, hc, v, d, hty, hd, hsz => by
    simp only [wfTy, Bool.and_eq_true] at ht
    simp only [compatTy] at hc
    simp only [hasTy] at hty
    simp only [resettable] at hd
    refine ⟨?_, fun h => by simp at h⟩
    intro st hwf hw
    rw [decode]
    simp only [pbEncode] at hw hsz ⊢
    exact pb_rtFields dbg fs ht.1 hc ht.2 .nil .nil v d rfl (fun _ _ => rfl) hty hd hsz (fuelOf st) st hwf hw
      (by unfold fuelOf; omega)
  | .bool, ht, hc, v, d, hty, _, _ => by
    obtain ⟨n, rfl⟩ := compatScalar_num .bool v rfl hty
    rw [compatScalar_pbEncode .bool n rfl]
    obtain ⟨h1, _⟩ := pb_scalar (Cfg.repaired dbg) .bool n d ht rfl hty
    exact ⟨h1.reads, fun _ _ => h1⟩
  | .int b s, ht, hc, v, d, hty, _, _ => by
    simp only [compatTy] at hc
    obtain ⟨n, rfl⟩ := compatScalar_num (.int b s) v hc hty
    rw [compatScalar_pbEncode (.int b s) n hc]
    obtain ⟨h1, _⟩ := pb_scalar (Cfg.repaired dbg) (.int b s) n d ht hc hty
    exact ⟨h1.reads, fun _ _ => h1⟩
  | .enum b s, ht, hc, v, d, hty, _, _ => by
    simp only [compatTy] at hc
    obtain ⟨n, rfl⟩ := compatScalar_num (.enum b s) v hc hty
    rw [compatScalar_pbEncode (.enum b s) n hc]
    obtain ⟨h1, _⟩ := pb_scalar (Cfg.repaired dbg) (.enum b s) n d ht hc hty
    exact ⟨h1.reads, fun _ _ => h1⟩
  | .f32, ht, hc, v, d, hty, _, _ => by
    obtain ⟨n, rfl⟩ := compatScalar_num .f32 v rfl hty
    rw [compatScalar_pbEncode .f32 n rfl]
    obtain ⟨h1, _⟩ := pb_scalar (Cfg.repaired dbg) .f32 n d ht rfl hty
    exact ⟨h1.reads, fun _ _ => h1⟩
  | .f64, ht, hc, v, d, hty, _, _ => by
    obtain ⟨n, rfl⟩ := compatScalar_num .f64 v rfl hty
    rw [compatScalar_pbEncode .f64 n rfl]
    obtain ⟨h1, _⟩ := pb_scalar (Cfg.repaired dbg) .f64 n d ht rfl hty
    exact ⟨h1.reads, fun _ _ => h1⟩
  | .list _, _, hc, _, _, _, _, _ => by simp [compatTy, compatScalar] at hc
  | .set _, _, hc, _, _, _, _, _ => by simp [compatTy, compatScalar] at hc
  | .arr _ _, _, hc, _, _, _, _, _ => by simp [compatTy, compatScalar] at hc
  | .map _ _, _, hc, _, _, _, _, _ => by simp [compatTy, compatScalar] at hc
  | .uptr _, _, hc, _, _, _, _, _ => by simp [compatTy, compatScalar] at hc
  | .sptr _, _, hc, _, _, _, _, _ => by simp [compatTy, compatScalar] at hc
theorem pb_rtFields (dbg : Bool) : ∀ (suf : Fields), wfFields suf = true → compatFields suf = true →
    suf.nodupNums = true → ∀ (pre : Fields) (rpre vs ds : Val), shapeOf pre rpre = true →
    (∀ m, suf.hasNum m = true → pre.hasNum m = false) →
    hasTyFields suf vs = true → resettableFields suf ds = true → (pbEncodeFields suf vs).length < 2 ^ 31 →
    ∀ (f : Nat) (st : St), st.WF → st.window = pbEncodeFields suf vs → st.bs.length < f →
      loopN St.hasBytes (fun s acc => let r := readTag s
          decodeField (Cfg.repaired dbg) (pre.app suf) (r.1 >>> tagFieldShift) r.1 r.2 acc) f st (rpre.app ds) =
        .ok (rpre.app vs) (st.adv (pbEncodeFields suf vs).length)
  | .nil, _, _, _, pre, rpre, vs, ds, _, _, hty, hd, _, f, st, _, hw, hf => by
    cases vs <;> simp only [hasTyFields, Bool.false_eq_true] at hty
    cases ds <;> simp only [resettableFields, Bool.false_eq_true] at hd
    simp only [pbEncodeFields] at hw
    cases f with
    | zero => omega
    | succ f =>
      rw [loopN]
      have hav : st.avail = 0 := by rw [← St.window_length, hw]; rfl
      have hb : st.hasBytes = false := by simp [St.hasBytes, hav]
      simp [hb, pbEncodeFields]
  | .cons n t d0 rest, ht, hc, hnd, pre, rpre, vs, ds, hsh, hdis, hty, hd, hsz, f, st, hwf, hw, hf => by
    simp only [wfFields, Bool.and_eq_true, decide_eq_true_eq] at ht
    simp only [compatFields, Bool.and_eq_true] at hc
    simp only [Fields.nodupNums, Bool.and_eq_true, Bool.not_eq_true'] at hnd
    cases vs <;> simp only [hasTyFields, Bool.false_eq_true, Bool.and_eq_true] at hty
    cases ds <;> simp only [resettableFields, Bool.false_eq_true, Bool.and_eq_true] at hd
    rename_i x xs dx dxs
    simp only [pbEncodeFields, List.length_append] at hsz
    have hdis' : ∀ m, rest.hasNum m = true → (pre.app (.cons n t d0 .nil)).hasNum m = false := by
      intro m hm
      rw [Fields.hasNum_app_one, hdis m (by simp [Fields.hasNum, hm])]
      simp only [Bool.false_or, beq_eq_false_iff_ne]
      intro heq; subst heq; rw [hnd.1] at hm; cases hm
    have step : ∀ (y : Val) (f' : Nat) (st' : St), st'.WF → st'.window = pbEncodeFields rest xs → st'.bs.length < f' →
        loopN St.hasBytes (fun s acc => let r := readTag s
          decodeField (Cfg.repaired dbg) (pre.app (.cons n t d0 rest)) (r.1 >>> tagFieldShift) r.1 r.2 acc) f' st'
            (rpre.app (.cons y dxs)) =
          .ok (rpre.app (.cons y xs)) (st'.adv (pbEncodeFields rest xs).length) := by
      intro y f' st' hwf' hw' hf'
      have := pb_rtFields dbg rest ht.2 hc.2 hnd.2 (pre.app (.cons n t d0 .nil)) (rpre.app (.cons y .nil)) xs dxs
        (shapeOf_app_one n t d0 y pre rpre hsh) hdis' hty.2 hd.2 (by omega) f' st' hwf' hw' hf'
      rw [Fields.app_assoc_one, val_app_assoc_one y dxs pre rpre hsh, val_app_assoc_one y xs pre rpre hsh] at this
      exact this
    by_cases habs : (t.isVec && (pbEncode t x).isEmpty) = true
    · -- an empty packed repeated field is not on the wire; the fresh vector is empty too
      have hxd : x = dx := by
        simp only [Bool.and_eq_true] at habs
        cases t with
        | vec te =>
          have hdx : dx = .nil := by
            cases dx <;> first | rfl | exact absurd hd.1 (by simp [resettable])
          subst hdx
          simp only [compatTy] at hc
          simp only [hasTy] at hty
          have hem : pbEncode (.vec te) x = [] := by simpa using habs.2
          simp only [pbEncode] at hem
          cases x with
          | cons h tl =>
            have hty1 := hty.1
            simp only [allSeq, Bool.and_eq_true] at hty1
            obtain ⟨m, rfl⟩ := compatScalar_num te h hc.1 hty1.1
            have hne := (pb_scalar (Cfg.repaired dbg) te m .nil ht.1.1.2 hc.1 hty1.1).2
            simp only [catSeq] at hem
            exact absurd (List.append_eq_nil_iff.mp hem).1 hne
          | nil => rfl
          | _ => exact absurd hty.1 (by simp [allSeq])
        | _ => simp [Ty.isVec] at habs
      simp only [pbEncodeFields, pbField, habs, if_true, List.nil_append] at hw ⊢
      rw [hxd]
      exact step dx f st hwf hw hf
    · simp only [pbEncodeFields, pbField, habs, Bool.false_eq_true, if_false] at hw hsz ⊢
      have hb32 : (pbEncode t x).length < 2 ^ 31 := by
        cases hl : t.isLD <;> simp [hl] at hsz <;> omega
      have hpk : (if t.isLD = true then encVarint (pbEncode t x).length ++ pbEncode t x else pbEncode t x) =
          packedEnc t.isLD (pbEncode t x).length (pbEncode t x) := by
        unfold packedEnc
        rw [Nat.mod_eq_of_lt (show (pbEncode t x).length < 2 ^ 32 by omega)]
      rw [hpk] at hw
      cases f with
      | zero => omega
      | succ f =>
        have ih := pb_rt dbg t ht.1.1.2 hc.1 x dx hty.1 hd.1 hb32
        have hne : t.isLD = false → pbEncode t x ≠ [] := by
          intro hld
          have hsc := compat_nonLD_scalar t hc.1 hld
          obtain ⟨m, rfl⟩ := compatScalar_num t x hsc hty.1
          rw [compatScalar_pbEncode t m hsc]
          exact (pb_scalar (Cfg.repaired dbg) t m .nil ht.1.1.2 hsc hty.1).2
        obtain ⟨htag, hfield⟩ := field_reads_gen (Cfg.repaired dbg) n t (pbEncode t x) dx x ht.1.1.1.2 hb32 hne ih
          st _ hwf hw
        obtain ⟨hk, hw'⟩ := St.window_after hw
        have hpos : 0 < (encVarint (mkTag n t) ++ packedEnc t.isLD (pbEncode t x).length (pbEncode t x)).length := by
          rw [List.length_append]; have := encVarint_length_pos (mkTag n t); omega
        have hav : 0 < st.avail := by rw [← St.window_length, hw, List.length_append]; omega
        have hb : st.hasBytes = true := by simp [St.hasBytes, hav]
        rw [loopN]
        simp only [hb, if_true, htag, mkTag_num n t ht.1.1.1.2]
        rw [decodeField_at (Cfg.repaired dbg) n t d0 rest (mkTag n t) _ dx dxs pre rpre hsh
          (hdis n (by simp [Fields.hasNum])), hfield]
        have hnle : ¬ (st.adv (encVarint (mkTag n t) ++ packedEnc t.isLD (pbEncode t x).length (pbEncode t x)).length).pos
            ≤ st.pos := by simp only [St.adv_pos]; omega
        simp only [hnle, if_false]
        rw [step x f _ (St.WF_adv hwf hk) hw' (by
          have := st.avail_le_length
          simp only [St.adv_bs, List.length_drop]; omega)]
        rw [hpk]
        simp only [List.length_append, St.adv_adv]
end

end Babylon.Wire
