/-
  Executable model of babylon's serialization layer (src/babylon/serialization/*), written to follow
  the code — not the protobuf specification:

  * `Ty`   the universe of serializable types (scalars, enum, float/double as raw bits, string,
           vector / T[N] / list / unordered_set / unordered_map, unique_ptr / shared_ptr, aggregates
           declared with `BABYLON_SERIALIZABLE[_WITH_BASE]` — numbered fields with their default
           member initialisers)
  * `Val`  untyped value trees (`HasTy` says when a value inhabits a type)
  * `size` / `encode`   `calculate_serialized_size` / `serialize`
  * `St`   the observable state of a `CodedInputStream`: remaining bytes, absolute position, current
           limit (`INT_MAX` = none), array-backed or stream-backed
  * `decode`   `deserialize`: merge-into-existing semantics, vector/list append, `PushLimit` that
           ignores negative / too long lengths, unknown fields skipped by wire type, the wire type
           of a known field checked only in debug builds, `ReadTag` failure read as tag 0, …
           A result is `ok value state`, `fail` (the parser returned false) or `noret` (the C++
           call never returns normally: an iteration of a parse loop succeeds without consuming
           anything, so the loop spins until `bad_alloc`; or `reserve` throws inside `noexcept`).

  The three places where the code was repaired while this model was written are parameters (`Cfg`),
  so that both shapes are modelled and `Babylon.Gen.Wire` says which one the source has.

  Stream-backed input: protobuf's varint slow path consumes ten continuation bytes before it gives up,
  the array path consumes nothing; which one runs depends on the buffer. For an array-backed stream
  the buffer is everything up to the limit; for a stream-backed one this model assumes chunks shorter
  than 10 bytes (the harness uses 1…7), where the slow path always runs.

  Core Lean only (links into `drv_C11`).
-/
import Babylon.Wire.Varint

namespace Babylon.Wire
open Babylon.Gen.Wire

/-! ## Values and types -/

inductive Val
  | num (n : Nat)          -- bool (0/1), integers and enums as two's complement bit patterns, float/double raw bits
  | bytes (b : Bytes)      -- std::string
  | null                   -- empty smart pointer
  | some (v : Val)         -- smart pointer to `v`
  | nil                    -- end of a sequence / record
  | cons (h t : Val)       -- sequence element (vector, T[N], list, set, map entries) or record member
  | pair (k v : Val)       -- map entry
  deriving DecidableEq, Repr, Inhabited

mutual
inductive Ty
  | bool
  | int (bits : Nat) (sgn : Bool)     -- int8_t … uint64_t
  | enum (bits : Nat) (sgn : Bool)    -- enum with the given underlying type
  | f32 | f64
  | str
  | vec (t : Ty)
  | arr (t : Ty) (n : Nat)
  | list (t : Ty)
  | set (t : Ty)
  | map (k v : Ty)
  | uptr (t : Ty)
  | sptr (t : Ty)
  | agg (base : Bool) (fs : Fields)   -- `base`: the first entry of `fs` is the base class
inductive Fields
  | nil
  | cons (num : Nat) (t : Ty) (dflt : Val) (rest : Fields)   -- field number, member type, default member initialiser
end

namespace Val
def snoc : Val → Val → Val
  | cons h t, x => cons h (t.snoc x)
  | _, x => cons x nil
def length : Val → Nat
  | cons _ t => t.length + 1
  | _ => 0
def replicate : Nat → Val → Val
  | 0, _ => nil
  | n + 1, v => cons v (replicate n v)
/-- membership in a cons-chain (`unordered_set::emplace` finds an equal element) -/
def mem : Val → Val → Bool
  | cons h t, x => h == x || mem t x
  | _, _ => false
/-- key lookup in a chain of pairs (`unordered_map::emplace` finds an equal key) -/
def hasKey : Val → Val → Bool
  | cons (pair k' _) t, k => k' == k || hasKey t k
  | cons _ t, k => hasKey t k
  | _, _ => false
def toList : Val → List Val
  | cons h t => h :: t.toList
  | _ => []
def ofList : List Val → Val
  | [] => nil
  | h :: t => cons h (ofList t)
end Val

/-- `SerializeTraits<T>::WIRE_TYPE` -/
def Ty.wire : Ty → Nat
  | .bool | .int _ _ | .enum _ _ => wtVarint
  | .f32 => wtFixed32
  | .f64 => wtFixed64
  | .uptr t | .sptr t => t.wire
  | _ => wtLenDelim

def Ty.isLD (t : Ty) : Bool := t.wire == wtLenDelim

def Ty.isFloat : Ty → Bool
  | .f32 | .f64 => true
  | _ => false

/-- sign extension done by `static_cast<uint32_t/uint64_t>(value)` -/
def sext (bits to : Nat) (sgn : Bool) (n : Nat) : Nat :=
  let m := n % 2 ^ bits
  if sgn && decide (2 ^ (bits - 1) ≤ m) then m + 2 ^ to - 2 ^ bits else m

/-- the scalar kinds listed in the first macro group of scalar.h go through `Varint32` -/
def intVarintBits (bits : Nat) : Nat := if bits ≤ 32 then 32 else 64

/-- the number handed to `WriteVarint32/64` -/
def scalarWire : Ty → Nat → Nat
  | .bool, n => if n = 0 then 0 else 1
  | .int bits sgn, n => sext bits (intVarintBits bits) sgn n
  | .enum bits sgn, n => sext bits enumVarintBits sgn n
  | _, _ => 0

/-- `value = static_cast<type>(uvalue)` after `ReadVarint32/64` (the argument is the varint mod 2^64) -/
def scalarRead : Ty → Nat → Nat
  | .bool, v => if v % 2 ^ 32 = 0 then 0 else 1
  | .int bits _, v => (v % 2 ^ intVarintBits bits) % 2 ^ bits
  | .enum bits _, v => v % 2 ^ bits
  | _, _ => 0

def Ty.isVarintScalar : Ty → Bool
  | .bool | .int _ _ | .enum _ _ => true
  | _ => false

/-! ## Default-constructed values -/

mutual
def dflt : Ty → Val
  | .bool | .int _ _ | .enum _ _ | .f32 | .f64 => .num 0
  | .str => .bytes []
  | .vec _ | .list _ | .set _ | .map _ _ => .nil
  | .arr t n => Val.replicate n (dflt t)
  | .uptr _ | .sptr _ => .null
  | .agg _ fs => dfltFields fs
def dfltFields : Fields → Val
  | .nil => .nil
  | .cons _ _ d rest => .cons d (dfltFields rest)
end

/-! ## Size and encoding -/

def sumSeq (f : Val → Nat) : Val → Nat
  | .cons h t => f h + sumSeq f t
  | _ => 0

def sumPairs (f g : Val → Nat) : Val → Nat
  | .cons (.pair k v) t => f k + g v + sumPairs f g t
  | _ => 0

def catSeq (f : Val → Bytes) : Val → Bytes
  | .cons h t => f h ++ catSeq f t
  | _ => []

def catPairs (f g : Val → Bytes) : Val → Bytes
  | .cons (.pair k v) t => f k ++ g v ++ catPairs f g t
  | _ => []

/-- `calculate_serialized_size_packed_field` on top of an element size -/
def packedSize (ld : Bool) (s : Nat) : Nat := if ld then s + varintSize s else s

/-- `make_tag<T>(field_number)` -/
def mkTag (num : Nat) (t : Ty) : Nat := (num <<< tagShift ||| t.wire) % 2 ^ 32

/-- `calculate_serialized_size_field`: an empty member does not take part -/
def fieldSize (num : Nat) (t : Ty) (s : Nat) : Nat :=
  if s = 0 then 0 else varintSize (mkTag num t) + packedSize t.isLD s

mutual
/-- `SerializeTraits<T>::calculate_serialized_size` -/
def size : Ty → Val → Nat
  | .bool, .num n => varintSize (scalarWire .bool n)
  | .int b s, .num n => varintSize (scalarWire (.int b s) n)
  | .enum b s, .num n => varintSize (scalarWire (.enum b s) n)
  | .f32, .num _ => 4
  | .f64, .num _ => 8
  | .str, .bytes b => b.length
  | .vec t, v => sumSeq (fun x => packedSize t.isLD (size t x)) v
  | .arr t _, v => sumSeq (fun x => packedSize t.isLD (size t x)) v
  | .list t, v => sumSeq (fun x => packedSize t.isLD (size t x)) v
  | .set t, v => sumSeq (fun x => packedSize t.isLD (size t x)) v
  | .map k w, v => sumPairs (fun x => packedSize k.isLD (size k x)) (fun x => packedSize w.isLD (size w x)) v
  | .uptr t, .some x => size t x
  | .sptr t, .some x => size t x
  | .agg _ fs, v => sizeFields fs v
  | _, _ => 0
def sizeFields : Fields → Val → Nat
  | .cons num t _ rest, .cons x xs => fieldSize num t (size t x) + sizeFields rest xs
  | _, _ => 0
end

/-- `serialize_packed_field` on top of an element encoding (`WriteVarint32(size)`) -/
def packedEnc (ld : Bool) (s : Nat) (b : Bytes) : Bytes := if ld then encVarint (s % 2 ^ 32) ++ b else b

/-- `serialize_field` -/
def fieldEnc (num : Nat) (t : Ty) (s : Nat) (b : Bytes) : Bytes :=
  if s = 0 then [] else encVarint (mkTag num t) ++ packedEnc t.isLD s b

mutual
/-- `SerializeTraits<T>::serialize` -/
def encode : Ty → Val → Bytes
  | .bool, .num n => encVarint (scalarWire .bool n)
  | .int b s, .num n => encVarint (scalarWire (.int b s) n)
  | .enum b s, .num n => encVarint (scalarWire (.enum b s) n)
  | .f32, .num n => encFixed 4 n
  | .f64, .num n => encFixed 8 n
  | .str, .bytes b => b
  | .vec t, v => catSeq (fun x => packedEnc t.isLD (size t x) (encode t x)) v
  | .arr t _, v => catSeq (fun x => packedEnc t.isLD (size t x) (encode t x)) v
  | .list t, v => catSeq (fun x => packedEnc t.isLD (size t x) (encode t x)) v
  | .set t, v => catSeq (fun x => packedEnc t.isLD (size t x) (encode t x)) v
  | .map k w, v => catPairs (fun x => packedEnc k.isLD (size k x) (encode k x))
                            (fun x => packedEnc w.isLD (size w x) (encode w x)) v
  | .uptr t, .some x => encode t x
  | .sptr t, .some x => encode t x
  | .agg _ fs, v => encodeFields fs v
  | _, _ => []
def encodeFields : Fields → Val → Bytes
  | .cons num t _ rest, .cons x xs => fieldEnc num t (size t x) (encode t x) ++ encodeFields rest xs
  | _, _ => []
end

/-! ## `CodedInputStream` -/

/-- `INT_MAX`: the value of `current_limit_` when no limit is in effect -/
def intMax : Nat := 2 ^ 31 - 1

structure St where
  bs : Bytes          -- the input from the current position to its physical end
  pos : Nat           -- `CurrentPosition()`
  lim : Nat           -- `current_limit_` (absolute)
  flat : Bool         -- array-backed (`input_ == nullptr`)
  deriving DecidableEq, Repr

namespace St
/-- bytes readable before the limit / the end of input -/
def avail (st : St) : Nat := min st.bs.length (st.lim - st.pos)
def window (st : St) : Bytes := st.bs.take st.avail
def adv (st : St) (n : Nat) : St := { st with bs := st.bs.drop n, pos := st.pos + n }
/-- `GetDirectBufferPointer` succeeds (refreshing the buffer if needed) -/
def hasBytes (st : St) : Bool := decide (0 < st.avail)
/-- `BytesUntilLimit() > 0` (it is −1 without a limit) -/
def limitAhead (st : St) : Bool := st.lim != intMax && decide (st.pos < st.lim)
/-- `PushLimit(static_cast<int>(n))` for a `uint32_t n`: negative, overflowing or not-nearer limits are ignored -/
def pushLimit (st : St) (n : Nat) : St :=
  if n < 2 ^ 31 ∧ n ≤ intMax - st.pos ∧ st.pos + n < st.lim then { st with lim := st.pos + n } else st
end St

inductive VRes
  | ok (v : Nat) (st : St)
  | fail (st : St)       -- the state after the failed read matters: callers carry on after some failures

/-- `ReadVarint64`: value mod 2^64.  On failure the slow path has consumed what it looked at; the array
path (array-backed input with ≥ 10 readable bytes) has consumed nothing. -/
def readVarint (st : St) : VRes :=
  let w := st.window
  match scanVarint 10 w with
  | some (v, n) => .ok (v % 2 ^ 64) (st.adv n)
  | none => if 10 ≤ w.length then .fail (if st.flat then st else st.adv 10) else .fail (st.adv w.length)

/-- `ReadTag`: 0 when the read fails -/
def readTag (st : St) : Nat × St :=
  match readVarint st with
  | .ok v st' => (v % 2 ^ 32, st')
  | .fail st' => (0, st')

/-- `ReadLittleEndian32/64`, `ReadRaw` -/
def readFixed (n : Nat) (st : St) : Option (Nat × St) :=
  if n ≤ st.avail then some (decFixed (st.bs.take n), st.adv n) else none

/-- `Skip(count)` -/
def skip (n : Nat) (st : St) : Option St := if n ≤ st.avail then some (st.adv n) else none

/-- `SerializationHelper::consume_unknown_field` -/
def consumeUnknown (tag : Nat) (st : St) : Option St :=
  let w := tag % (tagWireMask + 1)
  if w = wtVarint then
    match readVarint st with
    | .ok _ st' => some st'
    | .fail _ => none
  else if w = wtFixed32 then skip 4 st
  else if w = wtFixed64 then skip 8 st
  else if w = wtLenDelim then
    match readVarint st with
    | .ok v st' => if v % 2 ^ 32 < 2 ^ 31 then skip (v % 2 ^ 32) st' else none   -- `Skip(int)`: negative counts fail
    | .fail _ => none
  else none

/-! ## Decoding -/

structure Cfg where
  debug : Bool                -- built without NDEBUG: `deserialize_field` rejects a mismatching wire type
  vecGuardLimit : Bool        -- vector parse loop guarded by `BytesUntilLimit() > 0` (shape before the repair)
  vecReserveUnguarded : Bool  -- `reserve(size_t(BytesUntilLimit()) / sizeof(T))` without a limit test (before the repair)
  lenChecked : Bool           -- a failed read of a length prefix fails the parse (shape after the repair)
  deriving DecidableEq, Repr

/-- the configuration the source in /repo has right now -/
def Cfg.ofSource (debug : Bool) : Cfg :=
  { debug := debug && debugWireTypeCheck
    vecGuardLimit := vectorLoopGuard == "BytesUntilLimit"
    vecReserveUnguarded := !vectorReserveGuarded
    lenChecked := lengthReadChecked }

/-- the repaired shape the theorems are about -/
def Cfg.repaired (debug : Bool) : Cfg :=
  { debug := debug, vecGuardLimit := false, vecReserveUnguarded := false, lenChecked := true }

inductive Res
  | ok (v : Val) (st : St)
  | fail
  | noret
  deriving DecidableEq, Repr

/-- `while (guard) { body }` over the stream.  An iteration that succeeds without moving the stream
leaves the loop in the same stream state for ever (`noret`).  `fuel` bounds the iterations; it is
`remaining bytes + 1`, which is never exhausted (`Lemmas`: each iteration consumes a byte). -/
def loopN (guard : St → Bool) (body : St → Val → Res) : Nat → St → Val → Res
  | 0, _, _ => .noret
  | f + 1, st, acc =>
    if guard st then
      match body st acc with
      | .ok acc' st' => if st'.pos ≤ st.pos then .noret else loopN guard body f st' acc'
      | r => r
    else .ok acc st

def fuelOf (st : St) : Nat := st.bs.length + 1

/-- `deserialize_packed_field`: a length-delimited element is parsed under `PushLimit(length)` -/
def packedWith (cfg : Cfg) (ld : Bool) (dec : St → Val → Res) (st : St) (d : Val) : Res :=
  if ld then
    let go (n : Nat) (st1 : St) : Res :=
      match dec (st1.pushLimit n) d with
      | .ok v st2 => .ok v { st2 with lim := st1.lim }    -- PopLimit(saved_limit)
      | r => r
    match readVarint st with
    | .ok v st1 => go (v % 2 ^ 32) st1
    | .fail st1 => if cfg.lenChecked then .fail else go 0 st1
  else dec st d

/-- `deserialize_field`: the wire type of the tag is compared only in a debug build -/
def fieldWith (cfg : Cfg) (wire : Nat) (tag : Nat) (dec : St → Val → Res) (st : St) (d : Val) : Res :=
  if cfg.debug && tag % (tagWireMask + 1) != wire then .fail
  else packedWith cfg (wire == wtLenDelim) dec st d

/-- parse every element of an existing sequence in place (`T[N]`) -/
def seqEach (dec : St → Val → Res) : Val → St → Res
  | .cons x xs, st =>
    match dec st x with
    | .ok x' st' =>
      match seqEach dec xs st' with
      | .ok xs' st'' => .ok (.cons x' xs') st''
      | r => r
    | r => r
  | v, st => .ok v st

/-- scalars and strings -/
def decScalar (t : Ty) (st : St) : Res :=
  match t with
  | .f32 => match readFixed 4 st with
    | some (v, st') => .ok (.num v) st'
    | none => .fail
  | .f64 => match readFixed 8 st with
    | some (v, st') => .ok (.num v) st'
    | none => .fail
  | .str => .ok (.bytes st.window) (st.adv st.avail)
  | t => match readVarint st with
    | .ok v st' => .ok (.num (scalarRead t v)) st'
    | .fail _ => .fail

def vecGuard (cfg : Cfg) (st : St) : Bool := if cfg.vecGuardLimit then st.limitAhead else st.hasBytes

mutual
/-- `SerializeTraits<T>::deserialize(is, value)`: `d` is the object parsed into -/
def decode (cfg : Cfg) : Ty → St → Val → Res
  | .bool, st, _ => decScalar .bool st
  | .int b s, st, _ => decScalar (.int b s) st
  | .enum b s, st, _ => decScalar (.enum b s) st
  | .f32, st, _ => decScalar .f32 st
  | .f64, st, _ => decScalar .f64 st
  | .str, st, _ => decScalar .str st
  | .vec t, st, d =>
    if cfg.vecReserveUnguarded && t.isFloat && st.lim == intMax then .noret   -- length_error inside noexcept
    else loopN (vecGuard cfg)
      (fun s acc => match packedWith cfg t.isLD (decode cfg t) s (dflt t) with
        | .ok x s' => .ok (acc.snoc x) s'
        | r => r) (fuelOf st) st d
  | .list t, st, d =>
    loopN St.hasBytes
      (fun s acc => match packedWith cfg t.isLD (decode cfg t) s (dflt t) with
        | .ok x s' => .ok (acc.snoc x) s'
        | r => r) (fuelOf st) st d
  | .set t, st, d =>
    loopN St.hasBytes
      (fun s acc => match packedWith cfg t.isLD (decode cfg t) s (dflt t) with
        | .ok x s' => .ok (if acc.mem x then acc else acc.snoc x) s'
        | r => r) (fuelOf st) st d
  | .map k w, st, d =>
    loopN St.hasBytes
      (fun s acc => match packedWith cfg k.isLD (decode cfg k) s (dflt k) with
        | .ok x s' =>
          match packedWith cfg w.isLD (decode cfg w) s' (dflt w) with
          | .ok y s'' => .ok (if acc.hasKey x then acc else acc.snoc (.pair x y)) s''
          | r => r
        | r => r) (fuelOf st) st d
  | .arr t _, st, d => seqEach (packedWith cfg t.isLD (decode cfg t)) d st
  | .uptr t, st, d =>
    if st.hasBytes then
      match decode cfg t st (match d with | .some x => x | _ => dflt t) with
      | .ok x st' => .ok (.some x) st'
      | r => r
    else .ok d st
  | .sptr t, st, d =>
    if st.hasBytes then
      match decode cfg t st (dflt t) with
      | .ok x st' => .ok (.some x) st'
      | r => r
    else .ok d st
  | .agg _ fs, st, d =>
    loopN St.hasBytes
      (fun s acc => let r := readTag s
        decodeField cfg fs (r.1 >>> tagFieldShift) r.1 r.2 acc) (fuelOf st) st d
/-- one iteration of the aggregate's `switch (tag >> 3)`: the member with that number, else
`consume_unknown_field` -/
def decodeField (cfg : Cfg) : Fields → Nat → Nat → St → Val → Res
  | .nil, _, tag, st, rec =>
    match consumeUnknown tag st with
    | some st' => .ok rec st'
    | none => .fail
  | .cons n t _ rest, num, tag, st, rec =>
    match rec with
    | .cons x xs =>
      if n = num then
        match fieldWith cfg t.wire tag (decode cfg t) st x with
        | .ok x' st' => .ok (.cons x' xs) st'
        | r => r
      else
        match decodeField cfg rest num tag st xs with
        | .ok xs' st' => .ok (.cons x xs') st'
        | r => r
    | _ => .fail
end

/-! ## Presentations -/

/-- How the bytes are handed to the parser: array-backed (`parse_from_array/string`, or a
`CodedInputStream(data, size)`) or stream-backed (`CodedInputStream(ZeroCopyInputStream*)`, any
chunking below 10 bytes), optionally inside a caller's `PushLimit(outer)`. -/
structure Pres where
  flat : Bool
  outer : Option Nat
  deriving DecidableEq, Repr

def St.init (p : Pres) (bs : Bytes) : St :=
  let st : St := { bs := bs, pos := 0, lim := if p.flat then bs.length else intMax, flat := p.flat }
  match p.outer with
  | some n => st.pushLimit n
  | none => st

/-- the presentation shows all `n` bytes: any outer limit is at least `n` -/
def Pres.shows (p : Pres) (n : Nat) : Prop := ∀ L, p.outer = some L → n ≤ L

/-- `Serialization::parse_from_coded_stream(is, value)` on a stream presenting `bs` -/
def parse (cfg : Cfg) (t : Ty) (p : Pres) (bs : Bytes) (d : Val) : Res := decode cfg t (St.init p bs) d

/-! ## Well-typed values -/

def allSeq (f : Val → Bool) : Val → Bool
  | .cons h t => f h && allSeq f t
  | .nil => true
  | _ => false

def allPairs (f g : Val → Bool) : Val → Bool
  | .cons (.pair k v) t => f k && g v && allPairs f g t
  | .nil => true
  | _ => false

mutual
/-- `v` is a value of type `t` (numbers in range, sequences nil-terminated, `T[N]` has `N` elements) -/
def hasTy : Ty → Val → Bool
  | .bool, .num n => decide (n ≤ 1)
  | .int b _, .num n => decide (n < 2 ^ b)
  | .enum b _, .num n => decide (n < 2 ^ b)
  | .f32, .num n => decide (n < 2 ^ 32)
  | .f64, .num n => decide (n < 2 ^ 64)
  | .str, .bytes _ => true
  | .vec t, v => allSeq (hasTy t) v
  | .list t, v => allSeq (hasTy t) v
  | .set t, v => allSeq (hasTy t) v
  | .arr t n, v => allSeq (hasTy t) v && v.length == n
  | .map k w, v => allPairs (hasTy k) (hasTy w) v
  | .uptr _, .null => true
  | .uptr t, .some x => hasTy t x
  | .sptr _, .null => true
  | .sptr t, .some x => hasTy t x
  | .agg _ fs, v => hasTyFields fs v
  | _, _ => false
def hasTyFields : Fields → Val → Bool
  | .nil, .nil => true
  | .cons _ t _ rest, .cons x xs => hasTy t x && hasTyFields rest xs
  | _, _ => false
end

/-! ## Declarable types, canonical types and values (hypotheses of the theorems) -/

def okBits (b : Nat) : Bool := b == 8 || b == 16 || b == 32 || b == 64

def Fields.hasNum : Fields → Nat → Bool
  | .nil, _ => false
  | .cons n _ _ rest, m => n == m || rest.hasNum m

def Fields.nodupNums : Fields → Bool
  | .nil => true
  | .cons n _ _ rest => !rest.hasNum n && rest.nodupNums

mutual
/-- a type that can be written down in C++: integer widths 8/16/32/64, `T[N]` with `N ≥ 1`, field numbers
`1 ≤ n < 2^29` (what fits a 32-bit tag), pairwise distinct (`case` labels), default member initialisers of the
member's type -/
def wfTy : Ty → Bool
  | .bool | .f32 | .f64 | .str => true
  | .int b _ => okBits b
  | .enum b _ => okBits b
  | .vec t => wfTy t
  | .list t => wfTy t
  | .set t => wfTy t
  | .uptr t => wfTy t
  | .sptr t => wfTy t
  | .arr t n => wfTy t && decide (1 ≤ n)
  | .map k w => wfTy k && wfTy w
  | .agg _ fs => wfFields fs && fs.nodupNums
def wfFields : Fields → Bool
  | .nil => true
  | .cons num t d rest => decide (1 ≤ num) && decide (num < 2 ^ 29) && wfTy t && hasTy t d && wfFields rest
end

def Ty.isPtr : Ty → Bool
  | .uptr _ | .sptr _ => true
  | _ => false

/-- the packed encoding of an element of this type is never empty: a length-delimited type carries its length,
a scalar its bytes; a smart pointer to a scalar can be null and then has no representation at all -/
def Ty.packedNonEmpty (t : Ty) : Bool := t.isLD || !t.isPtr

mutual
/-- a default member initialiser that parsing can reset: anything for scalars, empty for strings / containers,
null for pointers, member-wise for arrays and nested aggregates -/
def resettable : Ty → Val → Bool
  | .bool, .num _ | .int _ _, .num _ | .enum _ _, .num _ | .f32, .num _ | .f64, .num _ => true
  | .str, .bytes b => b.isEmpty
  | .vec _, .nil | .list _, .nil | .set _, .nil | .map _ _, .nil => true
  | .uptr _, .null | .sptr _, .null => true
  | .arr t n, v => allSeq (resettable t) v && v.length == n
  | .agg _ fs, v => resettableFields fs v
  | _, _ => false
def resettableFields : Fields → Val → Bool
  | .nil, .nil => true
  | .cons _ t _ rest, .cons x xs => resettable t x && resettableFields rest xs
  | _, _ => false
end

mutual
/-- the types the round-trip theorem speaks about.  Excluded (and run on the real code as known findings): a member
with a non-resettable default initialiser, and containers / arrays whose elements are smart pointers to a
varint / fixed-width type. -/
def canonTy : Ty → Bool
  | .bool | .int _ _ | .enum _ _ | .f32 | .f64 | .str => true
  | .vec t => canonTy t && t.packedNonEmpty
  | .list t => canonTy t && t.packedNonEmpty
  | .arr t _ => canonTy t && t.packedNonEmpty
  | .set t => canonTy t && t.packedNonEmpty
  | .map k w => canonTy k && canonTy w && k.packedNonEmpty && w.packedNonEmpty
  | .uptr t => canonTy t
  | .sptr t => canonTy t
  | .agg _ fs => canonFields fs
def canonFields : Fields → Bool
  | .nil => true
  | .cons _ t d rest => canonTy t && resettable t d && canonFields rest
end

def mapSeq (f : Val → Val) : Val → Val
  | .cons h t => .cons (f h) (mapSeq f t)
  | v => v

def mapPairs (f g : Val → Val) : Val → Val
  | .cons (.pair k v) t => .cons (.pair (f k) (g v)) (mapPairs f g t)
  | v => v

mutual
/-- what a value reads back as: a smart pointer to a value whose encoding is empty reads back as null -/
def norm : Ty → Val → Val
  | .vec t, v => mapSeq (norm t) v
  | .list t, v => mapSeq (norm t) v
  | .arr t _, v => mapSeq (norm t) v
  | .set t, v => mapSeq (norm t) v
  | .map k w, v => mapPairs (norm k) (norm w) v
  | .uptr t, .some x => if size t x = 0 then .null else .some (norm t x)
  | .sptr t, .some x => if size t x = 0 then .null else .some (norm t x)
  | .agg _ fs, v => normFields fs v
  | _, v => v
def normFields : Fields → Val → Val
  | .cons _ t _ rest, .cons x xs => .cons (norm t x) (normFields rest xs)
  | _, v => v
end

/-- pairwise distinct elements of a cons-chain -/
def nodupSeq : Val → Bool
  | .cons h t => !t.mem h && nodupSeq t
  | _ => true

def keysOf : Val → Val
  | .cons (.pair k _) t => .cons k (keysOf t)
  | _ => .nil

mutual
/-- canonical values: set elements / map keys pairwise distinct (as they read back) -/
def canon : Ty → Val → Bool
  | .vec t, v => allSeq (canon t) v
  | .list t, v => allSeq (canon t) v
  | .arr t _, v => allSeq (canon t) v
  | .set t, v => allSeq (canon t) v && nodupSeq (mapSeq (norm t) v)
  | .map k w, v => allPairs (canon k) (canon w) v && nodupSeq (keysOf (mapPairs (norm k) (norm w) v))
  | .uptr t, .some x => canon t x
  | .sptr t, .some x => canon t x
  | .agg _ fs, v => canonRec fs v
  | _, _ => true
def canonRec : Fields → Val → Bool
  | .cons _ t _ rest, .cons x xs => canon t x && canonRec rest xs
  | _, _ => true
end

end Babylon.Wire
