/-
  Base-128 varints as written by `CodedOutputStream::WriteVarint32/64` and read by
  `CodedInputStream::ReadVarint32/64/ReadTag`, plus the size formula
  `SerializationHelper::varint_size` of `serialization/traits.hpp` (constants taken from the
  generated `Babylon.Gen.Wire`).  Core Lean only.
-/
import Babylon.Gen.Wire

namespace Babylon.Wire
open Babylon.Gen.Wire

abbrev Bytes := List UInt8

/-- One byte from a number `< 256`. -/
@[inline] def byte (n : Nat) : UInt8 := UInt8.ofNat n

/-- `WriteVarint`: 7-bit groups, least significant first, high bit = "more follows".
`fuel` groups at most (10 suffice for 64 bits). -/
def encVarintAux : Nat → Nat → Bytes
  | 0, _ => []
  | f + 1, v => if v < 128 then [byte v] else byte (v % 128 + 128) :: encVarintAux f (v / 128)

/-- `WriteVarint64(v)` (and `WriteVarint32(v)` for `v < 2^32`: same bytes).  The argument is reduced
mod 2^64 as the C++ parameter type does. -/
def encVarint (v : Nat) : Bytes := encVarintAux 10 (v % 2 ^ 64)

/-- Scan a varint in at most `fuel` bytes: `(value, bytes used)`.  The value is the unbounded sum
`Σ (bᵢ & 0x7f) · 128^i`; readers reduce it mod 2^64 / 2^32 (what the shifts in
`ReadVarint64FromArray`/`ReadVarint64Slow` and `ReadVarint32FromArray` do). -/
def scanVarint : Nat → Bytes → Option (Nat × Nat)
  | 0, _ => none
  | _ + 1, [] => none
  | f + 1, b :: bs =>
    if b.toNat < 128 then some (b.toNat, 1)
    else match scanVarint f bs with
      | some (v, n) => some (b.toNat - 128 + 128 * v, n + 1)
      | none => none

/-- `SerializationHelper::varint_size(value)`:
`((63 ^ clz(value | 1)) * 9 + 73) / 64`, where `63 ^ clz(x) = ⌊log₂ x⌋` for a 64-bit `x ≠ 0`.
(`CodedOutputStream::VarintSize32/64` use the same expression; the translator probes both.) -/
def varintSize (v : Nat) : Nat := (Nat.log2 (v ||| vsOr) * vsMul + vsAdd) / vsDiv

/-- Little-endian fixed-width integers (`WriteLittleEndian32/64`). -/
def encFixed : Nat → Nat → Bytes
  | 0, _ => []
  | n + 1, v => byte (v % 256) :: encFixed n (v / 256)

def decFixed : Bytes → Nat
  | [] => 0
  | b :: bs => b.toNat + 256 * decFixed bs

end Babylon.Wire
