/-
  Field order does not matter: the fields of an aggregate may arrive in any order.
-/
import Babylon.Wire.LemmasRoundtrip2

namespace Babylon.Wire
open Babylon.Gen.Wire

namespace Val
/-- `i`-th entry of a chain -/
def nth : Val → Nat → Val
  | .cons h _, 0 => h
  | .cons _ t, i + 1 => t.nth i
  | _, _ => .nil
/-- replace the `i`-th entry -/
def setNth : Val → Nat → Val → Val
  | .cons _ t, 0, y => .cons y t
  | .cons h t, i + 1, y => .cons h (t.setNth i y)
  | v, _, _ => v
end Val

namespace Fields
def len : Fields → Nat
  | .nil => 0
  | .cons _ _ _ r => r.len + 1
def nthNum : Fields → Nat → Nat
  | .cons n _ _ _, 0 => n
  | .cons _ _ _ r, i + 1 => r.nthNum i
  | _, _ => 0
def nthTy : Fields → Nat → Ty
  | .cons _ t _ _, 0 => t
  | .cons _ _ _ r, i + 1 => r.nthTy i
  | _, _ => .bool
end Fields

theorem hasNum_nthNum : ∀ (fs : Fields) (i : Nat), i < fs.len → fs.hasNum (fs.nthNum i) = true
  | .nil, i, h => by simp [Fields.len] at h
  | .cons n t d r, 0, _ => by simp [Fields.hasNum, Fields.nthNum]
  | .cons n t d r, i + 1, h => by
    simp only [Fields.len] at h
    simp only [Fields.hasNum, Fields.nthNum, hasNum_nthNum r i (by omega), Bool.or_true]

/-- the switch of the aggregate loop, by member position: the `i`-th member is parsed in place -/
theorem decodeField_nth (cfg : Cfg) (tag : Nat) (st : St) : ∀ (fs : Fields) (rec : Val) (i : Nat), i < fs.len →
    shapeOf fs rec = true → fs.nodupNums = true →
    decodeField cfg fs (fs.nthNum i) tag st rec =
      match fieldWith cfg (fs.nthTy i).wire tag (decode cfg (fs.nthTy i)) st (rec.nth i) with
      | .ok x' st' => .ok (rec.setNth i x') st'
      | r => r
  | .nil, rec, i, h, _, _ => by simp [Fields.len] at h
  | .cons n t d r, rec, 0, _, hs, _ => by
    cases rec <;> simp only [shapeOf, Bool.false_eq_true] at hs
    simp only [decodeField, Fields.nthNum, Fields.nthTy, Val.nth, Val.setNth, if_true]
    cases fieldWith cfg t.wire tag (decode cfg t) st _ <;> rfl
  | .cons n t d r, rec, i + 1, h, hs, hnd => by
    cases rec <;> simp only [shapeOf, Bool.false_eq_true] at hs
    rename_i x xs
    simp only [Fields.len] at h
    simp only [Fields.nodupNums, Bool.and_eq_true, Bool.not_eq_true'] at hnd
    have hne : ¬ (n = r.nthNum i) := by
      intro heq
      have := hasNum_nthNum r i (by omega)
      rw [← heq, hnd.1] at this
      cases this
    simp only [decodeField, Fields.nthNum, Fields.nthTy, Val.nth, Val.setNth, hne, if_false]
    rw [decodeField_nth cfg tag st r xs i (by omega) hs hnd.2]
    cases fieldWith cfg (r.nthTy i).wire tag (decode cfg (r.nthTy i)) st (xs.nth i) <;> rfl

theorem shapeOf_setNth : ∀ (fs : Fields) (rec : Val) (i : Nat) (y : Val), shapeOf fs rec = true →
    shapeOf fs (rec.setNth i y) = true
  | .nil, rec, i, y, hs => by
    cases rec <;> simp only [shapeOf, Bool.false_eq_true] at hs
    cases i <;> simp [Val.setNth, shapeOf]
  | .cons n t d r, rec, 0, y, hs => by
    cases rec <;> simp only [shapeOf, Bool.false_eq_true] at hs
    simpa [Val.setNth, shapeOf] using hs
  | .cons n t d r, rec, i + 1, y, hs => by
    cases rec <;> simp only [shapeOf, Bool.false_eq_true] at hs
    simp only [Val.setNth, shapeOf]
    exact shapeOf_setNth r _ i y hs

theorem nth_setNth_ne : ∀ (rec : Val) (i j : Nat) (y : Val), i ≠ j → (rec.setNth i y).nth j = rec.nth j := by
  intro rec
  induction rec with
  | cons h t _ iht =>
    intro i j y hne
    cases i with
    | zero =>
      cases j with
      | zero => omega
      | succ j => simp [Val.setNth, Val.nth]
    | succ i =>
      cases j with
      | zero => simp [Val.setNth, Val.nth]
      | succ j => simp only [Val.setNth, Val.nth]; exact iht i j y (by omega)
  | _ => intro i j y _; cases i <;> simp [Val.setNth]

theorem nth_setNth_eq : ∀ (fs : Fields) (rec : Val) (i : Nat) (y : Val), shapeOf fs rec = true → i < fs.len →
    (rec.setNth i y).nth i = y
  | .nil, rec, i, y, _, h => by simp [Fields.len] at h
  | .cons n t d r, rec, 0, y, hs, _ => by
    cases rec <;> simp only [shapeOf, Bool.false_eq_true] at hs
    simp [Val.setNth, Val.nth]
  | .cons n t d r, rec, i + 1, y, hs, h => by
    cases rec <;> simp only [shapeOf, Bool.false_eq_true] at hs
    simp only [Fields.len] at h
    simp only [Val.setNth, Val.nth]
    exact nth_setNth_eq r _ i y hs (by omega)

/-- two objects of the same struct with equal members are equal -/
theorem ext_nth : ∀ (fs : Fields) (a b : Val), shapeOf fs a = true → shapeOf fs b = true →
    (∀ i, i < fs.len → a.nth i = b.nth i) → a = b
  | .nil, a, b, ha, hb, _ => by
    cases a <;> simp only [shapeOf, Bool.false_eq_true] at ha
    cases b <;> simp only [shapeOf, Bool.false_eq_true] at hb
    rfl
  | .cons n t d r, a, b, ha, hb, h => by
    cases a <;> simp only [shapeOf, Bool.false_eq_true] at ha
    cases b <;> simp only [shapeOf, Bool.false_eq_true] at hb
    rename_i x xs y ys
    have h0 := h 0 (by simp [Fields.len])
    simp only [Val.nth] at h0
    rw [h0, ext_nth r xs ys ha hb (fun i hi => by
      have := h (i + 1) (by simp only [Fields.len]; omega)
      simpa [Val.nth] using this)]

/-! ### per-member facts out of the per-struct hypotheses -/

theorem shape_of_hasTy : ∀ (fs : Fields) (v : Val), hasTyFields fs v = true → shapeOf fs v = true
  | .nil, v, h => by cases v <;> simp only [hasTyFields, Bool.false_eq_true] at h; rfl
  | .cons n t d r, v, h => by
    cases v <;> simp only [hasTyFields, Bool.false_eq_true, Bool.and_eq_true] at h
    simp only [shapeOf]; exact shape_of_hasTy r _ h.2

theorem shape_of_resettable : ∀ (fs : Fields) (v : Val), resettableFields fs v = true → shapeOf fs v = true
  | .nil, v, h => by cases v <;> simp only [resettableFields, Bool.false_eq_true] at h; rfl
  | .cons n t d r, v, h => by
    cases v <;> simp only [resettableFields, Bool.false_eq_true, Bool.and_eq_true] at h
    simp only [shapeOf]; exact shape_of_resettable r _ h.2

theorem shape_normFields : ∀ (fs : Fields) (v : Val), shapeOf fs v = true → shapeOf fs (normFields fs v) = true
  | .nil, v, h => by cases v <;> simp only [shapeOf, Bool.false_eq_true] at h; simp [normFields, shapeOf]
  | .cons n t d r, v, h => by
    cases v <;> simp only [shapeOf, Bool.false_eq_true] at h
    simp only [normFields, shapeOf]; exact shape_normFields r _ h

theorem nth_normFields : ∀ (fs : Fields) (v : Val) (i : Nat), shapeOf fs v = true → i < fs.len →
    (normFields fs v).nth i = norm (fs.nthTy i) (v.nth i)
  | .nil, v, i, _, h => by simp [Fields.len] at h
  | .cons n t d r, v, 0, hs, _ => by
    cases v <;> simp only [shapeOf, Bool.false_eq_true] at hs
    simp [normFields, Val.nth, Fields.nthTy]
  | .cons n t d r, v, i + 1, hs, h => by
    cases v <;> simp only [shapeOf, Bool.false_eq_true] at hs
    simp only [Fields.len] at h
    simp only [normFields, Val.nth, Fields.nthTy]
    exact nth_normFields r _ i hs (by omega)

/-- everything the round trip needs to know about member `i` -/
theorem member_facts : ∀ (fs : Fields) (vs ds : Val) (i : Nat), i < fs.len → wfFields fs = true →
    canonFields fs = true → hasTyFields fs vs = true → canonRec fs vs = true → resettableFields fs ds = true →
    (1 ≤ fs.nthNum i ∧ fs.nthNum i < 2 ^ 29) ∧ wfTy (fs.nthTy i) = true ∧ canonTy (fs.nthTy i) = true ∧
    hasTy (fs.nthTy i) (vs.nth i) = true ∧ canon (fs.nthTy i) (vs.nth i) = true ∧
    resettable (fs.nthTy i) (ds.nth i) = true ∧
    size (fs.nthTy i) (vs.nth i) ≤ sizeFields fs vs
  | .nil, vs, ds, i, h, _, _, _, _, _ => by simp [Fields.len] at h
  | .cons n t d r, vs, ds, i, h, hw, hc, hty, hcv, hd => by
    simp only [wfFields, Bool.and_eq_true, decide_eq_true_eq] at hw
    simp only [canonFields, Bool.and_eq_true] at hc
    cases vs <;> simp only [hasTyFields, Bool.false_eq_true, Bool.and_eq_true] at hty
    cases ds <;> simp only [resettableFields, Bool.false_eq_true, Bool.and_eq_true] at hd
    simp only [canonRec, Bool.and_eq_true] at hcv
    rename_i x xs dx dxs
    have hfs := fieldSize_ge n t (size t x)
    cases i with
    | zero =>
      simp only [Fields.nthNum, Fields.nthTy, Val.nth, sizeFields]
      exact ⟨hw.1.1.1, hw.1.1.2, hc.1.1, hty.1, hcv.1, hd.1, by omega⟩
    | succ i =>
      simp only [Fields.len] at h
      have := member_facts r xs dxs i (by omega) hw.2 hc.2 hty.2 hcv.2 hd.2
      simp only [Fields.nthNum, Fields.nthTy, Val.nth, sizeFields]
      exact ⟨this.1, this.2.1, this.2.2.1, this.2.2.2.1, this.2.2.2.2.1, this.2.2.2.2.2.1, by omega⟩

/-! ### any wire order -/

/-- the bytes of member `i` on the wire -/
def chunk (fs : Fields) (vs : Val) (i : Nat) : Bytes :=
  fieldEnc (fs.nthNum i) (fs.nthTy i) (size (fs.nthTy i) (vs.nth i)) (encode (fs.nthTy i) (vs.nth i))

/-- the members `order` names, in that order -/
def encodeInOrder (fs : Fields) (vs : Val) : List Nat → Bytes
  | [] => []
  | i :: rest => chunk fs vs i ++ encodeInOrder fs vs rest

/-- parse every member `order` names and put it in its place -/
def applyOrder (fs : Fields) (vs : Val) : List Nat → Val → Val
  | [], r => r
  | i :: rest, r => applyOrder fs vs rest (r.setNth i (norm (fs.nthTy i) (vs.nth i)))

theorem applyOrder_nth_not_mem (fs : Fields) (vs : Val) : ∀ (order : List Nat) (r : Val) (j : Nat), j ∉ order →
    (applyOrder fs vs order r).nth j = r.nth j := by
  intro order
  induction order with
  | nil => intro r j _; rfl
  | cons i rest ih =>
    intro r j hj
    simp only [List.mem_cons, not_or] at hj
    simp only [applyOrder]
    rw [ih _ j hj.2, nth_setNth_ne r i j _ (fun e => hj.1 e.symm)]

theorem applyOrder_nth_mem (fs : Fields) (vs : Val) : ∀ (order : List Nat) (r : Val) (j : Nat), order.Nodup → j ∈ order →
    shapeOf fs r = true → j < fs.len → (applyOrder fs vs order r).nth j = norm (fs.nthTy j) (vs.nth j) := by
  intro order
  induction order with
  | nil => intro r j _ hj; cases hj
  | cons i rest ih =>
    intro r j hnd hj hs hlt
    simp only [List.nodup_cons] at hnd
    simp only [applyOrder]
    rcases List.mem_cons.mp hj with rfl | hj'
    · rw [applyOrder_nth_not_mem fs vs rest _ j hnd.1, nth_setNth_eq fs r j _ hs hlt]
    · exact ih _ j hnd.2 hj' (shapeOf_setNth fs r i _ hs) hlt

/-- the aggregate loop over the members in wire order `order` -/
theorem order_loop (dbg : Bool) (fs : Fields) (vs ds : Val) (hw : wfFields fs = true) (hc : canonFields fs = true)
    (hnd : fs.nodupNums = true) (hty : hasTyFields fs vs = true) (hcv : canonRec fs vs = true)
    (hd : resettableFields fs ds = true) (hsz : sizeFields fs vs < 2 ^ 31) :
    ∀ (order : List Nat), order.Nodup → (∀ i, i ∈ order → i < fs.len ∧ size (fs.nthTy i) (vs.nth i) ≠ 0) →
    ∀ (r : Val), shapeOf fs r = true → (∀ i, i ∈ order → r.nth i = ds.nth i) →
    ∀ (f : Nat) (st : St), st.WF → st.window = encodeInOrder fs vs order → st.bs.length < f →
      loopN St.hasBytes (fun s acc => let t := readTag s
          decodeField (Cfg.repaired dbg) fs (t.1 >>> tagFieldShift) t.1 t.2 acc) f st r =
        .ok (applyOrder fs vs order r) (st.adv (encodeInOrder fs vs order).length) := by
  intro order
  induction order with
  | nil =>
    intro _ _ r _ _ f st _ hwin hf
    simp only [encodeInOrder] at hwin
    cases f with
    | zero => omega
    | succ f =>
      rw [loopN]
      have hav : st.avail = 0 := by rw [← St.window_length, hwin]; rfl
      have hb : st.hasBytes = false := by simp [St.hasBytes, hav]
      simp [hb, applyOrder, encodeInOrder]
  | cons i rest ih =>
    intro hnodup hin r hs hr f st hwf hwin hf
    simp only [List.nodup_cons] at hnodup
    obtain ⟨hi, h0⟩ := hin i (by simp)
    obtain ⟨hnum, hwt, hct, hvt, hcvt, hdt, hle⟩ := member_facts fs vs ds i hi hw hc hty hcv hd
    simp only [encodeInOrder] at hwin
    have hsx : size (fs.nthTy i) (vs.nth i) < 2 ^ 31 := by omega
    cases f with
    | zero => omega
    | succ f =>
      have ihrt := rt dbg (fs.nthTy i) hwt hct (vs.nth i) (ds.nth i) hvt hcvt hdt hsx
      obtain ⟨htag, hfield⟩ := field_reads (Cfg.repaired dbg) (fs.nthNum i) (fs.nthTy i) (vs.nth i) (ds.nth i)
        hnum.2 hwt hsx h0 ihrt st _ hwf hwin
      obtain ⟨hk, hw'⟩ := St.window_after hwin
      have hne : chunk fs vs i ≠ [] := by
        simp only [chunk, fieldEnc, h0, if_false]
        intro h
        have := encVarint_length_pos (mkTag (fs.nthNum i) (fs.nthTy i))
        rw [(List.append_eq_nil_iff.mp h).1] at this
        simp at this
      have hpos : 0 < (chunk fs vs i).length := List.length_pos_iff.mpr hne
      have hav : 0 < st.avail := by rw [← St.window_length, hwin, List.length_append]; omega
      have hb : st.hasBytes = true := by simp [St.hasBytes, hav]
      rw [loopN]
      simp only [hb, if_true, htag, mkTag_num _ _ hnum.2]
      rw [decodeField_nth (Cfg.repaired dbg) _ _ fs r i hi hs hnd, hr i (by simp), hfield]
      have hnle : ¬ (st.adv (chunk fs vs i).length).pos ≤ st.pos := by simp only [St.adv_pos]; omega
      simp only [chunk] at hnle hk hw' hpos ⊢
      simp only [hnle, if_false]
      rw [ih hnodup.2 (fun j hj => hin j (by simp [hj])) _ (shapeOf_setNth fs r i _ hs)
        (fun j hj => by
          rw [nth_setNth_ne r i j _ (fun e => hnodup.1 (e ▸ hj))]
          exact hr j (by simp [hj]))
        f _ (St.WF_adv hwf hk) hw' (by
          have := st.avail_le_length
          simp only [St.adv_bs, List.length_drop]; omega)]
      simp only [applyOrder, encodeInOrder, chunk, List.length_append, St.adv_adv]

/-- **Field order is irrelevant.** -/
theorem agg_any_order (dbg : Bool) (b : Bool) (fs : Fields) (vs ds : Val) (order : List Nat)
    (hw : wfFields fs = true) (hc : canonFields fs = true) (hnd : fs.nodupNums = true)
    (hty : hasTyFields fs vs = true) (hcv : canonRec fs vs = true) (hd : resettableFields fs ds = true)
    (hsz : sizeFields fs vs < 2 ^ 31) (hnodup : order.Nodup)
    (hin : ∀ i, i ∈ order → i < fs.len ∧ size (fs.nthTy i) (vs.nth i) ≠ 0)
    (hall : ∀ i, i < fs.len → size (fs.nthTy i) (vs.nth i) ≠ 0 → i ∈ order)
    (st : St) (hwf : st.WF) (hwin : st.window = encodeInOrder fs vs order) :
    decode (Cfg.repaired dbg) (.agg b fs) st ds =
      .ok (normFields fs vs) (st.adv (encodeInOrder fs vs order).length) := by
  rw [decode]
  have hsd := shape_of_resettable fs ds hd
  rw [order_loop dbg fs vs ds hw hc hnd hty hcv hd hsz order hnodup hin ds hsd (fun _ _ => rfl) (fuelOf st) st hwf
    hwin (by unfold fuelOf; omega)]
  congr 1
  have hsv := shape_of_hasTy fs vs hty
  -- member by member: parsed ones were put in place, the others are empty and read back as the default
  have hshape : ∀ (order : List Nat) (r : Val), shapeOf fs r = true → shapeOf fs (applyOrder fs vs order r) = true := by
    intro o
    induction o with
    | nil => intro r h; exact h
    | cons i rest ih => intro r h; exact ih _ (shapeOf_setNth fs r i _ h)
  apply ext_nth fs _ _ (hshape order ds hsd) (shape_normFields fs vs hsv)
  intro i hi
  rw [nth_normFields fs vs i hsv hi]
  by_cases hm : i ∈ order
  · exact applyOrder_nth_mem fs vs order ds i hnodup hm hsd hi
  · rw [applyOrder_nth_not_mem fs vs order ds i hm]
    obtain ⟨_, hwt, hct, hvt, _, hdt, _⟩ := member_facts fs vs ds i hi hw hc hty hcv hd
    have h0 : size (fs.nthTy i) (vs.nth i) = 0 := by
      by_cases h : size (fs.nthTy i) (vs.nth i) = 0
      · exact h
      · exact absurd (hall i hi h) hm
    exact (norm_of_size_zero (fs.nthTy i) hwt hct (vs.nth i) (ds.nth i) hvt hdt h0).symm

end Babylon.Wire
