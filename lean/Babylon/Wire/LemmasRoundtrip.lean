/-
  Round trip: parsing the bytes produced by serializing a canonical value into a fresh (resettable) object yields
  the value, with smart pointers to empty-encoding values read back as null.
-/
import Babylon.Wire.LemmasRead
import Babylon.Wire.LemmasCanon

namespace Babylon.Wire
open Babylon.Gen.Wire

/-! ### chains -/

def isChain (v : Val) : Bool := allSeq (fun _ => true) v

theorem isChain_cons (h t : Val) : isChain (.cons h t) = isChain t := by simp [isChain, allSeq]

theorem isChain_mapSeq (f : Val → Val) : ∀ v, isChain v = true → isChain (mapSeq f v) = true := by
  intro v
  induction v with
  | cons h t _ iht => intro hc; rw [isChain_cons] at hc; simp only [mapSeq, isChain_cons]; exact iht hc
  | nil => intro; rfl
  | _ => intro hc; simp [isChain, allSeq] at hc

theorem isChain_snoc : ∀ acc x, isChain acc = true → isChain (acc.snoc x) = true := by
  intro acc
  induction acc with
  | cons h t _ iht => intro x hc; rw [isChain_cons] at hc; simp only [Val.snoc, isChain_cons]; exact iht x hc
  | nil => intro x _; simp [Val.snoc, isChain, allSeq]
  | _ => intro x hc; simp [isChain, allSeq] at hc

theorem snoc_app : ∀ acc x t, isChain acc = true → (acc.snoc x).app t = acc.app (.cons x t) := by
  intro acc
  induction acc with
  | cons h tl _ iht => intro x t hc; rw [isChain_cons] at hc; simp only [Val.snoc, Val.app]; rw [iht x t hc]
  | nil => intro x t _; simp [Val.snoc, Val.app]
  | _ => intro x t hc; simp [isChain, allSeq] at hc

theorem app_nil : ∀ acc, isChain acc = true → acc.app .nil = acc := by
  intro acc
  induction acc with
  | cons h tl _ iht => intro hc; rw [isChain_cons] at hc; simp only [Val.app]; rw [iht hc]
  | nil => intro; rfl
  | _ => intro hc; simp [isChain, allSeq] at hc

theorem foldSeq_snoc : ∀ ys acc, isChain acc = true → isChain ys = true → foldSeq Val.snoc acc ys = acc.app ys := by
  intro ys
  induction ys with
  | cons h t _ iht =>
    intro acc ha hy
    rw [isChain_cons] at hy
    simp only [foldSeq]
    rw [iht (acc.snoc h) (isChain_snoc acc h ha) hy, snoc_app acc h t ha]
  | nil => intro acc ha _; simp only [foldSeq]; exact (app_nil acc ha).symm
  | _ => intro acc _ hy; simp [isChain, allSeq] at hy

theorem mem_snoc : ∀ acc x y, isChain acc = true → (acc.snoc x).mem y = (acc.mem y || x == y) := by
  intro acc
  induction acc with
  | cons h tl _ iht =>
    intro x y hc
    rw [isChain_cons] at hc
    simp only [Val.snoc, Val.mem, iht x y hc, Bool.or_assoc]
  | nil => intro x y _; simp [Val.snoc, Val.mem]
  | _ => intro x y hc; simp [isChain, allSeq] at hc

/-- `unordered_set::emplace` over pairwise distinct elements keeps them all -/
theorem foldSeq_setPut : ∀ ys acc, isChain acc = true → isChain ys = true → nodupSeq ys = true →
    (∀ y, ys.mem y = true → acc.mem y = false) →
    foldSeq (fun a x => if a.mem x then a else a.snoc x) acc ys = acc.app ys := by
  intro ys
  induction ys with
  | cons h t _ iht =>
    intro acc ha hy hnd hdis
    rw [isChain_cons] at hy
    simp only [nodupSeq, Bool.and_eq_true, Bool.not_eq_true'] at hnd
    simp only [foldSeq]
    have hh : acc.mem h = false := hdis h (by simp [Val.mem])
    simp only [hh, Bool.false_eq_true, if_false]
    rw [iht (acc.snoc h) (isChain_snoc acc h ha) hy hnd.2, snoc_app acc h t ha]
    intro y hyt
    rw [mem_snoc acc h y ha, hdis y (by simp [Val.mem, hyt])]
    simp only [Bool.false_or, beq_eq_false_iff_ne]
    intro heq
    subst heq
    rw [hnd.1] at hyt
    cases hyt
  | nil => intro acc ha _ _ _; simp only [foldSeq]; exact (app_nil acc ha).symm
  | _ => intro acc _ hy; simp [isChain, allSeq] at hy

theorem nil_app (ys : Val) : Val.app .nil ys = ys := rfl

theorem sumSeq_mem_le (g : Val → Nat) : ∀ v x, v.mem x = true → g x ≤ sumSeq g v := by
  intro v
  induction v with
  | cons h t _ iht =>
    intro x hx
    simp only [Val.mem, Bool.or_eq_true, beq_iff_eq] at hx
    simp only [sumSeq]
    rcases hx with rfl | hx
    · omega
    · have := iht x hx; omega
  | _ => intro x hx; simp [Val.mem] at hx

/-! ### tags -/

theorem wire_cases : ∀ (t : Ty), t.wire = 0 ∨ t.wire = 1 ∨ t.wire = 2 ∨ t.wire = 5
  | .bool | .int _ _ | .enum _ _ => Or.inl rfl
  | .f32 => Or.inr (Or.inr (Or.inr rfl))
  | .f64 => Or.inr (Or.inl rfl)
  | .str | .vec _ | .list _ | .set _ | .arr _ _ | .map _ _ | .agg _ _ => Or.inr (Or.inr (Or.inl rfl))
  | .uptr t => by simp only [Ty.wire]; exact wire_cases t
  | .sptr t => by simp only [Ty.wire]; exact wire_cases t

theorem mkTag_eq (n : Nat) (t : Ty) (hn : n < 2 ^ 29) : mkTag n t = n * 8 + t.wire := by
  have hw : t.wire < 2 ^ 3 := by rcases wire_cases t with h | h | h | h <;> omega
  unfold mkTag
  have : tagShift = 3 := rfl
  rw [this, ← Nat.shiftLeft_add_eq_or_of_lt hw, Nat.shiftLeft_eq]
  apply Nat.mod_eq_of_lt
  omega

theorem mkTag_num (n : Nat) (t : Ty) (hn : n < 2 ^ 29) : mkTag n t >>> tagFieldShift = n := by
  have hw : t.wire < 8 := by rcases wire_cases t with h | h | h | h <;> omega
  have : tagFieldShift = 3 := rfl
  rw [mkTag_eq n t hn, this, Nat.shiftRight_eq_div_pow]
  omega

theorem mkTag_wire (n : Nat) (t : Ty) (hn : n < 2 ^ 29) : mkTag n t % (tagWireMask + 1) = t.wire := by
  have hw : t.wire < 8 := by rcases wire_cases t with h | h | h | h <;> omega
  have : tagWireMask = 7 := rfl
  rw [mkTag_eq n t hn, this]
  omega

theorem readTag_enc {st : St} {n : Nat} {t : Ty} {rest : Bytes} (hw : st.window = encVarint (mkTag n t) ++ rest) :
    readTag st = (mkTag n t, st.adv (encVarint (mkTag n t)).length) := by
  have hlt := mkTag_lt n t
  unfold readTag
  rw [readVarint_enc (by omega) hw]
  simp only [Nat.mod_eq_of_lt hlt]

/-! ### one iteration of the aggregate loop -/

def Fields.app : Fields → Fields → Fields
  | .nil, g => g
  | .cons n t d r, g => .cons n t d (r.app g)

/-- the chain `r` has one entry per field -/
def shapeOf : Fields → Val → Bool
  | .nil, .nil => true
  | .cons _ _ _ r, .cons _ xs => shapeOf r xs
  | _, _ => false

theorem decodeField_at (cfg : Cfg) (n : Nat) (t : Ty) (d0 : Val) (rest : Fields) (tag : Nat) (st : St) (x xs : Val) :
    ∀ (pre : Fields) (rpre : Val), shapeOf pre rpre = true → pre.hasNum n = false →
      decodeField cfg (pre.app (.cons n t d0 rest)) n tag st (rpre.app (.cons x xs)) =
        match fieldWith cfg t.wire tag (decode cfg t) st x with
        | .ok x' st' => .ok (rpre.app (.cons x' xs)) st'
        | r => r
  | .nil, rpre, hs, _ => by
    cases rpre <;> simp only [shapeOf, Bool.false_eq_true] at hs
    simp only [Fields.app, Val.app, decodeField, if_true]
    cases fieldWith cfg t.wire tag (decode cfg t) st x <;> rfl
  | .cons m t' d' r, rpre, hs, hn => by
    cases rpre <;> simp only [shapeOf, Bool.false_eq_true] at hs
    rename_i y ys
    simp only [Fields.hasNum, Bool.or_eq_false_iff, beq_eq_false_iff_ne] at hn
    simp only [Fields.app, Val.app, decodeField, hn.1, if_false]
    rw [decodeField_at cfg n t d0 rest tag st x xs r ys hs hn.2]
    cases fieldWith cfg t.wire tag (decode cfg t) st x <;> rfl

theorem Fields.app_assoc_one (n : Nat) (t : Ty) (d0 : Val) (rest : Fields) : ∀ (pre : Fields),
    (pre.app (.cons n t d0 .nil)).app rest = pre.app (.cons n t d0 rest)
  | .nil => rfl
  | .cons m t' d' r => by simp only [Fields.app]; rw [Fields.app_assoc_one n t d0 rest r]

theorem Fields.hasNum_app_one (n : Nat) (t : Ty) (d0 : Val) (m : Nat) : ∀ (pre : Fields),
    (pre.app (.cons n t d0 .nil)).hasNum m = (pre.hasNum m || n == m)
  | .nil => by simp [Fields.app, Fields.hasNum]
  | .cons k t' d' r => by simp only [Fields.app, Fields.hasNum]; rw [Fields.hasNum_app_one n t d0 m r, Bool.or_assoc]

theorem shapeOf_app_one (n : Nat) (t : Ty) (d0 y : Val) : ∀ (pre : Fields) (rpre : Val), shapeOf pre rpre = true →
    shapeOf (pre.app (.cons n t d0 .nil)) (rpre.app (.cons y .nil)) = true
  | .nil, rpre, hs => by
    cases rpre <;> simp only [shapeOf, Bool.false_eq_true] at hs
    simp [Fields.app, Val.app, shapeOf]
  | .cons k t' d' r, rpre, hs => by
    cases rpre <;> simp only [shapeOf, Bool.false_eq_true] at hs
    rename_i z zs
    simp only [Fields.app, Val.app, shapeOf]
    exact shapeOf_app_one n t d0 y r zs hs

theorem val_app_assoc_one (y rest : Val) : ∀ (pre : Fields) (rpre : Val), shapeOf pre rpre = true →
    (rpre.app (.cons y .nil)).app rest = rpre.app (.cons y rest)
  | .nil, rpre, hs => by
    cases rpre <;> simp only [shapeOf, Bool.false_eq_true] at hs
    simp [Val.app]
  | .cons k t' d' r, rpre, hs => by
    cases rpre <;> simp only [shapeOf, Bool.false_eq_true] at hs
    rename_i z zs
    simp only [Val.app]
    rw [val_app_assoc_one y rest r zs hs]

/-! ### elements and fields -/

theorem hasTy_chain (f : Val → Bool) : ∀ v, allSeq f v = true → isChain v = true := fun v h => allSeq_weaken f v h

theorem encode_ne_nil_of_size (t : Ty) (x : Val) (ht : wfTy t = true) (hsz : size t x < 2 ^ 32) (h0 : size t x ≠ 0) :
    encode t x ≠ [] := by
  intro h
  have := encode_length t ht x hsz
  rw [h] at this
  simp only [List.length_nil] at this
  omega

/-- what the induction hypothesis of the round trip says about one value -/
def RT (cfg : Cfg) (t : Ty) (x d : Val) : Prop :=
  Reads (decode cfg t) (encode t x) d (norm t x) ∧
  (t.isLD = false → encode t x ≠ [] → ReadsPrefix (decode cfg t) (encode t x) d (norm t x))

theorem elem_reads (cfg : Cfg) (t : Ty) (x d : Val) (ht : wfTy t = true) (hsz : size t x < 2 ^ 31)
    (hne : t.isLD = false → encode t x ≠ []) (ih : RT cfg t x d) :
    ReadsPrefix (packedWith cfg t.isLD (decode cfg t)) (packedEnc t.isLD (size t x) (encode t x)) d (norm t x) :=
  packedWith_reads cfg t.isLD (decode cfg t) (size t x) (encode t x) d (norm t x)
    (encode_length t ht x (by omega)) hsz (fun _ => ih.1) (fun hld => ih.2 hld (hne hld))

theorem packedEnc_ne_nil (t : Ty) (x : Val) (ht : wfTy t = true) (hty : hasTy t x = true)
    (hne : t.packedNonEmpty = true) (hsz : size t x < 2 ^ 31) :
    packedEnc t.isLD (size t x) (encode t x) ≠ [] := by
  intro h
  have h1 := packedEnc_length t.isLD (size t x) (encode t x) (encode_length t ht x (by omega)) (by omega)
  have h2 := packedSize_pos t x ht hty hne (by omega)
  rw [h] at h1
  simp only [List.length_nil] at h1
  omega

theorem scalar_encode_ne_nil (t : Ty) (x : Val) (ht : wfTy t = true) (hty : hasTy t x = true)
    (hne : t.packedNonEmpty = true) (hsz : size t x < 2 ^ 31) (hld : t.isLD = false) : encode t x ≠ [] := by
  have hp : t.isPtr = false := by simpa [Ty.packedNonEmpty, hld] using hne
  have := size_pos_of_scalar t x ht hty hld hp
  exact encode_ne_nil_of_size t x ht (by omega) (by omega)

/-- one known field of an aggregate: tag, optional length, payload -/
theorem field_reads (cfg : Cfg) (n : Nat) (t : Ty) (x d : Val) (hn : n < 2 ^ 29) (ht : wfTy t = true)
    (hsz : size t x < 2 ^ 31) (h0 : size t x ≠ 0) (ih : RT cfg t x d) (st : St) (rest : Bytes) (hwf : st.WF)
    (hw : st.window = fieldEnc n t (size t x) (encode t x) ++ rest) :
    readTag st = (mkTag n t, st.adv (encVarint (mkTag n t)).length) ∧
    fieldWith cfg t.wire (mkTag n t) (decode cfg t) (st.adv (encVarint (mkTag n t)).length) d =
      .ok (norm t x) (st.adv (fieldEnc n t (size t x) (encode t x)).length) := by
  simp only [fieldEnc, h0, if_false, List.append_assoc] at hw ⊢
  refine ⟨readTag_enc hw, ?_⟩
  obtain ⟨hk, hw1⟩ := St.window_after hw
  unfold fieldWith
  have hwire : (mkTag n t % (tagWireMask + 1) != t.wire) = false := by
    rw [mkTag_wire n t hn]; simp
  simp only [hwire, Bool.and_false, Bool.false_eq_true, if_false]
  have hld : (t.wire == wtLenDelim) = t.isLD := rfl
  rw [hld]
  have := elem_reads cfg t x d ht hsz (fun _ => encode_ne_nil_of_size t x ht (by omega) h0) ih
    (st.adv (encVarint (mkTag n t)).length) rest (St.WF_adv hwf hk) hw1
  rw [this, St.adv_adv, List.length_append]

/-- `T[N]`: every element in place -/
theorem seqEach_reads (elem : St → Val → Res) (E : Val → Bytes) (N : Val → Val) :
    ∀ (xs ds : Val), isChain xs = true → isChain ds = true → xs.length = ds.length →
    (∀ x d, xs.mem x = true → ds.mem d = true → ReadsPrefix elem (E x) d (N x)) →
    ∀ (st : St), st.WF → st.window = catSeq E xs →
      seqEach elem ds st = .ok (mapSeq N xs) (st.adv (catSeq E xs).length) := by
  intro xs
  induction xs with
  | cons x xs _ ih =>
    intro ds hcx hcd hlen hel st hwf hw
    rw [isChain_cons] at hcx
    cases ds with
    | cons d ds =>
      rw [isChain_cons] at hcd
      simp only [Val.length] at hlen
      simp only [catSeq] at hw ⊢
      rw [seqEach, hel x d (by simp [Val.mem]) (by simp [Val.mem]) st _ hwf hw]
      obtain ⟨hk, hw'⟩ := St.window_after hw
      simp only
      rw [ih ds hcx hcd (by omega) (fun y e hy he => hel y e (by simp [Val.mem, hy]) (by simp [Val.mem, he]))
        (st.adv (E x).length) (St.WF_adv hwf hk) hw']
      simp only [mapSeq, List.length_append, St.adv_adv]
    | _ => simp [Val.length] at hlen
  | nil =>
    intro ds _ hcd hlen _ st _ _
    cases ds with
    | cons d ds => simp [Val.length] at hlen
    | nil => simp [seqEach, mapSeq, catSeq]
    | _ => simp [isChain, allSeq] at hcd
  | _ => intro ds hcx; simp [isChain, allSeq] at hcx

/-! ### maps as sequences of pairs -/

theorem catPairs_eq_catSeq (f g : Val → Bytes) : ∀ v, allPairs (fun _ => true) (fun _ => true) v = true →
    catPairs f g v = catSeq (fun p => match p with | .pair k w => f k ++ g w | _ => []) v := by
  intro v
  induction v with
  | cons h t _ iht =>
    intro hp
    cases h with
    | pair k w =>
      simp only [allPairs, Bool.and_eq_true] at hp
      simp only [catPairs, catSeq, iht hp.2, List.append_assoc]
    | _ => simp [allPairs] at hp
  | _ => intro; rfl

theorem mapPairs_eq_mapSeq (f g : Val → Val) : ∀ v, allPairs (fun _ => true) (fun _ => true) v = true →
    mapPairs f g v = mapSeq (fun p => match p with | .pair k w => .pair (f k) (g w) | q => q) v := by
  intro v
  induction v with
  | cons h t _ iht =>
    intro hp
    cases h with
    | pair k w =>
      simp only [allPairs, Bool.and_eq_true] at hp
      simp only [mapPairs, mapSeq, iht hp.2]
    | _ => simp [allPairs] at hp
  | _ => intro; rfl

theorem allPairs_chain (f g : Val → Bool) : ∀ v, allPairs f g v = true → isChain v = true := by
  intro v
  induction v with
  | cons h t _ iht =>
    intro hp
    cases h with
    | pair k w => simp only [allPairs, Bool.and_eq_true] at hp; rw [isChain_cons]; exact iht hp.2
    | _ => simp [allPairs] at hp
  | nil => intro; rfl
  | _ => intro hp; simp [allPairs] at hp

theorem allPairs_mem (f g : Val → Bool) : ∀ v, allPairs f g v = true → ∀ p, v.mem p = true →
    ∃ k w, p = .pair k w ∧ f k = true ∧ g w = true := by
  intro v
  induction v with
  | cons h t _ iht =>
    intro hp p hm
    cases h with
    | pair k w =>
      simp only [allPairs, Bool.and_eq_true] at hp
      simp only [Val.mem, Bool.or_eq_true, beq_iff_eq] at hm
      rcases hm with rfl | hm
      · exact ⟨k, w, rfl, hp.1.1, hp.1.2⟩
      · exact iht hp.2 p hm
    | _ => simp [allPairs] at hp
  | _ => intro _ p hm; simp [Val.mem] at hm

theorem sumPairs_mem_le (g1 g2 : Val → Nat) : ∀ v, allPairs (fun _ => true) (fun _ => true) v = true →
    ∀ k w, v.mem (.pair k w) = true → g1 k + g2 w ≤ sumPairs g1 g2 v := by
  intro v
  induction v with
  | cons h t _ iht =>
    intro hp k w hm
    cases h with
    | pair k' w' =>
      simp only [allPairs, Bool.and_eq_true] at hp
      simp only [Val.mem, Bool.or_eq_true, beq_iff_eq] at hm
      simp only [sumPairs]
      rcases hm with heq | hm
      · cases heq; omega
      · have := iht hp.2 k w hm; omega
    | _ => simp [allPairs] at hp
  | _ => intro _ k w hm; simp [Val.mem] at hm

/-- `unordered_map::emplace` over pairwise distinct keys keeps every entry -/
theorem foldSeq_mapPut : ∀ ys acc, isChain acc = true → allPairs (fun _ => true) (fun _ => true) ys = true →
    nodupSeq (keysOf ys) = true → (∀ k, (keysOf ys).mem k = true → acc.hasKey k = false) →
    foldSeq (fun a p => match p with
      | .pair x y => if a.hasKey x then a else a.snoc (.pair x y)
      | _ => a) acc ys = acc.app ys := by
  intro ys
  induction ys with
  | cons h t _ iht =>
    intro acc ha hy hnd hdis
    cases h with
    | pair k w =>
      simp only [allPairs, Bool.and_eq_true] at hy
      simp only [keysOf, nodupSeq, Bool.and_eq_true, Bool.not_eq_true'] at hnd
      simp only [foldSeq]
      have hh : acc.hasKey k = false := hdis k (by simp [keysOf, Val.mem])
      simp only [hh, Bool.false_eq_true, if_false]
      rw [iht (acc.snoc (.pair k w)) (isChain_snoc acc _ ha) hy.2 hnd.2, snoc_app acc _ t ha]
      intro k' hk'
      have hacc : acc.hasKey k' = false := hdis k' (by simp [keysOf, Val.mem, hk'])
      have hne : (k == k') = false := by
        simp only [beq_eq_false_iff_ne]
        intro heq; subst heq; rw [hnd.1] at hk'; cases hk'
      clear iht hdis hh
      induction acc with
      | cons a tl _ ih2 =>
        rw [isChain_cons] at ha
        cases a <;> simp only [Val.snoc, Val.hasKey] at hacc ⊢
        all_goals first
          | (simp only [Bool.or_eq_false_iff] at hacc ⊢; exact ⟨hacc.1, ih2 ha hacc.2⟩)
          | exact ih2 ha hacc
      | nil => simp [Val.snoc, Val.hasKey, hne]
      | _ => simp [isChain, allSeq] at ha
    | _ => simp [allPairs] at hy
  | nil => intro acc ha _ _ _; simp only [foldSeq]; exact (app_nil acc ha).symm
  | _ => intro acc _ hy; simp [allPairs] at hy

end Babylon.Wire
