/-
  Totality, termination and boundedness of `decode` (repaired shape): on every input, for every declarable type,
  the parser never spins (`noret`) and a successful parse has consumed only readable bytes (at most up to the
  limit / end of input) and left the limit as it found it.
-/
import Babylon.Wire.LemmasStream

namespace Babylon.Wire
open Babylon.Gen.Wire

/-- what is claimed of a parse result `r` obtained from state `st`: success ⇒ advanced within the readable
window (and strictly, when `prog`); never `noret` -/
def Spec (r : Res) (st : St) (prog : Prop) : Prop :=
  (∀ v st', r = .ok v st' → Adv st st' ∧ (prog → st.pos < st'.pos)) ∧ r ≠ .noret

theorem Spec.fail (st : St) (p : Prop) : Spec .fail st p := ⟨fun _ _ h => (by cases h), by simp⟩

theorem Spec.weaken {r : Res} {st : St} {p q : Prop} (h : Spec r st p) (hq : q → p) : Spec r st q :=
  ⟨fun v st' e => ⟨(h.1 v st' e).1, fun hq' => (h.1 v st' e).2 (hq hq')⟩, h.2⟩

/-- mapping the value of a successful result does not change the claim -/
theorem Spec.map (f : Val → Val) : ∀ {r : Res} {st : St} {p : Prop}, Spec r st p →
    Spec (match r with | .ok x s => .ok (f x) s | r => r) st p := by
  intro r st p h
  cases r with
  | ok x s => exact ⟨fun v st' e => by cases e; exact h.1 x s rfl, by simp⟩
  | fail => exact h
  | noret => exact h

theorem decScalar_spec (t : Ty) (st : St) : Spec (decScalar t st) st (t.isLD = false) := by
  unfold decScalar
  split
  · split
    · rename_i v st' heq
      obtain ⟨hk, rfl⟩ := readFixed_some heq
      exact ⟨fun _ _ e => by cases e; exact ⟨⟨4, hk, rfl⟩, fun _ => by simp⟩, by simp⟩
    · exact Spec.fail _ _
  · split
    · rename_i v st' heq
      obtain ⟨hk, rfl⟩ := readFixed_some heq
      exact ⟨fun _ _ e => by cases e; exact ⟨⟨8, hk, rfl⟩, fun _ => by simp⟩, by simp⟩
    · exact Spec.fail _ _
  · exact ⟨fun _ _ e => by cases e; exact ⟨⟨st.avail, Nat.le_refl _, rfl⟩, fun h => by simp [Ty.isLD, Ty.wire] at h⟩, by simp⟩
  · split
    · rename_i v st' heq
      obtain ⟨k, h1, hk, rfl⟩ := readVarint_ok heq
      exact ⟨fun _ _ e => by cases e; exact ⟨⟨k, hk, rfl⟩, fun _ => by simp; omega⟩, by simp⟩
    · exact Spec.fail _ _

/-- `deserialize_packed_field` (repaired: a failed length read fails) -/
theorem packedWith_spec (cfg : Cfg) (hc : cfg.lenChecked = true) (ld : Bool) (dec : St → Val → Res) (d : Val)
    (P : St → Prop) (hdec : ∀ s, s.WF → Spec (dec s d) s (ld = false ∧ P s)) (st : St) (hwf : st.WF) :
    Spec (packedWith cfg ld dec st d) st (P st) := by
  unfold packedWith
  cases ld with
  | false =>
    simp only [Bool.false_eq_true, if_false]
    exact (hdec st hwf).weaken (fun h => ⟨rfl, h⟩)
  | true =>
    simp only [if_true]
    cases hr : readVarint st with
    | fail st1 => simp only [hc, if_true]; exact Spec.fail _ _
    | ok v st1 =>
      simp only
      obtain ⟨k, hk1, hk, rfl⟩ := readVarint_ok hr
      have hwf1 : (st.adv k).WF := St.WF_adv hwf hk
      have hs := hdec ((st.adv k).pushLimit (v % 2 ^ 32)) (St.WF_pushLimit hwf1 _)
      cases hd : dec ((st.adv k).pushLimit (v % 2 ^ 32)) d with
      | ok x st2 =>
        simp only
        obtain ⟨hadv, _⟩ := hs.1 x st2 hd
        obtain ⟨hadv', hpos⟩ := Adv.of_pushed _ hadv
        refine ⟨fun _ _ e => ?_, by simp⟩
        cases e
        refine ⟨Adv.trans ⟨k, hk, rfl⟩ hadv', fun _ => ?_⟩
        have := hadv.pos_le
        simp only [St.pushLimit_pos, St.adv_pos] at this
        simp only at hpos ⊢
        omega
      | fail => exact Spec.fail _ _
      | noret => exact absurd hd (by rw [hd] at hs; exact fun _ => hs.2 rfl)

theorem fieldWith_spec (cfg : Cfg) (hc : cfg.lenChecked = true) (wire tag : Nat) (dec : St → Val → Res) (d : Val)
    (hdec : ∀ s, s.WF → Spec (dec s d) s False) (st : St) (hwf : st.WF) :
    Spec (fieldWith cfg wire tag dec st d) st False := by
  unfold fieldWith
  split
  · exact Spec.fail _ _
  · exact packedWith_spec cfg hc _ dec d (fun _ => False) (fun s hs => (hdec s hs).weaken (·.2)) st hwf

theorem seqEach_spec (dec : St → Val → Res) (hdec : ∀ s d, s.WF → Spec (dec s d) s False) :
    ∀ (v : Val) (st : St), st.WF → Spec (seqEach dec v st) st False := by
  intro v
  induction v with
  | cons x xs _ ih =>
    intro st hwf
    rw [seqEach]
    cases hd : dec st x with
    | ok x' st' =>
      simp only
      have h1 := ((hdec st x hwf).1 x' st' hd).1
      have h2 := ih st' (h1.WF hwf)
      cases hs : seqEach dec xs st' with
      | ok xs' st'' =>
        simp only
        exact ⟨fun _ _ e => by cases e; exact ⟨h1.trans ((by rw [hs] at h2; exact (h2.1 xs' st'' rfl).1)), fun h => h.elim⟩, by simp⟩
      | fail => exact Spec.fail _ _
      | noret => rw [hs] at h2; exact absurd rfl h2.2
    | fail => exact Spec.fail _ _
    | noret => exact absurd hd (hdec st x hwf).2
  | _ =>
    intro st _
    simp only [seqEach]
    exact ⟨fun _ _ e => by cases e; exact ⟨Adv.refl _, fun h => h.elim⟩, by simp⟩

/-- a container loop over packed elements -/
theorem elemLoop_spec (cfg : Cfg) (hc : cfg.lenChecked = true) (ld : Bool) (dec : St → Val → Res) (d : Val)
    (put : Val → Val → Val)
    (hdec : ∀ s, s.WF → Spec (dec s d) s (ld = false ∧ s.hasBytes = true)) (st : St) (acc : Val) (hwf : st.WF) :
    Spec (loopN St.hasBytes (fun s a => match packedWith cfg ld dec s d with
        | .ok x s' => .ok (put a x) s'
        | r => r) (fuelOf st) st acc) st False := by
  have := loopN_spec St.hasBytes (fun s a => match packedWith cfg ld dec s d with
        | .ok x s' => .ok (put a x) s'
        | r => r)
    (fun s a hs hg => by
      have h := Spec.map (put a) (packedWith_spec cfg hc ld dec d (fun s => s.hasBytes = true) hdec s hs)
      exact ⟨fun a' s' e => ⟨(h.1 a' s' e).1, (h.1 a' s' e).2 hg⟩, h.2⟩)
    (fuelOf st) st acc hwf (by unfold fuelOf; omega)
  exact ⟨fun v st' e => ⟨this.1 v st' e, fun h => h.elim⟩, this.2⟩

theorem decodeField_unknown_path (cfg : Cfg) : ∀ (fs : Fields) (num tag : Nat) (st : St) (rec r : Val) (st' : St),
    fs.hasNum num = false → decodeField cfg fs num tag st rec = .ok r st' → consumeUnknown tag st = some st'
  | .nil, num, tag, st, rec, r, st', _, h => by
    rw [decodeField] at h
    split at h
    · cases h; assumption
    · cases h
  | .cons n t d rest, num, tag, st, rec, r, st', hn, h => by
    simp only [Fields.hasNum, Bool.or_eq_false_iff, beq_eq_false_iff_ne] at hn
    cases rec with
    | cons x xs =>
      simp only [decodeField, hn.1, if_false] at h
      cases hr : decodeField cfg rest num tag st xs with
      | ok xs' s' =>
        rw [hr] at h
        cases h
        exact decodeField_unknown_path cfg rest num tag st xs xs' _ hn.2 hr
      | fail => rw [hr] at h; cases h
      | noret => rw [hr] at h; cases h
    | _ => simp only [decodeField] at h; cases h

theorem wfFields_no_zero : ∀ (fs : Fields), wfFields fs = true → fs.hasNum 0 = false
  | .nil, _ => rfl
  | .cons n t d rest, h => by
    simp only [wfFields, Bool.and_eq_true, decide_eq_true_eq] at h
    simp only [Fields.hasNum, Bool.or_eq_false_iff, beq_eq_false_iff_ne]
    exact ⟨by omega, wfFields_no_zero rest h.2⟩

mutual
theorem decode_spec (dbg : Bool) : ∀ (t : Ty), wfTy t = true → ∀ (st : St) (d : Val), st.WF →
    Spec (decode (Cfg.repaired dbg) t st d) st (t.isLD = false ∧ st.hasBytes = true)
  | .bool, _, st, d, _ => by rw [decode]; exact (decScalar_spec .bool st).weaken (·.1)
  | .int b s, _, st, d, _ => by rw [decode]; exact (decScalar_spec (.int b s) st).weaken (·.1)
  | .enum b s, _, st, d, _ => by rw [decode]; exact (decScalar_spec (.enum b s) st).weaken (·.1)
  | .f32, _, st, d, _ => by rw [decode]; exact (decScalar_spec .f32 st).weaken (·.1)
  | .f64, _, st, d, _ => by rw [decode]; exact (decScalar_spec .f64 st).weaken (·.1)
  | .str, _, st, d, _ => by rw [decode]; exact (decScalar_spec .str st).weaken (·.1)
  | .vec t, ht, st, d, hwf => by
    simp only [wfTy] at ht
    rw [decode]
    simp only [Cfg.repaired, Bool.false_and, Bool.false_eq_true, if_false]
    have hg : vecGuard (Cfg.repaired dbg) = St.hasBytes := by funext s; simp [vecGuard, Cfg.repaired]
    have := elemLoop_spec (Cfg.repaired dbg) rfl t.isLD (decode (Cfg.repaired dbg) t) (dflt t) Val.snoc
      (fun s hs => decode_spec dbg t ht s (dflt t) hs) st d hwf
    simp only [Cfg.repaired] at this hg
    rw [hg]
    exact this.weaken (fun h => by simp [Ty.isLD, Ty.wire] at h)
  | .list t, ht, st, d, hwf => by
    simp only [wfTy] at ht
    rw [decode]
    exact (elemLoop_spec (Cfg.repaired dbg) rfl t.isLD (decode (Cfg.repaired dbg) t) (dflt t) Val.snoc
      (fun s hs => decode_spec dbg t ht s (dflt t) hs) st d hwf).weaken (fun h => by simp [Ty.isLD, Ty.wire] at h)
  | .set t, ht, st, d, hwf => by
    simp only [wfTy] at ht
    rw [decode]
    exact (elemLoop_spec (Cfg.repaired dbg) rfl t.isLD (decode (Cfg.repaired dbg) t) (dflt t)
      (fun acc x => if acc.mem x then acc else acc.snoc x)
      (fun s hs => decode_spec dbg t ht s (dflt t) hs) st d hwf).weaken (fun h => by simp [Ty.isLD, Ty.wire] at h)
  | .map k w, ht, st, d, hwf => by
    simp only [wfTy, Bool.and_eq_true] at ht
    rw [decode]
    have hk := fun s hs => packedWith_spec (Cfg.repaired dbg) rfl k.isLD (decode (Cfg.repaired dbg) k) (dflt k)
      (fun s => s.hasBytes = true) (fun s hs => decode_spec dbg k ht.1 s (dflt k) hs) s hs
    have hw := fun s hs => packedWith_spec (Cfg.repaired dbg) rfl w.isLD (decode (Cfg.repaired dbg) w) (dflt w)
      (fun s => s.hasBytes = true) (fun s hs => decode_spec dbg w ht.2 s (dflt w) hs) s hs
    have := loopN_spec St.hasBytes
      (fun s acc => match packedWith (Cfg.repaired dbg) k.isLD (decode (Cfg.repaired dbg) k) s (dflt k) with
        | .ok x s' =>
          match packedWith (Cfg.repaired dbg) w.isLD (decode (Cfg.repaired dbg) w) s' (dflt w) with
          | .ok y s'' => .ok (if acc.hasKey x then acc else acc.snoc (.pair x y)) s''
          | r => r
        | r => r)
      (fun s a hs hg => by
        have h1 := hk s hs
        cases hx : packedWith (Cfg.repaired dbg) k.isLD (decode (Cfg.repaired dbg) k) s (dflt k) with
        | ok x s' =>
          simp only
          rw [hx] at h1
          obtain ⟨hadv, hpos⟩ := h1.1 x s' rfl
          have h2 := hw s' (hadv.WF hs)
          cases hy : packedWith (Cfg.repaired dbg) w.isLD (decode (Cfg.repaired dbg) w) s' (dflt w) with
          | ok y s'' =>
            simp only
            rw [hy] at h2
            obtain ⟨hadv2, _⟩ := h2.1 y s'' rfl
            refine ⟨fun _ _ e => ?_, by simp⟩
            cases e
            have := hadv2.pos_le
            exact ⟨hadv.trans hadv2, by have := hpos hg; omega⟩
          | fail => simp
          | noret => rw [hy] at h2; exact absurd rfl h2.2
        | fail => simp
        | noret => rw [hx] at h1; exact absurd rfl h1.2)
      (fuelOf st) st d hwf (by unfold fuelOf; omega)
    exact ⟨fun v st' e => ⟨this.1 v st' e, fun h => by simp [Ty.isLD, Ty.wire] at h⟩, this.2⟩
  | .arr t n, ht, st, d, hwf => by
    simp only [wfTy, Bool.and_eq_true] at ht
    rw [decode]
    exact (seqEach_spec _ (fun s x hs =>
      packedWith_spec (Cfg.repaired dbg) rfl t.isLD (decode (Cfg.repaired dbg) t) x (fun _ => False)
        (fun s hs => (decode_spec dbg t ht.1 s x hs).weaken (fun h => h.2.elim)) s hs) d st hwf).weaken
      (fun h => by simp [Ty.isLD, Ty.wire] at h)
  | .uptr t, ht, st, d, hwf => by
    simp only [wfTy] at ht
    have key : ∀ d0, Spec (if st.hasBytes = true then
          (match decode (Cfg.repaired dbg) t st d0 with
            | .ok x st' => .ok (.some x) st'
            | r => r) else .ok d st) st ((Ty.uptr t).isLD = false ∧ st.hasBytes = true) := by
      intro d0
      split
      · refine Spec.weaken (Spec.map Val.some (decode_spec dbg t ht st d0 hwf)) ?_
        intro h
        exact ⟨by simpa [Ty.isLD, Ty.wire] using h.1, h.2⟩
      · rename_i hb
        exact ⟨fun _ _ e => by cases e; exact ⟨Adv.refl _, fun h => absurd h.2 hb⟩, by simp⟩
    cases d <;> simp only [decode] <;> exact key _
  | .sptr t, ht, st, d, hwf => by
    simp only [wfTy] at ht
    rw [decode]
    split
    · refine Spec.weaken (Spec.map Val.some (decode_spec dbg t ht st (dflt t) hwf)) ?_
      intro h
      exact ⟨by simpa [Ty.isLD, Ty.wire] using h.1, h.2⟩
    · rename_i hb
      exact ⟨fun _ _ e => by cases e; exact ⟨Adv.refl _, fun h => absurd h.2 hb⟩, by simp⟩
  | .agg b fs, ht, st, d, hwf => by
    simp only [wfTy, Bool.and_eq_true] at ht
    rw [decode]
    have := loopN_spec St.hasBytes
      (fun s acc => let r := readTag s
        decodeField (Cfg.repaired dbg) fs (r.1 >>> tagFieldShift) r.1 r.2 acc)
      (fun s a hs hg => by
        simp only
        unfold readTag
        cases hr : readVarint s with
        | ok v s1 =>
          simp only
          obtain ⟨k, hk1, hk, rfl⟩ := readVarint_ok hr
          have h := decodeField_spec dbg fs ht.1 ((v % 2 ^ 32) >>> tagFieldShift) (v % 2 ^ 32) (s.adv k) a
            (St.WF_adv hs hk)
          refine ⟨fun a' s' e => ?_, h.2⟩
          obtain ⟨hadv, _⟩ := h.1 a' s' e
          have := hadv.pos_le
          simp only [St.adv_pos] at this
          exact ⟨Adv.trans ⟨k, hk, rfl⟩ hadv, by omega⟩
        | fail s1 =>
          simp only
          have hadv1 := readVarint_fail hr
          have h := decodeField_spec dbg fs ht.1 (0 >>> tagFieldShift) 0 s1 a (hadv1.WF hs)
          refine ⟨fun a' s' e => ?_, h.2⟩
          obtain ⟨hadv, _⟩ := h.1 a' s' e
          refine ⟨hadv1.trans hadv, ?_⟩
          -- either the failed tag read consumed something, or the unknown-field path re-reads the same bytes and fails
          by_cases hp : s.pos < s1.pos
          · have := hadv.pos_le; omega
          · exfalso
            obtain ⟨k, hk, rfl⟩ := hadv1
            simp only [St.adv_pos] at hp
            have hk0 : k = 0 := by omega
            subst hk0
            rw [St.adv_zero] at hr e
            have h0 : (0 : Nat) >>> tagFieldShift = 0 := by decide
            rw [h0] at e
            have := decodeField_unknown_path _ fs 0 0 s a a' s' (wfFields_no_zero fs ht.1) e
            rw [consumeUnknown_zero_of_fail hr] at this
            cases this)
      (fuelOf st) st d hwf (by unfold fuelOf; omega)
    exact ⟨fun v st' e => ⟨this.1 v st' e, fun h => by simp [Ty.isLD, Ty.wire] at h⟩, this.2⟩
theorem decodeField_spec (dbg : Bool) : ∀ (fs : Fields), wfFields fs = true → ∀ (num tag : Nat) (st : St) (rec : Val),
    st.WF → Spec (decodeField (Cfg.repaired dbg) fs num tag st rec) st False
  | .nil, _, num, tag, st, rec, _ => by
    rw [decodeField]
    split
    · rename_i st' heq
      exact ⟨fun _ _ e => by cases e; exact ⟨consumeUnknown_adv heq, fun h => h.elim⟩, by simp⟩
    · exact Spec.fail _ _
  | .cons n t d rest, ht, num, tag, st, rec, hwf => by
    simp only [wfFields, Bool.and_eq_true] at ht
    cases rec with
    | cons x xs =>
      simp only [decodeField]
      split
      · exact Spec.map (fun x' => Val.cons x' xs) (fieldWith_spec (Cfg.repaired dbg) rfl t.wire tag
          (decode (Cfg.repaired dbg) t) x
          (fun s hs => (decode_spec dbg t ht.1.1.2 s x hs).weaken (fun h => h.elim)) st hwf)
      · exact Spec.map (fun xs' => Val.cons x xs') (decodeField_spec dbg rest ht.2 num tag st xs hwf)
    | _ => simp only [decodeField]; exact Spec.fail _ _
end

end Babylon.Wire
