/-
  A successful parse returns a well-typed canonical value.
-/
import Babylon.Wire.LemmasFixpoint

namespace Babylon.Wire
open Babylon.Gen.Wire

theorem keysOf_mapPairs (f g : Val → Val) : ∀ v, keysOf (mapPairs f g v) = mapSeq f (keysOf v) := by
  intro v
  induction v with
  | cons h t _ iht => cases h <;> simp [mapPairs, keysOf, mapSeq, iht]
  | _ => simp [mapPairs, keysOf, mapSeq]

theorem okBits_pos {b : Nat} (_h : okBits b = true) : 0 < 2 ^ b := Nat.two_pow_pos b

theorem decScalar_wf (t : Ty) (ht : wfTy t = true)
    (hk : t = .bool ∨ (∃ b s, t = .int b s) ∨ (∃ b s, t = .enum b s) ∨ t = .f32 ∨ t = .f64 ∨ t = .str)
    (st : St) (v : Val) (st' : St) (h : decScalar t st = .ok v st') : hasTy t v = true ∧ canon t v = true := by
  rcases hk with rfl | ⟨b, s, rfl⟩ | ⟨b, s, rfl⟩ | rfl | rfl | rfl
  · simp only [decScalar] at h
    split at h
    · cases h
      refine ⟨?_, rfl⟩
      simp only [hasTy, scalarRead]
      split <;> rfl
    · cases h
  · simp only [decScalar] at h
    split at h
    · cases h
      refine ⟨?_, rfl⟩
      simp only [hasTy, scalarRead]
      exact decide_eq_true (Nat.mod_lt _ (Nat.two_pow_pos b))
    · cases h
  · simp only [decScalar] at h
    split at h
    · cases h
      refine ⟨?_, rfl⟩
      simp only [hasTy, scalarRead]
      exact decide_eq_true (Nat.mod_lt _ (Nat.two_pow_pos b))
    · cases h
  · simp only [decScalar] at h
    split at h
    · rename_i n s1 heq
      cases h
      unfold readFixed at heq
      split at heq
      · cases heq
        simp only [hasTy, canon, decide_eq_true_eq, and_true]
        have h1 := decFixed_lt (st.bs.take 4)
        have h2 : (st.bs.take 4).length ≤ 4 := by rw [List.length_take]; omega
        have h3 : 256 ^ (st.bs.take 4).length ≤ 256 ^ 4 := Nat.pow_le_pow_right (by decide) h2
        omega
      · cases heq
    · cases h
  · simp only [decScalar] at h
    split at h
    · rename_i n s1 heq
      cases h
      unfold readFixed at heq
      split at heq
      · cases heq
        simp only [hasTy, canon, decide_eq_true_eq, and_true]
        have h1 := decFixed_lt (st.bs.take 8)
        have h2 : (st.bs.take 8).length ≤ 8 := by rw [List.length_take]; omega
        have h3 : 256 ^ (st.bs.take 8).length ≤ 256 ^ 8 := Nat.pow_le_pow_right (by decide) h2
        omega
      · cases heq
    · cases h
  · simp only [decScalar] at h
    cases h
    simp [hasTy, canon]

/-- the loop body of vector / list / set: one packed element, then `put` -/
theorem elemBody_inv (cfg : Cfg) (t : Ty) (I : Val → Prop) (put : Val → Val → Val)
    (hdec : ∀ s v s', decode cfg t s (dflt t) = .ok v s' → hasTy t v = true ∧ canon t v = true)
    (hput : ∀ a x, I a → hasTy t x = true → canon t x = true → I (put a x)) :
    ∀ s a a' s', I a → (match packedWith cfg t.isLD (decode cfg t) s (dflt t) with
        | Res.ok x s' => Res.ok (put a x) s'
        | r => r) = Res.ok a' s' → I a' := by
  intro s a a' s' hI hb
  cases hp : packedWith cfg t.isLD (decode cfg t) s (dflt t) with
  | ok x s1 =>
    rw [hp] at hb
    cases hb
    obtain ⟨s2, s3, hd⟩ := packedWith_ok hp
    obtain ⟨h1, h2⟩ := hdec s2 x s3 hd
    exact hput a x hI h1 h2
  | fail => rw [hp] at hb; cases hb
  | noret => rw [hp] at hb; cases hb

mutual
/-- **What a successful parse returns is a value**: for a declarable canonical type whose set elements / map keys
hold no smart pointers, parsing any bytes into any well-typed canonical object — in any configuration of the
model, repaired or not — returns, when it succeeds, a well-typed canonical value (integers in range, arrays of
the declared length, sets and maps without duplicates). -/
theorem decode_wf (cfg : Cfg) : ∀ (t : Ty), wfTy t = true → canonTy t = true → keysPtrFree t = true →
    ∀ (st : St) (d v : Val) (st' : St), hasTy t d = true → canon t d = true → decode cfg t st d = .ok v st' →
      hasTy t v = true ∧ canon t v = true
  | .bool, ht, _, _, st, d, v, st', _, _, h => by
    rw [decode] at h; exact decScalar_wf .bool ht (Or.inl rfl) st v st' h
  | .int b s, ht, _, _, st, d, v, st', _, _, h => by
    rw [decode] at h; exact decScalar_wf (.int b s) ht (Or.inr (Or.inl ⟨b, s, rfl⟩)) st v st' h
  | .enum b s, ht, _, _, st, d, v, st', _, _, h => by
    rw [decode] at h; exact decScalar_wf (.enum b s) ht (Or.inr (Or.inr (Or.inl ⟨b, s, rfl⟩))) st v st' h
  | .f32, ht, _, _, st, d, v, st', _, _, h => by
    rw [decode] at h; exact decScalar_wf .f32 ht (Or.inr (Or.inr (Or.inr (Or.inl rfl)))) st v st' h
  | .f64, ht, _, _, st, d, v, st', _, _, h => by
    rw [decode] at h; exact decScalar_wf .f64 ht (Or.inr (Or.inr (Or.inr (Or.inr (Or.inl rfl))))) st v st' h
  | .str, ht, _, _, st, d, v, st', _, _, h => by
    rw [decode] at h; exact decScalar_wf .str ht (Or.inr (Or.inr (Or.inr (Or.inr (Or.inr rfl))))) st v st' h
  | .vec t, ht, hc, hk, st, d, v, st', hd, hcd, h => by
    simp only [wfTy] at ht
    simp only [canonTy, Bool.and_eq_true] at hc
    simp only [keysPtrFree] at hk
    simp only [hasTy] at hd
    simp only [canon] at hcd
    rw [decode] at h
    split at h
    · cases h
    · have := loopN_inv (fun a => allSeq (hasTy t) a = true ∧ allSeq (canon t) a = true) _ _
        (elemBody_inv cfg t _ Val.snoc
          (fun s v s' e => decode_wf cfg t ht hc.1 hk s (dflt t) v s' (hasTy_dflt t ht)
            (canon_of_resettable t _ (resettable_dflt t hc.1)) e)
          (fun a x hI h1 h2 => ⟨allSeq_snoc _ a x hI.1 h1, allSeq_snoc _ a x hI.2 h2⟩))
        _ st d v st' ⟨hd, hcd⟩ h
      simpa only [hasTy, canon] using this
  | .list t, ht, hc, hk, st, d, v, st', hd, hcd, h => by
    simp only [wfTy] at ht
    simp only [canonTy, Bool.and_eq_true] at hc
    simp only [keysPtrFree] at hk
    simp only [hasTy] at hd
    simp only [canon] at hcd
    rw [decode] at h
    have := loopN_inv (fun a => allSeq (hasTy t) a = true ∧ allSeq (canon t) a = true) _ _
      (elemBody_inv cfg t _ Val.snoc
        (fun s v s' e => decode_wf cfg t ht hc.1 hk s (dflt t) v s' (hasTy_dflt t ht)
          (canon_of_resettable t _ (resettable_dflt t hc.1)) e)
        (fun a x hI h1 h2 => ⟨allSeq_snoc _ a x hI.1 h1, allSeq_snoc _ a x hI.2 h2⟩))
      _ st d v st' ⟨hd, hcd⟩ h
    simpa only [hasTy, canon] using this
  | .set t, ht, hc, hk, st, d, v, st', hd, hcd, h => by
    simp only [wfTy] at ht
    simp only [canonTy, Bool.and_eq_true] at hc
    simp only [keysPtrFree, Bool.and_eq_true] at hk
    simp only [hasTy] at hd
    simp only [canon, Bool.and_eq_true] at hcd
    have hid : ∀ a, mapSeq (norm t) a = a := mapSeq_id _ (norm_id t hk.1)
    rw [hid] at hcd
    rw [decode] at h
    have := loopN_inv (fun a => allSeq (hasTy t) a = true ∧ allSeq (canon t) a = true ∧ nodupSeq a = true) _ _
      (elemBody_inv cfg t _ (fun a x => if a.mem x then a else a.snoc x)
        (fun s v s' e => decode_wf cfg t ht hc.1 hk.2 s (dflt t) v s' (hasTy_dflt t ht)
          (canon_of_resettable t _ (resettable_dflt t hc.1)) e)
        (fun a x hI h1 h2 => by
          by_cases hm : a.mem x = true
          · simp only [hm, if_true]; exact hI
          · simp only [hm, Bool.false_eq_true, if_false]
            exact ⟨allSeq_snoc _ a x hI.1 h1, allSeq_snoc _ a x hI.2.1 h2,
              nodupSeq_snoc a x (hasTy_chain _ a hI.1) hI.2.2 (by simpa using hm)⟩))
      _ st d v st' ⟨hd, hcd.1, hcd.2⟩ h
    simp only [hasTy, canon, Bool.and_eq_true, hid]
    exact ⟨this.1, this.2.1, this.2.2⟩
  | .map k w, ht, hc, hk, st, d, v, st', hd, hcd, h => by
    simp only [wfTy, Bool.and_eq_true] at ht
    simp only [canonTy, Bool.and_eq_true] at hc
    simp only [keysPtrFree, Bool.and_eq_true] at hk
    simp only [hasTy] at hd
    simp only [canon, Bool.and_eq_true] at hcd
    have hid : ∀ a, keysOf (mapPairs (norm k) (norm w) a) = keysOf a := fun a => by
      rw [keysOf_mapPairs, mapSeq_id _ (norm_id k hk.1.1)]
    rw [hid] at hcd
    rw [decode] at h
    have := loopN_inv (fun a => allPairs (hasTy k) (hasTy w) a = true ∧ allPairs (canon k) (canon w) a = true ∧
        nodupSeq (keysOf a) = true) _ _
      (fun s a a' s' hI hb => by
        cases hp : packedWith cfg k.isLD (decode cfg k) s (dflt k) with
        | ok x s1 =>
          rw [hp] at hb
          simp only at hb
          cases hq : packedWith cfg w.isLD (decode cfg w) s1 (dflt w) with
          | ok y s2 =>
            rw [hq] at hb
            cases hb
            obtain ⟨a1, a2, hdk⟩ := packedWith_ok hp
            obtain ⟨b1, b2, hdw⟩ := packedWith_ok hq
            obtain ⟨hx1, hx2⟩ := decode_wf cfg k ht.1 hc.1.1.1 hk.1.2 a1 (dflt k) x a2 (hasTy_dflt k ht.1)
              (canon_of_resettable k _ (resettable_dflt k hc.1.1.1)) hdk
            obtain ⟨hy1, hy2⟩ := decode_wf cfg w ht.2 hc.1.1.2 hk.2 b1 (dflt w) y b2 (hasTy_dflt w ht.2)
              (canon_of_resettable w _ (resettable_dflt w hc.1.1.2)) hdw
            have hsh := allPairs_weaken _ _ a hI.1
            by_cases hm : a.hasKey x = true
            · simp only [hm, if_true]; exact hI
            · simp only [hm, Bool.false_eq_true, if_false]
              refine ⟨allPairs_snoc _ _ a x y hI.1 hx1 hy1, allPairs_snoc _ _ a x y hI.2.1 hx2 hy2, ?_⟩
              rw [keysOf_snoc a x y hsh]
              exact nodupSeq_snoc _ x (isChain_keysOf a) hI.2.2 (by
                rw [← hasKey_eq_mem_keys a x hsh]; simpa using hm)
          | fail => rw [hq] at hb; cases hb
          | noret => rw [hq] at hb; cases hb
        | fail => rw [hp] at hb; cases hb
        | noret => rw [hp] at hb; cases hb)
      _ st d v st' ⟨hd, hcd.1, hcd.2⟩ h
    simp only [hasTy, canon, Bool.and_eq_true, hid]
    exact ⟨this.1, this.2.1, this.2.2⟩
  | .arr t n, ht, hc, hk, st, d, v, st', hd, hcd, h => by
    simp only [wfTy, Bool.and_eq_true] at ht
    simp only [canonTy, Bool.and_eq_true] at hc
    simp only [keysPtrFree] at hk
    simp only [hasTy, Bool.and_eq_true, beq_iff_eq] at hd
    simp only [canon] at hcd
    rw [decode] at h
    obtain ⟨h1, h2, h3⟩ := seqEach_inv (fun x => hasTy t x = true ∧ canon t x = true)
      (packedWith cfg t.isLD (decode cfg t))
      (fun s e x s' hI hp => by
        obtain ⟨a1, a2, hdk⟩ := packedWith_ok hp
        exact decode_wf cfg t ht.1 hc.1 hk a1 e x a2 hI.1 hI.2 hdk)
      d st v st' (fun e he => ⟨allSeq_mem _ d hd.1 e he, allSeq_mem _ d hcd e he⟩) h
    have hch := h3 (hasTy_chain _ d hd.1)
    simp only [hasTy, canon, Bool.and_eq_true, beq_iff_eq]
    exact ⟨⟨allSeq_of_mem _ v hch (fun x hx => (h1 x hx).1), by omega⟩, allSeq_of_mem _ v hch (fun x hx => (h1 x hx).2)⟩
  | .uptr t, ht, hc, hk, st, d, v, st', hd, hcd, h => by
    simp only [wfTy] at ht
    simp only [canonTy] at hc
    simp only [keysPtrFree] at hk
    have key : ∀ d0, hasTy t d0 = true → canon t d0 = true →
        (if st.hasBytes = true then
          (match decode cfg t st d0 with
            | Res.ok x st' => Res.ok (.some x) st'
            | r => r) else Res.ok d st) = Res.ok v st' → hasTy (.uptr t) v = true ∧ canon (.uptr t) v = true := by
      intro d0 h1 h2 he
      split at he
      · cases hx : decode cfg t st d0 with
        | ok x s1 =>
          rw [hx] at he
          cases he
          simpa only [hasTy, canon] using decode_wf cfg t ht hc hk st d0 x _ h1 h2 hx
        | fail => rw [hx] at he; cases he
        | noret => rw [hx] at he; cases he
      · cases he; exact ⟨hd, hcd⟩
    cases d with
    | some x0 =>
      simp only [hasTy] at hd
      simp only [canon] at hcd
      simp only [decode] at h
      exact key x0 hd hcd h
    | null =>
      simp only [decode] at h
      exact key (dflt t) (hasTy_dflt t ht) (canon_of_resettable t _ (resettable_dflt t hc)) h
    | _ => simp [hasTy] at hd
  | .sptr t, ht, hc, hk, st, d, v, st', hd, hcd, h => by
    simp only [wfTy] at ht
    simp only [canonTy] at hc
    simp only [keysPtrFree] at hk
    rw [decode] at h
    split at h
    · cases hx : decode cfg t st (dflt t) with
      | ok x s1 =>
        rw [hx] at h
        cases h
        simpa only [hasTy, canon] using decode_wf cfg t ht hc hk st (dflt t) x _ (hasTy_dflt t ht)
          (canon_of_resettable t _ (resettable_dflt t hc)) hx
      | fail => rw [hx] at h; cases h
      | noret => rw [hx] at h; cases h
    · cases h; exact ⟨hd, hcd⟩
  | .agg b fs, ht, hc, hk, st, d, v, st', hd, hcd, h => by
    simp only [wfTy, Bool.and_eq_true] at ht
    simp only [canonTy] at hc
    simp only [keysPtrFree] at hk
    simp only [hasTy] at hd
    simp only [canon] at hcd
    rw [decode] at h
    have := loopN_inv (fun a => hasTyFields fs a = true ∧ canonRec fs a = true) _ _
      (fun s a a' s' hI hb => decodeField_wf cfg fs ht.1 hc hk _ _ _ a a' s' hI.1 hI.2 hb)
      _ st d v st' ⟨hd, hcd⟩ h
    simpa only [hasTy, canon] using this
theorem decodeField_wf (cfg : Cfg) : ∀ (fs : Fields), wfFields fs = true → canonFields fs = true →
    keysPtrFreeFields fs = true → ∀ (num tag : Nat) (st : St) (rec r : Val) (st' : St),
    hasTyFields fs rec = true → canonRec fs rec = true → decodeField cfg fs num tag st rec = .ok r st' →
      hasTyFields fs r = true ∧ canonRec fs r = true
  | .nil, _, _, _, num, tag, st, rec, r, st', hd, hcd, h => by
    rw [decodeField] at h
    split at h
    · cases h; exact ⟨hd, hcd⟩
    · cases h
  | .cons n t d0 rest, ht, hc, hk, num, tag, st, rec, r, st', hd, hcd, h => by
    simp only [wfFields, Bool.and_eq_true] at ht
    simp only [canonFields, Bool.and_eq_true] at hc
    simp only [keysPtrFreeFields, Bool.and_eq_true] at hk
    cases rec with
    | cons x xs =>
      simp only [hasTyFields, Bool.and_eq_true] at hd
      simp only [canonRec, Bool.and_eq_true] at hcd
      simp only [decodeField] at h
      split at h
      · cases hf : fieldWith cfg t.wire tag (decode cfg t) st x with
        | ok x' s1 =>
          rw [hf] at h
          cases h
          obtain ⟨a1, a2, hdx⟩ := fieldWith_ok hf
          obtain ⟨h1, h2⟩ := decode_wf cfg t ht.1.1.2 hc.1.1 hk.1 a1 x x' a2 hd.1 hcd.1 hdx
          simp only [hasTyFields, canonRec, Bool.and_eq_true]
          exact ⟨⟨h1, hd.2⟩, ⟨h2, hcd.2⟩⟩
        | fail => rw [hf] at h; cases h
        | noret => rw [hf] at h; cases h
      · cases hr : decodeField cfg rest num tag st xs with
        | ok xs' s1 =>
          rw [hr] at h
          cases h
          obtain ⟨h1, h2⟩ := decodeField_wf cfg rest ht.2 hc.2 hk.2 num tag st xs xs' _ hd.2 hcd.2 hr
          simp only [hasTyFields, canonRec, Bool.and_eq_true]
          exact ⟨⟨hd.1, h1⟩, ⟨hcd.1, h2⟩⟩
        | fail => rw [hr] at h; cases h
        | noret => rw [hr] at h; cases h
    | _ => simp [hasTyFields] at hd
end

end Babylon.Wire
