/-
  Facts about the size traits: every type that holds a size cache is SERIALIZED_SIZE_CACHED (so the framework
  calculates before it serializes), and the TRIVIAL shortcut of `calculate_serialized_size` is exact on size-stable
  types.
-/
import Babylon.Wire.Traits
import Babylon.Wire.LemmasSize

namespace Babylon.Wire
open Babylon.Gen.Wire

theorem weight_of_complex (inh : Bool) : ∀ (fs : Fields), anyComplex inh fs = true → aggCountComplex ≤ weightSum inh fs
  | .nil, h => by simp [anyComplex] at h
  | .cons n t d r, h => by
    simp only [anyComplex, Bool.or_eq_true, beq_iff_eq] at h
    simp only [weightSum]
    rcases h with h | h
    · simp only [aggWeight, h, if_true]; omega
    · have := weight_of_complex inh r h; omega

theorem anyComplex_split (inh : Bool) (n : Nat) (t : Ty) (d : Val) (r : Fields) :
    anyComplex inh (.cons n t d r) = (anyComplex inh (.cons n t d .nil) || anyComplex inh r) := by
  simp [anyComplex]

mutual
/-- **Whoever holds a size cache is SERIALIZED_SIZE_CACHED** — so `serialize_to_string` / `_coded_stream`, which
run `calculate_serialized_size` first exactly for SERIALIZED_SIZE_CACHED types, never serialize from caches nobody
filled.  For every type without a COMPLEX base class (the recorded finding): a vector / list / set / array / pointer
forwards its element's trait, a map takes key OR value, an aggregate is cached as soon as it or any member is. -/
theorem cached_of_cacheInside (inh : Bool) : ∀ (t : Ty), noComplexBase inh t = true → hasCacheInside inh t = true →
    sizeCached inh t = true
  | .vec t, h1, h2 => by
    simp only [noComplexBase, hasCacheInside, sizeCached] at *; exact cached_of_cacheInside inh t h1 h2
  | .list t, h1, h2 => by
    simp only [noComplexBase, hasCacheInside, sizeCached] at *; exact cached_of_cacheInside inh t h1 h2
  | .set t, h1, h2 => by
    simp only [noComplexBase, hasCacheInside, sizeCached] at *; exact cached_of_cacheInside inh t h1 h2
  | .arr t n, h1, h2 => by
    simp only [noComplexBase, hasCacheInside, sizeCached] at *; exact cached_of_cacheInside inh t h1 h2
  | .uptr t, h1, h2 => by
    simp only [noComplexBase, hasCacheInside, sizeCached] at *; exact cached_of_cacheInside inh t h1 h2
  | .sptr t, h1, h2 => by
    simp only [noComplexBase, hasCacheInside, sizeCached] at *; exact cached_of_cacheInside inh t h1 h2
  | .map k w, h1, h2 => by
    simp only [noComplexBase, hasCacheInside, sizeCached, Bool.and_eq_true, Bool.or_eq_true] at *
    rcases h2 with h | h
    · exact Or.inl (cached_of_cacheInside inh k h1.1 h)
    · exact Or.inr (cached_of_cacheInside inh w h1.2 h)
  | .agg b fs, h1, h2 => by
    simp only [noComplexBase, hasCacheInside, sizeCached, Bool.and_eq_true, Bool.or_eq_true] at *
    rcases h2 with (h | h) | h
    · exact Or.inl h
    · -- a COMPLEX member weighs as much as the threshold
      left
      unfold wholeCache countedFields
      have hthr : aggWholeCacheThreshold ≤ aggCountComplex := by decide
      rcases h1.1 with hb | hb
      · have hb' : (b && !aggCountIncludesBase) = false := by
          cases b <;> cases hi : aggCountIncludesBase <;> simp [hi] at hb ⊢
        simp only [hb', Bool.false_eq_true, if_false, decide_eq_true_eq]
        have := weight_of_complex inh fs h; omega
      · cases fs with
        | nil => simp [anyComplex] at h
        | cons n t d r =>
          simp only [Bool.not_eq_true'] at hb
          rw [anyComplex_split, hb, Bool.false_or] at h
          have := weight_of_complex inh r h
          by_cases hc : (b && !aggCountIncludesBase) = true
          · simp only [hc, if_true, Fields.tail, decide_eq_true_eq]; omega
          · simp only [hc, Bool.false_eq_true, if_false, decide_eq_true_eq, weightSum]; omega
    · exact Or.inr (anyCached_of_inside inh fs h1.2 h)
  | .bool, _, h | .int _ _, _, h | .enum _ _, _, h | .f32, _, h | .f64, _, h | .str, _, h => by
    simp [hasCacheInside] at h
theorem anyCached_of_inside (inh : Bool) : ∀ (fs : Fields), noComplexBaseFields inh fs = true →
    hasCacheInsideFields inh fs = true → anyCached inh fs = true
  | .nil, _, h => by simp [hasCacheInsideFields] at h
  | .cons n t d r, h1, h2 => by
    simp only [noComplexBaseFields, hasCacheInsideFields, anyCached, Bool.and_eq_true, Bool.or_eq_true] at *
    rcases h2 with h | h
    · exact Or.inl (cached_of_cacheInside inh t h1.1 h)
    · exact Or.inr (anyCached_of_inside inh r h1.2 h)
end

/-! ### the TRIVIAL shortcut -/

mutual
/-- the value-independent size of a TRIVIAL type -/
def trivConst : Ty → Nat
  | .f32 => 4
  | .f64 => 8
  | .agg _ fs => trivConstFields fs
  | _ => 0
def trivConstFields : Fields → Nat
  | .nil => 0
  | .cons n t _ r => fieldSize n t (trivConst t) + trivConstFields r
end

theorem cxOfElems_ne_trivial (c : Nat) : cxOfElems c ≠ cxTrivial := by
  unfold cxOfElems; split <;> decide

theorem complexity_vec_ne_trivial (inh : Bool) (t : Ty) : complexity inh (.vec t) ≠ cxTrivial := by
  cases t <;> simp only [complexity] <;> first | exact cxOfElems_ne_trivial _ | decide

mutual
theorem size_of_trivial (inh : Bool) : ∀ (t : Ty), complexity inh t = cxTrivial → sizeStable inh t = true →
    ∀ v, hasTy t v = true → size t v = trivConst t
  | .f32, _, _, v, hty => by cases v <;> simp only [hasTy, Bool.false_eq_true] at hty; simp [size, trivConst]
  | .f64, _, _, v, hty => by cases v <;> simp only [hasTy, Bool.false_eq_true] at hty; simp [size, trivConst]
  | .agg b fs, hc, hs, v, hty => by
    simp only [complexity] at hc
    simp only [sizeStable] at hs
    simp only [hasTy] at hty
    simp only [size, trivConst]
    have hall : allTrivial inh fs = true := by
      by_cases h : allTrivial inh fs = true
      · exact h
      · simp only [h, Bool.false_eq_true, if_false] at hc; exact absurd hc (by decide)
    exact sizeFields_of_trivial inh fs hall hs v hty
  | .uptr t, hc, hs, _, _ => by
    simp only [complexity] at hc
    simp only [sizeStable, Bool.and_eq_true, Bool.not_eq_true', Bool.and_eq_false_iff, beq_eq_false_iff_ne] at hs
    split at hc
    · exact absurd hc (by decide)
    · rename_i hn
      rcases hs.1 with h | h
      · exact absurd ⟨hc, h⟩ hn
      · exact absurd hc h
  | .sptr t, hc, hs, _, _ => by
    simp only [complexity] at hc
    simp only [sizeStable, Bool.and_eq_true, Bool.not_eq_true', Bool.and_eq_false_iff, beq_eq_false_iff_ne] at hs
    split at hc
    · exact absurd hc (by decide)
    · rename_i hn
      rcases hs.1 with h | h
      · exact absurd ⟨hc, h⟩ hn
      · exact absurd hc h
  | .vec t, hc, _, _, _ => absurd hc (complexity_vec_ne_trivial inh t)
  | .list t, hc, _, _, _ => by simp only [complexity] at hc; exact absurd hc (cxOfElems_ne_trivial _)
  | .set t, hc, _, _, _ => by simp only [complexity] at hc; exact absurd hc (cxOfElems_ne_trivial _)
  | .arr t n, hc, _, _, _ => by simp only [complexity] at hc; exact absurd hc (cxOfElems_ne_trivial _)
  | .map k w, hc, _, _, _ => by simp only [complexity] at hc; exact absurd hc (by decide)
  | .bool, hc, _, _, _ | .int _ _, hc, _, _, _ | .enum _ _, hc, _, _, _ | .str, hc, _, _, _ => by
    simp only [complexity] at hc; exact absurd hc (by decide)
theorem sizeFields_of_trivial (inh : Bool) : ∀ (fs : Fields), allTrivial inh fs = true → sizeStableFields inh fs = true →
    ∀ v, hasTyFields fs v = true → sizeFields fs v = trivConstFields fs
  | .nil, _, _, v, hty => by cases v <;> simp only [hasTyFields, Bool.false_eq_true] at hty; simp [sizeFields, trivConstFields]
  | .cons n t d r, hc, hs, v, hty => by
    simp only [allTrivial, Bool.and_eq_true, beq_iff_eq] at hc
    simp only [sizeStableFields, Bool.and_eq_true] at hs
    cases v <;> simp only [hasTyFields, Bool.false_eq_true, Bool.and_eq_true] at hty
    simp only [sizeFields, trivConstFields]
    rw [size_of_trivial inh t hc.1 hs.1 _ hty.1, sizeFields_of_trivial inh r hc.2 hs.2 _ hty.2]
end

theorem sumSeq_const (g : Val → Nat) (c : Nat) : ∀ v, (∀ x, v.mem x = true → g x = c) → sumSeq g v = v.length * c := by
  intro v
  induction v with
  | cons h t _ iht =>
    intro hg
    simp only [sumSeq, Val.length, hg h (by simp [Val.mem]), iht (fun x hx => hg x (by simp [Val.mem, hx]))]
    rw [Nat.add_mul, Nat.one_mul, Nat.add_comm]
  | _ => intro; simp [sumSeq, Val.length]

theorem sumSeq_congr (f g : Val → Nat) : ∀ v, (∀ x, v.mem x = true → f x = g x) → sumSeq f v = sumSeq g v := by
  intro v
  induction v with
  | cons h t _ iht =>
    intro hfg
    simp only [sumSeq, hfg h (by simp [Val.mem]), iht (fun x hx => hfg x (by simp [Val.mem, hx]))]
  | _ => intro; rfl

theorem sumPairs_congr (f1 f2 g1 g2 : Val → Nat) : ∀ v, allPairs (fun _ => true) (fun _ => true) v = true →
    (∀ k w, v.mem (.pair k w) = true → f1 k = g1 k ∧ f2 w = g2 w) → sumPairs f1 f2 v = sumPairs g1 g2 v := by
  intro v
  induction v with
  | cons h t _ iht =>
    intro hp hfg
    cases h with
    | pair k w =>
      simp only [allPairs, Bool.and_eq_true] at hp
      have := hfg k w (by simp [Val.mem])
      simp only [sumPairs, this.1, this.2, iht hp.2 (fun a b hm => hfg a b (by simp [Val.mem, hm]))]
    | _ => simp [allPairs] at hp
  | _ => intros; rfl

theorem allPairs_mem_pair (f g : Val → Bool) : ∀ v, allPairs f g v = true → ∀ k w, v.mem (.pair k w) = true →
    f k = true ∧ g w = true := by
  intro v
  induction v with
  | cons h t _ iht =>
    intro hp k w hm
    cases h with
    | pair a b =>
      simp only [allPairs, Bool.and_eq_true] at hp
      simp only [Val.mem, Bool.or_eq_true, beq_iff_eq] at hm
      rcases hm with heq | hm
      · cases heq; exact hp.1
      · exact iht hp.2 k w hm
    | _ => simp [allPairs] at hp
  | _ => intro _ k w hm; simp [Val.mem] at hm

theorem allSeq_mem' (f : Val → Bool) : ∀ v, allSeq f v = true → ∀ x, v.mem x = true → f x = true := by
  intro v
  induction v with
  | cons h t _ iht =>
    intro hh x hx
    simp only [allSeq, Bool.and_eq_true] at hh
    simp only [Val.mem, Bool.or_eq_true, beq_iff_eq] at hx
    rcases hx with rfl | hx
    · exact hh.1
    · exact iht hh.2 x hx
  | _ => intro _ x hx; simp [Val.mem] at hx

theorem allPairs_weaken' (f g : Val → Bool) : ∀ v, allPairs f g v = true → allPairs (fun _ => true) (fun _ => true) v = true := by
  intro v
  induction v with
  | cons h t _ iht =>
    intro hh
    cases h with
    | pair k w => simp only [allPairs, Bool.and_eq_true] at hh ⊢; exact ⟨⟨trivial, trivial⟩, iht hh.2⟩
    | _ => simp [allPairs] at hh
  | nil => intro; rfl
  | _ => intro hh; simp [allPairs] at hh

/-- the elements of a TRIVIAL-element sequence all have the constant size -/
theorem seq_trivial (inh : Bool) (t : Ty) (ld : Bool) (hc : complexity inh t = cxTrivial) (hs : sizeStable inh t = true)
    (v : Val) (hty : allSeq (hasTy t) v = true) (ih : ∀ x, hasTy t x = true → calcSize inh t x = size t x) :
    v.length * packedSize ld (calcSize inh t (headOr v)) = sumSeq (fun x => packedSize ld (size t x)) v := by
  rw [sumSeq_const _ (packedSize ld (trivConst t)) v (fun x hx => by
    simp only [size_of_trivial inh t hc hs x (allSeq_mem' _ v hty x hx)])]
  cases v with
  | cons h tl =>
    simp only [allSeq, Bool.and_eq_true] at hty
    simp only [headOr, ih h hty.1, size_of_trivial inh t hc hs h hty.1]
  | _ => simp [Val.length]

mutual
/-- **`calculate_serialized_size` computes `size`** on size-stable types (well-typed values): the
`n · size(value[0])` shortcut for TRIVIAL elements is exact there. -/
theorem calcSize_eq_size (inh : Bool) : ∀ (t : Ty), sizeStable inh t = true → ∀ v, hasTy t v = true →
    calcSize inh t v = size t v
  | .bool, _, v, hty => by cases v <;> simp only [hasTy, Bool.false_eq_true] at hty; simp [calcSize, size]
  | .int b s, _, v, hty => by cases v <;> simp only [hasTy, Bool.false_eq_true] at hty; simp [calcSize, size]
  | .enum b s, _, v, hty => by cases v <;> simp only [hasTy, Bool.false_eq_true] at hty; simp [calcSize, size]
  | .f32, _, v, hty => by cases v <;> simp only [hasTy, Bool.false_eq_true] at hty; simp [calcSize, size]
  | .f64, _, v, hty => by cases v <;> simp only [hasTy, Bool.false_eq_true] at hty; simp [calcSize, size]
  | .str, _, v, hty => by cases v <;> simp only [hasTy, Bool.false_eq_true] at hty; simp [calcSize, size]
  | .vec t, hs, v, hty => by
    simp only [sizeStable] at hs
    simp only [hasTy] at hty
    simp only [calcSize, size]
    split
    · rename_i hc
      exact seq_trivial inh t t.isLD hc hs v hty (fun x hx => calcSize_eq_size inh t hs x hx)
    · exact sumSeq_congr _ _ v (fun x hx => by rw [calcSize_eq_size inh t hs x (allSeq_mem' _ v hty x hx)])
  | .arr t n, hs, v, hty => by
    simp only [sizeStable] at hs
    simp only [hasTy, Bool.and_eq_true, beq_iff_eq] at hty
    simp only [calcSize, size]
    split
    · rename_i hc
      rw [← hty.2]
      exact seq_trivial inh t t.isLD hc hs v hty.1 (fun x hx => calcSize_eq_size inh t hs x hx)
    · exact sumSeq_congr _ _ v (fun x hx => by rw [calcSize_eq_size inh t hs x (allSeq_mem' _ v hty.1 x hx)])
  | .list t, hs, v, hty => by
    simp only [sizeStable] at hs
    simp only [hasTy] at hty
    simp only [calcSize, size]
    exact sumSeq_congr _ _ v (fun x hx => by rw [calcSize_eq_size inh t hs x (allSeq_mem' _ v hty x hx)])
  | .set t, hs, v, hty => by
    simp only [sizeStable] at hs
    simp only [hasTy] at hty
    simp only [calcSize, size]
    exact sumSeq_congr _ _ v (fun x hx => by rw [calcSize_eq_size inh t hs x (allSeq_mem' _ v hty x hx)])
  | .map k w, hs, v, hty => by
    simp only [sizeStable, Bool.and_eq_true] at hs
    simp only [hasTy] at hty
    simp only [calcSize, size]
    exact sumPairs_congr _ _ _ _ v (allPairs_weaken' _ _ v hty) (fun a b hm => by
      obtain ⟨h1, h2⟩ := allPairs_mem_pair _ _ v hty a b hm
      rw [calcSize_eq_size inh k hs.1 a h1, calcSize_eq_size inh w hs.2 b h2]
      exact ⟨rfl, rfl⟩)
  | .uptr t, hs, v, hty => by
    simp only [sizeStable, Bool.and_eq_true] at hs
    cases v <;> simp only [hasTy, Bool.false_eq_true] at hty <;> simp only [calcSize, size]
    exact calcSize_eq_size inh t hs.2 _ hty
  | .sptr t, hs, v, hty => by
    simp only [sizeStable, Bool.and_eq_true] at hs
    cases v <;> simp only [hasTy, Bool.false_eq_true] at hty <;> simp only [calcSize, size]
    exact calcSize_eq_size inh t hs.2 _ hty
  | .agg b fs, hs, v, hty => by
    simp only [sizeStable] at hs
    simp only [hasTy] at hty
    simp only [calcSize, size]
    exact calcSizeFields_eq inh fs hs v hty
theorem calcSizeFields_eq (inh : Bool) : ∀ (fs : Fields), sizeStableFields inh fs = true → ∀ v, hasTyFields fs v = true →
    calcSizeFields inh fs v = sizeFields fs v
  | .nil, _, v, _ => by cases v <;> simp [calcSizeFields, sizeFields]
  | .cons n t d r, hs, v, hty => by
    simp only [sizeStableFields, Bool.and_eq_true] at hs
    cases v <;> simp only [hasTyFields, Bool.false_eq_true, Bool.and_eq_true] at hty
    simp only [calcSizeFields, sizeFields]
    rw [calcSize_eq_size inh t hs.1 _ hty.1, calcSizeFields_eq inh r hs.2 _ hty.2]
end

mutual
/-- once smart pointers stop inheriting TRIVIAL, every type is size-stable -/
theorem sizeStable_of_repaired : ∀ (t : Ty), sizeStable false t = true
  | .bool | .int _ _ | .enum _ _ | .f32 | .f64 | .str => by simp [sizeStable]
  | .vec t | .list t | .set t | .arr t _ => by simp only [sizeStable]; exact sizeStable_of_repaired t
  | .map k w => by simp only [sizeStable, Bool.and_eq_true]; exact ⟨sizeStable_of_repaired k, sizeStable_of_repaired w⟩
  | .uptr t | .sptr t => by simp only [sizeStable, Bool.false_and, Bool.not_false, Bool.true_and]; exact sizeStable_of_repaired t
  | .agg _ fs => by simp only [sizeStable]; exact sizeStableFields_of_repaired fs
theorem sizeStableFields_of_repaired : ∀ (fs : Fields), sizeStableFields false fs = true
  | .nil => rfl
  | .cons _ t _ r => by
    simp only [sizeStableFields, Bool.and_eq_true]; exact ⟨sizeStable_of_repaired t, sizeStableFields_of_repaired r⟩
end

end Babylon.Wire
