/-
  Lemmas about varints and fixed-width integers (`Babylon.Wire.Varint`).
-/
import Babylon.Wire.Varint

namespace Babylon.Wire
open Babylon.Gen.Wire

theorem byte_toNat {n : Nat} (h : n < 256) : (byte n).toNat = n := by
  unfold byte
  exact UInt8.toNat_ofNat_of_lt' h

/-! ### length of an encoded varint -/

theorem pow7_succ (j : Nat) : 2 ^ (7 * (j + 1)) = 2 ^ (7 * j) * 128 := by
  rw [Nat.mul_add, Nat.pow_add]

theorem encVarintAux_length (j : Nat) : ∀ (f v : Nat), j ≤ f → v < 2 ^ (7 * (j + 1)) → (j = 0 ∨ 2 ^ (7 * j) ≤ v) →
    (encVarintAux (f + 1) v).length = j + 1 := by
  induction j with
  | zero =>
    intro f v _ hv _
    have : v < 128 := by simpa using hv
    simp [encVarintAux, this]
  | succ j ih =>
    intro f v hf hv hlo
    have hlo' : 2 ^ (7 * (j + 1)) ≤ v := by
      rcases hlo with h | h
      · omega
      · exact h
    have h128 : 128 ≤ v := by
      have : 2 ^ (7 * j) ≥ 1 := Nat.one_le_two_pow
      rw [pow7_succ] at hlo'
      omega
    obtain ⟨f', rfl⟩ : ∃ f', f = f' + 1 := ⟨f - 1, by omega⟩
    have hnot : ¬ v < 128 := by omega
    rw [encVarintAux]
    simp only [hnot, if_false, List.length_cons]
    rw [ih f' (v / 128) (by omega)]
    · rw [pow7_succ] at hv
      exact Nat.div_lt_of_lt_mul (by rw [Nat.mul_comm]; exact hv)
    · right
      rw [pow7_succ] at hlo'
      exact (Nat.le_div_iff_mul_le (by decide)).2 hlo'

/-- number of 7-bit groups of `v` -/
theorem encVarint_length_of_range (j v : Nat) (hj : j ≤ 9) (hv : v < 2 ^ (7 * (j + 1))) (h64 : v < 2 ^ 64)
    (hlo : j = 0 ∨ 2 ^ (7 * j) ≤ v) : (encVarint v).length = j + 1 := by
  unfold encVarint
  rw [Nat.mod_eq_of_lt h64]
  exact encVarintAux_length j 9 v hj hv hlo

theorem encVarint_length_pos (v : Nat) : 0 < (encVarint v).length := by
  unfold encVarint
  rw [encVarintAux]
  split <;> simp

theorem encVarintAux_length_le : ∀ (f v : Nat), (encVarintAux f v).length ≤ f := by
  intro f
  induction f with
  | zero => intro v; simp [encVarintAux]
  | succ f ih =>
    intro v
    rw [encVarintAux]
    split
    · simp
    · simp only [List.length_cons]
      have := ih (v / 128)
      omega

theorem encVarint_length_le (v : Nat) : (encVarint v).length ≤ 10 := encVarintAux_length_le 10 _

/-! ### the size formula -/

theorem varintSize_of_range (j v : Nat) (hj : j ≤ 9) (hv : v < 2 ^ (7 * (j + 1)))
    (hlo : j = 0 ∨ 2 ^ (7 * j) ≤ v) : varintSize v = j + 1 := by
  have hx0 : v ||| 1 ≠ 0 := by
    intro h
    have : 1 ≤ v ||| 1 := Nat.right_le_or
    omega
  have hlo' : 2 ^ (7 * j) ≤ v ||| 1 := by
    rcases hlo with h | h
    · subst h
      have : 1 ≤ v ||| 1 := Nat.right_le_or
      simpa using this
    · exact Nat.le_trans h Nat.left_le_or
  have hhi : v ||| 1 < 2 ^ (7 * (j + 1)) := by
    apply Nat.or_lt_two_pow hv
    have : 7 * (j + 1) = (7 * j + 6) + 1 := by omega
    rw [this, Nat.pow_succ]
    have : 2 ^ (7 * j + 6) ≥ 1 := Nat.one_le_two_pow
    omega
  have h1 : 7 * j ≤ Nat.log2 (v ||| 1) := (Nat.le_log2 hx0).2 hlo'
  have h2 : Nat.log2 (v ||| 1) < 7 * (j + 1) := (Nat.log2_lt hx0).2 hhi
  show (Nat.log2 (v ||| 1) * 9 + 73) / 64 = j + 1
  omega

/-! ### reading back -/

theorem scanVarint_encVarintAux (rest : Bytes) : ∀ (f v : Nat), v < 2 ^ (7 * (f + 1)) →
    scanVarint (f + 1) (encVarintAux (f + 1) v ++ rest) = some (v, (encVarintAux (f + 1) v).length) := by
  intro f
  induction f with
  | zero =>
    intro v hv
    have h : v < 128 := by simpa using hv
    simp [encVarintAux, scanVarint, h, byte_toNat (show v < 256 by omega)]
  | succ f ih =>
    intro v hv
    rw [encVarintAux]
    by_cases h : v < 128
    · simp [scanVarint, h, byte_toNat (show v < 256 by omega)]
    · have hb : (byte (v % 128 + 128)).toNat = v % 128 + 128 := byte_toNat (by omega)
      have hdiv : v / 128 < 2 ^ (7 * (f + 1)) := by
        rw [pow7_succ] at hv
        exact Nat.div_lt_of_lt_mul (by rw [Nat.mul_comm]; exact hv)
      simp only [h, if_false, List.cons_append, List.length_cons]
      rw [scanVarint]
      have hnot : ¬ (v % 128 + 128 < 128) := by omega
      simp only [hb, hnot, if_false, ih (v / 128) hdiv]
      congr 2
      omega

theorem scanVarint_encVarint (v : Nat) (hv : v < 2 ^ 64) (rest : Bytes) :
    scanVarint 10 (encVarint v ++ rest) = some (v, (encVarint v).length) := by
  unfold encVarint
  rw [Nat.mod_eq_of_lt hv]
  exact scanVarint_encVarintAux rest 9 v (by omega)

/-- a successful scan looks at `n ≤ fuel` bytes, `n ≥ 1`, all inside the input -/
theorem scanVarint_bounds : ∀ (f : Nat) (bs : Bytes) (v n : Nat), scanVarint f bs = some (v, n) →
    1 ≤ n ∧ n ≤ f ∧ n ≤ bs.length := by
  intro f
  induction f with
  | zero => intro bs v n h; simp [scanVarint] at h
  | succ f ih =>
    intro bs v n h
    cases bs with
    | nil => simp [scanVarint] at h
    | cons b bs =>
      rw [scanVarint] at h
      split at h
      · cases h; simp
      · split at h
        · rename_i v' n' heq
          cases h
          have := ih bs v' n' heq
          simp only [List.length_cons]
          omega
        · cases h

/-- the scan depends only on the bytes it looks at -/
theorem scanVarint_append : ∀ (f : Nat) (bs rest : Bytes) (v n : Nat), scanVarint f bs = some (v, n) →
    scanVarint f (bs ++ rest) = some (v, n) := by
  intro f
  induction f with
  | zero => intro bs rest v n h; simp [scanVarint] at h
  | succ f ih =>
    intro bs rest v n h
    cases bs with
    | nil => simp [scanVarint] at h
    | cons b bs =>
      rw [scanVarint] at h
      rw [List.cons_append, scanVarint]
      split at h
      · rename_i hb; simp [hb, h]
      · rename_i hb
        simp only [hb, if_false]
        split at h
        · rename_i v' n' heq
          rw [ih bs rest v' n' heq]
          exact h
        · cases h

theorem scanVarint_take : ∀ (f : Nat) (bs : Bytes) (v n k : Nat), scanVarint f (bs.take k) = some (v, n) →
    scanVarint f bs = some (v, n) := by
  intro f bs v n k h
  have := scanVarint_append f (bs.take k) (bs.drop k) v n h
  rwa [List.take_append_drop] at this

/-! ### fixed width -/

theorem encFixed_length : ∀ (n v : Nat), (encFixed n v).length = n := by
  intro n
  induction n with
  | zero => intro v; rfl
  | succ n ih => intro v; simp [encFixed, ih]

theorem decFixed_encFixed : ∀ (n v : Nat), decFixed (encFixed n v) = v % 256 ^ n := by
  intro n
  induction n with
  | zero => intro v; simp [encFixed, decFixed, Nat.mod_one]
  | succ n ih =>
    intro v
    simp only [encFixed, decFixed, ih, byte_toNat (Nat.mod_lt v (by decide : 256 > 0))]
    rw [Nat.pow_succ, Nat.mul_comm (256 ^ n) 256, Nat.mod_mul]

end Babylon.Wire
