/-
  `size` is the length of `encode` (all types, all values).
-/
import Babylon.Wire.Codec
import Babylon.Wire.LemmasVarint

namespace Babylon.Wire
open Babylon.Gen.Wire

/-- every `v < 2^64` falls in exactly one 7-bit band -/
theorem varint_band (v : Nat) (h : v < 2 ^ 64) :
    ∃ j, j ≤ 9 ∧ v < 2 ^ (7 * (j + 1)) ∧ (j = 0 ∨ 2 ^ (7 * j) ≤ v) := by
  by_cases h0 : v < 2 ^ 7
  · exact ⟨0, by omega, by simpa using h0, Or.inl rfl⟩
  by_cases h1 : v < 2 ^ 14
  · exact ⟨1, by omega, by simpa using h1, Or.inr (by simpa using Nat.le_of_not_lt h0)⟩
  by_cases h2 : v < 2 ^ 21
  · exact ⟨2, by omega, by simpa using h2, Or.inr (by simpa using Nat.le_of_not_lt h1)⟩
  by_cases h3 : v < 2 ^ 28
  · exact ⟨3, by omega, by simpa using h3, Or.inr (by simpa using Nat.le_of_not_lt h2)⟩
  by_cases h4 : v < 2 ^ 35
  · exact ⟨4, by omega, by simpa using h4, Or.inr (by simpa using Nat.le_of_not_lt h3)⟩
  by_cases h5 : v < 2 ^ 42
  · exact ⟨5, by omega, by simpa using h5, Or.inr (by simpa using Nat.le_of_not_lt h4)⟩
  by_cases h6 : v < 2 ^ 49
  · exact ⟨6, by omega, by simpa using h6, Or.inr (by simpa using Nat.le_of_not_lt h5)⟩
  by_cases h7 : v < 2 ^ 56
  · exact ⟨7, by omega, by simpa using h7, Or.inr (by simpa using Nat.le_of_not_lt h6)⟩
  by_cases h8 : v < 2 ^ 63
  · exact ⟨8, by omega, by simpa using h8, Or.inr (by simpa using Nat.le_of_not_lt h7)⟩
  · exact ⟨9, by omega, by
      have : (2:Nat) ^ 64 ≤ 2 ^ (7 * (9 + 1)) := Nat.pow_le_pow_right (by decide) (by decide)
      omega, Or.inr (by simpa using Nat.le_of_not_lt h8)⟩

/-- the clz formula of `varint_size` is the number of bytes `WriteVarint` produces -/
theorem encVarint_length (v : Nat) (h : v < 2 ^ 64) : (encVarint v).length = varintSize v := by
  obtain ⟨j, hj, hhi, hlo⟩ := varint_band v h
  rw [encVarint_length_of_range j v hj hhi h hlo, varintSize_of_range j v hj hhi hlo]

theorem varintSize_pos (v : Nat) (h : v < 2 ^ 64) : 0 < varintSize v := by
  rw [← encVarint_length v h]; exact encVarint_length_pos v

theorem varintSize_le (v : Nat) (h : v < 2 ^ 64) : varintSize v ≤ 10 := by
  rw [← encVarint_length v h]; exact encVarint_length_le v

/-! ### scalars -/

theorem okBits_cases {b : Nat} (h : okBits b = true) : b = 8 ∨ b = 16 ∨ b = 32 ∨ b = 64 := by
  simp [okBits] at h
  omega

theorem sext_lt {bits to : Nat} (sgn : Bool) (n : Nat) (h : bits ≤ to) : sext bits to sgn n < 2 ^ to := by
  have hm : n % 2 ^ bits < 2 ^ bits := Nat.mod_lt _ (Nat.two_pow_pos _)
  have hle : 2 ^ bits ≤ 2 ^ to := Nat.pow_le_pow_right (by decide) h
  simp only [sext]
  split <;> omega

theorem scalarWire_lt (t : Ty) (n : Nat) (ht : wfTy t = true) : scalarWire t n < 2 ^ 64 := by
  cases t <;> simp only [scalarWire] <;> try (first | (split <;> omega) | omega)
  case int b s =>
    simp only [wfTy] at ht
    have hb := okBits_cases ht
    have : intVarintBits b ≤ 64 := by unfold intVarintBits; split <;> omega
    have h1 : b ≤ intVarintBits b := by unfold intVarintBits; split <;> omega
    exact Nat.lt_of_lt_of_le (sext_lt s n h1) (Nat.pow_le_pow_right (by decide) this)
  case enum b s =>
    simp only [wfTy] at ht
    have hb := okBits_cases ht
    exact sext_lt s n (by show b ≤ 64; omega)

/-! ### packed elements and fields -/

theorem packedEnc_length (ld : Bool) (s : Nat) (b : Bytes) (hb : b.length = s) (hs : s < 2 ^ 32) :
    (packedEnc ld s b).length = packedSize ld s := by
  unfold packedEnc packedSize
  cases ld
  · simpa using hb
  · simp only [if_true, List.length_append, Nat.mod_eq_of_lt hs]
    rw [encVarint_length s (by omega), hb]; omega

theorem packedSize_ge (ld : Bool) (s : Nat) : s ≤ packedSize ld s := by
  unfold packedSize; split <;> omega

theorem mkTag_lt (num : Nat) (t : Ty) : mkTag num t < 2 ^ 32 := Nat.mod_lt _ (by decide)

theorem fieldEnc_length (num : Nat) (t : Ty) (s : Nat) (b : Bytes) (hb : b.length = s) (hs : s < 2 ^ 32) :
    (fieldEnc num t s b).length = fieldSize num t s := by
  unfold fieldEnc fieldSize
  split
  · rfl
  · rw [List.length_append, packedEnc_length _ s b hb hs,
      encVarint_length _ (Nat.lt_of_lt_of_le (mkTag_lt num t) (by decide))]

theorem fieldSize_ge (num : Nat) (t : Ty) (s : Nat) : s ≤ fieldSize num t s := by
  unfold fieldSize
  split
  · omega
  · have := packedSize_ge t.isLD s; omega

theorem catSeq_length (f : Val → Bytes) (g : Val → Nat) (bound : Nat) :
    ∀ v, sumSeq g v < bound → (∀ x, g x < bound → (f x).length = g x) → (catSeq f v).length = sumSeq g v := by
  intro v
  induction v with
  | cons h t _ iht =>
    intro hs hf
    simp only [catSeq, sumSeq, List.length_append] at *
    rw [hf h (by omega), iht (by omega) hf]
  | _ => intros; rfl

theorem catPairs_length (f1 f2 : Val → Bytes) (g1 g2 : Val → Nat) (bound : Nat) :
    ∀ v, sumPairs g1 g2 v < bound → (∀ x, g1 x < bound → (f1 x).length = g1 x) →
      (∀ x, g2 x < bound → (f2 x).length = g2 x) → (catPairs f1 f2 v).length = sumPairs g1 g2 v := by
  intro v
  induction v with
  | cons h t _ iht =>
    intro hs h1 h2
    cases h with
    | pair k w =>
      simp only [catPairs, sumPairs, List.length_append] at *
      rw [h1 k (by omega), h2 w (by omega), iht (by omega) h1 h2]
    | _ => rfl
  | _ => intros; rfl

theorem packed_elem_length (t : Ty) (ih : ∀ v, size t v < 2 ^ 32 → (encode t v).length = size t v) (x : Val)
    (h : packedSize t.isLD (size t x) < 2 ^ 32) :
    (packedEnc t.isLD (size t x) (encode t x)).length = packedSize t.isLD (size t x) := by
  have := packedSize_ge t.isLD (size t x)
  exact packedEnc_length _ _ _ (ih x (by omega)) (by omega)

mutual
/-- **size = length** for every type whose integer widths exist, every value (well-typed or not), as long as
the encoding stays below 4 GiB (beyond that `WriteVarint32(size)` truncates the length prefix). -/
theorem encode_length : ∀ (t : Ty), wfTy t = true → ∀ v, size t v < 2 ^ 32 → (encode t v).length = size t v
  | .bool, ht, v, _ => by
    cases v <;> simp only [encode, size, List.length_nil]
    exact encVarint_length _ (scalarWire_lt .bool _ ht)
  | .int b s, ht, v, _ => by
    cases v <;> simp only [encode, size, List.length_nil]
    exact encVarint_length _ (scalarWire_lt (.int b s) _ ht)
  | .enum b s, ht, v, _ => by
    cases v <;> simp only [encode, size, List.length_nil]
    exact encVarint_length _ (scalarWire_lt (.enum b s) _ ht)
  | .f32, _, v, _ => by cases v <;> simp [encode, size, encFixed_length]
  | .f64, _, v, _ => by cases v <;> simp [encode, size, encFixed_length]
  | .str, _, v, _ => by cases v <;> simp [encode, size]
  | .vec t, ht, v, h => by
    simp only [wfTy] at ht
    simp only [encode, size] at *
    exact catSeq_length _ _ (2 ^ 32) v h (fun x hx => packed_elem_length t (encode_length t ht) x hx)
  | .list t, ht, v, h => by
    simp only [wfTy] at ht
    simp only [encode, size] at *
    exact catSeq_length _ _ (2 ^ 32) v h (fun x hx => packed_elem_length t (encode_length t ht) x hx)
  | .set t, ht, v, h => by
    simp only [wfTy] at ht
    simp only [encode, size] at *
    exact catSeq_length _ _ (2 ^ 32) v h (fun x hx => packed_elem_length t (encode_length t ht) x hx)
  | .arr t n, ht, v, h => by
    simp only [wfTy, Bool.and_eq_true] at ht
    simp only [encode, size] at *
    exact catSeq_length _ _ (2 ^ 32) v h (fun x hx => packed_elem_length t (encode_length t ht.1) x hx)
  | .map k w, ht, v, h => by
    simp only [wfTy, Bool.and_eq_true] at ht
    simp only [encode, size] at *
    exact catPairs_length _ _ _ _ (2 ^ 32) v h
      (fun x hx => packed_elem_length k (encode_length k ht.1) x hx)
      (fun x hx => packed_elem_length w (encode_length w ht.2) x hx)
  | .uptr t, ht, v, h => by
    simp only [wfTy] at ht
    cases v <;> simp only [encode, size, List.length_nil] at *
    exact encode_length t ht _ h
  | .sptr t, ht, v, h => by
    simp only [wfTy] at ht
    cases v <;> simp only [encode, size, List.length_nil] at *
    exact encode_length t ht _ h
  | .agg _ fs, ht, v, h => by
    simp only [wfTy, Bool.and_eq_true] at ht
    simp only [encode, size] at *
    exact encodeFields_length fs ht.1 v h
theorem encodeFields_length : ∀ (fs : Fields), wfFields fs = true → ∀ v, sizeFields fs v < 2 ^ 32 →
    (encodeFields fs v).length = sizeFields fs v
  | .nil, _, v, _ => by cases v <;> simp [encodeFields, sizeFields]
  | .cons num t d rest, ht, v, h => by
    simp only [wfFields, Bool.and_eq_true] at ht
    cases v with
    | cons x xs =>
      simp only [encodeFields, sizeFields, List.length_append] at *
      have := fieldSize_ge num t (size t x)
      rw [fieldEnc_length num t _ _ (encode_length t ht.1.1.2 x (by omega)) (by omega),
        encodeFields_length rest ht.2 xs (by omega)]
    | _ => simp [encodeFields, sizeFields]
end

end Babylon.Wire
