/-
  Unknown fields are skipped; a field parse touches only its own member; an empty input leaves the object alone.
-/
import Babylon.Wire.LemmasRoundtrip2
import Babylon.Wire.LemmasTotal

namespace Babylon.Wire
open Babylon.Gen.Wire

/-- the payload of a well-formed field of wire type `w` (what `consume_unknown_field` must step over) -/
def okPayload (w : Nat) (payload : Bytes) : Prop :=
  (w = 0 ∧ ∃ x, x < 2 ^ 64 ∧ payload = encVarint x) ∨
  (w = 1 ∧ payload.length = 8) ∨
  (w = 5 ∧ payload.length = 4) ∨
  (w = 2 ∧ ∃ body, body.length < 2 ^ 31 ∧ payload = encVarint body.length ++ body)

theorem skip_window {st : St} {a b : Bytes} (h : st.window = a ++ b) : skip a.length st = some (st.adv a.length) := by
  unfold skip
  simp [(St.window_after h).1]

theorem consumeUnknown_payload (num w : Nat) (payload rest : Bytes) (hw : okPayload w payload) (st : St)
    (hwin : st.window = payload ++ rest) :
    consumeUnknown (num * 8 + w) st = some (st.adv payload.length) := by
  unfold consumeUnknown
  rcases hw with ⟨rfl, x, hx, rfl⟩ | ⟨rfl, hl⟩ | ⟨rfl, hl⟩ | ⟨rfl, body, hb, rfl⟩
  · have hm : (num * 8 + 0) % 8 = 0 := by omega
    simp only [wtVarint, tagWireMask, hm, if_true, readVarint_enc hx hwin]
  · have hm : (num * 8 + 1) % 8 = 1 := by omega
    simp [wtVarint, wtFixed32, wtFixed64, tagWireMask, hm]
    rw [← hl]; exact skip_window hwin
  · have hm : (num * 8 + 5) % 8 = 5 := by omega
    simp [wtVarint, wtFixed32, tagWireMask, hm]
    rw [← hl]; exact skip_window hwin
  · have hm : (num * 8 + 2) % 8 = 2 := by omega
    rw [List.append_assoc] at hwin
    obtain ⟨_, hw1⟩ := St.window_after hwin
    have hmod : body.length % 4294967296 = body.length := Nat.mod_eq_of_lt (by omega)
    have hlt : body.length < 2147483648 := by omega
    simp [wtVarint, wtFixed32, wtFixed64, wtLenDelim, tagWireMask, hm, readVarint_enc (show body.length < 2 ^ 64 by omega) hwin,
      hmod, hlt, skip_window hw1, St.adv_adv]

/-- a number no member has: the whole switch falls through to `consume_unknown_field` and the object is untouched -/
theorem decodeField_unknown (cfg : Cfg) (num tag : Nat) (st : St) : ∀ (fs : Fields) (rec : Val),
    shapeOf fs rec = true → fs.hasNum num = false →
    decodeField cfg fs num tag st rec = match consumeUnknown tag st with
      | some st' => .ok rec st'
      | none => .fail
  | .nil, rec, _, _ => by rw [decodeField]; cases consumeUnknown tag st <;> rfl
  | .cons n t d rest, rec, hs, hn => by
    cases rec <;> simp only [shapeOf, Bool.false_eq_true] at hs
    rename_i x xs
    simp only [Fields.hasNum, Bool.or_eq_false_iff, beq_eq_false_iff_ne] at hn
    simp only [decodeField, hn.1, if_false]
    rw [decodeField_unknown cfg num tag st rest xs hs hn.2]
    cases consumeUnknown tag st <;> rfl

/-- one iteration of the aggregate loop only consumes readable bytes -/
theorem aggBody_adv (dbg : Bool) (fs : Fields) (hfs : wfFields fs = true) (s : St) (a a' : Val) (s' : St) (hs : s.WF)
    (h : (let r := readTag s
      decodeField (Cfg.repaired dbg) fs (r.1 >>> tagFieldShift) r.1 r.2 a) = .ok a' s') : Adv s s' := by
  simp only at h
  unfold readTag at h
  cases hr : readVarint s with
  | ok v s1 =>
    rw [hr] at h
    obtain ⟨k, _, hk, rfl⟩ := readVarint_ok hr
    exact Adv.trans ⟨k, hk, rfl⟩ ((decodeField_spec dbg fs hfs _ _ _ a (St.WF_adv hs hk)).1 a' s' h).1
  | fail s1 =>
    rw [hr] at h
    have h1 := readVarint_fail hr
    exact h1.trans ((decodeField_spec dbg fs hfs _ _ _ a (h1.WF hs)).1 a' s' h).1

/-- **Unknown fields are skipped.**  For an aggregate, a well-formed field whose number no member has (any of
the four wire types protobuf writes) in front of the rest of the input is stepped over: the parse continues exactly
as if it had started after it.  (`d` only needs one entry per member.) -/
theorem agg_skips_unknown (dbg : Bool) (b : Bool) (fs : Fields) (hfs : wfFields fs = true) (num w : Nat)
    (payload rest : Bytes) (d : Val) (hnum : num < 2 ^ 29) (hw : okPayload w payload) (hun : fs.hasNum num = false)
    (hd : shapeOf fs d = true) (st : St) (hwf : st.WF)
    (hwin : st.window = encVarint (num * 8 + w) ++ payload ++ rest) :
    decode (Cfg.repaired dbg) (.agg b fs) st d =
      decode (Cfg.repaired dbg) (.agg b fs) (st.adv (encVarint (num * 8 + w) ++ payload).length) d := by
  have hw8 : w < 8 := by rcases hw with ⟨rfl, _⟩ | ⟨rfl, _⟩ | ⟨rfl, _⟩ | ⟨rfl, _⟩ <;> omega
  have htag : num * 8 + w < 2 ^ 32 := by omega
  rw [List.append_assoc] at hwin
  have hr := readVarint_enc (show num * 8 + w < 2 ^ 64 by omega) hwin
  obtain ⟨hk, hw1⟩ := St.window_after hwin
  have hcu := consumeUnknown_payload num w payload rest hw _ hw1
  obtain ⟨hk2, _⟩ := St.window_after hw1
  rw [St.avail_adv st _ hk] at hk2
  have hpos : 0 < (encVarint (num * 8 + w)).length := encVarint_length_pos _
  rw [decode, decode]
  have hfuel : fuelOf st = (fuelOf st - 1) + 1 := by unfold fuelOf; omega
  rw [hfuel, loopN]
  have hav : 0 < st.avail := by omega
  have hb : st.hasBytes = true := by simp [St.hasBytes, hav]
  have hshift : (num * 8 + w) >>> tagFieldShift = num := by
    have : tagFieldShift = 3 := rfl
    rw [this, Nat.shiftRight_eq_div_pow]; omega
  simp only [hb, if_true, readTag, hr, Nat.mod_eq_of_lt htag, hshift]
  rw [decodeField_unknown _ num _ _ fs d hd hun, hcu]
  simp only [St.adv_adv, List.length_append]
  have hnle : ¬ (st.adv ((encVarint (num * 8 + w)).length + payload.length)).pos ≤ st.pos := by
    simp only [St.adv_pos]; omega
  simp only [hnle, if_false]
  have hk3 : (encVarint (num * 8 + w)).length + payload.length ≤ st.avail := by omega
  have hle := st.avail_le_length
  exact loopN_fuel St.hasBytes _
    (fun s a hs _ a' s' e => aggBody_adv dbg fs hfs s a a' s' hs e) (fuelOf st - 1)
    (fuelOf (st.adv ((encVarint (num * 8 + w)).length + payload.length)))
    (st.adv ((encVarint (num * 8 + w)).length + payload.length)) d (St.WF_adv hwf hk3)
    (by simp only [fuelOf, St.adv_bs, List.length_drop]; omega)
    (by simp only [fuelOf, St.adv_bs, List.length_drop]; omega)

/-- **A field parse touches only its own member**: when the tag carries the number of the member at some position,
every other entry of the object (those before, `rpre`, and after, `xs`) is left as it was. -/
theorem field_touches_only_its_member (cfg : Cfg) (n : Nat) (t : Ty) (d0 : Val) (pre rest : Fields) (tag : Nat)
    (st : St) (rpre x xs : Val) (hs : shapeOf pre rpre = true) (hn : pre.hasNum n = false) (r : Val) (st' : St)
    (h : decodeField cfg (pre.app (.cons n t d0 rest)) n tag st (rpre.app (.cons x xs)) = .ok r st') :
    ∃ x', r = rpre.app (.cons x' xs) ∧ fieldWith cfg t.wire tag (decode cfg t) st x = .ok x' st' := by
  rw [decodeField_at cfg n t d0 rest tag st x xs pre rpre hs hn] at h
  cases hf : fieldWith cfg t.wire tag (decode cfg t) st x with
  | ok x' s2 => rw [hf] at h; cases h; exact ⟨x', rfl, rfl⟩
  | fail => rw [hf] at h; cases h
  | noret => rw [hf] at h; cases h

/-- **Absent fields keep their defaults**: an aggregate parsed from an input with no readable byte is left exactly
as it was (every member keeps the value / default it had). -/
theorem agg_empty_input (cfg : Cfg) (b : Bool) (fs : Fields) (st : St) (d : Val) (h : st.avail = 0) :
    decode cfg (.agg b fs) st d = .ok d st := by
  rw [decode]
  unfold fuelOf
  rw [loopN]
  simp [St.hasBytes, h]

end Babylon.Wire
