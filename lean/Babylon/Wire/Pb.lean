/-
  protobuf's own wire encoding of the field kinds that docs/serialization documents as compatible:
  optional bool / int32 / int64 / uint32 / uint64 / float / double / enum / string / bytes / message and
  packed repeated bool / int32 / int64 / uint32 / uint64 / float / double / enum (proto2, every optional field set).
  Written from the protobuf encoding rules, independently of babylon's `encode`:
    * int32 / int64 / enum are sign-extended to 64 bits before the varint (a negative int32 takes 10 bytes, where
      babylon writes 5), uint32 / uint64 / bool are written as they are
    * a set optional field is written even when its payload is empty; an empty packed repeated field is omitted
  Core Lean only.
-/
import Babylon.Wire.Codec

namespace Babylon.Wire
open Babylon.Gen.Wire

/-- scalar kinds of the compatibility table (`int32_t/int64_t/uint32_t/uint64_t`, bool, float, double, an enum with
underlying `int32_t`) -/
def compatScalar : Ty → Bool
  | .bool | .f32 | .f64 => true
  | .int b _ => b == 32 || b == 64
  | .enum b s => b == 32 && s
  | _ => false

mutual
/-- members of a compatible struct: a scalar, a string, a nested compatible struct, a vector of scalars -/
def compatTy : Ty → Bool
  | .str => true
  | .vec t => compatScalar t
  | .agg _ fs => compatFields fs
  | t => compatScalar t
def compatFields : Fields → Bool
  | .nil => true
  | .cons _ t _ rest => compatTy t && compatFields rest
end

/-- protobuf's varint / fixed encoding of a scalar -/
def pbScalar : Ty → Nat → Bytes
  | .bool, n => encVarint (if n = 0 then 0 else 1)
  | .int b s, n => encVarint (sext b 64 s n)
  | .enum b s, n => encVarint (sext b 64 s n)
  | .f32, n => encFixed 4 n
  | .f64, n => encFixed 8 n
  | _, _ => []

def Ty.isVec : Ty → Bool
  | .vec _ => true
  | _ => false

/-- one field: tag, length for the length-delimited kinds, payload; an empty packed repeated field is not written -/
def pbField (num : Nat) (t : Ty) (b : Bytes) : Bytes :=
  if t.isVec && b.isEmpty then []
  else encVarint (mkTag num t) ++ (if t.isLD then encVarint b.length ++ b else b)

mutual
def pbEncode : Ty → Val → Bytes
  | .str, .bytes b => b
  | .vec t, v => catSeq (fun x => match x with | .num n => pbScalar t n | _ => []) v
  | .agg _ fs, v => pbEncodeFields fs v
  | t, .num n => pbScalar t n
  | _, _ => []
def pbEncodeFields : Fields → Val → Bytes
  | .cons num t _ rest, .cons x xs => pbField num t (pbEncode t x) ++ pbEncodeFields rest xs
  | _, _ => []
end

end Babylon.Wire
