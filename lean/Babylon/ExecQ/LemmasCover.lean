import Babylon.ExecQ.LemmasQueue
namespace Babylon.ExecQ
open Babylon.Core Babylon.Gen.ExecQ

theorem Pc.owner_of_consumer {p : Pc} (h : p.consumer = true) : p.owner = true := by
  cases p <;> simp [Pc.consumer] at h <;> rfl

/-- Invariant C (coverage; needs the size check of repair 0c66556): whenever `_events` is 0 and no
refused launch is outstanding, no index that is still in the queue has been signalled — so every such
index belongs to a producer that is still inside `execute`, before its `fetch_add`.  The consumer may
only be about to win its exit CAS if the same holds. -/
structure InvC (s : State) : Prop where
  cov : s.debt = false → s.events = 0 → ∀ i, s.head ≤ i → s.sig i = false
  exit : ∀ t k ev, s.pc t = .cExit k ev → s.events = ev → ∀ i, s.head ≤ i → s.sig i = false
  debtRef : s.debt = true → 0 < s.refusals
  rbRef : ∀ t ev otk, s.pc t = .pRollback ev otk → 0 < s.refusals

theorem InvC.frame {s s' : State} (hi : InvC s) (t : Nat) (p' : Pc)
    (hpc : s'.pc = upd s.pc t p') (hh : s.head ≤ s'.head) (hev : s'.events = s.events) (hsig : s'.sig = s.sig)
    (hd : s'.debt = s.debt) (hr : s.refusals ≤ s'.refusals) (n1 : ∀ k ev, p' ≠ .cExit k ev)
    (n2 : ∀ ev otk, p' ≠ .pRollback ev otk) : InvC s' := by
  obtain ⟨cov, exit, debtRef, rbRef⟩ := hi
  refine ⟨?_, ?_, ?_, ?_⟩
  · rw [hd, hev, hsig]; intro h1 h2 i hi; exact cov h1 h2 i (by omega)
  · intro a k ev h
    rw [hpc, upd_apply] at h
    rw [hev, hsig]
    split at h
    · exact absurd h (n1 k ev)
    · intro h2 i hi; exact exit a k ev h h2 i (by omega)
  · rw [hd]; intro h; have := debtRef h; omega
  · intro a ev otk h
    rw [hpc, upd_apply] at h
    split at h
    · exact absurd h (n2 ev otk)
    · have := rbRef a ev otk h; omega

theorem invC_init : InvC State.init := by
  refine ⟨?_, ?_, ?_, ?_⟩ <;> simp [State.init]

theorem invC_tstep {c : Cfg} (hc : c.sizeCheck = true) {s s' : State} {t : Nat} (ho : InvO s) (hq : InvQ s)
    (hi : InvC s) (h : TStep c s t s') : InvC s' := by
  cases h with
  | ticket v hpc => exact hi.frame t _ rfl (Nat.le_refl _) rfl rfl rfl (Nat.le_refl _) (by simp) (by simp)
  | publish it tk hpc hlt => exact hi.frame t _ rfl (Nat.le_refl _) rfl rfl rfl (Nat.le_refl _) (by simp) (by simp)
  | refuse ev otk hpc =>
    obtain ⟨cov, exit, debtRef, rbRef⟩ := hi
    refine ⟨cov, ?_, fun _ => Nat.succ_pos _, fun _ _ _ _ => Nat.succ_pos _⟩
    intro a k ev' h
    simp only [upd_apply] at h
    split at h
    · cases h
    · exact exit a k ev' h
  | acceptInl ev otk hpc => exact hi.frame t _ rfl (Nat.le_refl _) rfl rfl rfl (Nat.le_refl _) (by simp) (by simp)
  | acceptAsync ev otk hpc => exact hi.frame t _ rfl (Nat.le_refl _) rfl rfl rfl (Nat.le_refl _) (by simp) (by simp)
  | rollbackFail ev otk hpc hne => exact hi.frame t _ rfl (Nat.le_refl _) rfl rfl rfl (Nat.le_refl _) (by simp) (by simp)
  | load0 k hpc => exact hi.frame t _ rfl (Nat.le_refl _) rfl rfl rfl (Nat.le_refl _) (by simp) (by simp)
  | pop0 k ev hpc hp =>
    exact hi.frame t _ rfl (Nat.le_refl _) rfl rfl rfl (Nat.le_refl _) (by rw [hc]; simp) (by rw [hc]; simp)
  | popK k ev got n hpc hp => exact hi.frame t _ rfl (Nat.le_add_right _ _) rfl rfl rfl (Nat.le_refl _) (by simp) (by simp)
  | reload k ev hpc => exact hi.frame t _ rfl (Nat.le_refl _) rfl rfl rfl (Nat.le_refl _) (by simp) (by simp)
  | cbBegin k ev b hpc => exact hi.frame t _ rfl (Nat.le_refl _) rfl rfl rfl (Nat.le_refl _) (by simp) (by simp)
  | cbItem k ev b rest hpc => exact hi.frame t _ rfl (Nat.le_refl _) rfl rfl rfl (Nat.le_refl _) (by simp) (by simp)
  | cbEnd k ev hpc => exact hi.frame t _ rfl (Nat.le_refl _) rfl rfl rfl (Nat.le_refl _) (by simp) (by simp)
  | exitFail k ev hpc hne => exact hi.frame t _ rfl (Nat.le_refl _) rfl rfl rfl (Nat.le_refl _) (by simp) (by simp)
  | joinRet snap hpc he => exact hi.frame t _ rfl (Nat.le_refl _) rfl rfl rfl (Nat.le_refl _) (by simp) (by simp)
  | joinSpin snap hpc he => exact hi
  | size k ev hpc =>
    by_cases hte : s.tail = s.head
    · -- the queue holds no index at all: whatever is handed out later has not been signalled
      obtain ⟨cov, exit, debtRef, rbRef⟩ := hi
      have hall : ∀ i, s.head ≤ i → s.sig i = false := by
        intro i hi
        cases hs : s.sig i
        · rfl
        · have := hq.pub_lt i (hq.sig_pub i hs); omega
      refine ⟨cov, ?_, debtRef, ?_⟩
      · intro a k' ev' h h2 i hi
        exact hall i hi
      · intro a ev' otk h
        simp only [upd_apply] at h
        split at h
        · simp at h
        · exact rbRef a ev' otk h
    · exact hi.frame t _ rfl (Nat.le_refl _) rfl rfl rfl (Nat.le_refl _) (by simp [hte]) (by simp [hte])
  | signalLaunch otk hpc h0 =>
    obtain ⟨cov, exit, debtRef, rbRef⟩ := hi
    refine ⟨?_, ?_, debtRef, ?_⟩
    · intro _ h; simp at h
    · intro a k ev h
      simp only [upd_apply] at h
      split at h
      · cases h
      · have := ho.pos a (by rw [h]; rfl); omega
    · intro a ev otk' h
      simp only [upd_apply] at h
      split at h
      · cases h
      · exact rbRef a ev otk' h
  | signalRet otk hpc hne =>
    obtain ⟨cov, exit, debtRef, rbRef⟩ := hi
    refine ⟨?_, ?_, debtRef, ?_⟩
    · intro _ h; simp at h
    · intro a k ev h
      simp only [upd_apply] at h
      split at h
      · cases h
      · have := ho.le a ev (by rw [h]; rfl)
        intro h2; simp only at h2; omega
    · intro a ev otk' h
      simp only [upd_apply] at h
      split at h
      · cases h
      · exact rbRef a ev otk' h
  | rollbackOk ev otk hpc he =>
    obtain ⟨cov, exit, debtRef, rbRef⟩ := hi
    have hr : 0 < s.refusals := rbRef t ev otk hpc
    refine ⟨?_, ?_, fun _ => hr, fun _ _ _ _ => hr⟩
    · intro h; simp at h
    · intro a k ev' h
      simp only [upd_apply] at h
      split at h
      · cases h
      · next hat => exact absurd (ho.uniq a t (by rw [h]; rfl) (by rw [hpc]; rfl)) hat
  | exitOk k ev hpc he =>
    obtain ⟨cov, exit, debtRef, rbRef⟩ := hi
    refine ⟨?_, ?_, ?_, ?_⟩
    · intro _ _ i hi; exact exit t k ev hpc he i hi
    · intro a k' ev' h
      simp only [upd_apply] at h
      split at h
      · cases h
      · next hat => exact absurd (ho.uniq a t (by rw [h]; rfl) (by rw [hpc]; rfl)) hat
    · intro h; simp at h
    · intro a ev' otk h
      simp only [upd_apply] at h
      split at h
      · cases h
      · exact rbRef a ev' otk h


theorem invC_any {c : Cfg} (hc : c.sizeCheck = true) {s s' : State} (ho : InvO s) (hq : InvQ s)
    (hi : InvC s) (h : AnyStep c s s') : InvC s' := by
  cases h with
  | thread t s' h => exact invC_tstep hc ho hq hi h
  | execute t v hpc => exact hi.frame t _ rfl (Nat.le_refl _) rfl rfl rfl (Nat.le_refl _) (by simp) (by simp)
  | signal t hpc => exact hi.frame t _ rfl (Nat.le_refl _) rfl rfl rfl (Nat.le_refl _) (by simp) (by simp)
  | join t hpc => exact hi.frame t _ rfl (Nat.le_refl _) rfl rfl rfl (Nat.le_refl _) (by simp) (by simp)
  | start t hpc hl => exact hi.frame t _ rfl (Nat.le_refl _) rfl rfl rfl (Nat.le_refl _) (by simp) (by simp)

end Babylon.ExecQ
