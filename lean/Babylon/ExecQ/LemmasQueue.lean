/-
  Invariant Q of the execution-queue model: structure of the abstract bounded queue (indices handed out
  once, published by their holder, popped only when published) and of the ghost bookkeeping that links
  an index to the thread pushing it (`holder`) and to that thread's `_events.fetch_add` (`sig`).
-/
import Babylon.ExecQ.LemmasOwner
namespace Babylon.ExecQ
open Babylon.Core Babylon.Gen.ExecQ

theorem prefixPub_iff {s : State} {n : Nat} : prefixPub s n = true ↔ ∀ j, j < n → s.pub (s.head + j) = true := by
  simp [prefixPub, List.all_eq_true, List.mem_range]

structure InvQ (s : State) : Prop where
  ht : s.head ≤ s.tail
  pub_lt : ∀ i, s.pub i = true → i < s.tail
  head_pub : ∀ i, i < s.head → s.pub i = true
  sig_pub : ∀ i, s.sig i = true → s.pub i = true
  tick_some : ∀ i, i < s.tail → ∃ it, s.tick i = some it
  tick_none : ∀ i, s.tail ≤ i → s.tick i = none
  pp : ∀ t it tk, s.pc t = .pPublish it tk → tk < s.tail ∧ s.pub tk = false ∧ s.tick tk = some it ∧ s.holder tk = t
  ps : ∀ t tk, s.pc t = .pSignal (some tk) → s.pub tk = true ∧ s.sig tk = false ∧ s.holder tk = t
  otk : ∀ t tk, (s.pc t).otk = some tk → s.sig tk = true
  conv : ∀ i, i < s.tail → s.sig i = false →
    (∃ it, s.pc (s.holder i) = .pPublish it i) ∨ s.pc (s.holder i) = .pSignal (some i)

theorem InvQ.frame {s s' : State} (hi : InvQ s) (t : Nat) (p' : Pc)
    (hpc : s'.pc = upd s.pc t p') (hht : s'.head ≤ s.tail) (hhp : ∀ i, i < s'.head → s.pub i = true) (htl : s'.tail = s.tail) (hpub : s'.pub = s.pub)
    (hsig : s'.sig = s.sig) (htick : s'.tick = s.tick) (hhold : s'.holder = s.holder)
    (n1 : ∀ it tk, p' ≠ .pPublish it tk) (n2 : ∀ tk, p' ≠ .pSignal (some tk))
    (n3 : ∀ tk, p'.otk = some tk → s.sig tk = true)
    (o1 : ∀ it tk, s.pc t ≠ .pPublish it tk) (o2 : ∀ tk, s.pc t ≠ .pSignal (some tk)) : InvQ s' := by
  obtain ⟨ht, pub_lt, head_pub, sig_pub, tick_some, tick_none, pp, ps, otk, conv⟩ := hi
  refine ⟨?_, ?_, ?_, ?_, ?_, ?_, ?_, ?_, ?_, ?_⟩
  · rw [htl]; exact hht
  · rw [hpub, htl]; exact pub_lt
  · rw [hpub]; exact hhp
  · rw [hpub, hsig]; exact sig_pub
  · rw [htick, htl]; exact tick_some
  · rw [htick, htl]; exact tick_none
  · intro a it tk h
    rw [hpc, upd_apply] at h
    rw [htl, hpub, htick, hhold]
    split at h
    · exact absurd h (n1 it tk)
    · exact pp a it tk h
  · intro a tk h
    rw [hpc, upd_apply] at h
    rw [hpub, hsig, hhold]
    split at h
    · exact absurd h (n2 tk)
    · exact ps a tk h
  · intro a tk h
    rw [hpc, upd_apply] at h
    rw [hsig]
    split at h
    · exact n3 tk h
    · exact otk a tk h
  · intro i hlt hs
    rw [htl] at hlt; rw [hsig] at hs
    rw [hhold, hpc]
    have hne : s.holder i ≠ t := by
      intro he
      rcases conv i hlt hs with ⟨it, h⟩ | h
      · rw [he] at h; exact o1 it i h
      · rw [he] at h; exact o2 i h
    rw [upd_ne _ _ hne]
    exact conv i hlt hs


theorem Pc.otk_idle : Pc.idle.otk = none := rfl

theorem invQ_init : InvQ State.init := by
  refine ⟨?_, ?_, ?_, ?_, ?_, ?_, ?_, ?_, ?_, ?_⟩ <;> simp [State.init, Pc.otk]

theorem invQ_tstep {c : Cfg} {s s' : State} {t : Nat} (hi : InvQ s) (h : TStep c s t s') : InvQ s' := by
  have fr : ∀ (p' : Pc) (s' : State), s'.pc = upd s.pc t p' → s'.head = s.head → s'.tail = s.tail → s'.pub = s.pub →
      s'.sig = s.sig → s'.tick = s.tick → s'.holder = s.holder →
      (∀ it tk, p' ≠ .pPublish it tk) → (∀ tk, p' ≠ .pSignal (some tk)) → (p'.otk = (s.pc t).otk ∨ p'.otk = none) →
      (∀ it tk, s.pc t ≠ .pPublish it tk) → (∀ tk, s.pc t ≠ .pSignal (some tk)) → InvQ s' := by
    intro p' s' h1 h2 h3 h4 h5 h6 h7 n1 n2 n3 o1 o2
    refine hi.frame t p' h1 (by rw [h2]; exact hi.ht) (by rw [h2]; exact hi.head_pub) h3 h4 h5 h6 h7 n1 n2 ?_ o1 o2
    intro tk htk
    rcases n3 with n3 | n3
    · exact hi.otk t tk (by rw [← n3]; exact htk)
    · rw [n3] at htk; cases htk
  cases h with
  | refuse ev otk hpc => exact fr _ _ rfl rfl rfl rfl rfl rfl rfl (by simp) (by simp) (by rw [hpc]; exact .inl rfl) (by simp [hpc]) (by simp [hpc])
  | acceptInl ev otk hpc => exact fr _ _ rfl rfl rfl rfl rfl rfl rfl (by simp) (by simp) (by rw [hpc]; exact .inl rfl) (by simp [hpc]) (by simp [hpc])
  | acceptAsync ev otk hpc => exact fr _ _ rfl rfl rfl rfl rfl rfl rfl (by simp) (by simp) (.inr rfl) (by simp [hpc]) (by simp [hpc])
  | rollbackOk ev otk hpc he => exact fr _ _ rfl rfl rfl rfl rfl rfl rfl (by simp) (by simp) (.inr rfl) (by simp [hpc]) (by simp [hpc])
  | rollbackFail ev otk hpc hne => exact fr _ _ rfl rfl rfl rfl rfl rfl rfl (by simp) (by simp) (by rw [hpc]; exact .inl rfl) (by simp [hpc]) (by simp [hpc])
  | load0 k hpc => exact fr _ _ rfl rfl rfl rfl rfl rfl rfl (by simp) (by simp) (by rw [hpc]; exact .inl rfl) (by simp [hpc]) (by simp [hpc])
  | pop0 k ev hpc hp =>
    exact fr _ _ rfl rfl rfl rfl rfl rfl rfl (by cases c.sizeCheck <;> simp) (by cases c.sizeCheck <;> simp)
      (by rw [hpc]; cases c.sizeCheck <;> exact .inl rfl) (by simp [hpc]) (by simp [hpc])
  | reload k ev hpc => exact fr _ _ rfl rfl rfl rfl rfl rfl rfl (by simp) (by simp) (by rw [hpc]; exact .inl rfl) (by simp [hpc]) (by simp [hpc])
  | cbBegin k ev b hpc => exact fr _ _ rfl rfl rfl rfl rfl rfl rfl (by simp) (by simp) (by rw [hpc]; exact .inl rfl) (by simp [hpc]) (by simp [hpc])
  | cbItem k ev b rest hpc => exact fr _ _ rfl rfl rfl rfl rfl rfl rfl (by simp) (by simp) (by rw [hpc]; exact .inl rfl) (by simp [hpc]) (by simp [hpc])
  | cbEnd k ev hpc => exact fr _ _ rfl rfl rfl rfl rfl rfl rfl (by simp) (by simp) (by rw [hpc]; exact .inl rfl) (by simp [hpc]) (by simp [hpc])
  | size k ev hpc =>
    exact fr _ _ rfl rfl rfl rfl rfl rfl rfl (by split <;> simp) (by split <;> simp)
      (by rw [hpc]; split <;> exact .inl rfl) (by simp [hpc]) (by simp [hpc])
  | exitOk k ev hpc he => exact fr _ _ rfl rfl rfl rfl rfl rfl rfl (by simp) (by simp) (.inr rfl) (by simp [hpc]) (by simp [hpc])
  | exitFail k ev hpc hne => exact fr _ _ rfl rfl rfl rfl rfl rfl rfl (by simp) (by simp) (by rw [hpc]; exact .inl rfl) (by simp [hpc]) (by simp [hpc])
  | joinRet snap hpc he => exact fr _ _ rfl rfl rfl rfl rfl rfl rfl (by simp) (by simp) (.inr rfl) (by simp [hpc]) (by simp [hpc])
  | joinSpin snap hpc he => exact hi
  | popK k ev got n hpc hp =>
    rw [prefixPub_iff] at hp
    refine hi.frame t _ rfl ?_ ?_ rfl rfl rfl rfl rfl (by simp) (by simp) ?_ (by simp [hpc]) (by simp [hpc])
    · have := hi.pub_lt _ (hp n (by omega)); show s.head + (n + 1) ≤ s.tail; omega
    · intro i hlt
      by_cases h : i < s.head
      · exact hi.head_pub i h
      · have := hp (i - s.head) (by simp only at hlt; omega)
        rwa [show s.head + (i - s.head) = i by omega] at this
    · intro tk htk; exact hi.otk t tk (by rw [hpc]; exact htk)
  | ticket v hpc =>
    obtain ⟨ht, pub_lt, head_pub, sig_pub, tick_some, tick_none, pp, ps, otk, conv⟩ := hi
    refine ⟨?_, ?_, ?_, ?_, ?_, ?_, ?_, ?_, ?_, ?_⟩
    · show s.head ≤ s.tail + 1; omega
    · intro i hi; have := pub_lt i hi; show i < s.tail + 1; omega
    · exact head_pub
    · exact sig_pub
    · intro i hlt
      simp only [upd_apply]
      split
      · exact ⟨_, rfl⟩
      · exact tick_some i (by simp only at hlt; omega)
    · intro i hle
      simp only [upd_apply]
      simp only at hle
      rw [if_neg (by omega)]
      exact tick_none i (by omega)
    · intro a it tk h
      simp only [upd_apply] at h ⊢
      split at h
      · next hat =>
        simp only [Pc.pPublish.injEq] at h
        obtain ⟨rfl, rfl⟩ := h
        refine ⟨by omega, ?_, by simp, by simp [hat]⟩
        cases hp : s.pub s.tail
        · rfl
        · have := pub_lt _ hp; omega
      · next hat =>
        obtain ⟨h1, h2, h3, h4⟩ := pp a it tk h
        have : tk ≠ s.tail := by omega
        exact ⟨by omega, h2, by simp [this, h3], by simp [this, h4]⟩
    · intro a tk h
      simp only [upd_apply] at h ⊢
      split at h
      · cases h
      · obtain ⟨h1, h2, h3⟩ := ps a tk h
        have := pub_lt tk h1
        have : tk ≠ s.tail := by omega
        exact ⟨h1, h2, by simp [this, h3]⟩
    · intro a tk h
      simp only [upd_apply] at h
      split at h
      · simp [Pc.otk] at h
      · exact otk a tk h
    · intro i hlt hs
      simp only at hlt hs
      simp only [upd_apply]
      by_cases hit : i = s.tail
      · subst hit; simp
      · have hlt' : i < s.tail := by omega
        have hne : s.holder i ≠ t := by
          intro he
          rcases conv i hlt' hs with ⟨it, h⟩ | h <;> rw [he, hpc] at h <;> cases h
        simp only [hit, if_false, hne]
        exact conv i hlt' hs
  | publish it tk hpc hlt =>
    obtain ⟨ht, pub_lt, head_pub, sig_pub, tick_some, tick_none, pp, ps, otk, conv⟩ := hi
    obtain ⟨p1, p2, p3, p4⟩ := pp t it tk hpc
    refine ⟨ht, ?_, ?_, ?_, tick_some, tick_none, ?_, ?_, ?_, ?_⟩
    · intro i hi
      simp only [upd_apply] at hi
      split at hi
      · next h => rw [h]; exact p1
      · exact pub_lt i hi
    · intro i hi; simp only [upd_apply]; split
      · rfl
      · exact head_pub i hi
    · intro i hi; simp only [upd_apply]; split
      · rfl
      · exact sig_pub i hi
    · intro a it' tk' h
      simp only [upd_apply] at h ⊢
      split at h
      · cases h
      · next hat =>
        obtain ⟨h1, h2, h3, h4⟩ := pp a it' tk' h
        have : tk' ≠ tk := by intro he; rw [he, p4] at h4; exact hat h4.symm
        exact ⟨h1, by simp [this, h2], h3, h4⟩
    · intro a tk' h
      simp only [upd_apply] at h ⊢
      split at h
      · next hat =>
        simp only [Pc.pSignal.injEq, Option.some.injEq] at h
        subst h
        refine ⟨by simp, ?_, by rw [p4, hat]⟩
        cases hs : s.sig tk
        · rfl
        · have := sig_pub _ hs; rw [p2] at this; cases this
      · obtain ⟨h1, h2, h3⟩ := ps a tk' h
        refine ⟨by split <;> simp [h1], h2, h3⟩
    · intro a tk' h
      simp only [upd_apply] at h
      split at h
      · simp [Pc.otk] at h
      · exact otk a tk' h
    · intro i hlt' hs
      simp only at hlt' hs
      simp only [upd_apply]
      by_cases he : s.holder i = t
      · rw [if_pos he]
        rcases conv i hlt' hs with ⟨it', h⟩ | h <;> rw [he, hpc] at h
        · simp only [Pc.pPublish.injEq] at h; rw [h.2]; exact .inr rfl
        · cases h
      · rw [if_neg he]; exact conv i hlt' hs
  | signalLaunch otk hpc h0 =>
    cases otk with
    | none =>
      exact fr _ _ rfl rfl rfl rfl rfl rfl rfl (by simp) (by simp) (.inr rfl) (by simp [hpc]) (by simp [hpc])
    | some tk =>
      obtain ⟨ht, pub_lt, head_pub, sig_pub, tick_some, tick_none, pp, ps, otk, conv⟩ := hi
      obtain ⟨p1, p2, p3⟩ := ps t tk hpc
      refine ⟨ht, pub_lt, head_pub, ?_, tick_some, tick_none, ?_, ?_, ?_, ?_⟩
      · intro i hi; simp only [setSig, upd_apply] at hi; split at hi
        · next h => rw [h]; exact p1
        · exact sig_pub i hi
      · intro a it' tk' h
        simp only [upd_apply] at h
        split at h
        · cases h
        · exact pp a it' tk' h
      · intro a tk' h
        simp only [upd_apply] at h
        split at h
        · cases h
        · next hat =>
          obtain ⟨h1, h2, h3⟩ := ps a tk' h
          have : tk' ≠ tk := by intro he; rw [he, p3] at h3; exact hat h3.symm
          exact ⟨h1, by simp [setSig, upd_apply, this, h2], h3⟩
      · intro a tk' h
        simp only [upd_apply] at h
        simp only [setSig, upd_apply]
        split at h
        · simp only [Pc.otk, Option.some.injEq] at h; simp [h]
        · split
          · rfl
          · exact otk a tk' h
      · intro i hlt' hs
        simp only [setSig, upd_apply] at hlt' hs
        simp only [upd_apply]
        split at hs
        · cases hs
        · next hit =>
          have hne : s.holder i ≠ t := by
            intro he
            rcases conv i hlt' hs with ⟨it', h⟩ | h <;> rw [he, hpc] at h
            · cases h
            · simp only [Pc.pSignal.injEq, Option.some.injEq] at h; exact hit h.symm
          rw [if_neg hne]; exact conv i hlt' hs
  | signalRet otk hpc hne =>
    cases otk with
    | none =>
      exact fr _ _ rfl rfl rfl rfl rfl rfl rfl (by simp) (by simp) (.inr rfl) (by simp [hpc]) (by simp [hpc])
    | some tk =>
      obtain ⟨ht, pub_lt, head_pub, sig_pub, tick_some, tick_none, pp, ps, otk, conv⟩ := hi
      obtain ⟨p1, p2, p3⟩ := ps t tk hpc
      refine ⟨ht, pub_lt, head_pub, ?_, tick_some, tick_none, ?_, ?_, ?_, ?_⟩
      · intro i hi; simp only [setSig, upd_apply] at hi; split at hi
        · next h => rw [h]; exact p1
        · exact sig_pub i hi
      · intro a it' tk' h
        simp only [upd_apply] at h
        split at h
        · cases h
        · exact pp a it' tk' h
      · intro a tk' h
        simp only [upd_apply] at h
        split at h
        · cases h
        · next hat =>
          obtain ⟨h1, h2, h3⟩ := ps a tk' h
          have : tk' ≠ tk := by intro he; rw [he, p3] at h3; exact hat h3.symm
          exact ⟨h1, by simp [setSig, upd_apply, this, h2], h3⟩
      · intro a tk' h
        simp only [upd_apply] at h
        simp only [setSig, upd_apply]
        split at h
        · simp [Pc.otk] at h
        · split
          · rfl
          · exact otk a tk' h
      · intro i hlt' hs
        simp only [setSig, upd_apply] at hlt' hs
        simp only [upd_apply]
        split at hs
        · cases hs
        · next hit =>
          have hne : s.holder i ≠ t := by
            intro he
            rcases conv i hlt' hs with ⟨it', h⟩ | h <;> rw [he, hpc] at h
            · cases h
            · simp only [Pc.pSignal.injEq, Option.some.injEq] at h; exact hit h.symm
          rw [if_neg hne]; exact conv i hlt' hs

theorem invQ_any {c : Cfg} {s s' : State} (hi : InvQ s) (h : AnyStep c s s') : InvQ s' := by
  cases h with
  | thread t s' h => exact invQ_tstep hi h
  | execute t v hpc =>
    exact hi.frame t _ rfl hi.ht hi.head_pub rfl rfl rfl rfl rfl (by simp) (by simp) (by simp [Pc.otk]) (by simp [hpc]) (by simp [hpc])
  | signal t hpc =>
    exact hi.frame t _ rfl hi.ht hi.head_pub rfl rfl rfl rfl rfl (by simp) (by simp) (by simp [Pc.otk]) (by simp [hpc]) (by simp [hpc])
  | join t hpc =>
    exact hi.frame t _ rfl hi.ht hi.head_pub rfl rfl rfl rfl rfl (by simp) (by simp) (by simp [Pc.otk]) (by simp [hpc]) (by simp [hpc])
  | start t hpc hl =>
    exact hi.frame t _ rfl hi.ht hi.head_pub rfl rfl rfl rfl rfl (by simp) (by simp) (by simp [Pc.otk, Kont.otk]) (by simp [hpc]) (by simp [hpc])

end Babylon.ExecQ
