/-
  Enabledness facts for the progress theorem `eq_no_deadlock`: which program counters always have a step,
  and when a publisher is blocked.
-/
import Babylon.ExecQ.LemmasInv

namespace Babylon.ExecQ
open Babylon.Core Babylon.Gen.ExecQ

/-- thread `t` can take a step (under some input) -/
def Enabled (c : Cfg) (s : State) (t : Nat) : Prop := ∃ inp, (stepThread c s t inp).isSome = true

theorem enabled_cPop (c : Cfg) (s : State) (t : Nat) (k : Kont) (ev : Nat) (got : Bool)
    (hpc : s.pc t = .cPop k ev got) : Enabled c s t := by
  cases got with
  | true => exact ⟨.reload, by simp [stepThread, hpc]⟩
  | false =>
    cases hp : s.pub s.head with
    | false => exact ⟨.pop 0, by simp [stepThread, hpc, hp]⟩
    | true =>
      refine ⟨.pop 1, ?_⟩
      have : prefixPub s (0 + 1) = true := by simp [prefixPub, hp]
      simp [stepThread, hpc, this]

/-- an owner of the `_events ≠ 0` episode is never blocked -/
theorem enabled_owner (c : Cfg) (s : State) (t : Nat) (h : (s.pc t).owner = true) : Enabled c s t := by
  cases hpc : s.pc t <;> rw [hpc] at h <;> simp [Pc.owner] at h
  case pLaunch ev otk => exact ⟨.launch .inl, by simp [stepThread, hpc]⟩
  case pRollback ev otk =>
    by_cases he : s.events = ev
    · exact ⟨.none, by simp [stepThread, hpc, he]⟩
    · exact ⟨.none, by simp [stepThread, hpc, he]⟩
  case c0 k => exact ⟨.none, by simp [stepThread, hpc]⟩
  case cPop k ev got => exact enabled_cPop c s t k ev got hpc
  case cCb k ev b st =>
    cases st with
    | false => exact ⟨.none, by simp [stepThread, hpc]⟩
    | true =>
      cases b with
      | nil => exact ⟨.none, by simp [stepThread, hpc]⟩
      | cons x xs => exact ⟨.none, by simp [stepThread, hpc]⟩
  case cSize k ev => exact ⟨.none, by simp [stepThread, hpc]⟩
  case cExit k ev =>
    by_cases he : s.events = ev
    · exact ⟨.none, by simp [stepThread, hpc, he]⟩
    · exact ⟨.none, by simp [stepThread, hpc, he]⟩

theorem enabled_publish (c : Cfg) (s : State) (t : Nat) (it : Item) (tk : Nat)
    (hpc : s.pc t = .pPublish it tk) (hlt : tk < s.head + c.cap) : Enabled c s t :=
  ⟨.none, by simp [stepThread, hpc, hlt]⟩

theorem enabled_signal (c : Cfg) (s : State) (t : Nat) (otk : Option Nat)
    (hpc : s.pc t = .pSignal otk) : Enabled c s t := by
  by_cases he : s.events = 0
  · exact ⟨.none, by simp [stepThread, hpc, he]⟩
  · exact ⟨.none, by simp [stepThread, hpc, he]⟩

end Babylon.ExecQ
