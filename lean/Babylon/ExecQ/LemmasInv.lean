/-
  All invariants of the execution-queue model together, and their induction over reachability.
  `InvB` (owner, queue, counting, items) holds for every configuration; `InvC` (coverage) needs the size
  check of repair 0c66556 (`c.sizeCheck = true`).
-/
import Babylon.ExecQ.LemmasItems

namespace Babylon.ExecQ
open Babylon.Core

structure InvB (s : State) : Prop where
  o : InvO s
  q : InvQ s
  n : InvN s
  i : InvI s

/-- states reachable by executions in which `_events` never overflows (`StepN`) -/
abbrev Reach (c : Cfg) : State → Prop := Reachable (· = State.init) (StepN c)
/-- reachable when the executor accepts every launch -/
abbrev ReachA (c : Cfg) : State → Prop := Reachable (· = State.init) (StepAN c)

theorem reach_invB {c : Cfg} {s : State} (h : Reach c s) : InvB s := by
  induction h with
  | base hi => subst hi; exact ⟨invO_init, invQ_init, invN_init, invI_init⟩
  | tail _ hst ih =>
    have ha := hst.1.any hst.2
    exact ⟨invO_any ih.o ha, invQ_any ih.q ha, invN_any ih.o ih.q ih.n ha, invI_any ih.o ih.q ih.i ha⟩

theorem reach_invC {c : Cfg} (hc : c.sizeCheck = true) {s : State} (h : Reach c s) : InvC s := by
  induction h with
  | base hi => subst hi; exact invC_init
  | tail hr hst ih =>
    have hb := reach_invB hr
    exact invC_any hc hb.o hb.q ih (hst.1.any hst.2)

theorem reach_wrapped {c : Cfg} {s : State} (h : Reach c s) : s.wrapped = false := by
  cases h with
  | base hi => subst hi; rfl
  | tail _ hst => exact hst.2

theorem ReachA.reach {c : Cfg} {s : State} (h : ReachA c s) : Reach c s := by
  induction h with
  | base hi => exact .base hi
  | tail _ hst ih => exact .tail ih ⟨hst.1.step, hst.2⟩

/-- without refusals the ghost counter stays 0 -/
theorem reachA_refusals {c : Cfg} {s : State} (h : ReachA c s) : s.refusals = 0 := by
  induction h with
  | base hi => subst hi; rfl
  | tail _ hst ih =>
    obtain ⟨hst, hw⟩ := hst
    cases hst with
    | act t inp s' l h hne =>
      have hs := stepThread_tstep h hw
      cases hs with
      | refuse ev otk hpc =>
        -- the refuse leaf is only produced by input `.launch .refuse`
        exfalso
        unfold stepThread at h
        rw [hpc] at h
        cases inp with
        | launch o =>
          cases o with
          | refuse => exact hne rfl
          | inl =>
            simp only [Option.some.injEq, Prod.mk.injEq] at h
            have := congrArg State.refusals h.1
            simp at this
          | async =>
            simp only [Option.some.injEq, Prod.mk.injEq] at h
            have := congrArg State.refusals h.1
            simp at this
        | none => simp at h
        | pop n => simp at h
        | reload => simp at h
      | joinSpin snap hpc he => exact ih
      | _ => exact ih
    | execute t v h => exact ih
    | signal t h => exact ih
    | join t h => exact ih
    | start t h hl => exact ih

end Babylon.ExecQ
