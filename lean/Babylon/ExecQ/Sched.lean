/-
  Explicit finite executions of the execution-queue model: a list of `Move`s is run by an executable
  function that checks every precondition of `StepA` (the executor never refuses) or `Step`; a
  successful run is a path of the transition system (`runA_reachable`, `run_reachable`).  Used for the
  counterexample on the shape before repair 0c66556 and for the non-vacuity examples.  Core Lean only.
-/
import Babylon.ExecQ.Model
import Babylon.Core.Reach

namespace Babylon.ExecQ
open Babylon.Core

inductive Move
  | act (t : Nat) (inp : Inp)       -- thread `t` performs its next step under input `inp`
  | execute (t v : Nat)             -- idle thread `t` calls `execute(v)`
  | signal (t : Nat)                -- idle thread `t` calls `signal_push_event()`
  | join (t : Nat)                  -- idle thread `t` calls `join()`
  | start (t : Nat)                 -- a queued consumer starts on idle thread `t`
  deriving Repr

def applyMove (c : Cfg) (s : State) : Move → Option State
  | .act t inp => (stepThread c s t inp).map (·.1)
  | .execute t v => if s.pc t = .idle then some (callExecute s t v) else none
  | .signal t => if s.pc t = .idle then some (callSignal s t) else none
  | .join t => if s.pc t = .idle then some (callJoin s t) else none
  | .start t => if s.pc t = .idle ∧ 0 < s.launched then some (startWorker s t) else none

def Move.refuses : Move → Bool
  | .act _ (.launch .refuse) => true
  | _ => false

theorem applyMove_step {c : Cfg} {s s' : State} {m : Move} (h : applyMove c s m = some s') : Step c s s' := by
  cases m with
  | act t inp =>
    simp only [applyMove, Option.map_eq_some_iff] at h
    obtain ⟨⟨s1, l⟩, h1, h2⟩ := h
    simp only at h2; subst h2
    exact Step.act s t inp s1 l h1
  | execute t v =>
    simp only [applyMove] at h
    split at h
    · rename_i hp; simp only [Option.some.injEq] at h; subst h; exact Step.execute s t v hp
    · simp at h
  | signal t =>
    simp only [applyMove] at h
    split at h
    · rename_i hp; simp only [Option.some.injEq] at h; subst h; exact Step.signal s t hp
    · simp at h
  | join t =>
    simp only [applyMove] at h
    split at h
    · rename_i hp; simp only [Option.some.injEq] at h; subst h; exact Step.join s t hp
    · simp at h
  | start t =>
    simp only [applyMove] at h
    split at h
    · rename_i hp; simp only [Option.some.injEq] at h; subst h; exact Step.start s t hp.1 hp.2
    · simp at h

theorem applyMove_stepA {c : Cfg} {s s' : State} {m : Move} (h : applyMove c s m = some s')
    (hr : m.refuses = false) : StepA c s s' := by
  cases m with
  | act t inp =>
    simp only [applyMove, Option.map_eq_some_iff] at h
    obtain ⟨⟨s1, l⟩, h1, h2⟩ := h
    simp only at h2; subst h2
    refine StepA.act s t inp s1 l h1 ?_
    intro he; subst he; simp [Move.refuses] at hr
  | execute t v =>
    simp only [applyMove] at h
    split at h
    · rename_i hp; simp only [Option.some.injEq] at h; subst h; exact StepA.execute s t v hp
    · simp at h
  | signal t =>
    simp only [applyMove] at h
    split at h
    · rename_i hp; simp only [Option.some.injEq] at h; subst h; exact StepA.signal s t hp
    · simp at h
  | join t =>
    simp only [applyMove] at h
    split at h
    · rename_i hp; simp only [Option.some.injEq] at h; subst h; exact StepA.join s t hp
    · simp at h
  | start t =>
    simp only [applyMove] at h
    split at h
    · rename_i hp; simp only [Option.some.injEq] at h; subst h; exact StepA.start s t hp.1 hp.2
    · simp at h

/-- run a schedule; `_events` must not overflow on the way -/
def run (c : Cfg) : State → List Move → Option State
  | s, [] => some s
  | s, m :: ms =>
    match applyMove c s m with
    | some s' => if s'.wrapped = false then run c s' ms else none
    | none => none

/-- run a schedule, overflow allowed (plain `Step`) -/
def runW (c : Cfg) : State → List Move → Option State
  | s, [] => some s
  | s, m :: ms =>
    match applyMove c s m with
    | some s' => runW c s' ms
    | none => none

theorem runW_reachable {c : Cfg} {init : State → Prop} :
    ∀ (ms : List Move) (s s' : State), Reachable init (Step c) s → runW c s ms = some s' → Reachable init (Step c) s'
  | [], s, s', hr, h => by simp only [runW, Option.some.injEq] at h; subst h; exact hr
  | m :: ms, s, s', hr, h => by
    simp only [runW] at h
    split at h
    · rename_i s1 h1
      exact runW_reachable ms s1 s' (Reachable.tail hr (applyMove_step h1)) h
    · simp at h

theorem run_reachable {c : Cfg} {init : State → Prop} :
    ∀ (ms : List Move) (s s' : State), Reachable init (StepN c) s → run c s ms = some s' → Reachable init (StepN c) s'
  | [], s, s', hr, h => by simp only [run, Option.some.injEq] at h; subst h; exact hr
  | m :: ms, s, s', hr, h => by
    simp only [run] at h
    split at h
    · rename_i s1 h1
      split at h
      · rename_i hw
        exact run_reachable ms s1 s' (Reachable.tail hr ⟨applyMove_step h1, hw⟩) h
      · simp at h
    · simp at h

theorem runA_reachable {c : Cfg} {init : State → Prop} :
    ∀ (ms : List Move) (s s' : State), ms.all (fun m => !m.refuses) = true → Reachable init (StepAN c) s →
      run c s ms = some s' → Reachable init (StepAN c) s'
  | [], s, s', _, hr, h => by simp only [run, Option.some.injEq] at h; subst h; exact hr
  | m :: ms, s, s', ha, hr, h => by
    simp only [run] at h
    simp only [List.all_cons, Bool.and_eq_true, Bool.not_eq_true'] at ha
    split at h
    · rename_i s1 h1
      split at h
      · rename_i hw
        exact runA_reachable ms s1 s' ha.2 (Reachable.tail hr ⟨applyMove_stepA h1 ha.1, hw⟩) h
      · simp at h
    · simp at h

end Babylon.ExecQ
