/-
  The source text (comments and whitespace removed) of every function of
  src/babylon/concurrent/execution_queue.h that `Babylon.ExecQ.Model` follows statement by statement, and
  of `ConcurrentBoundedQueue::size()` whose result the consumer's exit decision reads — as it was when the
  model was written.  `Properties/C16.lean` states `Gen.ExecQ.src_f = Pinned.f` for each (`gen_src_*`):
  any edit of these functions — an extra exit path, a bounded spin, a changed condition or constant —
  stops that obligation from checking, and the model has to be re-read against the new text.
  Core Lean only.
-/
namespace Babylon.ExecQ.Pinned
def execute_move : String := "{_queue.templatepush<true,false,false>(::std::move(value));returnsignal_push_event();}"
def execute_copy : String := "{_queue.templatepush<true,false,false>(value);returnsignal_push_event();}"
def signal_push_event : String := "{if(0!=_events.fetch_add(1,::std::memory_order_acq_rel)){return0;}returnstart_consumer();}"
def start_consumer : String := "{size_tevents=1;do{autoret=_executor->submit(&ConcurrentExecutionQueue::consume_until_empty,this);if(ret==0){return0;}}while(!_events.compare_exchange_strong(events,0,::std::memory_order_acq_rel));return-1;}"
def consume_until_empty : String := "{size_tevents=_events.load(::std::memory_order_acquire);while(true){autopoped=_queue.templatetry_pop_n<false,false>(_consume_function,_queue.capacity());if(poped!=0){events=_events.load(::std::memory_order_acquire);}elseif(_queue.size()!=0){S::yield();}elseif(_events.compare_exchange_strong(events,0,::std::memory_order_acq_rel)){break;}}}"
def join : String := "{while(_events.load(::std::memory_order_acquire)){S::usleep(1000);}}"
def queue_size : String := "{autonext_pop_index=_next_pop_index.load(::std::memory_order_relaxed);autonext_push_index=_next_push_index.load(::std::memory_order_relaxed);returnnext_push_index>next_pop_index?next_push_index-next_pop_index:0;}"
end Babylon.ExecQ.Pinned
