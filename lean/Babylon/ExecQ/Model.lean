/-
  Model of `ConcurrentExecutionQueue<T>` (src/babylon/concurrent/execution_queue.h): an MPSC queue
  whose consumer is started on demand through an `Executor`.

    execute(v):            _queue.push<true,false,false>(v); return signal_push_event();
    signal_push_event():   if (0 != _events.fetch_add(1, acq_rel)) return 0; return start_consumer();
    start_consumer():      size_t events = 1;
                           do { if (_executor->submit(consume_until_empty) == 0) return 0; }
                           while (!_events.compare_exchange_strong(events, 0, acq_rel)); return -1;
    consume_until_empty(): events = _events.load(acquire);
                           while (true) { poped = _queue.try_pop_n<false,false>(consume_function, capacity());
                             if (poped != 0) events = _events.load(acquire);
                             else if (_queue.size() != 0) S::yield();      // repair 0c66556, `Cfg.sizeCheck`
                             else if (_events.compare_exchange_strong(events, 0, acq_rel)) break; }
    join():                while (_events.load(acquire)) usleep(1000);

  Granularity.  `_events` is modelled at atomic granularity (L1): every load / fetch_add / CAS of the
  counter is exactly one step whose label is the VRT trace line (operation, memory order from
  `Gen.ExecQ`, values).  The executor outcome of every launch attempt is a **fault input**
  (`Outcome.refuse | inl | async`, arbitrary sequence); `inl` = the consumer runs on the launching
  producer's thread (InplaceExecutor), `async` = it is queued (`launched`) and later started on any idle
  thread (a pool worker).

  The bounded queue is **abstracted by its specification** (what C01 is planned to prove of
  `ConcurrentBoundedQueue`: `bq_inv`, `bq_value`, `bq_fifo`, `bq_no_dup_no_invent`; nothing is imported
  from C01).  Assumed, precisely:
    Q1 (tickets)   a concurrent push first takes the next index `tail` (one atomic fetch_add), so
                   indices are handed out once each, in real-time order;
    Q2 (publish)   it later publishes its value into that index (one release store of the slot version);
                   publishing index `i` waits until `i < head + cap` (the slot's previous round was popped);
                   a push returns only after its publish;
    Q3 (batch pop) the non-concurrent, non-blocking `try_pop_n` is atomic at its last slot-version read:
                   it removes a non-empty run of *published* indices starting at `head` (the published
                   prefix — it never skips an unpublished index), or returns 0, and returns 0 only if
                   index `head` is unpublished at that instant (in particular a push that has returned
                   is visible to every later poll unless an earlier index is still unpublished);
                   the consume function receives exactly the values published at the removed indices
                   (`bq_value`), in index order.
  `tick` (index ↦ item), `holder`, `pub`, `sig`, `popped`, `consumed`, `ncons`, `returned`, `refusals`,
  `debt`, `joinBad`, `wrapped` and the `snap` / `otk` arguments of program counters are ghosts: they never influence
  a label or a non-ghost field.
  Core Lean only (this file is linked into the replay driver).
-/
import Babylon.Gen.ExecQ
import Babylon.Core.Trace

namespace Babylon.ExecQ
open Babylon.Core Babylon.Gen.ExecQ

structure Cfg where
  cap : Nat                       -- capacity of the bounded queue
  /-- `consume_until_empty` looks at `_queue.size()` after an empty poll and polls again while some index
  is handed out but not popped (`Gen.ExecQ.exitChecksSize`; the shape before repair 0c66556 is `false`,
  kept so that the necessity of the branch is a theorem, `Properties.C16.eq_prefix_*`) -/
  sizeCheck : Bool := true
  /-- width in bits of `_events` (and of the local copies `events`); `8 * Gen.ExecQ.eventsBytes` = 64 in
  the code.  `fetch_add` wraps modulo `2 ^ evBits`; the ghost `wrapped` records that it ever did. -/
  evBits : Nat := 64

/-- one submission: the `seq`-th `execute` of thread `owner`, carrying payload `val` -/
structure Item where
  owner : Nat
  seq : Nat
  val : Nat
  deriving DecidableEq, Repr, Inhabited

/-- executor outcome of one launch attempt — the fault input -/
inductive Outcome | refuse | inl | async
  deriving DecidableEq, Repr

/-- what a thread does when `consume_until_empty` returns: it was a producer that launched inline
(`otk` = index of the item its `execute` pushed, `none` for a bare `signal_push_event`) or a worker -/
inductive Kont
  | inl (otk : Option Nat)
  | worker
  deriving DecidableEq, Repr, Inhabited

inductive Pc
  | idle
  | pTicket (v : Nat)                         -- push: `_next_push_index.fetch_add(1)`                     (Q1)
  | pPublish (it : Item) (tk : Nat)           -- push: wait for the slot, write, `set_version(release)`    (Q2)
  | pSignal (otk : Option Nat)                -- `_events.fetch_add(1, acq_rel)`
  | pLaunch (ev : Nat) (otk : Option Nat)     -- `_executor->submit(...)`: outcome is the fault input; `ev` = local `events`
  | pRollback (ev : Nat) (otk : Option Nat)   -- `_events.compare_exchange_strong(events, 0, acq_rel)`
  | c0 (k : Kont)                             -- `events = _events.load(acquire)`
  | cPop (k : Kont) (ev : Nat) (got : Bool)   -- `try_pop_n`; `got`: this call already delivered a batch    (Q3)
  | cCb (k : Kont) (ev : Nat) (batch : List Item) (started : Bool)   -- inside the consume function
  | cSize (k : Kont) (ev : Nat)               -- empty poll: `_queue.size()` = `_next_push_index.load(relaxed)` - head
  | cExit (k : Kont) (ev : Nat)               -- `_events.compare_exchange_strong(events, 0, acq_rel)`
  | j0 (snap : List Nat)                      -- join: `_events.load(acquire)`; ghost: indices whose execute had returned at the call
  deriving DecidableEq, Repr, Inhabited

structure State where
  events : Nat                    -- `_events`
  tail : Nat                      -- `_queue._next_push_index`
  head : Nat                      -- `_queue._next_pop_index`
  pub : Nat → Bool                -- index published (slot version advanced by its pusher)
  pc : Nat → Pc
  launched : Nat                  -- accepted asynchronous launches whose consumer has not started yet
  result : Nat → Nat              -- last return code of execute / signal_push_event per thread (0, or 1 for -1)
  nextSeq : Nat → Nat             -- number of pushes begun per thread
  -- ghosts
  tick : Nat → Option Item        -- item pushed at an index
  holder : Nat → Nat              -- thread that took an index
  sig : Nat → Bool                -- the pusher of this index has performed its `_events.fetch_add`
  popped : List Item              -- items removed from the queue, in order
  consumed : List Item            -- items the consume function has been handed, in order
  ncons : Nat                     -- = consumed.length
  returned : List Nat             -- indices whose `execute` has returned
  refusals : Nat                  -- number of refused launch attempts so far
  debt : Bool                     -- a refused launch was rolled back and no consumer has exited since
  joinBad : Bool                  -- some `join` returned while an index of its snapshot was not consumed
  wrapped : Bool                  -- some `_events.fetch_add` overflowed the counter (2^evBits signals in one episode)

def State.init : State :=
  { events := 0, tail := 0, head := 0, pub := fun _ => false, pc := fun _ => .idle, launched := 0,
    result := fun _ => 0, nextSeq := fun _ => 0, tick := fun _ => none, holder := fun _ => 0,
    sig := fun _ => false, popped := [], consumed := [], ncons := 0, returned := [], refusals := 0,
    debt := false, joinBad := false, wrapped := false }

def upd {α : Type} (f : Nat → α) (i : Nat) (v : α) : Nat → α := fun j => if j = i then v else f j

abbrev Label := Act

/-- input resolving the nondeterminism of one thread step -/
inductive Inp
  | none
  | pop (n : Nat)                 -- at `cPop`: the batch pop removes `n` items (0 = empty poll)
  | reload                        -- at `cPop _ _ true`: the call returns a non-zero total, `events` is re-read
  | launch (o : Outcome)          -- at `pLaunch`: executor outcome
  deriving DecidableEq, Repr

def setSig (s : State) : Option Nat → Nat → Bool
  | some tk => upd s.sig tk true
  | none => s.sig

def addReturned (s : State) : Option Nat → List Nat
  | some tk => tk :: s.returned
  | none => s.returned

def Kont.otk : Kont → Option Nat
  | .inl o => o
  | .worker => none

/-- the `n` indices from `head` on are all published -/
def prefixPub (s : State) (n : Nat) : Bool := (List.range n).all (fun i => s.pub (s.head + i))

def batchOf (s : State) (n : Nat) : List Item := (List.range n).filterMap (fun i => s.tick (s.head + i))

/-- version a slot shows when its index `i` is free for the push (`push_version_for_index`),
truncated to 16 bits as in the code; published = this + 1 -/
def pushVersion (c : Cfg) (i : Nat) : Nat := (2 * (i / c.cap)) % 65536
def slotOff (c : Cfg) (i : Nat) : Nat := (i % c.cap) * slotStride

/-- One step of thread `t`. -/
def stepThread (c : Cfg) (s : State) (t : Nat) (inp : Inp) : Option (State × Label) :=
  match s.pc t with
  | .idle => none
  | .pTicket v =>
    let it : Item := { owner := t, seq := s.nextSeq t, val := v }
    some ({ s with tail := s.tail + 1, tick := upd s.tick s.tail (some it), holder := upd s.holder s.tail t,
                   nextSeq := upd s.nextSeq t (s.nextSeq t + 1), pc := upd s.pc t (.pPublish it s.tail) },
          .rmw "add" "pushidx" 0 .rlx s.tail 1)
  | .pPublish _ tk =>
    if tk < s.head + c.cap then
      some ({ s with pub := upd s.pub tk true, pc := upd s.pc t (.pSignal (some tk)) },
            .st "slot" (slotOff c tk) .rel ((pushVersion c tk + 1) % 65536))
    else none
  | .pSignal otk =>
    if s.events = 0 then
      some ({ s with events := (s.events + signalInc) % 2 ^ c.evBits,
                     wrapped := s.wrapped || decide (2 ^ c.evBits ≤ s.events + signalInc), sig := setSig s otk,
                     pc := upd s.pc t (.pLaunch rollbackExpectInit otk) },
            .rmw "add" "events" 0 ordSignal s.events signalInc)
    else
      some ({ s with events := (s.events + signalInc) % 2 ^ c.evBits,
                     wrapped := s.wrapped || decide (2 ^ c.evBits ≤ s.events + signalInc), sig := setSig s otk,
                     pc := upd s.pc t .idle, result := upd s.result t 0, returned := addReturned s otk },
            .rmw "add" "events" 0 ordSignal s.events signalInc)
  | .pLaunch ev otk =>
    match inp with
    | .launch .refuse =>
      some ({ s with refusals := s.refusals + 1, pc := upd s.pc t (.pRollback ev otk) }, .ev ["launch", "refuse"])
    | .launch .inl =>
      some ({ s with pc := upd s.pc t (.c0 (.inl otk)) }, .ev ["launch", "accept", "inline"])
    | .launch .async =>
      some ({ s with launched := s.launched + 1, pc := upd s.pc t .idle, result := upd s.result t 0,
                     returned := addReturned s otk },
            .ev ["launch", "accept", "async"])
    | _ => none
  | .pRollback ev otk =>
    if s.events = ev then
      some ({ s with events := rollbackDesired, debt := true, pc := upd s.pc t .idle, result := upd s.result t 1,
                     returned := addReturned s otk },
            .cas "events" 0 false ordRollbackS ordRollbackF ev rollbackDesired true s.events)
    else
      some ({ s with pc := upd s.pc t (.pLaunch s.events otk) },
            .cas "events" 0 false ordRollbackS ordRollbackF ev rollbackDesired false s.events)
  | .c0 k =>
    some ({ s with pc := upd s.pc t (.cPop k s.events false) }, .ld "events" 0 ordConsLoad s.events)
  | .cPop k ev got =>
    match inp with
    | .pop 0 =>
      if got = false ∧ s.pub s.head = false then
        some ({ s with pc := upd s.pc t (if c.sizeCheck then .cSize k ev else .cExit k ev) },
              .ld "slot" (slotOff c s.head) .rlx (pushVersion c s.head))
      else none
    | .pop (n + 1) =>
      if prefixPub s (n + 1) then
        some ({ s with head := s.head + (n + 1), popped := s.popped ++ batchOf s (n + 1),
                       pc := upd s.pc t (.cCb k ev (batchOf s (n + 1)) false) },
              .st "popidx" 0 .rlx (s.head + (n + 1)))
      else none
    | .reload =>
      if got then
        some ({ s with pc := upd s.pc t (.cPop k s.events false) }, .ld "events" 0 ordConsReload s.events)
      else none
    | _ => none
  | .cCb k ev batch started =>
    if started then
      match batch with
      | b :: rest =>
        some ({ s with consumed := s.consumed ++ [b], ncons := s.ncons + 1, pc := upd s.pc t (.cCb k ev rest true) },
              .ev ["consume", toString b.val])
      | [] => some ({ s with pc := upd s.pc t (.cPop k ev true) }, .ev ["cb_end"])
    else
      some ({ s with pc := upd s.pc t (.cCb k ev batch true) }, .ev ["cb_begin", toString batch.length])
  | .cSize k ev =>
    -- the pop index is written by this thread only, so the distance is exact at the push-index load
    some ({ s with pc := upd s.pc t (if s.tail = s.head then .cExit k ev else .cPop k ev false) },
          .ld "pushidx" 0 .rlx s.tail)
  | .cExit k ev =>
    if s.events = ev then
      some ({ s with events := exitDesired, debt := false, pc := upd s.pc t .idle, result := upd s.result t 0,
                     returned := addReturned s k.otk },
            .cas "events" 0 false ordExitS ordExitF ev exitDesired true s.events)
    else
      some ({ s with pc := upd s.pc t (.cPop k s.events false) },
            .cas "events" 0 false ordExitS ordExitF ev exitDesired false s.events)
  | .j0 snap =>
    if s.events = 0 then
      some ({ s with pc := upd s.pc t .idle, joinBad := s.joinBad || snap.any (fun tk => decide (s.ncons ≤ tk)) },
            .ld "events" 0 ordJoin 0)
    else
      some (s, .ld "events" 0 ordJoin s.events)

/-- client calls (any idle thread) and the start of a queued consumer on an idle thread -/
def callExecute (s : State) (t v : Nat) : State := { s with pc := upd s.pc t (.pTicket v) }
def callSignal (s : State) (t : Nat) : State := { s with pc := upd s.pc t (.pSignal none) }
def callJoin (s : State) (t : Nat) : State := { s with pc := upd s.pc t (.j0 s.returned) }
def startWorker (s : State) (t : Nat) : State :=
  { s with launched := s.launched - 1, pc := upd s.pc t (.c0 .worker) }

/-- The transition relation: any thread performs its next step under any input (interleaving,
poll result allowed by Q3, executor outcome), an idle thread starts a call, or a queued consumer
starts on an idle thread. -/
inductive Step (c : Cfg) : State → State → Prop
  | act (s : State) (t : Nat) (inp : Inp) (s' : State) (l : Label) :
      stepThread c s t inp = some (s', l) → Step c s s'
  | execute (s : State) (t v : Nat) : s.pc t = .idle → Step c s (callExecute s t v)
  | signal (s : State) (t : Nat) : s.pc t = .idle → Step c s (callSignal s t)
  | join (s : State) (t : Nat) : s.pc t = .idle → Step c s (callJoin s t)
  | start (s : State) (t : Nat) : s.pc t = .idle → 0 < s.launched → Step c s (startWorker s t)

/-- steps of executions in which `_events` never overflows: fewer than `2 ^ evBits` signals arrive while
one consumer activation lasts (with the code's 64-bit counter: 2^64 signals before the queue is once
seen empty).  All positive theorems are about these; `eq_events_wrap_counterexample` shows the
restriction is necessary for a narrow counter. -/
def StepN (c : Cfg) (s s' : State) : Prop := Step c s s' ∧ s'.wrapped = false

/-- the same system whose executor never refuses ("every launch is accepted") -/
inductive StepA (c : Cfg) : State → State → Prop
  | act (s : State) (t : Nat) (inp : Inp) (s' : State) (l : Label) :
      stepThread c s t inp = some (s', l) → inp ≠ .launch .refuse → StepA c s s'
  | execute (s : State) (t v : Nat) : s.pc t = .idle → StepA c s (callExecute s t v)
  | signal (s : State) (t : Nat) : s.pc t = .idle → StepA c s (callSignal s t)
  | join (s : State) (t : Nat) : s.pc t = .idle → StepA c s (callJoin s t)
  | start (s : State) (t : Nat) : s.pc t = .idle → 0 < s.launched → StepA c s (startWorker s t)

def StepAN (c : Cfg) (s s' : State) : Prop := StepA c s s' ∧ s'.wrapped = false

/-- skeletons this model was written against (compared with the generated ones in Properties/C16) -/
def Skel.execute : List Site := [.call "push", .call "signal_push_event"]
def Skel.signal_push_event : List Site := [.rmw "fetch_add" "_events" .acqrel, .call "start_consumer"]
def Skel.start_consumer : List Site := [.call "submit", .cas "_events" true .acqrel .acq]
def Skel.consume_until_empty : List Site := [
  .load "_events" .acq,
  .call "try_pop_n",
  .load "_events" .acq,
  .call "size",
  .call "yield",
  .cas "_events" true .acqrel .acq]
def Skel.join : List Site := [.load "_events" .acq, .call "usleep"]

end Babylon.ExecQ
