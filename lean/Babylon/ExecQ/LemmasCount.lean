import Babylon.ExecQ.LemmasCover
namespace Babylon.ExecQ
open Babylon.Core Babylon.Gen.ExecQ

theorem Pc.batch_nil_of_not_cb {p : Pc} (h : ∀ k ev b st, p ≠ .cCb k ev b st) : p.batch = [] := by
  cases p <;> first | rfl | exact absurd rfl (h _ _ _ _)


theorem length_filterMap_all_some {α β : Type} (f : α → Option β) (l : List α)
    (h : ∀ x, x ∈ l → ∃ y, f x = some y) : (l.filterMap f).length = l.length := by
  induction l with
  | nil => rfl
  | cons a l ih =>
    obtain ⟨y, hy⟩ := h a (List.mem_cons_self ..)
    rw [List.filterMap_cons_some hy, List.length_cons, List.length_cons,
      ih (fun x hx => h x (List.mem_cons_of_mem _ hx))]

theorem batchOf_length {s : State} {n : Nat} (hq : InvQ s) (hp : prefixPub s n = true) :
    (batchOf s n).length = n := by
  rw [prefixPub_iff] at hp
  unfold batchOf
  rw [length_filterMap_all_some, List.length_range]
  intro x hx
  rw [List.mem_range] at hx
  exact hq.tick_some _ (hq.pub_lt _ (hp x hx))

/-- Invariant N: how far consumption has got (`ncons` = number of items handed to the consume function
= `head` minus what the consumer still holds in its current batch), and the ghost sets of indices whose
`execute` has returned contain signalled indices only. -/
structure InvN (s : State) : Prop where
  ncb : ∀ t, (s.pc t).consumer = true → s.ncons + (s.pc t).batch.length = s.head
  nno : (∀ t, (s.pc t).consumer = false) → s.ncons = s.head
  ret : ∀ tk, tk ∈ s.returned → s.sig tk = true
  snap : ∀ t sn, s.pc t = .j0 sn → ∀ tk, tk ∈ sn → s.sig tk = true

theorem invN_init : InvN State.init := by
  refine ⟨?_, ?_, ?_, ?_⟩ <;> simp [State.init, Pc.consumer]

theorem setSig_mono {s : State} {o : Option Nat} {i : Nat} (h : s.sig i = true) : setSig s o i = true := by
  cases o with
  | none => exact h
  | some tk => simp only [setSig, upd_apply]; split <;> simp [h]

/-- frame: `t` moves between two non-consumer program counters or stays a consumer with the same batch;
`ncons`, `head` are unchanged; `sig` only grows; `returned` only gains signalled indices -/
theorem InvN.frame {s s' : State} (hi : InvN s) (t : Nat) (p' : Pc)
    (hpc : s'.pc = upd s.pc t p') (hh : s'.head = s.head) (hn : s'.ncons = s.ncons)
    (hsig : ∀ i, s.sig i = true → s'.sig i = true)
    (hret : ∀ tk, tk ∈ s'.returned → tk ∈ s.returned ∨ s'.sig tk = true)
    (hcons : p'.consumer = (s.pc t).consumer) (hb : p'.batch = (s.pc t).batch)
    (hj : ∀ sn, p' = .j0 sn → ∀ tk, tk ∈ sn → s'.sig tk = true) : InvN s' := by
  obtain ⟨ncb, nno, ret, snap⟩ := hi
  have hc : ∀ u, (s'.pc u).consumer = (s.pc u).consumer := by
    intro u; rw [hpc, upd_apply]; split
    · next h => rw [h, hcons]
    · rfl
  have hbb : ∀ u, (s'.pc u).batch = (s.pc u).batch := by
    intro u; rw [hpc, upd_apply]; split
    · next h => rw [h, hb]
    · rfl
  refine ⟨?_, ?_, ?_, ?_⟩
  · intro a ha; rw [hc] at ha; rw [hn, hbb, hh]; exact ncb a ha
  · intro h; rw [hn, hh]; exact nno (fun a => by rw [← hc]; exact h a)
  · intro tk h
    rcases hret tk h with h | h
    · exact hsig tk (ret tk h)
    · exact h
  · intro a sn h tk htk
    rw [hpc, upd_apply] at h
    split at h
    · exact hj sn h tk htk
    · exact hsig tk (snap a sn h tk htk)

theorem mem_addReturned {s : State} {o : Option Nat} {tk : Nat} (h : tk ∈ addReturned s o) :
    tk ∈ s.returned ∨ o = some tk := by
  cases o with
  | none => exact .inl h
  | some x =>
    simp only [addReturned, List.mem_cons] at h
    rcases h with h | h
    · exact .inr (by rw [h])
    · exact .inl h

theorem invN_tstep {c : Cfg} {s s' : State} {t : Nat} (ho : InvO s) (hq : InvQ s)
    (hi : InvN s) (h : TStep c s t s') : InvN s' := by
  have idr : ∀ tk, tk ∈ s.returned → tk ∈ s.returned ∨ s.sig tk = true := fun _ h => .inl h
  have otkr : ∀ o, (s.pc t).otk = o → ∀ tk, tk ∈ addReturned s o → tk ∈ s.returned ∨ s.sig tk = true := by
    intro o ho' tk h
    rcases mem_addReturned h with h | h
    · exact .inl h
    · exact .inr (hq.otk t tk (by rw [ho', h]))
  cases h with
  | ticket v hpc => exact hi.frame t _ rfl rfl rfl (fun _ h => h) idr (by rw [hpc]; rfl) (by rw [hpc]; rfl) (by simp)
  | publish it tk hpc hlt => exact hi.frame t _ rfl rfl rfl (fun _ h => h) idr (by rw [hpc]; rfl) (by rw [hpc]; rfl) (by simp)
  | signalLaunch otk hpc h0 =>
    exact hi.frame t _ rfl rfl rfl (fun _ h => setSig_mono h) (fun tk h => .inl h) (by rw [hpc]; rfl) (by rw [hpc]; rfl) (by simp)
  | signalRet otk hpc hne =>
    refine hi.frame t _ rfl rfl rfl (fun _ h => setSig_mono h) ?_ (by rw [hpc]; rfl) (by rw [hpc]; rfl) (by simp)
    intro tk h
    rcases mem_addReturned h with h | h
    · exact .inl h
    · subst h; right; simp [setSig]
  | refuse ev otk hpc => exact hi.frame t _ rfl rfl rfl (fun _ h => h) idr (by rw [hpc]; rfl) (by rw [hpc]; rfl) (by simp)
  | acceptInl ev otk hpc =>
    -- the launching producer becomes the consumer: nobody was one (it is the unique owner)
    obtain ⟨ncb, nno, ret, snap⟩ := hi
    have hto : (s.pc t).owner = true := by rw [hpc]; rfl
    have hnc : ∀ u, (s.pc u).consumer = false := by
      intro u; cases h : (s.pc u).consumer
      · rfl
      · have := ho.uniq u t (Pc.owner_of_consumer h) hto; subst this; rw [hpc] at h; cases h
    have hn := nno hnc
    refine ⟨?_, ?_, ret, ?_⟩
    · intro a ha
      simp only [upd_apply] at ha ⊢
      split at ha
      · next h => rw [if_pos h]; simpa [Pc.batch] using hn
      · rw [hnc] at ha; cases ha
    · intro h; have := h t; simp [Pc.consumer] at this
    · intro a sn h
      simp only [upd_apply] at h
      split at h
      · cases h
      · exact snap a sn h
  | acceptAsync ev otk hpc =>
    exact hi.frame t _ rfl rfl rfl (fun _ h => h) (otkr otk (by rw [hpc]; rfl)) (by rw [hpc]; rfl) (by rw [hpc]; rfl) (by simp)
  | rollbackOk ev otk hpc he =>
    exact hi.frame t _ rfl rfl rfl (fun _ h => h) (otkr otk (by rw [hpc]; rfl)) (by rw [hpc]; rfl) (by rw [hpc]; rfl) (by simp)
  | rollbackFail ev otk hpc hne => exact hi.frame t _ rfl rfl rfl (fun _ h => h) idr (by rw [hpc]; rfl) (by rw [hpc]; rfl) (by simp)
  | load0 k hpc => exact hi.frame t _ rfl rfl rfl (fun _ h => h) idr (by rw [hpc]; rfl) (by rw [hpc]; rfl) (by simp)
  | pop0 k ev hpc hp =>
    exact hi.frame t _ rfl rfl rfl (fun _ h => h) idr (by rw [hpc]; cases c.sizeCheck <;> rfl)
      (by rw [hpc]; cases c.sizeCheck <;> rfl) (by cases c.sizeCheck <;> simp)
  | reload k ev hpc => exact hi.frame t _ rfl rfl rfl (fun _ h => h) idr (by rw [hpc]; rfl) (by rw [hpc]; rfl) (by simp)
  | cbBegin k ev b hpc => exact hi.frame t _ rfl rfl rfl (fun _ h => h) idr (by rw [hpc]; rfl) (by rw [hpc]; rfl) (by simp)
  | cbEnd k ev hpc => exact hi.frame t _ rfl rfl rfl (fun _ h => h) idr (by rw [hpc]; rfl) (by rw [hpc]; rfl) (by simp)
  | size k ev hpc =>
    exact hi.frame t _ rfl rfl rfl (fun _ h => h) idr (by rw [hpc]; split <;> rfl) (by rw [hpc]; split <;> rfl) (by split <;> simp)
  | exitFail k ev hpc hne => exact hi.frame t _ rfl rfl rfl (fun _ h => h) idr (by rw [hpc]; rfl) (by rw [hpc]; rfl) (by simp)
  | joinRet snap hpc he => exact hi.frame t _ rfl rfl rfl (fun _ h => h) idr (by rw [hpc]; rfl) (by rw [hpc]; rfl) (by simp)
  | joinSpin snap hpc he => exact hi
  | popK k ev got n hpc hp =>
    obtain ⟨ncb, nno, ret, snap⟩ := hi
    have htc : (s.pc t).consumer = true := by rw [hpc]; rfl
    have hn := ncb t htc
    rw [hpc] at hn
    simp only [Pc.batch, List.length_nil, Nat.add_zero] at hn
    have hlen : (batchOf s (n + 1)).length = n + 1 := batchOf_length hq hp
    refine ⟨?_, ?_, ret, ?_⟩
    · intro a ha
      simp only [upd_apply] at ha ⊢
      split
      · simp only [Pc.batch, hlen]; omega
      · next hat =>
        rw [if_neg hat] at ha
        exact absurd (ho.uniq a t (Pc.owner_of_consumer ha) (Pc.owner_of_consumer htc)) hat
    · intro h; have := h t; simp [Pc.consumer] at this
    · intro a sn h
      simp only [upd_apply] at h
      split at h
      · cases h
      · exact snap a sn h
  | cbItem k ev b rest hpc =>
    obtain ⟨ncb, nno, ret, snap⟩ := hi
    have htc : (s.pc t).consumer = true := by rw [hpc]; rfl
    have hn := ncb t htc
    rw [hpc] at hn
    simp only [Pc.batch, List.length_cons] at hn
    refine ⟨?_, ?_, ret, ?_⟩
    · intro a ha
      simp only [upd_apply] at ha ⊢
      split
      · simp only [Pc.batch]; omega
      · next hat =>
        rw [if_neg hat] at ha
        exact absurd (ho.uniq a t (Pc.owner_of_consumer ha) (Pc.owner_of_consumer htc)) hat
    · intro h; have := h t; simp [Pc.consumer] at this
    · intro a sn h
      simp only [upd_apply] at h
      split at h
      · cases h
      · exact snap a sn h
  | exitOk k ev hpc he =>
    obtain ⟨ncb, nno, ret, snap⟩ := hi
    have htc : (s.pc t).consumer = true := by rw [hpc]; rfl
    have hn := ncb t htc
    rw [hpc] at hn
    simp only [Pc.batch, List.length_nil, Nat.add_zero] at hn
    refine ⟨?_, ?_, ?_, ?_⟩
    · intro a ha
      simp only [upd_apply] at ha
      split at ha
      · cases ha
      · next hat => exact absurd (ho.uniq a t (Pc.owner_of_consumer ha) (Pc.owner_of_consumer htc)) hat
    · intro _; exact hn
    · intro tk h
      rcases otkr k.otk (by rw [hpc]; rfl) tk h with h | h
      · exact ret tk h
      · exact h
    · intro a sn h
      simp only [upd_apply] at h
      split at h
      · cases h
      · exact snap a sn h

theorem invN_any {c : Cfg} {s s' : State} (ho : InvO s) (hq : InvQ s) (hi : InvN s) (h : AnyStep c s s') : InvN s' := by
  have idr : ∀ tk, tk ∈ s.returned → tk ∈ s.returned ∨ s.sig tk = true := fun _ h => .inl h
  cases h with
  | thread t s' h => exact invN_tstep ho hq hi h
  | execute t v hpc => exact hi.frame t _ rfl rfl rfl (fun _ h => h) idr (by rw [hpc]; rfl) (by rw [hpc]; rfl) (by simp)
  | signal t hpc => exact hi.frame t _ rfl rfl rfl (fun _ h => h) idr (by rw [hpc]; rfl) (by rw [hpc]; rfl) (by simp)
  | join t hpc =>
    refine hi.frame t _ rfl rfl rfl (fun _ h => h) idr (by rw [hpc]; rfl) (by rw [hpc]; rfl) ?_
    intro sn h tk htk
    simp only [Pc.j0.injEq] at h
    subst h
    exact hi.ret tk htk
  | start t hpc hl =>
    obtain ⟨ncb, nno, ret, snap⟩ := hi
    have hnc : ∀ u, (s.pc u).consumer = false := by
      intro u; cases h : (s.pc u).consumer
      · rfl
      · have := ho.nol u (Pc.owner_of_consumer h); omega
    have hn := nno hnc
    refine ⟨?_, ?_, ret, ?_⟩
    · intro a ha
      simp only [startWorker, upd_apply] at ha ⊢
      split at ha
      · next h => rw [if_pos h]; simpa [Pc.batch] using hn
      · rw [hnc] at ha; cases ha
    · intro h; have := h t; simp [startWorker, Pc.consumer] at this
    · intro a sn h
      simp only [startWorker, upd_apply] at h
      split at h
      · cases h
      · exact snap a sn h

end Babylon.ExecQ
