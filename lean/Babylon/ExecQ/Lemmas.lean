/-
  Case analysis of the `ConcurrentExecutionQueue` model (`Babylon.ExecQ.Model`): `TStep` lists the leaf
  transitions of `stepThread` with their guards and their exact successor state, so that every
  invariant is proved by one `cases` over clean hypotheses.  Also the generated constants the proofs
  rely on (they are `rfl`, so a changed source constant breaks them) and small `upd` lemmas.
-/
import Babylon.ExecQ.Model
import Babylon.Core.Reach

namespace Babylon.ExecQ
open Babylon.Core Babylon.Gen.ExecQ

@[simp] theorem signalInc_eq : signalInc = 1 := rfl
@[simp] theorem rollbackDesired_eq : rollbackDesired = 0 := rfl
@[simp] theorem exitDesired_eq : exitDesired = 0 := rfl
@[simp] theorem rollbackExpectInit_eq : rollbackExpectInit = 1 := rfl

@[simp] theorem upd_same {α : Type} (f : Nat → α) (i : Nat) (v : α) : upd f i v i = v := by simp [upd]
theorem upd_ne {α : Type} (f : Nat → α) {i j : Nat} (v : α) (h : j ≠ i) : upd f i v j = f j := by simp [upd, h]
theorem upd_apply {α : Type} (f : Nat → α) (i j : Nat) (v : α) : upd f i v j = if j = i then v else f j := rfl

/-- the thread owns the `_events != 0` episode: it is between a `fetch_add` that returned 0 and the
outcome of its launch, or it is the consumer -/
def Pc.owner : Pc → Bool
  | .pLaunch _ _ | .pRollback _ _ | .c0 _ | .cPop _ _ _ | .cCb _ _ _ _ | .cSize _ _ | .cExit _ _ => true
  | _ => false

/-- the thread runs `consume_until_empty` -/
def Pc.consumer : Pc → Bool
  | .c0 _ | .cPop _ _ _ | .cCb _ _ _ _ | .cSize _ _ | .cExit _ _ => true
  | _ => false

/-- the thread is inside the consume function -/
def Pc.inCb : Pc → Bool
  | .cCb _ _ _ true => true
  | _ => false

/-- items popped for this thread's current consume call and not handed over yet -/
def Pc.batch : Pc → List Item
  | .cCb _ _ b _ => b
  | _ => []

/-- the thread's local copy `events` -/
def Pc.ev? : Pc → Option Nat
  | .pLaunch e _ | .pRollback e _ | .cPop _ e _ | .cCb _ e _ _ | .cSize _ e | .cExit _ e => some e
  | _ => none

/-- the thread is inside `execute` / `signal_push_event` and has not performed its `fetch_add` yet -/
def Pc.inFlight : Pc → Bool
  | .pTicket _ | .pPublish _ _ | .pSignal _ => true
  | _ => false

/-- index whose `execute` this thread is still inside after having signalled -/
def Pc.otk : Pc → Option Nat
  | .pLaunch _ o | .pRollback _ o => o
  | .c0 k | .cPop k _ _ | .cCb k _ _ _ | .cSize k _ | .cExit k _ => k.otk
  | _ => none

/-- Leaf transitions of `stepThread`. -/
inductive TStep (c : Cfg) (s : State) (t : Nat) : State → Prop
  | ticket (v : Nat) : s.pc t = .pTicket v →
      TStep c s t { s with tail := s.tail + 1,
                           tick := upd s.tick s.tail (some { owner := t, seq := s.nextSeq t, val := v }),
                           holder := upd s.holder s.tail t,
                           nextSeq := upd s.nextSeq t (s.nextSeq t + 1),
                           pc := upd s.pc t (.pPublish { owner := t, seq := s.nextSeq t, val := v } s.tail) }
  | publish (it : Item) (tk : Nat) : s.pc t = .pPublish it tk → tk < s.head + c.cap →
      TStep c s t { s with pub := upd s.pub tk true, pc := upd s.pc t (.pSignal (some tk)) }
  | signalLaunch (otk : Option Nat) : s.pc t = .pSignal otk → s.events = 0 →
      TStep c s t { s with events := s.events + 1, sig := setSig s otk, pc := upd s.pc t (.pLaunch 1 otk) }
  | signalRet (otk : Option Nat) : s.pc t = .pSignal otk → s.events ≠ 0 →
      TStep c s t { s with events := s.events + 1, sig := setSig s otk, pc := upd s.pc t .idle,
                           result := upd s.result t 0, returned := addReturned s otk }
  | refuse (ev : Nat) (otk : Option Nat) : s.pc t = .pLaunch ev otk →
      TStep c s t { s with refusals := s.refusals + 1, pc := upd s.pc t (.pRollback ev otk) }
  | acceptInl (ev : Nat) (otk : Option Nat) : s.pc t = .pLaunch ev otk →
      TStep c s t { s with pc := upd s.pc t (.c0 (.inl otk)) }
  | acceptAsync (ev : Nat) (otk : Option Nat) : s.pc t = .pLaunch ev otk →
      TStep c s t { s with launched := s.launched + 1, pc := upd s.pc t .idle, result := upd s.result t 0,
                           returned := addReturned s otk }
  | rollbackOk (ev : Nat) (otk : Option Nat) : s.pc t = .pRollback ev otk → s.events = ev →
      TStep c s t { s with events := 0, debt := true, pc := upd s.pc t .idle, result := upd s.result t 1,
                           returned := addReturned s otk }
  | rollbackFail (ev : Nat) (otk : Option Nat) : s.pc t = .pRollback ev otk → s.events ≠ ev →
      TStep c s t { s with pc := upd s.pc t (.pLaunch s.events otk) }
  | load0 (k : Kont) : s.pc t = .c0 k →
      TStep c s t { s with pc := upd s.pc t (.cPop k s.events false) }
  | pop0 (k : Kont) (ev : Nat) : s.pc t = .cPop k ev false → s.pub s.head = false →
      TStep c s t { s with pc := upd s.pc t (if c.sizeCheck then .cSize k ev else .cExit k ev) }
  | popK (k : Kont) (ev : Nat) (got : Bool) (n : Nat) : s.pc t = .cPop k ev got → prefixPub s (n + 1) = true →
      TStep c s t { s with head := s.head + (n + 1), popped := s.popped ++ batchOf s (n + 1),
                           pc := upd s.pc t (.cCb k ev (batchOf s (n + 1)) false) }
  | reload (k : Kont) (ev : Nat) : s.pc t = .cPop k ev true →
      TStep c s t { s with pc := upd s.pc t (.cPop k s.events false) }
  | cbBegin (k : Kont) (ev : Nat) (b : List Item) : s.pc t = .cCb k ev b false →
      TStep c s t { s with pc := upd s.pc t (.cCb k ev b true) }
  | cbItem (k : Kont) (ev : Nat) (b : Item) (rest : List Item) : s.pc t = .cCb k ev (b :: rest) true →
      TStep c s t { s with consumed := s.consumed ++ [b], ncons := s.ncons + 1, pc := upd s.pc t (.cCb k ev rest true) }
  | cbEnd (k : Kont) (ev : Nat) : s.pc t = .cCb k ev [] true →
      TStep c s t { s with pc := upd s.pc t (.cPop k ev true) }
  | size (k : Kont) (ev : Nat) : s.pc t = .cSize k ev →
      TStep c s t { s with pc := upd s.pc t (if s.tail = s.head then .cExit k ev else .cPop k ev false) }
  | exitOk (k : Kont) (ev : Nat) : s.pc t = .cExit k ev → s.events = ev →
      TStep c s t { s with events := 0, debt := false, pc := upd s.pc t .idle, result := upd s.result t 0,
                           returned := addReturned s k.otk }
  | exitFail (k : Kont) (ev : Nat) : s.pc t = .cExit k ev → s.events ≠ ev →
      TStep c s t { s with pc := upd s.pc t (.cPop k s.events false) }
  | joinRet (snap : List Nat) : s.pc t = .j0 snap → s.events = 0 →
      TStep c s t { s with pc := upd s.pc t .idle,
                           joinBad := s.joinBad || snap.any (fun tk => decide (s.ncons ≤ tk)) }
  | joinSpin (snap : List Nat) : s.pc t = .j0 snap → s.events ≠ 0 → TStep c s t s

theorem nowrap_of {c : Cfg} {s : State} (h : (s.wrapped || decide (2 ^ c.evBits ≤ s.events + signalInc)) = false) :
    (s.events + signalInc) % 2 ^ c.evBits = s.events + 1 ∧
    (s.wrapped || decide (2 ^ c.evBits ≤ s.events + signalInc)) = s.wrapped := by
  simp only [Bool.or_eq_false_iff, signalInc_eq] at h
  have h2 : s.events + 1 < 2 ^ c.evBits := by
    have := of_decide_eq_false h.2; omega
  refine ⟨by rw [signalInc_eq]; exact Nat.mod_eq_of_lt h2, ?_⟩
  rw [signalInc_eq, h.1]; simp; omega

/-- (for steps that do not overflow `_events`; the `TStep` leaves use unbounded arithmetic) -/
theorem stepThread_tstep {c : Cfg} {s s' : State} {t : Nat} {inp : Inp} {l : Label}
    (h : stepThread c s t inp = some (s', l)) (hw : s'.wrapped = false) : TStep c s t s' := by
  unfold stepThread at h
  cases hpc : s.pc t <;> rw [hpc] at h <;> simp only at h
  case idle => simp at h
  case pTicket v =>
    simp only [Option.some.injEq, Prod.mk.injEq] at h
    obtain ⟨rfl, _⟩ := h
    exact TStep.ticket v hpc
  case pPublish it tk =>
    split at h
    · rename_i hlt
      simp only [Option.some.injEq, Prod.mk.injEq] at h
      obtain ⟨rfl, _⟩ := h
      exact TStep.publish it tk hpc hlt
    · simp at h
  case pSignal otk =>
    split at h
    · rename_i h0
      simp only [Option.some.injEq, Prod.mk.injEq] at h
      obtain ⟨rfl, _⟩ := h
      obtain ⟨h1, h2⟩ := nowrap_of hw
      rw [h1, h2]
      exact TStep.signalLaunch otk hpc h0
    · rename_i h0
      simp only [Option.some.injEq, Prod.mk.injEq] at h
      obtain ⟨rfl, _⟩ := h
      obtain ⟨h1, h2⟩ := nowrap_of hw
      rw [h1, h2]
      exact TStep.signalRet otk hpc h0
  case pLaunch ev otk =>
    split at h
    · simp only [Option.some.injEq, Prod.mk.injEq] at h
      obtain ⟨rfl, _⟩ := h
      exact TStep.refuse ev otk hpc
    · simp only [Option.some.injEq, Prod.mk.injEq] at h
      obtain ⟨rfl, _⟩ := h
      exact TStep.acceptInl ev otk hpc
    · simp only [Option.some.injEq, Prod.mk.injEq] at h
      obtain ⟨rfl, _⟩ := h
      exact TStep.acceptAsync ev otk hpc
    · simp at h
  case pRollback ev otk =>
    split at h
    · rename_i he
      simp only [Option.some.injEq, Prod.mk.injEq] at h
      obtain ⟨rfl, _⟩ := h
      exact TStep.rollbackOk ev otk hpc he
    · rename_i he
      simp only [Option.some.injEq, Prod.mk.injEq] at h
      obtain ⟨rfl, _⟩ := h
      exact TStep.rollbackFail ev otk hpc he
  case c0 k =>
    simp only [Option.some.injEq, Prod.mk.injEq] at h
    obtain ⟨rfl, _⟩ := h
    exact TStep.load0 k hpc
  case cPop k ev got =>
    split at h
    · split at h
      · rename_i hg
        simp only [Option.some.injEq, Prod.mk.injEq] at h
        obtain ⟨rfl, _⟩ := h
        obtain ⟨rfl, hp⟩ := hg
        exact TStep.pop0 k ev hpc hp
      · simp at h
    · split at h
      · rename_i n hp
        simp only [Option.some.injEq, Prod.mk.injEq] at h
        obtain ⟨rfl, _⟩ := h
        exact TStep.popK k ev got n hpc hp
      · simp at h
    · split at h
      · rename_i hg
        simp only [Option.some.injEq, Prod.mk.injEq] at h
        obtain ⟨rfl, _⟩ := h
        subst hg
        exact TStep.reload k ev hpc
      · simp at h
    · simp at h
  case cCb k ev batch started =>
    split at h
    · rename_i hs
      subst hs
      split at h
      · simp only [Option.some.injEq, Prod.mk.injEq] at h
        obtain ⟨rfl, _⟩ := h
        exact TStep.cbItem k ev _ _ hpc
      · simp only [Option.some.injEq, Prod.mk.injEq] at h
        obtain ⟨rfl, _⟩ := h
        exact TStep.cbEnd k ev hpc
    · rename_i hs
      simp only [Bool.not_eq_true] at hs
      subst hs
      simp only [Option.some.injEq, Prod.mk.injEq] at h
      obtain ⟨rfl, _⟩ := h
      exact TStep.cbBegin k ev batch hpc
  case cSize k ev =>
    simp only [Option.some.injEq, Prod.mk.injEq] at h
    obtain ⟨rfl, _⟩ := h
    exact TStep.size k ev hpc
  case cExit k ev =>
    split at h
    · rename_i he
      simp only [Option.some.injEq, Prod.mk.injEq] at h
      obtain ⟨rfl, _⟩ := h
      exact TStep.exitOk k ev hpc he
    · rename_i he
      simp only [Option.some.injEq, Prod.mk.injEq] at h
      obtain ⟨rfl, _⟩ := h
      exact TStep.exitFail k ev hpc he
  case j0 snap =>
    split at h
    · rename_i he
      simp only [Option.some.injEq, Prod.mk.injEq] at h
      obtain ⟨rfl, _⟩ := h
      exact TStep.joinRet snap hpc he
    · rename_i he
      simp only [Option.some.injEq, Prod.mk.injEq] at h
      obtain ⟨rfl, _⟩ := h
      exact TStep.joinSpin snap hpc he

/-- every transition of the system, as a thread step or one of the four environment moves -/
inductive AnyStep (c : Cfg) (s : State) : State → Prop
  | thread (t : Nat) (s' : State) : TStep c s t s' → AnyStep c s s'
  | execute (t v : Nat) : s.pc t = .idle → AnyStep c s (callExecute s t v)
  | signal (t : Nat) : s.pc t = .idle → AnyStep c s (callSignal s t)
  | join (t : Nat) : s.pc t = .idle → AnyStep c s (callJoin s t)
  | start (t : Nat) : s.pc t = .idle → 0 < s.launched → AnyStep c s (startWorker s t)

theorem Step.any {c : Cfg} {s s' : State} (h : Step c s s') (hw : s'.wrapped = false) : AnyStep c s s' := by
  cases h with
  | act t inp s' l h => exact .thread t s' (stepThread_tstep h hw)
  | execute t v h => exact .execute t v h
  | signal t h => exact .signal t h
  | join t h => exact .join t h
  | start t h hl => exact .start t h hl

theorem StepA.step {c : Cfg} {s s' : State} (h : StepA c s s') : Step c s s' := by
  cases h with
  | act t inp s' l h _ => exact .act s t inp s' l h
  | execute t v h => exact .execute s t v h
  | signal t h => exact .signal s t h
  | join t h => exact .join s t h
  | start t h hl => exact .start s t h hl

end Babylon.ExecQ
