/-
  Invariant O of the execution-queue model: `_events != 0` episodes have exactly one owner.
  The owner is the producer whose `fetch_add` returned 0 (until the executor's outcome is known and,
  after a refusal, until its roll-back CAS succeeds), then the accepted launch (`launched`), then the
  consumer it starts — until the consumer's exit CAS.  Holds for every executor behaviour.
-/
import Babylon.ExecQ.Lemmas
namespace Babylon.ExecQ
open Babylon.Core Babylon.Gen.ExecQ

theorem Pc.owner_of_ev {p : Pc} {e : Nat} (h : p.ev? = some e) : p.owner = true := by
  cases p <;> simp [Pc.ev?] at h <;> rfl

structure InvO (s : State) : Prop where
  uniq : ∀ t u, (s.pc t).owner = true → (s.pc u).owner = true → t = u
  nol : ∀ t, (s.pc t).owner = true → s.launched = 0
  l1 : s.launched ≤ 1
  pos : ∀ t, (s.pc t).owner = true → 0 < s.events
  posl : 0 < s.launched → 0 < s.events
  zero : (∀ t, (s.pc t).owner = false) → s.launched = 0 → s.events = 0
  le : ∀ t e, (s.pc t).ev? = some e → e ≤ s.events

/-- frame: only the program counter of `t` changes, its owner status is kept and its new local copy
(if any) is at most `events` -/
theorem InvO.frame {s s' : State} (hi : InvO s) (t : Nat) (p' : Pc)
    (hpc : s'.pc = upd s.pc t p') (hl : s'.launched = s.launched) (hev : s'.events = s.events)
    (ho : p'.owner = (s.pc t).owner) (he : ∀ e, p'.ev? = some e → e ≤ s.events) : InvO s' := by
  have hown : ∀ u, (s'.pc u).owner = (s.pc u).owner := by
    intro u; rw [hpc, upd_apply]; split
    · next h => rw [h, ho]
    · rfl
  obtain ⟨uniq, nol, l1, pos, posl, zero, le⟩ := hi
  refine ⟨?_, ?_, ?_, ?_, ?_, ?_, ?_⟩
  · intro a b ha hb; rw [hown] at ha hb; exact uniq a b ha hb
  · intro a ha; rw [hown] at ha; rw [hl]; exact nol a ha
  · rw [hl]; exact l1
  · intro a ha; rw [hown] at ha; rw [hev]; exact pos a ha
  · rw [hl, hev]; exact posl
  · intro h1 h2; rw [hev]; exact zero (fun a => by rw [← hown]; exact h1 a) (by rw [← hl]; exact h2)
  · intro a e h; rw [hev]; rw [hpc, upd_apply] at h; split at h
    · exact he e h
    · exact le a e h


theorem invO_init : InvO State.init := by
  refine ⟨?_, ?_, ?_, ?_, ?_, ?_, ?_⟩ <;> simp [State.init, Pc.owner, Pc.ev?]

theorem invO_tstep {c : Cfg} {s s' : State} {t : Nat} (hi : InvO s) (h : TStep c s t s') : InvO s' := by
  cases h with
  | ticket v hpc => exact hi.frame t _ rfl rfl rfl (by rw [hpc]; rfl) (by simp [Pc.ev?])
  | publish it tk hpc hlt => exact hi.frame t _ rfl rfl rfl (by rw [hpc]; rfl) (by simp [Pc.ev?])
  | refuse ev otk hpc =>
    exact hi.frame t _ rfl rfl rfl (by rw [hpc]; rfl) (by
      intro e he; simp only [Pc.ev?, Option.some.injEq] at he; subst he; exact hi.le t _ (by rw [hpc]; rfl))
  | acceptInl ev otk hpc => exact hi.frame t _ rfl rfl rfl (by rw [hpc]; rfl) (by simp [Pc.ev?])
  | rollbackFail ev otk hpc hne =>
    exact hi.frame t _ rfl rfl rfl (by rw [hpc]; rfl) (by intro e he; simp only [Pc.ev?, Option.some.injEq] at he; omega)
  | load0 k hpc =>
    exact hi.frame t _ rfl rfl rfl (by rw [hpc]; rfl) (by intro e he; simp only [Pc.ev?, Option.some.injEq] at he; omega)
  | pop0 k ev hpc hp =>
    have hle := hi.le t ev (by rw [hpc]; rfl)
    exact hi.frame t _ rfl rfl rfl (by rw [hpc]; cases c.sizeCheck <;> rfl) (by
      intro e he; cases hc : c.sizeCheck <;> simp only [hc, Pc.ev?, Option.some.injEq, if_true, if_false, Bool.false_eq_true] at he <;> omega)
  | popK k ev got n hpc hp =>
    have hle := hi.le t ev (by rw [hpc]; rfl)
    exact hi.frame t _ rfl rfl rfl (by rw [hpc]; rfl) (by intro e he; simp only [Pc.ev?, Option.some.injEq] at he; omega)
  | reload k ev hpc =>
    exact hi.frame t _ rfl rfl rfl (by rw [hpc]; rfl) (by intro e he; simp only [Pc.ev?, Option.some.injEq] at he; omega)
  | cbBegin k ev b hpc =>
    have hle := hi.le t ev (by rw [hpc]; rfl)
    exact hi.frame t _ rfl rfl rfl (by rw [hpc]; rfl) (by intro e he; simp only [Pc.ev?, Option.some.injEq] at he; omega)
  | cbItem k ev b rest hpc =>
    have hle := hi.le t ev (by rw [hpc]; rfl)
    exact hi.frame t _ rfl rfl rfl (by rw [hpc]; rfl) (by intro e he; simp only [Pc.ev?, Option.some.injEq] at he; omega)
  | cbEnd k ev hpc =>
    have hle := hi.le t ev (by rw [hpc]; rfl)
    exact hi.frame t _ rfl rfl rfl (by rw [hpc]; rfl) (by intro e he; simp only [Pc.ev?, Option.some.injEq] at he; omega)
  | size k ev hpc =>
    have hle := hi.le t ev (by rw [hpc]; rfl)
    exact hi.frame t _ rfl rfl rfl (by rw [hpc]; split <;> rfl) (by
      intro e he; split at he <;> simp only [Pc.ev?, Option.some.injEq] at he <;> omega)
  | exitFail k ev hpc hne =>
    exact hi.frame t _ rfl rfl rfl (by rw [hpc]; rfl) (by intro e he; simp only [Pc.ev?, Option.some.injEq] at he; omega)
  | joinRet snap hpc he => exact hi.frame t _ rfl rfl rfl (by rw [hpc]; rfl) (by simp [Pc.ev?])
  | joinSpin snap hpc he => exact hi
  | signalLaunch otk hpc h0 =>
    -- events = 0: nobody owns the episode; `t` becomes the owner with local copy 1 = events
    obtain ⟨uniq, nol, l1, pos, posl, zero, le⟩ := hi
    have hno : ∀ u, (s.pc u).owner = false := by
      intro u; cases ho : (s.pc u).owner
      · rfl
      · have := pos u ho; omega
    have hl0 : s.launched = 0 := by
      cases hl : s.launched with
      | zero => rfl
      | succ n => have := posl (by omega); omega
    refine ⟨?_, ?_, ?_, ?_, ?_, ?_, ?_⟩
    · intro a b ha hb
      simp only [upd_apply] at ha hb
      split at ha <;> split at hb
      · next h1 h2 => rw [h1, h2]
      · rw [hno] at hb; cases hb
      · rw [hno] at ha; cases ha
      · rw [hno] at ha; cases ha
    · intro a _; exact hl0
    · exact l1
    · intro _ _; show 0 < s.events + 1; omega
    · intro _; show 0 < s.events + 1; omega
    · intro h _; have := h t; simp [Pc.owner] at this
    · intro a e h
      simp only [upd_apply] at h
      show e ≤ s.events + 1
      split at h
      · simp only [Pc.ev?, Option.some.injEq] at h; omega
      · have := Pc.owner_of_ev h; rw [hno] at this; cases this
  | signalRet otk hpc hne =>
    obtain ⟨uniq, nol, l1, pos, posl, zero, le⟩ := hi
    have hown : ∀ u, ((upd s.pc t Pc.idle) u).owner = (s.pc u).owner := by
      intro u; rw [upd_apply]; split
      · next h => rw [h, hpc]; rfl
      · rfl
    refine ⟨?_, ?_, ?_, ?_, ?_, ?_, ?_⟩
    · intro a b ha hb; simp only [hown] at ha hb; exact uniq a b ha hb
    · intro a ha; simp only [hown] at ha; exact nol a ha
    · exact l1
    · intro _ _; show 0 < s.events + 1; omega
    · intro _; show 0 < s.events + 1; omega
    · intro h1 h2
      have := zero (fun a => by rw [← hown]; exact h1 a) h2
      exact absurd this hne
    · intro a e h
      simp only [upd_apply] at h
      show e ≤ s.events + 1
      split at h
      · simp [Pc.ev?] at h
      · have := le a e h; omega
  | acceptAsync ev otk hpc =>
    obtain ⟨uniq, nol, l1, pos, posl, zero, le⟩ := hi
    have hto : (s.pc t).owner = true := by rw [hpc]; rfl
    have hl0 := nol t hto
    have hno : ∀ u, ((upd s.pc t Pc.idle) u).owner = false := by
      intro u; rw [upd_apply]; split
      · rfl
      · next h =>
        cases ho : (s.pc u).owner
        · rfl
        · exact absurd (uniq u t ho hto) h
    refine ⟨?_, ?_, ?_, ?_, ?_, ?_, ?_⟩
    · intro a b ha; rw [hno] at ha; cases ha
    · intro a ha; rw [hno] at ha; cases ha
    · show s.launched + 1 ≤ 1; omega
    · intro a ha; rw [hno] at ha; cases ha
    · intro _; exact pos t hto
    · intro _ h2; simp at h2
    · intro a e h
      have := Pc.owner_of_ev h; rw [hno] at this; cases this
  | rollbackOk ev otk hpc he =>
    obtain ⟨uniq, nol, l1, pos, posl, zero, le⟩ := hi
    have hto : (s.pc t).owner = true := by rw [hpc]; rfl
    have hl0 := nol t hto
    have hno : ∀ u, ((upd s.pc t Pc.idle) u).owner = false := by
      intro u; rw [upd_apply]; split
      · rfl
      · next h =>
        cases ho : (s.pc u).owner
        · rfl
        · exact absurd (uniq u t ho hto) h
    refine ⟨?_, ?_, ?_, ?_, ?_, ?_, ?_⟩
    · intro a b ha; rw [hno] at ha; cases ha
    · intro a ha; rw [hno] at ha; cases ha
    · exact l1
    · intro a ha; rw [hno] at ha; cases ha
    · intro h; simp only at h; omega
    · intro _ _; rfl
    · intro a e h
      have := Pc.owner_of_ev h; rw [hno] at this; cases this
  | exitOk k ev hpc he =>
    obtain ⟨uniq, nol, l1, pos, posl, zero, le⟩ := hi
    have hto : (s.pc t).owner = true := by rw [hpc]; rfl
    have hl0 := nol t hto
    have hno : ∀ u, ((upd s.pc t Pc.idle) u).owner = false := by
      intro u; rw [upd_apply]; split
      · rfl
      · next h =>
        cases ho : (s.pc u).owner
        · rfl
        · exact absurd (uniq u t ho hto) h
    refine ⟨?_, ?_, ?_, ?_, ?_, ?_, ?_⟩
    · intro a b ha; rw [hno] at ha; cases ha
    · intro a ha; rw [hno] at ha; cases ha
    · exact l1
    · intro a ha; rw [hno] at ha; cases ha
    · intro h; simp only at h; omega
    · intro _ _; rfl
    · intro a e h
      have := Pc.owner_of_ev h; rw [hno] at this; cases this

theorem invO_any {c : Cfg} {s s' : State} (hi : InvO s) (h : AnyStep c s s') : InvO s' := by
  cases h with
  | thread t s' h => exact invO_tstep hi h
  | execute t v hpc => exact hi.frame t _ rfl rfl rfl (by rw [hpc]; rfl) (by simp [Pc.ev?])
  | signal t hpc => exact hi.frame t _ rfl rfl rfl (by rw [hpc]; rfl) (by simp [Pc.ev?])
  | join t hpc => exact hi.frame t _ rfl rfl rfl (by rw [hpc]; rfl) (by simp [Pc.ev?])
  | start t hpc hl =>
    obtain ⟨uniq, nol, l1, pos, posl, zero, le⟩ := hi
    have hno : ∀ u, (s.pc u).owner = false := by
      intro u; cases ho : (s.pc u).owner
      · rfl
      · have := nol u ho; omega
    refine ⟨?_, ?_, ?_, ?_, ?_, ?_, ?_⟩
    · intro a b ha hb
      simp only [startWorker, upd_apply] at ha hb
      split at ha <;> split at hb
      · next h1 h2 => rw [h1, h2]
      · rw [hno] at hb; cases hb
      · rw [hno] at ha; cases ha
      · rw [hno] at ha; cases ha
    · intro a _; show s.launched - 1 = 0; omega
    · show s.launched - 1 ≤ 1; omega
    · intro _ _; exact posl hl
    · intro _; exact posl hl
    · intro h _; have := h t; simp [startWorker, Pc.owner] at this
    · intro a e h
      simp only [startWorker, upd_apply] at h
      split at h
      · simp [Pc.ev?] at h
      · exact le a e h
end Babylon.ExecQ
