/-
  Hand-off clauses of the execution queue over the release/acquire VIEW memory model
  (Babylon/Core/MemView.lean): which thread views the `_events` protocol transfers.

  Locations: `events` (the counter) and `priv k` (consumer-private state, plain accesses modelled as
  accesses of any order of the view model — a read may return ANY message the reader's view admits).
  `VStep o` is one action of any thread, in any order, with any admissible stale read:
      signal        `_events.fetch_add(1, o.sig)`
      exitCas       `_events.compare_exchange_strong(e, 0, o.exitS)` (failure order `o.exitF`), success or failure
      rollbackCas   the same with `o.rbS` / `o.rbF`
      load          any load of `_events` (consumer's loads, join's load), any order
      privW/privR   accesses of private locations
      handoff a b   the executor starts on thread `b` a task submitted by thread `a` (b's views absorb a's
                    current view — the executor's own synchronisation, C07's contract; `a = b` for the inline
                    executor is the identity)
  It over-approximates the protocol (no program order is imposed), which is all the happens-before
  claims need: every write of `_events` is an RMW, so the messages of `_events` form ONE release sequence
  (`Chain`: message views grow along the history), and
      a releasing RMW publishes its thread's view into its message and into every later message;
      an acquiring RMW / load absorbs the view of the message it reads.
  The orders are the generated constants (`codeOrds`), so a weakened order breaks `codeOrds_ok`.
  Core Lean only.
-/
import Babylon.Core.MemView
import Babylon.Core.Reach
import Babylon.Gen.ExecQ

namespace Babylon.ExecQ.View
open Babylon.Core Babylon.Core.MemView Babylon.Gen.ExecQ

inductive Loc
  | events
  | priv (k : Nat)
  deriving DecidableEq, Repr

structure Ords where
  sig : Core.Ord
  exitS : Core.Ord
  exitF : Core.Ord
  rbS : Core.Ord
  rbF : Core.Ord
  join : Core.Ord
  deriving DecidableEq, Repr

/-- the orders written in signal_push_event / consume_until_empty / start_consumer / join -/
def codeOrds : Ords := ⟨ordSignal, ordExitS, ordExitF, ordRollbackS, ordRollbackF, ordJoin⟩

/-- executor hand-off: thread `b` starts running a task submitted by thread `a` -/
def handoffMem (m : Mem Loc) (a b : Nat) : Mem Loc :=
  let T : TView Loc := ⟨(m.tv b).cur.join (m.tv a).cur, (m.tv b).acq.join (m.tv a).cur, (m.tv b).rel⟩
  { m with tv := MemView.upd m.tv b T }

inductive VStep (o : Ords) : Mem Loc → Mem Loc → Prop
  | signal (m m' : Mem Loc) (t old : Nat) : m.rmw t .events o.sig (· + 1) = some (m', old) → VStep o m m'
  | exitCas (m m' : Mem Loc) (t e ts : Nat) (ok : Bool) (obs : Nat) :
      m.cas t .events o.exitS o.exitF e 0 ts = some (m', ok, obs) → VStep o m m'
  | rollbackCas (m m' : Mem Loc) (t e ts : Nat) (ok : Bool) (obs : Nat) :
      m.cas t .events o.rbS o.rbF e 0 ts = some (m', ok, obs) → VStep o m m'
  | load (m m' : Mem Loc) (t : Nat) (ord : Core.Ord) (ts v : Nat) : m.read t .events ord ts = some (m', v) → VStep o m m'
  | privW (m : Mem Loc) (t k : Nat) (ord : Core.Ord) (v : Nat) : VStep o m (m.write t (.priv k) ord v)
  | privR (m m' : Mem Loc) (t k : Nat) (ord : Core.Ord) (ts v : Nat) : m.read t (.priv k) ord ts = some (m', v) → VStep o m m'
  | handoff (m : Mem Loc) (a b : Nat) : VStep o m (handoffMem m a b)

/-- `m2` is reached from `m1` by any number of protocol actions of any threads -/
abbrev Path (o : Ords) (m1 m2 : Mem Loc) : Prop := Reachable (· = m1) (VStep o) m2

/-- the messages of `_events` form one release sequence: views grow along the history -/
def Chain (m : Mem Loc) : Prop :=
  ∀ (i j : Nat) (mi mj : Msg Loc), i ≤ j → (m.hist .events)[i]? = some mi → (m.hist .events)[j]? = some mj → mi.view ≤ mj.view

theorem chain_init (iv : Loc → Nat) : Chain (Mem.init iv) := by
  unfold Chain
  intro i j mi mj _ hi hj
  simp only [Mem.init] at hi hj
  have e1 : i = 0 := by
    rcases i with _ | i
    · rfl
    · simp at hi
  have e2 : j = 0 := by
    rcases j with _ | j
    · rfl
    · simp at hj
  subst e1; subst e2
  rw [hi] at hj; cases hj
  exact View.le_refl _

theorem chain_of_hist {m m' : Mem Loc} (h : m'.hist .events = m.hist .events) (hc : Chain m) : Chain m' := by
  unfold Chain at *
  intro i j mi mj hij hi hj
  rw [h] at hi hj
  exact hc i j mi mj hij hi hj

theorem getElem?_snoc {α : Type} (xs : List α) (a b : α) (i : Nat) (h : (xs ++ [a])[i]? = some b) :
    (i < xs.length ∧ xs[i]? = some b) ∨ (i = xs.length ∧ b = a) := by
  rcases Nat.lt_trichotomy i xs.length with hlt | heq | hgt
  · left; rw [List.getElem?_append_left hlt] at h; exact ⟨hlt, h⟩
  · right; subst heq; simp at h; exact ⟨rfl, h.symm⟩
  · rw [List.getElem?_eq_none (by simp; omega)] at h; cases h

theorem chain_rmw {m m' : Mem Loc} {t : Nat} {ord : Core.Ord} {f : Nat → Nat} {old : Nat}
    (h : m.rmw t .events ord f = some (m', old)) (hc : Chain m) : Chain m' := by
  obtain ⟨msg, W, hlast, _, hh, _, _, hmW, _⟩ := Mem.rmw_facts h
  have hl := getLast?_getElem? _ _ hlast
  unfold Chain at *
  intro i j mi mj hij hi hj
  rw [hh] at hi hj
  rcases getElem?_snoc _ _ _ _ hj with ⟨hjl, hj'⟩ | ⟨hje, rfl⟩
  · rcases getElem?_snoc _ _ _ _ hi with ⟨_, hi'⟩ | ⟨hie, _⟩
    · exact hc i j mi mj hij hi' hj'
    · omega
  · rcases getElem?_snoc _ _ _ _ hi with ⟨hil, hi'⟩ | ⟨_, rfl⟩
    · exact View.le_trans (hc i _ mi msg (by omega) hi' hl) hmW
    · exact View.le_refl _

theorem chain_cas {m m' : Mem Loc} {t : Nat} {so fo : Core.Ord} {e d ts : Nat} {ok : Bool} {obs : Nat}
    (h : m.cas t .events so fo e d ts = some (m', ok, obs)) (hc : Chain m) : Chain m' := by
  rcases Mem.cas_spec h with ⟨_, _, h1⟩ | ⟨_, _, h1⟩
  · exact chain_rmw h1 hc
  · exact chain_of_hist (by rw [Mem.read_hist h1]) hc

theorem handoff_ext (m : Mem Loc) (a b : Nat) : m.Ext (handoffMem m a b) := by
  refine ⟨fun l => ⟨[], by simp [handoffMem]⟩, fun t => ?_, fun t => ?_, View.le_refl _⟩
  · simp only [handoffMem, MemView.upd_apply]
    split
    · next h => subst h; exact View.le_join_left _ _
    · exact View.le_refl _
  · simp only [handoffMem, MemView.upd_apply]
    split
    · next h => subst h; exact View.le_join_left _ _
    · exact View.le_refl _

theorem vstep_ext {o : Ords} {m m' : Mem Loc} (h : VStep o m m') : m.Ext m' := by
  cases h with
  | signal _ t old h => exact Mem.rmw_ext h
  | exitCas _ t e ts ok obs h => exact Mem.cas_ext h
  | rollbackCas _ t e ts ok obs h => exact Mem.cas_ext h
  | load _ t ord ts v h => exact Mem.read_ext h
  | privW t k ord v => exact Mem.write_ext _ _ _ _ _
  | privR _ t k ord ts v h => exact Mem.read_ext h
  | handoff a b => exact handoff_ext m a b

theorem vstep_chain {o : Ords} {m m' : Mem Loc} (h : VStep o m m') (hc : Chain m) : Chain m' := by
  cases h with
  | signal _ t old h => exact chain_rmw h hc
  | exitCas _ t e ts ok obs h => exact chain_cas h hc
  | rollbackCas _ t e ts ok obs h => exact chain_cas h hc
  | load _ t ord ts v h => exact chain_of_hist (by rw [Mem.read_hist h]) hc
  | privW t k ord v => exact chain_of_hist (Mem.write_hist_other _ _ _ _ _ _ (by simp)) hc
  | privR _ t k ord ts v h => exact chain_of_hist (by rw [Mem.read_hist h]) hc
  | handoff a b => exact chain_of_hist rfl hc

theorem path_ext {o : Ords} {m1 m2 : Mem Loc} (h : Path o m1 m2) : m1.Ext m2 := by
  induction h with
  | base hi => subst hi; exact Mem.Ext.refl _
  | tail _ hst ih => exact ih.trans (vstep_ext hst)

theorem path_chain {o : Ords} {m1 m2 : Mem Loc} (h : Path o m1 m2) (hc : Chain m1) : Chain m2 := by
  induction h with
  | base hi => subst hi; exact hc
  | tail _ hst ih => exact vstep_chain hst ih

/-- every memory reachable from an initial memory has the release-sequence shape -/
theorem reach_chain {o : Ords} (iv : Loc → Nat) {m : Mem Loc} (h : Path o (Mem.init iv) m) : Chain m :=
  path_chain h (chain_init iv)

/-- **Publication.**  A releasing RMW on `_events` by thread `c` (a consumer's successful exit CAS, a
roll-back, a signal) at memory `m0` creates message number `m0.len events`; in every later memory that
message is still there, carries `c`'s view at that moment, and so does every later message. -/
theorem release_published {o : Ords} {m0 m1 m2 : Mem Loc} {c : Nat} {ord : Core.Ord} {f : Nat → Nat} {old : Nat}
    (hc : Chain m0) (hx : m0.rmw c .events ord f = some (m1, old)) (hrel : ord.releases = true)
    (hp : Path o m1 m2) :
    Chain m2 ∧ m0.len .events < m2.len .events ∧
    ∀ j mj, m0.len .events ≤ j → (m2.hist .events)[j]? = some mj → (m0.tv c).cur ≤ mj.view := by
  have hc2 := path_chain hp (chain_rmw hx hc)
  refine ⟨hc2, ?_, ?_⟩
  · have h1 := (path_ext hp).len_le .events
    obtain ⟨_, _, _, _, hh, _⟩ := Mem.rmw_facts hx
    have : m1.len .events = m0.len .events + 1 := by simp [Mem.len, hh]
    omega
  obtain ⟨msg, W, _, _, hh, _, _, _, hrelW, _⟩ := Mem.rmw_facts hx
  have hn : (m1.hist .events)[m0.len .events]? = some ⟨f msg.val, W⟩ := by
    rw [hh]; simp [Mem.len]
  have hn2 := (path_ext hp).get? _ _ _ hn
  intro j mj hj hmj
  exact View.le_trans (hrelW hrel) (hc2 _ j _ mj hj hn2 hmj)

/-- an acquiring RMW absorbs the view of everything published on `_events` before it -/
theorem acquire_rmw_sees {m2 m3 : Mem Loc} {p : Nat} {ord : Core.Ord} {g : Nat → Nat} {old : Nat} {n : Nat} {V : View Loc}
    (hpub : ∀ j mj, n ≤ j → (m2.hist .events)[j]? = some mj → V ≤ mj.view) (hn : n < m2.len .events)
    (hs : m2.rmw p .events ord g = some (m3, old)) (hacq : ord.acquires = true) : V ≤ (m3.tv p).cur := by
  obtain ⟨msg, W, hlast, _, _, _, _, _, _, _, _, _, _, hcur, _⟩ := Mem.rmw_facts hs
  have hl := getLast?_getElem? _ _ hlast
  exact View.le_trans (hpub _ msg (by simp only [Mem.len] at hn; omega) hl) (hcur hacq)

/-- an acquiring load that reads message `ts ≥ n` absorbs the view of everything published up to `n` -/
theorem acquire_load_sees {m2 m3 : Mem Loc} {j : Nat} {ord : Core.Ord} {ts v n : Nat} {V : View Loc}
    (hpub : ∀ j mj, n ≤ j → (m2.hist .events)[j]? = some mj → V ≤ mj.view) (hn : n ≤ ts)
    (hs : m2.read j .events ord ts = some (m3, v)) (hacq : ord.acquires = true) : V ≤ (m3.tv j).cur := by
  obtain ⟨msg, hm, _, _, rfl⟩ := Mem.read_spec hs
  simp only [MemView.upd_same]
  exact View.le_trans (hpub ts msg hn hm) (TView.read_acquires _ _ _ _ _ hacq)


/-- a thread's own store stays in its view: its timestamp is at most the thread's view of the location -/
theorem write_ts_in_view (m : Mem Loc) (t : Nat) (l : Loc) (ord : Core.Ord) (v : Nat) {m0 : Mem Loc}
    (hext : (m.write t l ord v).Ext m0) : m.len l ≤ (m0.tv t).cur.get l := by
  have h2 := hext.cur t l
  simp [TView.wrote] at h2
  omega

/-- **Hand-off through `_events` (RMW reader).**  Thread `c` performs a releasing RMW on `_events` at `m0`;
after any further protocol actions thread `p` performs an acquiring RMW on `_events`: everything `c` had
seen or done is in `p`'s view — in EVERY execution of the view model. -/
theorem handoff_rmw {o : Ords} {m0 m1 m2 m3 : Mem Loc} {c p : Nat} {oR oA : Core.Ord} {f g : Nat → Nat} {old old' : Nat}
    (hc : Chain m0) (hx : m0.rmw c .events oR f = some (m1, old)) (hrel : oR.releases = true)
    (hp : Path o m1 m2) (hs : m2.rmw p .events oA g = some (m3, old')) (hacq : oA.acquires = true) :
    (m0.tv c).cur ≤ (m3.tv p).cur := by
  obtain ⟨_, hn, hpub⟩ := release_published hc hx hrel hp
  exact acquire_rmw_sees hpub hn hs hacq

/-- **Hand-off through `_events` (load reader).**  The same for an acquiring load that reads the message
of `c`'s RMW or any later one. -/
theorem handoff_load {o : Ords} {m0 m1 m2 m3 : Mem Loc} {c j : Nat} {oR oA : Core.Ord} {f : Nat → Nat} {old ts v : Nat}
    (hc : Chain m0) (hx : m0.rmw c .events oR f = some (m1, old)) (hrel : oR.releases = true)
    (hp : Path o m1 m2) (hs : m2.read j .events oA ts = some (m3, v)) (hacq : oA.acquires = true)
    (hts : m0.len .events ≤ ts) : (m0.tv c).cur ≤ (m3.tv j).cur := by
  obtain ⟨_, _, hpub⟩ := release_published hc hx hrel hp
  exact acquire_load_sees hpub hts hs hacq

theorem codeOrds_ok :
    codeOrds.exitS.releases = true ∧ codeOrds.rbS.releases = true ∧ codeOrds.sig.releases = true ∧
    codeOrds.sig.acquires = true ∧ codeOrds.join.acquires = true := by decide

/-! ### Negative controls: concrete executions of the view model -/

/-- consumer incarnation k (thread 1) writes private location 0 := 7, leaves with its exit CAS (order
`oExit`); producer thread 2 signals with order `oSig` (this RMW launches incarnation k+1 on thread 2) and
then reads the private location at timestamp `stale` (0 = the initial message, 1 = incarnation k's
write).  `none` = that read is not admissible. -/
def handOffRun (oExit oSig : Core.Ord) (stale : Nat) : Option Nat := do
  let m0 : Mem Loc := Mem.init (fun _ => 0)
  let (m1, _) ← m0.rmw 1 .events .acqrel (· + 1)
  let m2 := m1.write 1 (.priv 0) .rlx 7
  let (m3, ok, _) ← m2.cas 1 .events oExit .acq 1 0 1
  if ok = false then none else
  let (m4, _) ← m3.rmw 2 .events oSig (· + 1)
  let (_, v) ← m4.read 2 (.priv 0) .rlx stale
  pure v

/-- the same with a joiner (thread 3) that loads `_events` with order `oJoin`, reads the 0 written by the
exit CAS (timestamp 2), and then reads the private location at timestamp `stale` -/
def joinRun (oExit oJoin : Core.Ord) (stale : Nat) : Option (Nat × Nat) := do
  let m0 : Mem Loc := Mem.init (fun _ => 0)
  let (m1, _) ← m0.rmw 1 .events .acqrel (· + 1)
  let m2 := m1.write 1 (.priv 0) .rlx 7
  let (m3, ok, _) ← m2.cas 1 .events oExit .acq 1 0 1
  if ok = false then none else
  let (m4, z) ← m3.read 3 .events oJoin 2
  let (_, v) ← m4.read 3 (.priv 0) .rlx stale
  pure (z, v)

end Babylon.ExecQ.View
